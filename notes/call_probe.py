import icontract
for name in ("__call__", "register", "mro", "__lt__", "__eq__", "__str__", "__hash__", "__len__", "__iter__", "__getitem__", "__contains__", "__init_subclass__", "__repr__", "__format__", "__sizeof__", "__dir__", "__reduce__"):
    try:
        ns = {}
        exec("import icontract\nclass A(icontract.DBC):\n    @icontract.require(lambda x: x > 0)\n    def %s(self, x=1):\n        return x\n" % name, ns)
        print(name, "accepted")
    except TypeError as e:
        print(name, "REJECTED:", str(e)[:90])
