import icontract

def _helper(self, x=1):
    self.x = x

@icontract.invariant(lambda self: self.x > 0)
class A:
    __init__ = _helper
    def get(self):
        return self.x

try:
    A(-1)
    print("A(-1) constructed without a violation; extra attribute:", "_helper" in A.__dict__)
except icontract.ViolationError:
    print("violation (as expected)")

class B(icontract.DBC):
    __init__ = _helper
def _pos(self): return self.x > 0
B = icontract.invariant(_pos)(B)
try:
    B(-1); print("B(-1) constructed without a violation")
except icontract.ViolationError:
    print("violation (as expected)")

def _set_impl(self, k, v):
    object.__setattr__(self, k, v)

@icontract.invariant(lambda self: self.x > 0, check_on=icontract.InvariantCheckEvent.SETATTR)
class C:
    def __init__(self):
        self.x = 1
    __setattr__ = _set_impl

c = C()
try:
    c.x = -1
    print("c.x = -1 accepted without a violation")
except icontract.ViolationError:
    print("violation (as expected)")
