import icontract, inspect, abc, functools, asyncio
@icontract.invariant(lambda self: True)
class A:
    def __init__(this): this.x=1
    def foo(this, y): return y
try:
    a=A(); print(a.foo(2))
except Exception as e: print(type(e).__name__, str(e)[:100])
# metadata
def deco(f):
    @functools.wraps(f)
    def w(*a, **k): return f(*a, **k)
    return w
@icontract.require(lambda x: x>0)
@deco
@icontract.ensure(lambda result: result>0)
@deco
@icontract.require(lambda y: y>0)
def f(x:int, y:int=1, *, z:'str'='a')->int:
    "doc"
    return x
chain=[]; g=f
while True:
    chain.append((g.__name__, hasattr(g,'__preconditions__'), id(getattr(g,'__preconditions__',None))))
    if not hasattr(g,'__wrapped__'): break
    g=g.__wrapped__
print(chain)
chk=icontract._checkers.find_checker(f)
print(len(chk.__preconditions__[0]), len(chk.__postconditions__), inspect.signature(f), f.__doc__, f.__annotations__)
try: f(1, y=-1)
except icontract.ViolationError as e: print('viol ok')
class Abs(icontract.DBC):
    @abc.abstractmethod
    @icontract.require(lambda x: x>0)
    def m(self,x): ...
    @icontract.require(lambda x: x>0)
    @abc.abstractmethod
    def m2(self,x): ...
print(Abs.__abstractmethods__)
@icontract.require(lambda x: x>0)
async def co(x): return x
print(inspect.iscoroutinefunction(co), asyncio.iscoroutinefunction(co))
# slots
@icontract.invariant(lambda self: self.x>0)
class S:
    __slots__=('x',)
    def __init__(self,x): self.x=x
    def get(self): return self.x
s=S(1); print(s.get()); 
try: S(-1)
except icontract.ViolationError: print('slots viol ok')
# result identity / exceptions identity
class MyE(BaseException): pass
ex=MyE()
@icontract.ensure(lambda result: True)
def r(): raise ex
try: r()
except BaseException as e: print('same exc', e is ex)
