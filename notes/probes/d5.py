"""ad-hoc differential probe for C05: icontract's resolution vs inspect.bind / body (throwaway)."""
import icontract, inspect, itertools, random, sys
KINDS=['po','pk','va','ko','vk']
def gen_sigs(maxn):
    # well-formed signatures: po* pk* va? ko* vk?
    names=['a','b','c','d']
    for npo in range(0,3):
        for npk in range(0,3):
            for va in (0,1):
                for nko in range(0,3):
                    for vk in (0,1):
                        n=npo+npk+nko
                        if n>maxn or n+va+vk==0: continue
                        # defaults: trailing among positionals; any among ko
                        for dpos in range(0,npo+npk+1):
                            for dko in range(0, 2**nko):
                                yield (npo,npk,va,nko,vk,dpos,dko)
def build(sig):
    npo,npk,va,nko,vk,dpos,dko=sig
    names=['a','b','c','d'][:npo+npk+nko]
    parts=[]; i=0
    npos=npo+npk
    for k in range(npos):
        nm=names[i]; i+=1
        dflt = f"='{nm}0'" if k>=npos-dpos else ''
        parts.append(nm+dflt)
        if k==npo-1: parts.append('/')
    if va: parts.append('*va')
    elif nko: parts.append('*')
    for k in range(nko):
        nm=names[i]; i+=1
        dflt = f"='{nm}0'" if (dko>>k)&1 else ''
        parts.append(nm+dflt)
    if vk: parts.append('**vk')
    src="def f(%s):\n    BODY.update(locals())\n    return 1\n"%(', '.join(parts))
    return src, names
bad=0; n=0; okcalls=0
seen_kinds=set()
for sig in gen_sigs(3):
    src,names=build(sig)
    BODY={}
    ns={'BODY':BODY}
    exec(src,ns); f=ns['f']
    SEEN={}
    def mk(nm):
        def cond(**kw): SEEN[nm]=kw[nm]; return True
        # need explicit parameter name: build via exec
        d={}
        exec(f"def cond({nm}):\n    SEEN['{nm}']={nm}\n    return True\n", {'SEEN':SEEN}, d)
        return d['cond']
    g=f
    for nm in names: g=icontract.require(mk(nm))(g)
    s=inspect.signature(f)
    # call shapes
    vals=[1,2,3,4]
    for npos_args in range(0,5):
        for kwset in itertools.chain.from_iterable(itertools.combinations(names+['x'],r) for r in range(0,len(names)+2)):
            args=tuple(vals[:npos_args]); kwargs={k:'K'+k for k in kwset}
            try: ba=s.bind(*args,**kwargs)
            except TypeError: continue
            ba.apply_defaults()
            BODY.clear(); SEEN.clear()
            n+=1
            try:
                g(*args,**kwargs)
            except TypeError as e:
                # allowed only if... every named param is always provided when bind succeeds
                bad+=1
                if bad<15: print('TypeError', src.split('\n')[0], args, kwargs, str(e)[-80:])
                continue
            okcalls+=1
            for nm in names:
                if SEEN.get(nm,'<missing>') is not BODY.get(nm) and SEEN.get(nm)!=BODY.get(nm):
                    bad+=1
                    if bad<15: print('MISMATCH', src.split('\n')[0], args, kwargs, nm, 'cond', SEEN.get(nm), 'body', BODY.get(nm))
print('calls',n,'ok',okcalls,'bad',bad)
