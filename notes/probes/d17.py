"""ad-hoc probe for C17: definitions never change earlier classes' contracts (throwaway)."""
import icontract, random, sys
from icontract import InvariantCheckEvent as E
seed=int(sys.argv[1]) if len(sys.argv)>1 else 0
rnd=random.Random(seed)
def snap(cls):
    out={}
    for d in ('__invariants__','__invariants_on_call__','__invariants_on_setattr__'):
        l=getattr(cls,d,None)
        out[d]=None if l is None else tuple(id(c) for c in l)
    for name in ('m','p','s','c'):
        if hasattr(cls,name):
            v=getattr(cls,name)
            fs=[v.fget,v.fset] if isinstance(v,property) else [v]
            for i,f in enumerate(fs):
                if f is None: continue
                chk=icontract._checkers.find_checker(f)
                out[(name,i)]=None if chk is None else (tuple(tuple(id(c) for c in g) for g in chk.__preconditions__), tuple(id(c) for c in chk.__postconditions__), tuple(id(c) for c in chk.__postcondition_snapshots__))
    return out
stats={'histories':0,'steps':0,'changed':0,'create_fail':0}; ex=[]
for h in range(300):
    classes=[]; snaps={}
    stats['histories']+=1
    desc=[]
    for k in range(rnd.randint(2,7)):
        bases=tuple(rnd.sample(classes, min(len(classes), rnd.choice([0,1,1,2])))) or (icontract.DBC,)
        ns={}
        d={'bases':[b.__name__ for b in bases]}
        if rnd.random()<0.6:
            def m(self, x=1): return x
            f=m
            if rnd.random()<0.5: f=icontract.ensure(lambda result: True)(f)
            if rnd.random()<0.4 and icontract._checkers.find_checker(f): f=icontract.snapshot(lambda x: x, name='s%d_%d'%(h,k))(f)
            if rnd.random()<0.5: f=icontract.require(lambda x: True)(f)
            ns['m']=f; d['m']=True
        if rnd.random()<0.3:
            def g(self): return 1
            if rnd.random()<0.5: g=icontract.ensure(lambda result: True)(g)
            ns['p']=property(g)
        if rnd.random()<0.2:
            def sf(x=1): return x
            if rnd.random()<0.7: sf=icontract.require(lambda x: True)(sf)
            ns['s']=staticmethod(sf)
        try:
            cls=icontract.DBCMeta('K%d'%k,bases,ns)
            invs=[]
            for _ in range(rnd.choice([0,0,1,2])):
                co=rnd.choice([E.CALL,E.SETATTR,E.ALL]); invs.append(str(co))
                cls=icontract.invariant(lambda self: True, check_on=co)(cls)
            d['invs']=invs
        except (TypeError,ValueError) as e:
            stats['create_fail']+=1; desc.append(('fail',d,str(e)[:40])); continue
        desc.append(d)
        stats['steps']+=1
        for c in classes:
            now=snap(c)
            if now!=snaps[c]:
                stats['changed']+=1
                if len(ex)<3: ex.append((c.__name__, desc[:], {k:(snaps[c][k],now[k]) for k in now if now[k]!=snaps[c].get(k)}))
                snaps[c]=now
        classes.append(cls); snaps[cls]=snap(cls)
print(stats)
for e in ex: print(e)
