"""ad-hoc differential probe for C01/C02/C08/C09/C11/C13/C16 at function level (throwaway)."""
import icontract, random, asyncio, sys, inspect
from icontract._checkers import _IN_PROGRESS
seed=int(sys.argv[1]) if len(sys.argv)>1 else 0
rnd=random.Random(seed)
class EX(Exception): pass
class BX(BaseException): pass
class Err(Exception): pass
def ref(groups, snaps, posts, body, ans, errform):
    """reference semantics -> (events, outcome)"""
    ev=[]
    def violation(c):
        f=errform[c]
        if f=='class': return ('raise','Err',c)
        if f=='inst': return ('raise','inst',c)
        if f=='fac':
            ev.append(('fac',c)); return ('raise','fac',c)
        if f=='facbad':
            ev.append(('fac',c)); return ('raise','TypeError',None)
        if f=='facraise':
            ev.append(('fac',c)); return ('raise','EXfac',c)
    def evalc(c):
        ev.append(('cond',c)); a=ans[c]
        if a=='T': return True,None
        if a=='F': return False,None
        if a=='R': return None,('raise','EX',c)
        if a=='B': return None,('raise','BX',c)
        if a=='N': return None,('raise','ValueErrorNeg',c)   # bool raises
    # pre
    last=None; lastv=None
    for g in groups:
        last=None
        for c in g:
            t,exc=evalc(c)
            if exc: return ev,exc
            if not t:
                last=c; lastv=violation(c)
                if lastv[1] in ('TypeError','EXfac'): return ev,lastv
                break
        if last is None: break
    if groups and last is not None:
        return ev, lastv
    if posts and snaps:
        for k in snaps:
            ev.append(('cap',k))
            if ans[k]=='R': return ev,('raise','EX',k)
    ev.append(('body',))
    if body=='raise': return ev,('raise','bodyEX',None)
    for c in posts:
        t,exc=evalc(c)
        if exc: return ev,exc
        if not t: return ev, violation(c)
    return ev,('ret','RES')
stats={'n':0,'mismatch':0,'ip_leak':0}
shown=0
RES=object()
def build(isasync, groupsdef, snaps, posts, body, ans, errform, log):
    insts={}
    def mk(c, role):
        def cond(x, **kw):
            log.append(('cond',c)); a=ans[c]
            if a=='T': return 1
            if a=='F': return 0
            if a=='R': raise EX(c)
            if a=='B': raise BX(c)
            if a=='N':
                class NB:
                    def __bool__(s): raise ZeroDivisionError()
                return NB()
        if role=='post':
            def cond2(x, result, OLD=None): return cond(x)
            f=cond2
        else:
            def cond1(x): return cond(x)
            f=cond1
        f.__name__='c%d'%c
        ef=errform[c]
        if ef=='class': e=Err
        elif ef=='inst': e=insts.setdefault(c, Err('inst%d'%c))
        elif ef=='fac':
            def e(x): log.append(('fac',c)); return Err('fac',c)
        elif ef=='facbad':
            def e(x): log.append(('fac',c)); return 'notexc'
        elif ef=='facraise':
            def e(x): log.append(('fac',c)); raise EX('fac',c)
        return f,e
    def mkbody():
        if isasync:
            async def m(self, x):
                log.append(('body',))
                if body=='raise': raise EX('body')
                return RES
        else:
            def m(self, x):
                log.append(('body',))
                if body=='raise': raise EX('body')
                return RES
        return m
    # hierarchy: one class per group (chain), last class gets snaps & posts split
    prev=icontract.DBC
    ngroups=max(1,len(groupsdef))
    for gi in range(ngroups):
        f=mkbody()
        if gi==ngroups-1:
            for c in posts:
                cf,e=mk(c,'post'); f=icontract.ensure(cf,error=e)(f)
            if posts:
                for k in snaps:
                    def mkcap(k):
                        def cap(x):
                            log.append(('cap',k))
                            if ans[k]=='R': raise EX(k)
                            return x
                        return cap
                    f=icontract.snapshot(mkcap(k),name='s%d'%k)(f)
        if gi<len(groupsdef):
            for c in groupsdef[gi]:
                cf,e=mk(c,'pre'); f=icontract.require(cf,error=e)(f)
        prev=icontract.DBCMeta('K%d'%gi,(prev,),{'m':f})
    return prev(), insts
for trial in range(3000):
    ncond=0
    groups=[]
    for _ in range(rnd.choice([0,1,1,2,3])):
        g=list(range(ncond,ncond+rnd.randint(1,3))); ncond+=len(g); groups.append(g)
    posts=list(range(ncond,ncond+rnd.choice([0,0,1,2,3]))); ncond+=len(posts)
    snaps=list(range(ncond,ncond+rnd.choice([0,1,2]))); ncond+=len(snaps)
    ans={c:rnd.choice('TTTTFFRBN') for c in range(ncond)}
    for k in snaps: ans[k]=rnd.choice('TTTR')
    errform={c:rnd.choice(['class','inst','fac','fac','facbad','facraise']) for c in range(ncond)}
    body=rnd.choice(['ret','ret','ret','raise'])
    isasync=rnd.random()<0.5
    log=[]
    try:
        obj,insts=build(isasync,groups,snaps,posts,body,ans,errform,log)
    except Exception as e:
        print('build fail',type(e).__name__,e); continue
    before=set(_IN_PROGRESS.get() or ())
    try:
        if isasync: r=asyncio.run(obj.m(5))
        else: r=obj.m(5)
        out=('ret','RES' if r is RES else 'OTHER')
    except BaseException as e:
        if isinstance(e,Err):
            if e.args and e.args[0]=='fac': out=('raise','fac',e.args[1])
            elif any(e is v for v in insts.values()): out=('raise','inst',[k for k,v in insts.items() if v is e][0])
            else: out=('raise','Err',None)
        elif isinstance(e,EX):
            if e.args==('body',): out=('raise','bodyEX',None)
            elif e.args and e.args[0]=='fac': out=('raise','EXfac',e.args[1])
            else: out=('raise','EX',e.args[0])
        elif isinstance(e,BX): out=('raise','BX',e.args[0])
        elif isinstance(e,ValueError) and isinstance(e.__cause__,ZeroDivisionError): out=('raise','ValueErrorNeg',None)
        elif isinstance(e,TypeError): out=('raise','TypeError',None)
        else: out=('raise',type(e).__name__,str(e)[:50])
    after=set(_IN_PROGRESS.get() or ())
    rev,rout=ref(groups,snaps,posts,body,ans,errform)
    # normalise: reference 'Err' class outcome has contract id we cannot observe; drop ids where unobservable
    def norm(o):
        if o[0]=='raise' and o[1] in ('Err','ValueErrorNeg'): return (o[0],o[1])
        return tuple(o)
    stats['n']+=1
    if after!=before: stats['ip_leak']+=1
    if log!=rev or norm(out)!=norm(rout):
        stats['mismatch']+=1
        if shown<5:
            shown+=1
            print('MISMATCH async=%s groups=%s snaps=%s posts=%s body=%s ans=%s err=%s'%(isasync,groups,snaps,posts,body,ans,errform))
            print('   impl',log,out); print('   ref ',rev,rout)
print(stats)
