import icontract
log=[]
def inv(self):
    log.append(('inv', type(self).__name__, dict(self.__dict__)))
    return True
@icontract.invariant(inv)
class A(icontract.DBC):
    def __init__(self):
        self.x = 1
    def foo(self): 
        log.append('foo'); return self.bar()
    def bar(self):
        log.append('bar'); return 1

def invb(self):
    log.append(('invb', dict(self.__dict__)))
    return self.y > 0
@icontract.invariant(invb)
class B(A):
    def __init__(self):
        super().__init__()
        log.append('after super')
        self.foo()
        self.y = 2
try:
    b=B()
except BaseException as e: print(type(e), str(e)[:300])
for l in log: print(l)
print('--- plain (non DBC)')
log.clear()
@icontract.invariant(inv)
class P:
    def __init__(self): self.x=1
    def foo(self): log.append('foo')
class Q(P):
    def __init__(self):
        super().__init__()
        log.append('after super')
        self.foo()
        self.y=2
Q()
for l in log: print(l)
