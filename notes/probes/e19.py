import icontract, asyncio
log=[]
@icontract.invariant(lambda self: (log.append('inv') or True))
class A:
    def __init__(self): self.x=1
    async def step(self): log.append('step')
    async def run(self):
        log.append('run')
        await asyncio.gather(self.step(), self.step())
    async def run_seq(self):
        log.append('run_seq'); await self.step()
async def main():
    a=A(); log.clear()
    await a.run(); print(log); log.clear()
    await a.step(); print(log)
asyncio.run(main())
