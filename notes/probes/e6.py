import icontract, sys
from icontract._checkers import _IN_PROGRESS
sys.setrecursionlimit(300)
cnt=[0]
def pre():
    cnt[0]+=1
    f(); f()
    return True
@icontract.require(pre)
def f(): return 1
try:
    f(); print('ok, pre evaluated', cnt[0])
except RecursionError as e: print('RecursionError; pre evaluated', cnt[0])
print('in progress after', _IN_PROGRESS.get())
# invariants: condition calls public method twice
cnt[0]=0
def inv(self):
    cnt[0]+=1
    self.get(); self.get(); return True
@icontract.invariant(inv)
class A:
    def __init__(self): self.x=1
    def get(self): return self.x
try:
    a=A(); a.get(); print('inv ok evaluated', cnt[0])
except RecursionError: print('inv RecursionError', cnt[0])
# method calling same method on other object
log=[]
@icontract.invariant(lambda self: (log.append(('inv',self.n)) or True))
class N:
    def __init__(self,n,other=None): self.n=n; self.other=other
    def go(self):
        log.append(('go',self.n))
        if self.other: self.other.go()
n2=N(2); n1=N(1,n2); log.clear(); n1.go(); print(log)
