G=10
def F(x): return x
class O:
    def __init__(s,v,child=None): s.v=v; s.w=None; s.child=child; s.items=[v,v+1]
    def get(s,x): return x
    def kw(s,p=0): return p
    def __repr__(s): return 'O(%r)'%s.v
