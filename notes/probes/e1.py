import icontract, sys
log=[]
def pre(n):
    log.append(('pre',n)); return n>=0
@icontract.require(pre)
def fact(n):
    log.append(('body',n))
    return 1 if n<=0 else n*fact(n-1)
print(fact(3)); print(log)
# negative from body recursion
log.clear()
@icontract.require(lambda n: n!=1)
def g(n):
    return 0 if n<=0 else g(n-1)
try:
    print('g(3)=',g(3))
except icontract.ViolationError as e: print('violation',e)
