"""ad-hoc probe for C03 member selection & op discipline (throwaway)."""
import icontract, itertools, sys
from icontract import InvariantCheckEvent as E
log=[]
def inv(name):
    def c(self): log.append(name); return True
    c.__name__=name; return c
def make(dbc, orders, sub_orders, sub_dbc_decorated):
    base=(icontract.DBC,) if dbc else ()
    class A(*base):
        def __init__(self): self.x=1; self._p(); self.pub()
        def pub(self): log.append('pub'); return self._p()
        def _p(self): log.append('_p')
        def __priv(self): log.append('__priv')
        def callpriv(self): self.__priv()
        @staticmethod
        def sm(): log.append('sm')
        @classmethod
        def cm(cls): log.append('cm')
        @property
        def prop(self): log.append('prop.get'); return 1
        @prop.setter
        def prop(self,v): log.append('prop.set')
        @prop.deleter
        def prop(self): log.append('prop.del')
        def __len__(self): log.append('__len__'); return 1
        def __call__(self): log.append('__call__')
        def __repr__(self): log.append('__repr__'); return 'A'
        def __getattr__(self, n): log.append('__getattr__'); raise AttributeError(n)
        def other(self, o): log.append('other'); o.pub()
    for i,co in enumerate(orders): A=icontract.invariant(inv('a%d'%i), check_on=co)(A)
    class B(A):
        def __init__(self): super().__init__(); log.append('B.init.rest'); self.y=2
        def newpub(self): log.append('newpub')
        def __setattr__(self,k,v): log.append('B.__setattr__'); object.__setattr__(self,k,v)
    for i,co in enumerate(sub_orders): B=icontract.invariant(inv('b%d'%i), check_on=co)(B)
    return A,B
def run(desc, thunk):
    log.clear()
    try: thunk()
    except Exception as e: log.append('EXC:'+type(e).__name__)
    return list(log)
for dbc in (True, False):
  for orders in ([E.CALL],[E.CALL,E.SETATTR],[E.SETATTR,E.CALL],[E.SETATTR],[E.ALL]):
    for sub in ([],[E.CALL]):
        A,B=make(dbc,orders,sub,True)
        a=None
        r_ctor=run('ctor',lambda: globals().__setitem__('a',A()))
        a=globals()['a']
        rows={
         'A()':r_ctor,
         'a.pub()':run('',lambda:a.pub()), 'a._p()':run('',lambda:a._p()), 'a.callpriv()':run('',lambda:a.callpriv()),
         'a.sm()':run('',lambda:a.sm()),'a.cm()':run('',lambda:a.cm()),'a.prop':run('',lambda:a.prop),
         'a.prop=1':run('',lambda:setattr(a,'prop',1)),'del a.prop':run('',lambda:delattr(a,'prop')),
         'len(a)':run('',lambda:len(a)),'a()':run('',lambda:a()),'repr(a)':run('',lambda:repr(a)),
         'a.x=2':run('',lambda:setattr(a,'x',2)),'a.nope':run('',lambda:getattr(a,'nope',None)),
        }
        rb=run('B()',lambda: globals().__setitem__('b',B())); b=globals()['b']
        rows['B()']=rb
        rows['b.newpub()']=run('',lambda:b.newpub()); rows['b.pub()']=run('',lambda:b.pub()); rows['b.y=3']=run('',lambda:setattr(b,'y',3))
        rows['a.other(b)']=run('',lambda:a.other(b))
        print('--- dbc=%s A invs=%s B invs=%s'%(dbc,[str(o).split('.')[1] for o in orders],[str(o).split('.')[1] for o in sub]))
        for k,v in rows.items(): print('   %-12s %s'%(k,' '.join(v)))
