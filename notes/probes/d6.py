"""ad-hoc probe: recomputed values vs CPython for random condition expressions (throwaway)."""
import ast, random, sys, os, importlib, textwrap, traceback
import icontract, icontract._recompute, icontract._represent, warnings
warnings.simplefilter('ignore')
seed=int(sys.argv[1]) if len(sys.argv)>1 else 0
rnd=random.Random(seed)
NAMES=['a','b','xs','ys','o','n','s']
def leaf():
    return rnd.choice(['a','b','n','xs','ys','o','s','0','1','2','None','True','""',"'k'",'[]','G','len'])
def gen(d):
    if d<=0 or rnd.random()<0.15: return leaf()
    k=rnd.choice(['bin','bool','bool','cmp','cmp','chain','not','neg','call','attr','sub','slice','ifexp','list','tuple','dict','walrus','fstr','all','lc','meth','star','kw'])
    g=lambda: gen(d-1)
    if k=='bin': return '(%s %s %s)'%(g(),rnd.choice(['+','-','*','//','%']),g())
    if k=='bool': return '(%s %s %s)'%(g(),rnd.choice(['and','or']),g()) if rnd.random()<0.7 else '(%s %s %s %s %s)'%(g(),rnd.choice(['and','or']),g(),rnd.choice(['and','or']),g())
    if k=='cmp': return '(%s %s %s)'%(g(),rnd.choice(['<','<=','==','!=','>','is','is not','in','not in']),g())
    if k=='chain': return '(%s %s %s %s %s)'%(g(),rnd.choice(['<','<=','==']),g(),rnd.choice(['<','!=','>']),g())
    if k=='not': return '(not %s)'%g()
    if k=='neg': return '(-%s)'%g()
    if k=='call': return '%s(%s)'%(rnd.choice(['len','abs','str','bool','F','max']),g())
    if k=='attr': return '%s.%s'%(rnd.choice(['o','o.child']),rnd.choice(['v','w','child','missing']))
    if k=='sub': return '%s[%s]'%(rnd.choice(['xs','ys','s','o.items']),g())
    if k=='slice': return '%s[%s:%s]'%(rnd.choice(['xs','ys','s']),rnd.choice(['','0','1','n']),rnd.choice(['','1','n','-1']))
    if k=='ifexp': return '(%s if %s else %s)'%(g(),g(),g())
    if k=='list': return '[%s, %s]'%(g(),g())
    if k=='tuple': return '(%s, %s)'%(g(),g())
    if k=='dict': return '{%s: %s}'%(rnd.choice(["'k'",'1','a']),g())
    if k=='walrus': return '(w := %s)'%g()
    if k=='fstr': return 'f"{%s}-{%s!r:>4}"'%(rnd.choice(['a','n','s']),rnd.choice(['a','b','s']))
    if k=='all': return 'all(%s for x in %s%s)'%(rnd.choice(['x > n','x','x != a','x > ys[0]']),rnd.choice(['xs','ys','xs[1:]']),rnd.choice([' if x',' if n','','']))
    if k=='lc': return '[%s for x in %s]'%(rnd.choice(['x + n','x','(x, a)']),rnd.choice(['xs','ys']))
    if k=='meth': return 'o.get(%s)'%g()
    if k=='star': return 'max(*%s)'%rnd.choice(['xs','ys','[a, b]'])
    if k=='kw': return 'o.kw(p=%s)'%g()
from d6h import O, G, F
def envs():
    for _ in range(6):
        yield dict(a=rnd.choice([0,1,2,None,-1]), b=rnd.choice([0,3,None,'z']), n=rnd.choice([0,1,2,None]),
                   xs=rnd.choice([[],[1],[1,2,3],[0,-1],None]), ys=rnd.choice([[],[2],[5,0]]), o=O(rnd.choice([0,1]),O(7)), s=rnd.choice(['','ab','k']))
class Rec(ast.NodeTransformer):
    """wrap every expression node (outside comprehension scopes) with __rec(id, node)"""
    def __init__(s): s.ids={}; s.n=0; s.depth=0
    def generic_visit(s,node):
        return super().generic_visit(node)
    def visit(s,node):
        if isinstance(node,(ast.ListComp,ast.SetComp,ast.DictComp,ast.GeneratorExp,ast.JoinedStr)):
            # record the node itself but do not descend
            return s.wrap(ast.unparse(node), node, node)
        if isinstance(node,ast.expr) and not isinstance(node,(ast.Starred,)) and not isinstance(getattr(node,'ctx',None),ast.Store):
            txt=ast.unparse(node)
            new=s.generic_visit(node)
            return s.wrap(txt,node,new)
        return s.generic_visit(node)
    def wrap(s,txt,orig,new):
        i=s.n; s.n+=1; s.ids[i]=txt
        return ast.copy_location(ast.Call(func=ast.Name('__rec',ast.Load()),args=[ast.Constant(i),new],keywords=[]),orig)
stats={'n':0,'falsy':0,'runtimeerror':0,'wrong_value':0,'extra_eval':0,'py_raises':0,'other':0}
examples={}
modn=0
for trial in range(int(sys.argv[2]) if len(sys.argv)>2 else 300):
    expr=gen(3)
    try: tree=ast.parse(expr,mode='eval')
    except SyntaxError: continue
    # module with the decorated function
    modn+=1
    name='gm_%d_%d'%(seed,modn)
    src="import icontract\nfrom d6h import G, F\n@icontract.require(lambda a, b, n, xs, ys, o, s: %s)\ndef f(a, b, n, xs, ys, o, s): pass\n"%expr
    open('gen/%s.py'%name,'w').write(src)
    sys.path.insert(0,'gen')
    try: mod=importlib.import_module(name)
    except Exception as e:
        stats['other']+=1; continue
    finally: sys.path.pop(0)
    # instrumented
    rec=Rec(); itree=rec.visit(ast.parse(expr,mode='eval')); ast.fix_missing_locations(itree)
    code=compile(itree,'<instr>','eval')
    for env in envs():
        pylog={}
        def __rec(i,v): pylog.setdefault(i,[]).append(v); return v
        glob={'G':G,'F':F,'__rec':__rec}
        try:
            val=eval(code,glob,dict(env)); 
        except Exception as e:
            stats['py_raises']+=1; continue
        try:
            if val: continue
        except Exception: continue
        stats['falsy']+=1
        # capture recomputed values
        captured={}
        Orig=icontract._recompute.Visitor
        class V(Orig):
            def __init__(s,*a,**k):
                super().__init__(*a,**k); captured['v']=s
        icontract._recompute.Visitor=V
        try:
            try: mod.f(**env); res='noviol'
            except icontract.ViolationError as e: res='viol'
            except RuntimeError as e:
                res='rt'; cause=e.__cause__
            except Exception as e: res='exc:'+type(e).__name__
        finally: icontract._recompute.Visitor=Orig
        stats['n']+=1
        if res=='rt':
            stats['runtimeerror']+=1
            key='RT:'+type(cause).__name__+':'+str(cause)[:40]
            examples.setdefault(key,(expr,{k:v for k,v in env.items()}))
            continue
        if res!='viol':
            stats['other']+=1; examples.setdefault('OTHER:'+res,(expr,env)); continue
        # compare values by source text
        pyvals={}
        for i,vs in pylog.items(): pyvals.setdefault(rec.ids[i],[]).extend(vs)
        rv=captured['v'].recomputed_values
        for node,v in rv.items():
            try: txt=ast.unparse(node)
            except Exception: continue
            if isinstance(node,(ast.Constant,)): continue
            if txt not in pyvals:
                if isinstance(node,(ast.Slice,)): continue
                stats['extra_eval']+=1; examples.setdefault('EXTRA:'+type(node).__name__,(expr,env,txt)); continue
            if not any((v is pv) or (type(v)==type(pv) and repr(v)==repr(pv)) for pv in pyvals[txt]):
                if isinstance(v,icontract._recompute.FirstExceptionInAll): continue
                stats['wrong_value']+=1; examples.setdefault('WRONG:'+type(node).__name__,(expr,env,txt,repr(v)[:40],[repr(p)[:40] for p in pyvals[txt]][:3]))
print(stats)
for k,v in list(examples.items())[:25]: print(k,'|',str(v)[:260])
