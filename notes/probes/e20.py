import icontract
class A(icontract.DBC):
    @icontract.require(lambda self, xs: xs and xs[0] > 0)
    def f(self, xs): return 'A'
class B(A):
    @icontract.require(lambda self, xs: True)
    def f(self, xs): return 'B body ran'
try: print(B().f([]))
except Exception as e: print(type(e).__name__, str(e).replace('\n',' | ')[:120])
n=[0]
def fac(xs):
    n[0]+=1; return ValueError('bad')
class A2(icontract.DBC):
    @icontract.require(lambda self, xs: len(xs)>0, error=fac)
    def f(self, xs): return 'A'
class B2(A2):
    @icontract.require(lambda self, xs: True)
    def f(self, xs): return 'B body ran'
print(B2().f([]), 'factory calls (no violation surfaced):', n[0])
