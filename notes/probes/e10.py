import icontract
def show(desc, thunk):
    try: r=thunk(); print(desc,'-> ok', r)
    except icontract.ViolationError as e: print(desc,'-> ViolationError |', str(e).split('\n',1)[1].replace('\n',' | ')[:300])
    except BaseException as e: print(desc,'->',type(e).__name__, str(e).replace('\n',' | ')[:200], '| cause:', repr(e.__cause__)[:80])
@icontract.require(lambda xs: xs and xs[0] > 0)
def a(xs): pass
show('xs and xs[0]>0 with []', lambda: a([]))
@icontract.require(lambda x: x is None or x.y)
def b(x): pass
class O: y=0
show('x is None or x.y', lambda: b(O()))
@icontract.require(lambda n: 0 < n < 10 // n)
def c(n): pass
show('0<n<10//n n=0', lambda: c(0))
@icontract.require(lambda a, b: len(a or b) > 3)
def d(a,b): pass
show('len(a or b)>3', lambda: d([], [1]))
@icontract.require(lambda a, b: str(a or b) == 'zz')
def d2(a,b): pass
show('str(a or b)', lambda: d2(0, 5))
@icontract.require(lambda id: str(id) == 'zz')
def e(id=None): pass
show('id=None builtin shadow', lambda: e())
@icontract.require(lambda x, y: (x if y else 1/0) > 5)
def f(x,y): pass
show('ifexp', lambda: f(1, True))
@icontract.require(lambda x: not (x > 0 or 1/x > 0))
def g(x): pass
show('not (x>0 or 1/x>0) x=1', lambda: g(1))
@icontract.require(lambda x: (y := x + 1) > 5 and y < 3)
def h(x): pass
show('walrus', lambda: h(1))
@icontract.require(lambda xs: all(x > 0 for x in xs if x != 2))
def i(xs): pass
show('all', lambda: i([1,2,-3,-4]))
@icontract.require(lambda xs, n: [x for x in xs if x > n] == [])
def j(xs,n): pass
show('listcomp', lambda: j([1,2,3],1))
@icontract.require(lambda x: x.startswith(*['a']) and False)
def k(x): pass
show('star', lambda: k('abc'))
@icontract.require(lambda x: {**x} == {})
def l(x): pass
show('dict unpack', lambda: l({'a':1}))
@icontract.require(lambda x: [*x] == [])
def m(x): pass
show('list star', lambda: m([1]))
@icontract.require(lambda x: x > 0 > x)
def n(x): pass
show('chain', lambda: n(1))
@icontract.require(lambda s: f"{s!r:>10}" == 'z')
def o(s): pass
show('fstring', lambda: o('a'))
@icontract.require(lambda x: x[1:2] == [] and x[0] == 5)
def p(x): pass
show('slice', lambda: p([1,2,3]))
@icontract.require(lambda x: (lambda y: y)(x) > 5)
def q(x): pass
show('inline lambda', lambda: q(1))
@icontract.require(lambda x: x > 0,
   "desc"  # comment
)
def r(x): pass
show('desc', lambda: r(0))
