import icontract, asyncio, inspect
import icontract._metaclass as M
log=[]
# C18: registration hook
calls=[]
orig=M._register_for_hypothesis
M._register_for_hypothesis=lambda cls: calls.append(cls.__name__)
class A(icontract.DBC): pass
class B(A): pass
class Mx(icontract.DBCMeta): pass
class C(metaclass=Mx): pass
print('hook calls', calls)
import dataclasses
@dataclasses.dataclass(slots=True)
class DS(icontract.DBC):
    x:int=1
print('hook calls', calls)
# C13: async condition on sync function
async def acond(x): return True
@icontract.require(acond)
def s(x): return 1
try: s(1)
except Exception as e: print(type(e).__name__, str(e)[:60])
@icontract.require(lambda x: acond(x))
def s2(x): return 1
try: s2(1)
except Exception as e: print(type(e).__name__, str(e)[:60])
# invariant cond returning coroutine (lambda)
@icontract.invariant(lambda self: acond(self))
class I:
    def __init__(self): pass
try:
    I(); print('invariant coroutine taken as truthy!')
except Exception as e: print(type(e).__name__, str(e)[:60])
# async snapshot on sync
async def acap(x): return x
try:
    @icontract.ensure(lambda OLD: True)
    @icontract.snapshot(acap, name='x')
    @icontract.ensure(lambda: True)
    def s3(x): return 1
    s3(1)
except Exception as e: print(type(e).__name__, str(e)[:60])
# async error factory? 
# async function: sync cond returning awaitable non-coroutine (Future)
async def main():
    loop=asyncio.get_running_loop()
    @icontract.require(lambda x: asyncio.ensure_future(acond(x)))
    async def a1(x): return 1
    try: print('future cond', await a1(1))
    except Exception as e: print(type(e).__name__, str(e)[:80])
    async def afalse(x): return False
    @icontract.require(lambda x: asyncio.ensure_future(afalse(x)), error=ValueError)
    async def a2(x): return 1
    try: print('future false cond ->', await a2(1))
    except Exception as e: print(type(e).__name__, str(e)[:80])
    # async violated condition with default error (lambda returning coroutine)
    @icontract.require(lambda x: afalse(x))
    async def a3(x): return 1
    try: print(await a3(1))
    except BaseException as e: print('a3', type(e).__name__, str(e)[:100].replace('\n','|'))
    @icontract.require(afalse)
    async def a4(x): return 1
    try: print(await a4(1))
    except BaseException as e: print('a4', type(e).__name__, str(e)[:100].replace('\n','|'))
asyncio.run(main())
# async generator functions?
@icontract.require(lambda x: x>0)
async def agen(x):
    yield x
print('agen is asyncgenfunction:', inspect.isasyncgenfunction(agen), inspect.isasyncgenfunction(agen.__wrapped__))
@icontract.require(lambda x: x>0)
def gen(x):
    yield x
print('gen isgeneratorfunction', inspect.isgeneratorfunction(gen), inspect.isgeneratorfunction(gen.__wrapped__))
