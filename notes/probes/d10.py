"""ad-hoc probe: re-entrancy / invariants vs frame-stack reference (throwaway)."""
import icontract, random, sys
from icontract._checkers import _IN_PROGRESS
sys.setrecursionlimit(400)
seed=int(sys.argv[1]) if len(sys.argv)>1 else 0
rnd=random.Random(seed)
NF, NO, NM = 3, 2, 2
def gen_prog():
    # scripts: list of targets; bodies call strictly lower "rank" to guarantee bare termination
    # rank: function i has rank i; method k has rank NF+k
    def targets(maxrank, n):
        out=[]
        for _ in range(n):
            if rnd.random()<0.5:
                cands=[('f',i) for i in range(NF) if i<maxrank]
            else:
                cands=[('m',j,k) for j in range(NO) for k in range(NM) if NF+k<maxrank]
            if cands: out.append(rnd.choice(cands))
        return out
    P={'fpre':{}, 'fpost':{}, 'fbody':{}, 'mbody':{}, 'inv':None, 'mpre':{}}
    for i in range(NF):
        P['fpre'][i]=targets(99, rnd.choice([0,1,1,2])) if rnd.random()<0.8 else None
        P['fpost'][i]=targets(99, rnd.choice([0,1,2])) if rnd.random()<0.5 else None
        P['fbody'][i]=targets(i, rnd.choice([0,1,2]))
        if rnd.random()<0.3: P['fbody'][i].append(('f',i,'rec'))   # one-level self recursion marker
    for k in range(NM):
        P['mbody'][k]=targets(NF+k, rnd.choice([0,1,2]))
        P['mpre'][k]=targets(99, rnd.choice([0,1])) if rnd.random()<0.4 else None
    P['inv']=targets(99, rnd.choice([0,1,2]))
    return P
def reference(P, top):
    log=[]; stack=[]   # frames: (key, phase)
    def run_script(scr, recdepth):
        for t in scr: call(t, recdepth)
    def call(t, recdepth=0):
        if t[0]=='f':
            i=t[1]
            if len(t)==3:
                if recdepth>=1: return
                recdepth=recdepth+1
            else:
                recdepth=0
            key=('f',i)
            skip=any(fr==(key,'contract') for fr in stack)
            has=P['fpre'][i] is not None or P['fpost'][i] is not None
            if skip or not has:
                log.append(('fbody',i)); stack.append((key,'body')); run_script(P['fbody'][i], recdepth); stack.pop(); return
            if P['fpre'][i] is not None:
                stack.append((key,'contract')); log.append(('fpre',i)); run_script(P['fpre'][i],0); stack.pop()
            log.append(('fbody',i)); stack.append((key,'body')); run_script(P['fbody'][i], recdepth); stack.pop()
            if P['fpost'][i] is not None:
                stack.append((key,'contract')); log.append(('fpost',i)); run_script(P['fpost'][i],0); stack.pop()
        else:
            _,j,k=t
            okey=('o',j)
            skipinv=any(fr[0]==okey for fr in stack)
            def inner():
                mkey=('m',k)   # checker of method k is shared by all instances (function identity)
                skip=any(fr==(mkey,'contract') for fr in stack)
                if P['mpre'][k] is not None and not skip:
                    stack.append((mkey,'contract')); log.append(('mpre',j,k)); run_script(P['mpre'][k],0); stack.pop()
                log.append(('mbody',j,k)); run_script(P['mbody'][k],0)
            if skipinv:
                inner(); return
            stack.append((okey,'inv')); log.append(('inv',j)); run_script(P['inv'],0)
            stack.pop(); stack.append((okey,'method'))
            inner()
            stack.pop(); stack.append((okey,'inv')); log.append(('inv',j)); run_script(P['inv'],0); stack.pop()
    call(top)
    return log
def implementation(P, top):
    log=[]; funcs={}; objs={}
    def run_script(scr, recdepth=0):
        for t in scr:
            if t[0]=='f':
                if len(t)==3:
                    if recdepth>=1: continue
                    funcs[t[1]](recdepth+1)
                else: funcs[t[1]](0)
            else: getattr(objs[t[1]],'m%d'%t[2])()
    for i in range(NF):
        def mk(i):
            def f(rd=0):
                log.append(('fbody',i)); run_script(P['fbody'][i], rd)
            g=f
            if P['fpost'][i] is not None:
                def post(): log.append(('fpost',i)); run_script(P['fpost'][i]); return True
                g=icontract.ensure(post)(g)
            if P['fpre'][i] is not None:
                def pre(): log.append(('fpre',i)); run_script(P['fpre'][i]); return True
                g=icontract.require(pre)(g)
            return g
        funcs[i]=mk(i)
    ns={}
    for k in range(NM):
        def mkm(k):
            def m(self): log.append(('mbody',self.j,k)); run_script(P['mbody'][k])
            g=m
            if P['mpre'][k] is not None:
                def pre(self): log.append(('mpre',self.j,k)); run_script(P['mpre'][k]); return True
                g=icontract.require(pre)(g)
            return g
        ns['m%d'%k]=mkm(k)
    def init(self,j): self.j=j
    ns['__init__']=init
    def inv(self): log.append(('inv',self.j)); run_script(P['inv']); return True
    C=icontract.invariant(inv)(type('C',(),ns))
    for j in range(NO):
        objs[j]=C.__new__(C); object.__setattr__(objs[j],'j',j)
    before=set(_IN_PROGRESS.get() or ())
    try:
        run_script([top])
    except RecursionError:
        log.append('RecursionError')
    after=set(_IN_PROGRESS.get() or ())
    return log, before==after
stats={'n':0,'mismatch':0,'rec':0,'leak':0}; shown=0
for trial in range(1500):
    P=gen_prog()
    top=rnd.choice([('f',rnd.randrange(NF)),('m',rnd.randrange(NO),rnd.randrange(NM))])
    r=reference(P,top)
    l,ok=implementation(P,top)
    stats['n']+=1
    if 'RecursionError' in l: stats['rec']+=1
    if not ok: stats['leak']+=1
    if l!=r:
        stats['mismatch']+=1
        if shown<3 and 'RecursionError' not in l:
            shown+=1; print('MISMATCH top',top); print('  P',P); print('  impl',l); print('  ref ',r)
print(stats)
# find smallest mismatch
rnd=random.Random(seed); best=None
for trial in range(1500):
    P=gen_prog()
    top=rnd.choice([('f',rnd.randrange(NF)),('m',rnd.randrange(NO),rnd.randrange(NM))])
    r=reference(P,top); l,ok=implementation(P,top)
    if l!=r and (best is None or len(r)<len(best[3])): best=(P,top,l,r)
if best:
    print('SMALLEST'); print(' top',best[1]); print(' P',best[0]); print(' impl',best[2]); print(' ref ',best[3])
