import icontract, inspect
seen={}
def run(desc, f, *a, **k):
    seen.clear()
    try:
        r=f(*a,**k); print(desc,'-> ret',r,'cond saw',dict(seen))
    except Exception as e: print(desc,'->',type(e).__name__,str(e)[:150].replace('\n',' | '),'cond saw',dict(seen))
def rec(**kw):
    seen.update(kw); return True
# kw-only after *args with surplus positionals
@icontract.require(lambda b: rec(b=b))
def f1(a,*args,b=1): return ('body',a,args,b)
run('f1(1,2,3)', f1, 1,2,3)
@icontract.require(lambda args: rec(args=args))
def f1b(a,*args,b=1): return ('body',a,args,b)
run('f1b(1,2,3)', f1b, 1,2,3)
run('f1b(1)', f1b, 1)
# positional-only shadowed by **kwargs
@icontract.require(lambda a: rec(a=a))
def f2(a,/,**kw): return ('body',a,kw)
run('f2(1,a=2)', f2, 1, a=2)
# **kwargs named param requested
@icontract.require(lambda kw: rec(kw=kw))
def f3(a,**kw): return ('body',a,kw)
run('f3(1,x=2)', f3, 1, x=2)
# extra keyword captured by ** seen by condition named x
@icontract.require(lambda x: rec(x=x))
def f4(a,**kw): return ('body',a,kw)
run('f4(1,x=2)', f4, 1, x=2)
run('f4(1)', f4, 1)
# defaults
@icontract.require(lambda a,b,c: rec(a=a,b=b,c=c))
def f5(a,b=2,*,c=3): return ('body',a,b,c)
run('f5(1)', f5, 1)
run('f5(1,c=5)', f5, 1,c=5)
run('f5(a=1,b=7)', f5, a=1,b=7)
# _ARGS/_KWARGS
@icontract.require(lambda _ARGS,_KWARGS: rec(A=_ARGS,K=_KWARGS))
def f6(a,b=2,*r,c=3,**kw): return 'body'
run('f6(1,2,3,c=4,z=5)', f6, 1,2,3,c=4,z=5)
# default None evaluating
class W:
    def __ne__(self,o): return False
    def __eq__(self,o): return True
@icontract.require(lambda d: rec(d=d))
def f7(d=W()): return 'body'
run('f7()', f7)
# too many positionals
run('f5(1,2,3)', f5, 1,2,3)
