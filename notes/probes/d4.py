"""ad-hoc differential probe for C04 on random DBC hierarchies (throwaway)."""
import icontract, random, itertools, sys
random.seed(int(sys.argv[1]) if len(sys.argv)>1 else 0)
def mkcond(cid, store):
    def c(self): return store[cid]
    c.__name__='c%d'%cid; c.cid=cid
    return c
class E(Exception): pass
stats={'classes':0,'rejected':0,'mismatch_pre':0,'mismatch_post':0,'checked':0, 'mro_fail':0}
examples=[]
for trial in range(400):
    store={}
    classes=[]  # (cls, info)
    info={}     # name -> dict(bases, own_pre (list of cid)|None if not defining, own_post, defines)
    cid=[0]
    ok=True
    nclasses=random.randint(2,6)
    for k in range(nclasses):
        name='K%d'%k
        nb=random.choice([0,1,1,1,2,2,3]) if k>0 else 0
        bases_names=random.sample([c for c in info if info[c]['created']], min(nb,len([c for c in info if info[c]['created']])))
        defines=random.random()<0.7
        own_pre=[]; own_post=[]
        if defines:
            for _ in range(random.choice([0,0,1,1,2])):
                own_pre.append(cid[0]); store[cid[0]]=True; cid[0]+=1
            for _ in range(random.choice([0,1,1,2])):
                own_post.append(cid[0]); store[cid[0]]=True; cid[0]+=1
        ns={}
        if defines:
            def m(self): return 1
            f=m
            for c in own_post: f=icontract.ensure(mkcond(c,store), error=E)(f)
            for c in own_pre: f=icontract.require(mkcond(c,store), error=E)(f)
            ns['m']=f
        bases=tuple(info[b]['cls'] for b in bases_names) or (icontract.DBC,)
        rec={'bases':bases_names,'own_pre':own_pre,'own_post':own_post,'defines':defines,'created':False}
        info[name]=rec
        try:
            cls=icontract.DBCMeta(name,bases,ns)
            rec['cls']=cls; rec['created']=True; rec['outcome']='ok'
        except TypeError as e:
            rec['outcome']='TypeError:'+('weaken' if 'weaken' in str(e) else 'mro' if 'MRO' in str(e) or 'consistent' in str(e) else str(e)[:30])
            if 'weaken' in str(e): stats['rejected']+=1
            else: stats['mro_fail']+=1
        stats['classes']+=1
    # spec
    def mro(n): return [c.__name__ for c in info[n]['cls'].__mro__ if c.__name__ in info]
    def provider(n):
        for c in mro(n):
            if info[c]['defines']: return c
        return None
    memo={}
    def spec(n):  # for class n that defines m: returns (pre groups or 'ALL', posts)
        if n in memo: return memo[n]
        r=info[n]
        parents=[provider(b) for b in r['bases'] if provider(b) is not None]
        own=[list(reversed(r['own_pre']))] if r['own_pre'] else []   # innermost decorator first
        own_post=list(reversed(r['own_post']))
        # NOTE: decorators applied in loop order: first applied = innermost = first in list
        own=[r['own_pre']] if r['own_pre'] else []
        own_post=r['own_post']
        if not parents:
            res=(own, own_post)
        else:
            ps=[spec(p) for p in parents]
            posts=[c for p in ps for c in p[1]]+own_post
            if any(p[0]==[] for p in ps): res=([], posts)
            else: res=([g for p in ps for g in p[0]]+own, posts)
        memo[n]=res; return res
    # expected rejection
    for n,r in info.items():
        if r['outcome']!='ok':
            continue
        p=provider(n)
        if p is None: continue
        if not info[p]['created']: continue
        exp_pre, exp_post = spec(p)
        fn=getattr(r['cls'],'m')
        chk=icontract._checkers.find_checker(fn)
        act_pre=[[c.condition.cid for c in g] for g in chk.__preconditions__] if chk else []
        act_post=[c.condition.cid for c in chk.__postconditions__] if chk else []
        stats['checked']+=1
        # compare semantically: set of frozensets for pre; set for post
        if set(map(frozenset,act_pre))!=set(map(frozenset,exp_pre)):
            stats['mismatch_pre']+=1
            if len(examples)<6: examples.append(('pre',n,{k:(v['bases'],v['own_pre'],v['defines'],v['outcome']) for k,v in info.items()},act_pre,exp_pre))
        if set(act_post)!=set(exp_post):
            stats['mismatch_post']+=1
            if len(examples)<6: examples.append(('post',n,{k:(v['bases'],v['own_post'],v['defines'],v['outcome']) for k,v in info.items()},act_post,exp_post))
print(stats)
for e in examples[:4]: print(e)
