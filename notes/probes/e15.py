import icontract
def show(desc, thunk):
    try: r=thunk(); print(desc,'-> ok', r)
    except icontract.ViolationError as e: print(desc,'-> ViolationError |', str(e).split('\n',1)[1].replace('\n',' | ')[:300])
    except BaseException as e: print(desc,'->',type(e).__name__, str(e).replace('\n',' | ')[:120], '| cause:', repr(e.__cause__)[:80])
@icontract.require(lambda xs, ys: all(x > ys[0] for x in xs) and len(xs) > 0)
def a(xs, ys): pass
show('empty iteration guards ys[0]', lambda: a([], []))
@icontract.require(lambda xs, lim: [x for x in xs if lim and x > lim[0]] != [])
def b(xs, lim): pass
show('listcomp with guard', lambda: b([1], []))
@icontract.require(lambda xs, n: all(x > 0 for x in xs[:n]))
def c(xs, n): pass
show('all slice', lambda: c([1,-2,3], 2))
@icontract.require(lambda xs: all(all(y > 0 for y in x) for x in xs))
def d(xs): pass
show('nested all', lambda: d([[1],[2,-1]]))
@icontract.require(lambda xs: all(x > 0 and y > 0 for x in xs for y in x_to_ys(x)))
def e(xs): pass
def x_to_ys(x): return [x, -x]
show('two generators', lambda: e([1,2]))
@icontract.require(lambda xs: not any(x < 0 for x in xs))
def f(xs): pass
show('any', lambda: f([1,-2]))
