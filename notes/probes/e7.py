import icontract, asyncio
log=[]
def T(name, val=True):
    def c(*a, **k):
        log.append(name); return val
    return c
# C08: snapshot w/o postcondition on checker with only precondition
try:
    @icontract.snapshot(lambda x: x)
    @icontract.require(lambda x: True)
    def f(x): pass
    print('snapshot after require only: accepted!', f.__postcondition_snapshots__)
    log.clear(); f(1)
except ValueError as e: print('rejected', e)
# snapshot between posts
@icontract.ensure(lambda OLD, x: OLD.x == x)
@icontract.snapshot(lambda x: (log.append('cap') or x))
@icontract.ensure(lambda result: True)
def g(x): log.append('body'); return 1
log.clear(); g(1); print(log)
# OLD in error factory
class E(Exception): pass
@icontract.ensure(lambda result: False, error=lambda OLD, result, x: E(OLD.x, result, x))
@icontract.snapshot(lambda x: x*2)
@icontract.ensure(lambda: True)
def h(x): return 5
try: h(3)
except E as e: print('E', e.args)
# OLD requested without snapshots
@icontract.ensure(lambda OLD: True)
def h2(x): return 5
try: h2(3)
except Exception as e: print(type(e).__name__, str(e)[-120:])
# OLD unknown attr
@icontract.ensure(lambda OLD: OLD.nope)
@icontract.snapshot(lambda x: x)
@icontract.ensure(lambda: True)
def h3(x): return 5
try: h3(3)
except Exception as e: print(type(e).__name__, str(e)[:120])
# C09: falsy exception instance
class Falsy(Exception):
    def __bool__(self): return False
@icontract.require(lambda x: x>0, error=Falsy('bad'))
def k(x): return 'body ran'
print('k(-1)=', end=''); 
try: print(k(-1))
except Falsy: print('Falsy raised')
@icontract.ensure(lambda result: False, error=lambda: Falsy())
def k2(): return 'returned'
try: print('k2()=', k2())
except Falsy: print('Falsy raised')
# error non-exception returned
@icontract.require(lambda x: x>0, error=lambda x: 'notexc')
def k3(x): return 1
try: k3(-1)
except Exception as e: print(type(e).__name__, str(e)[:80])
# invalid error at decoration
for bad in [1, 'x', int, len, object()]:
    try:
        icontract.require(lambda x: True, error=bad); print('accepted', bad)
    except ValueError as e: print('ValueError for', bad)
import functools
try:
    icontract.require(lambda x: True, error=functools.partial(lambda x: E(), 1)); print('partial accepted')
except ValueError: print('partial rejected')
class CallableObj:
    def __call__(self): return E()
try:
    icontract.require(lambda x: True, error=CallableObj()); print('callable obj accepted')
except ValueError: print('callable obj rejected')
