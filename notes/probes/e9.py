import icontract
log=[]
def C(name, val):
    def c(self=None, **k):
        log.append(name); return val[0] if isinstance(val,list) else val
    c.__name__=name
    return c
def show(desc, thunk):
    log.clear()
    try: r=thunk(); print(desc,'-> ok', log)
    except icontract.ViolationError as e: print(desc,'-> violation', str(e).split('\n')[-1][:40], log)
    except Exception as e: print(desc,'->',type(e).__name__, str(e)[:80], log)
# multiple inheritance: A1.f has pre p, A2.f has none
class A1(icontract.DBC):
    @icontract.require(lambda self: C('p',False)())
    def f(self): log.append('body')
class A2(icontract.DBC):
    def f(self): log.append('body2')
try:
    class M1(A1, A2):
        @icontract.require(lambda self: C('q',False)())
        def f(self): log.append('bodyM')
    show('M1().f (A2 accepts all)', lambda: M1().f())
    print([[c.condition for c in g] for g in M1.f.__preconditions__].__len__())
except TypeError as e: print('M1 creation TypeError', str(e)[:60])
class M2(A1, A2):
    def f(self): log.append('bodyM2')
show('M2().f no own pre', lambda: M2().f())
class M3(A2, A1):
    def f(self): log.append('bodyM3')
show('M3().f no own pre', lambda: M3().f())
# gap: grandparent has pre, parent doesn't override, child overrides w/o pre
class G(icontract.DBC):
    @icontract.require(lambda self: C('g',False)())
    @icontract.ensure(lambda self: C('gpost',True)())
    def f(self): log.append('bodyG')
class P(G): pass
class Ch(P):
    @icontract.ensure(lambda self: C('chpost',True)())
    def f(self): log.append('bodyCh')
show('Ch().f', lambda: Ch().f())
# not overridden in subclass, multiple bases: MRO picks A1.f
class M4(A1, A2): pass
show('M4().f', lambda: M4().f())
# diamond
class D0(icontract.DBC):
    @icontract.ensure(lambda self: C('d0post',True)())
    def f(self): pass
class D1(D0):
    @icontract.ensure(lambda self: C('d1post',True)())
    def f(self): pass
class D2(D0):
    @icontract.ensure(lambda self: C('d2post',True)())
    def f(self): pass
class D3(D1, D2):
    @icontract.ensure(lambda self: C('d3post',True)())
    def f(self): pass
show('D3().f', lambda: D3().f())
# C17: inner group list shared: does subclass creation mutate base's groups?
print('G groups', [[c.condition.__name__ for c in g] for g in G.f.__preconditions__], 'id', [id(g) for g in G.f.__preconditions__])
class Ch2(G):
    @icontract.require(lambda self: C('ch2',False)())
    def f(self): pass
print('G groups after', [[c.condition.__name__ for c in g] for g in G.f.__preconditions__], [id(g) for g in Ch2.f.__preconditions__])
# staticmethod/classmethod inheritance
class S(icontract.DBC):
    @staticmethod
    @icontract.require(lambda x: (log.append('S.pre') or x>0))
    def sm(x): return x
    @classmethod
    @icontract.require(lambda x: (log.append('S.cpre') or x>0))
    def cm(cls,x): return x
class S2(S):
    @staticmethod
    @icontract.require(lambda x: (log.append('S2.pre') or x<-5))
    def sm(x): return x
    @classmethod
    def cm(cls,x): return x
show('S2.sm(-1)', lambda: S2.sm(-1)); show('S2.sm(-10)', lambda: S2.sm(-10)); show('S2.cm(-1)', lambda: S2.cm(-1))
show('S2().cm(-1)', lambda: S2().cm(-1))
# order: decorator order in stack
@icontract.require(lambda: (log.append('outer') or True))
@icontract.require(lambda: (log.append('inner') or True))
def st(): pass
show('stack', st)
