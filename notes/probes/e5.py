import icontract, asyncio, contextvars
from icontract._checkers import _IN_PROGRESS
log=[]
# C12: asyncio tasks sharing in-progress set after parent ran contracted code
@icontract.require(lambda x: (log.append(('pre',x)) or True) and x>0)
async def f(x, ev_in=None, ev_go=None):
    if ev_in: ev_in.set()
    if ev_go: await ev_go.wait()
    return x
@icontract.require(lambda: True)
def warm(): pass

async def main(warmup):
    if warmup: warm()
    print('parent set obj', id(_IN_PROGRESS.get()) if _IN_PROGRESS.get() is not None else None)
    ev_in, ev_go = asyncio.Event(), asyncio.Event()
    t1 = asyncio.create_task(f(1, ev_in, ev_go))
    await ev_in.wait()
    # now t1 is inside body of f. call f(-1) in another task: should violate
    async def second():
        try:
            r = await f(-1)
            return ('returned', r)
        except icontract.ViolationError:
            return 'violation'
    t2 = asyncio.create_task(second())
    r2 = await t2
    ev_go.set()
    r1 = await t1
    print('warmup',warmup,'t1',r1,'t2',r2, 'log', log)
    log.clear()
asyncio.run(main(False))
asyncio.run(main(True))
# C11: KeyboardInterrupt in condition, then probe
print('--- C11')
@icontract.require(lambda x: x.ok())
def g(x): return 1
class X:
    def __init__(s, exc): s.exc=exc
    def ok(s):
        if s.exc: raise s.exc
        return False
for exc in [ValueError('v'), KeyboardInterrupt(), None]:
    before = set(_IN_PROGRESS.get() or ())
    try: g(X(exc))
    except BaseException as e: print(type(e).__name__, end=' ')
    print('in_progress delta', set(_IN_PROGRESS.get() or ()) - before)
# generator close / async cancel at await in condition
print('--- cancel')
async def slow_cond(x):
    await asyncio.sleep(10); return True
@icontract.require(slow_cond)
async def h(x): return x
async def m2():
    t = asyncio.create_task(h(1))
    await asyncio.sleep(0.01)
    t.cancel()
    try: await t
    except asyncio.CancelledError: print('cancelled')
    print('parent in_progress', _IN_PROGRESS.get())
    print(await asyncio.wait_for(h2(1),1))
@icontract.require(lambda x: x>0)
async def h2(x): return x
asyncio.run(m2())
# coroutine closed without finishing: coro.close()
async def m3():
    c = h(1)
    c.send(None)  # start it -> runs until sleep
    c.close()
    print('after close in_progress', _IN_PROGRESS.get())
try: asyncio.run(m3())
except BaseException as e: print('m3', type(e).__name__, e)
