import icontract, threading, contextvars
@icontract.require(lambda x: x > 0)
def f(x, gate_in=None, gate_go=None):
    if gate_in: gate_in.set()
    if gate_go: gate_go.wait(5)
    return x
@icontract.require(lambda: True)
def warm(): pass
def scenario(mode):
    res={}
    if mode!='fresh-cold': warm()
    gi, gg = threading.Event(), threading.Event()
    def t1(): res['t1']=f(1, gi, gg)
    def t2():
        try: res['t2']=('returned', f(-1))
        except icontract.ViolationError: res['t2']='violation'
    def start(fn):
        if mode=='copied':
            ctx=contextvars.copy_context(); th=threading.Thread(target=lambda: ctx.run(fn))
        else: th=threading.Thread(target=fn)
        th.start(); return th
    a=start(t1); gi.wait(5); b=start(t2); b.join(); gg.set(); a.join()
    return res
for mode in ['fresh-cold','fresh-warm','copied']: print(mode, scenario(mode))
