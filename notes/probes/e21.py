import icontract
@icontract.require(lambda x, xs: [x for x in xs if x > 0] == [])
def f(x, xs): pass
try: f(5, [1])
except icontract.ViolationError as e: print(str(e).split('\n',1)[1])
except Exception as e: print(type(e).__name__, e)
@icontract.require(lambda x, xs: all(x > 0 for x in xs) and x < 0)
def g(x, xs): pass
try: g(5, [1])
except icontract.ViolationError as e: print(str(e).split('\n',1)[1])
except Exception as e: print(type(e).__name__, str(e)[:200], repr(e.__cause__))
