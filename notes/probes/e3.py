import icontract
from icontract import InvariantCheckEvent as E
log=[]
def mk(name,res=True):
    def inv(self):
        log.append(name); return res
    inv.__name__=name
    return inv
# 1. subclass of invariant-carrying class w/o own __init__
@icontract.invariant(mk('iA'))
class A:
    pass
class B(A):
    def __init__(self, x): self.x=x
try:
    B(1); print('B(1) ok', log)
except Exception as e: print('B(1) fails:', type(e).__name__, e)
log.clear()
# 2. order CALL then SETATTR under DBC inheritance
@icontract.invariant(mk('setattr_inv'), check_on=E.SETATTR)
@icontract.invariant(mk('call_inv'), check_on=E.CALL)
class C(icontract.DBC):
    def __init__(self): self.a=1
    def foo(self): pass
class D(C):
    def newm(self): pass
d=D(); log.clear()
d.foo(); print('D.foo', log); log.clear()
d.newm(); print('D.newm', log); log.clear()
d.a=3; print('D.setattr', log); log.clear()
print([i.condition.__name__ for i in D.__invariants__], [i.condition.__name__ for i in D.__invariants_on_call__])
# 3. order SETATTR then CALL
@icontract.invariant(mk('call_inv'), check_on=E.CALL)
@icontract.invariant(mk('setattr_inv'), check_on=E.SETATTR)
class C2(icontract.DBC):
    def __init__(self): self.a=1
    def foo(self): pass
class D2(C2):
    def newm(self): pass
    def __setattr__(self,k,v): object.__setattr__(self,k,v)
d=D2(); log.clear()
d.foo(); print('D2.foo', log); log.clear()
d.newm(); print('D2.newm', log); log.clear()
d.a=3; print('D2.setattr', log); log.clear()
# 4. leak of on_setattr list
@icontract.invariant(mk('a_call'))
class L(icontract.DBC):
    def __init__(self): self.a=1
    def foo(self): pass
print('before', [i.condition.__name__ for i in L.__invariants_on_setattr__])
@icontract.invariant(mk('m_setattr'), check_on=E.SETATTR)
class M(L):
    pass
print('after L', [i.condition.__name__ for i in L.__invariants_on_setattr__], [i.condition.__name__ for i in L.__invariants__])
@icontract.invariant(mk('n_setattr'), check_on=E.SETATTR)
class N(L):
    pass
print('N', [i.condition.__name__ for i in N.__invariants_on_setattr__], [i.condition.__name__ for i in N.__invariants__])
n=N(); log.clear(); n.a=5; print('N setattr evaluates', log)
