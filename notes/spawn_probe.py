"""A task created INSIDE the body of a public method of an object with invariants inherits the object's in-progress mark
through the copied context and keeps it for its whole life (see DESIGN.md, C12 "Not covered")."""
import asyncio

import icontract


@icontract.invariant(lambda self: self.x > 0)
class A:
    def __init__(self):
        self.x = 1

    def break_it(self):
        self.x = -1

    async def start(self):
        self.task = asyncio.create_task(self.worker())

    async def worker(self):
        await asyncio.sleep(0)
        try:
            self.break_it()
            return "returned"
        except icontract.ViolationError:
            return "violation"


async def main():
    a = A()
    await a.start()
    print("task created inside a public method:", await a.task)
    a = A()
    a.task = asyncio.create_task(a.worker())
    try:
        print("task created outside:", await a.task)
    except icontract.ViolationError:
        print("task created outside: violation (reported when the worker - a public method itself - ends)")


asyncio.run(main())
