import IcontractModel.Basic
import IcontractModel.Bind
import IcontractModel.Checker
import IcontractModel.Chain
import IcontractModel.Spec.Dnf
import IcontractModel.Lemmas.Res
import IcontractModel.Lemmas.CheckerSync
import IcontractModel.Props.C01
