/-
  Line-protocol driver: one JSON case per line on stdin, one JSON observation per
  line on stdout.  Imports the model and the specs only (no Mathlib), so it can
  be compiled (`lake build driver`) or interpreted (`lake env lean --run Driver.lean`).
-/
import Lean.Data.Json
import IcontractModel.Chain
import IcontractModel.Spec.Dnf
import IcontractModel.Spec.Post
import IcontractModel.Spec.PyBind
import IcontractModel.Decor
import IcontractModel.Config
import IcontractModel.Spec.Override
import IcontractModel.Spec.Frames
import IcontractModel.Inv
import IcontractModel.Stack
import IcontractModel.Conc
import IcontractModel.Spec.PyEval
import IcontractModel.Represent
import IcontractModel.Lemmas.ExprWf
import IcontractModel.AllTrace
import IcontractModel.SrcScan
open Lean Icontract

deriving instance FromJson, ToJson for Exc
deriving instance FromJson, ToJson for Truth
deriving instance FromJson, ToJson for Ans
deriving instance FromJson, ToJson for BodyAns
deriving instance FromJson, ToJson for FacAns
deriving instance FromJson, ToJson for MsgAns
deriving instance FromJson, ToJson for ErrSpec
deriving instance FromJson, ToJson for Contract
deriving instance FromJson, ToJson for Snapshot
deriving instance FromJson, ToJson for Level
deriving instance FromJson, ToJson for PKind
deriving instance FromJson, ToJson for Param

/-! ## canonical output encoding (shared with harness/canon.py) -/

def jStr (s : String) : Json := Json.str s
def jNat (n : Nat) : Json := Json.num (JsonNumber.fromNat n)
def jArr (xs : List Json) : Json := Json.arr xs.toArray

def sortPairs (kv : List (String × Json)) : List (String × Json) :=
  (kv.toArray.qsort (fun a b => a.1 < b.1)).toList

def valJson : Val → Json
  | .obj i => jArr [jStr "o", jNat i]
  | .tuple xs => jArr [jStr "t", jArr (xs.map jNat)]
  | .dict kv => jArr [jStr "d", jArr ((sortPairs (kv.map fun p => (p.1, jNat p.2))).map fun p => jArr [jStr p.1, p.2])]
  | .old kv => jArr [jStr "old", jArr ((sortPairs (kv.map fun p => (p.1, jNat p.2))).map fun p => jArr [jStr p.1, p.2])]

def kwJson (kw : Kwargs) : Json :=
  jArr ((sortPairs (kw.map fun p => (p.1, valJson p.2))).map fun p => jArr [jStr p.1, p.2])

def eventJson : Event → Json
  | .cond c kw => jArr [jStr "cond", jNat c, kwJson kw]
  | .boolTest c => jArr [jStr "bool", jNat c]
  | .awaitCond c => jArr [jStr "awaitcond", jNat c]
  | .capture s kw => jArr [jStr "capture", jNat s, kwJson kw]
  | .awaitCapture s => jArr [jStr "awaitcapture", jNat s]
  | .body args kwargs => jArr [jStr "body", jArr (args.map jNat),
      jArr ((sortPairs (kwargs.map fun p => (p.1, jNat p.2))).map fun p => jArr [jStr p.1, p.2])]
  | .errFac c kw => jArr [jStr "errfac", jNat c, kwJson kw]
  | .msg c => jArr [jStr "msg", jNat c]
  | .inv c i => jArr [jStr "inv", jNat c, jNat i]

def namesJson (ns : List String) : Json := jArr (ns.map jStr)

def raisedJson : Raised → Json
  | .user e => jArr [jStr "user", jNat e.id]
  | .viol c _ => jArr [jStr "viol", jNat c]
  | .typeErr k => match k with
    | .reservedKwarg n => jArr [jStr "TypeError", jStr "reservedKwarg", jStr n]
    | .reservedResolved n => jArr [jStr "TypeError", jStr "reservedResolved", jStr n]
    | .missingCondArgs c ns => jArr [jStr "TypeError", jStr "missingCondArgs", jNat c, namesJson ns]
    | .missingCaptureArgs s ns => jArr [jStr "TypeError", jStr "missingCaptureArgs", jNat s, namesJson ns]
    | .missingErrorArgs c ns => jArr [jStr "TypeError", jStr "missingErrorArgs", jNat c, namesJson ns]
    | .factoryNotException c => jArr [jStr "TypeError", jStr "factoryNotException", jNat c]
    | .classNotException c => jArr [jStr "TypeError", jStr "classNotException", jNat c]
  | .valueErr k cause =>
    let cj := match cause with | some e => jNat e.id | none => Json.null
    match k with
    | .coroFnCondOnSync c => jArr [jStr "ValueError", jStr "coroFnCondOnSync", jNat c, cj]
    | .coroCondOnSync c => jArr [jStr "ValueError", jStr "coroCondOnSync", jNat c, cj]
    | .coroFnCaptureOnSync s => jArr [jStr "ValueError", jStr "coroFnCaptureOnSync", jNat s, cj]
    | .coroCaptureOnSync s => jArr [jStr "ValueError", jStr "coroCaptureOnSync", jNat s, cj]
    | .negateFailed c => jArr [jStr "ValueError", jStr "negateFailed", jNat c, cj]
  | .runtimeErr c cause => jArr [jStr "RuntimeError", jNat c, jNat cause.id]
  | .notImplemented c => jArr [jStr "NotImplementedError", jNat c]

def outJson (r : Except Raised Id) : Json :=
  match r with
  | .ok v => jArr [jStr "ret", jNat v]
  | .error e => jArr [jStr "raise", raisedJson e]

/-! ## checker domain -/

structure CheckerCase where
  async : Bool := false
  fid : Id := 1
  levels : List Level
  sig : List Param
  args : List Id := []
  kwargs : List (String × Id) := []
  inProgress : List Id := []
  cond : List (CId × Ans) := []
  capture : List (SId × Ans) := []
  body : BodyAns := .ret 0
  fac : List (CId × FacAns) := []
  msg : List (CId × MsgAns) := []
deriving FromJson

def lookupD {β} (l : List (Nat × β)) (k : Nat) (d : β) : β :=
  match l.find? (·.1 == k) with
  | some p => p.2
  | none => d

def CheckerCase.oracle (c : CheckerCase) : Oracle where
  cond := fun i => lookupD c.cond i (.val 0 .truthy)
  capture := fun i => lookupD c.capture i (.val 0 .truthy)
  body := c.body
  fac := fun i => lookupD c.fac i .nonExc
  msg := fun i => lookupD c.msg i .ok

def CheckerCase.checker (c : CheckerCase) : Checker where
  fid := c.fid
  pre := chainPre c.levels
  snaps := chainSnaps c.levels
  posts := chainPosts c.levels
  paramNames := sigParamNames c.sig
  kwdefaults := sigKwdefaults c.sig
  posOnly := sigPosOnly c.sig

def boolJson (b : Bool) : Json := Json.bool b

def runChecker (c : CheckerCase) : Json :=
  let o := c.oracle
  let ck := c.checker
  let call : Call := { args := c.args, kwargs := c.kwargs }
  let (r, s') := if c.async then callAsync ck o c.inProgress call else callSync ck o c.inProgress call
  let kw := kwargsFromCall ck.paramNames ck.kwdefaults call.args call.kwargs ck.posOnly
  let allPre := ck.pre.flatMap id
  let dnf : Bool := ck.pre.isEmpty || ck.pre.any (fun g => g.all (condTruthy c.async o kw))
  let total : Bool := allPre.all (fun x => condTruthy c.async o kw x || condFalsy c.async o kw x)
  let callOk : Bool := (assertNoInvalidKwargs c.kwargs).isNone
      && (assertResolvedKwargsValid (!ck.posts.isEmpty) kw).isNone && !c.inProgress.contains c.fid
  let expectedErr : Json :=
    if !dnf && total then
      match ck.pre.getLast? with
      | some g => match firstFalsy c.async o kw g with
        | some fc => match errorOf o kw fc with
          | some e => raisedJson e
          | none => Json.null
        | none => Json.null
      | none => Json.null
    else Json.null
  let falsyErr : Bool := (allPre ++ ck.posts).any (fun c => match errorOf o kw c with | some e => !e.truthy | none => false)
  let capTotal : Bool := ck.snaps.all (captureTotal c.async o kw)
  let errNotTotal : Bool := allPre.any (fun c => (errorOf o kw c).isNone)
  let old := expectedOld c.async o ck.snaps
  let bodyRet : Option Id := match o.body with | .ret v => some v | .raises _ => none
  let kwPost := postKwargs ck kw old (bodyRet.getD 0)
  let postTotal : Bool := ck.posts.all (fun x => condTruthy c.async o kwPost x || condFalsy c.async o kwPost x)
  let postFF := firstFalsy c.async o kwPost ck.posts
  let expectedPostErr : Json := match postFF with
    | some fc => (match errorOf o kwPost fc with | some e => raisedJson e | none => Json.null)
    | none => Json.null
  Json.mkObj [
    ("trace", jArr (r.trace.map eventJson)),
    ("out", outJson r.out),
    ("inprog", jArr (s'.map jNat)),
    ("pre", jArr (ck.pre.map fun g => jArr (g.map fun c => jNat c.id))),
    ("snaps", jArr (ck.snaps.map fun s => jNat s.id)),
    ("posts", jArr (ck.posts.map fun c => jNat c.id)),
    ("spec", Json.mkObj [("dnfHolds", boolJson dnf), ("totalPre", boolJson total), ("callOk", boolJson callOk), ("capTotal", boolJson capTotal),
      ("expectedErr", expectedErr), ("falsyErrorInvolved", boolJson falsyErr),
      ("earlierGroupErrorNotTotal", boolJson errNotTotal),
      ("postTotal", boolJson postTotal),
      ("postFirstFalsy", match postFF with | some fc => jNat fc.id | none => Json.null),
      ("expectedPostErr", expectedPostErr),
      ("pyAccepts", boolJson (pyAccepts c.sig c.args c.kwargs)),
      ("pyValues", jArr (c.sig.filter (fun p => !p.isVariadic) |>.map fun p =>
          jArr [jStr p.name, match pyValue c.sig c.args c.kwargs p with | some v => jNat v | none => Json.null])),
      ("sigWf", boolJson (Signature.wf c.sig)),
      ("resolved", kwJson kw),
      ("oldExpected", jArr ((sortPairs (old.map fun p => (p.1, jNat p.2))).map fun p => jArr [jStr p.1, p.2]))])
  ]

/-! ## invariant evaluation domain: `for invariant in invariants: _assert_invariant(...)` on one instance -/

structure InvCase where
  contracts : List Contract
  self : Id := 1
  cond : List (CId × Ans) := []
  fac : List (CId × FacAns) := []
  msg : List (CId × MsgAns) := []
deriving FromJson

def runInvariants (c : InvCase) : Json :=
  let o : Oracle := { cond := fun i => lookupD c.cond i (.val 0 .truthy), capture := fun _ => .val 0 .truthy, body := .ret 0,
                      fac := fun i => lookupD c.fac i .nonExc, msg := fun i => lookupD c.msg i .ok }
  let r := assertInvariants o [("self", .obj c.self)] c.contracts
  Json.mkObj [("trace", jArr (r.trace.map eventJson)),
              ("out", match r.out with | .ok _ => jArr [jStr "ret", Json.null] | .error e => jArr [jStr "raise", raisedJson e])]

/-! ## definition-time domain -/

deriving instance FromJson, ToJson for ErrArg
deriving instance FromJson, ToJson for Below
deriving instance FromJson, ToJson for Mode
deriving instance FromJson, ToJson for EnvSlow
deriving instance FromJson, ToJson for EnabledArg
deriving instance FromJson, ToJson for DecoKind

structure DefineCase where
  what : String
  deco : String
  enabled : Bool
  err : ErrArg
  condArgs : List String
  condMandatory : List String
  coroFn : Bool
  name : Option String
  captureArgs : List String
  below : Below
  sig : List Param
deriving FromJson

def defOut {α} (r : Except DefErr α) : Json :=
  match r with
  | .ok _ => jArr [jStr "ok"]
  | .error (.valueError _) => jArr [jStr "raise", jStr "ValueError"]
  | .error (.typeError _) => jArr [jStr "raise", jStr "TypeError"]

def runDefine (c : DefineCase) : Json :=
  let out : Json :=
    match c.what with
    | "error_arg" =>
      (match c.deco with
       | "require" => defOut (requireInit c.enabled c.err)
       | "ensure" => defOut (ensureInit c.enabled c.err)
       | _ => defOut (invariantInit c.enabled c.err { args := ["self"], mandatory := ["self"], coroFn := false }))
    | "invariant_cond" =>
      defOut (invariantInit c.enabled .none { args := c.condArgs, mandatory := c.condMandatory, coroFn := c.coroFn })
    | "snapshot_name" => defOut (snapshotInit c.enabled c.name c.captureArgs)
    | "snapshot_apply" =>
      (match snapshotInit c.enabled c.name c.captureArgs with
       | .ok n => defOut (snapshotApply n c.below)
       | .error e => defOut (Except.error e : Except DefErr Unit))
    | "reserved_param" => defOut (checkReservedParams c.sig)
    | _ => jArr [jStr "unknown"]
  Json.mkObj [("out", out)]

structure ConfigCase where
  mode : Mode
  env : EnvSlow
  arg : EnabledArg
  deco : DecoKind
deriving FromJson

def runConfig (c : ConfigCase) : Json :=
  let en := enabledValue c.mode c.env c.arg
  let a := applyDecorator c.deco en
  Json.mkObj [("enabled", boolJson en), ("sameObject", boolJson a.sameObject),
    ("attrsAdded", boolJson a.attrsAdded), ("conditionStored", boolJson a.conditionStored)]

/-! ## class-history domain (metaclass, invariant decorator) -/

open Icontract.Meta in
deriving instance FromJson, ToJson for Meta.Member

structure MetaOp where
  op : String                      -- pre | post | snap | class | inv
  f : Nat := 0
  c : Nat := 0
  k : Nat := 0
  bases : List Nat := []
  dbc : Bool := true
  ns : List (String × Meta.Member) := []
  call : Bool := true
  setattr : Bool := false
deriving FromJson

structure MetaCase where
  snapNames : List (Nat × String)
  ops : List MetaOp
deriving FromJson

namespace MetaRun
open Icontract.Meta

def natsJson (xs : List Nat) : Json := jArr (xs.map jNat)

def declsOf (ops : List MetaOp) : Decls where
  ownPre := fun f => (ops.filter (fun o => o.op == "pre" && o.f == f)).map (·.c)
  ownPosts := fun f => (ops.filter (fun o => o.op == "post" && o.f == f)).map (·.c)
  ownSnaps := fun f => (ops.filter (fun o => o.op == "snap" && o.f == f)).map (·.c)
  ownInv := fun k => (ops.filter (fun o => o.op == "inv" && o.k == k)).map (fun o => (o.c, { call := o.call, setattr := o.setattr }))

def keysOf (w : World) (c : Cls) : List String :=
  let ks := (c.mro.map (fun a => match w.cls? a with | some ca => ca.ns.map (·.1) | none => [])).flatten
  (ks.eraseDups.toArray.qsort (· < ·)).toList

def whichOf (m : Member) : List Nat :=
  match m with
  | .prop _ _ _ => [0, 1, 2]
  | .other => []
  | _ => [0]

def observe (w : World) (d : Decls) : Json :=
  jArr (w.classes.map fun c =>
    let members := (keysOf w c).map fun key =>
      match lookupMember w c.id key with
      | none => jArr [jStr key]
      | some m =>
        jArr [jStr key, jArr ((whichOf m).filterMap fun which =>
          match memberFn m which with
          | none => none
          | some f =>
            let prov := (provider w c.id key).getD c.id
            let fuel := w.classes.length + 1
            let sp := specPreAt w d fuel prov key which
            some (Json.mkObj [
              ("which", jNat which),
              ("owner", match lookupOwner w c.id key with | some (o, _) => jNat o | none => Json.null),
              ("provider", jNat prov),
              ("pre", jArr ((preOf w f).map natsJson)), ("snaps", natsJson (snapsOf w f)), ("posts", natsJson (postsOf w f)),
              ("specPre", match sp with | some gs => jArr (gs.map natsJson) | none => Json.null),
              ("specSnaps", natsJson (specListAt w d.ownSnaps fuel prov key which)),
              ("specPosts", natsJson (specListAt w d.ownPosts fuel prov key which))]))]
    let invOwner : Json := match c.mro.find? (fun a => match w.cls? a with | some ca => ca.inv.isSome | none => false) with
      | some a => jNat a | none => Json.null
    Json.mkObj [("k", jNat c.id), ("dbc", boolJson c.dbc), ("mro", natsJson c.mro), ("invOwner", invOwner),
      ("inv", natsJson (invOf w c.id .all)), ("invCall", natsJson (invOf w c.id .onCall)),
      ("invSetattr", natsJson (invOf w c.id .onSetattr)),
      ("specInv", jArr ((specInv w d c.id).map fun p => jArr [jNat p.1, boolJson p.2.call, boolJson p.2.setattr])),
      ("members", jArr members)])

def errJson : Meta.DefErr → Json
  | .typeErrorWeaken _ => jArr [jStr "TypeError", jStr "weaken"]
  | .valueErrorDuplicateSnapshot _ => jArr [jStr "ValueError", jStr "duplicate-snapshot"]
  | .valueErrorNoChecker => jArr [jStr "ValueError", jStr "snapshot-without-postcondition"]
  | .mroConflict => jArr [jStr "TypeError", jStr "mro"]

def step (w : World) (d : Decls) (o : MetaOp) : World × Json × Json :=
  match o.op with
  | "pre" => (addPre w o.f o.c, Json.null, Json.null)
  | "post" => (addPost w o.f o.c, Json.null, Json.null)
  | "snap" => (match addSnap w o.f o.c with | .ok w' => (w', Json.null, Json.null) | .error e => (w, errJson e, Json.null))
  | "inv" =>
    if (w.cls? o.k).isNone then (w, jStr "skipped", Json.null)
    else (addInvariant w o.k o.c { call := o.call, setattr := o.setattr }, Json.null, Json.null)
  | "class" =>
    if o.bases.any (fun b => (w.cls? b).isNone) then (w, jStr "skipped", Json.null) else
    let fuel := w.classes.length + 2
    let rej := o.dbc && o.ns.any (fun p => (whichOf p.2).any (fun which =>
      match memberFn p.2 which with
      | some f => specRejects w d fuel o.bases p.1 which (d.ownPre f)
      | none => false))
    (match defineClass w o.k o.bases o.ns o.dbc with
     | .ok w' => (w', Json.null, boolJson rej)
     | .error e => ((if o.dbc then defineClassResidue w o.bases o.ns else w), errJson e, boolJson rej))
  | "wrap" => (w, Json.null, Json.null)      -- a foreign functools.wraps layer on top of the function: no effect on the contract state
  | "call" => (w, Json.null, Json.null)      -- a call of the function: no effect on the contract state
  | _ => (w, jStr "unknown-op", Json.null)

def run (c : MetaCase) : Json :=
  let d := declsOf c.ops
  let w0 : World := { snapNames := c.snapNames }
  let (w, outs) := c.ops.foldl (fun (acc : World × List Json) o =>
    let (w', err, rej) := step acc.1 d o
    (w', acc.2 ++ [Json.mkObj [("err", err), ("specRejects", rej), ("obs", observe w' d)]])) (w0, [])
  Json.mkObj [("steps", jArr outs), ("hook", natsJson w.hookCalls)]

end MetaRun

/-! ## expression domain: the re-evaluator and Python's evaluation under a concrete `Ops` fragment -/

namespace ExRun
open Icontract.Ex

partial def valOfJson (j : Json) : Except String Ex.Val :=
  match j with
  | .str "none" => .ok .none
  | _ =>
    match j.getObjVal? "int" with
    | .ok v => (v.getObjValAs? Int "i").map Ex.Val.int
    | .error _ =>
    match j.getObjVal? "bool" with
    | .ok v => (v.getObjValAs? Bool "b").map Ex.Val.bool
    | .error _ =>
    match j.getObjVal? "str" with
    | .ok v => (v.getObjValAs? String "s").map Ex.Val.str
    | .error _ =>
    match j.getObjVal? "list" with
    | .ok v => do
        let xs ← v.getObjValAs? (Array Json) "xs"
        let vs ← xs.toList.mapM valOfJson
        pure (.list vs)
    | .error _ =>
    match j.getObjVal? "obj" with
    | .ok v => (v.getObjValAs? Nat "id").map Ex.Val.obj
    | .error _ =>
    match j.getObjVal? "fn" with
    | .ok v => (v.getObjValAs? String "name").map Ex.Val.fn
    | .error _ =>
    match j.getObjVal? "tuple" with
    | .ok v => do
        let xs ← v.getObjValAs? (Array Json) "xs"
        pure (.tuple (← xs.toList.mapM valOfJson))
    | .error _ =>
    match j.getObjVal? "set" with
    | .ok v => do
        let xs ← v.getObjValAs? (Array Json) "xs"
        pure (.set (← xs.toList.mapM valOfJson))
    | .error _ =>
    match j.getObjVal? "dict" with
    | .ok v => do
        let ks ← v.getObjValAs? (Array Json) "ks"
        let vs ← v.getObjValAs? (Array Json) "vs"
        pure (.dict (← ks.toList.mapM valOfJson) (← vs.toList.mapM valOfJson))
    | .error _ =>
    match j.getObjVal? "slice" with
    | .ok v => do
        pure (.slice (← valOfJson (← v.getObjVal? "lo")) (← valOfJson (← v.getObjVal? "hi")) (← valOfJson (← v.getObjVal? "step")))
    | .error _ => .error s!"bad value {j.compress}"

partial def valJson : Ex.Val → Json
  | .int i => Json.mkObj [("int", Json.mkObj [("i", Json.num (JsonNumber.fromInt i))])]
  | .bool b => Json.mkObj [("bool", Json.mkObj [("b", Json.bool b)])]
  | .none => jStr "none"
  | .str s => Json.mkObj [("str", Json.mkObj [("s", jStr s)])]
  | .list xs => Json.mkObj [("list", Json.mkObj [("xs", jArr (xs.map valJson))])]
  | .obj i => Json.mkObj [("obj", Json.mkObj [("id", jNat i)])]
  | .fn n => Json.mkObj [("fn", Json.mkObj [("name", jStr n)])]
  | .tuple xs => Json.mkObj [("tuple", Json.mkObj [("xs", jArr (xs.map valJson))])]
  | .set xs => Json.mkObj [("set", Json.mkObj [("xs", jArr (xs.map valJson))])]
  | .dict ks vs => Json.mkObj [("dict", Json.mkObj [("ks", jArr (ks.map valJson)), ("vs", jArr (vs.map valJson))])]
  | .slice a b c => Json.mkObj [("slice", Json.mkObj [("lo", valJson a), ("hi", valJson b), ("step", valJson c)])]

partial def exprOfJson (j : Json) : Except String Expr := do
  let k ← j.getObjValAs? String "k"
  let i ← j.getObjValAs? Nat "id"
  let sub (f : String) : Except String Expr := do exprOfJson (← j.getObjVal? f)
  let subs (f : String) : Except String (List Expr) := do
    let a ← j.getObjValAs? (Array Json) f
    a.toList.mapM exprOfJson
  match k with
  | "const" => do pure (.const i (← valOfJson (← j.getObjVal? "v")))
  | "name" => do pure (.name i (← j.getObjValAs? String "n"))
  | "attr" => do pure (.attr i (← sub "e") (← j.getObjValAs? String "a"))
  | "subscr" => do pure (.subscr i (← sub "e") (← sub "i"))
  | "call" => do pure (.call i (← sub "f") (← subs "args"))
  | "unary" => do
      let op ← j.getObjValAs? String "op"
      let o : UnOp := if op == "not" then .not else if op == "neg" then .neg else if op == "pos" then .pos else .inv
      pure (.unary i o (← sub "e"))
  | "bin" => do pure (.bin i (← j.getObjValAs? String "op") (← sub "l") (← sub "r"))
  | "boolop" => do pure (.boolop i (← j.getObjValAs? Bool "isAnd") (← subs "es"))
  | "compare" => do
      let ops ← j.getObjValAs? (Array String) "ops"
      let cs ← subs "cs"
      pure (.compare i (← sub "left") (ops.toList.zip cs))
  | "ifexp" => do pure (.ifexp i (← sub "c") (← sub "t") (← sub "e"))
  | "display" => do pure (.display i (← subs "es"))
  | "comp" => do pure (.comp i ((← j.getObjValAs? (Array String) "targets").toList) (← sub "first") (← subs "inner"))
  | "starred" => do pure (.starred i (← sub "e"))
  | "coll" => do
      let kind ← j.getObjValAs? String "kind"
      let ck : CollKind := if kind == "tuple" then .tuple else if kind == "set" then .set else .list
      pure (.coll i ck (← subs "es"))
  | "dict" => do
      let items ← j.getObjValAs? (Array Json) "items"
      let its ← items.toList.mapM (fun p => do
        let a ← (fromJson? p : Except String (Array Json))
        let key ← (if a[0]!.isNull then pure none else do pure (some (← exprOfJson a[0]!)))
        pure (key, ← exprOfJson a[1]!))
      pure (.dict i its)
  | "slice" => do
      let opt (f : String) : Except String (Option Expr) := do
        match j.getObjVal? f with
        | .ok v => if v.isNull then pure none else do pure (some (← exprOfJson v))
        | .error _ => pure none
      pure (.slice i (← opt "lo") (← opt "hi") (← opt "step"))
  | "callkw" => do
      let kws ← j.getObjValAs? (Array Json) "kws"
      let ks ← kws.toList.mapM (fun p => do
        let a ← (fromJson? p : Except String (Array Json))
        let name ← (if a[0]!.isNull then pure none else do pure (some (← (fromJson? a[0]! : Except String String))))
        pure (name, ← exprOfJson a[1]!))
      pure (.callkw i (← sub "f") (← subs "args") ks)
  | "fvalue" => do
      let c ← j.getObjValAs? String "conv"
      let cv : Conv := if c == "s" then .s else if c == "r" then .r else if c == "a" then .a else .none
      let spec ← (match j.getObjVal? "spec" with
        | .ok v => if v.isNull then pure none else do pure (some (← exprOfJson v))
        | .error _ => pure none)
      pure (.fvalue i (← sub "e") cv spec)
  | "fstring" => do pure (.fstring i (← subs "parts"))
  | _ => .error s!"unknown expr kind {k}"

def toInt? : Ex.Val → Option Int
  | .int i => some i
  | .bool b => some (if b then 1 else 0)
  | _ => none

partial def valEq : Ex.Val → Ex.Val → Bool
  | .none, .none => true
  | .str a, .str b => a == b
  | .list a, .list b => a.length == b.length && (a.zip b).all (fun p => valEq p.1 p.2)
  | .obj a, .obj b => a == b
  | .fn a, .fn b => a == b
  | .tuple a, .tuple b => a.length == b.length && (a.zip b).all (fun p => valEq p.1 p.2)
  | .set a, .set b => a.length == b.length && a.all (fun x => b.any (valEq x))
  | .dict ka va, .dict kb vb =>
      ka.length == kb.length && (ka.zip va).all (fun p => (kb.zip vb).any (fun q => valEq p.1 q.1 && valEq p.2 q.2))
  | .slice a b c, .slice a' b' c' => valEq a a' && valEq b b' && valEq c c'
  | a, b => match toInt? a, toInt? b with | some x, some y => x == y | _, _ => false

partial def valLt : Ex.Val → Ex.Val → Except Ex.Exc Bool
  | .str a, .str b => .ok (a < b)
  | .list a, .list b =>
      let rec go : List Ex.Val → List Ex.Val → Except Ex.Exc Bool
        | [], [] => .ok false
        | [], _ :: _ => .ok true
        | _ :: _, [] => .ok false
        | x :: xs, y :: ys => if valEq x y then go xs ys else valLt x y
      go a b
  | .tuple a, .tuple b => valLt (.list a) (.list b)
  | a, b => match toInt? a, toInt? b with | some x, some y => .ok (x < y) | _, _ => .error "TypeError"

def truthOf : Ex.Val → Bool
  | .int i => i != 0
  | .bool b => b
  | .none => false
  | .str s => !s.isEmpty
  | .list xs => !xs.isEmpty
  | .tuple xs => !xs.isEmpty
  | .set xs => !xs.isEmpty
  | .dict ks _ => !ks.isEmpty
  | _ => true

partial def hashable : Ex.Val → Bool
  | .list _ | .set _ | .dict _ _ | .slice _ _ _ => false
  | .tuple xs => xs.all hashable
  | _ => true

/-- Python's `repr` for the values of the fragment (strings: only those that need no escaping) -/
partial def pyRepr : Ex.Val → Except Ex.Exc String
  | .int i => .ok (toString i)
  | .bool b => .ok (if b then "True" else "False")
  | .none => .ok "None"
  | .str s =>
      if s.toList.any (fun c => c == '\\' || c == '\'' || c.toNat < 32 || c.toNat > 126) then .error "NotImplemented"
      else .ok ("'" ++ s ++ "'")
  | .list xs => do let rs ← xs.mapM pyRepr; pure ("[" ++ ", ".intercalate rs ++ "]")
  | .tuple [x] => do let r ← pyRepr x; pure ("(" ++ r ++ ",)")
  | .tuple xs => do let rs ← xs.mapM pyRepr; pure ("(" ++ ", ".intercalate rs ++ ")")
  | .dict ks vs => do
      let rs ← (ks.zip vs).mapM (fun p => do pure ((← pyRepr p.1) ++ ": " ++ (← pyRepr p.2)))
      pure ("{" ++ ", ".intercalate rs ++ "}")
  | .set [] => .ok "set()"
  | .set [x] => do let r ← pyRepr x; pure ("{" ++ r ++ "}")
  | _ => .error "NotImplemented"

def pyStr : Ex.Val → Except Ex.Exc String
  | .str s => .ok s
  | v => pyRepr v

def padTo (s : String) (width : Nat) (align : Char) (fill : Char) : String :=
  let n := s.length
  if n ≥ width then s
  else
    let k := width - n
    if align == '<' then s ++ String.ofList (List.replicate k fill)
    else if align == '^' then String.ofList (List.replicate (k / 2) fill) ++ s ++ String.ofList (List.replicate (k - k / 2) fill)
    else String.ofList (List.replicate k fill) ++ s

/-- `format(v, spec)` for specs of the shape `[[fill]align][0][width][d|s]` -/
def pyFormat (v : Ex.Val) (spec : String) : Except Ex.Exc String := do
  let cs := spec.toList
  let (fill, align, cs) := match cs with
    | f :: a :: rest => if a == '<' || a == '>' || a == '^' then (some f, some a, rest)
                        else if f == '<' || f == '>' || f == '^' then (none, some f, a :: rest) else (none, none, cs)
    | [a] => if a == '<' || a == '>' || a == '^' then (none, some a, []) else (none, none, cs)
    | [] => (none, none, [])
  let (zero, cs) := match cs with
    | '0' :: rest => (true, rest)
    | _ => (false, cs)
  let digits := cs.takeWhile Char.isDigit
  let rest := cs.dropWhile Char.isDigit
  let width := (String.mk digits).toNat?.getD 0
  let isNum := match v with | .int _ => true | _ => false
  let body ← (match rest, v with
    | [], .int i => .ok (toString i)
    | ['d'], .int i => .ok (toString i)
    | [], .str s => .ok s
    | ['s'], .str s => .ok s
    | [], .bool b => if spec.isEmpty then .ok (if b then "True" else "False") else .error "NotImplemented"
    | [], .none => if spec.isEmpty then .ok "None" else .error "TypeError"
    | [], w => if spec.isEmpty then pyStr w else .error "TypeError"
    | _, _ => .error "NotImplemented")
  let negative := body.startsWith "-"
  if zero && isNum && align.isNone then
    if negative then pure ("-" ++ padTo (String.ofList (body.toList.drop 1)) (width - 1) '>' '0') else pure (padTo body width '>' '0')
  else
    let a := align.getD (if isNum then '>' else '<')
    pure (padTo body width a (fill.getD ' '))

def dictSetL (ks vs : List Ex.Val) (k v : Ex.Val) : List Ex.Val × List Ex.Val :=
  if ks.any (valEq k) then (ks, (ks.zip vs).map (fun p => if valEq p.1 k then v else p.2))
  else (ks ++ [k], vs ++ [v])

def indexList (xs : List Ex.Val) (i : Int) : Except Ex.Exc Ex.Val :=
  let n : Int := xs.length
  let j := if i < 0 then i + n else i
  if j < 0 || j ≥ n then .error "IndexError" else .ok (xs.getD j.toNat .none)

/-- Python's slicing of a sequence of length `n` (step 1 or a positive / negative step) -/
def sliceIdx (n : Int) (lo hi step : Ex.Val) : Except Ex.Exc (List Nat) := do
  let st ← (match step with | .none => .ok (1 : Int) | v => match toInt? v with | some 0 => .error "ValueError" | some k => .ok k | none => .error "TypeError")
  let clamp (v : Ex.Val) (dflt : Int) (lowB highB : Int) : Except Ex.Exc Int :=
    match v with
    | .none => .ok dflt
    | w => match toInt? w with
      | some i => let j := if i < 0 then i + n else i
                  .ok (if j < lowB then lowB else if j > highB then highB else j)
      | none => .error "TypeError"
  if st > 0 then do
    let a ← clamp lo 0 0 n
    let b ← clamp hi n 0 n
    let cnt := if b > a then ((b - a + st - 1) / st).toNat else 0
    pure ((List.range cnt).map (fun (k : Nat) => (a + st * (k : Int)).toNat))
  else do
    let a ← clamp lo (n - 1) (-1) (n - 1)
    let b ← clamp hi (-1) (-1) (n - 1)
    let cnt := if a > b then ((a - b + (-st) - 1) / (-st)).toNat else 0
    pure ((List.range cnt).map (fun (k : Nat) => (a + st * (k : Int)).toNat))

def iterOf : Ex.Val → Except Ex.Exc (List Ex.Val)
  | .list xs => .ok xs
  | .tuple xs => .ok xs
  | .set xs => .ok xs
  | .dict ks _ => .ok ks
  | .str s => .ok (s.toList.map (fun c => Ex.Val.str (String.singleton c)))
  | _ => .error "TypeError"

def mkSetOf (xs : List Ex.Val) : Except Ex.Exc Ex.Val :=
  if xs.all hashable then .ok (.set (xs.foldl (fun acc x => if acc.any (valEq x) then acc else acc ++ [x]) []))
  else .error "TypeError"

structure Tables where
  attrs : List (Nat × String × Ex.Val)
  comps : List (Nat × Option Ex.Val)

/-- `min(a, b, ...)` / `max(a, b, ...)` with two or more positional arguments: the first of the smallest / largest -/
def minOfArgs (a : Ex.Val) (rest : List Ex.Val) : Except String Ex.Val :=
  rest.foldlM (fun m c => do let l ← valLt c m; pure (if l then c else m)) a
def maxOfArgs (a : Ex.Val) (rest : List Ex.Val) : Except String Ex.Val :=
  rest.foldlM (fun m c => do let l ← valLt m c; pure (if l then c else m)) a

/-- Python's `needle in hay` for strings -/
def isSubstr (needle hay : String) : Bool :=
  let n := needle.toList
  let h := hay.toList
  (List.range (h.length + 1)).any (fun i => (h.drop i).take n.length == n)

def concreteOps (t : Tables) : Ops where
  unary := fun op v => match op, toInt? v with
    | .neg, some i => .ok (.int (-i))
    | .pos, some i => .ok (.int i)
    | .inv, some i => .ok (.int (-i - 1))
    | _, _ => .error "TypeError"
  bin := fun op a b =>
    match op, a, b with
    | "+", .list x, .list y => .ok (.list (x ++ y))
    | "+", .str x, .str y => .ok (.str (x ++ y))
    | "*", .list x, .int n => .ok (.list ((List.replicate n.toNat x).flatten))
    | "*", .int n, .list x => .ok (.list ((List.replicate n.toNat x).flatten))
    | "*", .str x, .int n => .ok (.str (String.join (List.replicate n.toNat x)))
    | "*", .int n, .str x => .ok (.str (String.join (List.replicate n.toNat x)))
    | _, _, _ =>
      match toInt? a, toInt? b with
      | some x, some y =>
        if op == "+" then .ok (.int (x + y)) else if op == "-" then .ok (.int (x - y))
        else if op == "*" then .ok (.int (x * y))
        else if op == "//" then (if y == 0 then .error "ZeroDivisionError" else .ok (.int (Int.fdiv x y)))
        else if op == "%" then (if y == 0 then .error "ZeroDivisionError" else .ok (.int (Int.fmod x y)))
        else .error "NotImplemented"
      | _, _ => .error "TypeError"
  cmp := fun op a b =>
    if op == "==" then .ok (.bool (valEq a b)) else if op == "!=" then .ok (.bool (!valEq a b))
    else if op == "<" then (valLt a b).map Ex.Val.bool
    else if op == ">" then (valLt b a).map Ex.Val.bool
    else if op == "<=" then (do let l ← valLt a b; pure (.bool (l || valEq a b)))
    else if op == ">=" then (do let l ← valLt b a; pure (.bool (l || valEq a b)))
    else if op == "is" then .ok (.bool (match a, b with | .none, .none => true | .bool x, .bool y => x == y | _, _ => false))
    else if op == "is not" then .ok (.bool (!(match a, b with | .none, .none => true | .bool x, .bool y => x == y | _, _ => false)))
    else if op == "in" then (match b, a with
      | .list xs, _ | .tuple xs, _ | .set xs, _ | .dict xs _, _ => .ok (.bool (xs.any (valEq a)))
      | .str hay, .str needle => .ok (.bool (isSubstr needle hay))
      | _, _ => .error "TypeError")
    else if op == "not in" then (match b, a with
      | .list xs, _ | .tuple xs, _ | .set xs, _ | .dict xs _, _ => .ok (.bool (!xs.any (valEq a)))
      | .str hay, .str needle => .ok (.bool (!isSubstr needle hay))
      | _, _ => .error "TypeError")
    else .error "NotImplemented"
  truth := fun v => .ok (truthOf v)
  attr := fun v a => match v with
    | .obj i => (match t.attrs.find? (fun p => p.1 == i && p.2.1 == a) with | some p => .ok p.2.2 | none => .error "AttributeError")
    | _ => .error "AttributeError"
  subscr := fun v k => match v, k with
    | .list xs, .slice a b c => do let ix ← sliceIdx xs.length a b c; pure (.list (ix.map (fun i => xs.getD i .none)))
    | .tuple xs, .slice a b c => do let ix ← sliceIdx xs.length a b c; pure (.tuple (ix.map (fun i => xs.getD i .none)))
    | .str s, .slice a b c => do
        let cs := s.toList
        let ix ← sliceIdx cs.length a b c
        pure (.str (String.ofList (ix.map (fun i => cs.getD i ' '))))
    | .dict ks vs, key =>
        if !hashable key then .error "TypeError"
        else match (ks.zip vs).find? (fun p => valEq p.1 key) with
          | some p => .ok p.2
          | none => .error "KeyError"
    | .list xs, key => (match toInt? key with | some i => indexList xs i | none => .error "TypeError")
    | .tuple xs, key => (match toInt? key with | some i => indexList xs i | none => .error "TypeError")
    | _, _ => .error "TypeError"
  call := fun f args => match f, args with
    | .fn "len", [.list xs] => .ok (.int xs.length)
    | .fn "len", [.str s] => .ok (.int s.length)
    | .fn "abs", [v] => (match toInt? v with | some i => .ok (.int i.natAbs) | none => .error "TypeError")
    | .fn "bool", [v] => .ok (.bool (truthOf v))
    | .fn "min", a :: b :: rest => minOfArgs a (b :: rest)
    | .fn "max", a :: b :: rest => maxOfArgs a (b :: rest)
    | .fn "sum", [.list xs] => (match xs.mapM toInt? with | some is => .ok (.int (is.foldl (· + ·) 0)) | none => .error "TypeError")
    | .fn "sum", [.tuple xs] => (match xs.mapM toInt? with | some is => .ok (.int (is.foldl (· + ·) 0)) | none => .error "TypeError")
    | .fn "len", [.tuple xs] => .ok (.int xs.length)
    | .fn "len", [.set xs] => .ok (.int xs.length)
    | .fn "len", [.dict ks _] => .ok (.int ks.length)
    | .fn "list", [v] => (iterOf v).map Ex.Val.list
    | .fn "tuple", [v] => (iterOf v).map Ex.Val.tuple
    | .fn "sorted", [v] => (iterOf v).map (fun xs => Ex.Val.list (xs.mergeSort (fun a b => !(match valLt b a with | .ok r => r | .error _ => false))))
    | .fn "set", [v] => do mkSetOf (← iterOf v)
    | .fn "str", [v] => (pyStr v).map Ex.Val.str
    | .fn "repr", [v] => (pyRepr v).map Ex.Val.str
    | _, _ => .error "NotImplemented"
  comp := fun i _ => match t.comps.find? (fun p => p.1 == i) with
    | some (_, some v) => .ok v
    | _ => .error "CompError"
  mkSet := mkSetOf
  iter := iterOf
  dictEmpty := .dict [] []
  dictSet := fun d k v => match d with
    | .dict ks vs => if hashable k then (let r := dictSetL ks vs k v; .ok (.dict r.1 r.2)) else .error "TypeError"
    | _ => .error "TypeError"
  dictUpdate := fun d u => match d, u with
    | .dict ks vs, .dict ks2 vs2 =>
        let r := (ks2.zip vs2).foldl (fun acc p => dictSetL acc.1 acc.2 p.1 p.2) (ks, vs)
        .ok (.dict r.1 r.2)
    | _, _ => .error "TypeError"
  kwItems := fun u => match u with
    | .dict ks vs => (ks.zip vs).mapM (fun p => match p.1 with | .str s => .ok (s, p.2) | _ => (.error "TypeError" : Except Ex.Exc _))
    | _ => .error "TypeError"
  callkw := fun f args kws =>
    let lt (rev : Bool) (a b : Ex.Val) : Bool := match (if rev then valLt b a else valLt a b) with | .ok r => r | .error _ => false
    match f, args, kws with
    | .fn "sorted", [v], [] => (iterOf v).map (fun xs => Ex.Val.list (xs.mergeSort (fun a b => !lt false b a)))
    | .fn "sorted", [v], [("reverse", r)] =>
        (iterOf v).map (fun xs => Ex.Val.list (xs.mergeSort (fun a b => !lt (truthOf r) b a)))
    | .fn "max", [v], [("default", d)] => (do
        let xs ← iterOf v
        match xs with
        | [] => pure d
        | x :: rest => rest.foldlM (fun m y => do let l ← valLt m y; pure (if l then y else m)) x)
    | .fn "min", [v], [("default", d)] => (do
        let xs ← iterOf v
        match xs with
        | [] => pure d
        | x :: rest => rest.foldlM (fun m y => do let l ← valLt y m; pure (if l then y else m)) x)
    | .fn "sum", [v], [("start", s0)] => (do
        let xs ← iterOf v
        match (s0 :: xs).mapM toInt? with | some is => pure (.int (is.foldl (· + ·) 0)) | none => .error "TypeError")
    | .fn "dict", [], kvs => .ok (.dict (kvs.map (fun p => Ex.Val.str p.1)) (kvs.map (·.2)))
    | .fn "dict", [.dict ks vs], kvs =>
        let r := kvs.foldl (fun acc p => dictSetL acc.1 acc.2 (.str p.1) p.2) (ks, vs)
        .ok (.dict r.1 r.2)
    | fv, as, [] => (match fv, as with
        | .fn "len", [.list xs] => .ok (.int xs.length)
        | .fn "len", [.tuple xs] => .ok (.int xs.length)
        | .fn "len", [.str s] => .ok (.int s.length)
        | .fn "min", a :: b :: rest => minOfArgs a (b :: rest)
        | .fn "max", a :: b :: rest => maxOfArgs a (b :: rest)
        | .fn "sum", [v] => (do
            let xs ← iterOf v
            match xs.mapM toInt? with | some is => pure (.int (is.foldl (· + ·) 0)) | none => .error "TypeError")
        | .fn "list", [v] => (iterOf v).map Ex.Val.list
        | .fn "tuple", [v] => (iterOf v).map Ex.Val.tuple
        | _, _ => .error "NotImplemented")
    | _, _, _ => .error "NotImplemented"
  format := fun v conv spec => do
    let v' ← (match conv with
      | .none => pure v
      | .s => (pyStr v).map Ex.Val.str
      | .r => (pyRepr v).map Ex.Val.str
      | .a => (pyRepr v).map Ex.Val.str)
    let sp ← (match spec with
      | none => pure ""
      | some (.str s) => pure s
      | some _ => .error "TypeError")
    (pyFormat v' sp).map Ex.Val.str
  join := fun parts => (parts.mapM (fun (p : Ex.Val) => match p with | Ex.Val.str s => (.ok s : Except Ex.Exc String) | _ => .error "TypeError")).map (fun ss => Ex.Val.str (String.join ss))

structure ExprCase where
  expr : Json
  names : List (String × Json)
  builtins : List String
  attrs : List (Nat × String × Json)
  comps : List (Nat × Option Json)

def logJson (l : Log) : Json := jArr (l.map fun p => jArr [jNat p.1, valJson p.2])


/-- the direct sub-expressions of a node -/
def exprChildren : Expr → List Expr
  | .const _ _ | .name _ _ => []
  | .attr _ e _ => [e]
  | .subscr _ e ix => [e, ix]
  | .call _ f args => f :: args
  | .unary _ _ e => [e]
  | .bin _ _ l r => [l, r]
  | .boolop _ _ es => es
  | .compare _ left rest => left :: rest.map (·.2)
  | .ifexp _ c t e => [c, t, e]
  | .display _ es => es
  | .comp _ _ first inner => first :: inner
  | .starred _ e => [e]
  | .coll _ _ es => es
  | .dict _ items => items.flatMap (fun p => (match p.1 with | some k => [k] | none => []) ++ [p.2])
  | .slice _ lo hi step => [lo, hi, step].filterMap id
  | .callkw _ f args kws => f :: (args ++ kws.map (·.2))
  | .fvalue _ e _ spec => e :: (match spec with | some x => [x] | none => [])
  | .fstring _ parts => parts

/-- Does a part of a comprehension fail inside the speculative harvest because the driver's concrete `Ops` do not
implement an operation (`NotImplemented`)?  The harvest swallows every failure, so the answer of the visit itself cannot
show it; such a case has left the fragment the driver can run and is compared against the CPython oracle only. -/
partial def hiddenNotImpl (ops : Ops) (bi : List (String × Ex.Val)) (tbl : Tbl) : Expr → Bool
  | .comp _ targets first inner =>
      hiddenNotImpl ops bi tbl first ||
      inner.any (fun x =>
        let t' := tbl.shadow targets
        (match (visit ops bi t' x).out with | .error ex => ex == "NotImplemented" | _ => false) || hiddenNotImpl ops bi t' x)
  | e => (exprChildren e).any (hiddenNotImpl ops bi tbl)

def run (j : Json) : Except String Json := do
  let e ← exprOfJson (← j.getObjVal? "expr")
  let namesJ ← j.getObjValAs? (Array Json) "names"
  let names ← namesJ.toList.mapM (fun p => do
    let a ← (fromJson? p : Except String (Array Json))
    let n ← (fromJson? a[0]! : Except String String)
    let v ← valOfJson a[1]!
    pure (n, v))
  let bi ← j.getObjValAs? (List String) "builtins"
  let attrsJ ← j.getObjValAs? (Array Json) "attrs"
  let attrs ← attrsJ.toList.mapM (fun p => do
    let a ← (fromJson? p : Except String (Array Json))
    pure ((← (fromJson? a[0]! : Except String Nat)), (← (fromJson? a[1]! : Except String String)), (← valOfJson a[2]!)))
  let compsJ ← j.getObjValAs? (Array Json) "comps"
  let comps ← compsJ.toList.mapM (fun p => do
    let a ← (fromJson? p : Except String (Array Json))
    let i ← (fromJson? a[0]! : Except String Nat)
    if a[1]!.isNull then pure (i, none) else pure (i, some (← valOfJson a[1]!)))
  let ops := concreteOps { attrs := attrs, comps := comps }
  -- the look-ups (arguments, closure, globals) separately, if given: Python's scoping for `pyEval`, the visitor's
  -- own first-one-wins merge for `visit`
  let lookupsJ := (j.getObjValAs? (Array Json) "lookups").toOption
  let lookups ← (match lookupsJ with
    | none => pure none
    | some arr => do
        let ls ← arr.toList.mapM (fun lj => do
          let items ← (fromJson? lj : Except String (Array Json))
          items.toList.mapM (fun p => do
            let a ← (fromJson? p : Except String (Array Json))
            let n ← (fromJson? a[0]! : Except String String)
            let v ← valOfJson a[1]!
            pure (n, v)))
        pure (some ls))
  -- `call`: the first look-up holds ALL the arguments of the decorated function's call; the model builds the condition's
  -- own look-up from it (`condLookup`: the arguments the condition takes, then the defaults of its other parameters)
  let isCall := (j.getObjValAs? Bool "call").toOption.getD false
  let condParams0 := (j.getObjValAs? (List String) "condParams").toOption.getD []
  let defaultsJ := (j.getObjValAs? (Array Json) "condDefaults").toOption.getD #[]
  let defaults ← defaultsJ.toList.mapM (fun p => do
    let a ← (fromJson? p : Except String (Array Json))
    let n ← (fromJson? a[0]! : Except String String)
    let v ← valOfJson a[1]!
    pure (n, v))
  let cparams : List CondParam := condParams0.map (fun n => (n, none)) ++ defaults.map (fun p => (p.1, some p.2))
  let lookups := match lookups with
    | some (kw :: rest) => if isCall then some (condLookup cparams kw :: rest) else some (kw :: rest)
    | other => other
  let names := match lookups with | some ls => pyScope ls | none => names
  let env : Env := { names := names, builtins := bi.map (fun n => (n, Ex.Val.fn n)) }
  let py := pyEval ops env e
  let tbl := match lookups with | some ls => Tbl.ofLookups ls | none => Tbl.ofNames names
  let vr := visit ops env.builtins tbl e
  let inner := innerIds e
  let textsJ := (j.getObjValAs? (Array Json) "texts").toOption.getD #[]
  let texts ← textsJ.toList.mapM (fun p => do
    let a ← (fromJson? p : Except String (Array Json))
    pure ((← (fromJson? a[0]! : Except String Nat)), (← (fromJson? a[1]! : Except String String))))
  let text : Nat → String := fun i => match texts.find? (fun p => p.1 == i) with | some p => p.2 | none => s!"<node {i}>"
  let lookupNames := (j.getObjValAs? (List String) "lookupNames").toOption.getD []
  let condParams := (j.getObjValAs? (List String) "condParams").toOption.getD []
  let kwJ := (j.getObjValAs? (Array Json) "kwargs").toOption.getD #[]
  let kw ← kwJ.toList.mapM (fun p => do
    let a ← (fromJson? p : Except String (Array Json))
    let n ← (fromJson? a[0]! : Except String String)
    let v ← valOfJson a[1]!
    pure (n, v))
  let lines := collectLines text (fun n => lookupNames.contains n) vr.log [] e
  let pairs := reprPairs lines condParams kw
  let pairJson (l : List (String × Ex.Val)) : Json := jArr (l.map fun p => jArr [jStr p.1, valJson p.2])
  pure (Json.mkObj [
    ("hiddenNotImplemented", boolJson (hiddenNotImpl ops env.builtins tbl e)),
    ("lines", pairJson lines),
    ("pairs", pairJson pairs),
    ("py", match py with
      | .ok (v, l) => Json.mkObj [("value", valJson v), ("log", logJson l)]
      | .error ex => Json.mkObj [("exc", jStr ex)]),
    ("visit", Json.mkObj [
      ("out", match vr.out with | .ok (some v) => valJson v | .ok none => jStr "PLACEHOLDER" | .error ex => Json.mkObj [("exc", jStr ex)]),
      ("log", logJson vr.log),
      ("outerLog", logJson (vr.log.filter (fun p => !inner.contains p.1)))]),
    ("wf", boolJson e.wf),
    ("idsNodup", boolJson ((allIds e).eraseDups.length == (allIds e).length))])

end ExRun

/-! ## concurrency domain -/

deriving instance FromJson, ToJson for Conc.Discipline

/-- `kind`, `postTruthy`, `postYields` are optional (function / true / 0): cases written for the first version still read -/
def concCallOfJson (j : Json) : Except String Conc.CallSpec := do
  let f ← j.getObjValAs? Nat "f"
  let pre ← j.getObjValAs? Bool "preTruthy"
  let cy ← j.getObjValAs? Nat "condYields"
  let by_ ← j.getObjValAs? Nat "bodyYields"
  let kind ← match j.getObjValAs? String "kind" with
    | .ok "function" => pure Conc.Kind.function
    | .ok "method" => pure Conc.Kind.method
    | .ok "ctor" => pure Conc.Kind.ctor
    | .ok k => throw s!"unknown kind {k}"
    | .error _ => pure Conc.Kind.function
  let post := match j.getObjValAs? Bool "postTruthy" with | .ok b => b | .error _ => true
  let py := match j.getObjValAs? Nat "postYields" with | .ok n => n | .error _ => 0
  pure { f := f, preTruthy := pre, condYields := cy, bodyYields := by_, kind := kind, postTruthy := post, postYields := py }

instance : FromJson Conc.CallSpec := ⟨concCallOfJson⟩

/-- a schedule entry: a number (that task runs), `{"fork": p, "calls": [...]}` or `{"thread": true, "calls": [...]}` -/
def concOpOfJson (j : Json) : Except String Conc.Op :=
  match j.getNat? with
  | .ok i => pure (.run i)
  | .error _ => do
    let calls ← j.getObjValAs? (List Conc.CallSpec) "calls"
    match j.getObjValAs? Nat "fork" with
    | .ok p => pure (.fork p calls)
    | .error _ => pure (.thread calls)

instance : FromJson Conc.Op := ⟨concOpOfJson⟩

structure ConcTask where
  ctx : Nat
  calls : List Conc.CallSpec
deriving FromJson

structure ConcCase where
  discipline : Conc.Discipline
  sets : List (List Nat)
  tasks : List ConcTask
  sched : List Conc.Op
deriving FromJson

def runConc (c : ConcCase) : Json :=
  let w0 : Conc.World := { sets := c.sets, tasks := c.tasks.map fun t => { ctx := t.ctx, calls := t.calls, program := t.calls } }
  let w := Conc.runOps c.discipline w0 c.sched
  let vj (v : Conc.Verdict) : Json := match v with
    | .returned => jStr "returned" | .violation => jStr "violation" | .postViolation => jStr "postViolation"
  Json.mkObj [
    ("verdicts", jArr (w.tasks.map fun t => jArr (t.verdicts.map vj))),
    ("finished", jArr (w.tasks.map fun t => boolJson (t.calls.isEmpty))),
    ("sets", jArr (w.sets.map fun s => jArr (s.map jNat))),
    ("safe", boolJson (Conc.safeOps c.discipline w0 c.sched)),
    ("unchecked", jArr (w.tasks.map fun t => boolJson (match t.pc with | .inBody _ false _ => true | _ => false))),
    ("expected", jArr (w.tasks.map fun t => jArr (t.program.map fun cs => vj cs.expected)))]

/-! ## decorator-stack domain -/

structure StackCase where
  decos : List String       -- bottom-up: require | ensure | snapshot | foreign
deriving FromJson

def runStack (c : StackCase) : Json :=
  let ds : List Stack.Deco := c.decos.zipIdx.map (fun (d, i) =>
    match d with
    | "require" => .require i
    | "ensure" => .ensure i
    | "snapshot" => .snapshot i
    | _ => .foreign i)
  match Stack.applyAll ds {} with
  | .error _ => Json.mkObj [("define_err", jStr "ValueError")]
  | .ok o =>
    Json.mkObj [("define_err", Json.null),
      ("foreign", jArr ((Stack.callTrace o).filterMap fun e => match e with | .foreignRan g => some (jNat g) | _ => none)),
      ("has_checker", boolJson o.hasChecker),
      ("npre", jNat o.pre.length), ("npost", jNat o.posts.length), ("nsnap", jNat o.snaps.length),
      ("nchecked", jNat ((Stack.callTrace o).filter (· == .checked)).length)]

/-! ## member-selection domain -/

deriving instance FromJson, ToJson for Meta.CheckOn

structure SelMember where
  name : String
  kind : String       -- function | property | staticmethod | classmethod | other
deriving FromJson

structure SelectCase where
  invs : List Meta.CheckOn
  members : List SelMember
deriving FromJson

def runSelect (c : SelectCase) : Json :=
  let mem (k : String) : Meta.Member :=
    match k with
    | "function" => .func 0
    | "property" => .prop (some 0) (some 1) none
    | "staticmethod" => .static 0
    | "classmethod" => .classm 0
    | _ => .other
  let gj (g : Inv.Guard) : Json := match g with
    | .none => jStr "none" | .onCall => jStr "onCall" | .onSetattr => jStr "onSetattr" | .ctor => jStr "ctor"
  Json.mkObj [
    ("members", jArr (c.members.map fun m =>
      let g := Inv.guardOf c.invs m.name (mem m.kind)
      jArr [jStr m.name, gj g, jArr ((Inv.evaluatedOnce c.invs g).map jNat),
            boolJson (Inv.mustGuardOnCall m.name (mem m.kind))])),
    ("assign", jArr [gj (Inv.assignGuard c.invs), jArr ((Inv.evaluatedOnce c.invs (Inv.assignGuard c.invs)).map jNat)])]

/-! ## re-entrancy domain -/

deriving instance FromJson, ToJson for Re.Key
deriving instance FromJson, ToJson for Re.Action
deriving instance FromJson, ToJson for Re.Script
deriving instance FromJson, ToJson for Re.FnDecl
deriving instance FromJson, ToJson for Re.MethDecl
deriving instance FromJson, ToJson for Re.ClsDecl
deriving instance FromJson, ToJson for Re.Program
deriving instance FromJson, ToJson for Re.Variant

structure ReCase where
  prog : Re.Program
  variant : Re.Variant
  top : List Re.Action            -- the top-level calls, in one context, each from a clean stack
  fuel : Nat
  specProg : Option Re.Program := none   -- what the property demands when the library cannot see a class (plain subclass)
deriving FromJson

namespace ReRun
open Icontract.Re

def evJson : Ev → Json
  | .cond f k => jArr [jStr "cond", jNat f, jNat k]
  | .post f k => jArr [jStr "post", jNat f, jNat k]
  | .body f => jArr [jStr "body", jNat f]
  | .inv i k => jArr [jStr "inv", jNat i, jNat k]
  | .initBody i c => jArr [jStr "init", jNat i, jNat c]
  | .methBody i m => jArr [jStr "meth", jNat i, jNat m]

def outJson : Out → Json
  | .ok => jArr [jStr "ok"]
  | .violPre f k => jArr [jStr "violPre", jNat f, jNat k]
  | .violPost f k => jArr [jStr "violPost", jNat f, jNat k]
  | .violInv i k => jArr [jStr "violInv", jNat i, jNat k]
  | .timeout => jArr [jStr "timeout"]

def keyJson : Key → Json
  | .fn f => jArr [jStr "fn", jNat f]
  | .inst i => jArr [jStr "inst", jNat i]

/-- each top-level action is run on the state left by the previous one (model) / on an empty stack (spec) -/
def run (c : ReCase) : Json :=
  let (_, outs) := c.top.foldl (fun (acc : St × List Json) a =>
    let (st', o) := Re.run c.prog c.variant c.fuel { s := acc.1.s, tr := [] } (.act a)
    let (sst, so) := Re.runSpec (c.specProg.getD c.prog) c.fuel { stack := [], tr := [] } (.act a)
    (st', acc.2 ++ [Json.mkObj [("trace", jArr (st'.tr.map evJson)), ("out", outJson o),
       ("inprog", jArr (st'.s.map keyJson)),
       ("specTrace", jArr (sst.tr.map evJson)), ("specOut", outJson so)]])) ({}, [])
  Json.mkObj [("steps", jArr outs)]

end ReRun

/-- a sequence of calls in one context: the in-progress set is threaded from step to step -/
def runCheckerSeq (steps : List CheckerCase) : Json :=
  let rec go (s : Option (List Id)) : List CheckerCase → List Json
    | [] => []
    | c :: cs =>
      let c' := match s with | some ids => { c with inProgress := ids } | none => c
      let o := c'.oracle
      let ck := c'.checker
      let call : Call := { args := c'.args, kwargs := c'.kwargs }
      let (_, s') := if c'.async then callAsync ck o c'.inProgress call else callSync ck o c'.inProgress call
      runChecker c' :: go (some s') cs
  jArr (go none steps)

def handle (line : String) : String :=
  match Json.parse line with
  | .error e => (Json.mkObj [("error", jStr s!"parse: {e}")]).compress
  | .ok j =>
    match j.getObjValAs? String "dom" with
    | .ok "checker" =>
      match (fromJson? j : Except String CheckerCase) with
      | .ok c => (runChecker c).compress
      | .error e => (Json.mkObj [("error", jStr s!"decode checker: {e}")]).compress
    | .ok "srcscan" =>
      match j.getObjValAs? (List String) "kinds", j.getObjValAs? Nat "lineno" with
      | .ok ks, .ok n =>
        let kinds : List Src.LineKind := ks.map (fun k => if k == "deco" then .deco else if k == "defcls" then .defcls else .other)
        (match Src.scan kinds n with
         | .ok (s, e) => (Json.mkObj [("scan", jArr [jNat s, jNat e])]).compress
         | .error .badLineno => (Json.mkObj [("scan", jStr "ValueError")]).compress
         | .error _ => (Json.mkObj [("scan", jStr "SyntaxError")]).compress)
      | _, _ => (Json.mkObj [("error", jStr "srcscan: bad input")]).compress
    | .ok "alltrace" =>
      -- the iteration of an `all(<generator>)`: per assignment the truth of the element ("raise" = the element raises)
      match j.getObjValAs? (Array Json) "truths" with
      | .error e => (Json.mkObj [("error", jStr s!"alltrace: {e}")]).compress
      | .ok arr =>
        let ts : List (Except String Bool) := arr.toList.map (fun t => match t with
          | .bool b => .ok b
          | _ => .error "raise")
        let idxs := List.range ts.length
        let elt : Nat → Except String Bool := fun i => (ts[i]?).getD (.error "raise")
        let r := Ex.traceAllIdx elt 0 idxs
        let py := Ex.pyAll elt idxs
        (Json.mkObj [("firstFalsy", match r with | .ok (some i) => jNat i | .ok none => Json.null | .error _ => jStr "raise"),
                     ("pyAll", match py with | .ok b => Json.bool b | .error _ => jStr "raise")]).compress
    | .ok "invariants" =>
      match (fromJson? j : Except String InvCase) with
      | .ok c => (runInvariants c).compress
      | .error e => (Json.mkObj [("error", jStr s!"invariants: {e}")]).compress
    | .ok "expr" =>
      match ExRun.run j with
      | .ok r => r.compress
      | .error e => (Json.mkObj [("error", jStr s!"expr: {e}")]).compress
    | .ok "conc" =>
      match (fromJson? j : Except String ConcCase) with
      | .ok c => (runConc c).compress
      | .error e => (Json.mkObj [("error", jStr s!"decode conc: {e}")]).compress
    | .ok "stack" =>
      match (fromJson? j : Except String StackCase) with
      | .ok c => (runStack c).compress
      | .error e => (Json.mkObj [("error", jStr s!"decode stack: {e}")]).compress
    | .ok "select" =>
      match (fromJson? j : Except String SelectCase) with
      | .ok c => (runSelect c).compress
      | .error e => (Json.mkObj [("error", jStr s!"decode select: {e}")]).compress
    | .ok "reentry" =>
      match (fromJson? j : Except String ReCase) with
      | .ok c => (ReRun.run c).compress
      | .error e => (Json.mkObj [("error", jStr s!"decode reentry: {e}")]).compress
    | .ok "meta" =>
      match (fromJson? j : Except String MetaCase) with
      | .ok c => (MetaRun.run c).compress
      | .error e => (Json.mkObj [("error", jStr s!"decode meta: {e}")]).compress
    | .ok "define" =>
      match (fromJson? j : Except String DefineCase) with
      | .ok c => (runDefine c).compress
      | .error e => (Json.mkObj [("error", jStr s!"decode define: {e}")]).compress
    | .ok "config" =>
      match (fromJson? j : Except String ConfigCase) with
      | .ok c => (runConfig c).compress
      | .error e => (Json.mkObj [("error", jStr s!"decode config: {e}")]).compress
    | .ok "checkerseq" =>
      match j.getObjVal? "steps" with
      | .ok (Json.arr steps) =>
        match steps.toList.mapM (fun x => (fromJson? x : Except String CheckerCase)) with
        | .ok cs => (Json.mkObj [("steps", runCheckerSeq cs)]).compress
        | .error e => (Json.mkObj [("error", jStr s!"decode checkerseq: {e}")]).compress
      | _ => (Json.mkObj [("error", jStr "checkerseq without steps")]).compress
    | .ok d => (Json.mkObj [("error", jStr s!"unknown domain {d}")]).compress
    | .error e => (Json.mkObj [("error", jStr s!"no dom: {e}")]).compress

partial def loop (h : IO.FS.Stream) (out : IO.FS.Stream) : IO Unit := do
  let line ← h.getLine
  if line.isEmpty then return ()
  let l := line.trimAscii.toString
  if !l.isEmpty then
    out.putStrLn (handle l)
  loop h out

def main : IO Unit := do
  let out ← IO.getStdout
  loop (← IO.getStdin) out
  out.flush
