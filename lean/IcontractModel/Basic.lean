/-
  Basic vocabulary of the icontract model.

  Conventions (DESIGN.md §4):
  * objects are identities (`Id`), "the very object" is id equality;
  * user code is an oracle: every point where the library passes control to
    user code is a site whose answer is a parameter of the model;
  * the library's own exceptions are constructors of `Raised`, the user's are
    `Raised.user e` carrying the identity of the object.
-/
namespace Icontract

abbrev Id := Nat
abbrev CId := Nat   -- contract identity
abbrev SId := Nat   -- snapshot identity

/-- A user-supplied exception object. `isException` tells `Exception`-like from
`BaseException`-only (KeyboardInterrupt, SystemExit, GeneratorExit,
CancelledError): `not_check` and message building catch only the former.
`truthy` is `bool(obj)`: the wrapper tests `if violation_error:`. -/
structure Exc where
  id : Id
  isException : Bool := true
  truthy : Bool := true
deriving DecidableEq, Repr, Inhabited

/-- Outcome of the truth test `not check` on an object. -/
inductive Truth where
  | truthy
  | falsy
  | raises (e : Exc)
deriving DecidableEq, Repr, Inhabited

/-- What a condition / capture callable does when the library calls it. -/
inductive Ans where
  | val (v : Id) (t : Truth)   -- returns object `v`, whose truth test gives `t`
  | raises (e : Exc)           -- raises `e`
  | coro (inner : Ans)         -- returns a coroutine object; awaiting it behaves like `inner`
deriving DecidableEq, Repr, Inhabited

/-- What the decorated body does. -/
inductive BodyAns where
  | ret (v : Id)
  | raises (e : Exc)
deriving DecidableEq, Repr, Inhabited

/-- What an error factory (`error=lambda ...: ...`) does. -/
inductive FacAns where
  | exc (e : Exc)       -- returns the exception object `e`
  | nonExc              -- returns something that is not a BaseException
  | raises (e : Exc)    -- raises
deriving DecidableEq, Repr, Inhabited

/-- What message generation (`generate_message`) does for a contract. -/
inductive MsgAns where
  | ok
  | raises (e : Exc)
deriving DecidableEq, Repr, Inhabited

/-- Values that live in the resolved keyword arguments. -/
inductive Val where
  | obj (id : Id)
  | tuple (xs : List Id)                 -- `_ARGS`
  | dict (kv : List (String × Id))       -- `_KWARGS`
  | old (kv : List (String × Id))        -- `OLD`: snapshot name ↦ captured object
deriving DecidableEq, Repr, Inhabited

/-- Python `dict` with insertion order: assignment to an existing key keeps its position. -/
abbrev Kwargs := List (String × Val)

def Kwargs.has (kw : Kwargs) (n : String) : Bool := kw.any (fun p => p.1 == n)

def Kwargs.get? (kw : Kwargs) (n : String) : Option Val :=
  match kw with
  | [] => none
  | (k, v) :: rest => if k == n then some v else Kwargs.get? rest n

def Kwargs.set (kw : Kwargs) (n : String) (v : Val) : Kwargs :=
  match kw with
  | [] => [(n, v)]
  | (k, w) :: rest => if k == n then (k, v) :: rest else (k, w) :: Kwargs.set rest n v

/-- `{k: v for k, v in kw.items() if k in names}` -/
def Kwargs.restrict (kw : Kwargs) (names : List String) : Kwargs :=
  kw.filter (fun p => names.contains p.1)

/-- The kinds of `error=` a contract may carry (after decoration-time validation). -/
inductive ErrSpec where
  | none                                  -- default: ViolationError(message)
  | cls (subBase : Bool) (truthy : Bool)  -- a class; instantiated with the message
  | inst (e : Exc)                        -- an exception instance
  | fac (args : List String)              -- function/method called with the named subset
  | other                                 -- anything else (rejected at decoration time)
deriving DecidableEq, Repr, Inhabited

structure Contract where
  id : CId
  args : List String := []        -- `condition_args`
  mandatory : List String := []   -- `mandatory_args`
  coroFn : Bool := false          -- `inspect.iscoroutinefunction(condition)`
  err : ErrSpec := .none
deriving DecidableEq, Repr, Inhabited

structure Snapshot where
  id : SId
  name : String
  args : List String := []
  coroFn : Bool := false
deriving DecidableEq, Repr, Inhabited

inductive TypeErrKind where
  | reservedKwarg (name : String)                 -- `_ARGS`/`_KWARGS` among call keywords
  | reservedResolved (name : String)              -- `result`/`OLD` among resolved names with postconditions
  | missingCondArgs (c : CId) (names : List String)
  | missingCaptureArgs (s : SId) (names : List String)
  | missingErrorArgs (c : CId) (names : List String)
  | factoryNotException (c : CId)
  | classNotException (c : CId)
deriving DecidableEq, Repr, Inhabited

inductive ValueErrKind where
  | coroFnCondOnSync (c : CId)       -- coroutine-function condition on a sync callable
  | coroCondOnSync (c : CId)         -- condition returned a coroutine on a sync callable
  | coroFnCaptureOnSync (s : SId)
  | coroCaptureOnSync (s : SId)
  | negateFailed (c : CId)           -- `not check` raised an Exception (chained `from`)
deriving DecidableEq, Repr, Inhabited

/-- What reaches the caller as an exception. -/
inductive Raised where
  | user (e : Exc)                                    -- the very object supplied by user code
  | viol (c : CId) (truthy : Bool)                    -- ViolationError(msg) / ErrorClass(msg) made for contract `c`
  | typeErr (k : TypeErrKind)
  | valueErr (k : ValueErrKind) (cause : Option Exc)
  | runtimeErr (c : CId) (cause : Exc)                -- "Failed to recompute ..." `from cause`
  | notImplemented (c : CId)
deriving DecidableEq, Repr, Inhabited

/-- `bool(exception_object)` as tested by `if violation_error:`. -/
def Raised.truthy : Raised → Bool
  | .user e => e.truthy
  | .viol _ t => t
  | _ => true

/-- Everything observable that happens during a call, in order. -/
inductive Event where
  | cond (c : CId) (kw : Kwargs)         -- condition called with these keyword arguments
  | boolTest (c : CId)                   -- truth test of the condition's result
  | awaitCond (c : CId)                  -- a coroutine returned by the condition is awaited
  | capture (s : SId) (kw : Kwargs)
  | awaitCapture (s : SId)
  | body (args : List Id) (kwargs : List (String × Id))
  | errFac (c : CId) (kw : Kwargs)       -- error factory called
  | msg (c : CId)                        -- message generation (re-evaluates a lambda condition)
  | inv (c : CId) (inst : Id)            -- invariant condition evaluated on instance
deriving DecidableEq, Repr, Inhabited

abbrev Trace := List Event

/-- A computation that logs events and either yields a value or raises. -/
structure Res (α : Type) where
  trace : Trace
  out : Except Raised α

namespace Res

def ret (a : α) : Res α := ⟨[], .ok a⟩
def raise (e : Raised) : Res α := ⟨[], .error e⟩
def emit (ev : Event) : Res Unit := ⟨[ev], .ok ()⟩

def bind (x : Res α) (f : α → Res β) : Res β :=
  match x.out with
  | .error e => ⟨x.trace, .error e⟩
  | .ok a => let y := f a; ⟨x.trace ++ y.trace, y.out⟩

instance : Monad Res where
  pure := Res.ret
  bind := Res.bind

@[simp] theorem pure_trace (a : α) : (Pure.pure a : Res α).trace = [] := rfl
@[simp] theorem pure_out (a : α) : (Pure.pure a : Res α).out = .ok a := rfl
@[simp] theorem raise_trace (e : Raised) : (raise e : Res α).trace = [] := rfl
@[simp] theorem raise_out (e : Raised) : (raise e : Res α).out = .error e := rfl
@[simp] theorem emit_trace (ev : Event) : (emit ev).trace = [ev] := rfl
@[simp] theorem emit_out (ev : Event) : (emit ev).out = .ok () := rfl

theorem bind_def (x : Res α) (f : α → Res β) :
    (x >>= f) = Res.bind x f := rfl

theorem bind_ok {x : Res α} {f : α → Res β} {a : α} (h : x.out = .ok a) :
    (x >>= f).trace = x.trace ++ (f a).trace ∧ (x >>= f).out = (f a).out := by
  simp [bind_def, Res.bind, h]

theorem bind_err {x : Res α} {f : α → Res β} {e : Raised} (h : x.out = .error e) :
    (x >>= f).trace = x.trace ∧ (x >>= f).out = .error e := by
  simp [bind_def, Res.bind, h]

end Res

/-- Python `set` of ids as a duplicate-free list. -/
abbrev IdSet := List Id

def IdSet.add (s : IdSet) (i : Id) : IdSet := if s.contains i then s else i :: s
def IdSet.discard (s : IdSet) (i : Id) : IdSet := s.filter (· != i)

end Icontract
