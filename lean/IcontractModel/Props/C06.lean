/-
  C06 - every value shown in a violation message is the value Python computes.
  `pyEval` (Spec/PyEval.lean) is Python's own evaluation, `visit` (Recompute.lean) the
  re-evaluator, both for arbitrary operator / call / attribute / subscript / truth semantics `ops`.

  WELL-FORMEDNESS.  The re-evaluation theorems carry the hypothesis `e.wf = true` (Lemmas/ExprWf.lean):
  outside comprehension scopes every `boolop` has an operand and every `compare` has a link - the grammar
  of Python's `ast` (`BoolOp.values` has >= 2 entries, `Compare.ops` >= 1), which the inductive type `Expr`
  does not enforce by itself.  The hypothesis is necessary: for `.boolop 0 true []` the statements are false
  (machine-checked refutations in Lemmas/ReevalCounterexamples.lean, namespace `Cex`).  The driver reports
  `wf` and `idsNodup` for every translated condition, and the harness requires both to be true, so the
  hypotheses hold on everything the correspondence check exercises.

  ORDER (second version of the model).  The re-evaluator visits a dictionary item `k: v` value-first and a formatted
  value `{e:spec}` specification-first, Python the other way round: in general the recorded log is a PERMUTATION of
  Python's (`C06_recomputed_values_are_pythons`); it is Python's log itself when the condition has no keyed dictionary
  item and no format specification outside comprehension scopes (`Expr.orderFaithful`,
  `C06_recomputed_in_pythons_order`).  That the difference is real: `C07_dict_items_are_visited_value_first`.
-/
import IcontractModel.Spec.PyEval
import IcontractModel.Represent
import IcontractModel.Lemmas.ReevalMain
import IcontractModel.Lemmas.ReprLines
import IcontractModel.Lemmas.ReevalCounterexamples
import IcontractModel.Lemmas.Lookup
import IcontractModel.Lemmas.CondLookup
import IcontractModel.Lemmas.SortLemmas
import IcontractModel.AllTrace
namespace Icontract.Ex

/-- **The re-evaluator computes, node by node, exactly what Python computes.**  For every well-formed
expression with distinct node ids, every `ops` and every environment in which Python evaluates the
condition to `v` with log `P`: the re-evaluation succeeds with the same value, and what it records for
the nodes outside comprehension scopes is exactly Python's log as a multiset - same nodes, same values, each as often.
(all forms: same value, and the recorded values outside comprehension scopes are exactly Python's (as a multiset);
the ORDER may differ: a dictionary item `k: v` is visited value-first, a formatted value specification-first.) -/
theorem C06_recomputed_values_are_pythons (ops : Ops) (env : Env) (e : Expr) (v : Val) (P : Log)
    (hwf : e.wf = true)
    (hid : (allIds e).Nodup) (h : pyEval ops env e = .ok (v, P)) :
    (visit ops env.builtins (Tbl.ofNames env.names) e).out = .ok (some v) ∧
    ((visit ops env.builtins (Tbl.ofNames env.names) e).log.filter (fun p => !(innerIds e).contains p.1)).Perm P := by
  have hv := visit_py ops env (fun i => !(innerIds e).contains i) false e v P hwf (fun hs => by cases hs) ?_ ?_ h
  · exact ⟨hv.1, hv.2.perm⟩
  · intro i ho
    simpa using outer_not_inner hid ho
  · intro i hi
    simpa using hi

/-- without a keyed dictionary item and without a format specification even the ORDER is Python's -/
theorem C06_recomputed_in_pythons_order (ops : Ops) (env : Env) (e : Expr) (v : Val) (P : Log)
    (hwf : e.wf = true) (hof : e.orderFaithful = true)
    (hid : (allIds e).Nodup) (h : pyEval ops env e = .ok (v, P)) :
    (visit ops env.builtins (Tbl.ofNames env.names) e).log.filter (fun p => !(innerIds e).contains p.1) = P := by
  have hv := visit_py ops env (fun i => !(innerIds e).contains i) true e v P hwf (fun _ => hof) ?_ ?_ h
  · exact hv.2.eq
  · intro i ho
    simpa using outer_not_inner hid ho
  · intro i hi
    simpa using hi

/-- hence every recorded value of a node outside comprehension scopes is the value Python computed
for that very node (soundness of every `<expression> was <value>` line) -/
theorem C06_every_recorded_value_is_pythons (ops : Ops) (env : Env) (e : Expr) (v : Val) (P : Log)
    (hwf : e.wf = true)
    (hid : (allIds e).Nodup) (h : pyEval ops env e = .ok (v, P)) :
    ∀ p ∈ (visit ops env.builtins (Tbl.ofNames env.names) e).log, (innerIds e).contains p.1 = false → p ∈ P := by
  intro p hp hc
  rw [← (C06_recomputed_values_are_pythons ops env e v P hwf hid h).2.mem_iff]
  exact List.mem_filter.mpr ⟨hp, by rw [hc]; rfl⟩

/-- ... and everything Python evaluated outside comprehension scopes is recorded (completeness) -/
theorem C06_everything_python_evaluated_is_recorded (ops : Ops) (env : Env) (e : Expr) (v : Val) (P : Log)
    (hwf : e.wf = true)
    (hid : (allIds e).Nodup) (h : pyEval ops env e = .ok (v, P)) :
    ∀ p ∈ P, p ∈ (visit ops env.builtins (Tbl.ofNames env.names) e).log := by
  intro p hp
  rw [← (C06_recomputed_values_are_pythons ops env e v P hwf hid h).2.mem_iff] at hp
  exact (List.mem_filter.mp hp).1

/-- the iterable of a comprehension's first `for` is evaluated by Python in the enclosing scope: everything Python
evaluates there (outside comprehensions nested in it) is recorded by the re-evaluator with Python's value, whatever
the comprehension's targets are called -/
theorem C06_first_iterable_is_recorded (ops : Ops) (env : Env) (i : Nat) (targets : List String) (first : Expr)
    (inner : List Expr) (v : Val) (P : Log)
    (hwf : first.wf = true) (hid : (allIds (.comp i targets first inner)).Nodup)
    (h : pyEval ops env (.comp i targets first inner) = .ok (v, P)) :
    ∃ v0 P0, pyEval ops env first = .ok (v0, P0) ∧
      ∀ p ∈ P0, p ∈ (visit ops env.builtins (Tbl.ofNames env.names) (.comp i targets first inner)).log := by
  have hwf' : (Expr.comp i targets first inner).wf = true := by simpa only [Expr.wf] using hwf
  have hrec := C06_everything_python_evaluated_is_recorded ops env _ v P hwf' hid h
  simp only [pyEval, Except.bind_eq_ok_iff, pure, Except.pure, Except.ok.injEq, Prod.mk.injEq] at h
  obtain ⟨⟨v0, P0⟩, h0, r, _, _, rfl⟩ := h
  exact ⟨v0, P0, h0, fun p hp => hrec p (List.mem_append_left _ hp)⟩

/-- non-vacuity: `[s for s in s]` - the target is called like the name used in the first iterable; the comprehension's
native execution (here: it yields the elements of `s`) is some concrete `Ops.comp` -/
def opsFirst : Ops :=
  { Cex.ops0 with comp := fun _ names => .ok (match lookup names "s" with | some x => x | none => .none) }

def exFirst : Expr := .comp 0 ["s"] (.name 1 "s") [.name 2 "s"]

def envFirst : Env := ⟨[("s", .list [.int 1, .int 2])], []⟩

example : (Expr.name 1 "s").wf = true := by rfl
example : (allIds exFirst).Nodup := by decide
example : pyEval opsFirst envFirst exFirst =
    .ok (.list [.int 1, .int 2], [(1, .list [.int 1, .int 2]), (0, .list [.int 1, .int 2])]) := by rfl
/-- the first iterable `s` (node 1) is recorded with its value in the enclosing scope, the element `s` (node 2: the
target) is not -/
example : (visit opsFirst envFirst.builtins (Tbl.ofNames envFirst.names) exFirst).log =
    [(1, .list [.int 1, .int 2]), (0, .list [.int 1, .int 2])] := by rfl
example : ((1, Val.list [.int 1, .int 2]) : Nat × Val) ∈
    (visit opsFirst envFirst.builtins (Tbl.ofNames envFirst.names) exFirst).log :=
  (C06_first_iterable_is_recorded opsFirst envFirst 0 ["s"] (.name 1 "s") [.name 2 "s"] _ _ rfl (by decide)
    (rfl : pyEval opsFirst envFirst exFirst = .ok (.list [.int 1, .int 2],
      [(1, .list [.int 1, .int 2]), (0, .list [.int 1, .int 2])]))).elim
    (fun v0 hx => hx.elim (fun P0 hP => by
      have h0 : pyEval opsFirst envFirst (.name 1 "s") = .ok (.list [.int 1, .int 2], [(1, .list [.int 1, .int 2])]) := rfl
      rw [h0] at hP
      simp only [Except.ok.injEq, Prod.mk.injEq] at hP
      obtain ⟨⟨_, rfl⟩, hP⟩ := hP
      exact hP _ (List.mem_singleton.mpr rfl)))

/-- non-vacuity for the forms of the second version: the condition
`(g((1, *xs), xs[1:n], *xs, k=n, **d), f"v={n!r}")` - a display with a starred element, a call with a starred argument,
a keyword and `**`, a slice, an f-string with a formatted value - is well-formed, has distinct ids, and Python
evaluates it (with the concrete `Cex.ops0`) -/
def exV2 : Expr :=
  .coll 0 .tuple [
    .callkw 1 (.name 2 "g")
      [.coll 3 .tuple [.const 4 (.int 1), .starred 5 (.name 6 "xs")],
       .subscr 7 (.name 8 "xs") (.slice 9 (some (.const 10 (.int 1))) (some (.name 11 "n")) none),
       .starred 12 (.name 13 "xs")]
      [(some "k", .name 14 "n"), (none, .name 15 "d")],
    .fstring 16 [.const 17 (.str "v="), .fvalue 18 (.name 19 "n") .r none]]

def envV2 : Env :=
  ⟨[("xs", .list [.int 7, .int 8]), ("n", .int 2), ("d", .dict [.str "z"] [.int 3])], [("g", .fn "g")]⟩

example : exV2.wf = true := by rfl
example : exV2.orderFaithful = true := by rfl
example : (allIds exV2).Nodup := by decide
example : pyEval Cex.ops0 envV2 exV2 = .ok (.tuple [.fn "g", .str "v=2"],
    [(2, .fn "g"), (4, .int 1), (6, .list [.int 7, .int 8]), (3, .tuple [.int 1, .int 7, .int 8]),
     (8, .list [.int 7, .int 8]), (10, .int 1), (11, .int 2), (9, .slice (.int 1) (.int 2) .none),
     (7, .list [.int 7, .int 8]), (13, .list [.int 7, .int 8]), (14, .int 2), (15, .dict [.str "z"] [.int 3]),
     (1, .fn "g"), (17, .str "v="), (19, .int 2), (16, .str "v=2"), (0, .tuple [.fn "g", .str "v=2"])]) := by rfl
/-- ... and the re-evaluation records the same log -/
example : (visit Cex.ops0 envV2.builtins (Tbl.ofNames envV2.names) exV2).log =
    [(2, .fn "g"), (4, .int 1), (6, .list [.int 7, .int 8]), (3, .tuple [.int 1, .int 7, .int 8]),
     (8, .list [.int 7, .int 8]), (10, .int 1), (11, .int 2), (9, .slice (.int 1) (.int 2) .none),
     (7, .list [.int 7, .int 8]), (13, .list [.int 7, .int 8]), (14, .int 2), (15, .dict [.str "z"] [.int 3]),
     (1, .fn "g"), (17, .str "v="), (19, .int 2), (16, .str "v=2"), (0, .tuple [.fn "g", .str "v=2"])] := by rfl

/-- a keyed dictionary item and a format specification (not order-faithful): still well-formed and evaluated -/
def exV2' : Expr :=
  .dict 0 [(some (.name 1 "n"), .fstring 2 [.fvalue 3 (.name 4 "n") .none (some (.fstring 5 [.const 6 (.str "d")]))]),
           (none, .name 7 "d")]

example : exV2'.wf = true := by rfl
example : exV2'.orderFaithful = false := by rfl
example : (allIds exV2').Nodup := by decide
example : pyEval Cex.ops0 envV2 exV2' = .ok (.dict [.int 2, .str "z"] [.str "2", .int 3],
    [(1, .int 2), (4, .int 2), (6, .str "d"), (5, .str "d"), (2, .str "2"), (7, .dict [.str "z"] [.int 3]),
     (0, .dict [.int 2, .str "z"] [.str "2", .int 3])]) := by rfl
example : (visit Cex.ops0 envV2.builtins (Tbl.ofNames envV2.names) exV2').log =
    [(6, .str "d"), (5, .str "d"), (4, .int 2), (2, .str "2"), (1, .int 2), (7, .dict [.str "z"] [.int 3]),
     (0, .dict [.int 2, .str "z"] [.str "2", .int 3])] := by rfl

/-- a line is produced only from a recorded value: names / attributes whose value is a class, function,
method, module or builtin get none, builtin names get none -/
theorem C06_lines_come_from_recorded_values (text : Nat → String) (isLookupName : String → Bool) (R : Log) (e : Expr)
    (k : String) (x : Val) (h : (k, x) ∈ collectLines text isLookupName R [] e) :
    ∃ i, k = text i ∧ (i, x) ∈ R :=
  collectLines_from text isLookupName R e [] (fun _ _ hm => by cases hm) k x h

/-- an f-string gets at most ONE line, for the whole string: its internals are never listed
(`visit_JoinedStr` of the representation visitor does not descend) -/
theorem C06_fstring_internals_get_no_line (text : Nat → String) (isLookupName : String → Bool) (R : Log)
    (i : Nat) (parts : List Expr) (k : String) (x : Val)
    (h : (k, x) ∈ collectLines text isLookupName R [] (.fstring i parts)) : k = text i ∧ recorded R i = some x :=
  collectLines_fstring text isLookupName R i parts k x h

/-- **Arguments shadow closure variables, which shadow globals**: the re-evaluator's name table, merged from the
look-ups "first one wins", resolves every name exactly as Python's scoping does - whatever the look-ups contain
(names occurring in several of them, with different values). -/
theorem C06_names_resolve_as_in_python (ls : List (List (String × Val))) (n : String) :
    lookupT (Tbl.ofLookups ls) n = (lookup (pyScope ls) n).map some := by
  have h := lookupT_ofLookups_aux ls [] n
  simp only [lookupT] at h
  rw [lookup_pyScope]
  exact h

/-- the table of a call looks a name up in the condition's own look-up, then the closure, then the globals -/
theorem lookupT_ofCall (params : List CondParam) (kwargs closure globals : List (String × Val)) (n : String) :
    lookupT (Tbl.ofCall params kwargs closure globals) n =
      (match lookup (condLookup params kwargs) n with
       | some v => some v
       | none => (match lookup closure n with
                  | some v => some v
                  | none => lookup globals n)).map some := by
  unfold Tbl.ofCall
  rw [C06_names_resolve_as_in_python]
  simp only [pyScope, List.flatten_cons, List.flatten_nil, List.append_nil]
  rw [lookup_append, lookup_append]
  rfl

/-- **The name table of a call is Python's scoping of the condition**: for every condition (parameters with and without
defaults), every set of arguments of the decorated function's call - also arguments the condition does not take, named
like its closure variables or globals -, every closure and every module, each name means to the re-evaluator what it
means to Python: a parameter is the argument passed for it, else its default; any other name is the closure variable,
else the global. -/
theorem C06_call_names_resolve_as_in_python (params : List CondParam) (kwargs closure globals : List (String × Val))
    (n : String) (hnodup : (params.map (·.1)).Nodup)
    (hbound : ∀ q ∈ params, q.2 = none → (lookup kwargs q.1).isSome) :
    lookupT (Tbl.ofCall params kwargs closure globals) n = (pyResolve params kwargs closure globals n).map some := by
  rw [lookupT_ofCall, lookup_condLookup params kwargs n hnodup]
  unfold pyResolve
  cases hf : params.find? (fun q => q.1 == n) with
  | none => rfl
  | some q =>
    simp only
    cases hk : lookup kwargs n with
    | some v => rfl
    | none =>
      simp only
      cases hq : q.2 with
      | some d => rfl
      | none =>
        have hmem := List.mem_of_find?_eq_some hf
        have hqn : q.1 = n := by
          simpa using List.find?_some (p := fun (q : CondParam) => q.1 == n) hf
        have := hbound q hmem hq
        rw [hqn, hk] at this
        simp at this

/-- **The whole chain for a call.**  The re-evaluator run on the table the library builds for a call
(`Tbl.ofCall`: the arguments the condition takes, the defaults of its other parameters, its closure, its globals) computes
Python's value and records Python's values, where "Python" evaluates the condition in the scope in which every name means
what `pyResolve` says: a parameter is the argument passed for it, else its default; any other name is the closure variable,
else the global - whatever else the call of the decorated function carried. -/
theorem C06_call_recomputed_values_are_pythons (ops : Ops) (bi : List (String × Val))
    (params : List CondParam) (kwargs closure globals : List (String × Val)) (e : Expr) (v : Val) (P : Log)
    (hnodup : (params.map (·.1)).Nodup) (hbound : ∀ q ∈ params, q.2 = none → (lookup kwargs q.1).isSome)
    (hwf : e.wf = true) (hid : (allIds e).Nodup)
    (h : pyEval ops ⟨(Tbl.ofCall params kwargs closure globals).values, bi⟩ e = .ok (v, P)) :
    (∀ n, lookup (Tbl.ofCall params kwargs closure globals).values n = pyResolve params kwargs closure globals n) ∧
    (visit ops bi (Tbl.ofCall params kwargs closure globals) e).out = .ok (some v) ∧
    ((visit ops bi (Tbl.ofCall params kwargs closure globals) e).log.filter (fun p => !(innerIds e).contains p.1)).Perm P := by
  have hall : (Tbl.ofCall params kwargs closure globals).AllSome := ofLookups_allSome _
  refine ⟨fun n => ?_, ?_⟩
  · have h1 := lookup_values hall n
    rw [C06_call_names_resolve_as_in_python params kwargs closure globals n hnodup hbound] at h1
    cases hl : lookup (Tbl.ofCall params kwargs closure globals).values n with
    | none =>
      rw [hl] at h1
      cases hr : pyResolve params kwargs closure globals n with
      | none => rfl
      | some x => rw [hr] at h1; cases h1
    | some x =>
      rw [hl] at h1
      cases hr : pyResolve params kwargs closure globals n with
      | none => rw [hr] at h1; cases h1
      | some y => rw [hr] at h1; simpa using h1
  · have hm := C06_recomputed_values_are_pythons ops ⟨(Tbl.ofCall params kwargs closure globals).values, bi⟩ e v P hwf hid h
    simp only [ofNames_values hall] at hm
    exact hm

/-- an argument of the call which the condition does not take never shadows the condition's closure / global variable of
that name (the defect repaired by e84b442) ... -/
theorem C06_foreign_arguments_do_not_shadow (params : List CondParam) (kwargs kwargs' closure globals : List (String × Val))
    (n : String) (hn : params.all (fun q => q.1 != n) = true) :
    lookupT (Tbl.ofCall params kwargs closure globals) n = lookupT (Tbl.ofCall params kwargs' closure globals) n := by
  have hne : ∀ q ∈ params, q.1 ≠ n := by
    intro q hq
    have := List.all_eq_true.mp hn q hq
    simpa using this
  rw [lookupT_ofCall, lookupT_ofCall, lookup_condLookup_foreign params kwargs n hne,
    lookup_condLookup_foreign params kwargs' n hne]

/-- ... and a parameter of the condition's own which the call does not supply is known with its default value (the defect
repaired by dece18e) -/
theorem C06_defaults_are_visible (params : List CondParam) (kwargs closure globals : List (String × Val))
    (n : String) (d : Val) (hnodup : (params.map (·.1)).Nodup) (hp : (n, some d) ∈ params) (hk : lookup kwargs n = none) :
    lookupT (Tbl.ofCall params kwargs closure globals) n = some (some d) := by
  rw [lookupT_ofCall, lookup_condLookup params kwargs n hnodup]
  have hf : params.find? (fun q => q.1 == n) = some (n, some d) := by
    cases hf : params.find? (fun q => q.1 == n) with
    | none =>
      have := List.find?_eq_none.mp hf (n, some d) hp
      simp at this
    | some q =>
      have hmem := List.mem_of_find?_eq_some hf
      have hqn : q.1 = n := by
        simpa using List.find?_some (p := fun (q : CondParam) => q.1 == n) hf
      obtain ⟨k, d?⟩ := q
      simp only at hqn
      subst hqn
      -- two entries with the same name in a list with distinct names are the same entry
      have : ∀ (ps : List CondParam), (ps.map (·.1)).Nodup → (k, d?) ∈ ps → (k, some d) ∈ ps → d? = some d := by
        intro ps
        induction ps with
        | nil => intro _ h; cases h
        | cons x ps ih =>
          intro hnd h1 h2
          rw [List.map_cons, List.nodup_cons] at hnd
          rcases List.mem_cons.mp h1 with e1 | m1
          · rcases List.mem_cons.mp h2 with e2 | m2
            · rw [← e1] at e2
              exact (Prod.mk.inj e2).2.symm
            · exact absurd (List.mem_map.mpr ⟨(k, some d), m2, by rw [← e1]⟩) hnd.1
          · rcases List.mem_cons.mp h2 with e2 | m2
            · exact absurd (List.mem_map.mpr ⟨(k, d?), m1, by rw [← e2]⟩) hnd.1
            · exact ih hnd.2 m1 m2
      rw [this params hnodup hmem hp]
  rw [hf]
  simp only [hk]
  rfl

/-- the table as upstream built it - every argument of the call a variable of the condition, no defaults - was not Python's
scoping: `lambda x, lower=0: x > y + lower` on `def f(x, y)` called `f(5, 1)` with a global `y = 100` -/
theorem C06_upstream_table_was_not_pythons :
    let params : List CondParam := [("x", none), ("lower", some (.int 0))]
    let kwargs : List (String × Val) := [("x", .int 5), ("y", .int 1)]
    let globals : List (String × Val) := [("y", .int 100)]
    lookupT (Tbl.ofCallUpstream kwargs [] globals) "y" = some (some (.int 1)) ∧ pyResolve params kwargs [] globals "y" = some (.int 100) ∧
    lookupT (Tbl.ofCallUpstream kwargs [] globals) "lower" = none ∧ pyResolve params kwargs [] globals "lower" = some (.int 0) ∧
    lookupT (Tbl.ofCall params kwargs [] globals) "y" = some (some (.int 100)) ∧
    lookupT (Tbl.ofCall params kwargs [] globals) "lower" = some (some (.int 0)) := by
  refine ⟨?_, ?_, ?_, ?_, ?_, ?_⟩ <;> rfl

/-- **Every representable argument of the call is listed** - with one exception, which is exactly the known finding
`argument-hidden-by-same-named-variable`: a message has one line per expression text, so an argument whose NAME is
already the text of a line (the condition reads a variable of that name) gets no second line. -/
theorem C06_every_argument_listed_or_its_name_is_a_line (lines : List (String × Val)) (condParams : List String)
    (kw : List (String × Val)) (k : String) (v : Val)
    (hkw : (k, v) ∈ kw) (hd : (kw.map (·.1)).Nodup) (hr : representable v = true)
    (hk : (k ≠ "_ARGS" ∧ k ≠ "_KWARGS") ∨ condParams.contains k = true) :
    (k, v) ∈ reprPairs lines condParams kw ∨ ∃ v', (k, v') ∈ lines := by
  have hsel : (k, v) ∈ selectKwargs condParams kw := by
    unfold selectKwargs
    refine List.mem_filter.mpr ⟨hkw, ?_⟩
    rcases hk with ⟨h1, h2⟩ | h
    · simp [h1, h2]
    · have hm : k ∈ condParams := List.contains_iff_mem.mp h
      by_cases ha : k = "_ARGS"
      · subst ha; simp [hm]
      · by_cases hb : k = "_KWARGS"
        · subst hb; simp [hm]
        · simp [ha, hb]
  have hs : (k, v) ∈ (selectKwargs condParams kw).mergeSort keyLe := List.mem_mergeSort.mpr hsel
  obtain ⟨q, hq, hqk⟩ := key_in_foldl_addStep _ lines (k, v) hs hr
  rw [← addArguments_eq] at hq
  rcases mem_addArguments hq with hl | ⟨hq2, _, _⟩
  · refine Or.inr ⟨q.2, ?_⟩
    have hq' : q = (k, q.2) := by
      cases q with
      | mk a b => simp only [] at hqk; subst hqk; rfl
    rw [← hq']; exact hl
  · have : q = (k, v) := eq_of_key_eq_of_nodup (selectKwargs_keys_nodup condParams hd) q (k, v) hq2 hsel hqk
    subst this
    exact Or.inl (List.mem_mergeSort.mpr hq)

/-- the exception is real: `lambda x: x > y` (a global `y = 100`) on `def f(x, y)` called `f(5, 1)` - the line `y`
shows the variable the condition read, the argument `y = 1` has no line -/
example : ("y", Val.int 1) ∉ reprPairs [("x", .int 5), ("y", .int 100)] ["x"] [("x", .int 5), ("y", .int 1)] := by
  intro h
  rcases mem_reprPairs h with h | ⟨_, _, h3⟩
  · simp at h
  · exact h3 ("y", .int 100) (by simp) rfl

/-- non-vacuity: a name bound in all three look-ups -/
example : lookupT (Tbl.ofLookups [[("x", .int 1)], [("x", .int 2), ("c", .int 5)], [("x", .int 3), ("c", .int 6), ("g", .int 7)]]) "c"
    = some (some (.int 5)) := by rfl

end Icontract.Ex

namespace Icontract.Ex

/-- **The reported example of a failing `all(...)` is the first falsifying assignment**: it occurs in the iteration,
the element is falsy for it, and the element is truthy for every assignment before it. -/
theorem C06_all_example_is_first_falsifying {A : Type} (elt : A → Except String Bool) (xs : List A) (a : A)
    (h : traceAll elt xs = .ok (some a)) :
    ∃ pre post, xs = pre ++ a :: post ∧ elt a = .ok false ∧ ∀ b ∈ pre, elt b = .ok true := by
  induction xs with
  | nil => simp [traceAll] at h
  | cons x rest ih =>
    unfold traceAll at h
    cases hx : elt x with
    | error e => simp [hx, bind, Except.bind] at h
    | ok b =>
      cases b with
      | false =>
        simp [hx, bind, Except.bind, pure, Except.pure] at h
        subst h
        exact ⟨[], rest, rfl, hx, by simp⟩
      | true =>
        simp [hx, bind, Except.bind] at h
        obtain ⟨pre, post, hsplit, hfa, hpre⟩ := ih h
        refine ⟨x :: pre, post, by simp [hsplit], hfa, ?_⟩
        intro b hb
        cases hb with
        | head => exact hx
        | tail _ hb => exact hpre b hb

/-- ... and an example is reported exactly when Python's `all(...)` is `False`; when it is `True` there is none -/
theorem C06_all_example_iff_python_false {A : Type} (elt : A → Except String Bool) (xs : List A) :
    (pyAll elt xs = .ok false ↔ ∃ a, traceAll elt xs = .ok (some a)) ∧
    (pyAll elt xs = .ok true ↔ traceAll elt xs = .ok none) ∧
    (∀ e, pyAll elt xs = .error e ↔ traceAll elt xs = .error e) := by
  induction xs with
  | nil => simp [pyAll, traceAll]
  | cons x rest ih =>
    unfold pyAll traceAll
    cases hx : elt x with
    | error e => simp [bind, Except.bind]
    | ok b =>
      cases b with
      | false => simp [bind, Except.bind, pure, Except.pure]
      | true => simpa [bind, Except.bind] using ih

/-- non-vacuity -/
example : traceAll (fun n : Nat => .ok (n < 3)) [0, 1, 2, 5, 1, 7] = .ok (some 5) := by rfl

end Icontract.Ex
