/-
  C06 - every value shown in a violation message is the value Python computes.
  `pyEval` (Spec/PyEval.lean) is Python's own evaluation, `visit` (Recompute.lean) the
  re-evaluator, both for arbitrary operator / call / attribute / subscript / truth semantics `ops`.

  WELL-FORMEDNESS.  The re-evaluation theorems carry the hypothesis `e.wf = true` (Lemmas/ExprWf.lean):
  outside comprehension scopes every `boolop` has an operand and every `compare` has a link - the grammar
  of Python's `ast` (`BoolOp.values` has >= 2 entries, `Compare.ops` >= 1), which the inductive type `Expr`
  does not enforce by itself.  The hypothesis is necessary: for `.boolop 0 true []` the statements are false
  (machine-checked refutations in Lemmas/ReevalCounterexamples.lean, namespace `Cex`).  The driver reports
  `wf` and `idsNodup` for every translated condition, and the harness requires both to be true, so the
  hypotheses hold on everything the correspondence check exercises.
-/
import IcontractModel.Spec.PyEval
import IcontractModel.Represent
import IcontractModel.Lemmas.ReevalMain
import IcontractModel.Lemmas.ReprLines
import IcontractModel.Lemmas.ReevalCounterexamples
import IcontractModel.Lemmas.Lookup
import IcontractModel.AllTrace
namespace Icontract.Ex

/-- **The re-evaluator computes, node by node, exactly what Python computes.**  For every well-formed
expression with distinct node ids, every `ops` and every environment in which Python evaluates the
condition to `v` with log `P`: the re-evaluation succeeds with the same value, and what it records for
the nodes outside comprehension scopes is exactly Python's log - same nodes, same values, same order. -/
theorem C06_recomputed_values_are_pythons (ops : Ops) (env : Env) (e : Expr) (v : Val) (P : Log)
    (hwf : e.wf = true)
    (hid : (allIds e).Nodup) (h : pyEval ops env e = .ok (v, P)) :
    (visit ops env.builtins (Tbl.ofNames env.names) e).out = .ok (some v) ∧
    (visit ops env.builtins (Tbl.ofNames env.names) e).log.filter (fun p => !(innerIds e).contains p.1) = P := by
  refine visit_py ops env (fun i => !(innerIds e).contains i) e v P hwf ?_ ?_ h
  · intro i ho
    simpa using outer_not_inner hid ho
  · intro i hi
    simpa using hi

/-- hence every recorded value of a node outside comprehension scopes is the value Python computed
for that very node (soundness of every `<expression> was <value>` line) -/
theorem C06_every_recorded_value_is_pythons (ops : Ops) (env : Env) (e : Expr) (v : Val) (P : Log)
    (hwf : e.wf = true)
    (hid : (allIds e).Nodup) (h : pyEval ops env e = .ok (v, P)) :
    ∀ p ∈ (visit ops env.builtins (Tbl.ofNames env.names) e).log, (innerIds e).contains p.1 = false → p ∈ P := by
  intro p hp hc
  rw [← (C06_recomputed_values_are_pythons ops env e v P hwf hid h).2]
  exact List.mem_filter.mpr ⟨hp, by rw [hc]; rfl⟩

/-- ... and everything Python evaluated outside comprehension scopes is recorded (completeness) -/
theorem C06_everything_python_evaluated_is_recorded (ops : Ops) (env : Env) (e : Expr) (v : Val) (P : Log)
    (hwf : e.wf = true)
    (hid : (allIds e).Nodup) (h : pyEval ops env e = .ok (v, P)) :
    ∀ p ∈ P, p ∈ (visit ops env.builtins (Tbl.ofNames env.names) e).log := by
  intro p hp
  rw [← (C06_recomputed_values_are_pythons ops env e v P hwf hid h).2] at hp
  exact (List.mem_filter.mp hp).1

/-- a line is produced only from a recorded value: names / attributes whose value is a class, function,
method, module or builtin get none, builtin names get none -/
theorem C06_lines_come_from_recorded_values (text : Nat → String) (isLookupName : String → Bool) (R : Log) (e : Expr)
    (k : String) (x : Val) (h : (k, x) ∈ collectLines text isLookupName R [] e) :
    ∃ i, k = text i ∧ (i, x) ∈ R :=
  collectLines_from text isLookupName R e [] (fun _ _ hm => by cases hm) k x h

/-- **Arguments shadow closure variables, which shadow globals**: the re-evaluator's name table, merged from the
look-ups "first one wins", resolves every name exactly as Python's scoping does - whatever the look-ups contain
(names occurring in several of them, with different values). -/
theorem C06_names_resolve_as_in_python (ls : List (List (String × Val))) (n : String) :
    lookupT (Tbl.ofLookups ls) n = (lookup (pyScope ls) n).map some := by
  have h := lookupT_ofLookups_aux ls [] n
  simp only [lookupT] at h
  rw [lookup_pyScope]
  exact h

/-- non-vacuity: a name bound in all three look-ups -/
example : lookupT (Tbl.ofLookups [[("x", .int 1)], [("x", .int 2), ("c", .int 5)], [("x", .int 3), ("c", .int 6), ("g", .int 7)]]) "c"
    = some (some (.int 5)) := by rfl

end Icontract.Ex

namespace Icontract.Ex

/-- **The reported example of a failing `all(...)` is the first falsifying assignment**: it occurs in the iteration,
the element is falsy for it, and the element is truthy for every assignment before it. -/
theorem C06_all_example_is_first_falsifying {A : Type} (elt : A → Except String Bool) (xs : List A) (a : A)
    (h : traceAll elt xs = .ok (some a)) :
    ∃ pre post, xs = pre ++ a :: post ∧ elt a = .ok false ∧ ∀ b ∈ pre, elt b = .ok true := by
  induction xs with
  | nil => simp [traceAll] at h
  | cons x rest ih =>
    unfold traceAll at h
    cases hx : elt x with
    | error e => simp [hx, bind, Except.bind] at h
    | ok b =>
      cases b with
      | false =>
        simp [hx, bind, Except.bind, pure, Except.pure] at h
        subst h
        exact ⟨[], rest, rfl, hx, by simp⟩
      | true =>
        simp [hx, bind, Except.bind] at h
        obtain ⟨pre, post, hsplit, hfa, hpre⟩ := ih h
        refine ⟨x :: pre, post, by simp [hsplit], hfa, ?_⟩
        intro b hb
        cases hb with
        | head => exact hx
        | tail _ hb => exact hpre b hb

/-- ... and an example is reported exactly when Python's `all(...)` is `False`; when it is `True` there is none -/
theorem C06_all_example_iff_python_false {A : Type} (elt : A → Except String Bool) (xs : List A) :
    (pyAll elt xs = .ok false ↔ ∃ a, traceAll elt xs = .ok (some a)) ∧
    (pyAll elt xs = .ok true ↔ traceAll elt xs = .ok none) ∧
    (∀ e, pyAll elt xs = .error e ↔ traceAll elt xs = .error e) := by
  induction xs with
  | nil => simp [pyAll, traceAll]
  | cons x rest ih =>
    unfold pyAll traceAll
    cases hx : elt x with
    | error e => simp [bind, Except.bind]
    | ok b =>
      cases b with
      | false => simp [bind, Except.bind, pure, Except.pure]
      | true => simpa [bind, Except.bind] using ih

/-- non-vacuity -/
example : traceAll (fun n : Nat => .ok (n < 3)) [0, 1, 2, 5, 1, 7] = .ok (some 5) := by rfl

end Icontract.Ex
