/-
  C14 - satisfied contracts are transparent.
-/
import IcontractModel.Stack
import IcontractModel.Props.C01
import IcontractModel.Props.C02
import IcontractModel.Lemmas.StackLemmas
import IcontractModel.Lemmas.Transparent
namespace Icontract.Stack

/-- **Any number of stacked contract decorators - even separated by foreign functools.wraps
decorators - share a single checker.** -/
theorem C14_single_checker (ds : List Deco) (o : FObj) (h : applyAll ds {} = .ok o) :
    o.layers.count .checker ≤ 1 ∧ (o.layers.count .checker = 1 ↔ ∃ d ∈ ds, d.isContract = true) := by
  have hc0 : ({} : FObj).layers.count .checker ≤ 1 := by decide
  obtain ⟨h1, h2⟩ := applyAll_checker ds {} o h hc0
  refine ⟨h1, ?_⟩
  rw [count_checker_eq_one_iff h1, h2]
  simp [FObj.hasChecker]

/-- **Every foreign layer still runs**: the foreign decorators applied so far are all in the chain, in
application order (innermost first), whatever contract decorators were applied around them. -/
theorem C14_foreign_layers_preserved (ds : List Deco) (o : FObj) (h : applyAll ds {} = .ok o) :
    layerForeignIds o.layers = (foreignIds ds).reverse ∧
    (∀ g ∈ foreignIds ds, CallEv.foreignRan g ∈ callTrace o) ∧ CallEv.body ∈ callTrace o := by
  have hl := applyAll_layerForeignIds ds {} o h
  have hl' : layerForeignIds o.layers = (foreignIds ds).reverse := by
    rw [hl]; simp [layerForeignIds]
  refine ⟨hl', ?_, body_mem_callTrace o⟩
  intro g hg
  apply foreignRan_mem_callTrace
  rw [hl']
  exact List.mem_reverse.mpr hg

/-- **Every contract is on that one checker**, in application order (innermost decorator first). -/
theorem C14_all_contracts_on_the_checker (ds : List Deco) (o : FObj) (h : applyAll ds {} = .ok o) :
    o.pre = requireIds ds ∧ o.posts = ensureIds ds := by
  obtain ⟨h1, h2⟩ := applyAll_pre_posts ds {} o h
  rw [h1, h2]
  exact ⟨List.nil_append _, List.nil_append _⟩

/-- **Instantiability is unchanged** by the `__new__` wrapper (repaired: it drops the arguments meant for a
subclass `__init__`), for every constructor shape and every number of arguments ... -/
theorem C14_instantiation_unchanged (s : CtorShape) (n : Nat) :
    instantiateWithNewWrapper true s n = instantiatePlain s n := by
  simp [instantiateWithNewWrapper, instantiatePlain]

/-- ... whereas forwarding the arguments to `object.__new__` (upstream) broke subclasses adding a
constructor with arguments -/
theorem C14_upstream_new_wrapper_broke_subclass_constructors :
    instantiatePlain { userNew := false, userInit := true, initArity := 1 } 1 = true ∧
    instantiateWithNewWrapper false { userNew := false, userInit := true, initArity := 1 } 1 = false := by
  decide

end Icontract.Stack

namespace Icontract

/-- **When all applicable contracts hold the call is the bare call**: the body receives exactly the
positional and keyword objects of the call, and the caller receives the very object the body
returned or the very exception it raised (sync; all preconditions of some group and all
postconditions truthy, captures succeeding, reserved names free). -/
theorem C14_satisfied_contracts_are_transparent (ck : Checker) (o : Oracle) (call : Call)
    (old : List (String × Id)) (h : ReachesBodySync ck o call old)
    (hpost : ∀ v, o.body = .ret v →
      cnfHolds false o ((kwAtBody ck (resolved ck call) old).set "result" (.obj v)) ck.posts) :
    Event.body call.args call.kwargs ∈ (checkedSync ck o call).trace ∧
    (checkedSync ck o call).out = (match o.body with | .ret v => .ok v | .raises e => .error (.user e)) := by
  refine ⟨?_, ?_⟩
  · rw [checkedSync_eq]
    exact checkedG_reaches_body_mem (syncHooks o) ck call old h.valid
      (syncHooks_pre_none o _ _ h.pre) h.cap _ (runBody_body_mem o call)
  · cases hb : o.body with
    | ret v => exact C02_sync_returns_body_result ck o call old h v hb (hpost v hb)
    | raises e => exact (C02_sync_body_exception_passes_unchanged ck o call old h e hb).1

theorem C14_async_satisfied_contracts_are_transparent (ck : Checker) (o : Oracle) (call : Call)
    (old : List (String × Id)) (h : ReachesBodyAsync ck o call old)
    (hpost : ∀ v, o.body = .ret v →
      cnfHolds true o ((kwAtBody ck (resolved ck call) old).set "result" (.obj v)) ck.posts) :
    Event.body call.args call.kwargs ∈ (checkedAsync ck o call).trace ∧
    (checkedAsync ck o call).out = (match o.body with | .ret v => .ok v | .raises e => .error (.user e)) := by
  refine ⟨?_, ?_⟩
  · rw [checkedAsync_eq]
    exact checkedG_reaches_body_mem (asyncHooks o) ck call old h.valid
      (asyncHooks_pre_none o _ _ h.pre) h.cap _ (runBody_body_mem o call)
  · cases hb : o.body with
    | ret v => exact C02_async_returns_body_result ck o call old h v hb (hpost v hb)
    | raises e => exact (C02_async_body_exception_passes_unchanged ck o call old h e hb).1

end Icontract
