/-
  C10 - contracts calling contracted code terminate; only own re-entry goes unchecked.
  `Re.run p .repaired` is the model of the wrappers' in-progress discipline (tied to /repo by the
  correspondence run), `Re.runSpec` the frame-stack reference semantics that never mentions the
  in-progress set.
-/
import IcontractModel.Spec.Bare
import IcontractModel.Spec.Frames
import IcontractModel.Lemmas.ReentrySim
import IcontractModel.Lemmas.ReentryTerm
import IcontractModel.Lemmas.ReentryTermGen
import IcontractModel.Lemmas.ReentryUpstream
namespace Icontract.Re

/-- the in-progress set and the frame stack describe the same suspensions -/
def Sim (s : List Key) (stack : List Frame) : Prop :=
  (∀ f, s.contains (.fn f) = (SSt.fnSuspended ⟨stack, []⟩ f)) ∧
  (∀ i, s.contains (.inst i) = (SSt.instSuspended ⟨stack, []⟩ i))

/-- **Only own re-entry goes unchecked.**  For every program whose constructors all carry the
constructor wrapper, every fuel, every command and every pair of corresponding states, the wrappers'
set discipline and the frame semantics produce the same evaluation trace and the same outcome, and
end in corresponding states: a call is made bare exactly when the stack shows an own re-entry. -/
theorem C10_set_discipline_is_frame_semantics (p : Program) (hw : p.allCtorsWrapped = true)
    (fuel : Nat) (s : List Key) (stack : List Frame) (tr : List Ev) (cmd : Cmd) (h : Sim s stack) :
    (run p .repaired fuel ⟨s, tr⟩ cmd).2 = (runSpec p fuel ⟨stack, tr⟩ cmd).2 ∧
    (run p .repaired fuel ⟨s, tr⟩ cmd).1.tr = (runSpec p fuel ⟨stack, tr⟩ cmd).1.tr ∧
    Sim (run p .repaired fuel ⟨s, tr⟩ cmd).1.s (runSpec p fuel ⟨stack, tr⟩ cmd).1.stack := by
  have hs : Sim' s stack := h
  have hobs := run_sim p hw fuel ⟨s, tr⟩ ⟨stack, tr⟩ cmd rfl hs
  refine ⟨hobs.1, hobs.2, ?_⟩
  have hres : Sim' (run p .repaired fuel ⟨s, tr⟩ cmd).1.s (runSpec p fuel ⟨stack, tr⟩ cmd).1.stack := by
    rw [runSpec_stack]
    exact hs.congr (run_sameMem p fuel ⟨s, tr⟩ cmd)
  exact hres

/-- more fuel never changes a finished evaluation -/
theorem C10_fuel_monotone (p : Program) (v : Variant) (fuel : Nat) (st : St) (cmd : Cmd)
    (h : (run p v fuel st cmd).2 ≠ .timeout) :
    run p v (fuel + 1) st cmd = run p v fuel st cmd := by
  exact run_fuel_mono p v fuel st cmd h

/-- **Termination**, functions: when the bodies make no calls, contracts that call the contracted
functions directly or mutually - any number of times, however deeply - always terminate: there is a
recursion depth (depending on the program only) that no evaluation exceeds, from any state. -/
theorem C10_function_contracts_terminate (p : Program)
    (hb : ∀ d ∈ p.fns, d.body.actions = []) (hc : p.classes = []) :
    ∃ n, ∀ fuel, n ≤ fuel → ∀ (st : St) (a : Action), (run p .repaired fuel st (.act a)).2 ≠ .timeout := by
  exact function_contracts_terminate p hb hc

/-- a program in which the precondition of its only function calls that function twice -/
def twice : Program :=
  { fns := [{ pre := [{ actions := [.callFn 0, .callFn 0] }], body := {} }] }

/-- the pinned upstream discipline (short-cut inside `try/finally discard`) recursed without bound on it ... -/
theorem C10_upstream_diverged (fuel : Nat) :
    (run twice .upstream fuel {} (.act (.callFn 0))).2 = .timeout := by
  exact upstream_diverged_gen twice rfl fuel {} rfl

/-- ... the repaired one evaluates the condition once and both inner calls bare -/
theorem C10_repaired_terminates_on_twice :
    (run twice .repaired 20 {} (.act (.callFn 0))).2 = .ok ∧
    (run twice .repaired 20 {} (.act (.callFn 0))).1.tr = [.cond 0 0, .body 0, .body 0, .body 0] := by
  decide

/-- the in-progress set is restored by every top-level evaluation that starts from a set not
containing the callee (re-armed after re-entrant evaluations too) -/
theorem C10_state_restored_after_reentrant_call (p : Program) (fuel : Nat) (tr : List Ev) (f : FnId) :
    (run p .repaired fuel ⟨[], tr⟩ (.act (.callFn f))).1.s = [] := by
  have h := run_sameMem p fuel ⟨[], tr⟩ (.act (.callFn f))
  generalize (run p .repaired fuel ⟨[], tr⟩ (.act (.callFn f))).1.s = l at h
  cases l with
  | nil => rfl
  | cons k l =>
    have hk := h k
    rw [List.contains_cons] at hk
    simp at hk

/-- **Termination, in general: contracts add no divergence.**  If the program stripped of its contracts finishes every
action within some recursion depth (from every state), then the contracted program - with preconditions, postconditions
and invariants that call contracted functions, public methods and constructors, directly or mutually, any number of
times - finishes every action within a recursion depth that depends on the program only. -/
theorem C10_contracts_add_no_divergence (p : Program)
    (hbare : ∃ n, ∀ (st : St) (a : Action), (run p.bare .repaired n st (.act a)).2 ≠ .timeout) :
    ∃ N, ∀ fuel, N ≤ fuel → ∀ (st : St) (a : Action), (run p .repaired fuel st (.act a)).2 ≠ .timeout := by
  exact contracts_add_no_divergence p hbare

/-- a class whose invariant calls a public method of the same instance (and a contracted function), a function
whose precondition calls the function itself and whose body calls another function, whose postcondition in turn
calls a method and a constructor -/
def mixed : Program :=
  { fns := [ { pre := [{ actions := [.callFn 0] }], body := { actions := [.callFn 1] } },
             { post := [{ actions := [.callMethod 0 0, .construct 0] }] } ],
    classes := [ { invs := [{ actions := [.callMethod 0 0, .callFn 0] }],
                   meths := [{ body := { actions := [.callFn 1] } }] } ],
    instCls := [0] }

/-- every chain of bodies calling actions in `mixed` is shorter than 3 -/
theorem mixed_rk : ∀ a, mixed.rk 3 a := by
  have hfn1 : ∀ r, mixed.rk (r + 1) (.callFn 1) := fun r b hb => nomatch hb
  have hsup : ∀ i cid r, mixed.rk (r + 1) (.superInit i cid) := by
    intro i cid r b hb
    match cid, hb with
    | 0, hb => exact nomatch hb
    | _ + 1, hb => exact nomatch hb
  intro a
  match a with
  | .callFn 0 =>
    intro b hb
    have e : b = .callFn 1 := List.mem_singleton.mp hb
    subst e; exact hfn1 1
  | .callFn 1 => exact hfn1 2
  | .callFn (_ + 2) => exact fun b hb => nomatch hb
  | .callMethod 0 0 | .callMethod (_ + 1) 0 =>
    intro b hb
    have e : b = .callFn 1 := List.mem_singleton.mp hb
    subst e; exact hfn1 1
  | .callMethod 0 (_ + 1) | .callMethod (_ + 1) (_ + 1) => exact fun b hb => nomatch hb
  | .construct i =>
    intro b hb
    have e : b = .superInit i (mixed.clsOf i) := List.mem_singleton.mp hb
    subst e; exact hsup _ _ 1
  | .superInit i cid => exact hsup i cid 2

/-- the hypothesis of `C10_contracts_add_no_divergence` is satisfiable by a program whose contracts re-enter
(functions, methods and constructors), and the conclusion then holds for it -/
example :
    (∃ n, ∀ (st : St) (a : Action), (run mixed.bare .repaired n st (.act a)).2 ≠ .timeout) ∧
    ∃ N, ∀ fuel, N ≤ fuel → ∀ (st : St) (a : Action), (run mixed .repaired fuel st (.act a)).2 ≠ .timeout :=
  ⟨bare_of_rk mixed_rk, C10_contracts_add_no_divergence mixed (bare_of_rk mixed_rk)⟩

/-- ... concretely: the precondition of function 0 re-enters it (bare), its body calls function 1, whose
postcondition calls the method (invariant: the method again - bare - and function 0 - bare) and the constructor -/
example :
    (run mixed .repaired 40 {} (.act (.callFn 0))).2 = .ok ∧
    (run mixed .repaired 40 {} (.act (.callMethod 0 0))).2 = .ok ∧
    (run mixed .repaired 40 {} (.act (.construct 0))).2 = .ok ∧
    (run mixed.bare .repaired 40 {} (.act (.callFn 0))).2 = .ok := by
  decide

/-- invariants that call public methods of the same object (and of other objects), constructors included: with bodies
that make no calls there is nothing to assume -/
theorem C10_invariants_terminate (p : Program)
    (hb : ∀ d ∈ p.fns, d.body.actions = [])
    (hm : ∀ c ∈ p.classes, c.init.actions = [] ∧ ∀ m ∈ c.meths, m.body.actions = []) :
    ∃ N, ∀ fuel, N ≤ fuel → ∀ (st : St) (a : Action), (run p .repaired fuel st (.act a)).2 ≠ .timeout := by
  exact C10_contracts_add_no_divergence p (bare_of_rk (rk_two_of_no_calls hb hm))

end Icontract.Re
