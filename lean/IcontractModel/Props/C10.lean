/-
  C10 - contracts calling contracted code terminate; only own re-entry goes unchecked.
  `Re.run p .repaired` is the model of the wrappers' in-progress discipline (tied to /repo by the
  correspondence run), `Re.runSpec` the frame-stack reference semantics that never mentions the
  in-progress set.
-/
import IcontractModel.Spec.Frames
import IcontractModel.Lemmas.ReentrySim
import IcontractModel.Lemmas.ReentryTerm
import IcontractModel.Lemmas.ReentryUpstream
namespace Icontract.Re

/-- the in-progress set and the frame stack describe the same suspensions -/
def Sim (s : List Key) (stack : List Frame) : Prop :=
  (∀ f, s.contains (.fn f) = (SSt.fnSuspended ⟨stack, []⟩ f)) ∧
  (∀ i, s.contains (.inst i) = (SSt.instSuspended ⟨stack, []⟩ i))

/-- **Only own re-entry goes unchecked.**  For every program whose constructors all carry the
constructor wrapper, every fuel, every command and every pair of corresponding states, the wrappers'
set discipline and the frame semantics produce the same evaluation trace and the same outcome, and
end in corresponding states: a call is made bare exactly when the stack shows an own re-entry. -/
theorem C10_set_discipline_is_frame_semantics (p : Program) (hw : p.allCtorsWrapped = true)
    (fuel : Nat) (s : List Key) (stack : List Frame) (tr : List Ev) (cmd : Cmd) (h : Sim s stack) :
    (run p .repaired fuel ⟨s, tr⟩ cmd).2 = (runSpec p fuel ⟨stack, tr⟩ cmd).2 ∧
    (run p .repaired fuel ⟨s, tr⟩ cmd).1.tr = (runSpec p fuel ⟨stack, tr⟩ cmd).1.tr ∧
    Sim (run p .repaired fuel ⟨s, tr⟩ cmd).1.s (runSpec p fuel ⟨stack, tr⟩ cmd).1.stack := by
  have hs : Sim' s stack := h
  have hobs := run_sim p hw fuel ⟨s, tr⟩ ⟨stack, tr⟩ cmd rfl hs
  refine ⟨hobs.1, hobs.2, ?_⟩
  have hres : Sim' (run p .repaired fuel ⟨s, tr⟩ cmd).1.s (runSpec p fuel ⟨stack, tr⟩ cmd).1.stack := by
    rw [runSpec_stack]
    exact hs.congr (run_sameMem p fuel ⟨s, tr⟩ cmd)
  exact hres

/-- more fuel never changes a finished evaluation -/
theorem C10_fuel_monotone (p : Program) (v : Variant) (fuel : Nat) (st : St) (cmd : Cmd)
    (h : (run p v fuel st cmd).2 ≠ .timeout) :
    run p v (fuel + 1) st cmd = run p v fuel st cmd := by
  exact run_fuel_mono p v fuel st cmd h

/-- **Termination**, functions: when the bodies make no calls, contracts that call the contracted
functions directly or mutually - any number of times, however deeply - always terminate: there is a
recursion depth (depending on the program only) that no evaluation exceeds, from any state. -/
theorem C10_function_contracts_terminate (p : Program)
    (hb : ∀ d ∈ p.fns, d.body.actions = []) (hc : p.classes = []) :
    ∃ n, ∀ fuel, n ≤ fuel → ∀ (st : St) (a : Action), (run p .repaired fuel st (.act a)).2 ≠ .timeout := by
  exact function_contracts_terminate p hb hc

/-- a program in which the precondition of its only function calls that function twice -/
def twice : Program :=
  { fns := [{ pre := [{ actions := [.callFn 0, .callFn 0] }], body := {} }] }

/-- the pinned upstream discipline (short-cut inside `try/finally discard`) recursed without bound on it ... -/
theorem C10_upstream_diverged (fuel : Nat) :
    (run twice .upstream fuel {} (.act (.callFn 0))).2 = .timeout := by
  exact upstream_diverged_gen twice rfl fuel {} rfl

/-- ... the repaired one evaluates the condition once and both inner calls bare -/
theorem C10_repaired_terminates_on_twice :
    (run twice .repaired 20 {} (.act (.callFn 0))).2 = .ok ∧
    (run twice .repaired 20 {} (.act (.callFn 0))).1.tr = [.cond 0 0, .body 0, .body 0, .body 0] := by
  decide

/-- the in-progress set is restored by every top-level evaluation that starts from a set not
containing the callee (re-armed after re-entrant evaluations too) -/
theorem C10_state_restored_after_reentrant_call (p : Program) (fuel : Nat) (tr : List Ev) (f : FnId) :
    (run p .repaired fuel ⟨[], tr⟩ (.act (.callFn f))).1.s = [] := by
  have h := run_sameMem p fuel ⟨[], tr⟩ (.act (.callFn f))
  generalize (run p .repaired fuel ⟨[], tr⟩ (.act (.callFn f))).1.s = l at h
  cases l with
  | nil => rfl
  | cons k l =>
    have hk := h k
    rw [List.contains_cons] at hk
    simp at hk

end Icontract.Re
