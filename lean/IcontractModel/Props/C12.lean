/-
  C12 - concurrent callers never disable each other's checks.
  `Conc.step` runs one task from one suspension point to the next; a schedule is any list of operations:
  a task runs, a task is created in a COPY of another task's current context (asyncio tasks, `to_thread`,
  `copy_context().run`), a plain thread is created with an empty context.  A call goes through the function
  wrapper (preconditions - body - postconditions), the public-method wrapper (invariants - body - invariants)
  or the constructor wrapper (body - invariants).  Under the repaired discipline (`perContext`: an immutable
  value bound per context, restored on exit) every context has its own binding, whatever it was copied from.
-/
import IcontractModel.Conc
import IcontractModel.Lemmas.ConcLemmas
namespace Icontract.Conc

/-- every task has its own binding, is about to start its program, and no task starts inside a check of
something it calls -/
structure WellFormed (w : World) : Prop where
  distinctCtx : ∀ (i j : Nat) (ti tj : Conc.Task), w.tasks[i]? = some ti → w.tasks[j]? = some tj → i ≠ j → ti.ctx ≠ tj.ctx
  ctxInRange : ∀ (i : Nat) (ti : Conc.Task), w.tasks[i]? = some ti → ti.ctx < w.sets.length
  startIdle : ∀ (i : Nat) (ti : Conc.Task), w.tasks[i]? = some ti → ti.pc = .idle ∧ ti.verdicts = [] ∧ ti.program = ti.calls
  notInProgress : ∀ (i : Nat) (ti : Conc.Task), w.tasks[i]? = some ti → ∀ c ∈ ti.calls, (getSet w ti.ctx).contains c.f = false

/-- the world a process starts in is well-formed, whatever the programs -/
theorem C12_start_is_well_formed (ps : List (List CallSpec)) : WellFormed (World.start ps) :=
  let h := start_Start ps
  ⟨h.distinctCtx, h.ctxInRange, h.startIdle, h.notInProgress⟩

theorem WellFormed.toStart {w : World} (hw : WellFormed w) : Start w :=
  ⟨hw.distinctCtx, hw.ctxInRange, hw.startIdle, hw.notInProgress⟩

/-- **The verdict of a call depends only on that call**: for every set of tasks, every program of
calls (of functions, public methods and constructors - on shared functions and shared instances), and EVERY
schedule of runs and task creations in which contexts are copied outside the evaluations they would disable,
the verdicts a task has produced so far are exactly the verdicts the property demands for the calls it has
completed - in order - and the calls still to do are the rest of its program. -/
theorem C12_verdicts_independent_of_schedule (w : World) (hw : WellFormed w) (ops : List Op)
    (hs : safeOps .perContext w ops = true)
    (i : Nat) (t : Conc.Task) (h : (runOps .perContext w ops).tasks[i]? = some t) :
    t.verdicts = (t.program.take t.verdicts.length).map CallSpec.expected ∧
    t.program = t.program.take t.verdicts.length ++ t.calls := by
  obtain ⟨hh, hT⟩ := reachable_task hw.toStart ops hs i t h
  exact hT.verdicts_take

/-- no call is ever made on the unchecked (re-entrant) path -/
theorem C12_no_call_skips_its_checks (w : World) (hw : WellFormed w) (ops : List Op)
    (hs : safeOps .perContext w ops = true)
    (i : Nat) (t : Conc.Task) (h : (runOps .perContext w ops).tasks[i]? = some t) :
    ∀ n e, t.pc ≠ .inBody n false e := by
  obtain ⟨hh, hT⟩ := reachable_task hw.toStart ops hs i t h
  exact hT.checked

/-- a task scheduled often enough completes its whole program with exactly the demanded verdicts,
whatever the other tasks do in between -/
theorem C12_completes_with_expected_verdicts (w : World) (hw : WellFormed w) (ops : List Op)
    (hs : safeOps .perContext w ops = true)
    (i : Nat) (t : Conc.Task) (h : (runOps .perContext w ops).tasks[i]? = some t) (hdone : t.calls = []) :
    t.verdicts = t.program.map CallSpec.expected := by
  obtain ⟨hh, hT⟩ := reachable_task hw.toStart ops hs i t h
  obtain ⟨done, hd, hv⟩ := hT.prog
  rw [hd, hdone, List.append_nil]
  exact hv

/-- the task is between two calls, or in the body of a function (whose mark is lifted for the body) -/
def Task.outsideChecks (t : Conc.Task) : Bool :=
  match t.pc, t.calls with
  | .idle, _ => true
  | .inBody _ true _, c :: _ => c.kind == .function
  | _, _ => false

/-- every context copy in the schedule is made while the parent is outside its checks -/
def copiesOutsideChecks (d : Discipline) : World → List Op → Bool
  | _, [] => true
  | w, op :: rest =>
    (match op with
     | .fork p _ => (match w.tasks[p]? with | none => true | some tp => Task.outsideChecks tp)
     | _ => true) && copiesOutsideChecks d (applyOp d w op) rest

/-- while every home value is empty, a task outside its checks has nothing marked -/
theorem outsideChecks_nothing_marked {w : World} (hI : Inv (fun h => h = []) w) {p : Nat} {tp : Conc.Task}
    (htp : w.tasks[p]? = some tp) (ho : Task.outsideChecks tp = true) : getSet w tp.ctx = [] := by
  obtain ⟨hh, hP, hT⟩ := hI.task p tp htp
  subst hP
  apply hT.outside_home
  obtain ⟨ctx, calls, pc, verdicts, program⟩ := tp
  cases pc with
  | idle => exact Or.inl rfl
  | inCond n e => simp [Task.outsideChecks] at ho
  | inPost n e => simp [Task.outsideChecks] at ho
  | inBody n ck e =>
    cases ck with
    | false => simp [Task.outsideChecks] at ho
    | true =>
      cases calls with
      | nil => simp [Task.outsideChecks] at ho
      | cons c rest =>
        refine Or.inr ⟨n, e, c, rest, rfl, rfl, ?_⟩
        simpa [Task.outsideChecks] using ho

/-- copies made outside checks are safe copies, from every world in which all home values are empty -/
theorem safeOps_of_copiesOutsideChecks (ops : List Op) :
    ∀ {w : World}, Inv (fun h => h = []) w → copiesOutsideChecks .perContext w ops = true →
      safeOps .perContext w ops = true := by
  induction ops with
  | nil => intro w _ _; rfl
  | cons op rest ih =>
    intro w hI hc
    simp only [copiesOutsideChecks, Bool.and_eq_true] at hc
    obtain ⟨hop, hrest⟩ := hc
    have hmarked : ∀ p calls tp, op = .fork p calls → w.tasks[p]? = some tp → getSet w tp.ctx = [] := by
      intro p calls tp hopeq htp
      subst hopeq
      simp only [htp] at hop
      exact outsideChecks_nothing_marked hI htp hop
    have hsafe : opSafe w op = true := by
      cases op with
      | run i => rfl
      | thread calls => rfl
      | fork p calls =>
        cases htp : w.tasks[p]? with
        | none => simp [opSafe, htp]
        | some tp => simp [opSafe, htp, hmarked p calls tp rfl htp]
    simp only [safeOps, Bool.and_eq_true]
    exact ⟨hsafe, ih (hI.applyOp rfl hsafe hmarked) hrest⟩

/-- **Inheriting a context after the parent has executed contracted code changes nothing**: from the start
of a process, contexts copied while their parent is between two calls (or in the body of a contracted
function) - however much contracted code the parent ran before - are always copied safely ... -/
theorem C12_copies_outside_checks_are_safe (ps : List (List CallSpec)) (ops : List Op)
    (h : copiesOutsideChecks .perContext (World.start ps) ops = true) :
    safeOps .perContext (World.start ps) ops = true :=
  safeOps_of_copiesOutsideChecks ops (Inv.start ps) h

/-- ... hence every task - created at the start, as a plain thread, or in a copied context - gets exactly the
verdicts of its own calls -/
theorem C12_inherited_contexts_do_not_matter (ps : List (List CallSpec)) (ops : List Op)
    (h : copiesOutsideChecks .perContext (World.start ps) ops = true)
    (i : Nat) (t : Conc.Task) (ht : (runOps .perContext (World.start ps) ops).tasks[i]? = some t) :
    t.verdicts = (t.program.take t.verdicts.length).map CallSpec.expected ∧
    (∀ n e, t.pc ≠ .inBody n false e) := by
  have hs := C12_copies_outside_checks_are_safe ps ops h
  obtain ⟨hh, hT⟩ := reachable_task (start_Start ps) ops hs i t ht
  exact ⟨hT.verdicts_take.1, hT.checked⟩

/-- non-vacuity: two tasks hammer one function and one shared instance while a third one is created in a
copy of the first one's context between two of its calls -/
example :
    let f : CallSpec := { f := 7, preTruthy := true, condYields := 1, bodyYields := 1, postTruthy := false, postYields := 1 }
    let m : CallSpec := { f := 9, kind := .method, preTruthy := true, condYields := 0, bodyYields := 1, postTruthy := true }
    let k : CallSpec := { f := 9, kind := .ctor, preTruthy := true, condYields := 0, bodyYields := 0, postTruthy := false }
    let ops : List Op := [.run 0, .run 1, .run 0, .run 0, .run 0, .fork 0 [m, k, f], .run 2, .run 1, .run 2, .run 2, .run 0,
                          .thread [f], .run 3, .run 2, .run 2]
    copiesOutsideChecks .perContext (World.start [[f, m], [m, f]]) ops = true ∧
    ((runOps .perContext (World.start [[f, m], [m, f]]) ops).tasks.map (·.verdicts)) =
      [[.postViolation], [.returned], [.returned, .postViolation], []] := by
  decide

/-- the boundary of the statement is real: a context copied INSIDE the body of a public method inherits the
mark of the instance, and the new task's calls on that instance are made bare - a false invariant goes
unnoticed (the same calls made directly from the body would be bare, too) -/
theorem C12_copy_inside_a_method_body_inherits_the_mark :
    let m : CallSpec := { f := 5, kind := .method, preTruthy := true, condYields := 0, bodyYields := 1 }
    let bad : CallSpec := { f := 5, kind := .method, preTruthy := true, condYields := 0, bodyYields := 0, postTruthy := false }
    ((runOps .perContext (World.start [[m]]) [.run 0, .fork 0 [bad], .run 1]).tasks[1]?).map (·.verdicts) = some [.returned] ∧
    bad.expected = .postViolation ∧
    safeOps .perContext (World.start [[m]]) [.run 0, .fork 0 [bad], .run 1] = false := by
  decide

/-- two tasks whose contexts were copied after the parent's first checked call (upstream: they share
the parent's set object 0); the first is suspended inside the evaluation of f's precondition when the
second calls f with a false precondition -/
def aliasWitness : World :=
  { sets := [[]],
    tasks := [{ ctx := 0, calls := [{ f := 7, preTruthy := true, condYields := 1, bodyYields := 0 }] },
              { ctx := 0, calls := [{ f := 7, preTruthy := false, condYields := 0, bodyYields := 0 }] }] }

/-- **Upstream**, sharing one mutable set through copied contexts: the concurrent call with a false
precondition returned normally. -/
theorem C12_shared_set_let_a_violating_call_return :
    ((runSchedule .shared aliasWitness [0, 1, 0, 0]).tasks[1]?).map (·.verdicts) = some [.returned] ∧
    ({ f := 7, preTruthy := false, condYields := 0, bodyYields := 0 } : CallSpec).expected = .violation := by
  decide

/-- the same, with the second task created by copying the first one's context between its calls - which is
safe under the repaired discipline and was not under the upstream one -/
theorem C12_shared_set_fork_witness :
    let c0 : CallSpec := { f := 7, preTruthy := true, condYields := 1, bodyYields := 0 }
    let c1 : CallSpec := { f := 7, preTruthy := false, condYields := 0, bodyYields := 0 }
    ((runOps .shared (World.start [[c0]]) [.fork 0 [c1], .run 0, .run 1]).tasks[1]?).map (·.verdicts) = some [.returned] ∧
    ((runOps .perContext (World.start [[c0]]) [.fork 0 [c1], .run 0, .run 1]).tasks[1]?).map (·.verdicts) = some [.violation] := by
  decide

/-- the same schedule under the repaired discipline (each context has its own binding) -/
theorem C12_per_context_rejects_it :
    ((runSchedule .perContext
        { sets := [[], []],
          tasks := [{ ctx := 0, calls := [{ f := 7, preTruthy := true, condYields := 1, bodyYields := 0 }] },
                    { ctx := 1, calls := [{ f := 7, preTruthy := false, condYields := 0, bodyYields := 0 }] }] }
        [0, 1, 0, 0]).tasks[1]?).map (·.verdicts) = some [.violation] := by
  decide

end Icontract.Conc
