/-
  C12 - concurrent callers never disable each other's checks.
  `Conc.step` runs one task from one suspension point to the next; a schedule is any list of task
  indices.  Under the repaired discipline (`perContext`: an immutable value bound per context,
  restored on exit) every context has its own binding, whatever it was copied from.
-/
import IcontractModel.Conc
import IcontractModel.Lemmas.ConcLemmas
namespace Icontract.Conc

/-- every task has its own binding, and no task starts inside a check of a function it calls
(contexts copied *while* the parent is evaluating contracts are outside the property's modes) -/
structure WellFormed (w : World) : Prop where
  distinctCtx : ∀ (i j : Nat) (ti tj : Conc.Task), w.tasks[i]? = some ti → w.tasks[j]? = some tj → i ≠ j → ti.ctx ≠ tj.ctx
  ctxInRange : ∀ (i : Nat) (ti : Conc.Task), w.tasks[i]? = some ti → ti.ctx < w.sets.length
  startIdle : ∀ (i : Nat) (ti : Conc.Task), w.tasks[i]? = some ti → ti.pc = .idle ∧ ti.verdicts = []
  notInProgress : ∀ (i : Nat) (ti : Conc.Task), w.tasks[i]? = some ti → ∀ c ∈ ti.calls, (getSet w ti.ctx).contains c.f = false

/-- **The verdict of a call depends only on that call**: for every set of tasks, every program of
calls, every context-inheritance mode that yields a well-formed start, and EVERY schedule, the verdicts
a task has produced so far are exactly the verdicts the property demands for the calls it has
completed - in order - and the calls still to do are the rest of its program. -/
theorem C12_verdicts_independent_of_schedule (w : World) (hw : WellFormed w) (sched : List Nat)
    (i : Nat) (t0 t : Conc.Task) (h0 : w.tasks[i]? = some t0)
    (h : (runSchedule .perContext w sched).tasks[i]? = some t) :
    t.verdicts = (t0.calls.take t.verdicts.length).map CallSpec.expected ∧
    t.verdicts.length ≤ t0.calls.length := by
  obtain ⟨_, ⟨done, hd, hv⟩, _⟩ := reachable_task ⟨hw.1, hw.2, hw.3, hw.4⟩ sched i t0 t h0 h
  have hlen : t.verdicts.length = done.length := by simp [hv]
  refine ⟨?_, ?_⟩
  · rw [hlen, hd, List.take_left', hv]; rfl
  · rw [hlen, hd]; simp

/-- no call is ever made on the unchecked (re-entrant) path -/
theorem C12_no_call_skips_its_checks (w : World) (hw : WellFormed w) (sched : List Nat)
    (i : Nat) (t : Conc.Task) (h : (runSchedule .perContext w sched).tasks[i]? = some t) :
    ∀ n e, t.pc ≠ .inBody n false e := by
  have hs : Start w := ⟨hw.1, hw.2, hw.3, hw.4⟩
  obtain ⟨t0, h0⟩ := reachable_task_orig hs sched i t h
  have hpc := (reachable_task hs sched i t0 t h0 h).pc
  intro n e hne
  rw [hne] at hpc
  exact hpc

/-- a task scheduled often enough completes its whole program with exactly the demanded verdicts,
whatever the other tasks do in between -/
theorem C12_completes_with_expected_verdicts (w : World) (hw : WellFormed w) (sched : List Nat)
    (i : Nat) (t0 t : Conc.Task) (h0 : w.tasks[i]? = some t0)
    (h : (runSchedule .perContext w sched).tasks[i]? = some t) (hdone : t.calls = []) :
    t.verdicts = t0.calls.map CallSpec.expected := by
  obtain ⟨_, ⟨done, hd, hv⟩, _⟩ := reachable_task ⟨hw.1, hw.2, hw.3, hw.4⟩ sched i t0 t h0 h
  rw [hd, hdone, List.append_nil, hv]

/-- two tasks whose contexts were copied after the parent's first checked call (upstream: they share
the parent's set object 0); the first is suspended inside the evaluation of f's precondition when the
second calls f with a false precondition -/
def aliasWitness : World :=
  { sets := [[]],
    tasks := [{ ctx := 0, calls := [{ f := 7, preTruthy := true, condYields := 1, bodyYields := 0 }] },
              { ctx := 0, calls := [{ f := 7, preTruthy := false, condYields := 0, bodyYields := 0 }] }] }

/-- **Upstream**, sharing one mutable set through copied contexts: the concurrent call with a false
precondition returned normally. -/
theorem C12_shared_set_let_a_violating_call_return :
    ((runSchedule .shared aliasWitness [0, 1, 0, 0]).tasks[1]?).map (·.verdicts) = some [.returned] ∧
    ({ f := 7, preTruthy := false, condYields := 0, bodyYields := 0 } : CallSpec).expected = .violation := by
  decide

/-- the same schedule under the repaired discipline (each context has its own binding) -/
theorem C12_per_context_rejects_it :
    ((runSchedule .perContext
        { sets := [[], []],
          tasks := [{ ctx := 0, calls := [{ f := 7, preTruthy := true, condYields := 1, bodyYields := 0 }] },
                    { ctx := 1, calls := [{ f := 7, preTruthy := false, condYields := 0, bodyYields := 0 }] }] }
        [0, 1, 0, 0]).tasks[1]?).map (·.verdicts) = some [.violation] := by
  decide

end Icontract.Conc
