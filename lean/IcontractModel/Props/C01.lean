/-
  C01 - preconditions gate every call: the body runs iff the effective
  precondition holds.  Property theorems only; helper lemmas live in `Lemmas/`.

  Quantifiers: every checker `ck` (any list of precondition groups of any
  lengths, any snapshots and postconditions around them), every oracle `o`
  (every truth assignment, every way user code may raise), every call.  Sync and
  async wrappers are separate model definitions with separate theorems.
-/
import IcontractModel.Lemmas.Instances
import IcontractModel.Chain
namespace Icontract
open Res

/-- errors are created without failing (used only for "which error is raised") -/
theorem createViolationError_errorOf (o : Oracle) (kw : Kwargs) (c : Contract) (err : Raised)
    (h : errorOf o kw c = some err) : (createViolationError o c kw).out = .ok err := by
  unfold errorOf at h
  unfold createViolationError
  split at h
  · next he =>
    simp only [he]
    split at h
    · next hm => simp at h; subst h; simp [hm]
    · simp at h
  · next args he =>
    simp only [he]
    split at h
    · next hm =>
      split at h
      · next hf =>
        simp at h; subst h
        simp [selectErrorKwargs, hm, hf]
      · simp at h
    · simp at h
  · next t he =>
    simp only [he]
    split at h
    · next hm => simp at h; subst h; simp [hm]
    · simp at h
  · next e he => simp only [he]; simp at h; subst h; rfl
  · simp at h

/-! ## sync callables -/

/-- **No body without a satisfied group** (all oracles, all checkers). -/
theorem C01_sync_body_only_if_pre_holds (ck : Checker) (o : Oracle) (call : Call)
    (hb : bodyEntered (checkedSync ck o call).trace) :
    dnfHolds false o (resolved ck call) ck.pre := by
  rw [checkedSync_eq] at hb
  exact checkedG_body_dnf (syncHooks_ok o) ck call hb

/-- **No snapshot is captured unless the precondition holds.** -/
theorem C01_sync_capture_only_if_pre_holds (ck : Checker) (o : Oracle) (call : Call)
    (hb : captured (checkedSync ck o call).trace) :
    dnfHolds false o (resolved ck call) ck.pre := by
  rw [checkedSync_eq] at hb
  exact checkedG_capture_dnf (syncHooks_ok o) ck call hb

/-- **If the effective precondition holds the body is entered**, for every truth
assignment (conditions answer plain truth values), reserved names free, captures succeeding. -/
theorem C01_sync_body_if_pre_holds (ck : Checker) (o : Oracle) (call : Call)
    (hvalid : assertResolvedKwargsValid (!ck.posts.isEmpty) (resolved ck call) = none)
    (htot : ∀ g ∈ ck.pre, totalOn false o (resolved ck call) g)
    (hcap : ∃ old, (captureOldSync o (resolved ck call) [] ck.snaps).out = .ok old)
    (hdnf : dnfHolds false o (resolved ck call) ck.pre) :
    bodyEntered (checkedSync ck o call).trace := by
  rw [checkedSync_eq]
  exact checkedG_enters (syncHooks o) (condTruthy false o) (condFalsy false o) (syncHooks_ok o)
    (fun kw c h => evalPreSync_true_of_falsy o kw c h) ck call hvalid htot hdnf hcap

/-- **Otherwise the violated contract's error is raised**: the error of the first
falsy condition of the last group tried; the body is not entered and nothing is captured. -/
theorem C01_sync_violated (ck : Checker) (o : Oracle) (call : Call)
    (hvalid : assertResolvedKwargsValid (!ck.posts.isEmpty) (resolved ck call) = none)
    (htot : ∀ g ∈ ck.pre, totalOn false o (resolved ck call) g)
    (hno : ¬ dnfHolds false o (resolved ck call) ck.pre) :
    ∃ gl c, ck.pre.getLast? = some gl ∧ firstFalsy false o (resolved ck call) gl = some c ∧
      (∀ err, errorOf o (resolved ck call) c = some err → (checkedSync ck o call).out = .error err) ∧
      ¬ bodyEntered (checkedSync ck o call).trace ∧ ¬ captured (checkedSync ck o call).trace := by
  have hne : ck.pre ≠ [] := fun h => hno (Or.inl h)
  have hno' : ∀ g ∈ ck.pre, ¬ ∀ c ∈ g, condTruthy false o (resolved ck call) c = true :=
    fun g hg hall => hno (Or.inr ⟨g, hg, hall⟩)
  obtain ⟨gl, hgl⟩ : ∃ gl, ck.pre.getLast? = some gl := by
    cases h : ck.pre.getLast? with
    | none => exact absurd (List.getLast?_eq_none_iff.mp h) hne
    | some gl => exact ⟨gl, rfl⟩
  have hglm : gl ∈ ck.pre := List.mem_of_getLast? hgl
  obtain ⟨c, hc⟩ : ∃ c, firstFalsy false o (resolved ck call) gl = some c := by
    unfold firstFalsy
    cases h : gl.find? (fun c => !condTruthy false o (resolved ck call) c) with
    | some c => exact ⟨c, rfl⟩
    | none =>
      exfalso
      apply hno' gl hglm
      intro c hc
      have := List.find?_eq_none.mp h c hc
      simpa using this
  refine ⟨gl, c, hgl, hc, ?_, ?_, ?_⟩
  · intro err herr
    rw [checkedSync_eq]
    exact checkedG_violated (syncHooks o) (condTruthy false o) (condFalsy false o) (syncHooks_ok o)
      (fun kw c h => evalPreSync_true_of_falsy o kw c h) ck call hvalid htot hno' gl hgl c hc err
      (createViolationError_errorOf o _ c err herr)
  · exact fun hb => hno (C01_sync_body_only_if_pre_holds ck o call hb)
  · exact fun hb => hno (C01_sync_capture_only_if_pre_holds ck o call hb)

/-! ## async callables -/

theorem C01_async_body_only_if_pre_holds (ck : Checker) (o : Oracle) (call : Call)
    (hb : bodyEntered (checkedAsync ck o call).trace) :
    dnfHolds true o (resolved ck call) ck.pre := by
  rw [checkedAsync_eq] at hb
  exact checkedG_body_dnf (asyncHooks_ok o) ck call hb

theorem C01_async_capture_only_if_pre_holds (ck : Checker) (o : Oracle) (call : Call)
    (hb : captured (checkedAsync ck o call).trace) :
    dnfHolds true o (resolved ck call) ck.pre := by
  rw [checkedAsync_eq] at hb
  exact checkedG_capture_dnf (asyncHooks_ok o) ck call hb

theorem C01_async_body_if_pre_holds (ck : Checker) (o : Oracle) (call : Call)
    (hvalid : assertResolvedKwargsValid (!ck.posts.isEmpty) (resolved ck call) = none)
    (htot : ∀ g ∈ ck.pre, totalOn true o (resolved ck call) g)
    (hcap : ∃ old, (captureOldAsync o (resolved ck call) [] ck.snaps).out = .ok old)
    (hdnf : dnfHolds true o (resolved ck call) ck.pre) :
    bodyEntered (checkedAsync ck o call).trace := by
  rw [checkedAsync_eq]
  exact checkedG_enters (asyncHooks o) (condTruthy true o) (condFalsy true o) (asyncHooks_ok o)
    (fun kw c h => evalCondAsync_true_of_falsy o kw c h) ck call hvalid htot hdnf hcap

theorem C01_async_violated (ck : Checker) (o : Oracle) (call : Call)
    (hvalid : assertResolvedKwargsValid (!ck.posts.isEmpty) (resolved ck call) = none)
    (htot : ∀ g ∈ ck.pre, totalOn true o (resolved ck call) g)
    (hno : ¬ dnfHolds true o (resolved ck call) ck.pre) :
    ∃ gl c, ck.pre.getLast? = some gl ∧ firstFalsy true o (resolved ck call) gl = some c ∧
      (∀ err, errorOf o (resolved ck call) c = some err → (checkedAsync ck o call).out = .error err) ∧
      ¬ bodyEntered (checkedAsync ck o call).trace ∧ ¬ captured (checkedAsync ck o call).trace := by
  have hne : ck.pre ≠ [] := fun h => hno (Or.inl h)
  have hno' : ∀ g ∈ ck.pre, ¬ ∀ c ∈ g, condTruthy true o (resolved ck call) c = true :=
    fun g hg hall => hno (Or.inr ⟨g, hg, hall⟩)
  obtain ⟨gl, hgl⟩ : ∃ gl, ck.pre.getLast? = some gl := by
    cases h : ck.pre.getLast? with
    | none => exact absurd (List.getLast?_eq_none_iff.mp h) hne
    | some gl => exact ⟨gl, rfl⟩
  have hglm : gl ∈ ck.pre := List.mem_of_getLast? hgl
  obtain ⟨c, hc⟩ : ∃ c, firstFalsy true o (resolved ck call) gl = some c := by
    unfold firstFalsy
    cases h : gl.find? (fun c => !condTruthy true o (resolved ck call) c) with
    | some c => exact ⟨c, rfl⟩
    | none =>
      exfalso
      apply hno' gl hglm
      intro c hc
      have := List.find?_eq_none.mp h c hc
      simpa using this
  refine ⟨gl, c, hgl, hc, ?_, ?_, ?_⟩
  · intro err herr
    rw [checkedAsync_eq]
    exact checkedG_violated (asyncHooks o) (condTruthy true o) (condFalsy true o) (asyncHooks_ok o)
      (fun kw c h => evalCondAsync_true_of_falsy o kw c h) ck call hvalid htot hno' gl hgl c hc err
      (createViolationError_errorOf o _ c err herr)
  · exact fun hb => hno (C01_async_body_only_if_pre_holds ck o call hb)
  · exact fun hb => hno (C01_async_capture_only_if_pre_holds ck o call hb)

/-! ## the wrapper around the checked path, and the chain reading of "effective precondition" -/

/-- A call that is not an own re-entry and uses no reserved keyword runs the checked path. -/
theorem C01_wrapper_runs_checked_path (ck : Checker) (o : Oracle) (s : IdSet) (call : Call)
    (hk : assertNoInvalidKwargs call.kwargs = none) (hs : s.contains ck.fid = false) :
    (callSync ck o s call).1 = checkedSync ck o call ∧ (callAsync ck o s call).1 = checkedAsync ck o call := by
  have hs' : ck.fid ∉ s := by simpa using hs
  simp [callSync, callAsync, hk, hs']

/-- A call with a reserved keyword never reaches user code. -/
theorem C01_reserved_keyword_rejected (ck : Checker) (o : Oracle) (s : IdSet) (call : Call) (e : Raised)
    (hk : assertNoInvalidKwargs call.kwargs = some e) :
    (callSync ck o s call).1.trace = [] ∧ (callSync ck o s call).1.out = .error e ∧
    (callAsync ck o s call).1.trace = [] ∧ (callAsync ck o s call).1.out = .error e := by
  simp [callSync, callAsync, hk]

/-- Along an override chain the effective precondition is: *some class that declares
preconditions has all of its own conditions truthy* (own conjoined, inherited groups as
alternatives); a chain that declares none accepts every call. -/
theorem C01_chain_effective_precondition (isAsync : Bool) (o : Oracle) (kw : Kwargs) (levels : List Level) :
    dnfHolds isAsync o kw (chainPre levels) ↔
      (∀ l ∈ levels, l.pre = []) ∨
      ∃ l ∈ levels, l.pre ≠ [] ∧ ∀ c ∈ l.pre, condTruthy isAsync o kw c = true := by
  induction levels with
  | nil => simp [chainPre, dnfHolds]
  | cons l ls ih =>
    unfold dnfHolds at ih ⊢
    by_cases hl : l.pre = []
    · simp only [chainPre, hl, List.isEmpty_nil, if_true, List.nil_append]
      rw [ih]
      constructor
      · rintro (h | ⟨l', hl', hne, hall⟩)
        · left; intro x hx; rcases List.mem_cons.mp hx with rfl | hx
          · exact hl
          · exact h x hx
        · right; exact ⟨l', List.mem_cons_of_mem _ hl', hne, hall⟩
      · rintro (h | ⟨l', hl', hne, hall⟩)
        · left; exact fun x hx => h x (List.mem_cons_of_mem _ hx)
        · right
          rcases List.mem_cons.mp hl' with rfl | hl'
          · exact absurd hl hne
          · exact ⟨l', hl', hne, hall⟩
    · have hie : l.pre.isEmpty = false := by
        cases h : l.pre with
        | nil => exact absurd h hl
        | cons a b => rfl
      simp only [chainPre, hie, Bool.false_eq_true, if_false, List.cons_append, List.nil_append]
      constructor
      · rintro (h | ⟨g, hg, hall⟩)
        · cases h
        · right
          rcases List.mem_cons.mp hg with rfl | hg
          · exact ⟨l, List.mem_cons_self, hl, hall⟩
          · rcases ih.mp (Or.inr ⟨g, hg, hall⟩) with h | ⟨l', hl', hne, hall'⟩
            · exfalso
              have : ∀ ls : List Level, (∀ l ∈ ls, l.pre = []) → chainPre ls = [] := by
                intro ls h
                induction ls with
                | nil => rfl
                | cons a as iha =>
                  simp [chainPre, h a List.mem_cons_self,
                    iha (fun x hx => h x (List.mem_cons_of_mem _ hx))]
              rw [this ls h] at hg; cases hg
            · exact ⟨l', List.mem_cons_of_mem _ hl', hne, hall'⟩
      · rintro (h | ⟨l', hl', hne, hall⟩)
        · exact absurd (h l List.mem_cons_self) hl
        · right
          rcases List.mem_cons.mp hl' with rfl | hl'
          · exact ⟨_, List.mem_cons_self, hall⟩
          · rcases ih.mpr (Or.inr ⟨l', hl', hne, hall⟩) with h | ⟨g, hg, hg2⟩
            · have : ∀ ls : List Level, chainPre ls = [] → ∀ l ∈ ls, l.pre = [] := by
                intro ls
                induction ls with
                | nil => intro _ l hl; cases hl
                | cons a as iha =>
                  intro h x hx
                  by_cases ha : a.pre = []
                  · simp [chainPre, ha] at h
                    rcases List.mem_cons.mp hx with rfl | hx
                    · exact ha
                    · exact iha h x hx
                  · have : a.pre.isEmpty = false := by
                      cases h' : a.pre with
                      | nil => exact absurd h' ha
                      | cons _ _ => rfl
                    simp [chainPre, this] at h
              exact absurd (this ls h l' hl') hne
            · exact ⟨g, List.mem_cons_of_mem _ hg, hg2⟩

/-! ## non-vacuity: concrete cases meeting the hypotheses -/

private def exC (i : Nat) : Contract := { id := i, args := ["x"], mandatory := ["x"], err := .cls true true }
private def exCk : Checker := { fid := 1, pre := [[exC 1, exC 2], [exC 3]], paramNames := ["x"] }
private def exO (t1 t2 t3 : Truth) : Oracle :=
  { cond := fun i => if i == 1 then .val 101 t1 else if i == 2 then .val 102 t2 else .val 103 t3,
    capture := fun _ => .val 0 .truthy, body := .ret 7, fac := fun _ => .nonExc, msg := fun _ => .ok }

/-- a two-group checker, second group holds: the body is entered (hypotheses of
`C01_sync_body_if_pre_holds` are met and its conclusion is observed by evaluation) -/
example : (checkedSync exCk (exO .truthy .falsy .truthy) { args := [10] }).trace.any Event.isBody = true := by
  decide

/-- no group holds: error of the first falsy condition of the last group, no body -/
example : (match (checkedSync exCk (exO .truthy .falsy .falsy) { args := [10] }).out with
            | .error (.viol 3 true) => true | _ => false) = true
    ∧ (checkedSync exCk (exO .truthy .falsy .falsy) { args := [10] }).trace.any Event.isBody = false := by
  decide

end Icontract
