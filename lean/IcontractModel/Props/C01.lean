/-
  C01 - preconditions gate every call.
  Property theorems only; helper lemmas live in `Lemmas/`.
-/
import IcontractModel.Lemmas.CheckerSync
namespace Icontract

/-- One precondition of a sync callable passes exactly when it answers truthy. -/
theorem C01_cond_passes_iff (o : Oracle) (kw : Kwargs) (c : Contract) :
    (evalPreSync o kw c).out = .ok false ↔ condTruthy false o kw c = true :=
  evalPreSync_false_iff o kw c

end Icontract
