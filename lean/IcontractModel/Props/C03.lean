/-
  C03 - invariants are checked around every public operation on a constructed object.
  (a) which members are guarded: a decision table over member names (arbitrary strings) and kinds;
  (b) what a guarded operation does: properties of the frame semantics (Spec/Frames.lean), which by
      C10_set_discipline_is_frame_semantics is what the wrappers' set discipline computes.
-/
import IcontractModel.Inv
import IcontractModel.Spec.Frames
import IcontractModel.Lemmas.InvTable
import IcontractModel.Lemmas.Frames
namespace Icontract.Inv
open Icontract.Meta

/-- **Which members are guarded on calls**: for every name and member kind, a member of a processed
class with at least one on-call invariant is wrapped iff it is a Python function or property whose
name is public or dunder and not one of `__new__`, `__repr__`, `__getattribute__` (constructors and
`__setattr__` are handled separately). -/
theorem C03_call_guard_table (invs : List CheckOn) (name : String) (m : Member)
    (hc : (unionOn invs).call = true) (hn : name ≠ "__init__") (hs : name ≠ "__setattr__") :
    guardOf invs name m = .onCall ↔ mustGuardOnCall name m = true :=
  call_guard_table invs name m hc hn hs

/-- never around non-public methods, class and static methods, `__repr__`, `__getattribute__`, `__new__` -/
theorem C03_never_guarded (invs : List CheckOn) (name : String) (m : Member)
    (h : (name.startsWith "_" = true ∧ isDunderName name = false) ∨
         (∃ f, m = .static f) ∨ (∃ f, m = .classm f) ∨ m = .other ∨
         name = "__repr__" ∨ name = "__getattribute__" ∨ name = "__new__") :
    guardOf invs name m = .none :=
  never_guarded invs name m h

/-- attribute assignment is guarded iff attribute-set checking was requested by some invariant of the
class (own or inherited), and then exactly the invariants that requested it are evaluated -/
theorem C03_setattr_only_if_requested (invs : List CheckOn) (f : FnId) :
    (guardOf invs "__setattr__" (.func f) = .onSetattr ↔ (unionOn invs).setattr = true) ∧
    (assignGuard invs = .onSetattr ↔ (unionOn invs).setattr = true) ∧
    (∀ i ∈ evaluatedOnce invs .onSetattr, ∃ c, invs[i]? = some c ∧ c.setattr = true) :=
  setattr_only_if_requested invs f

/-- the decision uses *all* invariants of the class, in any order of decoration -/
theorem C03_guard_independent_of_decorator_order (invs invs' : List CheckOn) (name : String) (m : Member)
    (h : ∀ c, c ∈ invs ↔ c ∈ invs') :
    guardOf invs name m = guardOf invs' name m :=
  guard_independent_of_decorator_order invs invs' name m h

/-- a guarded call evaluates exactly the on-call invariants, the constructor all of them -/
theorem C03_selected_invariants (invs : List CheckOn) :
    (∀ i, i ∈ evaluatedOnce invs .onCall ↔ ∃ c, invs[i]? = some c ∧ c.call = true) ∧
    evaluatedOnce invs .ctor = List.range invs.length :=
  selected_invariants invs

end Icontract.Inv

namespace Icontract.Re

/-- no invariant event of instance `i` between positions -/
def invEventsOf (i : InstId) (t : List Ev) : List Ev := t.filter (fun e => match e with | .inv j _ => j == i | _ => false)

theorem invEventsOf_append (i : InstId) (t u : List Ev) :
    invEventsOf i (t ++ u) = invEventsOf i t ++ invEventsOf i u := by
  simp [invEventsOf]

theorem invEventsOf_eq_nil (i : InstId) (t : List Ev) (h : ∀ k, Ev.inv i k ∉ t) : invEventsOf i t = [] := by
  simp only [invEventsOf, List.filter_eq_nil_iff]
  intro e he
  cases e <;> simp
  rename_i j k
  intro hj; subst hj; exact h k he

theorem invEventsOf_ext (i : InstId) (t u : List Ev) (h : ∀ k, Ev.inv i k ∉ u) :
    invEventsOf i (t ++ u) = invEventsOf i t := by
  rw [invEventsOf_append, invEventsOf_eq_nil i u h, List.append_nil]

/-- **Invariants are never evaluated on an object whose construction has not finished**: in the frame
semantics, while a constructor frame of `i` is on the stack every command leaves the trace free of
new invariant events for `i`. -/
theorem C03_no_invariant_during_construction (p : Program) (fuel : Nat) (st : SSt) (cmd : Cmd) (i : InstId)
    (h : st.underConstruction i = true)
    (hcmd : ∀ k cs, cmd ≠ .invs i k cs) :
    invEventsOf i (runSpec p fuel st cmd).1.tr = invEventsOf i st.tr := by
  obtain ⟨_, t, ht, hn⟩ := runSpec_ext p i fuel st cmd h (by
    cases cmd <;> simp [cmdInst]
    rename_i j k cs
    intro hj; subst hj; exact hcmd k cs rfl)
  rw [ht, invEventsOf_ext i _ t hn]

/-- **All invariants right after the outermost constructor returns**: a successful outermost
construction ends with the evaluation of every invariant of the instance's class, in order, and the
last event before them belongs to the constructor's body. -/
theorem C03_invariants_after_outermost_constructor (p : Program) (fuel : Nat) (st : SSt) (i : InstId)
    (c : ClsDecl) (hc : p.cls? (p.clsOf i) = some c)
    (hfree : st.instSuspended i = false)
    (hok : (runSpec p fuel st (.act (.construct i))).2 = .ok)
    (hplain : ∀ s ∈ c.invs, s.actions = []) :
    ∃ mid, (runSpec p fuel st (.act (.construct i))).1.tr =
      mid ++ (List.range c.invs.length).map (fun k => Ev.inv i k) ∧
      invEventsOf i mid = invEventsOf i st.tr := by
  obtain ⟨mid, h1, t, h2, h3⟩ := construct_outer_ok p fuel st i c hc hfree hok hplain
  refine ⟨mid, ?_, ?_⟩
  · rw [h1, List.range_eq_range']
  · rw [h2, invEventsOf_ext i _ t h3]

/-- **A violation found before the call keeps the body from running**: if some invariant is falsy
(and makes no calls), a guarded method call from outside raises it and the body event never appears. -/
theorem C03_violation_before_blocks_body (p : Program) (fuel : Nat) (st : SSt) (i : InstId) (m : MethId)
    (c : ClsDecl) (md : MethDecl) (hc : p.cls? (p.clsOf i) = some c) (hm : c.meths[m]? = some md)
    (hg : md.guarded = true) (hfree : st.instSuspended i = false)
    (k : Nat) (s : Script) (hk : c.invs[k]? = some s) (hfalse : s.truthy = false)
    (hplain : ∀ s ∈ c.invs, s.actions = []) (hfirst : ∀ j s', j < k → c.invs[j]? = some s' → s'.truthy = true)
    (hfuel : c.invs.length + 6 ≤ fuel) :
    (runSpec p fuel st (.act (.callMethod i m))).2 = .violInv i k ∧
    Ev.methBody i m ∉ (runSpec p fuel st (.act (.callMethod i m))).1.tr.drop st.tr.length := by
  obtain ⟨h1, t, h2, h3⟩ := callMethod_violation p fuel st i m c md hc hm hg hfree k s hk hfalse hplain hfirst hfuel
  refine ⟨h1, ?_⟩
  rw [h2, List.drop_left]
  intro hmem
  obtain ⟨n, hn⟩ := h3 _ hmem
  cases hn

end Icontract.Re
