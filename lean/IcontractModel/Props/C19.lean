/-
  C19 - misuse is rejected at the earliest point with the documented error.
  Decision tables stated outright over the model of the decorators' construction /
  application and of the wrapper's first lines.
-/
import IcontractModel.Lemmas.Instances
import IcontractModel.Decor
import IcontractModel.Props.C09
namespace Icontract
open Res

/-- a function with a parameter named `_ARGS` or `_KWARGS` (of any kind) is rejected with TypeError
when a checker is created for it -/
theorem C19_reserved_parameter_rejected_at_decoration (sig : Signature) :
    (∃ why, checkReservedParams sig = .error (.typeError why)) ↔
      (∃ p ∈ sig, p.name = "_ARGS" ∨ p.name = "_KWARGS") := by
  unfold checkReservedParams
  by_cases h1 : (sig.map (·.name)).contains "_ARGS" = true
  · simp only [h1, if_true]
    constructor
    · intro _
      simp only [List.contains_iff_mem, List.mem_map] at h1
      obtain ⟨p, hp, hn⟩ := h1
      exact ⟨p, hp, Or.inl hn⟩
    · intro _; exact ⟨_, rfl⟩
  · by_cases h2 : (sig.map (·.name)).contains "_KWARGS" = true
    · simp only [h1, h2, if_true]
      constructor
      · intro _
        simp only [List.contains_iff_mem, List.mem_map] at h2
        obtain ⟨p, hp, hn⟩ := h2
        exact ⟨p, hp, Or.inr hn⟩
      · intro _; exact ⟨_, rfl⟩
    · simp only [h1, h2]
      constructor
      · rintro ⟨_, h⟩; cases h
      · rintro ⟨p, hp, hn⟩
        exfalso
        simp only [List.contains_iff_mem, List.mem_map, Bool.not_eq_true] at h1 h2
        rcases hn with hn | hn
        · exact absurd (List.contains_iff_mem.mpr (List.mem_map.mpr ⟨p, hp, hn⟩)) (by simpa using h1)
        · exact absurd (List.contains_iff_mem.mpr (List.mem_map.mpr ⟨p, hp, hn⟩)) (by simpa using h2)

/-- a call with a keyword named `_ARGS` / `_KWARGS` fails with TypeError before any user code runs
and without touching the suspension state -/
theorem C19_reserved_keyword_rejected_at_call (ck : Checker) (o : Oracle) (s : IdSet) (call : Call)
    (h : ∃ p ∈ call.kwargs, p.1 = "_ARGS" ∨ p.1 = "_KWARGS") :
    ∃ n, (callSync ck o s call) = (⟨[], .error (.typeErr (.reservedKwarg n))⟩, s) ∧
         (callAsync ck o s call) = (⟨[], .error (.typeErr (.reservedKwarg n))⟩, s) := by
  obtain ⟨p, hp, hn⟩ := h
  unfold callSync callAsync assertNoInvalidKwargs
  by_cases h1 : (call.kwargs.any fun p => p.1 == "_ARGS") = true
  · exact ⟨"_ARGS", by simp [h1, Res.raise]⟩
  · have h2 : (call.kwargs.any fun p => p.1 == "_KWARGS") = true := by
      rcases hn with hn | hn
      · exfalso; apply h1; rw [List.any_eq_true]; exact ⟨p, hp, by simp [hn]⟩
      · rw [List.any_eq_true]; exact ⟨p, hp, by simp [hn]⟩
    exact ⟨"_KWARGS", by simp [h1, h2, Res.raise]⟩

/-- a value bound to `result` or `OLD` on a function with postconditions: TypeError before any site -/
theorem C19_result_or_old_argument_rejected (ck : Checker) (o : Oracle) (call : Call)
    (hp : ck.posts ≠ [])
    (h : (resolved ck call).has "result" = true ∨ (resolved ck call).has "OLD" = true) :
    ∃ n, (checkedSync ck o call) = ⟨[], .error (.typeErr (.reservedResolved n))⟩ ∧
         (checkedAsync ck o call) = ⟨[], .error (.typeErr (.reservedResolved n))⟩ := by
  have hne : (!ck.posts.isEmpty) = true := by
    cases hps : ck.posts with
    | nil => exact absurd hps hp
    | cons a b => rfl
  unfold checkedSync checkedAsync assertResolvedKwargsValid
  unfold resolved at h
  simp only [hne, if_true]
  by_cases h1 : (kwargsFromCall ck.paramNames ck.kwdefaults call.args call.kwargs ck.posOnly).has "result" = true
  · exact ⟨"result", by simp [h1, Res.raise]⟩
  · have h2 : (kwargsFromCall ck.paramNames ck.kwdefaults call.args call.kwargs ck.posOnly).has "OLD" = true := by
      rcases h with h | h
      · exact absurd h h1
      · exact h
    exact ⟨"OLD", by simp [h1, h2, Res.raise]⟩

/-- invariant conditions: coroutine functions and conditions with mandatory parameters other than
`self` are rejected with ValueError when `invariant(...)` is constructed -/
theorem C19_invariant_condition_validated (err : ErrArg) (cond : CondInfo)
    (herr : validateErrorInvariant err = .ok ()) :
    (invariantInit true err cond = .ok true ↔
      (cond.coroFn = false ∧ (cond.mandatory = [] ∨ cond.mandatory = ["self"]))) ∧
    (invariantInit true err cond ≠ .ok true → ∃ why, invariantInit true err cond = .error (.valueError why)) := by
  unfold invariantInit
  simp only [Bool.not_true, Bool.false_eq_true, if_false, herr, Bind.bind, Except.bind]
  by_cases hc : cond.coroFn = true
  · simp [hc]
  · simp only [hc, if_false]
    cases hm : cond.mandatory with
    | nil => simp [Pure.pure, Except.pure]
    | cons a rest =>
      by_cases hs : (a :: rest) = ["self"]
      · simp [hs, Pure.pure, Except.pure]
      · simp [hs, Pure.pure, Except.pure]

/-- snapshots: an unnamed capture with zero or several parameters is a ValueError; with exactly one
parameter the snapshot is named after it -/
theorem C19_snapshot_name_rules (name : Option String) (args : List String) :
    (snapshotName name args = match name, args with
      | some n, _ => .ok n
      | none, [a] => .ok a
      | none, [] => .error (.valueError "You must name a snapshot if no argument was given in the capture function.")
      | none, _ :: _ :: _ => .error (.valueError "You must name a snapshot if multiple arguments were given in the capture function.")) := by
  cases name with
  | some n => rfl
  | none =>
    cases args with
    | nil => rfl
    | cons a rest => cases rest <;> rfl

/-- a snapshot that is not preceded by a postcondition (no checker below it, or a checker with
preconditions only), or that re-uses a name, is a ValueError; otherwise it is appended; a disabled
snapshot changes nothing -/
theorem C19_snapshot_application (n : String) (below : Below) :
    snapshotApply none below = .ok below ∧
    (snapshotApply (some n) below = .ok { below with snapNames := below.snapNames ++ [n] } ↔
      (below.hasChecker = true ∧ below.nPosts ≠ 0 ∧ n ∉ below.snapNames)) ∧
    (¬ (below.hasChecker = true ∧ below.nPosts ≠ 0 ∧ n ∉ below.snapNames) →
      ∃ why, snapshotApply (some n) below = .error (.valueError why)) := by
  refine ⟨rfl, ?_, ?_⟩
  · unfold snapshotApply
    by_cases hc : below.hasChecker = true <;> by_cases hp : below.nPosts = 0 <;>
      by_cases hn : n ∈ below.snapNames <;> simp [hc, hp, hn]
  · intro h
    unfold snapshotApply
    by_cases hc : below.hasChecker = true <;> by_cases hp : below.nPosts = 0 <;>
      by_cases hn : n ∈ below.snapNames <;> simp_all

end Icontract
