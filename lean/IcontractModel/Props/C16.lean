/-
  C16 - deterministic evaluation order and first-failure reporting.  Statements only.
-/
import IcontractModel.Lemmas.Instances
import IcontractModel.Spec.Trace
import IcontractModel.Chain
import IcontractModel.Lemmas.Order
namespace Icontract
open Res List

/-- **Phase order.** The site log of a checked call is
`preconditions ++ captures ++ body ++ postconditions`: four consecutive segments, each containing
only events of its phase (condition calls, truth tests, awaits of conditions, error factories and
message building count as check events of the phase they occur in). -/
theorem C16_sync_phase_order (ck : Checker) (o : Oracle) (call : Call) :
    ∃ t1 t2 t3 t4, (checkedSync ck o call).trace = t1 ++ t2 ++ t3 ++ t4 ∧
      (∀ e ∈ t1, e.isCheck = true) ∧ (∀ e ∈ t2, e.isCapture = true) ∧
      (∀ e ∈ t3, e.isBody = true) ∧ t3.length ≤ 1 ∧ (∀ e ∈ t4, e.isCheck = true) ∧
      condsCalled t1 <+ (ck.pre.flatten.map (·.id)) ∧
      condsCalled t4 <+: (ck.posts.map (·.id)) := by
  rw [checkedSync_eq]
  exact checkedG_phase_order (syncHooks_ok o)
    (fun kw => callsOnce_of_shape (evalPreSync_shape o kw))
    (fun kw => callsOnce_of_shape (evalPostSync_shape o kw))
    (fun c kw => createViolationError_conds o c kw) (fun call => runBody_length o call) ck call

theorem C16_async_phase_order (ck : Checker) (o : Oracle) (call : Call) :
    ∃ t1 t2 t3 t4, (checkedAsync ck o call).trace = t1 ++ t2 ++ t3 ++ t4 ∧
      (∀ e ∈ t1, e.isCheck = true) ∧ (∀ e ∈ t2, e.isCapture = true) ∧
      (∀ e ∈ t3, e.isBody = true) ∧ t3.length ≤ 1 ∧ (∀ e ∈ t4, e.isCheck = true) ∧
      condsCalled t1 <+ (ck.pre.flatten.map (·.id)) ∧
      condsCalled t4 <+: (ck.posts.map (·.id)) := by
  rw [checkedAsync_eq]
  exact checkedG_phase_order (asyncHooks_ok o)
    (fun kw => callsOnce_of_shape (evalCondAsync_shape o kw))
    (fun kw => callsOnce_of_shape (evalCondAsync_shape o kw))
    (fun c kw => createViolationError_conds o c kw) (fun call => runBody_length o call) ck call

/-- **Within a group**: conditions are called in list order, each listed position at most once, and
evaluation stops at the first one that is not truthy — the conditions called are a prefix of the group. -/
theorem C16_group_called_in_order (o : Oracle) (kw : Kwargs) (g : List Contract) :
    condsCalled (checkGroupSync o kw g).trace <+: g.map (·.id) ∧
    condsCalled (checkGroupAsync o kw g).trace <+: g.map (·.id) := by
  rw [checkGroupSync_eq, checkGroupAsync_eq]
  exact ⟨checkGroupG_conds_prefix _ (callsOnce_of_shape (evalPreSync_shape o kw)) g,
    checkGroupG_conds_prefix _ (callsOnce_of_shape (evalCondAsync_shape o kw)) g⟩

/-- ... and with plain truth values exactly the conditions up to and including the first falsy one. -/
theorem C16_group_stops_at_first_falsy (o : Oracle) (kw : Kwargs) (g : List Contract)
    (htot : totalOn false o kw g) (hargs : ∀ c ∈ g, (missingNames c.mandatory kw).isEmpty = true) :
    condsCalled (checkGroupSync o kw g).trace =
      ((g.takeWhile (fun c => condTruthy false o kw c)) ++
        (match firstFalsy false o kw g with | some c => [c] | none => [])).map (·.id) := by
  rw [checkGroupSync_eq, checkGroupG_conds_total _ (condTruthy false o kw) (condFalsy false o kw)
    (evalPreSync_false_iff o kw) (evalPreSync_true_of_falsy o kw)
    (callsOnce_of_shape (evalPreSync_shape o kw)) g htot]
  unfold firstFalsy
  cases g.find? (fun c => !condTruthy false o kw c) <;> rfl

/-- **Groups are tried in order until one holds**: with plain truth values, once a group holds no
condition of a later group is called. -/
theorem C16_groups_until_one_holds (o : Oracle) (kw : Kwargs) (gs1 gs2 : List (List Contract)) (g : List Contract)
    (htot : ∀ g' ∈ gs1 ++ [g], totalOn false o kw g')
    (hg : ∀ c ∈ g, condTruthy false o kw c = true) :
    (assertPreSyncAux o kw none (gs1 ++ g :: gs2)).trace = (assertPreSyncAux o kw none (gs1 ++ [g])).trace ∧
    (assertPreSyncAux o kw none (gs1 ++ g :: gs2)).out = .ok none := by
  simp only [assertPreSyncAux_eq]
  exact assertPreAuxG_until_holds _ (condTruthy false o kw) (condFalsy false o kw)
    (evalPreSync_false_iff o kw) (evalPreSync_true_of_falsy o kw) gs1 gs2 g none
    (fun g' hg' => htot g' (List.mem_append_left _ hg')) hg

/-- **The message is built at most once**, and only for the contract whose violation surfaces. -/
theorem C16_message_built_at_most_once (ck : Checker) (o : Oracle) (call : Call) :
    ((checkedSync ck o call).trace.filterMap Event.msgId).length ≤ 1 ∧
    ((checkedAsync ck o call).trace.filterMap Event.msgId).length ≤ 1 := by
  rw [checkedSync_eq, checkedAsync_eq]
  exact ⟨checkedG_msgs (syncHooks_ok o) (fun kw c => (evalPreSync_shape o kw c).msgs)
      (fun kw c => (evalPostSync_shape o kw c).msgs) (fun c kw => createViolationError_msgs o c kw) ck call,
    checkedG_msgs (asyncHooks_ok o) (fun kw c => (evalCondAsync_shape o kw c).msgs)
      (fun kw c => (evalCondAsync_shape o kw c).msgs) (fun c kw => createViolationError_msgs o c kw) ck call⟩

/-- Inherited contracts precede a class's own (chain reading): the effective lists along a chain are
the concatenation base-first. -/
theorem C16_inherited_before_own (ls : List Level) (l : Level) :
    chainPosts (ls ++ [l]) = chainPosts ls ++ l.posts ∧
    chainSnaps (ls ++ [l]) = chainSnaps ls ++ l.snaps ∧
    chainPre (ls ++ [l]) = chainPre ls ++ (if l.pre.isEmpty then [] else [l.pre]) := by
  refine ⟨?_, ?_, ?_⟩
  · simp [chainPosts, List.flatMap_append]
  · simp [chainSnaps, List.flatMap_append]
  · induction ls with
    | nil => simp [chainPre]
    | cons a as ih => simp only [List.cons_append, chainPre, ih, List.append_assoc]

end Icontract
