/-
  C16 - deterministic evaluation order and first-failure reporting.  Statements only.
-/
import IcontractModel.Lemmas.Instances
import IcontractModel.Spec.Trace
import IcontractModel.Chain
namespace Icontract
open Res List

/-- **Phase order.** The site log of a checked call is
`preconditions ++ captures ++ body ++ postconditions`: four consecutive segments, each containing
only events of its phase (condition calls, truth tests, awaits of conditions, error factories and
message building count as check events of the phase they occur in). -/
theorem C16_sync_phase_order (ck : Checker) (o : Oracle) (call : Call) :
    ∃ t1 t2 t3 t4, (checkedSync ck o call).trace = t1 ++ t2 ++ t3 ++ t4 ∧
      (∀ e ∈ t1, e.isCheck = true) ∧ (∀ e ∈ t2, e.isCapture = true) ∧
      (∀ e ∈ t3, e.isBody = true) ∧ t3.length ≤ 1 ∧ (∀ e ∈ t4, e.isCheck = true) ∧
      condsCalled t1 <+ (ck.pre.flatten.map (·.id)) ∧
      condsCalled t4 <+: (ck.posts.map (·.id)) := by
  sorry

theorem C16_async_phase_order (ck : Checker) (o : Oracle) (call : Call) :
    ∃ t1 t2 t3 t4, (checkedAsync ck o call).trace = t1 ++ t2 ++ t3 ++ t4 ∧
      (∀ e ∈ t1, e.isCheck = true) ∧ (∀ e ∈ t2, e.isCapture = true) ∧
      (∀ e ∈ t3, e.isBody = true) ∧ t3.length ≤ 1 ∧ (∀ e ∈ t4, e.isCheck = true) ∧
      condsCalled t1 <+ (ck.pre.flatten.map (·.id)) ∧
      condsCalled t4 <+: (ck.posts.map (·.id)) := by
  sorry

/-- **Within a group**: conditions are called in list order, each listed position at most once, and
evaluation stops at the first one that is not truthy — the conditions called are a prefix of the group. -/
theorem C16_group_called_in_order (o : Oracle) (kw : Kwargs) (g : List Contract) :
    condsCalled (checkGroupSync o kw g).trace <+: g.map (·.id) ∧
    condsCalled (checkGroupAsync o kw g).trace <+: g.map (·.id) := by
  sorry

/-- ... and with plain truth values exactly the conditions up to and including the first falsy one. -/
theorem C16_group_stops_at_first_falsy (o : Oracle) (kw : Kwargs) (g : List Contract)
    (htot : totalOn false o kw g) (hargs : ∀ c ∈ g, (missingNames c.mandatory kw).isEmpty = true) :
    condsCalled (checkGroupSync o kw g).trace =
      ((g.takeWhile (fun c => condTruthy false o kw c)) ++
        (match firstFalsy false o kw g with | some c => [c] | none => [])).map (·.id) := by
  sorry

/-- **Groups are tried in order until one holds**: with plain truth values, once a group holds no
condition of a later group is called. -/
theorem C16_groups_until_one_holds (o : Oracle) (kw : Kwargs) (gs1 gs2 : List (List Contract)) (g : List Contract)
    (htot : ∀ g' ∈ gs1 ++ [g], totalOn false o kw g')
    (hg : ∀ c ∈ g, condTruthy false o kw c = true) :
    (assertPreSyncAux o kw none (gs1 ++ g :: gs2)).trace = (assertPreSyncAux o kw none (gs1 ++ [g])).trace ∧
    (assertPreSyncAux o kw none (gs1 ++ g :: gs2)).out = .ok none := by
  sorry

/-- **The message is built at most once**, and only for the contract whose violation surfaces. -/
theorem C16_message_built_at_most_once (ck : Checker) (o : Oracle) (call : Call) :
    ((checkedSync ck o call).trace.filterMap Event.msgId).length ≤ 1 ∧
    ((checkedAsync ck o call).trace.filterMap Event.msgId).length ≤ 1 := by
  sorry

/-- Inherited contracts precede a class's own (chain reading): the effective lists along a chain are
the concatenation base-first. -/
theorem C16_inherited_before_own (ls : List Level) (l : Level) :
    chainPosts (ls ++ [l]) = chainPosts ls ++ l.posts ∧
    chainSnaps (ls ++ [l]) = chainSnaps ls ++ l.snaps ∧
    chainPre (ls ++ [l]) = chainPre ls ++ (if l.pre.isEmpty then [] else [l.pre]) := by
  sorry

end Icontract
