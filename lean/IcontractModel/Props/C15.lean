/-
  C15 - disabled contracts are absent; enabled ones do not depend on interpreter mode.
  The quantifier is a finite table (4 decorators x 4 `enabled` settings x 3 interpreter
  modes x 3 states of ICONTRACT_SLOW): the theorems below cover the *whole* table by case
  analysis (`cases ... <;> decide`), which is a proof, not a sample.
-/
import IcontractModel.Config
import IcontractModel.Decor
namespace Icontract

/-- A decorator that is not enabled returns the very object, adds no attribute, stores no condition. -/
theorem C15_disabled_is_absent (k : DecoKind) :
    applyDecorator k false = { sameObject := true, attrsAdded := false, conditionStored := false } := by
  cases k <;> rfl

/-- when exactly is a decorator enabled: the full table -/
theorem C15_enabled_table (m : Mode) (e : EnvSlow) (a : EnabledArg) :
    enabledValue m e a = true ↔
      (a = .explicitTrue ∨ (a = .dflt ∧ m = .normal) ∨ (a = .slow ∧ m = .normal ∧ e = .nonEmpty)) := by
  cases m <;> cases e <;> cases a <;> simp [enabledValue, slowFlag, Mode.debug]

/-- the default is off under `-O`/`-OO`; SLOW contracts are off unless ICONTRACT_SLOW is non-empty in a
non-optimised interpreter -/
theorem C15_defaults (m : Mode) (e : EnvSlow) :
    (m ≠ .normal → enabledValue m e .dflt = false ∧ enabledValue m e .slow = false) ∧
    (e ≠ .nonEmpty → enabledValue m e .slow = false) ∧
    enabledValue m e .explicitFalse = false := by
  cases m <;> cases e <;> simp [enabledValue, slowFlag, Mode.debug]

/-- an explicitly enabled contract is enabled in every interpreter mode and environment -/
theorem C15_explicit_enable_ignores_mode (m m' : Mode) (e e' : EnvSlow) (k : DecoKind) :
    enabledValue m e .explicitTrue = enabledValue m' e' .explicitTrue ∧
    applyDecorator k (enabledValue m e .explicitTrue) = applyDecorator k (enabledValue m' e' .explicitTrue) := by
  simp [enabledValue]

/-- disabled construction validates nothing and builds nothing, for every decorator -/
theorem C15_disabled_construction_is_inert (err : ErrArg) (cond : CondInfo) (name : Option String) (args : List String) :
    requireInit false err = .ok false ∧ ensureInit false err = .ok false ∧
    invariantInit false err cond = .ok false ∧ snapshotInit false name args = .ok none := by
  simp [requireInit, ensureInit, invariantInit, snapshotInit]

/-- a library assertion whose condition holds never changes behaviour between modes -/
theorem C15_true_asserts_are_mode_independent (m m' : Mode) (cond : Bool) (h : cond = true) :
    assertStep m cond = assertStep m' cond := by
  subst h; cases m <;> cases m' <;> rfl

end Icontract
