/-
  C04 - inherited contracts combine per Liskov: pre OR-ed, post and invariants AND-ed.
  Statements about the heap model of the metaclass (Meta.lean).  The full override-chain
  Spec for arbitrary DAGs (Spec/Override.lean) is the oracle of the correspondence run; what is
  proved here, for every world / heap / namespace, are the collapse rules themselves and the
  inductive step that turns them into the chain reading used by C01/C02/C16.
-/
import IcontractModel.Meta
import IcontractModel.Spec.Override
import IcontractModel.Lemmas.MetaFrame
import IcontractModel.Spec.ChainHistory
import IcontractModel.Lemmas.ChainLemmas
import IcontractModel.Spec.DagHistory
import IcontractModel.Lemmas.DagLemmas
import IcontractModel.Spec.DagHistoryInv
import IcontractModel.Lemmas.DagInvLemmas
namespace Icontract.Meta

/-- **Collapse rule** (`_decorate_namespace_function`, inherited members): when the collapse is
accepted and there is something to install, the function's checker shows exactly
`base groups ++ own groups`, `base snapshots ++ own snapshots`, `base postconditions ++ own
postconditions` - inherited first.  The groups collected from the bases are *copied*: the outer list
holds `bPre.length` fresh cells (the consecutive new indices) followed by the function's own group
cells, and - whenever the collected and own group references point into the heap - the group
*contents* shown are the base groups' contents followed by the own groups' contents. -/
theorem C04_collapse_is_base_then_own (w w' : World) (key : String) (f : FnId)
    (have_ : Bool) (bPre bSnaps bPosts : List Nat)
    (hok : decorateOne w key f true (have_, bPre, bSnaps, bPosts) = .ok w')
    (hsome : ¬ ((bPre ++ (match w.checker? f with | some ck => w.heap.get ck.pre | none => [])).isEmpty = true ∧
               (bPosts ++ (match w.checker? f with | some ck => w.heap.get ck.posts | none => [])).isEmpty = true)) :
    ∃ ck', w'.checker? f = some ck' ∧
      w'.heap.get ck'.pre = List.range' w.heap.length bPre.length ++
        (match w.checker? f with | some ck => w.heap.get ck.pre | none => []) ∧
      ((∀ g ∈ bPre ++ (match w.checker? f with | some ck => w.heap.get ck.pre | none => []), g < w.heap.length) →
        preOf w' f =
          (bPre ++ (match w.checker? f with | some ck => w.heap.get ck.pre | none => [])).map w.heap.get) ∧
      w'.heap.get ck'.snaps = bSnaps ++ (match w.checker? f with | some ck => w.heap.get ck.snaps | none => []) ∧
      w'.heap.get ck'.posts = bPosts ++ (match w.checker? f with | some ck => w.heap.get ck.posts | none => []) := by
  rcases decorateOne_cases w w' key f true have_ bPre bSnaps bPosts hok with ⟨_, h | h⟩ | rfl
  · cases h
  · exact absurd h hsome
  · have hck := installed_checker (copyCells w bPre).1 f ((copyCells w bPre).2 ++ ownPre w f)
      (bSnaps ++ ownSnaps w f) (bPosts ++ ownPosts w f)
    have hh := installed_heap (copyCells w bPre).1 f ((copyCells w bPre).2 ++ ownPre w f)
      (bSnaps ++ ownSnaps w f) (bPosts ++ ownPosts w f)
    have fr12 := installed_frame (copyCells w bPre).1 f ((copyCells w bPre).2 ++ ownPre w f)
      (bSnaps ++ ownSnaps w f) (bPosts ++ ownPosts w f)
    have hp01 := copyCells_hpres w bPre
    refine ⟨_, hck, ?_, ?_, hh.2.1, hh.2.2⟩
    · rw [hh.1, copyCells_snd]; rfl
    · intro hwf
      simp only [preOf, hck, hh.1, List.map_append]
      congr 1
      · rw [← copyCells_contents w bPre (fun g hg => hwf g (List.mem_append_left _ hg))]
        exact List.map_congr_left (fun g hg => fr12.heap.1 g (copyCells_snd_mem w bPre g hg).2)
      · exact List.map_congr_left (fun g hg =>
          (hp01.trans fr12.heap).1 g (hwf g (List.mem_append_right _ hg)))

/-- **Constructors are not inherited**: for `__init__` / `__new__` nothing is collapsed, whatever the bases carry. -/
theorem C04_constructor_contracts_not_inherited (w : World) (bases : List ClsId) (f : FnId) :
    decorateMember w bases "__init__" (.func f) = .ok w ∧ decorateMember w bases "__new__" (.func f) = .ok w := by
  constructor <;> simp [decorateMember, decorateOne]

/-- **Weakening without a base precondition is rejected** when the class is created. -/
theorem C04_weaken_without_base_precondition_rejected (w : World) (key : String) (f : FnId)
    (bSnaps bPosts : List Nat) (ck : CheckerObj)
    (hck : w.checker? f = some ck) (hown : w.heap.get ck.pre ≠ []) :
    decorateOne w key f true (true, [], bSnaps, bPosts) = .error (.typeErrorWeaken key) := by
  have : (w.heap.get ck.pre).isEmpty = false := by
    cases h : w.heap.get ck.pre with
    | nil => exact absurd h hown
    | cons _ _ => rfl
  simp [decorateOne, hck, this]

/-- **An ancestor that provides the member with no precondition at all makes it accept every
call**: as soon as one direct base provides the member without a checker, or with an empty
precondition list, no precondition group is collected from any base. -/
theorem C04_unconstrained_base_accepts_everything (w : World) (acc : BaseAcc) (ck : Option CheckerObj)
    (h : ck = none ∨ ∃ c, ck = some c ∧ w.heap.get c.pre = []) :
    (acc.add w ck).result.1 = true ∧ (acc.add w ck).result.2.1 = [] := by
  rcases h with rfl | ⟨c, rfl, hc⟩
  · simp [BaseAcc.add, BaseAcc.result]
  · simp [BaseAcc.add, BaseAcc.result, hc]

/-- ... and it stays so whatever further bases contribute -/
theorem C04_accept_all_is_sticky (w : World) (acc : BaseAcc) (ck : Option CheckerObj)
    (h : acc.acceptAll = true) : (acc.add w ck).acceptAll = true ∧ (acc.add w ck).result.2.1 = [] := by
  cases ck with
  | none => simp [BaseAcc.add, BaseAcc.result]
  | some c => simp [BaseAcc.add, BaseAcc.result, h]

/-- **Invariants of all bases are merged** into a *fresh* list (never a base's list object): the new
reference lies beyond every existing cell and holds the concatenation of the bases' lists. -/
theorem C04_invariants_merged_into_fresh_list (w w' : World) (bases : List ClsId) (d : InvDunder) (r : Ref)
    (h : collapseInv w bases d = (w', some r)) :
    r = w.heap.length ∧
    w'.heap.get r = bases.foldl (fun acc b => match lookupInv w b d with
      | some rb => acc ++ w.heap.get rb
      | none => acc) [] ∧
    (∀ r' < w.heap.length, w'.heap.get r' = w.heap.get r') := by
  unfold collapseInv at h
  simp only [] at h
  split at h
  · cases h
  · simp only [Prod.mk.injEq, Option.some.injEq] at h
    obtain ⟨rfl, rfl⟩ := h
    exact ⟨rfl, Heap.get_alloc_self _ _, fun r' hr' => Heap.get_alloc_lt _ _ r' hr'⟩

/-- a class whose bases carry invariant lists always gets its own (the repaired aliasing, F8) -/
theorem C04_subclass_gets_own_invariant_lists (w : World) (bases : List ClsId) (d : InvDunder)
    (h : ∃ b ∈ bases, (lookupInv w b d).isSome = true) :
    ∃ w' r, collapseInv w bases d = (w', some r) := by
  have hany : bases.any (fun b => (lookupInv w b d).isSome) = true := by
    obtain ⟨b, hb, hs⟩ := h
    exact List.any_eq_true.mpr ⟨b, hb, hs⟩
  unfold collapseInv
  simp only [hany, Bool.not_true, Bool.and_false, Bool.false_eq_true, if_false]
  exact ⟨_, _, rfl⟩

/-! ### the chain reading, for chains of any depth -/

/-- **Liskov combination along a chain of any depth.**  Start from the empty world and define a
single-inheritance chain of classes (ids `1, 2, ...`), each overriding the ordinary member `key` with its own
function (distinct function ids) carrying at least one own precondition.  Then every definition is accepted,
and for EVERY level `i` of the chain - not only the last - introspection of that level's function shows
* as preconditions the groups of levels `0..i`, inherited first (the disjunction of the chain's groups),
* as postconditions the concatenation of the postconditions of levels `0..i` (their conjunction),
so that later definitions never change what an earlier class demands or promises. -/
theorem C04_chain_effective_contracts (key : String) (hkey : key ≠ "__init__" ∧ key ≠ "__new__")
    (ls : List ChainLevel) (hf : (ls.map (·.f)).Nodup) (hpre : ∀ l ∈ ls, l.pre ≠ []) :
    ∃ w, buildChain key {} none 1 ls = .ok w ∧
      ∀ i (hi : i < ls.length),
        preOf w (ls[i]).f = (upTo ls i).map (·.pre) ∧
        postsOf w (ls[i]).f = (upTo ls i).flatMap (·.posts) := by
  obtain ⟨w, hb, inv⟩ := buildChain_inv key hkey ls [] {} (ChainInv.empty key)
    (by rw [List.nil_append]; exact hf) hpre
  rw [List.nil_append] at inv
  exact ⟨w, hb, fun i hi => inv.observe i hi⟩

/-- non-vacuity: a concrete chain of three levels, evaluated by the kernel -/
example :
    (match buildChain "m" {} none 1 [⟨10, [1, 2], [7]⟩, ⟨11, [3], []⟩, ⟨12, [4], [8, 9]⟩] with
     | .ok w => (preOf w 12, postsOf w 12, preOf w 10)
     | .error _ => ([], [], [])) = ([[1, 2], [3], [4]], [7, 8, 9], [[1, 2]]) := by
  decide

/-! ### the general reading, for inheritance graphs of any shape -/

/-- **Liskov combination along an arbitrary inheritance graph.**  Start from the empty world and define classes
`1, 2, ...` one after the other, each with any earlier classes as bases (multiple inheritance, diamonds, gaps) and any
ordinary members bound to fresh function objects with their own preconditions (one group) and postconditions.  If the
history is accepted, then for EVERY member of EVERY class introspection shows exactly the declarative effective
contracts: the precondition groups of `specPreAt` (no group at all when some ancestor accepts every call) and the
postconditions of `specListAt` - for the final world, i.e. later definitions never changed an earlier class. -/
theorem C04_dag_effective_contracts (ds : List ClassDef) (hwf : HistWf ds) (w : World)
    (h : buildHist {} 1 ds = .ok w) :
    ∀ i (hi : i < ds.length) (key : String) (l : ChainLevel), (key, l) ∈ (ds[i]).members →
      preOf w l.f = ((specPreAt w (declsOf ds) (ds.length + 1) (i + 1) key 0).getD []) ∧
      postsOf w l.f = specListAt w (declsOf ds).ownPosts (ds.length + 1) (i + 1) key 0 :=
  buildHist_observe ds hwf w h

/-- non-vacuity: a diamond with a gap, evaluated by the kernel -/
example :
    (match buildHist {} 1 [⟨[], [("m", ⟨10, [1], [7]⟩)]⟩, ⟨[1], [("m", ⟨12, [2], []⟩)]⟩, ⟨[1], []⟩,
                           ⟨[2, 3], [("m", ⟨14, [3, 4], [5]⟩)]⟩] with
     | .ok w => (preOf w 14, postsOf w 14, preOf w 10)
     | .error _ => ([], [], [])) = ([[1], [2], [1], [3, 4]], [7, 7, 5], [[1]]) := by decide

/-- ... and this history is well-formed, so the hypotheses of the theorem are satisfiable -/
example : HistWf [⟨[], [("m", ⟨10, [1], [7]⟩)]⟩, ⟨[1], [("m", ⟨12, [2], []⟩)]⟩, ⟨[1], []⟩,
                  ⟨[2, 3], [("m", ⟨14, [3, 4], [5]⟩)]⟩] := by
  unfold HistWf
  decide

/-! ### class invariants over inheritance graphs of any shape -/

/-- **The invariants of a class are exactly those its ancestors (and itself) declare** - over an arbitrary inheritance
graph, for each of the three lists (`__invariants__`, `__invariants_on_call__`, `__invariants_on_setattr__`), as sets:
nothing is lost (every ancestor's invariant binds the class: Liskov), and nothing foreign arrives (an invariant declared on a
class that is not among the ancestors - a sibling, a subclass, an unrelated class - never appears: C17 separation).
In diamonds an ancestor's invariant may be listed more than once; the statement is about membership. -/
theorem C04_dag_invariants_are_the_ancestors (ds : List ClassDefI) (hwf : HistWfI ds) (w : World)
    (h : buildHistI {} 1 ds = .ok w) :
    ∀ i (hi : i < ds.length) (d : InvDunder) (c : CId),
      c ∈ invOf w (i + 1) d ↔ ∃ a ∈ mroOf w (i + 1), c ∈ ownInvOn ds (a - 1) d :=
  buildHistI_observe ds hwf w h

/-- non-vacuity: a diamond whose classes declare invariants for different events, evaluated by the kernel -/
example :
    (match buildHistI {} 1 [⟨[], [("m", ⟨10, [1], [7]⟩)], [(100, ⟨true, false⟩)]⟩,
                            ⟨[1], [("m", ⟨12, [2], []⟩)], [(101, ⟨false, true⟩), (102, ⟨true, true⟩)]⟩,
                            ⟨[1], [], []⟩,
                            ⟨[2, 3], [("n", ⟨14, [], [5]⟩)], [(103, ⟨true, false⟩)]⟩] with
     | .ok w => (invOf w 4 .all, invOf w 4 .onCall, invOf w 4 .onSetattr, invOf w 3 .all, invOf w 2 .all, mroOf w 4)
     | .error _ => ([], [], [], [], [], [])) =
    ([100, 101, 102, 100, 103], [100, 102, 100, 103], [101, 102], [100], [100, 101, 102], [4, 2, 3, 1]) := by
  -- `add_invariant_checks` inspects member names with `String.startsWith`, which the elaborator's evaluator does not
  -- unfold: the proposition is decided by kernel reduction (plain definitional unfolding, no compiled code, no axiom)
  decide +kernel

/-- ... and this history is well-formed, so the hypotheses of the theorem are satisfiable -/
example : HistWfI [⟨[], [("m", ⟨10, [1], [7]⟩)], [(100, ⟨true, false⟩)]⟩,
                   ⟨[1], [("m", ⟨12, [2], []⟩)], [(101, ⟨false, true⟩), (102, ⟨true, true⟩)]⟩,
                   ⟨[1], [], []⟩,
                   ⟨[2, 3], [("n", ⟨14, [], [5]⟩)], [(103, ⟨true, false⟩)]⟩] := by
  unfold HistWfI
  decide

end Icontract.Meta
