/-
  C11 - checking is re-armed after every outcome: no sticky suspension, no lost error.  Statements only.
-/
import IcontractModel.Lemmas.Instances
import IcontractModel.Spec.Trace
import IcontractModel.Lemmas.State
import IcontractModel.Lemmas.Errors
namespace Icontract
open Res

/-- `IdSet`s handled by the wrappers are duplicate-free lists -/
def IdSet.WF (s : IdSet) : Prop := s.Nodup

/-- **The suspension state is restored after every outcome**: for every checker, every oracle (every
site may answer or raise anything), every call that is not an own re-entry, the in-progress set after
the call equals the set before it — whatever the outcome (return, violation, any exception). -/
theorem C11_state_restored (ck : Checker) (o : Oracle) (s : IdSet) (call : Call)
    (hs : s.contains ck.fid = false) :
    (callSync ck o s call).2 = s ∧ (callAsync ck o s call).2 = s := by
  exact ⟨callSync_state ck o s call hs, callAsync_state ck o s call hs⟩

/-- Lifted to histories: after any sequence of (possibly faulted) calls of checkers that are not in
progress, the state is the initial one, so a probe call behaves as in a fresh context. -/
theorem C11_state_restored_after_history (calls : List (Checker × Oracle × Call)) (s : IdSet)
    (hs : ∀ x ∈ calls, s.contains x.1.fid = false) :
    calls.foldl (fun st x => (callSync x.1 x.2.1 st x.2.2).2) s = s ∧
    calls.foldl (fun st x => (callAsync x.1 x.2.1 st x.2.2).2) s = s := by
  constructor
  · exact foldl_state_fixed _ s calls (fun x hx => callSync_state x.1 x.2.1 s x.2.2 (hs x hx))
  · exact foldl_state_fixed _ s calls (fun x hx => callAsync_state x.1 x.2.1 s x.2.2 (hs x hx))

/-- the verdict of a call does not depend on the in-progress ids of other functions -/
theorem C11_probe_independent_of_foreign_ids (ck : Checker) (o : Oracle) (s s' : IdSet) (call : Call)
    (hs : s.contains ck.fid = false) (hs' : s'.contains ck.fid = false) :
    (callSync ck o s call).1 = (callSync ck o s' call).1 ∧ (callAsync ck o s call).1 = (callAsync ck o s' call).1 := by
  constructor
  · rw [callSync_result ck o s call hs, callSync_result ck o s' call hs']
  · rw [callAsync_result ck o s call hs, callAsync_result ck o s' call hs']

/-- **No lost error, conditions**: whatever a precondition evaluation raises is either a library
error about the contract's arguments/coroutine-ness, the very exception object the condition raised,
the very object its truth test raised (non-`Exception`), or `ValueError` chained to it (`Exception`). -/
theorem C11_sync_condition_error_surfaces (o : Oracle) (kw : Kwargs) (c : Contract) (r : Raised)
    (h : (evalPreSync o kw c).out = .error r) :
    (∃ ns, r = .typeErr (.missingCondArgs c.id ns)) ∨
    (∃ k, r = .valueErr k none) ∨
    (∃ e, o.cond c.id = .raises e ∧ r = .user e) ∨
    (∃ v e, o.cond c.id = .val v (.raises e) ∧
      ((e.isException = true ∧ r = .valueErr (.negateFailed c.id) (some e)) ∨ (e.isException = false ∧ r = .user e))) := by
  exact evalPreSync_error o kw c r h

theorem C11_async_condition_error_surfaces (o : Oracle) (kw : Kwargs) (c : Contract) (r : Raised)
    (h : (evalCondAsync o kw c).out = .error r) :
    (∃ ns, r = .typeErr (.missingCondArgs c.id ns)) ∨
    (∃ e, (o.cond c.id = .raises e ∨ o.cond c.id = .coro (.raises e)) ∧ r = .user e) ∨
    (∃ v e, (o.cond c.id = .val v (.raises e) ∨ o.cond c.id = .coro (.val v (.raises e))) ∧
      ((e.isException = true ∧ r = .valueErr (.negateFailed c.id) (some e)) ∨ (e.isException = false ∧ r = .user e))) := by
  exact evalCondAsync_error o kw c r h

/-- **No lost error, error creation**: building the violation error either yields the contract's
error, or surfaces the factory's / message generation's own exception (as that very object, or as
the documented `RuntimeError` chained to it), or a library TypeError. -/
theorem C11_error_creation_error_surfaces (o : Oracle) (c : Contract) (kw : Kwargs) (r : Raised)
    (h : (createViolationError o c kw).out = .error r) :
    (∃ k, r = .typeErr k) ∨ r = .notImplemented c.id ∨
    (∃ e, o.fac c.id = .raises e ∧ r = .user e) ∨
    (∃ e, o.msg c.id = .raises e ∧ (r = .user e ∨ (e.isException = true ∧ r = .runtimeErr c.id e))) := by
  exact createViolationError_error o c kw r h

/-- **No lost error, body**: an exception raised by the body is the outcome of the checked path
whenever the body is reached (already C02), and an exception raised by a capture surfaces as itself. -/
theorem C11_capture_error_surfaces (o : Oracle) (kw : Kwargs) (acc : List (String × Id)) (ss : List Snapshot) (r : Raised)
    (h : (captureOldSync o kw acc ss).out = .error r) :
    (∃ k, r = .typeErr k) ∨ (∃ k, r = .valueErr k none) ∨ (∃ s ∈ ss, ∃ e, o.capture s.id = .raises e ∧ r = .user e) := by
  exact captureOldSync_error o kw acc ss r h

end Icontract
