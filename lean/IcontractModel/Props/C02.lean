/-
  C02 - postconditions gate every normal return; results and exceptions pass unchanged.
  Statements only (helper lemmas in Lemmas/).  Quantifiers: every checker, oracle, call.
  The hypotheses `hpre`/`hcap` say "the call got as far as the body": the precondition
  phase accepted and the captures (if any are due) succeeded with `old`.
-/
import IcontractModel.Lemmas.Instances
import IcontractModel.Lemmas.Post
import IcontractModel.Props.C01
import IcontractModel.Spec.Trace
namespace Icontract
open Res

/-- the keyword arguments in force when the body is called -/
def kwAtBody (ck : Checker) (kw : Kwargs) (old : List (String × Id)) : Kwargs :=
  if !ck.posts.isEmpty && !ck.snaps.isEmpty then kw.set "OLD" (.old old) else kw

/-- "the call reaches the body" for the sync wrapper -/
structure ReachesBodySync (ck : Checker) (o : Oracle) (call : Call) (old : List (String × Id)) : Prop where
  valid : assertResolvedKwargsValid (!ck.posts.isEmpty) (resolved ck call) = none
  pre : (assertPreSync o (resolved ck call) ck.pre).out = .ok none
  cap : (!ck.posts.isEmpty && !ck.snaps.isEmpty) = true →
        (captureOldSync o (resolved ck call) [] ck.snaps).out = .ok old

structure ReachesBodyAsync (ck : Checker) (o : Oracle) (call : Call) (old : List (String × Id)) : Prop where
  valid : assertResolvedKwargsValid (!ck.posts.isEmpty) (resolved ck call) = none
  pre : (assertPreAsync o (resolved ck call) ck.pre).out = .ok none
  cap : (!ck.posts.isEmpty && !ck.snaps.isEmpty) = true →
        (captureOldAsync o (resolved ck call) [] ck.snaps).out = .ok old

/-- If the body raises, that very exception reaches the caller and no postcondition is evaluated:
the trace ends with the body event. -/
theorem C02_sync_body_exception_passes_unchanged (ck : Checker) (o : Oracle) (call : Call)
    (old : List (String × Id)) (h : ReachesBodySync ck o call old) (e : Exc) (hb : o.body = .raises e) :
    (checkedSync ck o call).out = .error (.user e) ∧
    (checkedSync ck o call).trace.getLast? = some (.body call.args call.kwargs) := by
  rw [checkedSync_eq]
  exact checkedG_body_exception (syncHooks o) ck call old h.valid
    (syncHooks_pre_none o _ _ h.pre) h.cap o rfl e hb

/-- If the body returns `v` and every postcondition holds (evaluated against the arguments, `result`
and `OLD`), the caller receives the very object `v`. -/
theorem C02_sync_returns_body_result (ck : Checker) (o : Oracle) (call : Call)
    (old : List (String × Id)) (h : ReachesBodySync ck o call old) (v : Id) (hb : o.body = .ret v)
    (hall : cnfHolds false o ((kwAtBody ck (resolved ck call) old).set "result" (.obj v)) ck.posts) :
    (checkedSync ck o call).out = .ok v := by
  rw [checkedSync_eq]
  exact checkedG_returns (syncHooks o) ck call old h.valid
    (syncHooks_pre_none o _ _ h.pre) h.cap (condTruthy false o)
    (evalPostSync_false_iff o) v (runBody_out_ret o call v hb) hall

/-- If some postcondition is falsy (plain truth values), the error of the *first* falsy one is raised
instead of a return. -/
theorem C02_sync_first_falsy_postcondition_raises (ck : Checker) (o : Oracle) (call : Call)
    (old : List (String × Id)) (h : ReachesBodySync ck o call old) (v : Id) (hb : o.body = .ret v)
    (htot : totalOn false o ((kwAtBody ck (resolved ck call) old).set "result" (.obj v)) ck.posts)
    (c : Contract)
    (hc : firstFalsy false o ((kwAtBody ck (resolved ck call) old).set "result" (.obj v)) ck.posts = some c)
    (err : Raised)
    (herr : errorOf o ((kwAtBody ck (resolved ck call) old).set "result" (.obj v)) c = some err) :
    (checkedSync ck o call).out = .error err := by
  rw [checkedSync_eq]
  exact checkedG_first_falsy (syncHooks o) ck call old h.valid
    (syncHooks_pre_none o _ _ h.pre) h.cap (condTruthy false o) (condFalsy false o)
    (evalPostSync_false_iff o) (evalPostSync_true_of_falsy o) v (runBody_out_ret o call v hb)
    htot c hc err (createViolationError_errorOf o _ c err herr)

/-- The caller never gets a normal return unless every postcondition answered truthy (all oracles). -/
theorem C02_sync_return_only_if_posts_hold (ck : Checker) (o : Oracle) (call : Call) (v : Id)
    (hret : (checkedSync ck o call).out = .ok v) :
    o.body = .ret v ∧ ∃ old, cnfHolds false o ((kwAtBody ck (resolved ck call) old).set "result" (.obj v)) ck.posts := by
  rw [checkedSync_eq] at hret
  obtain ⟨hb, old, hall⟩ := checkedG_return_only_if (syncHooks o) ck call (condTruthy false o)
    (evalPostSync_false_iff o) v hret
  exact ⟨runBody_out_ok o call v hb, old, hall⟩

theorem C02_async_body_exception_passes_unchanged (ck : Checker) (o : Oracle) (call : Call)
    (old : List (String × Id)) (h : ReachesBodyAsync ck o call old) (e : Exc) (hb : o.body = .raises e) :
    (checkedAsync ck o call).out = .error (.user e) ∧
    (checkedAsync ck o call).trace.getLast? = some (.body call.args call.kwargs) := by
  rw [checkedAsync_eq]
  exact checkedG_body_exception (asyncHooks o) ck call old h.valid
    (asyncHooks_pre_none o _ _ h.pre) h.cap o rfl e hb

theorem C02_async_returns_body_result (ck : Checker) (o : Oracle) (call : Call)
    (old : List (String × Id)) (h : ReachesBodyAsync ck o call old) (v : Id) (hb : o.body = .ret v)
    (hall : cnfHolds true o ((kwAtBody ck (resolved ck call) old).set "result" (.obj v)) ck.posts) :
    (checkedAsync ck o call).out = .ok v := by
  rw [checkedAsync_eq]
  exact checkedG_returns (asyncHooks o) ck call old h.valid
    (asyncHooks_pre_none o _ _ h.pre) h.cap (condTruthy true o)
    (evalCondAsync_false_iff o) v (runBody_out_ret o call v hb) hall

theorem C02_async_first_falsy_postcondition_raises (ck : Checker) (o : Oracle) (call : Call)
    (old : List (String × Id)) (h : ReachesBodyAsync ck o call old) (v : Id) (hb : o.body = .ret v)
    (htot : totalOn true o ((kwAtBody ck (resolved ck call) old).set "result" (.obj v)) ck.posts)
    (c : Contract)
    (hc : firstFalsy true o ((kwAtBody ck (resolved ck call) old).set "result" (.obj v)) ck.posts = some c)
    (err : Raised)
    (herr : errorOf o ((kwAtBody ck (resolved ck call) old).set "result" (.obj v)) c = some err) :
    (checkedAsync ck o call).out = .error err := by
  rw [checkedAsync_eq]
  exact checkedG_first_falsy (asyncHooks o) ck call old h.valid
    (asyncHooks_pre_none o _ _ h.pre) h.cap (condTruthy true o) (condFalsy true o)
    (evalCondAsync_false_iff o) (evalCondAsync_true_of_falsy o) v (runBody_out_ret o call v hb)
    htot c hc err (createViolationError_errorOf o _ c err herr)

theorem C02_async_return_only_if_posts_hold (ck : Checker) (o : Oracle) (call : Call) (v : Id)
    (hret : (checkedAsync ck o call).out = .ok v) :
    o.body = .ret v ∧ ∃ old, cnfHolds true o ((kwAtBody ck (resolved ck call) old).set "result" (.obj v)) ck.posts := by
  rw [checkedAsync_eq] at hret
  obtain ⟨hb, old, hall⟩ := checkedG_return_only_if (asyncHooks o) ck call (condTruthy true o)
    (evalCondAsync_false_iff o) v hret
  exact ⟨runBody_out_ok o call v hb, old, hall⟩

end Icontract
