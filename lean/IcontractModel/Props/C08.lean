/-
  C08 - OLD snapshots capture pre-state once, after the preconditions and before the body.
  Statements only.
-/
import IcontractModel.Lemmas.Instances
import IcontractModel.Lemmas.Capture
import IcontractModel.Spec.Trace
namespace Icontract
open Res List

/-- The capture loop calls the captures in list order, each at most once: the captured ids are a
prefix of the snapshot list (the whole list when no capture fails). -/
theorem C08_sync_captures_in_order_once (o : Oracle) (kw : Kwargs) (acc : List (String × Id)) (ss : List Snapshot) :
    capturesOf (captureOldSync o kw acc ss).trace <+: ss.map (·.id) := by
  exact (captureOldSync_spec o kw acc ss).1

theorem C08_async_captures_in_order_once (o : Oracle) (kw : Kwargs) (acc : List (String × Id)) (ss : List Snapshot) :
    capturesOf (captureOldAsync o kw acc ss).trace <+: ss.map (·.id) := by
  exact (captureOldAsync_spec o kw acc ss).1

/-- When the captures succeed, `OLD` maps every snapshot name to the object its capture returned
(sync: return value; async: awaited value) — a function of the captures' answers only, hence
independent of whatever the body does afterwards. -/
theorem C08_sync_old_is_captured_values (o : Oracle) (kw : Kwargs) (ss : List Snapshot) (old : List (String × Id))
    (h : (captureOldSync o kw [] ss).out = .ok old) :
    old = expectedOld false o ss ∧ capturesOf (captureOldSync o kw [] ss).trace = ss.map (·.id) := by
  obtain ⟨h1, h2⟩ := (captureOldSync_spec o kw [] ss).2 old h
  exact ⟨by simpa using h1, h2⟩

theorem C08_async_old_is_captured_values (o : Oracle) (kw : Kwargs) (ss : List Snapshot) (old : List (String × Id))
    (h : (captureOldAsync o kw [] ss).out = .ok old) :
    old = expectedOld true o ss ∧ capturesOf (captureOldAsync o kw [] ss).trace = ss.map (·.id) := by
  obtain ⟨h1, h2⟩ := (captureOldAsync_spec o kw [] ss).2 old h
  exact ⟨by simpa using h1, h2⟩

/-- Nothing is captured unless the callable has both postconditions and snapshots. -/
theorem C08_no_capture_without_postconditions (ck : Checker) (o : Oracle) (call : Call)
    (h : ck.posts = [] ∨ ck.snaps = []) :
    ¬ captured (checkedSync ck o call).trace ∧ ¬ captured (checkedAsync ck o call).trace := by
  rw [checkedSync_eq, checkedAsync_eq]
  exact ⟨checkedG_no_capture (syncHooks_ok o) ck call h, checkedG_no_capture (asyncHooks_ok o) ck call h⟩

/-- Position: the trace of a checked call splits into a precondition part (no capture, no body),
a capture part (captures only) and a rest in which nothing is captured any more:
captures happen after all preconditions and before the body. -/
theorem C08_sync_captures_between_pre_and_body (ck : Checker) (o : Oracle) (call : Call) :
    ∃ tpre tcap trest, (checkedSync ck o call).trace = tpre ++ tcap ++ trest ∧
      (∀ e ∈ tpre, e.isCheck = true) ∧ (∀ e ∈ tcap, e.isCapture = true) ∧
      (∀ e ∈ trest, e.isCapture = false) ∧
      (∀ e ∈ trest, e.isBody = true → ∀ e' ∈ tpre ++ tcap, e'.isBody = false) := by
  rw [checkedSync_eq]
  exact checkedG_between (syncHooks_ok o) ck call

theorem C08_async_captures_between_pre_and_body (ck : Checker) (o : Oracle) (call : Call) :
    ∃ tpre tcap trest, (checkedAsync ck o call).trace = tpre ++ tcap ++ trest ∧
      (∀ e ∈ tpre, e.isCheck = true) ∧ (∀ e ∈ tcap, e.isCapture = true) ∧
      (∀ e ∈ trest, e.isCapture = false) ∧
      (∀ e ∈ trest, e.isBody = true → ∀ e' ∈ tpre ++ tcap, e'.isBody = false) := by
  rw [checkedAsync_eq]
  exact checkedG_between (asyncHooks_ok o) ck call

/-- Every postcondition is evaluated against keyword arguments whose `OLD` entry is exactly the
captured values: the conditions called after the body receive `restrict` of the post keyword
arguments, and those bind `OLD` to `old`. -/
theorem C08_post_kwargs_bind_old (ck : Checker) (kw : Kwargs) (old : List (String × Id)) (r : Id)
    (h : (!ck.posts.isEmpty && !ck.snaps.isEmpty) = true) :
    (postKwargs ck kw old r).get? "OLD" = some (.old old) ∧ (postKwargs ck kw old r).get? "result" = some (.obj r) := by
  unfold postKwargs
  simp only [h, if_true]
  exact ⟨by rw [Kwargs.get?_set_ne _ _ _ _ (by decide), Kwargs.get?_set_self], Kwargs.get?_set_self _ _ _⟩

end Icontract
