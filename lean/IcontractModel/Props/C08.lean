/-
  C08 - OLD snapshots capture pre-state once, after the preconditions and before the body.
  Statements only.
-/
import IcontractModel.Lemmas.Instances
import IcontractModel.Lemmas.Capture
import IcontractModel.Spec.Trace
import IcontractModel.Spec.DagHistorySnaps
import IcontractModel.Lemmas.DagSnapLemmas
namespace Icontract
open Res List

/-- The capture loop calls the captures in list order, each at most once: the captured ids are a
prefix of the snapshot list (the whole list when no capture fails). -/
theorem C08_sync_captures_in_order_once (o : Oracle) (kw : Kwargs) (acc : List (String × Id)) (ss : List Snapshot) :
    capturesOf (captureOldSync o kw acc ss).trace <+: ss.map (·.id) := by
  exact (captureOldSync_spec o kw acc ss).1

theorem C08_async_captures_in_order_once (o : Oracle) (kw : Kwargs) (acc : List (String × Id)) (ss : List Snapshot) :
    capturesOf (captureOldAsync o kw acc ss).trace <+: ss.map (·.id) := by
  exact (captureOldAsync_spec o kw acc ss).1

/-- When the captures succeed, `OLD` maps every snapshot name to the object its capture returned
(sync: return value; async: awaited value) — a function of the captures' answers only, hence
independent of whatever the body does afterwards. -/
theorem C08_sync_old_is_captured_values (o : Oracle) (kw : Kwargs) (ss : List Snapshot) (old : List (String × Id))
    (h : (captureOldSync o kw [] ss).out = .ok old) :
    old = expectedOld false o ss ∧ capturesOf (captureOldSync o kw [] ss).trace = ss.map (·.id) := by
  obtain ⟨h1, h2⟩ := (captureOldSync_spec o kw [] ss).2 old h
  exact ⟨by simpa using h1, h2⟩

theorem C08_async_old_is_captured_values (o : Oracle) (kw : Kwargs) (ss : List Snapshot) (old : List (String × Id))
    (h : (captureOldAsync o kw [] ss).out = .ok old) :
    old = expectedOld true o ss ∧ capturesOf (captureOldAsync o kw [] ss).trace = ss.map (·.id) := by
  obtain ⟨h1, h2⟩ := (captureOldAsync_spec o kw [] ss).2 old h
  exact ⟨by simpa using h1, h2⟩

/-- Nothing is captured unless the callable has both postconditions and snapshots. -/
theorem C08_no_capture_without_postconditions (ck : Checker) (o : Oracle) (call : Call)
    (h : ck.posts = [] ∨ ck.snaps = []) :
    ¬ captured (checkedSync ck o call).trace ∧ ¬ captured (checkedAsync ck o call).trace := by
  rw [checkedSync_eq, checkedAsync_eq]
  exact ⟨checkedG_no_capture (syncHooks_ok o) ck call h, checkedG_no_capture (asyncHooks_ok o) ck call h⟩

/-- Position: the trace of a checked call splits into a precondition part (no capture, no body),
a capture part (captures only) and a rest in which nothing is captured any more:
captures happen after all preconditions and before the body. -/
theorem C08_sync_captures_between_pre_and_body (ck : Checker) (o : Oracle) (call : Call) :
    ∃ tpre tcap trest, (checkedSync ck o call).trace = tpre ++ tcap ++ trest ∧
      (∀ e ∈ tpre, e.isCheck = true) ∧ (∀ e ∈ tcap, e.isCapture = true) ∧
      (∀ e ∈ trest, e.isCapture = false) ∧
      (∀ e ∈ trest, e.isBody = true → ∀ e' ∈ tpre ++ tcap, e'.isBody = false) := by
  rw [checkedSync_eq]
  exact checkedG_between (syncHooks_ok o) ck call

theorem C08_async_captures_between_pre_and_body (ck : Checker) (o : Oracle) (call : Call) :
    ∃ tpre tcap trest, (checkedAsync ck o call).trace = tpre ++ tcap ++ trest ∧
      (∀ e ∈ tpre, e.isCheck = true) ∧ (∀ e ∈ tcap, e.isCapture = true) ∧
      (∀ e ∈ trest, e.isCapture = false) ∧
      (∀ e ∈ trest, e.isBody = true → ∀ e' ∈ tpre ++ tcap, e'.isBody = false) := by
  rw [checkedAsync_eq]
  exact checkedG_between (asyncHooks_ok o) ck call

/-- Every postcondition is evaluated against keyword arguments whose `OLD` entry is exactly the
captured values: the conditions called after the body receive `restrict` of the post keyword
arguments, and those bind `OLD` to `old`. -/
theorem C08_post_kwargs_bind_old (ck : Checker) (kw : Kwargs) (old : List (String × Id)) (r : Id)
    (h : (!ck.posts.isEmpty && !ck.snaps.isEmpty) = true) :
    (postKwargs ck kw old r).get? "OLD" = some (.old old) ∧ (postKwargs ck kw old r).get? "result" = some (.obj r) := by
  unfold postKwargs
  simp only [h, if_true]
  exact ⟨by rw [Kwargs.get?_set_ne _ _ _ _ (by decide), Kwargs.get?_set_self], Kwargs.get?_set_self _ _ _⟩

end Icontract

/-! ### snapshots along an arbitrary inheritance graph (the metaclass model, `Meta.lean`) -/

namespace Icontract.Meta

/-- **Snapshots are inherited together with postconditions, along an arbitrary inheritance graph, and duplicate names are
rejected across the hierarchy.**  For every ACCEPTED history of class definitions (multiple inheritance, diamonds, gaps)
whose functions carry their own `@snapshot`s, introspection of every member of every class shows exactly the snapshots
of all its ancestors' versions (inherited first, as `specListAt` says) followed by its own - and their names are pairwise
distinct; the postconditions they belong to are inherited the same way. -/
theorem C08_dag_snapshots_inherited (names : List (Nat × String)) (ds : List ClassDefS) (hwf : HistWfS ds) (w : World)
    (h : buildHistS { snapNames := names } 1 ds = .ok w) :
    ∀ i (hi : i < ds.length) (key : String) (l : LevelS), (key, l) ∈ (ds[i]).members →
      snapsOf w l.f = specListAt w (declsOfS ds).ownSnaps (ds.length + 1) (i + 1) key 0 ∧
      ((snapsOf w l.f).map (snapName w)).Nodup ∧
      postsOf w l.f = specListAt w (declsOfS ds).ownPosts (ds.length + 1) (i + 1) key 0 ∧
      (snapsOf w l.f ≠ [] → postsOf w l.f ≠ []) := by
  intro i hi key l hl
  have st := buildHistS_observe names ds hwf w h i hi key l hl
  refine ⟨st.snaps, ?_, st.posts, ?_⟩
  · rw [st.snaps]; exact st.nd
  · rw [st.snaps, st.posts]; exact st.sp

/-- ... and, in the same accepted history, the preconditions are those of `C04_dag_effective_contracts`: the snapshots
do not disturb the Liskov combination of the preconditions. -/
theorem C08_dag_preconditions_unchanged (names : List (Nat × String)) (ds : List ClassDefS) (hwf : HistWfS ds)
    (w : World) (h : buildHistS { snapNames := names } 1 ds = .ok w) :
    ∀ i (hi : i < ds.length) (key : String) (l : LevelS), (key, l) ∈ (ds[i]).members →
      preOf w l.f = (specPreAt w (declsOfS ds) (ds.length + 1) (i + 1) key 0).getD [] :=
  fun i hi key l hl => (buildHistS_observe names ds hwf w h i hi key l hl).pre

/-- non-vacuity: a chain with a gap (class 3 re-binds `m` without any snapshot, and brings a second member whose
snapshot re-uses the name `a` - on another function, which is allowed), evaluated by the kernel -/
example :
    (match buildHistS { snapNames := [(500, "a"), (501, "b"), (502, "a"), (503, "c")] } 1
        [⟨[], [("m", ⟨10, [1], [7], [500]⟩)]⟩, ⟨[1], [("m", ⟨12, [2], [8], [501]⟩)]⟩,
         ⟨[2], [("m", ⟨14, [3], [], []⟩), ("n", ⟨15, [], [9], [502]⟩)]⟩, ⟨[3], [("m", ⟨16, [], [4], [503]⟩)]⟩] with
     | .ok w => (snapsOf w 16, (snapsOf w 16).map (snapName w), postsOf w 16, snapsOf w 14, snapsOf w 15, snapsOf w 10)
     | .error _ => ([], [], [], [], [], [])) =
      ([500, 501, 503], ["a", "b", "c"], [7, 8, 4], [500, 501], [502], [500]) := by decide

/-- ... and this history is well-formed, so the hypotheses of the theorem are satisfiable -/
example : HistWfS [⟨[], [("m", ⟨10, [1], [7], [500]⟩)]⟩, ⟨[1], [("m", ⟨12, [2], [8], [501]⟩)]⟩,
         ⟨[2], [("m", ⟨14, [3], [], []⟩), ("n", ⟨15, [], [9], [502]⟩)]⟩, ⟨[3], [("m", ⟨16, [], [4], [503]⟩)]⟩] := by
  unfold HistWfS
  decide

/-- the diamond: snapshot `a` of class 1 reaches class 4 over both bases - the class statement is refused -/
example :
    (match buildHistS { snapNames := [(500, "a"), (501, "b"), (502, "a"), (503, "c")] } 1
        [⟨[], [("m", ⟨10, [1], [7], [500]⟩)]⟩, ⟨[1], [("m", ⟨12, [2], [8], [501]⟩)]⟩, ⟨[1], []⟩,
         ⟨[2, 3], [("m", ⟨14, [3], [5], [503]⟩)]⟩] with
     | .ok _ => none
     | .error e => some e) = some (.valueErrorDuplicateSnapshot "a") := by decide

/-- ... although that history is well-formed too: the rejection is the metaclass's, not the hypothesis's -/
example : HistWfS [⟨[], [("m", ⟨10, [1], [7], [500]⟩)]⟩, ⟨[1], [("m", ⟨12, [2], [8], [501]⟩)]⟩, ⟨[1], []⟩,
         ⟨[2, 3], [("m", ⟨14, [3], [5], [503]⟩)]⟩] := by
  unfold HistWfS
  decide

/-- `firstDuplicate` finds a name exactly when the names are not pairwise distinct -/
theorem C08_firstDuplicate_iff_not_nodup (w : World) (snaps : List Nat) :
    (∃ n, firstDuplicate w snaps = some n) ↔ ¬ (snaps.map (snapName w)).Nodup :=
  firstDuplicate_some_iff w snaps

/-- **Conversely, a member that would inherit / declare two snapshots of the same name is refused at the class
definition.**  One step of the namespace pass: whenever the snapshots collected from the bases followed by the function's
own ones contain a repeated NAME - and the weakening rule does not already reject the class - the collapse fails with
`valueErrorDuplicateSnapshot` (so, by `C08_dag_snapshots_inherited`, acceptance and distinct names are equivalent at
every member). -/
theorem C08_duplicate_snapshot_names_rejected (w : World)
    (key : String) (f : FnId) (bSnaps : List Nat) (have_ : Bool) (bPre bPosts : List Nat)
    (hdup : ¬ ((bSnaps ++ (match w.checker? f with | some ck => w.heap.get ck.snaps | none => [])).map (snapName w)).Nodup)
    (hnw : ¬ (bPre.isEmpty = true ∧ have_ = true ∧
              (match w.checker? f with | some ck => w.heap.get ck.pre | none => []).isEmpty = false)) :
    ∃ n, decorateOne w key f true (have_, bPre, bSnaps, bPosts) = .error (.valueErrorDuplicateSnapshot n) :=
  decorateOne_duplicate w key f have_ bPre bSnaps bPosts hdup hnw

/-- ... and the other direction of that step: an accepted member's collected and own snapshots have pairwise distinct names -/
theorem C08_accepted_member_has_distinct_snapshot_names (w w' : World) (key : String) (f : FnId) (have_ : Bool)
    (bPre bSnaps bPosts : List Nat)
    (h : decorateOne w key f true (have_, bPre, bSnaps, bPosts) = .ok w') :
    ((bSnaps ++ (match w.checker? f with | some ck => w.heap.get ck.snaps | none => [])).map (snapName w)).Nodup :=
  decorateOne_nodup w w' key f have_ bPre bSnaps bPosts h

end Icontract.Meta
