/-
  C13 - async callables get the same contract semantics as sync ones.  Statements only.
-/
import IcontractModel.Lemmas.Instances
import IcontractModel.Spec.Trace
import IcontractModel.Lemmas.Strip
namespace Icontract
open Res

/-- **The async wrapper is the sync wrapper on the awaited program**: for every checker, every oracle
`o` and every oracle `o'` that is `o` with all awaitables already awaited, the async checked path —
with its await events removed — produces exactly the trace and the outcome of the sync checked
path of the plain (non-coroutine) rendering of the same checker under `o'`. -/
theorem C13_async_equals_sync_on_awaited (ck : Checker) (o o' : Oracle) (call : Call)
    (h : AwaitedOracle ck o o') :
    (checkedAsync ck o call).stripAwait = checkedSync ck.plain o' call := by
  exact checked_strip ck o o' call h

/-- The same for the whole wrappers, including the in-progress bookkeeping. -/
theorem C13_wrappers_agree (ck : Checker) (o o' : Oracle) (s : IdSet) (call : Call)
    (h : AwaitedOracle ck o o') :
    ((callAsync ck o s call).1.stripAwait, (callAsync ck o s call).2) =
    ((callSync ck.plain o' s call).1, (callSync ck.plain o' s call).2) := by
  have hfid : ck.plain.fid = ck.fid := rfl
  unfold callAsync callSync
  cases assertNoInvalidKwargs call.kwargs with
  | some e => rfl
  | none =>
    simp only [hfid]
    cases s.contains ck.fid with
    | true =>
      simp only [if_true, runBody_stripAwait, runBody_congr o o' call h.body]
    | false =>
      simp only [Bool.false_eq_true, if_false, checked_strip ck o o' call h]

/-- On a sync callable a coroutine-function condition, or a condition that returns a coroutine, is
rejected with ValueError — it is never judged (no truth test, never `ok`). -/
theorem C13_sync_rejects_coroutine_precondition (o : Oracle) (kw : Kwargs) (c : Contract)
    (hm : (missingNames c.mandatory kw).isEmpty = true)
    (hc : c.coroFn = true ∨ (o.cond c.id).isCoro = true) :
    (∃ k, (evalPreSync o kw c).out = .error (.valueErr k none)) ∧
    (∀ ev ∈ (evalPreSync o kw c).trace, ev ≠ .boolTest c.id) := by
  unfold evalPreSync selectConditionKwargs
  simp only [hm, if_true, pure_bind']
  cases hcf : c.coroFn with
  | true => exact ⟨⟨_, rfl⟩, by simp⟩
  | false =>
    simp only [hcf, Bool.false_eq_true, false_or] at hc
    simp only [Bool.false_eq_true, if_false]
    cases ha : o.cond c.id with
    | coro a => exact ⟨⟨.coroCondOnSync c.id, by simp⟩, by simp⟩
    | val v t => simp [ha, Ans.isCoro] at hc
    | raises e => simp [ha, Ans.isCoro] at hc

theorem C13_sync_rejects_coroutine_postcondition (o : Oracle) (kw : Kwargs) (c : Contract)
    (hm : (missingNames c.mandatory kw).isEmpty = true)
    (hc : c.coroFn = true ∨ (o.cond c.id).isCoro = true) :
    (∃ k, (evalPostSync o kw c).out = .error (.valueErr k none)) ∧
    (∀ ev ∈ (evalPostSync o kw c).trace, ev ≠ .boolTest c.id) := by
  unfold evalPostSync selectConditionKwargs
  cases hcf : c.coroFn with
  | true => exact ⟨⟨_, rfl⟩, by simp⟩
  | false =>
    simp only [hcf, Bool.false_eq_true, false_or] at hc
    simp only [hm, if_true, pure_bind', Bool.false_eq_true, if_false]
    cases ha : o.cond c.id with
    | coro a => exact ⟨⟨.coroCondOnSync c.id, by simp⟩, by simp⟩
    | val v t => simp [ha, Ans.isCoro] at hc
    | raises e => simp [ha, Ans.isCoro] at hc

/-- Class invariants are evaluated synchronously (also around `async def` methods): an invariant whose condition
returns a coroutine is rejected with ValueError - it is never taken as truthy, never truth-tested. -/
theorem C13_invariant_rejects_coroutine_condition (o : Oracle) (kw : Kwargs) (c : Contract) (cs : List Contract)
    (hm : (missingNames c.mandatory kw).isEmpty = true)
    (hc : (o.cond c.id).isCoro = true) :
    (assertInvariants o kw (c :: cs)).out = .error (.valueErr (.coroCondOnSync c.id) none) ∧
    (∀ ev ∈ (assertInvariants o kw (c :: cs)).trace, ev ≠ .boolTest c.id) := by
  unfold assertInvariants evalInvariant selectConditionKwargs
  simp only [hm, if_true, pure_bind']
  cases ha : o.cond c.id with
  | coro a =>
    have hx : (do Res.emit (Event.cond c.id (kw.restrict c.args))
                  (Res.raise (Raised.valueErr (ValueErrKind.coroCondOnSync c.id) none) : Res Bool)).out
              = .error (Raised.valueErr (ValueErrKind.coroCondOnSync c.id) none) := by simp [Res.raise]
    refine ⟨bind_out_of_err hx, ?_⟩
    intro ev hev
    rw [bind_trace_of_err hx] at hev
    rw [emit_bind_trace] at hev
    simp [Res.raise] at hev
    subst hev
    simp
  | val v t => simp [ha, Ans.isCoro] at hc
  | raises e => simp [ha, Ans.isCoro] at hc

theorem C13_sync_rejects_coroutine_capture (o : Oracle) (kw : Kwargs) (acc : List (String × Id))
    (s : Snapshot) (ss : List Snapshot)
    (hm : (missingNames s.args kw).isEmpty = true)
    (hc : s.coroFn = true ∨ (o.capture s.id).isCoro = true) :
    ∃ k, (captureOldSync o kw acc (s :: ss)).out = .error (.valueErr k none) := by
  unfold captureOldSync selectCaptureKwargs
  cases hcf : s.coroFn with
  | true => exact ⟨_, rfl⟩
  | false =>
    simp only [hcf, Bool.false_eq_true, false_or] at hc
    simp only [hm, if_true, pure_bind', Bool.false_eq_true, if_false]
    cases ha : o.capture s.id with
    | coro a => exact ⟨.coroCaptureOnSync s.id, by simp⟩
    | val v t => simp [ha, Ans.isCoro] at hc
    | raises e => simp [ha, Ans.isCoro] at hc

end Icontract
