/-
  C13 - async callables get the same contract semantics as sync ones.  Statements only.
-/
import IcontractModel.Lemmas.Instances
import IcontractModel.Spec.Trace
namespace Icontract
open Res

/-- **The async wrapper is the sync wrapper on the awaited program**: for every checker, every oracle
`o` and every oracle `o'` that is `o` with all awaitables already awaited, the async checked path —
with its await events removed — produces exactly the trace and the outcome of the sync checked
path of the plain (non-coroutine) rendering of the same checker under `o'`. -/
theorem C13_async_equals_sync_on_awaited (ck : Checker) (o o' : Oracle) (call : Call)
    (h : AwaitedOracle ck o o') :
    (checkedAsync ck o call).stripAwait = checkedSync ck.plain o' call := by
  sorry

/-- The same for the whole wrappers, including the in-progress bookkeeping. -/
theorem C13_wrappers_agree (ck : Checker) (o o' : Oracle) (s : IdSet) (call : Call)
    (h : AwaitedOracle ck o o') :
    ((callAsync ck o s call).1.stripAwait, (callAsync ck o s call).2) =
    ((callSync ck.plain o' s call).1, (callSync ck.plain o' s call).2) := by
  sorry

/-- On a sync callable a coroutine-function condition, or a condition that returns a coroutine, is
rejected with ValueError — it is never judged (no truth test, never `ok`). -/
theorem C13_sync_rejects_coroutine_precondition (o : Oracle) (kw : Kwargs) (c : Contract)
    (hm : (missingNames c.mandatory kw).isEmpty = true)
    (hc : c.coroFn = true ∨ (o.cond c.id).isCoro = true) :
    (∃ k, (evalPreSync o kw c).out = .error (.valueErr k none)) ∧
    (∀ ev ∈ (evalPreSync o kw c).trace, ev ≠ .boolTest c.id) := by
  sorry

theorem C13_sync_rejects_coroutine_postcondition (o : Oracle) (kw : Kwargs) (c : Contract)
    (hm : (missingNames c.mandatory kw).isEmpty = true)
    (hc : c.coroFn = true ∨ (o.cond c.id).isCoro = true) :
    (∃ k, (evalPostSync o kw c).out = .error (.valueErr k none)) ∧
    (∀ ev ∈ (evalPostSync o kw c).trace, ev ≠ .boolTest c.id) := by
  sorry

theorem C13_sync_rejects_coroutine_capture (o : Oracle) (kw : Kwargs) (acc : List (String × Id))
    (s : Snapshot) (ss : List Snapshot)
    (hm : (missingNames s.args kw).isEmpty = true)
    (hc : s.coroFn = true ∨ (o.capture s.id).isCoro = true) :
    ∃ k, (captureOldSync o kw acc (s :: ss)).out = .error (.valueErr k none) := by
  sorry

end Icontract
