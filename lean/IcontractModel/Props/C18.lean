/-
  C18 - introspection data tells integrators the truth.
  In the model the wrapper takes its three lists as arguments at call time (`Checker.pre/snaps/posts`
  are what `_unpack_pre_snap_posts` reads from the checker's attributes - no private copy), so
  "judging a call by hand over the introspected lists" is a Boolean function of the same lists; the
  theorems say it gives the wrapper's verdict.  The registration hook is part of `Meta.defineClass`.
-/
import IcontractModel.Props.C01
import IcontractModel.Props.C02
import IcontractModel.Meta
import IcontractModel.Lemmas.MetaFrame
namespace Icontract

/-- the documented integrators' loop over `__preconditions__` -/
def manualPre (isAsync : Bool) (o : Oracle) (kw : Kwargs) (groups : List (List Contract)) : Bool :=
  groups.isEmpty || groups.any (fun g => g.all (fun c => condTruthy isAsync o kw c))

/-- the documented integrators' loop over `__postconditions__` -/
def manualPost (isAsync : Bool) (o : Oracle) (kw : Kwargs) (posts : List Contract) : Bool :=
  posts.all (fun c => condTruthy isAsync o kw c)

theorem C18_manual_precondition_is_dnf (isAsync : Bool) (o : Oracle) (kw : Kwargs) (groups : List (List Contract)) :
    manualPre isAsync o kw groups = true ↔ dnfHolds isAsync o kw groups := by
  unfold manualPre dnfHolds
  simp only [Bool.or_eq_true, List.isEmpty_iff, List.any_eq_true, List.all_eq_true]

/-- **Judging the preconditions by hand gives the wrapper's verdict** (sync): the body is entered iff
the manual evaluation over the introspected groups succeeds. -/
theorem C18_sync_manual_precondition_verdict (ck : Checker) (o : Oracle) (call : Call)
    (hvalid : assertResolvedKwargsValid (!ck.posts.isEmpty) (resolved ck call) = none)
    (htot : ∀ g ∈ ck.pre, totalOn false o (resolved ck call) g)
    (hcap : ∃ old, (captureOldSync o (resolved ck call) [] ck.snaps).out = .ok old) :
    manualPre false o (resolved ck call) ck.pre = true ↔ bodyEntered (checkedSync ck o call).trace := by
  rw [C18_manual_precondition_is_dnf]
  exact ⟨C01_sync_body_if_pre_holds ck o call hvalid htot hcap, C01_sync_body_only_if_pre_holds ck o call⟩

theorem C18_async_manual_precondition_verdict (ck : Checker) (o : Oracle) (call : Call)
    (hvalid : assertResolvedKwargsValid (!ck.posts.isEmpty) (resolved ck call) = none)
    (htot : ∀ g ∈ ck.pre, totalOn true o (resolved ck call) g)
    (hcap : ∃ old, (captureOldAsync o (resolved ck call) [] ck.snaps).out = .ok old) :
    manualPre true o (resolved ck call) ck.pre = true ↔ bodyEntered (checkedAsync ck o call).trace := by
  rw [C18_manual_precondition_is_dnf]
  exact ⟨C01_async_body_if_pre_holds ck o call hvalid htot hcap, C01_async_body_only_if_pre_holds ck o call⟩

/-- **Judging the postconditions by hand gives the wrapper's verdict** (sync): once the body is reached
and returns `v`, the call returns `v` iff the manual evaluation over the introspected postconditions
(against the arguments, `result` and `OLD`) succeeds. -/
theorem C18_sync_manual_postcondition_verdict (ck : Checker) (o : Oracle) (call : Call)
    (old : List (String × Id)) (h : ReachesBodySync ck o call old) (v : Id) (hb : o.body = .ret v)
    (htot : totalOn false o ((kwAtBody ck (resolved ck call) old).set "result" (.obj v)) ck.posts)
    (herr : ∀ c ∈ ck.posts, ∃ err, errorOf o ((kwAtBody ck (resolved ck call) old).set "result" (.obj v)) c = some err) :
    manualPost false o ((kwAtBody ck (resolved ck call) old).set "result" (.obj v)) ck.posts = true ↔
      (checkedSync ck o call).out = .ok v := by
  constructor
  · intro hm
    apply C02_sync_returns_body_result ck o call old h v hb
    intro c hc
    exact List.all_eq_true.mp hm c hc
  · intro hout
    cases hff : firstFalsy false o ((kwAtBody ck (resolved ck call) old).set "result" (.obj v)) ck.posts with
    | none =>
      unfold firstFalsy at hff
      unfold manualPost
      rw [List.all_eq_true]
      intro c hc
      have := List.find?_eq_none.mp hff c hc
      simpa using this
    | some c =>
      have hcm : c ∈ ck.posts := List.mem_of_find?_eq_some hff
      obtain ⟨err, he⟩ := herr c hcm
      have := C02_sync_first_falsy_postcondition_raises ck o call old h v hb htot c hff err he
      rw [this] at hout
      cases hout

open Meta in
/-- **Every class created through the metaclass is announced exactly once** to the registration hook ... -/
theorem C18_hook_called_once_per_class (w w' : World) (k : ClsId) (bases : List ClsId)
    (ns : List (String × Member)) (h : defineClass w k bases ns true true = .ok w') :
    w'.hookCalls = w.hookCalls ++ [k] := by
  simpa using defineClass_hookCalls w w' k bases ns true true h

open Meta in
/-- ... plain classes are not announced, and neither are decorations -/
theorem C18_hook_not_called_otherwise (w w' : World) (k : ClsId) (bases : List ClsId)
    (ns : List (String × Member)) (f : FnId) (c : CId) (on : CheckOn)
    (h : defineClass w k bases ns false true = .ok w') :
    w'.hookCalls = w.hookCalls ∧ (addPre w f c).hookCalls = w.hookCalls ∧ (addPost w f c).hookCalls = w.hookCalls ∧
    (addInvariant w k c on).hookCalls = w.hookCalls := by
  refine ⟨by simpa using defineClass_hookCalls w w' k bases ns false true h, ?_, ?_, ?_⟩
  · unfold addPre
    simp only []
    split <;> exact (ensureChecker_frame w f).hooks
  · exact (ensureChecker_frame w f).hooks
  · unfold addInvariant
    split
    · rfl
    · rw [addInvariantChecks_hookCalls]
      cases lookupInv w k .all <;> rfl

end Icontract
