/-
  C07 - a violation always surfaces as the contract's error with the true condition text.
  Building the message never replaces the violation (the re-evaluation cannot fail where Python
  succeeded) and never evaluates what Python's short-circuit evaluation skipped.

  `e.wf` is the well-formedness of Python's `ast` (see Props/C06.lean); without it the two re-evaluation
  statements are false (Lemmas/ReevalCounterexamples.lean).
-/
import IcontractModel.Spec.PyEval
import IcontractModel.Represent
import IcontractModel.Props.C06
namespace Icontract.Ex

/-- **The re-evaluation cannot fail where Python succeeded**: whenever Python evaluates the (well-formed)
condition (to any value, in particular a falsy one) the re-evaluator returns normally - so the violation
error is built from the message and never replaced by `RuntimeError("Failed to recompute ...")`. -/
theorem C07_reevaluation_total (ops : Ops) (env : Env) (e : Expr) (v : Val) (P : Log)
    (hwf : e.wf = true)
    (hid : (allIds e).Nodup) (h : pyEval ops env e = .ok (v, P)) :
    ∃ r, (visit ops env.builtins (Tbl.ofNames env.names) e).out = .ok r :=
  ⟨some v, (C06_recomputed_values_are_pythons ops env e v P hwf hid h).1⟩

/-- **Nothing that Python's short-circuit evaluation skipped is evaluated**: every node the
re-evaluator computes outside comprehension scopes is a node Python evaluated. -/
theorem C07_no_extra_evaluation (ops : Ops) (env : Env) (e : Expr) (v : Val) (P : Log)
    (hwf : e.wf = true)
    (hid : (allIds e).Nodup) (h : pyEval ops env e = .ok (v, P)) :
    ∀ p ∈ (visit ops env.builtins (Tbl.ofNames env.names) e).log,
      (innerIds e).contains p.1 = false → p.1 ∈ P.map (·.1) := by
  intro p hp hc
  exact List.mem_map.mpr ⟨p, C06_every_recorded_value_is_pythons ops env e v P hwf hid h p hp hc, rfl⟩

/-- guard-style conditions: with a falsy first operand of `and`, the later operands are not visited at all -/
theorem C07_and_guard_skips_later_operands (ops : Ops) (bi : List (String × Val)) (tbl : Tbl) (i : Nat)
    (g rest1 : Expr) (rest : List Expr) (gv : Val)
    (hg : (visit ops bi tbl g).out = .ok (some gv)) (hf : ops.truth gv = .ok false) :
    (visit ops bi tbl (.boolop i true (g :: rest1 :: rest))).log = (visit ops bi tbl g).log ++ [(i, gv)] ∧
    (visit ops bi tbl (.boolop i true (g :: rest1 :: rest))).out = .ok (some gv) := by
  have hb : visitBool ops bi tbl true false none (g :: rest1 :: rest) = ⟨(visit ops bi tbl g).log, .ok (some gv)⟩ := by
    rw [visitBool]
    simp only [VRes.bind_of_ok hg]
    simp [hf]
  simp only [visit]
  rw [VRes.bind_of_ok (a := some gv) (by rw [hb])]
  simp [hb]

/-- a comprehension part that cannot be re-computed does not make the re-evaluation fail -/
theorem C07_comprehension_internals_are_best_effort (ops : Ops) (bi : List (String × Val)) (tbl : Tbl)
    (i : Nat) (targets : List String) (inner : List Expr) (hp : tbl.hasPlaceholder = false) :
    (visit ops bi tbl (.comp i targets inner)).out = (ops.comp i tbl.values).map some := by
  simp only [visit, VRes.bind_of_ok (harvest_out _ _ _ _), hp]
  cases ops.comp i tbl.values <;> simp [Except.map]

end Icontract.Ex
