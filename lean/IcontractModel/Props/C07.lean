/-
  C07 - a violation always surfaces as the contract's error with the true condition text.
  Building the message never replaces the violation (the re-evaluation cannot fail where Python
  succeeded) and never evaluates what Python's short-circuit evaluation skipped.

  `e.wf` is the well-formedness of Python's `ast` (see Props/C06.lean); without it the two re-evaluation
  statements are false (Lemmas/ReevalCounterexamples.lean).
-/
import IcontractModel.Spec.PyEval
import IcontractModel.Represent
import IcontractModel.Props.C06
import IcontractModel.SrcScan
import IcontractModel.Lemmas.SrcScanLemmas
namespace Icontract.Ex

/-- **The re-evaluation cannot fail where Python succeeded**: whenever Python evaluates the (well-formed)
condition (to any value, in particular a falsy one) the re-evaluator returns normally - so the violation
error is built from the message and never replaced by `RuntimeError("Failed to recompute ...")`. -/
theorem C07_reevaluation_total (ops : Ops) (env : Env) (e : Expr) (v : Val) (P : Log)
    (hwf : e.wf = true)
    (hid : (allIds e).Nodup) (h : pyEval ops env e = .ok (v, P)) :
    ∃ r, (visit ops env.builtins (Tbl.ofNames env.names) e).out = .ok r :=
  ⟨some v, (C06_recomputed_values_are_pythons ops env e v P hwf hid h).1⟩

/-- **Nothing that Python's short-circuit evaluation skipped is evaluated**: every node the
re-evaluator computes outside comprehension scopes is a node Python evaluated. -/
theorem C07_no_extra_evaluation (ops : Ops) (env : Env) (e : Expr) (v : Val) (P : Log)
    (hwf : e.wf = true)
    (hid : (allIds e).Nodup) (h : pyEval ops env e = .ok (v, P)) :
    ∀ p ∈ (visit ops env.builtins (Tbl.ofNames env.names) e).log,
      (innerIds e).contains p.1 = false → p.1 ∈ P.map (·.1) := by
  intro p hp hc
  exact List.mem_map.mpr ⟨p, C06_every_recorded_value_is_pythons ops env e v P hwf hid h p hp hc, rfl⟩

/-- the two order differences are real: there is a (pure) condition whose log the re-evaluator records in another
order than Python evaluates it - which is why the general statement is about permutations -/
theorem C07_dict_items_are_visited_value_first :
    ∃ (ops : Ops) (env : Env) (e : Expr) (v : Val) (P : Log), e.wf = true ∧ (allIds e).Nodup ∧
      pyEval ops env e = .ok (v, P) ∧
      (visit ops env.builtins (Tbl.ofNames env.names) e).log ≠ P := by
  -- `{a: b}`: Python evaluates `a`, then `b`; the visitor visits `b`, then `a`
  refine ⟨Cex.ops0, ⟨[("a", .int 1), ("b", .int 2)], []⟩, .dict 0 [(some (.name 1 "a"), .name 2 "b")],
    .dict [.int 1] [.int 2], [(1, .int 1), (2, .int 2), (0, .dict [.int 1] [.int 2])], rfl, by decide, rfl, ?_⟩
  have hv : (visit Cex.ops0 [] (Tbl.ofNames [("a", .int 1), ("b", .int 2)])
      (.dict 0 [(some (.name 1 "a"), .name 2 "b")])).log = [(2, .int 2), (1, .int 1), (0, .dict [.int 1] [.int 2])] := rfl
  intro hc
  rw [hv] at hc
  have h2 := congrArg (fun l => l.map (·.1)) hc
  simp at h2

/-- guard-style conditions: with a falsy first operand of `and`, the later operands are not visited at all -/
theorem C07_and_guard_skips_later_operands (ops : Ops) (bi : List (String × Val)) (tbl : Tbl) (i : Nat)
    (g rest1 : Expr) (rest : List Expr) (gv : Val)
    (hg : (visit ops bi tbl g).out = .ok (some gv)) (hf : ops.truth gv = .ok false) :
    (visit ops bi tbl (.boolop i true (g :: rest1 :: rest))).log = (visit ops bi tbl g).log ++ [(i, gv)] ∧
    (visit ops bi tbl (.boolop i true (g :: rest1 :: rest))).out = .ok (some gv) := by
  have hb : visitBool ops bi tbl true false none (g :: rest1 :: rest) = ⟨(visit ops bi tbl g).log, .ok (some gv)⟩ := by
    rw [visitBool]
    simp only [VRes.bind_of_ok hg]
    simp [hf]
  simp only [visit]
  rw [VRes.bind_of_ok (a := some gv) (by rw [hb])]
  simp [hb]

/-- a comprehension part that cannot be re-computed does not make the re-evaluation fail -/
theorem C07_comprehension_internals_are_best_effort (ops : Ops) (bi : List (String × Val)) (tbl : Tbl)
    (i : Nat) (targets : List String) (first : Expr) (inner : List Expr) (hp : tbl.hasPlaceholder = false) :
    (visit ops bi tbl (.comp i targets first inner)).out = (ops.comp i tbl.values).map some := by
  simp only [visit, VRes.mk_ok_bind, VRes.bind_of_ok (harvest_out _ _ _ _), hp]
  cases ops.comp i tbl.values <;> simp [Except.map]

end Icontract.Ex

namespace Icontract.Src

/-- **The layout of the decorator does not matter.**  Let the decorator occupy the lines `s .. e-1` of the file: line `s`
starts it (`@name...`), none of its continuation lines `s+1 .. e-1` starts with `@name`, `def `, `async def` or `class `
(whatever else they contain - arguments, comments, strings, closing parentheses, blank lines), and line `e` is the next
decorator or the decorated `def` / `class`.  Then from ANY line of the decorator (the interpreter reports the first,
the last or a middle line of a multi-line call, depending on its version and on the layout) the scan recovers exactly
the lines `s .. e-1` - no matter how many lines there are or what surrounds the decorator in the file. -/
theorem C07_layout_does_not_matter (ks : List LineKind) (s e lineno : Nat)
    (hs : ks[s]? = some .deco) (he : ks[e]? = some .deco ∨ ks[e]? = some .defcls)
    (hmid : ∀ i, s < i → i < e → ks[i]? = some .other)
    (h1 : s ≤ lineno) (h2 : lineno < e) :
    scan ks lineno = .ok (s, e) := by
  have helt : e < ks.length := by
    cases he with
    | inl h => exact (List.getElem?_eq_some_iff.mp h).1
    | inr h => exact (List.getElem?_eq_some_iff.mp h).1
  have hother : ∀ i, s < i → i < e → ks[i]? ≠ some .deco ∧ ks[i]? ≠ some .defcls := by
    intro i hi1 hi2
    rw [hmid i hi1 hi2]
    exact ⟨fun hc => (by cases hc), fun hc => (by cases hc)⟩
  have hup : findUp ks lineno = some s :=
    findUp_eq ks s hs lineno h1 (fun i hi1 hi2 => (hother i hi1 (by omega)).1)
  have hdown : findDown ks (lineno + 1) = some e :=
    findDown_eq ks (lineno + 1) e (by omega) he (fun i hi1 hi2 => hother i (by omega) hi2)
  have hlen : ¬ lineno ≥ ks.length := by omega
  simp only [scan, if_neg hlen, hup, hdown]

/-- conversely, whatever the scan returns is a decorator line at or above the given line and the first
decorator / def / class line below it: nothing else in the file influences the recovered extent -/
theorem C07_scan_result_characterised (ks : List LineKind) (lineno s e : Nat) (h : scan ks lineno = .ok (s, e)) :
    s ≤ lineno ∧ lineno < e ∧ ks[s]? = some .deco ∧ (ks[e]? = some .deco ∨ ks[e]? = some .defcls) ∧
    (∀ i, s < i → i ≤ lineno → ks[i]? ≠ some .deco) ∧
    (∀ i, lineno < i → i < e → ks[i]? ≠ some .deco ∧ ks[i]? ≠ some .defcls) := by
  unfold scan at h
  split at h
  · cases h
  · split at h
    · cases h
    · next s' hup =>
      split at h
      · cases h
      · next e' hdown =>
        injection h with h
        injection h with hs' he'
        subst hs' he'
        obtain ⟨u1, u2, u3⟩ := findUp_spec ks lineno _ hup
        obtain ⟨d1, d2, d3⟩ := findDown_spec ks (lineno + 1) _ hdown
        exact ⟨u1, by omega, u2, d2, u3, fun i hi1 hi2 => d3 i (by omega) hi2⟩

/-- non-vacuity: a five-line decorator reported at its last line, between another decorator and the `def` -/
example : scan [.other, .deco, .deco, .other, .other, .other, .other, .defcls, .other] 6 = .ok (2, 7) := by rfl

end Icontract.Src
