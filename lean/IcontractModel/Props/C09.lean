/-
  C09 - the `error` argument decides exactly what a violation raises.
  Statements + short proofs.  `createViolationError` takes only the oracle, the
  contract and the resolved keyword arguments: role (pre/post/invariant), callable kind
  and sync/async are not inputs of the dispatch at all.
-/
import IcontractModel.Lemmas.Instances
import IcontractModel.Lemmas.Capture
import IcontractModel.Decor
namespace Icontract
open Res

/-- no `error`: ViolationError carrying the generated message; the message is built exactly once -/
theorem C09_default_is_violation_error (o : Oracle) (c : Contract) (kw : Kwargs)
    (he : c.err = .none) (hm : o.msg c.id = .ok) :
    (createViolationError o c kw).out = .ok (.viol c.id true) ∧
    (createViolationError o c kw).trace = [.msg c.id] := by
  unfold createViolationError; simp [he, hm]

/-- an exception class: instantiated with the generated message -/
theorem C09_class_is_instantiated_with_message (o : Oracle) (c : Contract) (kw : Kwargs) (t : Bool)
    (he : c.err = .cls true t) (hm : o.msg c.id = .ok) :
    (createViolationError o c kw).out = .ok (.viol c.id t) ∧
    (createViolationError o c kw).trace = [.msg c.id] := by
  unfold createViolationError; simp [he, hm]

/-- an exception instance: raised as that same object, nothing else happens -/
theorem C09_instance_is_raised_as_is (o : Oracle) (c : Contract) (kw : Kwargs) (e : Exc)
    (he : c.err = .inst e) :
    (createViolationError o c kw).out = .ok (.user e) ∧ (createViolationError o c kw).trace = [] := by
  unfold createViolationError; simp [he]

/-- a factory: called exactly once, with exactly the named subset of the call's values; the
exception it returns is the error; a non-exception is a TypeError; what it raises surfaces -/
theorem C09_factory_called_once_with_named_subset (o : Oracle) (c : Contract) (kw : Kwargs)
    (args : List String) (he : c.err = .fac args) (hm : (missingNames args kw).isEmpty = true) :
    (createViolationError o c kw).trace = [.errFac c.id (kw.restrict args)] ∧
    (createViolationError o c kw).out =
      (match o.fac c.id with
       | .exc e => .ok (.user e)
       | .nonExc => .error (.typeErr (.factoryNotException c.id))
       | .raises e => .error (.user e)) := by
  unfold createViolationError
  simp only [he, selectErrorKwargs, hm, if_true, pure_bind']
  cases o.fac c.id <;> simp [emit_bind]

/-- a factory naming a value the call does not provide: TypeError naming it, the factory is not called -/
theorem C09_factory_missing_name_is_type_error (o : Oracle) (c : Contract) (kw : Kwargs)
    (args : List String) (he : c.err = .fac args) (hm : (missingNames args kw).isEmpty = false) :
    (createViolationError o c kw).out = .error (.typeErr (.missingErrorArgs c.id (missingNames args kw))) ∧
    (createViolationError o c kw).trace = [] := by
  unfold createViolationError
  simp [he, selectErrorKwargs, hm]

/-- the named subset is exact: only asked names, each with the call's value -/
theorem C09_named_subset_is_exact (kw : Kwargs) (names : List String) :
    (∀ p ∈ kw.restrict names, p.1 ∈ names ∧ p ∈ kw) ∧
    (∀ p ∈ kw, p.1 ∈ names → p ∈ kw.restrict names) := by
  unfold Kwargs.restrict
  constructor
  · intro p hp
    rw [List.mem_filter] at hp
    exact ⟨by simpa using hp.2, hp.1⟩
  · intro p hp hn
    rw [List.mem_filter]
    exact ⟨hp, by simpa using hn⟩

/-- decoration time: exactly none / exception class / exception instance / function / method are
accepted, everything else is a ValueError - identically for the three hand-copied validations -/
theorem C09_error_argument_validation (e : ErrArg) :
    (validateErrorRequire e = .ok () ↔
      (e = .none ∨ e = .excClass ∨ e = .excInstance ∨ e = .function ∨ e = .method)) ∧
    ((∃ why, validateErrorRequire e = .error (.valueError why)) ↔
      (e = .otherClass ∨ e = .callableObject ∨ e = .otherValue)) ∧
    validateErrorEnsure e = validateErrorRequire e ∧
    validateErrorInvariant e = validateErrorRequire e := by
  cases e <;> simp [validateErrorRequire, validateErrorEnsure, validateErrorInvariant]

/-- a disabled decorator validates nothing; an enabled one rejects a bad `error` at construction -/
theorem C09_validation_happens_at_construction (e : ErrArg) :
    requireInit false e = .ok false ∧ ensureInit false e = .ok false ∧
    (requireInit true e = (validateErrorRequire e).map (fun _ => true)) ∧
    (ensureInit true e = (validateErrorEnsure e).map (fun _ => true)) := by
  cases e <;> simp [requireInit, ensureInit, validateErrorRequire, validateErrorEnsure, Except.map] <;> rfl

end Icontract
