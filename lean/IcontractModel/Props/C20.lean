/-
  C20 - violation messages are deterministic and bounded.
-/
import IcontractModel.Represent
import IcontractModel.Lemmas.SortLemmas
namespace Icontract.Ex

/-- **Independent of keyword-argument order**: the value lines are a function of the *set* of resolved
arguments - any permutation of the (distinct-keyed) keyword arguments gives the identical list of lines. -/
theorem C20_independent_of_argument_order (aRepr : Val → String) (lines : List (String × Val))
    (condParams : List String) (kw kw' : List (String × Val))
    (hp : kw.Perm kw') (hd : (kw.map (·.1)).Nodup) :
    reprValues aRepr lines condParams kw = reprValues aRepr lines condParams kw' := by
  have hs : (selectKwargs condParams kw).mergeSort keyLe = (selectKwargs condParams kw').mergeSort keyLe :=
    mergeSort_keyLe_eq_of_perm (selectKwargs_perm condParams hp) (selectKwargs_keys_nodup condParams hd)
  simp only [reprValues, reprPairs, addArguments, hs]

/-- **Sorted by expression text** -/
theorem C20_lines_sorted_by_text (lines : List (String × Val)) (condParams : List String) (kw : List (String × Val)) :
    (reprPairs lines condParams kw).Pairwise (fun a b => a.1 ≤ b.1) := by
  have h := pairwise_mergeSort_keyLe (addArguments lines (selectKwargs condParams kw))
  simpa only [reprPairs, keyLe, decide_eq_true_eq] using h

/-- **Every value is rendered through the contract's own `a_repr`**, so its size limits apply to every line -/
theorem C20_rendered_through_a_repr (aRepr : Val → String) (lines : List (String × Val))
    (condParams : List String) (kw : List (String × Val)) (L : Nat) (hL : ∀ v, (aRepr v).length ≤ L) :
    ∀ line ∈ reprValues aRepr lines condParams kw,
      ∃ k v, line = k ++ " was " ++ aRepr v ∧ line.length ≤ k.length + 5 + L ∧
        ((k, v) ∈ lines.map id ∨ (k, v) ∈ kw ∨ ∃ v', (k, v') ∈ lines) := by
  intro line hline
  simp only [reprValues, List.mem_map] at hline
  obtain ⟨⟨k, v⟩, hp, rfl⟩ := hline
  refine ⟨k, v, rfl, ?_, ?_⟩
  · have h5 : " was ".length = 5 := by decide
    have := hL v
    simp only [String.length_append, h5]
    omega
  · rcases mem_reprPairs hp with h | ⟨h, _, _⟩
    · exact Or.inl (by simpa using h)
    · exact Or.inr (Or.inl (List.mem_filter.mp h).1)

/-- **Classes, functions, methods, modules, builtins among the arguments are left out**, and so are
`_ARGS` / `_KWARGS` unless the condition names them (unless an expression line already shows that text) -/
theorem C20_unrepresentable_and_placeholders_left_out (lines : List (String × Val)) (condParams : List String)
    (kw : List (String × Val)) (k : String) (v : Val)
    (h : (k, v) ∈ reprPairs lines condParams kw) (hnot : ∀ v', (k, v') ∉ lines) :
    representable v = true ∧ (k, v) ∈ kw ∧
    (k = "_ARGS" → condParams.contains "_ARGS" = true) ∧ (k = "_KWARGS" → condParams.contains "_KWARGS" = true) := by
  rcases mem_reprPairs h with h | ⟨hsel, hr, _⟩
  · exact absurd h (hnot v)
  · unfold selectKwargs at hsel
    obtain ⟨hkw, hf⟩ := List.mem_filter.mp hsel
    simp only [Bool.not_eq_true', Bool.or_eq_false_iff, Bool.and_eq_false_iff, beq_eq_false_iff_ne,
      ne_eq, Bool.not_eq_false'] at hf
    refine ⟨hr, hkw, fun hk => ?_, fun hk => ?_⟩
    · rcases hf.1 with h1 | h1
      · exact absurd hk h1
      · simpa using h1
    · rcases hf.2 with h1 | h1
      · exact absurd hk h1
      · simpa using h1

/-- the message depends on nothing else: same expression lines, same parameters, same arguments, same `a_repr`
give the same lines (no hidden state from earlier calls, no hash order) -/
theorem C20_no_hidden_state (aRepr aRepr' : Val → String) (lines : List (String × Val)) (condParams : List String)
    (kw : List (String × Val)) (h : ∀ v, aRepr v = aRepr' v) :
    reprValues aRepr lines condParams kw = reprValues aRepr' lines condParams kw := by
  have : aRepr = aRepr' := funext h
  rw [this]

end Icontract.Ex
