/-
  C17 - defining a class or decorating a function never changes another's contracts.
  Frame properties of the heap model: which cells and which checker bindings an operation can write.
-/
import IcontractModel.Meta
import IcontractModel.Lemmas.MetaFrame
import IcontractModel.Lemmas.Separation
import IcontractModel.Spec.Override
import IcontractModel.Spec.DagHistoryInv
import IcontractModel.Lemmas.DagInvLemmas
namespace Icontract.Meta

/-- everything introspection can show about the functions and classes that exist in `w` is a function of
the cells below `w.heap.length`, the checker bindings and the class table -/
def Preserves (w w' : World) : Prop :=
  (∀ r < w.heap.length, w'.heap.get r = w.heap.get r) ∧ w.heap.length ≤ w'.heap.length

/-- **Defining a class never writes to an existing list**: every heap cell that existed before the
class statement holds the same list afterwards (the namespace pass only allocates), for every
world, bases, namespace - accepted or not. -/
theorem C17_defineClass_preserves_existing_cells (w w' : World) (k : ClsId) (bases : List ClsId)
    (ns : List (String × Member)) (dbc hook : Bool)
    (h : defineClass w k bases ns dbc hook = .ok w') : Preserves w w' := by
  exact (defineClass_summary w w' k bases ns dbc hook h).1

/-- ... it re-binds the checker attributes of the functions in its own namespace only -/
theorem C17_defineClass_rebinds_only_own_functions (w w' : World) (k : ClsId) (bases : List ClsId)
    (ns : List (String × Member)) (dbc hook : Bool)
    (h : defineClass w k bases ns dbc hook = .ok w')
    (f : FnId) (hf : ∀ p ∈ ns, ∀ which, memberFnId p.2 which ≠ some f) :
    w'.checker? f = w.checker? f := by
  exact (defineClass_summary w w' k bases ns dbc hook h).2.1 f
    (fun ⟨p, hp, which, hw⟩ => hf p hp which hw)

/-- ... and leaves every earlier class's own namespace, invariant references and MRO alone -/
theorem C17_defineClass_keeps_earlier_classes (w w' : World) (k : ClsId) (bases : List ClsId)
    (ns : List (String × Member)) (dbc hook : Bool)
    (h : defineClass w k bases ns dbc hook = .ok w') (hk : w.cls? k = none) :
    ∀ c ∈ w.classes, c ∈ w'.classes := by
  exact (defineClass_summary w w' k bases ns dbc hook h).2.2 hk

/-- **A REFUSED class statement changes nobody else either.**  `DBCMeta.__new__` decorates the namespace before the class
object exists, so a statement that is refused half-way (a weakening precondition, clashing snapshot names, an inconsistent
MRO) has already re-bound the lists of its own member functions (`defineClassResidue`); but no existing list is
written, no class and no hook registration changes, and the checker of every function that is not a member of the
refused class is what it was. -/
theorem C17_rejected_class_statement_stays_in_its_namespace (w : World) (bases : List ClsId)
    (ns : List (String × Member)) :
    Preserves w (defineClassResidue w bases ns) ∧
    (defineClassResidue w bases ns).classes = w.classes ∧
    (defineClassResidue w bases ns).hookCalls = w.hookCalls ∧
    ∀ f, (∀ p ∈ ns, ∀ which, memberFnId p.2 which ≠ some f) →
      (defineClassResidue w bases ns).checker? f = w.checker? f := by
  have h := defineClassResidue_frame bases ns w
  refine ⟨⟨h.heap.1, h.heap.2⟩, h.classes, h.hooks, fun f hf => h.checkers f (fun ⟨p, hp, which, hw⟩ => hf p hp which hw)⟩

/-- hence the contracts of a function that the new class does not define are exactly what they were -/
theorem C17_earlier_function_contracts_unchanged (w w' : World) (k : ClsId) (bases : List ClsId)
    (ns : List (String × Member)) (dbc hook : Bool)
    (h : defineClass w k bases ns dbc hook = .ok w')
    (f : FnId) (hf : ∀ p ∈ ns, ∀ which, memberFnId p.2 which ≠ some f)
    (ck : CheckerObj) (hck : w.checker? f = some ck)
    (hwf : ck.pre < w.heap.length ∧ ck.snaps < w.heap.length ∧ ck.posts < w.heap.length ∧
           ∀ g ∈ w.heap.get ck.pre, g < w.heap.length) :
    preOf w' f = preOf w f ∧ postsOf w' f = postsOf w f ∧ snapsOf w' f = snapsOf w f := by
  have hp := C17_defineClass_preserves_existing_cells w w' k bases ns dbc hook h
  have hc := C17_defineClass_rebinds_only_own_functions w w' k bases ns dbc hook h f hf
  obtain ⟨h1, h2, h3, h4⟩ := hwf
  simp only [preOf, postsOf, snapsOf, hc, hck, hp.1 _ h1, hp.1 _ h2, hp.1 _ h3]
  refine ⟨?_, trivial, trivial⟩
  exact List.map_congr_left (fun g hg => hp.1 g (h4 g hg))

/-- **Decorating a fresh function** (one without a checker yet) writes to no existing cell -/
theorem C17_decorating_fresh_function_preserves (w : World) (f : FnId) (c : CId) (h : w.checker? f = none) :
    Preserves w (addPre w f c) ∧ Preserves w (addPost w f c) := by
  exact ⟨addPre_fresh w f c h, addPost_fresh w f c h⟩

/-- **The invariant decorator on a class that owns its three lists** (always the case for a class on the
contract-inheriting base whose bases carry invariants - C04_subclass_gets_own_invariant_lists - and
for a class receiving its first invariant) writes to those three cells only. -/
theorem C17_invariant_decorator_writes_own_lists_only (w : World) (k : ClsId) (c : CId) (on : CheckOn)
    (cls : Cls) (hc : w.cls? k = some cls) (r1 r2 r3 : Ref)
    (h1 : cls.inv = some r1) (h2 : cls.invCall = some r2) (h3 : cls.invSetattr = some r3)
    (hmro : cls.mro.head? = some k) :
    ∀ r, r ≠ r1 → r ≠ r2 → r ≠ r3 → (addInvariant w k c on).heap.get r = w.heap.get r := by
  intro r hr1 hr2 hr3
  rw [addInvariant_own w k c on cls hc r1 r2 r3 h1 h2 h3 hmro]
  cases on.setattr <;> cases on.call <;>
    simp only [Bool.false_eq_true, if_true, if_false, Heap.get_append_ne _ _ _ _ hr1,
      Heap.get_append_ne _ _ _ _ hr2, Heap.get_append_ne _ _ _ _ hr3]

/-- first invariant of a class with no reachable list: three fresh cells, nothing existing is touched -/
theorem C17_first_invariant_allocates (w : World) (k : ClsId) (c : CId) (on : CheckOn)
    (cls : Cls) (hc : w.cls? k = some cls) (hnone : lookupInv w k .all = none) :
    ∀ r < w.heap.length, (addInvariant w k c on).heap.get r = w.heap.get r := by
  exact (addInvariant_first w k c on cls hc hnone).1

/-- **A late decoration stays local**: when no two functions share a list cell, adding a precondition, a
postcondition (in place, as `@require` / `@ensure` applied to an already contracted member do) to function `f` leaves
everything introspection shows about every other function `g` exactly as it was. -/
theorem C17_late_decoration_stays_local (w : World) (f g : FnId) (c : CId) (hfg : f ≠ g)
    (hsep : Separated w) (hwf : CheckersWf w) (hf : (w.checker? f).isSome = true) :
    (preOf (addPre w f c) g = preOf w g ∧ postsOf (addPre w f c) g = postsOf w g ∧ snapsOf (addPre w f c) g = snapsOf w g) ∧
    (preOf (addPost w f c) g = preOf w g ∧ postsOf (addPost w f c) g = postsOf w g ∧ snapsOf (addPost w f c) g = snapsOf w g) := by
  obtain ⟨ckf, hckf⟩ := Option.isSome_iff_exists.mp hf
  exact ⟨addPre_local w f g c hfg hsep hwf ckf hckf, addPost_local w f g c hfg hsep ckf hckf⟩

/-- **Defining a class keeps the functions separated** (the groups collected from the bases are copied, the three
lists of every member are fresh): so after any history of decorations and class definitions starting from the empty
world a late decoration is local. -/
theorem C17_defineClass_preserves_separation (w w' : World) (k : ClsId) (bases : List ClsId)
    (ns : List (String × Member)) (dbc : Bool)
    (hsep : Separated w) (hwf : CheckersWf w)
    (h : defineClass w k bases ns dbc = .ok w') :
    Separated w' ∧ CheckersWf w' := by
  exact defineClass_sepWf w w' k bases ns dbc true h ⟨hsep, hwf⟩

/-! ### class invariants over inheritance graphs of any shape -/

/-- separation, stated directly: an invariant declared on class `j+1` is in the lists of class `i+1` only if `j+1` is one
of its ancestors (or the class itself) -/
theorem C17_dag_foreign_invariants_never_arrive (ds : List ClassDefI) (hwf : HistWfI ds) (w : World)
    (h : buildHistI {} 1 ds = .ok w) (i j : Nat) (hi : i < ds.length) (hj : j < ds.length) (d : InvDunder) (c : CId)
    (hc : c ∈ ownInvOn ds j d) (hin : c ∈ invOf w (i + 1) d) : (j + 1) ∈ mroOf w (i + 1) := by
  obtain ⟨a, ha, hca⟩ := (buildHistI_observe ds hwf w h i hi d c).mp hin
  have hbd := (buildHistI_mro_bounds ds hwf w h i hi a ha).1
  have e : j = a - 1 := ownInvOn_idx ds hwf j (a - 1) d d c hc hca
  have : j + 1 = a := by omega
  rw [this]
  exact ha

end Icontract.Meta
