/-
  C17 - defining a class or decorating a function never changes another's contracts.
  Frame properties of the heap model: which cells and which checker bindings an operation can write.
-/
import IcontractModel.Meta
namespace Icontract.Meta

/-- everything introspection can show about the functions and classes that exist in `w` is a function of
the cells below `w.heap.length`, the checker bindings and the class table -/
def Preserves (w w' : World) : Prop :=
  (∀ r < w.heap.length, w'.heap.get r = w.heap.get r) ∧ w.heap.length ≤ w'.heap.length

/-- **Defining a class never writes to an existing list**: every heap cell that existed before the
class statement holds the same list afterwards (the namespace pass only allocates), for every
world, bases, namespace - accepted or not. -/
theorem C17_defineClass_preserves_existing_cells (w w' : World) (k : ClsId) (bases : List ClsId)
    (ns : List (String × Member)) (dbc hook : Bool)
    (h : defineClass w k bases ns dbc hook = .ok w') : Preserves w w' := by
  sorry

/-- ... it re-binds the checker attributes of the functions in its own namespace only -/
theorem C17_defineClass_rebinds_only_own_functions (w w' : World) (k : ClsId) (bases : List ClsId)
    (ns : List (String × Member)) (dbc hook : Bool)
    (h : defineClass w k bases ns dbc hook = .ok w')
    (f : FnId) (hf : ∀ p ∈ ns, ∀ which, memberFnId p.2 which ≠ some f) :
    w'.checker? f = w.checker? f := by
  sorry

/-- ... and leaves every earlier class's own namespace, invariant references and MRO alone -/
theorem C17_defineClass_keeps_earlier_classes (w w' : World) (k : ClsId) (bases : List ClsId)
    (ns : List (String × Member)) (dbc hook : Bool)
    (h : defineClass w k bases ns dbc hook = .ok w') (hk : w.cls? k = none) :
    ∀ c ∈ w.classes, c ∈ w'.classes := by
  sorry

/-- hence the contracts of a function that the new class does not define are exactly what they were -/
theorem C17_earlier_function_contracts_unchanged (w w' : World) (k : ClsId) (bases : List ClsId)
    (ns : List (String × Member)) (dbc hook : Bool)
    (h : defineClass w k bases ns dbc hook = .ok w')
    (f : FnId) (hf : ∀ p ∈ ns, ∀ which, memberFnId p.2 which ≠ some f)
    (ck : CheckerObj) (hck : w.checker? f = some ck)
    (hwf : ck.pre < w.heap.length ∧ ck.snaps < w.heap.length ∧ ck.posts < w.heap.length ∧
           ∀ g ∈ w.heap.get ck.pre, g < w.heap.length) :
    preOf w' f = preOf w f ∧ postsOf w' f = postsOf w f ∧ snapsOf w' f = snapsOf w f := by
  sorry

/-- **Decorating a fresh function** (one without a checker yet) writes to no existing cell -/
theorem C17_decorating_fresh_function_preserves (w : World) (f : FnId) (c : CId) (h : w.checker? f = none) :
    Preserves w (addPre w f c) ∧ Preserves w (addPost w f c) := by
  sorry

/-- **The invariant decorator on a class that owns its three lists** (always the case for a class on the
contract-inheriting base whose bases carry invariants - C04_subclass_gets_own_invariant_lists - and
for a class receiving its first invariant) writes to those three cells only. -/
theorem C17_invariant_decorator_writes_own_lists_only (w : World) (k : ClsId) (c : CId) (on : CheckOn)
    (cls : Cls) (hc : w.cls? k = some cls) (r1 r2 r3 : Ref)
    (h1 : cls.inv = some r1) (h2 : cls.invCall = some r2) (h3 : cls.invSetattr = some r3)
    (hmro : cls.mro.head? = some k) :
    ∀ r, r ≠ r1 → r ≠ r2 → r ≠ r3 → (addInvariant w k c on).heap.get r = w.heap.get r := by
  sorry

/-- first invariant of a class with no reachable list: three fresh cells, nothing existing is touched -/
theorem C17_first_invariant_allocates (w : World) (k : ClsId) (c : CId) (on : CheckOn)
    (cls : Cls) (hc : w.cls? k = some cls) (hnone : lookupInv w k .all = none) :
    ∀ r < w.heap.length, (addInvariant w k c on).heap.get r = w.heap.get r := by
  sorry

end Icontract.Meta
