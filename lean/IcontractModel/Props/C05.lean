/-
  C05 - contracts observe the same argument values the body receives.  Statements only.
  `pyAccepts` / `pyValue` (Spec/PyBind.lean) are CPython's binding, validated against real
  calls on every run; `resolveCall` is the library's `kwargs_from_call` on what
  `decorate_with_checker` pre-computes from the signature.
-/
import IcontractModel.Spec.PyBind
import IcontractModel.Lemmas.Capture
import IcontractModel.Lemmas.BindLemmas
namespace Icontract

/-- **Every non-variadic parameter** (positional-only, positional-or-keyword, keyword-only; explicit
or defaulted) of every well-formed signature is resolved, for every call Python accepts, to exactly
the object the body receives. -/
theorem C05_nonvariadic_parameter_is_body_value (sig : Signature) (args : List Id) (kwargs : List (String × Id))
    (hwf : sig.wf = true) (hacc : pyAccepts sig args kwargs = true)
    (hres : ∀ p ∈ sig, p.name ≠ "_ARGS" ∧ p.name ≠ "_KWARGS")
    (p : Param) (hp : p ∈ sig) (hnv : p.isVariadic = false) :
    (resolveCall sig args kwargs).get? p.name = (pyValue sig args kwargs p).map Val.obj ∧
    (pyValue sig args kwargs p).isSome = true := by
  have _ := hres  -- not needed: an accepted call gives `p` a value, which overwrites any placeholder
  exact resolveCall_nonvariadic sig args kwargs hwf hacc p hp hnv

/-- `_ARGS` is the tuple of the call's positional arguments and `_KWARGS` the dict of its keyword
arguments (no parameter or keyword may be so named: C19). -/
theorem C05_args_kwargs_placeholders (sig : Signature) (args : List Id) (kwargs : List (String × Id))
    (hres : ∀ p ∈ sig, p.name ≠ "_ARGS" ∧ p.name ≠ "_KWARGS")
    (hkw : ∀ kv ∈ kwargs, kv.1 ≠ "_ARGS" ∧ kv.1 ≠ "_KWARGS") :
    (resolveCall sig args kwargs).get? "_ARGS" = some (.tuple args) ∧
    (resolveCall sig args kwargs).get? "_KWARGS" = some (.dict kwargs) := by
  constructor
  · rw [resolveCall_get?_of_not_mem sig args kwargs "_ARGS" (fun p hp => (hres p hp).1) (fun kv h => (hkw kv h).1)]
    rfl
  · rw [resolveCall_get?_of_not_mem sig args kwargs "_KWARGS" (fun p hp => (hres p hp).2) (fun kv h => (hkw kv h).2)]
    rfl

/-- a name that is neither a parameter, nor a keyword of the call, nor a placeholder is not resolved -/
theorem C05_unprovided_name_is_unresolved (sig : Signature) (args : List Id) (kwargs : List (String × Id))
    (n : String) (h1 : ∀ p ∈ sig, p.name ≠ n) (h2 : ∀ kv ∈ kwargs, kv.1 ≠ n)
    (h3 : n ≠ "_ARGS" ∧ n ≠ "_KWARGS") :
    (resolveCall sig args kwargs).has n = false := by
  have hA : ("_ARGS" == n) = false := by simpa using fun e => h3.1 e.symm
  have hK : ("_KWARGS" == n) = false := by simpa using fun e => h3.2 e.symm
  rw [Kwargs.has_eq_isSome, resolveCall_get?_of_not_mem sig args kwargs n h1 h2]
  simp [Kwargs.get?, hA, hK]

/-- ... and a condition / capture / error factory asking for an unresolved name makes the call fail
with a TypeError naming it; nothing is evaluated with a wrong value (the selection raises before
the callable is called: its trace is empty). -/
theorem C05_missing_name_is_type_error (kw : Kwargs) (n : String) (hn : kw.has n = false) :
    (∀ c : Contract, n ∈ c.mandatory →
      ∃ ns, n ∈ ns ∧ selectConditionKwargs c kw = ⟨[], .error (.typeErr (.missingCondArgs c.id ns))⟩) ∧
    (∀ s : Snapshot, n ∈ s.args →
      ∃ ns, n ∈ ns ∧ selectCaptureKwargs s kw = ⟨[], .error (.typeErr (.missingCaptureArgs s.id ns))⟩) ∧
    (∀ (cid : CId) (errArgs : List String), n ∈ errArgs →
      ∃ ns, n ∈ ns ∧ selectErrorKwargs cid errArgs kw = ⟨[], .error (.typeErr (.missingErrorArgs cid ns))⟩) := by
  have hmiss : ∀ wanted : List String, n ∈ wanted →
      n ∈ missingNames wanted kw ∧ (missingNames wanted kw).isEmpty = false := by
    intro wanted hw
    have hm : n ∈ missingNames wanted kw := by
      unfold missingNames
      exact List.mem_filter.mpr ⟨hw, by simp [hn]⟩
    refine ⟨hm, ?_⟩
    cases hl : missingNames wanted kw with
    | nil => rw [hl] at hm; cases hm
    | cons a l => rfl
  refine ⟨?_, ?_, ?_⟩
  · intro c hc
    obtain ⟨hm, he⟩ := hmiss c.mandatory hc
    exact ⟨_, hm, by simp [selectConditionKwargs, he, Res.raise]⟩
  · intro s hs
    obtain ⟨hm, he⟩ := hmiss s.args hs
    exact ⟨_, hm, by simp [selectCaptureKwargs, he, Res.raise]⟩
  · intro cid errArgs hc
    obtain ⟨hm, he⟩ := hmiss errArgs hc
    exact ⟨_, hm, by simp [selectErrorKwargs, he, Res.raise]⟩

/-- what a callable receives is exactly the restriction of the resolved arguments to the names it asks
for: every received pair is a resolved pair, and every resolved pair with an asked name is received -/
theorem C05_selection_is_restriction (c : Contract) (kw sel : Kwargs)
    (h : (selectConditionKwargs c kw).out = .ok sel) :
    sel = kw.restrict c.args ∧ (∀ p ∈ sel, p.1 ∈ c.args ∧ p ∈ kw) ∧ (∀ p ∈ kw, p.1 ∈ c.args → p ∈ sel) := by
  have hsel : sel = kw.restrict c.args := by
    unfold selectConditionKwargs at h
    by_cases hm : (missingNames c.mandatory kw).isEmpty = true
    · simp only [hm, if_true, Res.pure_out, Except.ok.injEq] at h
      exact h.symm
    · simp only [hm, Bool.false_eq_true, if_false, Res.raise_out] at h
      cases h
  subst hsel
  unfold Kwargs.restrict
  refine ⟨rfl, ?_, ?_⟩
  · intro p hp
    rw [List.mem_filter] at hp
    exact ⟨by simpa using hp.2, hp.1⟩
  · intro p hp hn
    rw [List.mem_filter]
    exact ⟨hp, by simpa using hn⟩

/-- postconditions additionally get `result` and `OLD` -/
theorem C05_postconditions_get_result_and_old (ck : Checker) (kw : Kwargs) (old : List (String × Id)) (r : Id)
    (h : (!ck.posts.isEmpty && !ck.snaps.isEmpty) = true) :
    (postKwargs ck kw old r).get? "result" = some (.obj r) ∧ (postKwargs ck kw old r).get? "OLD" = some (.old old) := by
  unfold postKwargs
  simp only [h, if_true]
  exact ⟨Kwargs.get?_set_self _ _ _, by rw [Kwargs.get?_set_ne _ _ _ _ (by decide), Kwargs.get?_set_self]⟩

end Icontract
