/-
  Interpreter mode, `ICONTRACT_SLOW`, and the `enabled` argument
  (icontract/_globals.py:29; the `enabled: bool = __debug__` defaults of the four decorators).
-/
namespace Icontract

inductive Mode where
  | normal | O | OO
deriving DecidableEq, Repr, Inhabited

/-- value of the environment variable ICONTRACT_SLOW when the library is imported -/
inductive EnvSlow where
  | unset | empty | nonEmpty
deriving DecidableEq, Repr, Inhabited

/-- `__debug__` -/
def Mode.debug : Mode → Bool
  | .normal => true
  | _ => false

/-- `SLOW = __debug__ and os.environ.get("ICONTRACT_SLOW", "") != ""` -/
def slowFlag (m : Mode) (e : EnvSlow) : Bool :=
  m.debug && (match e with | .nonEmpty => true | _ => false)

/-- how the user sets `enabled=` -/
inductive EnabledArg where
  | dflt            -- omitted: `__debug__`
  | explicitTrue
  | explicitFalse
  | slow            -- `enabled=icontract.SLOW`
deriving DecidableEq, Repr, Inhabited

def enabledValue (m : Mode) (e : EnvSlow) : EnabledArg → Bool
  | .dflt => m.debug
  | .explicitTrue => true
  | .explicitFalse => false
  | .slow => slowFlag m e

inductive DecoKind where
  | require | ensure | snapshot | invariant
  | requireOnChecker | ensureOnChecker       -- applied to a function that already carries a contract checker
deriving DecidableEq, Repr, Inhabited

/-- What applying a decorator does to its argument when it is not enabled:
the four `__call__`s start with `if not self.enabled: return func` (lines 117, 195, 318, 471). -/
structure Applied where
  sameObject : Bool          -- the very object that was passed in is returned
  attrsAdded : Bool          -- some attribute was set on it
  conditionStored : Bool     -- the condition / capture was even stored (a Contract / Snapshot was built)
deriving DecidableEq, Repr, Inhabited

def applyDecorator (k : DecoKind) (enabled : Bool) : Applied :=
  if enabled then
    -- `snapshot` returns `func` and `invariant` returns `cls` (mutated in place); `require`/`ensure`
    -- applied to a bare function return the new checker
    -- (on a function that already has a checker they extend its lists and return `func`)
    { sameObject := (match k with | .snapshot | .invariant | .requireOnChecker | .ensureOnChecker => true | _ => false),
      attrsAdded := true, conditionStored := true }
  else { sameObject := true, attrsAdded := false, conditionStored := false }

/-- A library `assert`: under `-O`/`-OO` it is not executed at all. -/
def assertStep (m : Mode) (cond : Bool) : Bool := !m.debug || cond

end Icontract
