/-
  Decorator stacks (icontract/_decorators.py `require/ensure/snapshot.__call__`,
  icontract/_checkers.py:30-53 `find_checker`) and class instantiation around the `__new__`
  wrapper (icontract/_checkers.py:951-978, 1275-1284).

  A decorated callable is a chain of wrapper objects linked by `__wrapped__`; a foreign
  `functools.wraps` decorator copies `__dict__` (hence also the *references* to the three contract
  lists), so every layer above the checker shows the attributes too - `find_checker` therefore takes
  the *innermost* object that has them, which is the one checker.
-/
namespace Icontract.Stack

inductive Deco where
  | require (c : Nat)
  | ensure (c : Nat)
  | snapshot (s : Nat)
  | foreign (g : Nat)
deriving DecidableEq, Repr, Inhabited

inductive Layer where
  | checker
  | foreign (g : Nat)
deriving DecidableEq, Repr, Inhabited

/-- outermost layer first; the bare function sits below the last layer -/
structure FObj where
  layers : List Layer := []
  pre : List Nat := []
  posts : List Nat := []
  snaps : List Nat := []
deriving DecidableEq, Repr, Inhabited

def FObj.hasChecker (o : FObj) : Bool := o.layers.contains .checker

inductive DecoErr where
  | snapshotWithoutPostcondition
deriving DecidableEq, Repr, Inhabited

/-- applying one decorator to the callable `o` and taking what the decorator returns:
a contract decorator returns the function it was given when a checker already exists
(all layers stay), or the new checker around it -/
def applyDeco (o : FObj) : Deco → Except DecoErr FObj
  | .foreign g => .ok { o with layers := .foreign g :: o.layers }
  | .require c =>
      if o.hasChecker then .ok { o with pre := o.pre ++ [c] }
      else .ok { o with layers := .checker :: o.layers, pre := o.pre ++ [c] }
  | .ensure c =>
      if o.hasChecker then .ok { o with posts := o.posts ++ [c] }
      else .ok { o with layers := .checker :: o.layers, posts := o.posts ++ [c] }
  | .snapshot s =>
      if !o.hasChecker || o.posts.isEmpty then .error .snapshotWithoutPostcondition
      else .ok { o with snaps := o.snaps ++ [s] }

/-- decorators are applied bottom-up: the head of the list is the one nearest the function -/
def applyAll (ds : List Deco) (o : FObj) : Except DecoErr FObj := ds.foldlM applyDeco o

inductive CallEv where
  | foreignRan (g : Nat)
  | checked
  | body
deriving DecidableEq, Repr, Inhabited

/-- what runs when the decorated callable is called with satisfied contracts: every layer, outermost first -/
def callTrace (o : FObj) : List CallEv :=
  o.layers.map (fun l => match l with | .checker => .checked | .foreign g => .foreignRan g) ++ [.body]

def Deco.isContract : Deco → Bool
  | .require _ | .ensure _ => true
  | _ => false

def foreignIds (ds : List Deco) : List Nat := ds.filterMap (fun d => match d with | .foreign g => some g | _ => none)
def requireIds (ds : List Deco) : List Nat := ds.filterMap (fun d => match d with | .require c => some c | _ => none)
def ensureIds (ds : List Deco) : List Nat := ds.filterMap (fun d => match d with | .ensure c => some c | _ => none)
def layerForeignIds (ls : List Layer) : List Nat := ls.filterMap (fun l => match l with | .foreign g => some g | _ => none)

/-! ### instantiation: CPython's `object.__new__` / `object.__init__` excess-argument rule -/

/-- what `type.__call__(cls, *args)` meets for `cls` -/
structure CtorShape where
  userNew : Bool        -- some class of the MRO defines `__new__` in Python (it calls `super().__new__(cls)`)
  userInit : Bool       -- some class of the MRO defines `__init__` in Python
  initArity : Nat       -- number of arguments that `__init__` accepts besides the receiver (when defined)
deriving DecidableEq, Repr, Inhabited

/-- does `cls(*args)` with `n` arguments succeed when nothing is decorated -/
def instantiatePlain (s : CtorShape) (n : Nat) : Bool :=
  if s.userInit then n == s.initArity          -- `object.__new__` tolerates the arguments: `__init__` is overridden, `__new__` is not (or drops them)
  else n == 0                                   -- `object.__init__` / `object.__new__` reject excess arguments

/-- ... and when the library has put its `__new__` wrapper on a base that has no `__init__` of its own:
`tp_new` is overridden now, so `object.__new__` would reject the arguments meant for a subclass's `__init__`
unless the wrapper drops them (`wrapperDropsArgs`: the repaired code) -/
def instantiateWithNewWrapper (wrapperDropsArgs : Bool) (s : CtorShape) (n : Nat) : Bool :=
  if s.userInit then
    (if s.userNew || wrapperDropsArgs then n == s.initArity else n == 0 && s.initArity == 0)
  else n == 0

end Icontract.Stack
