/-
  C10 helper lemmas: more fuel never changes a finished evaluation.
-/
import IcontractModel.Lemmas.ReentryMem
namespace Icontract.Re

theorem andThen_snd_timeout {σ} {r : σ × Out} (k : σ → σ × Out) (h : r.2 = .timeout) :
    (andThen r k).2 = .timeout := by
  rw [andThen_ne k (by rw [h]; exact fun e => Out.noConfusion e)]; exact h

theorem andThen_mono {σ} {r r' : σ × Out} {k k' : σ → σ × Out}
    (h : (andThen r k).2 ≠ .timeout) (h1 : r.2 ≠ .timeout → r' = r)
    (h2 : ∀ s, (k s).2 ≠ .timeout → k' s = k s) : andThen r' k' = andThen r k := by
  have hr : r.2 ≠ .timeout := fun e => h (andThen_snd_timeout k e)
  rw [h1 hr]
  by_cases hok : r.2 = .ok
  · rw [andThen_ok k hok] at h
    rw [andThen_ok k hok, andThen_ok k' hok, h2 _ h]
  · rw [andThen_ne k hok, andThen_ne k' hok]

theorem run_fuel_mono (p : Program) (v : Variant) : ∀ (n : Nat) (st : St) (cmd : Cmd),
    (run p v n st cmd).2 ≠ .timeout → run p v (n + 1) st cmd = run p v n st cmd := by
  intro n
  induction n with
  | zero => intro st cmd h; rw [run_zero] at h; exact (h rfl).elim
  | succ n ih =>
    intro st cmd
    have hcond : ∀ (st0 : St) (c : Script) (t : Bool) (cmd' : Cmd) (o : Out),
        (andThen (run p v n st0 (.script c))
          (fun st' => if t then run p v n st' cmd' else (st', o))).2 ≠ .timeout →
        andThen (run p v (n+1) st0 (.script c))
          (fun st' => if t then run p v (n+1) st' cmd' else (st', o)) =
        andThen (run p v n st0 (.script c))
          (fun st' => if t then run p v n st' cmd' else (st', o)) := by
      intro st0 c t cmd' o h
      apply andThen_mono h (ih _ _)
      intro s hs
      cases t with
      | true => simp only [if_true] at hs ⊢; exact ih _ _ hs
      | false => rfl
    cases cmd with
    | script s => rw [run_script, run_script]; exact ih _ _
    | acts as =>
      cases as with
      | nil => intro _; rw [run_acts_nil, run_acts_nil]
      | cons a rest =>
        rw [run_acts_cons, run_acts_cons]
        intro h
        exact andThen_mono h (ih _ _) (fun s hs => ih _ _ hs)
    | pres f k cs =>
      cases cs with
      | nil => intro _; rw [run_pres_nil, run_pres_nil]
      | cons c cs => rw [run_pres_cons, run_pres_cons]; exact hcond _ _ _ _ _
    | posts f k cs =>
      cases cs with
      | nil => intro _; rw [run_posts_nil, run_posts_nil]
      | cons c cs => rw [run_posts_cons, run_posts_cons]; exact hcond _ _ _ _ _
    | invs f k cs =>
      cases cs with
      | nil => intro _; rw [run_invs_nil, run_invs_nil]
      | cons c cs => rw [run_invs_cons, run_invs_cons]; exact hcond _ _ _ _ _
    | act a =>
      cases a with
      | callFn f =>
        cases h : p.fn? f with
        | none => intro _; rw [run_callFn_none _ _ _ _ _ h, run_callFn_none _ _ _ _ _ h]
        | some d =>
          cases hc : st.s.contains (.fn f) with
          | true =>
            rw [run_callFn_bare _ _ _ _ _ _ h hc, run_callFn_bare _ _ _ _ _ _ h hc]
            intro hh
            rw [ih _ _ hh]
          | false =>
            rw [run_callFn_checked _ _ _ _ _ _ h hc, run_callFn_checked _ _ _ _ _ _ h hc]
            intro hh
            rw [fin_snd] at hh
            congr 1
            apply andThen_mono hh (ih _ _)
            intro st1 h1
            apply andThen_mono h1 (ih _ _)
            intro st2 h2
            exact ih _ _ h2
      | callMethod i m =>
        rcases p.meth?_cases i m with h | ⟨c, md, h⟩
        · intro _; rw [run_callMethod_none _ _ _ _ _ _ h, run_callMethod_none _ _ _ _ _ _ h]
        · cases hc : (!md.guarded || st.s.contains (.inst i)) with
          | true =>
            rw [run_callMethod_bare _ _ _ _ _ _ _ _ h hc, run_callMethod_bare _ _ _ _ _ _ _ _ h hc]
            exact ih _ _
          | false =>
            rw [run_callMethod_checked _ _ _ _ _ _ _ _ h hc, run_callMethod_checked _ _ _ _ _ _ _ _ h hc]
            intro hh
            rw [fin_snd] at hh
            congr 1
            apply andThen_mono hh (ih _ _)
            intro st1 h1
            apply andThen_mono h1 (ih _ _)
            intro st2 h2
            exact ih _ _ h2
      | construct i => rw [run_construct, run_construct]; exact ih _ _
      | superInit i cid =>
        cases h : p.cls? cid with
        | none => intro _; rw [run_superInit_none _ _ _ _ _ _ h, run_superInit_none _ _ _ _ _ _ h]
        | some c =>
          cases hc : (!c.initWrapped || (v.ctorTestsMembership && st.s.contains (.inst i))) with
          | true =>
            rw [run_superInit_bare _ _ _ _ _ _ _ h hc, run_superInit_bare _ _ _ _ _ _ _ h hc]
            exact ih _ _
          | false =>
            rw [run_superInit_checked _ _ _ _ _ _ _ h hc, run_superInit_checked _ _ _ _ _ _ _ h hc]
            intro hh
            rw [fin_snd] at hh
            congr 1
            apply andThen_mono hh (ih _ _)
            intro st1 h1
            exact ih _ _ h1

theorem run_fuel_mono_le (p : Program) (v : Variant) {n m : Nat} (hnm : n ≤ m) (st : St) (cmd : Cmd)
    (h : (run p v n st cmd).2 ≠ .timeout) : run p v m st cmd = run p v n st cmd := by
  induction hnm with
  | refl => rfl
  | step _ ih => rw [run_fuel_mono _ _ _ _ _ (by rw [ih]; exact h), ih]

end Icontract.Re
