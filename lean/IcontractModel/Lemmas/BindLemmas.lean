/-
  `kwargs_from_call` read back: what `Kwargs.get?` finds after `bindDefaults`,
  `bindPositionals`, `bindKeywords`; shape of `sigParamNames` for ordered signatures.
  Used by `Props/C05.lean`.
-/
import IcontractModel.Spec.PyBind
import IcontractModel.Lemmas.Capture
namespace Icontract

/-! ### `Kwargs.has` -/

theorem Kwargs.has_eq_isSome (kw : Kwargs) (n : String) : kw.has n = (kw.get? n).isSome := by
  induction kw with
  | nil => rfl
  | cons p rest ih =>
    obtain ⟨k, w⟩ := p
    unfold Kwargs.has at ih ⊢
    by_cases hk : (k == n) = true
    · simp [Kwargs.get?, hk]
    · simp only [Bool.not_eq_true] at hk
      simp [Kwargs.get?, hk, ih]

/-! ### `bindDefaults` -/

theorem bindDefaults_cons (k : String) (v : Id) (rest : List (String × Id)) (kw : Kwargs) :
    bindDefaults ((k, v) :: rest) kw = bindDefaults rest (kw.set k (.obj v)) := rfl

theorem bindDefaults_get?_of_not_mem (dfl : List (String × Id)) (kw : Kwargs) (n : String)
    (h : n ∉ dfl.map (·.1)) : (bindDefaults dfl kw).get? n = kw.get? n := by
  induction dfl generalizing kw with
  | nil => rfl
  | cons x rest ih =>
    obtain ⟨k, v⟩ := x
    simp only [List.map_cons, List.mem_cons, not_or] at h
    rw [bindDefaults_cons, ih _ h.2, Kwargs.get?_set_ne _ _ _ _ h.1]

theorem sigKwdefaults_cons (q : Param) (rest : Signature) :
    sigKwdefaults (q :: rest) =
      (match q.default with
       | some d => (q.name, d) :: sigKwdefaults rest
       | none => sigKwdefaults rest) := by
  unfold sigKwdefaults
  cases h : q.default <;> simp [h]

theorem sigKwdefaults_keys_subset (sig : Signature) (n : String)
    (h : n ∈ (sigKwdefaults sig).map (·.1)) : n ∈ sig.map (·.name) := by
  induction sig with
  | nil => simp [sigKwdefaults] at h
  | cons q rest ih =>
    rw [sigKwdefaults_cons] at h
    cases hd : q.default with
    | none =>
      simp only [hd] at h
      exact List.mem_cons_of_mem _ (ih h)
    | some d =>
      simp only [hd, List.map_cons, List.mem_cons] at h
      rcases h with h | h
      · simp [h]
      · exact List.mem_cons_of_mem _ (ih h)

/-- after the defaults, a parameter with a default is bound to it, any other name is untouched -/
theorem bindDefaults_sig_get? (sig : Signature) (kw : Kwargs) (p : Param)
    (hnd : (sig.map (·.name)).Nodup) (hp : p ∈ sig) :
    (bindDefaults (sigKwdefaults sig) kw).get? p.name =
      (match p.default with
       | some d => some (.obj d)
       | none => kw.get? p.name) := by
  induction sig generalizing kw with
  | nil => cases hp
  | cons q rest ih =>
    simp only [List.map_cons, List.nodup_cons] at hnd
    rw [sigKwdefaults_cons]
    rcases List.mem_cons.mp hp with hpq | hpr
    · subst hpq
      have hnot : p.name ∉ (sigKwdefaults rest).map (·.1) :=
        fun h => hnd.1 (sigKwdefaults_keys_subset rest _ h)
      cases hd : p.default with
      | none => simp only []; exact bindDefaults_get?_of_not_mem _ _ _ hnot
      | some d =>
        simp only []
        rw [bindDefaults_cons, bindDefaults_get?_of_not_mem _ _ _ hnot, Kwargs.get?_set_self]
    · have hne : p.name ≠ q.name := by
        intro h
        exact hnd.1 (h ▸ List.mem_map_of_mem hpr)
      cases hd : q.default with
      | none => simp only []; exact ih kw hnd.2 hpr
      | some d =>
        simp only []
        rw [bindDefaults_cons, ih _ hnd.2 hpr, Kwargs.get?_set_ne _ _ _ _ hne]

/-! ### `bindPositionals` -/

/-- the positional argument matched against name `n` (first match) -/
def posLookup : List String → List Id → String → Option Id
  | p :: ps, a :: as, n => if p == n then some a else posLookup ps as n
  | _, _, _ => none

theorem posLookup_of_not_mem (names : List String) (args : List Id) (n : String) (h : n ∉ names) :
    posLookup names args n = none := by
  induction names generalizing args with
  | nil => simp [posLookup]
  | cons p ps ih =>
    simp only [List.mem_cons, not_or] at h
    cases args with
    | nil => simp [posLookup]
    | cons a as =>
      have : (p == n) = false := by simpa using fun e => h.1 e.symm
      simp only [posLookup, this, Bool.false_eq_true, if_false]
      exact ih as h.2

theorem posLookup_eq (names : List String) (args : List Id) (n : String) :
    posLookup names args n = if n ∈ names then args[names.idxOf n]? else none := by
  induction names generalizing args with
  | nil => simp [posLookup]
  | cons p ps ih =>
    cases args with
    | nil => simp [posLookup]
    | cons a as =>
      by_cases hpn : p = n
      · subst hpn
        simp [posLookup]
      · have hb : (p == n) = false := by simpa using hpn
        have hnp : ¬ n = p := fun e => hpn e.symm
        simp only [posLookup, hb, Bool.false_eq_true, if_false, ih as, List.mem_cons, hnp, false_or,
          List.idxOf_cons, cond_false, List.getElem?_cons_succ]

theorem posLookup_append_left (A B : List String) (args : List Id) (n : String) (h : n ∈ A) :
    posLookup (A ++ B) args n = posLookup A args n := by
  rw [posLookup_eq, posLookup_eq, List.idxOf_append]
  simp [h]

theorem bindPositionals_get? (names : List String) (args : List Id) (kw : Kwargs) (n : String)
    (hnd : names.Nodup) :
    (bindPositionals names args kw).get? n =
      (match posLookup names args n with
       | some a => some (.obj a)
       | none => kw.get? n) := by
  induction names generalizing args kw with
  | nil => simp [bindPositionals, posLookup]
  | cons p ps ih =>
    cases args with
    | nil => simp [bindPositionals, posLookup]
    | cons a as =>
      rw [List.nodup_cons] at hnd
      simp only [bindPositionals, posLookup]
      rw [ih as _ hnd.2]
      by_cases hpn : p = n
      · subst hpn
        simp [posLookup_of_not_mem ps as p hnd.1, Kwargs.get?_set_self]
      · have hb : (p == n) = false := by simpa using hpn
        simp only [hb, Bool.false_eq_true, if_false]
        rw [Kwargs.get?_set_ne _ _ _ _ (fun e => hpn e.symm)]

theorem bindPositionals_get?_of_not_mem (names : List String) (args : List Id) (kw : Kwargs) (n : String)
    (h : n ∉ names) : (bindPositionals names args kw).get? n = kw.get? n := by
  induction names generalizing args kw with
  | nil => simp [bindPositionals]
  | cons p ps ih =>
    simp only [List.mem_cons, not_or] at h
    cases args with
    | nil => simp [bindPositionals]
    | cons a as =>
      simp only [bindPositionals]
      rw [ih as _ h.2, Kwargs.get?_set_ne _ _ _ _ h.1]

/-! ### `bindKeywords` -/

theorem kwLookup_of_not_mem (kwargs : List (String × Id)) (n : String) (h : n ∉ kwargs.map (·.1)) :
    kwLookup kwargs n = none := by
  induction kwargs with
  | nil => rfl
  | cons x rest ih =>
    obtain ⟨k, v⟩ := x
    simp only [List.map_cons, List.mem_cons, not_or] at h
    have : (k == n) = false := by simpa using fun e => h.1 e.symm
    simp only [kwLookup, this, Bool.false_eq_true, if_false]
    exact ih h.2

theorem kwLookup_mem (kwargs : List (String × Id)) (n : String) (v : Id) (h : kwLookup kwargs n = some v) :
    (n, v) ∈ kwargs := by
  induction kwargs with
  | nil => simp [kwLookup] at h
  | cons x rest ih =>
    obtain ⟨k, w⟩ := x
    by_cases hk : k = n
    · subst hk
      simp [kwLookup] at h
      simp [h]
    · have : (k == n) = false := by simpa using hk
      simp only [kwLookup, this, Bool.false_eq_true, if_false] at h
      exact List.mem_cons_of_mem _ (ih h)

theorem bindKeywords_get?_of_not_mem (posOnly : List String) (kwargs : List (String × Id)) (kw : Kwargs)
    (n : String) (h : n ∉ kwargs.map (·.1)) :
    (bindKeywords posOnly kwargs kw).get? n = kw.get? n := by
  induction kwargs generalizing kw with
  | nil => rfl
  | cons x rest ih =>
    obtain ⟨k, v⟩ := x
    simp only [List.map_cons, List.mem_cons, not_or] at h
    unfold bindKeywords
    by_cases hc : posOnly.contains k = true
    · simp only [hc, if_true]; exact ih kw h.2
    · simp only [hc, Bool.false_eq_true, if_false]
      rw [ih _ h.2, Kwargs.get?_set_ne _ _ _ _ h.1]

theorem bindKeywords_get? (posOnly : List String) (kwargs : List (String × Id)) (kw : Kwargs) (n : String)
    (hnd : (kwargs.map (·.1)).Nodup) :
    (bindKeywords posOnly kwargs kw).get? n =
      if posOnly.contains n then kw.get? n
      else (match kwLookup kwargs n with
            | some v => some (.obj v)
            | none => kw.get? n) := by
  induction kwargs generalizing kw with
  | nil => simp [bindKeywords, kwLookup]
  | cons x rest ih =>
    obtain ⟨k, v⟩ := x
    simp only [List.map_cons, List.nodup_cons] at hnd
    unfold bindKeywords
    by_cases hkn : k = n
    · subst hkn
      have hl : kwLookup rest k = none := kwLookup_of_not_mem _ _ hnd.1
      by_cases hc : posOnly.contains k = true
      · simp only [hc, if_true]
        rw [bindKeywords_get?_of_not_mem _ _ _ _ hnd.1]
      · simp only [hc, Bool.false_eq_true, if_false]
        rw [bindKeywords_get?_of_not_mem _ _ _ _ hnd.1, Kwargs.get?_set_self]
        simp [kwLookup]
    · have hb : (k == n) = false := by simpa using hkn
      have hl : kwLookup ((k, v) :: rest) n = kwLookup rest n := by simp [kwLookup, hb]
      rw [hl]
      by_cases hc : posOnly.contains k = true
      · simp only [hc, if_true]; exact ih kw hnd.2
      · simp only [hc, Bool.false_eq_true, if_false]
        rw [ih _ hnd.2, Kwargs.get?_set_ne _ _ _ _ (fun e => hkn e.symm)]

/-! ### signatures -/

/-- distinct names: a parameter is determined by its name -/
theorem param_eq_of_name_eq (sig : Signature) (hnd : (sig.map (·.name)).Nodup) (p q : Param)
    (hp : p ∈ sig) (hq : q ∈ sig) (h : p.name = q.name) : p = q := by
  induction sig with
  | nil => cases hp
  | cons r rest ih =>
    simp only [List.map_cons, List.nodup_cons] at hnd
    rcases List.mem_cons.mp hp with hp | hp <;> rcases List.mem_cons.mp hq with hq | hq
    · rw [hp, hq]
    · refine absurd ?_ hnd.1
      rw [← hp, h]; exact List.mem_map_of_mem hq
    · refine absurd ?_ hnd.1
      rw [← hq, ← h]; exact List.mem_map_of_mem hp
    · exact ih hnd.2 hp hq

theorem name_mem_filter (sig : Signature) (hnd : (sig.map (·.name)).Nodup) (f : Param → Bool) (p : Param)
    (hp : p ∈ sig) : p.name ∈ (sig.filter f).map (·.name) ↔ f p = true := by
  constructor
  · intro h
    obtain ⟨q, hq, hqn⟩ := List.mem_map.mp h
    rw [List.mem_filter] at hq
    have := param_eq_of_name_eq sig hnd q p hq.1 hp hqn
    exact this ▸ hq.2
  · intro h
    exact List.mem_map_of_mem (List.mem_filter.mpr ⟨hp, h⟩)

theorem find?_of_nodup (sig : Signature) (hnd : (sig.map (·.name)).Nodup) (p : Param) (hp : p ∈ sig)
    (f : Param → Bool) (hf : f p = true) (huniq : ∀ q ∈ sig, f q = true → q.name = p.name) :
    sig.find? f = some p := by
  cases hfind : sig.find? f with
  | none =>
    rw [List.find?_eq_none] at hfind
    exact absurd hf (hfind p hp)
  | some q =>
    have hq := List.mem_of_find?_eq_some hfind
    have hfq := List.find?_some hfind
    rw [param_eq_of_name_eq sig hnd q p hq hp (huniq q hq hfq)]

theorem kindsOrdered_head_le (p : Param) (rest : Signature) (h : Signature.kindsOrdered (p :: rest) = true) :
    ∀ q ∈ rest, p.kind.rank ≤ q.kind.rank := by
  induction rest generalizing p with
  | nil => intro q hq; cases hq
  | cons r rest ih =>
    simp only [Signature.kindsOrdered, Bool.and_eq_true, decide_eq_true_eq] at h
    intro q hq
    rcases List.mem_cons.mp hq with hq | hq
    · subst hq; exact h.1
    · exact Nat.le_trans h.1 (ih r h.2 q hq)

theorem kindsOrdered_tail (p : Param) (rest : Signature) (h : Signature.kindsOrdered (p :: rest) = true) :
    Signature.kindsOrdered rest = true := by
  cases rest with
  | nil => rfl
  | cons r rest =>
    simp only [Signature.kindsOrdered, Bool.and_eq_true] at h
    exact h.2

/-- kinds in order: `param_names` is the positional parameters followed by `*args` -/
theorem sigParamNames_eq (sig : Signature) (h : sig.kindsOrdered = true) :
    sigParamNames sig =
      sig.positional.map (·.name) ++ (sig.filter (fun p => p.kind == .varPos)).map (·.name) := by
  unfold sigParamNames Signature.positional
  rw [← List.map_append]
  congr 1
  induction sig with
  | nil => rfl
  | cons p rest ih =>
    have ih := ih (kindsOrdered_tail p rest h)
    have hle := kindsOrdered_head_le p rest h
    cases hk : p.kind with
    | posOnly => simp [Param.isPositional, hk, ih]
    | posOrKw => simp [Param.isPositional, hk, ih]
    | kwOnly => simp [Param.isPositional, hk, ih]
    | varKw => simp [Param.isPositional, hk, ih]
    | varPos =>
      have hnone : rest.filter (·.isPositional) = [] := by
        rw [List.filter_eq_nil_iff]
        intro q hq
        have := hle q hq
        rw [hk] at this
        unfold Param.isPositional
        cases hqk : q.kind <;> simp_all [PKind.rank]
      rw [hnone] at ih
      rw [List.filter_cons_of_pos (by simp [hk]), List.filter_cons_of_neg (by simp [Param.isPositional, hk]),
        List.filter_cons_of_pos (by simp [hk]), hnone, ih]
      simp

theorem sigParamNames_nodup (sig : Signature) (hnd : (sig.map (·.name)).Nodup) : (sigParamNames sig).Nodup :=
  List.Nodup.sublist (List.Sublist.map _ List.filter_sublist) hnd

/-! ### `resolveCall` -/

/-- what positionals and defaults leave under the name of `p` -/
def resolveBase (sig : Signature) (args : List Id) (kwargs : List (String × Id)) (p : Param) : Option Val :=
  match posLookup (sigParamNames sig) args p.name with
  | some a => some (.obj a)
  | none =>
    (match p.default with
     | some d => some (.obj d)
     | none => Kwargs.get? [("_ARGS", .tuple args), ("_KWARGS", .dict kwargs)] p.name)

theorem resolveCall_get? (sig : Signature) (args : List Id) (kwargs : List (String × Id)) (p : Param)
    (hnd : (sig.map (·.name)).Nodup) (hkeys : (kwargs.map (·.1)).Nodup) (hp : p ∈ sig) :
    (resolveCall sig args kwargs).get? p.name =
      if (sigPosOnly sig).contains p.name then resolveBase sig args kwargs p
      else (match kwLookup kwargs p.name with
            | some v => some (.obj v)
            | none => resolveBase sig args kwargs p) := by
  unfold resolveCall kwargsFromCall resolveBase
  rw [bindKeywords_get? _ _ _ _ hkeys, bindPositionals_get? _ _ _ _ (sigParamNames_nodup sig hnd),
    bindDefaults_sig_get? sig _ p hnd hp]

/-- a name that is no parameter and no keyword of the call keeps what the placeholders give it -/
theorem resolveCall_get?_of_not_mem (sig : Signature) (args : List Id) (kwargs : List (String × Id)) (n : String)
    (h1 : ∀ p ∈ sig, p.name ≠ n) (h2 : ∀ kv ∈ kwargs, kv.1 ≠ n) :
    (resolveCall sig args kwargs).get? n =
      Kwargs.get? [("_ARGS", .tuple args), ("_KWARGS", .dict kwargs)] n := by
  have hsig : n ∉ sig.map (·.name) := by
    intro h
    obtain ⟨p, hp, hpn⟩ := List.mem_map.mp h
    exact h1 p hp hpn
  have hkw : n ∉ kwargs.map (·.1) := by
    intro h
    obtain ⟨kv, hkv, hn⟩ := List.mem_map.mp h
    exact h2 kv hkv hn
  have hnames : n ∉ sigParamNames sig :=
    fun h => hsig ((List.Sublist.map _ List.filter_sublist).subset h)
  have hdfl : n ∉ (sigKwdefaults sig).map (·.1) := fun h => hsig (sigKwdefaults_keys_subset sig n h)
  unfold resolveCall kwargsFromCall
  rw [bindKeywords_get?_of_not_mem _ _ _ _ hkw, bindPositionals_get?_of_not_mem _ _ _ _ hnames,
    bindDefaults_get?_of_not_mem _ _ _ hdfl]

/-- positional parameters: `param_names` matches them by their index among the positional ones -/
theorem posLookup_positional (sig : Signature) (args : List Id) (p : Param)
    (hord : sig.kindsOrdered = true) (hp : p ∈ sig) (hpos : p.isPositional = true) :
    posIndex sig p.name = some ((sig.positional.map (·.name)).idxOf p.name) ∧
    posLookup (sigParamNames sig) args p.name = args[(sig.positional.map (·.name)).idxOf p.name]? := by
  have hmem : p.name ∈ sig.positional.map (·.name) :=
    List.mem_map_of_mem (List.mem_filter.mpr ⟨hp, hpos⟩)
  constructor
  · unfold posIndex
    simp [hmem]
  · rw [sigParamNames_eq sig hord, posLookup_append_left _ _ _ _ hmem, posLookup_eq]
    simp [hmem]

/-- the resolved value of a non-variadic parameter is the one Python binds (no hypothesis on
reserved names is needed: an accepted call gives every such parameter a value, which overwrites
whatever the placeholders put there) -/
theorem resolveCall_nonvariadic (sig : Signature) (args : List Id) (kwargs : List (String × Id))
    (hwf : sig.wf = true) (hacc : pyAccepts sig args kwargs = true)
    (p : Param) (hp : p ∈ sig) (hnv : p.isVariadic = false) :
    (resolveCall sig args kwargs).get? p.name = (pyValue sig args kwargs p).map Val.obj ∧
    (pyValue sig args kwargs p).isSome = true := by
  simp only [Signature.wf, Bool.and_eq_true, decide_eq_true_eq] at hwf
  obtain ⟨⟨⟨⟨⟨hord, _⟩, _⟩, hnd⟩, _⟩, _⟩ := hwf
  simp only [pyAccepts, Bool.and_eq_true, decide_eq_true_eq] at hacc
  obtain ⟨⟨⟨_, hkeys⟩, hall⟩, hsome⟩ := hacc
  have hsome : (pyValue sig args kwargs p).isSome = true := by
    have := List.all_eq_true.mp hsome p hp
    simpa [hnv] using this
  refine ⟨?_, hsome⟩
  have hpo : (sigPosOnly sig).contains p.name = true ↔ p.kind = .posOnly := by
    rw [List.contains_iff_mem]
    unfold sigPosOnly
    rw [name_mem_filter sig hnd _ p hp]
    simp
  rw [resolveCall_get? sig args kwargs p hnd hkeys hp]
  cases hk : p.kind with
  | varPos => simp [Param.isVariadic, hk] at hnv
  | varKw => simp [Param.isVariadic, hk] at hnv
  | posOnly =>
    obtain ⟨hidx, hlook⟩ := posLookup_positional sig args p hord hp (by simp [Param.isPositional, hk])
    rw [if_pos (hpo.mpr hk)]
    unfold resolveBase
    unfold pyValue at hsome ⊢
    simp only [hk, hidx] at hsome ⊢
    rw [hlook]
    by_cases hlt : (sig.positional.map (·.name)).idxOf p.name < args.length
    · simp only [hlt, if_true]
      rw [List.getElem?_eq_getElem hlt]
      rfl
    · simp only [hlt, if_false] at hsome ⊢
      rw [List.getElem?_eq_none (Nat.le_of_not_lt hlt)]
      obtain ⟨d, hd⟩ := Option.isSome_iff_exists.mp hsome
      simp [hd]
  | posOrKw =>
    obtain ⟨hidx, hlook⟩ := posLookup_positional sig args p hord hp (by simp [Param.isPositional, hk])
    have hnpo : ¬ (sigPosOnly sig).contains p.name = true := fun h => by
      have := hpo.mp h; rw [hk] at this; cases this
    rw [if_neg hnpo]
    unfold resolveBase
    unfold pyValue at hsome ⊢
    simp only [hk, hidx] at hsome ⊢
    rw [hlook]
    by_cases hlt : (sig.positional.map (·.name)).idxOf p.name < args.length
    · -- a keyword named like an already-filled positional-or-keyword parameter is rejected
      have hno : kwLookup kwargs p.name = none := by
        cases hl : kwLookup kwargs p.name with
        | none => rfl
        | some v =>
          exfalso
          have hmem := kwLookup_mem kwargs p.name v hl
          have hthis := List.all_eq_true.mp hall _ hmem
          have hfind : sig.find? (fun q => q.name == p.name && !q.isVariadic) = some p := by
            apply find?_of_nodup sig hnd p hp
            · simp [hnv]
            · intro q _ hq
              simp only [Bool.and_eq_true, beq_iff_eq] at hq
              exact hq.1
          simp only [hfind, hk, hidx, decide_eq_true_eq] at hthis
          omega
      simp only [hlt, if_true, hno]
      rw [List.getElem?_eq_getElem hlt]
      rfl
    · simp only [hlt, if_false] at hsome ⊢
      rw [List.getElem?_eq_none (Nat.le_of_not_lt hlt)]
      cases hl : kwLookup kwargs p.name with
      | some v => rfl
      | none =>
        simp only [hl] at hsome
        obtain ⟨d, hd⟩ := Option.isSome_iff_exists.mp hsome
        simp [hd]
  | kwOnly =>
    have hnpo : ¬ (sigPosOnly sig).contains p.name = true := fun h => by
      have := hpo.mp h; rw [hk] at this; cases this
    rw [if_neg hnpo]
    have hnot : p.name ∉ sigParamNames sig := by
      unfold sigParamNames
      rw [name_mem_filter sig hnd _ p hp]
      simp [hk]
    unfold resolveBase
    rw [posLookup_of_not_mem _ _ _ hnot]
    unfold pyValue at hsome ⊢
    simp only [hk] at hsome ⊢
    cases hl : kwLookup kwargs p.name with
    | some v => rfl
    | none =>
      simp only [hl] at hsome
      obtain ⟨d, hd⟩ := Option.isSome_iff_exists.mp hsome
      simp [hd]

end Icontract
