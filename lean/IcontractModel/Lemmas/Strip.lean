/-
  Helper lemmas for C13: `Res.stripAwait` is a monad morphism, and the async hooks with their
  await events removed are the sync hooks of the plain checker under an awaited oracle.
-/
import IcontractModel.Lemmas.Instances
import IcontractModel.Spec.Trace
namespace Icontract
open Res

namespace Res

theorem ext' {a b : Res α} (h1 : a.trace = b.trace) (h2 : a.out = b.out) : a = b := by
  cases a; cases b; simp_all

theorem bind_assoc' (x : Res α) (f : α → Res β) (g : β → Res γ) :
    ((x >>= f) >>= g) = (x >>= fun a => f a >>= g) := by
  simp only [bind_def, Res.bind]
  cases hx : x.out with
  | error e => rfl
  | ok a =>
    simp only []
    cases hf : (f a).out with
    | error e => rfl
    | ok b => simp

theorem bind_congr' {x : Res α} {f g : α → Res β} (h : ∀ a, f a = g a) :
    (x >>= f) = (x >>= g) := by
  have : f = g := funext h
  rw [this]

theorem stripAwait_bind (x : Res α) (f : α → Res β) :
    (x >>= f).stripAwait = (x.stripAwait >>= fun a => (f a).stripAwait) := by
  simp only [bind_def, Res.bind, Res.stripAwait]
  cases hx : x.out with
  | error e => rfl
  | ok a => simp

@[simp] theorem stripAwait_pure (a : α) : (Pure.pure a : Res α).stripAwait = Pure.pure a := rfl

@[simp] theorem stripAwait_raise (e : Raised) : (Res.raise e : Res α).stripAwait = Res.raise e := rfl

theorem stripAwait_emit (ev : Event) :
    (Res.emit ev).stripAwait = if ev.isAwait then Pure.pure () else Res.emit ev := by
  cases h : ev.isAwait <;> simp [Res.stripAwait, Res.emit, h, Pure.pure, Res.ret]

theorem stripAwait_ite (c : Prop) [Decidable c] (x y : Res α) :
    (if c then x else y).stripAwait = if c then x.stripAwait else y.stripAwait := by
  split <;> rfl

theorem stripAwait_of_noAwait (x : Res α) (h : ∀ e ∈ x.trace, e.isAwait = false) :
    x.stripAwait = x := by
  apply Res.ext'
  · simp only [Res.stripAwait]
    rw [List.filter_eq_self]
    intro e he
    simp [h e he]
  · rfl

end Res

/-- the plain rendering of one contract / snapshot (what `Checker.plain` maps over the lists) -/
def Contract.plain (c : Contract) : Contract := { c with coroFn := false }
def Snapshot.plain (s : Snapshot) : Snapshot := { s with coroFn := false }

theorem Checker.plain_pre (ck : Checker) : ck.plain.pre = ck.pre.map (fun g => g.map Contract.plain) := rfl
theorem Checker.plain_posts (ck : Checker) : ck.plain.posts = ck.posts.map Contract.plain := rfl
theorem Checker.plain_snaps (ck : Checker) : ck.plain.snaps = ck.snaps.map Snapshot.plain := rfl

/-- what `AwaitedOracle` says about one contract -/
def CondOK (o o' : Oracle) (c : Contract) : Prop :=
  (o'.cond c.id = if c.coroFn then o.cond c.id else (o.cond c.id).awaited) ∧
  (o'.cond c.id).isCoro = false

def CapOK (o o' : Oracle) (s : Snapshot) : Prop :=
  (o'.capture s.id = if s.coroFn then o.capture s.id else (o.capture s.id).awaited) ∧
  (o'.capture s.id).isCoro = false

theorem judge_plain (c : Contract) (a : Ans) : judge c.plain a = judge c a := by
  cases a with
  | val v t => cases t <;> rfl
  | raises e => rfl
  | coro a => rfl

theorem judge_stripAwait (c : Contract) (a : Ans) : (judge c a).stripAwait = judge c a := by
  cases a with
  | val v t =>
    cases t with
    | truthy => rfl
    | falsy => rfl
    | raises e => by_cases he : e.isException <;> simp [judge, he] <;> rfl
  | raises e => rfl
  | coro a => rfl

theorem evalPostSync_plain (o : Oracle) (kw : Kwargs) (c : Contract) :
    evalPostSync o kw c.plain = evalPreSync o kw c.plain := by
  simp [evalPostSync, evalPreSync, Contract.plain]

theorem evalCond_strip (o o' : Oracle) (kw : Kwargs) (c : Contract) (h : CondOK o o' c) :
    (evalCondAsync o kw c).stripAwait = evalPreSync o' kw c.plain := by
  obtain ⟨h1, h2⟩ := h
  unfold evalCondAsync evalPreSync
  have hsel : selectConditionKwargs c.plain kw = selectConditionKwargs c kw := rfl
  have hid : c.plain.id = c.id := rfl
  have hco : c.plain.coroFn = false := rfl
  rw [stripAwait_bind, hsel]
  have hs : (selectConditionKwargs c kw).stripAwait = selectConditionKwargs c kw := by
    unfold selectConditionKwargs; simp only []; split <;> rfl
  rw [hs]
  apply bind_congr'
  intro sel
  simp only [hco, hid, Bool.false_eq_true, if_false]
  rw [stripAwait_bind]
  have he : (Res.emit (.cond c.id sel)).stripAwait = Res.emit (.cond c.id sel) := rfl
  rw [he]
  apply bind_congr'
  intro _
  cases hc : c.coroFn with
  | true =>
    simp only [hc, if_true] at h1 ⊢
    rw [judge_stripAwait, ← h1]
    generalize o'.cond c.id = a' at h2 ⊢
    cases a' with
    | coro a => simp [Ans.isCoro] at h2
    | val v t => exact (judge_plain c _).symm
    | raises e => exact (judge_plain c _).symm
  | false =>
    simp only [hc, Bool.false_eq_true, if_false] at h1 ⊢
    cases ho : o.cond c.id with
    | coro a =>
      simp only [ho, Ans.awaited] at h1
      simp only [stripAwait_bind, judge_stripAwait]
      have : (Res.emit (.awaitCond c.id)).stripAwait = Pure.pure () := rfl
      rw [this, pure_bind', ← h1]
      generalize o'.cond c.id = a' at h2 ⊢
      cases a' with
      | coro a => simp [Ans.isCoro] at h2
      | val v t => exact (judge_plain c _).symm
      | raises e => exact (judge_plain c _).symm
    | val v t =>
      simp only [ho, Ans.awaited] at h1
      simp only [h1, judge_stripAwait, judge_plain]
    | raises e =>
      simp only [ho, Ans.awaited] at h1
      simp only [h1, judge_stripAwait, judge_plain]

theorem createViolationError_plain (o o' : Oracle) (c : Contract) (kw : Kwargs)
    (hf : o'.fac = o.fac) (hm : o'.msg = o.msg) :
    createViolationError o' c.plain kw = createViolationError o c kw := by
  unfold createViolationError
  simp only [Contract.plain, hf, hm]

theorem createViolationError_stripAwait (o : Oracle) (c : Contract) (kw : Kwargs) :
    (createViolationError o c kw).stripAwait = createViolationError o c kw := by
  apply Res.stripAwait_of_noAwait
  intro e h
  unfold createViolationError at h
  split at h
  · rw [mem_bind_trace] at h
    rcases h with h | ⟨_, _, h⟩
    · simp at h; subst h; rfl
    · split at h
      · simp at h
      · split at h <;> simp at h
  · rw [mem_bind_trace] at h
    rcases h with h | ⟨_, _, h⟩
    · rw [selectErrorKwargs_trace] at h; cases h
    · rw [mem_bind_trace] at h
      rcases h with h | ⟨_, _, h⟩
      · simp at h; subst h; rfl
      · split at h <;> simp at h
  · split at h
    · simp at h
    · rw [mem_bind_trace] at h
      rcases h with h | ⟨_, _, h⟩
      · simp at h; subst h; rfl
      · split at h <;> simp at h
  · simp at h
  · simp at h

theorem runBody_stripAwait (o : Oracle) (call : Call) :
    (runBody o call).stripAwait = runBody o call := by
  apply Res.stripAwait_of_noAwait
  intro e he
  have := runBody_trace o call e he
  cases e <;> simp_all [Event.isAwait, Event.isBody]

theorem runBody_congr (o o' : Oracle) (call : Call) (hb : o'.body = o.body) :
    runBody o' call = runBody o call := by
  unfold runBody; rw [hb]

theorem raiseIfSome_stripAwait (v : Option Raised) : (raiseIfSome v).stripAwait = raiseIfSome v := by
  cases v <;> rfl

/-! ### the loops -/

theorem checkGroup_strip (o o' : Oracle) (kw : Kwargs) (g : List Contract)
    (h : ∀ c ∈ g, CondOK o o' c) :
    checkGroupSync o' kw (g.map Contract.plain) =
      ((checkGroupAsync o kw g).stripAwait >>= fun r => Pure.pure (r.map Contract.plain)) := by
  induction g with
  | nil => rfl
  | cons c cs ih =>
    simp only [List.map_cons, checkGroupSync, checkGroupAsync]
    rw [stripAwait_bind, bind_assoc', evalCond_strip o o' kw c (h c List.mem_cons_self)]
    apply bind_congr'
    intro b
    cases b
    · simp only [Bool.false_eq_true, if_false]
      exact ih (fun c hc => h c (List.mem_cons_of_mem _ hc))
    · simp only [if_true, stripAwait_pure, pure_bind', Option.map_some]

theorem assertPreAux_strip (o o' : Oracle) (kw : Kwargs) (gs : List (List Contract))
    (last : Option Contract) (h : ∀ g ∈ gs, ∀ c ∈ g, CondOK o o' c) :
    assertPreSyncAux o' kw (last.map Contract.plain) (gs.map (fun g => g.map Contract.plain)) =
      ((assertPreAsyncAux o kw last gs).stripAwait >>= fun r => Pure.pure (r.map Contract.plain)) := by
  induction gs generalizing last with
  | nil => rfl
  | cons g gs ih =>
    simp only [List.map_cons, assertPreSyncAux, assertPreAsyncAux]
    rw [checkGroup_strip o o' kw g (h g List.mem_cons_self), stripAwait_bind, bind_assoc', bind_assoc']
    apply bind_congr'
    intro r
    cases r with
    | none => simp only [pure_bind', Option.map_none, stripAwait_pure]
    | some c =>
      simp only [pure_bind', Option.map_some]
      exact ih (some c) (fun g hg => h g (List.mem_cons_of_mem _ hg))

theorem assertPre_strip (o o' : Oracle) (gs : List (List Contract))
    (h : ∀ g ∈ gs, ∀ c ∈ g, CondOK o o' c) (hf : o'.fac = o.fac) (hm : o'.msg = o.msg)
    (kw : Kwargs) :
    (assertPreAsync o kw gs).stripAwait =
      assertPreSync o' kw (gs.map (fun g => g.map Contract.plain)) := by
  have haux := assertPreAux_strip o o' kw gs none h
  simp only [Option.map_none] at haux
  unfold assertPreAsync assertPreSync
  rw [haux, stripAwait_bind, bind_assoc']
  apply bind_congr'
  intro v
  cases v with
  | none => simp only [pure_bind', Option.map_none, stripAwait_pure]
  | some c =>
    simp only [pure_bind', Option.map_some, stripAwait_bind, stripAwait_pure,
      createViolationError_stripAwait, createViolationError_plain o o' c kw hf hm]

theorem assertPost_strip (o o' : Oracle) (cs : List Contract)
    (h : ∀ c ∈ cs, CondOK o o' c) (hf : o'.fac = o.fac) (hm : o'.msg = o.msg)
    (kw : Kwargs) :
    (assertPostAsync o kw cs).stripAwait = assertPostSync o' kw (cs.map Contract.plain) := by
  induction cs with
  | nil => rfl
  | cons c cs ih =>
    simp only [List.map_cons, assertPostSync, assertPostAsync]
    rw [stripAwait_bind, evalPostSync_plain, evalCond_strip o o' kw c (h c List.mem_cons_self)]
    apply bind_congr'
    intro b
    cases b
    · simp only [Bool.false_eq_true, if_false]
      exact ih (fun c hc => h c (List.mem_cons_of_mem _ hc))
    · simp only [if_true, stripAwait_bind, stripAwait_pure,
        createViolationError_stripAwait, createViolationError_plain o o' c kw hf hm]

theorem captureOld_strip (o o' : Oracle) (ss : List Snapshot)
    (h : ∀ s ∈ ss, CapOK o o' s) (kw : Kwargs) (acc : List (String × Id)) :
    (captureOldAsync o kw acc ss).stripAwait = captureOldSync o' kw acc (ss.map Snapshot.plain) := by
  induction ss generalizing acc with
  | nil => rfl
  | cons s ss ih =>
    obtain ⟨h1, h2⟩ := h s List.mem_cons_self
    have ih' := fun acc => ih (fun s hs => h s (List.mem_cons_of_mem _ hs)) acc
    simp only [List.map_cons, captureOldSync, captureOldAsync]
    have hco : s.plain.coroFn = false := rfl
    have hid : s.plain.id = s.id := rfl
    have hname : s.plain.name = s.name := rfl
    have hsel : selectCaptureKwargs s.plain kw = selectCaptureKwargs s kw := rfl
    have hs : (selectCaptureKwargs s kw).stripAwait = selectCaptureKwargs s kw := by
      unfold selectCaptureKwargs; simp only []; split <;> rfl
    simp only [hco, hid, hname, hsel, Bool.false_eq_true, if_false]
    rw [stripAwait_bind, hs]
    apply bind_congr'
    intro sel
    rw [stripAwait_bind]
    have he : (Res.emit (.capture s.id sel)).stripAwait = Res.emit (.capture s.id sel) := rfl
    rw [he]
    apply bind_congr'
    intro _
    rw [stripAwait_bind]
    cases hc : s.coroFn with
    | true =>
      simp only [hc, if_true] at h1 ⊢
      rw [stripAwait_pure, pure_bind', ← h1]
      generalize o'.capture s.id = a' at h2 ⊢
      cases a' with
      | coro a => simp [Ans.isCoro] at h2
      | val v t => exact ih' _
      | raises e => rfl
    | false =>
      simp only [hc, Bool.false_eq_true, if_false] at h1 ⊢
      cases ho : o.capture s.id with
      | coro a =>
        simp only [ho, Ans.awaited] at h1
        simp only [stripAwait_bind, stripAwait_pure]
        have : (Res.emit (.awaitCapture s.id)).stripAwait = Pure.pure () := rfl
        rw [this, pure_bind', pure_bind', ← h1]
        generalize o'.capture s.id = a' at h2 ⊢
        cases a' with
        | coro a => simp [Ans.isCoro] at h2
        | val v t => exact ih' _
        | raises e => rfl
      | val v t =>
        simp only [ho, Ans.awaited] at h1
        simp only [h1, stripAwait_pure, pure_bind']
        exact ih' _
      | raises e =>
        simp only [ho, Ans.awaited] at h1
        simp only [h1, stripAwait_pure, pure_bind']
        rfl

/-! ### assembling the checked path -/

theorem AwaitedOracle.condOK {ck : Checker} {o o' : Oracle} (h : AwaitedOracle ck o o')
    (c : Contract) (hc : c ∈ ck.contracts) : CondOK o o' c :=
  ⟨h.cond c hc, h.condPlain c hc⟩

theorem AwaitedOracle.capOK {ck : Checker} {o o' : Oracle} (h : AwaitedOracle ck o o')
    (s : Snapshot) (hs : s ∈ ck.snaps) : CapOK o o' s :=
  ⟨h.capture s hs, h.capturePlain s hs⟩

theorem checked_strip (ck : Checker) (o o' : Oracle) (call : Call) (h : AwaitedOracle ck o o') :
    (checkedAsync ck o call).stripAwait = checkedSync ck.plain o' call := by
  have hpre : ∀ g ∈ ck.pre, ∀ c ∈ g, CondOK o o' c := fun g hg c hc =>
    h.condOK c (by
      simp only [Checker.contracts, List.mem_append, List.mem_flatten]
      exact Or.inl ⟨g, hg, hc⟩)
  have hpost : ∀ c ∈ ck.posts, CondOK o o' c := fun c hc =>
    h.condOK c (by simp only [Checker.contracts, List.mem_append]; exact Or.inr hc)
  have hcap : ∀ s ∈ ck.snaps, CapOK o o' s := fun s hs => h.capOK s hs
  have e1 := assertPre_strip o o' ck.pre hpre h.fac h.msg
  have e2 := assertPost_strip o o' ck.posts hpost h.fac h.msg
  have e3 := captureOld_strip o o' ck.snaps hcap
  have hpn : ck.plain.paramNames = ck.paramNames := rfl
  have hkd : ck.plain.kwdefaults = ck.kwdefaults := rfl
  have hpo : ck.plain.posOnly = ck.posOnly := rfl
  unfold checkedAsync checkedSync
  simp only [Checker.plain_pre, Checker.plain_posts, Checker.plain_snaps, hpn, hkd, hpo,
    List.isEmpty_map]
  cases hv : assertResolvedKwargsValid (!ck.posts.isEmpty)
      (kwargsFromCall ck.paramNames ck.kwdefaults call.args call.kwargs ck.posOnly) with
  | some e => rfl
  | none =>
    simp only [stripAwait_bind, e1, raiseIfSome_stripAwait, runBody_stripAwait,
      runBody_congr o o' call h.body]
    apply bind_congr'; intro v
    apply bind_congr'; intro _
    congr 1
    · split
      · simp only [stripAwait_bind, e3, stripAwait_pure]
      · rfl
    · funext kw
      apply bind_congr'; intro r
      split
      · simp only [stripAwait_bind, e2, raiseIfSome_stripAwait, stripAwait_pure]
      · rfl

end Icontract
