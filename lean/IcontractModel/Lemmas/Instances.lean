/- `checkedSync` and `checkedAsync` are instances of the generic skeleton. -/
import IcontractModel.Lemmas.GenericWrapper
import IcontractModel.Lemmas.CheckerSync
namespace Icontract
open Res

def syncHooks (o : Oracle) : Hooks where
  evPre := evalPreSync o
  evPost := evalPostSync o
  capture := captureOldSync o
  mkErr := createViolationError o
  body := runBody o

def asyncHooks (o : Oracle) : Hooks where
  evPre := evalCondAsync o
  evPost := evalCondAsync o
  capture := captureOldAsync o
  mkErr := createViolationError o
  body := runBody o

theorem checkGroupSync_eq (o : Oracle) (kw : Kwargs) (g : List Contract) :
    checkGroupSync o kw g = checkGroupG (evalPreSync o kw) g := by
  induction g with
  | nil => rfl
  | cons c cs ih => simp only [checkGroupSync, checkGroupG, ih]

theorem assertPreSyncAux_eq (o : Oracle) (kw : Kwargs) (gs : List (List Contract)) (last : Option Contract) :
    assertPreSyncAux o kw last gs = assertPreAuxG (evalPreSync o kw) last gs := by
  induction gs generalizing last with
  | nil => rfl
  | cons g gs ih =>
    simp only [assertPreSyncAux, assertPreAuxG, checkGroupSync_eq]
    congr; funext r; cases r <;> simp [ih]

theorem assertPreSync_eq (o : Oracle) (kw : Kwargs) (gs : List (List Contract)) :
    assertPreSync o kw gs = assertPreG (evalPreSync o kw) (fun c => createViolationError o c kw) gs := by
  simp only [assertPreSync, assertPreG, assertPreSyncAux_eq]
  rfl

theorem assertPostSync_eq (o : Oracle) (kw : Kwargs) (cs : List Contract) :
    assertPostSync o kw cs = assertPostG (evalPostSync o kw) (fun c => createViolationError o c kw) cs := by
  induction cs with
  | nil => rfl
  | cons c cs ih => simp only [assertPostSync, assertPostG, ih]

theorem checkedSync_eq (ck : Checker) (o : Oracle) (call : Call) :
    checkedSync ck o call = checkedG (syncHooks o) ck call := by
  simp only [checkedSync, checkedG, syncHooks, assertPreSync_eq, assertPostSync_eq]
  rfl

theorem checkGroupAsync_eq (o : Oracle) (kw : Kwargs) (g : List Contract) :
    checkGroupAsync o kw g = checkGroupG (evalCondAsync o kw) g := by
  induction g with
  | nil => rfl
  | cons c cs ih => simp only [checkGroupAsync, checkGroupG, ih]

theorem assertPreAsyncAux_eq (o : Oracle) (kw : Kwargs) (gs : List (List Contract)) (last : Option Contract) :
    assertPreAsyncAux o kw last gs = assertPreAuxG (evalCondAsync o kw) last gs := by
  induction gs generalizing last with
  | nil => rfl
  | cons g gs ih =>
    simp only [assertPreAsyncAux, assertPreAuxG, checkGroupAsync_eq]
    congr; funext r; cases r <;> simp [ih]

theorem assertPreAsync_eq (o : Oracle) (kw : Kwargs) (gs : List (List Contract)) :
    assertPreAsync o kw gs = assertPreG (evalCondAsync o kw) (fun c => createViolationError o c kw) gs := by
  simp only [assertPreAsync, assertPreG, assertPreAsyncAux_eq]
  rfl

theorem assertPostAsync_eq (o : Oracle) (kw : Kwargs) (cs : List Contract) :
    assertPostAsync o kw cs = assertPostG (evalCondAsync o kw) (fun c => createViolationError o c kw) cs := by
  induction cs with
  | nil => rfl
  | cons c cs ih => simp only [assertPostAsync, assertPostG, ih]

theorem checkedAsync_eq (ck : Checker) (o : Oracle) (call : Call) :
    checkedAsync ck o call = checkedG (asyncHooks o) ck call := by
  simp only [checkedAsync, checkedG, asyncHooks, assertPreAsync_eq, assertPostAsync_eq]
  rfl

/-! ### hook facts -/

theorem selectCaptureKwargs_trace (s : Snapshot) (kw : Kwargs) :
    (selectCaptureKwargs s kw).trace = [] := by
  unfold selectCaptureKwargs; simp only []; split <;> rfl

theorem selectErrorKwargs_trace (c : CId) (a : List String) (kw : Kwargs) :
    (selectErrorKwargs c a kw).trace = [] := by
  unfold selectErrorKwargs; simp only []; split <;> rfl

theorem createViolationError_checkOnly (o : Oracle) (c : Contract) (kw : Kwargs) :
    ∀ e ∈ (createViolationError o c kw).trace, e.isCheck = true := by
  intro e h
  unfold createViolationError at h
  split at h
  · rw [mem_bind_trace] at h
    rcases h with h | ⟨_, _, h⟩
    · simp at h; subst h; rfl
    · split at h
      · simp at h
      · split at h <;> simp at h
  · rw [mem_bind_trace] at h
    rcases h with h | ⟨_, _, h⟩
    · rw [selectErrorKwargs_trace] at h; cases h
    · rw [mem_bind_trace] at h
      rcases h with h | ⟨_, _, h⟩
      · simp at h; subst h; rfl
      · split at h <;> simp at h
  · split at h
    · simp at h
    · rw [mem_bind_trace] at h
      rcases h with h | ⟨_, _, h⟩
      · simp at h; subst h; rfl
      · split at h <;> simp at h
  · simp at h
  · simp at h

theorem evalPostSync_checkOnly (o : Oracle) (kw : Kwargs) (c : Contract) :
    ∀ ev ∈ (evalPostSync o kw c).trace, ev.isCheck = true := by
  intro ev h
  unfold evalPostSync at h
  split at h
  · simp at h
  · rw [mem_bind_trace] at h
    rcases h with h | ⟨sel, _, h⟩
    · rw [selectConditionKwargs_trace] at h; cases h
    · rw [mem_bind_trace] at h
      rcases h with h | ⟨_, _, h⟩
      · simp at h; subst h; rfl
      · split at h
        · simp at h
        · exact judge_checkOnly _ _ _ h

theorem evalCondAsync_checkOnly (o : Oracle) (kw : Kwargs) (c : Contract) :
    ∀ ev ∈ (evalCondAsync o kw c).trace, ev.isCheck = true := by
  intro ev h
  unfold evalCondAsync at h
  rw [mem_bind_trace] at h
  rcases h with h | ⟨sel, _, h⟩
  · rw [selectConditionKwargs_trace] at h; cases h
  · rw [mem_bind_trace] at h
    rcases h with h | ⟨_, _, h⟩
    · simp at h; subst h; rfl
    · split at h
      · exact judge_checkOnly _ _ _ h
      · split at h
        · rw [mem_bind_trace] at h
          rcases h with h | ⟨_, _, h⟩
          · simp at h; subst h; rfl
          · exact judge_checkOnly _ _ _ h
        · exact judge_checkOnly _ _ _ h

theorem captureOldSync_captureOnly (o : Oracle) (kw : Kwargs) (acc : List (String × Id)) (ss : List Snapshot) :
    ∀ e ∈ (captureOldSync o kw acc ss).trace, e.isCapture = true := by
  induction ss generalizing acc with
  | nil => intro e h; simp [captureOldSync] at h
  | cons s ss ih =>
    intro e h
    unfold captureOldSync at h
    split at h
    · simp at h
    · rw [mem_bind_trace] at h
      rcases h with h | ⟨_, _, h⟩
      · rw [selectCaptureKwargs_trace] at h; cases h
      · rw [mem_bind_trace] at h
        rcases h with h | ⟨_, _, h⟩
        · simp at h; subst h; rfl
        · split at h
          · simp at h
          · simp at h
          · exact ih _ e h

theorem captureOldAsync_captureOnly (o : Oracle) (kw : Kwargs) (acc : List (String × Id)) (ss : List Snapshot) :
    ∀ e ∈ (captureOldAsync o kw acc ss).trace, e.isCapture = true := by
  induction ss generalizing acc with
  | nil => intro e h; simp [captureOldAsync] at h
  | cons s ss ih =>
    intro e h
    unfold captureOldAsync at h
    rw [mem_bind_trace] at h
    rcases h with h | ⟨_, _, h⟩
    · rw [selectCaptureKwargs_trace] at h; cases h
    · rw [mem_bind_trace] at h
      rcases h with h | ⟨_, _, h⟩
      · simp at h; subst h; rfl
      · rw [mem_bind_trace] at h
        rcases h with h | ⟨a, _, h⟩
        · split at h
          · simp at h
          · split at h
            · rw [mem_bind_trace] at h
              rcases h with h | ⟨_, _, h⟩
              · simp at h; subst h; rfl
              · simp at h
            · simp at h
        · split at h
          · simp at h
          · exact ih _ e h
          · exact ih _ e h

theorem runBody_trace (o : Oracle) (call : Call) :
    ∀ e ∈ (runBody o call).trace, e.isBody = true := by
  intro e h
  unfold runBody at h
  rw [mem_bind_trace] at h
  rcases h with h | ⟨_, _, h⟩
  · simp at h; subst h; rfl
  · split at h <;> simp at h

theorem runBody_nonempty (o : Oracle) (call : Call) :
    ∃ e ∈ (runBody o call).trace, e.isBody = true := by
  refine ⟨.body call.args call.kwargs, ?_, rfl⟩
  unfold runBody
  rw [mem_bind_trace]; left; simp

theorem evalCondAsync_false_iff (o : Oracle) (kw : Kwargs) (c : Contract) :
    (evalCondAsync o kw c).out = .ok false ↔ condTruthy true o kw c = true := by
  unfold evalCondAsync condTruthy selectConditionKwargs finalAns
  by_cases hm : (missingNames c.mandatory kw).isEmpty = true
  · simp only [hm, if_true, pure_bind', emit_bind_out, Bool.true_and]
    by_cases hc : c.coroFn = true
    · simp only [hc, if_true]
      cases h : o.cond c.id with
      | raises e => simp [judge, ansTruthy]
      | coro a => simp [judge, ansTruthy]
      | val v t =>
        cases t with
        | truthy => simp [judge, ansTruthy]
        | falsy => simp [judge, ansTruthy]
        | raises e => by_cases he : e.isException <;> simp [judge, he, ansTruthy]
    · simp only [hc, Bool.false_eq_true, if_false]
      cases h : o.cond c.id with
      | raises e => simp [judge, ansTruthy]
      | coro a =>
        simp only [emit_bind_out]
        cases a with
        | raises e => simp [judge, ansTruthy]
        | coro a => simp [judge, ansTruthy]
        | val v t =>
          cases t with
          | truthy => simp [judge, ansTruthy]
          | falsy => simp [judge, ansTruthy]
          | raises e => by_cases he : e.isException <;> simp [judge, he, ansTruthy]
      | val v t =>
        cases t with
        | truthy => simp [judge, ansTruthy]
        | falsy => simp [judge, ansTruthy]
        | raises e => by_cases he : e.isException <;> simp [judge, he, ansTruthy]
  · simp [hm]

theorem evalCondAsync_true_of_falsy (o : Oracle) (kw : Kwargs) (c : Contract)
    (h : condFalsy true o kw c = true) : (evalCondAsync o kw c).out = .ok true := by
  unfold condFalsy finalAns at h
  unfold evalCondAsync selectConditionKwargs
  simp only [Bool.and_eq_true] at h
  obtain ⟨hm, ha⟩ := h
  simp only [hm, if_true, pure_bind', emit_bind_out]
  by_cases hc : c.coroFn = true
  · simp only [hc, if_true] at ha ⊢
    cases h : o.cond c.id with
    | raises e => simp [h, ansFalsy] at ha
    | coro a => simp [h, ansFalsy] at ha
    | val v t =>
      cases t with
      | truthy => simp [h, ansFalsy] at ha
      | falsy => simp [judge]
      | raises e => simp [h, ansFalsy] at ha
  · simp only [hc, Bool.false_eq_true, if_false] at ha ⊢
    cases h : o.cond c.id with
    | raises e => simp [h, ansFalsy] at ha
    | coro a =>
      simp only [h] at ha
      simp only [emit_bind_out]
      cases a with
      | raises e => simp [ansFalsy] at ha
      | coro a => simp [ansFalsy] at ha
      | val v t =>
        cases t with
        | truthy => simp [ansFalsy] at ha
        | falsy => simp [judge]
        | raises e => simp [ansFalsy] at ha
    | val v t =>
      cases t with
      | truthy => simp [h, ansFalsy] at ha
      | falsy => simp [judge]
      | raises e => simp [h, ansFalsy] at ha

theorem syncHooks_ok (o : Oracle) : HooksOK (syncHooks o) (condTruthy false o) where
  preT := fun kw c => evalPreSync_false_iff o kw c
  preTrace := fun kw c => evalPreSync_checkOnly o kw c
  postTrace := fun kw c => evalPostSync_checkOnly o kw c
  errTrace := fun c kw => createViolationError_checkOnly o c kw
  capTrace := fun kw acc ss => captureOldSync_captureOnly o kw acc ss
  bodyTrace := fun call => runBody_trace o call
  bodyNonempty := fun call => runBody_nonempty o call

theorem asyncHooks_ok (o : Oracle) : HooksOK (asyncHooks o) (condTruthy true o) where
  preT := fun kw c => evalCondAsync_false_iff o kw c
  preTrace := fun kw c => evalCondAsync_checkOnly o kw c
  postTrace := fun kw c => evalCondAsync_checkOnly o kw c
  errTrace := fun c kw => createViolationError_checkOnly o c kw
  capTrace := fun kw acc ss => captureOldAsync_captureOnly o kw acc ss
  bodyTrace := fun call => runBody_trace o call
  bodyNonempty := fun call => runBody_nonempty o call

end Icontract
