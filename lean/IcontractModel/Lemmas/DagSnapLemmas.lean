/-
  Lemmas for the C08 inheritance theorem: class histories of arbitrary shape whose functions carry their own
  `@snapshot`s, built by `buildHistS` (Spec/DagHistorySnaps.lean).  The induction is that of Lemmas/DagLemmas.lean
  with one more list per function (the snapshots, `FnStS`) and two more facts: a function with snapshots has a
  postcondition (so the collapse never skips the installation of inherited snapshots), and the names of the
  snapshots a function shows are pairwise distinct (`firstDuplicate_none_iff`).  The class table of a history is
  read through `forget` (the history without its snapshots), so `DClassInv` and its lemmas are re-used as they are.
-/
import IcontractModel.Lemmas.DagLemmas
import IcontractModel.Spec.DagHistorySnaps
namespace Icontract.Meta

theorem snapName_congr {w w' : World} (h : w'.snapNames = w.snapNames) : snapName w' = snapName w := by
  funext s
  simp only [snapName, h]

/-! ### what a function's checker shows, with snapshots -/

structure FnStS (w : World) (f : FnId) (gs : List (List Nat)) (ps ss : List Nat) : Prop where
  wf : CkWf w f
  pre : preOf w f = gs
  posts : postsOf w f = ps
  snaps : snapsOf w f = ss
  sp : ss ≠ [] → ps ≠ []
  nd : (ss.map (snapName w)).Nodup

theorem FnStS.frame {S : FnId → Prop} {w w' : World} {f : FnId} {pre : List (List Nat)} {posts snaps : List Nat}
    (a : FnStS w f pre posts snaps) (fr : Frame S w w') (hsn : w'.snapNames = w.snapNames) (hf : ¬ S f) :
    FnStS w' f pre posts snaps := by
  have hc := fr.checkers f hf
  have hnd : (snaps.map (snapName w')).Nodup := by rw [snapName_congr hsn]; exact a.nd
  cases hck : w.checker? f with
  | none =>
    rw [hck] at hc
    refine ⟨(fun ck h => by rw [hc] at h; cases h), ?_, ?_, ?_, a.sp, hnd⟩
    · rw [← a.pre]; simp only [preOf, hc, hck]
    · rw [← a.posts]; simp only [postsOf, hc, hck]
    · rw [← a.snaps]; simp only [snapsOf, hc, hck]
  | some ck =>
    rw [hck] at hc
    obtain ⟨h1, h2, h3, h4⟩ := a.wf ck hck
    have hpre : w'.heap.get ck.pre = w.heap.get ck.pre := fr.heap.1 _ h1
    refine ⟨fun ck' h => ?_, ?_, ?_, ?_, a.sp, hnd⟩
    · rw [hc] at h
      cases h
      refine ⟨Nat.lt_of_lt_of_le h1 fr.heap.2, Nat.lt_of_lt_of_le h2 fr.heap.2,
        Nat.lt_of_lt_of_le h3 fr.heap.2, fun g hg => ?_⟩
      rw [hpre] at hg
      exact Nat.lt_of_lt_of_le (h4 g hg) fr.heap.2
    · rw [← a.pre]
      simp only [preOf, hc, hck, hpre]
      exact List.map_congr_left (fun g hg => fr.heap.1 g (h4 g hg))
    · rw [← a.posts]
      simp only [postsOf, hc, hck, fr.heap.1 _ h3]
    · rw [← a.snaps]
      simp only [snapsOf, hc, hck, fr.heap.1 _ h2]

theorem FnStS.of_eq {w w' : World} {f : FnId} {pre : List (List Nat)} {posts snaps : List Nat}
    (a : FnStS w f pre posts snaps) (hh : w'.heap = w.heap) (hc : w'.checkers = w.checkers)
    (hsn : w'.snapNames = w.snapNames) : FnStS w' f pre posts snaps := by
  have e : w'.checker? f = w.checker? f := by simp only [World.checker?, hc]
  refine ⟨?_, ?_, ?_, ?_, a.sp, by rw [snapName_congr hsn]; exact a.nd⟩
  · intro ck hck
    rw [e] at hck
    rw [hh]
    exact a.wf ck hck
  · rw [← a.pre]; simp only [preOf, e, hh]
  · rw [← a.posts]; simp only [postsOf, e, hh]
  · rw [← a.snaps]; simp only [snapsOf, e, hh]

/-! ### the decorators of a fresh function: `@ensure`s, `@snapshot`s, `@require`s -/

/-- the world after `@ensure`s and `@snapshot`s on a fresh function `f`: three new cells -/
def declPS (w : World) (f : FnId) (posts snaps : List Nat) : World :=
  { w with heap := w.heap ++ [[], snaps, posts],
           checkers := w.checkers ++ [(f, { pre := w.heap.length, snaps := w.heap.length + 1,
                                            posts := w.heap.length + 2 })] }

/-- ... and after at least one `@require` on top: a fourth cell, the one group -/
def declWS (w : World) (f : FnId) (pre posts snaps : List Nat) : World :=
  { w with heap := w.heap ++ [[w.heap.length + 3], snaps, posts, pre],
           checkers := w.checkers ++ [(f, { pre := w.heap.length, snaps := w.heap.length + 1,
                                            posts := w.heap.length + 2 })] }

theorem declP_eq (w : World) (f : FnId) (posts : List Nat) : declP w f posts = declPS w f posts [] := rfl
theorem declW_eq (w : World) (f : FnId) (pre posts : List Nat) : declW w f pre posts = declWS w f pre posts [] := rfl

theorem declPS_checker (w : World) (f : FnId) (posts snaps : List Nat) (h : w.checker? f = none) :
    (declPS w f posts snaps).checker? f =
      some { pre := w.heap.length, snaps := w.heap.length + 1, posts := w.heap.length + 2 } := by
  have h' : w.checkers.find? (·.1 == f) = none := by simpa [World.checker?] using h
  simp only [World.checker?, declPS]
  rw [find_append_self _ _ _ h']; rfl

theorem declPS_checker_ne (w : World) (f f' : FnId) (posts snaps : List Nat) (h : f' ≠ f) :
    (declPS w f posts snaps).checker? f' = w.checker? f' := by
  simp only [World.checker?, declPS]
  rw [find_append_ne _ _ _ _ h]

theorem declWS_checker (w : World) (f : FnId) (pre posts snaps : List Nat) (h : w.checker? f = none) :
    (declWS w f pre posts snaps).checker? f =
      some { pre := w.heap.length, snaps := w.heap.length + 1, posts := w.heap.length + 2 } := by
  have h' : w.checkers.find? (·.1 == f) = none := by simpa [World.checker?] using h
  simp only [World.checker?, declWS]
  rw [find_append_self _ _ _ h']; rfl

theorem declWS_checker_ne (w : World) (f f' : FnId) (pre posts snaps : List Nat) (h : f' ≠ f) :
    (declWS w f pre posts snaps).checker? f' = w.checker? f' := by
  simp only [World.checker?, declWS]
  rw [find_append_ne _ _ _ _ h]

theorem declPS_get (w : World) (f : FnId) (posts snaps : List Nat) :
    (declPS w f posts snaps).heap.get w.heap.length = [] ∧
    (declPS w f posts snaps).heap.get (w.heap.length + 1) = snaps ∧
    (declPS w f posts snaps).heap.get (w.heap.length + 2) = posts := by
  have h0 := Heap.get_app w.heap [[], snaps, posts] 0
  have h1 := Heap.get_app w.heap [[], snaps, posts] 1
  have h2 := Heap.get_app w.heap [[], snaps, posts] 2
  refine ⟨?_, ?_, ?_⟩
  · simpa [declPS] using h0
  · simpa [declPS] using h1
  · simpa [declPS] using h2

theorem declWS_get (w : World) (f : FnId) (pre posts snaps : List Nat) :
    (declWS w f pre posts snaps).heap.get w.heap.length = [w.heap.length + 3] ∧
    (declWS w f pre posts snaps).heap.get (w.heap.length + 1) = snaps ∧
    (declWS w f pre posts snaps).heap.get (w.heap.length + 2) = posts ∧
    (declWS w f pre posts snaps).heap.get (w.heap.length + 3) = pre := by
  have h0 := Heap.get_app w.heap [[w.heap.length + 3], snaps, posts, pre] 0
  have h1 := Heap.get_app w.heap [[w.heap.length + 3], snaps, posts, pre] 1
  have h2 := Heap.get_app w.heap [[w.heap.length + 3], snaps, posts, pre] 2
  have h3 := Heap.get_app w.heap [[w.heap.length + 3], snaps, posts, pre] 3
  refine ⟨?_, ?_, ?_, ?_⟩
  · simpa [declWS] using h0
  · simpa [declWS] using h1
  · simpa [declWS] using h2
  · simpa [declWS] using h3

theorem addSnap_declPS (w : World) (f : FnId) (posts snaps : List Nat) (s : Nat) (h : w.checker? f = none)
    (hp : posts ≠ []) :
    addSnap (declPS w f posts snaps) f s =
      if snaps.any (fun t => snapName w t == snapName w s) then .error (.valueErrorDuplicateSnapshot (snapName w s))
      else .ok (declPS w f posts (snaps ++ [s])) := by
  have hck := declPS_checker w f posts snaps h
  obtain ⟨_, g1, g2⟩ := declPS_get w f posts snaps
  have hsn : snapName (declPS w f posts snaps) = snapName w := rfl
  have hpe : posts.isEmpty = false := by cases posts with
    | nil => exact absurd rfl hp
    | cons _ _ => rfl
  simp only [addSnap, hck, g1, g2, hsn, hpe, Bool.false_eq_true, if_false]
  have := Heap.append_app w.heap [[], snaps, posts] 1 s
  simp only [declPS, this]
  simp

theorem foldlM_addSnap (w : World) (f : FnId) (posts : List Nat) (h : w.checker? f = none) (hp : posts ≠ []) :
    ∀ (ss snaps : List Nat) (w2 : World),
      ss.foldlM (fun w s => addSnap w f s) (declPS w f posts snaps) = .ok w2 →
      (snaps.map (snapName w)).Nodup →
      w2 = declPS w f posts (snaps ++ ss) ∧ ((snaps ++ ss).map (snapName w)).Nodup := by
  intro ss
  induction ss with
  | nil =>
    intro snaps w2 h2 hnd
    simp only [List.foldlM_nil, pure, Except.pure] at h2
    cases h2
    exact ⟨by rw [List.append_nil], by rw [List.append_nil]; exact hnd⟩
  | cons s ss ih =>
    intro snaps w2 h2 hnd
    simp only [List.foldlM_cons, addSnap_declPS _ _ _ _ _ h hp, Bind.bind, Except.bind] at h2
    by_cases hany : snaps.any (fun t => snapName w t == snapName w s) = true
    · simp only [hany, if_true] at h2
      cases h2
    · simp only [hany, Bool.false_eq_true, if_false] at h2
      have hnd' : ((snaps ++ [s]).map (snapName w)).Nodup := by
        simp only [List.map_append, List.map_cons, List.map_nil]
        rw [List.nodup_append]
        refine ⟨hnd, by simp, ?_⟩
        intro a ha b hb e
        simp only [List.mem_singleton] at hb
        subst hb
        apply hany
        obtain ⟨t, ht, rfl⟩ := List.mem_map.mp ha
        exact List.any_eq_true.mpr ⟨t, ht, by simp [e]⟩
      have := ih (snaps ++ [s]) w2 h2 hnd'
      simpa [List.append_assoc] using this

theorem addPre_firstS (w : World) (f : FnId) (posts snaps : List Nat) (c : CId) (h : w.checker? f = none) :
    addPre (declPS w f posts snaps) f c = declWS w f [c] posts snaps := by
  have hck := declPS_checker w f posts snaps h
  obtain ⟨g0, _, _⟩ := declPS_get w f posts snaps
  simp only [addPre, ensureChecker_some _ _ _ hck, g0]
  simp only [Heap.alloc, declPS, List.append_assoc, List.cons_append, List.nil_append, declWS]
  have := Heap.append_app w.heap [[], snaps, posts, [c]] 0 (w.heap.length + 3)
  simp only [Nat.add_zero] at this
  simp only [List.length_append, List.length_cons, List.length_nil, Nat.zero_add, this]
  simp

theorem addPre_nextS (w : World) (f : FnId) (pre posts snaps : List Nat) (c : CId) (h : w.checker? f = none) :
    addPre (declWS w f pre posts snaps) f c = declWS w f (pre ++ [c]) posts snaps := by
  have hck := declWS_checker w f pre posts snaps h
  obtain ⟨hget, _, _, _⟩ := declWS_get w f pre posts snaps
  simp only [addPre, ensureChecker_some _ _ _ hck, hget]
  have := Heap.append_app w.heap [[w.heap.length + 3], snaps, posts, pre] 3 c
  simp only [declWS, this]
  simp

theorem foldl_addPreS (w : World) (f : FnId) (h : w.checker? f = none) (cs : List CId) :
    ∀ pre posts snaps, cs.foldl (fun w c => addPre w f c) (declWS w f pre posts snaps) =
      declWS w f (pre ++ cs) posts snaps := by
  induction cs with
  | nil => intro pre posts snaps; simp
  | cons c cs ih =>
    intro pre posts snaps
    rw [List.foldl_cons, addPre_nextS _ _ _ _ _ _ h, ih]
    simp

theorem declPS_st (w : World) (f : FnId) (posts snaps : List Nat) (h : w.checker? f = none)
    (sp : snaps ≠ [] → posts ≠ []) (nd : (snaps.map (snapName w)).Nodup) :
    Frame (· = f) w (declPS w f posts snaps) ∧ FnStS (declPS w f posts snaps) f [] posts snaps := by
  have hck := declPS_checker w f posts snaps h
  obtain ⟨g0, g1, g2⟩ := declPS_get w f posts snaps
  have hlen : (declPS w f posts snaps).heap.length = w.heap.length + 3 := by simp [declPS]
  have hpres : HPres w.heap (declPS w f posts snaps).heap :=
    ⟨fun r hr => Heap.get_app_lt _ _ r hr, by rw [hlen]; omega⟩
  refine ⟨⟨hpres, rfl, rfl, fun f' hf' => declPS_checker_ne _ _ _ _ _ hf'⟩, ?_, ?_, ?_, ?_, sp, nd⟩
  · intro ck hck'
    rw [hck] at hck'
    cases hck'
    simp only [g0, hlen, List.not_mem_nil]
    refine ⟨?_, ?_, ?_, fun g hg => hg.elim⟩ <;> omega
  · simp only [preOf, hck, g0, List.map_nil]
  · simp only [postsOf, hck, g2]
  · simp only [snapsOf, hck, g1]

theorem declWS_st (w : World) (f : FnId) (pre posts snaps : List Nat) (h : w.checker? f = none)
    (sp : snaps ≠ [] → posts ≠ []) (nd : (snaps.map (snapName w)).Nodup) :
    Frame (· = f) w (declWS w f pre posts snaps) ∧ FnStS (declWS w f pre posts snaps) f [pre] posts snaps := by
  have hck := declWS_checker w f pre posts snaps h
  obtain ⟨g0, g1, g2, g3⟩ := declWS_get w f pre posts snaps
  have hlen : (declWS w f pre posts snaps).heap.length = w.heap.length + 4 := by simp [declWS]
  have hpres : HPres w.heap (declWS w f pre posts snaps).heap :=
    ⟨fun r hr => Heap.get_app_lt _ _ r hr, by rw [hlen]; omega⟩
  refine ⟨⟨hpres, rfl, rfl, fun f' hf' => declWS_checker_ne _ _ _ _ _ _ hf'⟩, ?_, ?_, ?_, ?_, sp, nd⟩
  · intro ck hck'
    rw [hck] at hck'
    cases hck'
    simp only [g0, hlen, List.mem_singleton]
    refine ⟨?_, ?_, ?_, fun g hg => ?_⟩ <;> omega
  · simp only [preOf, hck, g0, List.map_cons, List.map_nil, g3]
  · simp only [postsOf, hck, g2]
  · simp only [snapsOf, hck, g1]

theorem ownGroups_ne {pre : List Nat} (h : pre ≠ []) : ownGroups pre = [pre] := by
  cases pre with
  | nil => exact absurd rfl h
  | cons _ _ => rfl

/-- the own decorators of a fresh function, when they are all accepted -/
theorem declareFnS_spec (w w' : World) (l : LevelS) (h : w.checker? l.f = none)
    (hd : declareFnS w l = .ok w') :
    Frame (· = l.f) w w' ∧ w'.snapNames = w.snapNames ∧
      FnStS w' l.f (ownGroups l.pre) l.posts l.snaps := by
  unfold declareFnS at hd
  simp only [Bind.bind, Except.bind] at hd
  split at hd
  · cases hd
  · next w2 h2 =>
    simp only [pure, Except.pure] at hd
    have hd := Except.ok.inj hd
    subst hd
    cases hq : l.posts with
    | nil =>
      rw [hq, List.foldl_nil] at h2
      cases hs : l.snaps with
      | cons s ss =>
        rw [hs] at h2
        simp [List.foldlM_cons, addSnap, h, Bind.bind, Except.bind] at h2
      | nil =>
        rw [hs] at h2
        simp only [List.foldlM_nil, pure, Except.pure] at h2
        cases h2
        cases hp : l.pre with
        | nil =>
          rw [List.foldl_nil]
          refine ⟨Frame.refl _ _, rfl, (fun ck hck => by rw [h] at hck; cases hck), ?_, ?_, ?_,
            fun hne => absurd rfl hne, List.nodup_nil⟩
          · simp only [preOf, h, ownGroups, List.isEmpty_nil, if_true]
          · simp only [postsOf, h]
          · simp only [snapsOf, h]
        | cons c cs =>
          have e : (c :: cs).foldl (fun w c => addPre w l.f c) w = declWS w l.f (c :: cs) [] [] := by
            rw [List.foldl_cons, addPre_first _ _ _ h, declW_eq, foldl_addPreS _ _ h]
            simp
          rw [e]
          obtain ⟨fr, st⟩ := declWS_st w l.f (c :: cs) [] [] h (fun hne => absurd rfl hne) List.nodup_nil
          exact ⟨fr, rfl, by rw [ownGroups_ne (List.cons_ne_nil _ _)]; exact st⟩
    | cons q qs =>
      have hpne : l.posts ≠ [] := by rw [hq]; exact List.cons_ne_nil _ _
      have e1 : l.posts.foldl (fun w c => addPost w l.f c) w = declPS w l.f l.posts [] := by
        rw [hq, List.foldl_cons, addPost_first _ _ _ h, foldl_addPostP _ _ h, declP_eq]
        simp
      rw [← hq]
      rw [e1] at h2
      obtain ⟨rfl, hnd⟩ := foldlM_addSnap w l.f l.posts h hpne l.snaps [] w2 h2 List.nodup_nil
      simp only [List.nil_append] at hnd ⊢
      cases hp : l.pre with
      | nil =>
        rw [List.foldl_nil]
        obtain ⟨fr, st⟩ := declPS_st w l.f l.posts l.snaps h (fun _ => hpne) hnd
        exact ⟨fr, rfl, st⟩
      | cons c cs =>
        have e : (c :: cs).foldl (fun w c => addPre w l.f c) (declPS w l.f l.posts l.snaps) =
            declWS w l.f (c :: cs) l.posts l.snaps := by
          rw [List.foldl_cons, addPre_firstS _ _ _ _ _ h, foldl_addPreS _ _ h]
          simp
        rw [e]
        obtain ⟨fr, st⟩ := declWS_st w l.f (c :: cs) l.posts l.snaps h (fun _ => hpne) hnd
        exact ⟨fr, rfl, by rw [ownGroups_ne (List.cons_ne_nil _ _)]; exact st⟩

/-! ### `firstDuplicate` -/

theorem firstDuplicate_go_none (w : World) : ∀ (l : List Nat) (seen : List String),
    firstDuplicate.go w seen l = none ↔ (l.map (snapName w)).Nodup ∧ ∀ s ∈ l, snapName w s ∉ seen := by
  intro l
  induction l with
  | nil => intro seen; simp [firstDuplicate.go]
  | cons s rest ih =>
    intro seen
    simp only [firstDuplicate.go]
    by_cases hc : snapName w s ∈ seen
    · have hc' : seen.contains (snapName w s) = true := List.contains_iff_mem.mpr hc
      simp only [hc', if_true]
      constructor
      · intro h; cases h
      · rintro ⟨_, h2⟩
        exact absurd hc (h2 s List.mem_cons_self)
    · have hc' : seen.contains (snapName w s) = false := by
        cases hh : seen.contains (snapName w s) with
        | false => rfl
        | true => exact absurd (List.contains_iff_mem.mp hh) hc
      simp only [hc', Bool.false_eq_true, if_false]
      rw [ih]
      simp only [List.map_cons, List.nodup_cons, List.mem_cons, List.mem_map, not_or, not_exists, not_and]
      constructor
      · rintro ⟨h1, h2⟩
        refine ⟨⟨fun x hx e => (h2 x hx).1 e, h1⟩, ?_⟩
        intro x hx
        rcases hx with rfl | hx
        · exact hc
        · exact (h2 x hx).2
      · rintro ⟨⟨h1, h2⟩, h3⟩
        refine ⟨h2, fun x hx => ⟨fun e => h1 x hx e, h3 x (Or.inr hx)⟩⟩

/-- `firstDuplicate` finds nothing exactly when the names are pairwise distinct -/
theorem firstDuplicate_none_iff (w : World) (l : List Nat) :
    firstDuplicate w l = none ↔ (l.map (snapName w)).Nodup := by
  unfold firstDuplicate
  rw [firstDuplicate_go_none]
  simp

theorem firstDuplicate_some_iff (w : World) (l : List Nat) :
    (∃ n, firstDuplicate w l = some n) ↔ ¬ (l.map (snapName w)).Nodup := by
  rw [← firstDuplicate_none_iff]
  cases firstDuplicate w l <;> simp

theorem copyCells_snapName (w : World) (rs : List Ref) : snapName (copyCells w rs).1 = snapName w :=
  snapName_congr (copyCells_fields w rs).2.2.1

/-! ### one function of the namespace pass, with snapshots -/

theorem decorateOne_nodup (w w' : World) (key : String) (f : FnId) (hv : Bool) (bPre bSnaps bPosts : List Nat)
    (h : decorateOne w key f true (hv, bPre, bSnaps, bPosts) = .ok w') :
    ((bSnaps ++ ownSnaps w f).map (snapName w)).Nodup := by
  rw [← copyCells_snapName w bPre, ← firstDuplicate_none_iff]
  unfold decorateOne at h
  cases hck : w.checker? f <;> simp only [hck, ownSnaps] at h ⊢ <;>
  · split at h
    · next hi => simp at hi
    · split at h
      · cases h
      · split at h
        · cases h
        · next hfd => exact hfd

/-- the collapse fails with `valueErrorDuplicateSnapshot` whenever the collected base snapshots followed by the
function's own ones repeat a name and the weakening rule does not reject the class first -/
theorem decorateOne_duplicate (w : World) (key : String) (f : FnId) (hv : Bool) (bPre bSnaps bPosts : List Nat)
    (hdup : ¬ ((bSnaps ++ ownSnaps w f).map (snapName w)).Nodup)
    (hnw : ¬ (bPre.isEmpty = true ∧ hv = true ∧ (ownPre w f).isEmpty = false)) :
    ∃ n, decorateOne w key f true (hv, bPre, bSnaps, bPosts) = .error (.valueErrorDuplicateSnapshot n) := by
  rw [← copyCells_snapName w bPre, ← firstDuplicate_some_iff] at hdup
  obtain ⟨n, hn⟩ := hdup
  refine ⟨n, ?_⟩
  have hweak : (bPre.isEmpty && hv && !(ownPre w f).isEmpty) = false := by
    cases h1 : bPre.isEmpty <;> cases h2 : hv <;> cases h3 : (ownPre w f).isEmpty <;> simp
    exact hnw ⟨h1, h2, h3⟩
  unfold decorateOne
  cases hck : w.checker? f <;> simp only [hck, ownSnaps, ownPre] at hn hweak ⊢ <;>
    simp only [Bool.not_true, Bool.false_eq_true, if_false, hweak, hn]

theorem decorateOne_resultS (w w' : World) (key : String) (f : FnId) (hv : Bool) (bPre bSnaps bPosts : List Nat)
    (h : decorateOne w key f true (hv, bPre, bSnaps, bPosts) = .ok w')
    (hb : ∀ g ∈ bPre, g < w.heap.length) (hwf : CkWf w f)
    (hsp : bSnaps ++ snapsOf w f ≠ [] → bPosts ++ postsOf w f ≠ []) :
    CkWf w' f ∧ preOf w' f = bPre.map w.heap.get ++ preOf w f ∧ postsOf w' f = bPosts ++ postsOf w f ∧
      snapsOf w' f = bSnaps ++ snapsOf w f ∧ w'.snapNames = w.snapNames := by
  rcases decorateOne_cases w w' key f true hv bPre bSnaps bPosts h with ⟨rfl, h | ⟨h1, h2⟩⟩ | rfl
  · cases h
  · have h2' : bPosts ++ postsOf w' f = [] := by rw [postsOf_eq]; simpa [List.isEmpty_iff] using h2
    have h3 : bSnaps ++ snapsOf w' f = [] := Classical.byContradiction (fun hne => hsp hne h2')
    simp only [List.isEmpty_iff, List.append_eq_nil_iff] at h1 h2
    simp only [List.append_eq_nil_iff] at h3
    refine ⟨hwf, ?_, ?_, ?_, rfl⟩
    · rw [preOf_eq, h1.1, h1.2]; rfl
    · rw [postsOf_eq, h2.1, h2.2]; rfl
    · rw [h3.1, h3.2]; rfl
  · have hck := installed_checker (copyCells w bPre).1 f ((copyCells w bPre).2 ++ ownPre w f)
      (bSnaps ++ ownSnaps w f) (bPosts ++ ownPosts w f)
    have hh := installed_heap (copyCells w bPre).1 f ((copyCells w bPre).2 ++ ownPre w f)
      (bSnaps ++ ownSnaps w f) (bPosts ++ ownPosts w f)
    have fr12 := installed_frame (copyCells w bPre).1 f ((copyCells w bPre).2 ++ ownPre w f)
      (bSnaps ++ ownSnaps w f) (bPosts ++ ownPosts w f)
    have hlen := installed_length (copyCells w bPre).1 f ((copyCells w bPre).2 ++ ownPre w f)
      (bSnaps ++ ownSnaps w f) (bPosts ++ ownPosts w f)
    have hp01 := copyCells_hpres w bPre
    have hL : (copyCells w bPre).1.heap.length ≤ (ensureChecker (copyCells w bPre).1 f).1.heap.length :=
      (ensureChecker_frame (copyCells w bPre).1 f).heap.2
    have hown := hwf.ownPre_lt
    have hpre : preOf (installed (copyCells w bPre).1 f ((copyCells w bPre).2 ++ ownPre w f)
        (bSnaps ++ ownSnaps w f) (bPosts ++ ownPosts w f)) f = bPre.map w.heap.get ++ preOf w f := by
      simp only [preOf, hck, hh.1, List.map_append]
      congr 1
      · rw [← copyCells_contents w bPre hb]
        exact List.map_congr_left (fun g hg => fr12.heap.1 g (copyCells_snd_mem w bPre g hg).2)
      · rw [← preOf, preOf_eq]
        exact List.map_congr_left (fun g hg => (hp01.trans fr12.heap).1 g (hown g hg))
    refine ⟨?_, hpre, ?_, ?_, ?_⟩
    · intro ck hck'
      rw [hck] at hck'
      cases hck'
      dsimp only
      rw [hlen]
      refine ⟨by omega, by omega, by omega, ?_⟩
      intro g hg
      rw [hh.1] at hg
      rcases List.mem_append.mp hg with hg | hg
      · have := (copyCells_snd_mem w bPre g hg).2
        omega
      · have := hown g hg
        have := hp01.2
        omega
    · simp only [postsOf, hck, hh.2.2]; rfl
    · simp only [snapsOf, hck, hh.2.1]; rfl
    · have e1 : (installed (copyCells w bPre).1 f ((copyCells w bPre).2 ++ ownPre w f)
          (bSnaps ++ ownSnaps w f) (bPosts ++ ownPosts w f)).snapNames = (copyCells w bPre).1.snapNames := by
        simp only [installed]
        cases hc : (copyCells w bPre).1.checker? f with
        | some ck => rw [ensureChecker_some _ _ _ hc]
        | none => rw [ensureChecker_none _ _ hc]; rfl
      rw [e1, (copyCells_fields w bPre).2.2.1]

theorem decorateOne_snapNames (w w' : World) (key : String) (f : FnId) (inh : Bool)
    (base : Bool × List Nat × List Nat × List Nat)
    (h : decorateOne w key f inh base = .ok w') : w'.snapNames = w.snapNames := by
  obtain ⟨hv, bPre, bSnaps, bPosts⟩ := base
  rcases decorateOne_cases w w' key f inh hv bPre bSnaps bPosts h with ⟨rfl, _⟩ | rfl
  · rfl
  · have e1 : (installed (copyCells w bPre).1 f ((copyCells w bPre).2 ++ ownPre w f)
        (bSnaps ++ ownSnaps w f) (bPosts ++ ownPosts w f)).snapNames = (copyCells w bPre).1.snapNames := by
      simp only [installed]
      cases hc : (copyCells w bPre).1.checker? f with
      | some ck => rw [ensureChecker_some _ _ _ hc]
      | none => rw [ensureChecker_none _ _ hc]; rfl
    rw [e1, (copyCells_fields w bPre).2.2.1]

/-! ### what the direct bases contribute, with snapshots -/

theorem flatten_ne_nil_of {α : Type} (ps : List ClsId) (sl ss : ClsId → List α)
    (h : ∀ p ∈ ps, ss p ≠ [] → sl p ≠ []) :
    (ps.map ss).flatten ≠ [] → (ps.map sl).flatten ≠ [] := by
  induction ps with
  | nil => intro hne; exact absurd rfl hne
  | cons p ps ih =>
    intro hne hnil
    simp only [List.map_cons, List.flatten_cons] at hne
    simp only [List.map_cons, List.flatten_cons, List.append_eq_nil_iff] at hnil
    by_cases hp : ss p = []
    · exact ih (fun q hq => h q (List.mem_cons_of_mem _ hq)) (fun e => hne (by rw [hp, e]; rfl)) hnil.2
    · exact h p List.mem_cons_self hp hnil.1

theorem collect_foldS (w : World) (key : String) (sp : ClsId → PreSpec) (sl ss : ClsId → List Nat)
    (par : ClsId → Option ClsId) : ∀ (bases : List ClsId) (acc : BaseAcc),
    (∀ b ∈ bases, (par b = none ∧ lookupMember w b key = none) ∨
      ∃ p g, par b = some p ∧ lookupMember w b key = some (.func g) ∧
        FnStS w g ((sp p).getD []) (sl p) (ss p) ∧ sp p ≠ some []) →
    ∃ X, (∀ r ∈ X, r < w.heap.length) ∧
      X.map w.heap.get = ((bases.filterMap par).map (fun p => (sp p).getD [])).flatten ∧
      bases.foldl (fun (acc : BaseAcc) b =>
        match lookupMember w b key with
        | none => acc
        | some m => acc.add w (m.asFunc.bind w.checker?)) acc =
      { haveFunc := acc.haveFunc || !(bases.filterMap par).isEmpty,
        acceptAll := acc.acceptAll || ((bases.filterMap par).map sp).any (·.isNone),
        pre := acc.pre ++ X, snaps := acc.snaps ++ ((bases.filterMap par).map ss).flatten,
        posts := acc.posts ++ ((bases.filterMap par).map sl).flatten } := by
  intro bases
  induction bases with
  | nil =>
    intro acc _
    refine ⟨[], (fun r hr => by cases hr), rfl, ?_⟩
    cases acc
    simp
  | cons b bs ih =>
    intro acc H
    rcases H b List.mem_cons_self with ⟨hpar, hlm⟩ | ⟨p, g, hpar, hlm, st, hne⟩
    · obtain ⟨X, hX, hmap, hfold⟩ := ih acc (fun b' hb' => H b' (List.mem_cons_of_mem _ hb'))
      refine ⟨X, hX, ?_, ?_⟩
      · simp only [List.filterMap_cons, hpar]; exact hmap
      · simp only [List.foldl_cons, hlm, List.filterMap_cons, hpar]; exact hfold
    · obtain ⟨X, hX, hmap, hfold⟩ := ih (acc.add w (w.checker? g))
        (fun b' hb' => H b' (List.mem_cons_of_mem _ hb'))
      have hemp := ownPre_isEmpty_iff st.pre hne
      have hsn : ownSnaps w g = ss p := st.snaps
      have hpo : ownPosts w g = sl p := st.posts
      refine ⟨ownPre w g ++ X, ?_, ?_, ?_⟩
      · intro r hr
        rcases List.mem_append.mp hr with hr | hr
        · exact st.wf.ownPre_lt r hr
        · exact hX r hr
      · simp only [List.filterMap_cons, hpar, List.map_cons, List.flatten_cons, List.map_append, hmap]
        rw [← preOf_eq, st.pre]
      · have hb : (Member.func g).asFunc.bind w.checker? = w.checker? g := rfl
        simp only [List.foldl_cons, hlm, hb, List.filterMap_cons, hpar]
        rw [hfold, BaseAcc.add_checker, hemp, hsn, hpo]
        simp only [List.map_cons, List.any_cons, List.flatten_cons, List.isEmpty_cons, Bool.not_false,
          Bool.or_true, Bool.true_or, List.append_assoc, Bool.or_assoc]

theorem collect_resultS (w : World) (key : String) (sp : ClsId → PreSpec) (sl ss : ClsId → List Nat)
    (par : ClsId → Option ClsId) (bases : List ClsId)
    (H : ∀ b ∈ bases, (par b = none ∧ lookupMember w b key = none) ∨
      ∃ p g, par b = some p ∧ lookupMember w b key = some (.func g) ∧
        FnStS w g ((sp p).getD []) (sl p) (ss p) ∧ sp p ≠ some []) :
    ∃ bPre, collectBases w bases key =
        (!(bases.filterMap par).isEmpty, bPre, ((bases.filterMap par).map ss).flatten,
          ((bases.filterMap par).map sl).flatten) ∧
      (∀ r ∈ bPre, r < w.heap.length) ∧
      (if ((bases.filterMap par).map sp).any (·.isNone) then bPre = []
       else bPre.map w.heap.get = (((bases.filterMap par).map sp).filterMap id).flatten) := by
  obtain ⟨X, hX, hmap, hfold⟩ := collect_foldS w key sp sl ss par bases {} H
  have h2 : collectBases w bases key = BaseAcc.result _ := congrArg BaseAcc.result hfold
  rw [h2]
  simp only [BaseAcc.result, Bool.false_or, List.nil_append]
  by_cases hany : ((bases.filterMap par).map sp).any (·.isNone) = true
  · refine ⟨[], ?_, (fun r hr => by cases hr), ?_⟩
    · simp only [hany, if_true]
    · simp only [hany, if_true]
  · refine ⟨X, ?_, hX, ?_⟩
    · simp only [hany, Bool.false_eq_true, if_false]
    · simp only [hany, Bool.false_eq_true, if_false]
      rw [hmap, filterMap_id_flatten, List.map_map]
      rfl

/-- one member of the class body: the function ends up showing the combination of what the providers of the
direct bases show with its own contracts and snapshots -/
theorem member_stepS (w w' : World) (key : String) (f : FnId) (pre posts snaps : List Nat)
    (sp : ClsId → PreSpec) (sl ss : ClsId → List Nat) (par : ClsId → Option ClsId) (bases : List ClsId)
    (H : ∀ b ∈ bases, (par b = none ∧ lookupMember w b key = none) ∨
      ∃ p g, par b = some p ∧ lookupMember w b key = some (.func g) ∧
        FnStS w g ((sp p).getD []) (sl p) (ss p) ∧ sp p ≠ some [])
    (own : FnStS w f (ownGroups pre) posts snaps)
    (hdec : decorateOne w key f true (collectBases w bases key) = .ok w') :
    FnStS w' f ((preStep pre ((bases.filterMap par).map sp)).getD [])
      (((bases.filterMap par).map sl).flatten ++ posts) (((bases.filterMap par).map ss).flatten ++ snaps) := by
  obtain ⟨bPre, hcb, hlt, hpre⟩ := collect_resultS w key sp sl ss par bases H
  rw [hcb] at hdec
  have hpar : ∀ p ∈ bases.filterMap par, ss p ≠ [] → sl p ≠ [] := by
    intro p hp
    obtain ⟨b, hb, hbp⟩ := List.mem_filterMap.mp hp
    rcases H b hb with ⟨hn, _⟩ | ⟨p', g, hp', _, st, _⟩
    · rw [hn] at hbp; cases hbp
    · rw [hp'] at hbp; cases hbp; exact st.sp
  have hspAll : ((bases.filterMap par).map ss).flatten ++ snaps ≠ [] →
      ((bases.filterMap par).map sl).flatten ++ posts ≠ [] := by
    intro hne hnil
    simp only [List.append_eq_nil_iff] at hnil
    by_cases hs : snaps = []
    · apply flatten_ne_nil_of _ sl ss hpar _ hnil.1
      intro e
      exact hne (by rw [e, hs]; rfl)
    · exact own.sp hs hnil.2
  have hnd := decorateOne_nodup w w' key f _ bPre _ _ hdec
  obtain ⟨hwf, hp, hq, hs, hsn⟩ := decorateOne_resultS w w' key f _ bPre _ _ hdec hlt own.wf
    (by rw [own.snaps, own.posts]; exact hspAll)
  have hnw := decorateOne_not_weaken w w' key f _ bPre _ _ hdec
  refine ⟨hwf, ?_, ?_, ?_, hspAll, ?_⟩
  · rw [hp, own.pre]
    apply preStep_model
    split
    · next hany =>
      rw [if_pos hany] at hpre
      refine ⟨?_, by rw [hpre]; rfl⟩
      have hne : (bases.filterMap par).isEmpty = false := by
        cases hb : bases.filterMap par with
        | nil => rw [hb] at hany; simp at hany
        | cons _ _ => rfl
      have hown : ownPre w f = [] := by
        cases ho : ownPre w f with
        | nil => rfl
        | cons a l =>
          exact absurd ⟨hpre, by rw [hne]; rfl, by rw [ho]; exact List.cons_ne_nil _ _⟩ hnw
      have := own.pre
      rw [preOf_eq, hown] at this
      exact this.symm
    · next hany =>
      rw [if_neg hany] at hpre
      exact hpre
  · rw [hq, own.posts]
  · rw [hs, own.snaps]
  · rw [snapName_congr hsn, ← own.snaps]
    exact hnd

/-! ### histories with snapshots, seen as plain histories (for the class table) -/

def LevelS.toLevel (l : LevelS) : ChainLevel := ⟨l.f, l.pre, l.posts⟩

def ClassDefS.toDef (d : ClassDefS) : ClassDef := ⟨d.bases, d.members.map (fun p => (p.1, p.2.toLevel))⟩

/-- the history without its snapshots -/
def forget (ds : List ClassDefS) : List ClassDef := ds.map ClassDefS.toDef

theorem forget_length (ds : List ClassDefS) : (forget ds).length = ds.length := by
  simp [forget]

theorem forget_getElem (ds : List ClassDefS) (i : Nat) (hi : i < ds.length) (hi' : i < (forget ds).length) :
    (forget ds)[i] = (ds[i]).toDef := by
  simp [forget]

theorem forget_snoc (ds : List ClassDefS) (d : ClassDefS) : forget (ds ++ [d]) = forget ds ++ [d.toDef] := by
  simp [forget]

theorem toDef_ns (d : ClassDefS) :
    d.toDef.members.map (fun p => (p.1, Member.func p.2.f)) = d.members.map (fun p => (p.1, Member.func p.2.f)) := by
  simp only [ClassDefS.toDef, List.map_map]
  rfl

theorem toDef_keys (d : ClassDefS) : d.toDef.members.map (·.1) = d.members.map (·.1) := by
  simp only [ClassDefS.toDef, List.map_map]
  rfl

theorem mem_toDef {d : ClassDefS} {key : String} {l : LevelS} (h : (key, l) ∈ d.members) :
    (key, l.toLevel) ∈ d.toDef.members :=
  List.mem_map.mpr ⟨(key, l), h, rfl⟩

theorem of_mem_toDef {d : ClassDefS} {key : String} {l' : ChainLevel} (h : (key, l') ∈ d.toDef.members) :
    ∃ l, (key, l) ∈ d.members ∧ l' = l.toLevel := by
  obtain ⟨p, hp, e⟩ := List.mem_map.mp h
  simp only [Prod.mk.injEq] at e
  obtain ⟨e1, e2⟩ := e
  refine ⟨p.2, ?_, e2.symm⟩
  rw [← e1]
  exact hp

/-! ### the functions of the classes defined so far show the reference semantics -/

def DCkInvS (D : Decls) (ws w : World) (done : List ClassDefS) : Prop :=
  ∀ i (hi : i < done.length) (key : String) (l : LevelS), (key, l) ∈ (done[i]).members →
    ∀ fuel, i + 1 ≤ fuel →
      FnStS w l.f ((specPreAt ws D fuel (i + 1) key 0).getD []) (specListAt ws D.ownPosts fuel (i + 1) key 0)
        (specListAt ws D.ownSnaps fuel (i + 1) key 0)

theorem mem_allLevelsS {done : List ClassDefS} {i : Nat} (hi : i < done.length) {key : String} {l : LevelS}
    (h : (key, l) ∈ (done[i]).members) : l.f ∈ (allLevelsS done).map (·.f) := by
  apply List.mem_map.mpr
  refine ⟨l, ?_, rfl⟩
  unfold allLevelsS
  exact List.mem_flatMap.mpr ⟨done[i], List.getElem_mem hi, List.mem_map.mpr ⟨(key, l), h, rfl⟩⟩

theorem DCkInvS.frame {D : Decls} {ws w w' : World} {done : List ClassDefS} {S : FnId → Prop}
    (a : DCkInvS D ws w done) (fr : Frame S w w') (hsn : w'.snapNames = w.snapNames)
    (hS : ∀ f, S f → f ∉ (allLevelsS done).map (·.f)) :
    DCkInvS D ws w' done := by
  intro i hi key l hl fuel hfuel
  exact (a i hi key l hl fuel hfuel).frame fr hsn (fun hs => hS _ hs (mem_allLevelsS hi hl))

/-- the hypotheses of `member_stepS`, from the invariants -/
theorem bases_hypS {D : Decls} {ws w : World} {done : List ClassDefS} (cinv : DClassInv ws (forget done))
    (hcls : w.classes = ws.classes) (ck : DCkInvS D ws w done) (key : String) (F : Nat)
    (hF : done.length ≤ F) (b : ClsId) :
    (parentOf ws key 0 b = none ∧ lookupMember w b key = none) ∨
    ∃ p g, parentOf ws key 0 b = some p ∧ lookupMember w b key = some (.func g) ∧
      FnStS w g ((specPreAt ws D F p key 0).getD []) (specListAt ws D.ownPosts F p key 0)
        (specListAt ws D.ownSnaps F p key 0) ∧
      specPreAt ws D F p key 0 ≠ some [] := by
  rw [lookupMember_classes hcls]
  rcases cinv.base_facts b key with h | ⟨p, g, h1, h2, i, hi, rfl, l', hl', rfl⟩
  · exact Or.inl h
  · have hi' : i < done.length := by rw [← forget_length]; exact hi
    rw [forget_getElem done i hi' hi] at hl'
    obtain ⟨l, hl, rfl⟩ := of_mem_toDef hl'
    exact Or.inr ⟨i + 1, l.f, h1, h2, ck i hi' key l hl F (by omega), specPreAt_ne_some_nil ws D key 0 F (i + 1)⟩

/-- no base has a function that the history has not declared yet as its member: nothing is filtered out of the bases -/
theorem basesFor_eqS {ws w : World} {done : List ClassDefS} (cinv : DClassInv ws (forget done))
    (hcls : w.classes = ws.classes) (bases : List ClsId) (key : String) (f : FnId)
    (hf : f ∉ (allLevelsS done).map (·.f)) : basesFor w bases key f = bases := by
  apply basesFor_eq_self
  intro b _
  rw [lookupMember_classes hcls]
  rcases cinv.base_facts b key with ⟨_, h⟩ | ⟨p, g, _, h2, i, hi, _, l', hl', rfl⟩
  · rw [h]; exact fun e => by cases e
  · have hi' : i < done.length := by rw [← forget_length]; exact hi
    rw [forget_getElem done i hi' hi] at hl'
    obtain ⟨l, hl, rfl⟩ := of_mem_toDef hl'
    rw [h2]
    intro e
    exact hf ((Option.some.inj e) ▸ mem_allLevelsS hi' hl)

/-- what the function bound to `key` shows after the class body with bases `bases` has been collapsed -/
def newPreS (D : Decls) (ws : World) (bases : List ClsId) (F : Nat) (key : String) (pre : List Nat) :
    List (List Nat) :=
  (preStep pre ((bases.filterMap (parentOf ws key 0)).map (fun q => specPreAt ws D F q key 0))).getD []

def newListS (own : FnId → List Nat) (ws : World) (bases : List ClsId) (F : Nat) (key : String)
    (mine : List Nat) : List Nat :=
  ((bases.filterMap (parentOf ws key 0)).map (fun q => specListAt ws own F q key 0)).flatten ++ mine

theorem nsPass_dagS (D : Decls) (ws : World) (done : List ClassDefS) (bases : List ClsId)
    (cinv : DClassInv ws (forget done)) : ∀ (ms : List (String × LevelS)) (w w' : World),
    w.classes = ws.classes → DCkInvS D ws w done →
    (∀ p ∈ ms, FnStS w p.2.f (ownGroups p.2.pre) p.2.posts p.2.snaps) →
    (ms.map (·.2.f)).Nodup →
    (∀ p ∈ ms, p.2.f ∉ (allLevelsS done).map (·.f)) →
    (∀ p ∈ ms, p.1 ≠ "__init__" ∧ p.1 ≠ "__new__") →
    (ms.map (fun p => (p.1, Member.func p.2.f))).foldlM
      (fun w (q : String × Member) => decorateMember w bases q.1 q.2) w = .ok w' →
    Frame (fun f => f ∈ ms.map (·.2.f)) w w' ∧ w'.snapNames = w.snapNames ∧
    ∀ p ∈ ms, ∀ F, done.length ≤ F →
      FnStS w' p.2.f (newPreS D ws bases F p.1 p.2.pre) (newListS D.ownPosts ws bases F p.1 p.2.posts)
        (newListS D.ownSnaps ws bases F p.1 p.2.snaps) := by
  intro ms
  induction ms with
  | nil =>
    intro w w' _ _ _ _ _ _ h
    simp only [List.map_nil, List.foldlM_nil, pure, Except.pure] at h
    cases h
    exact ⟨Frame.refl _ _, rfl, fun p hp => by cases hp⟩
  | cons p ms ih =>
    intro w w' hcls ck hown hnd hfresh hctor h
    simp only [List.map_cons, List.foldlM_cons, Bind.bind, Except.bind] at h
    split at h
    · cases h
    · next w1 h1 =>
      have hk : (p.1 != "__init__" && p.1 != "__new__") = true := by
        simp [(hctor p List.mem_cons_self).1, (hctor p List.mem_cons_self).2]
      have hpf : p.2.f ∉ (allLevelsS done).map (·.f) := hfresh p List.mem_cons_self
      simp only [decorateMember, hk, basesFor_eqS cinv hcls bases p.1 p.2.f hpf] at h1
      simp only [List.map_cons, List.nodup_cons] at hnd
      have fr1 := decorateOne_frame _ _ _ _ _ _ h1
      have sn1 := decorateOne_snapNames _ _ _ _ _ _ h1
      have ck1 : DCkInvS D ws w1 done := ck.frame fr1 sn1 (fun f hf => hf ▸ hpf)
      have hown1 : ∀ q ∈ ms, FnStS w1 q.2.f (ownGroups q.2.pre) q.2.posts q.2.snaps := by
        intro q hq
        refine (hown q (List.mem_cons_of_mem _ hq)).frame fr1 sn1 (fun e => hnd.1 ?_)
        rw [← e]
        exact List.mem_map.mpr ⟨q, hq, rfl⟩
      obtain ⟨fr2, sn2, hrest⟩ := ih w1 w' (fr1.classes.trans hcls) ck1 hown1 hnd.2
        (fun q hq => hfresh q (List.mem_cons_of_mem _ hq)) (fun q hq => hctor q (List.mem_cons_of_mem _ hq)) h
      refine ⟨?_, sn2.trans sn1, ?_⟩
      · exact (fr1.mono (fun f hf => by rw [hf]; exact List.mem_cons_self)).trans
          (fr2.mono (fun f hf => List.mem_cons_of_mem _ hf))
      · intro q hq F hF
        rcases List.mem_cons.mp hq with rfl | hq'
        · have hstep := member_stepS w w1 q.1 q.2.f q.2.pre q.2.posts q.2.snaps
            (fun x => specPreAt ws D F x q.1 0) (fun x => specListAt ws D.ownPosts F x q.1 0)
            (fun x => specListAt ws D.ownSnaps F x q.1 0)
            (parentOf ws q.1 0) bases (fun b _ => bases_hypS cinv hcls ck q.1 F hF b)
            (hown q List.mem_cons_self) h1
          exact hstep.frame fr2 sn2 hnd.1
        · exact hrest q hq' F hF

/-! ### the decorators of all functions of a class body -/

theorem declareAllS_cons (w : World) (p : String × LevelS) (ms : List (String × LevelS)) :
    declareAllS w (p :: ms) = (declareFnS w p.2 >>= fun w1 => declareAllS w1 ms) := by
  simp only [declareAllS, List.foldlM_cons]

theorem declareAllS_spec : ∀ (ms : List (String × LevelS)) (w w' : World),
    (ms.map (·.2.f)).Nodup → (∀ p ∈ ms, w.checker? p.2.f = none) → declareAllS w ms = .ok w' →
    Frame (fun f => f ∈ ms.map (·.2.f)) w w' ∧ w'.snapNames = w.snapNames ∧
    ∀ p ∈ ms, FnStS w' p.2.f (ownGroups p.2.pre) p.2.posts p.2.snaps := by
  intro ms
  induction ms with
  | nil =>
    intro w w' _ _ h
    simp only [declareAllS, List.foldlM_nil, pure, Except.pure] at h
    cases h
    exact ⟨Frame.refl _ _, rfl, fun p hp => by cases hp⟩
  | cons p ms ih =>
    intro w w' hnd hnone h
    simp only [List.map_cons, List.nodup_cons] at hnd
    rw [declareAllS_cons] at h
    simp only [Bind.bind, Except.bind] at h
    split at h
    · cases h
    · next w1 h1 =>
      obtain ⟨fr1, sn1, st1⟩ := declareFnS_spec w w1 p.2 (hnone p List.mem_cons_self) h1
      have hnone1 : ∀ q ∈ ms, w1.checker? q.2.f = none := by
        intro q hq
        rw [fr1.checkers q.2.f (fun e => hnd.1 (by rw [← e]; exact List.mem_map.mpr ⟨q, hq, rfl⟩))]
        exact hnone q (List.mem_cons_of_mem _ hq)
      obtain ⟨fr2, sn2, st2⟩ := ih w1 w' hnd.2 hnone1 h
      refine ⟨?_, sn2.trans sn1, ?_⟩
      · exact (fr1.mono (fun f hf => by rw [hf]; exact List.mem_cons_self)).trans
          (fr2.mono (fun f hf => List.mem_cons_of_mem _ hf))
      · intro q hq
        rcases List.mem_cons.mp hq with rfl | hq'
        · exact st1.frame fr2 sn2 hnd.1
        · exact st2 q hq'

/-! ### the reference semantics of the new class, any own list -/

theorem spec_new_list {own : FnId → List Nat} {w w3 : World} {n : Nat}
    (hag : ∀ i, i ≤ n → w3.cls? i = w.cls? i)
    (hcl : ClsClosed w) (c : Cls) (hc : w3.cls? (n + 1) = some c) (hb : ∀ b ∈ c.bases, b ≤ n)
    (key : String) (f : FnId) (hown : ownMember w3 (n + 1) key = some (.func f))
    (hctor : key ≠ "__init__" ∧ key ≠ "__new__") (mine : List Nat) (hmine : own f = mine) (F : Nat) :
    specListAt w3 own (F + 1) (n + 1) key 0 =
      ((c.bases.filterMap (parentOf w key 0)).map (fun q => specListAt w own F q key 0)).flatten ++ mine := by
  have hk : (key == "__init__" || key == "__new__") = false := by simp [hctor.1, hctor.2]
  have hm : (ownMember w3 (n + 1) key).bind (fun m => memberFn m 0) = some f := by rw [hown]; rfl
  rw [specListAt_succ, parents_new hag hcl c hc hb key]
  simp only [hm, hk, Bool.false_eq_true, if_false, hmine]
  congr 2
  exact List.map_congr_left (fun q hq =>
    specListAt_agree n hag hcl own key 0 F q (parents_new_le hcl c.bases hb key q hq))

/-! ### the invariant of a history with snapshots, and one class statement -/

structure DagInvS (D : Decls) (done : List ClassDefS) (w : World) : Prop where
  cls : DClassInv w (forget done)
  ckNone : ∀ f, f ∉ (allLevelsS done).map (·.f) → w.checker? f = none
  ck : DCkInvS D w w done

theorem DagInvS.empty (D : Decls) (names : List (Nat × String)) : DagInvS D [] { snapNames := names } := by
  refine ⟨⟨fun i _ => rfl, fun i hi => ?_, fun i hi => ?_, fun i hi => ?_⟩, fun f _ => rfl, fun i hi => ?_⟩ <;>
    exact absurd hi (Nat.not_lt_zero _)

theorem allLevelsS_snoc (done : List ClassDefS) (d : ClassDefS) :
    allLevelsS (done ++ [d]) = allLevelsS done ++ d.members.map (·.2) := by
  simp [allLevelsS, List.flatMap_append]

theorem getElem_snocS_lt (done : List ClassDefS) (d : ClassDefS) (i : Nat) (hi : i < done.length)
    (hi' : i < (done ++ [d]).length) : (done ++ [d])[i] = done[i] :=
  List.getElem_append_left hi

theorem getElem_snocS_last (done : List ClassDefS) (d : ClassDefS) (hi' : done.length < (done ++ [d]).length) :
    (done ++ [d])[done.length] = d := by
  simp

theorem dag_stepS (D : Decls) (done : List ClassDefS) (d : ClassDefS) (w w1 w' : World)
    (inv : DagInvS D done w)
    (hfresh : ∀ p ∈ d.members, p.2.f ∉ (allLevelsS done).map (·.f))
    (hnd : (d.members.map (·.2.f)).Nodup)
    (hkeys : (d.members.map (·.1)).Nodup)
    (hctor : ∀ p ∈ d.members, p.1 ≠ "__init__" ∧ p.1 ≠ "__new__")
    (hb : ∀ b ∈ d.bases, 1 ≤ b ∧ b ≤ done.length)
    (hD : ∀ p ∈ d.members, D.ownPre p.2.f = p.2.pre ∧ D.ownPosts p.2.f = p.2.posts ∧ D.ownSnaps p.2.f = p.2.snaps)
    (hdecl : declareAllS w d.members = .ok w1)
    (h : defineClass w1 (done.length + 1) d.bases
          (d.members.map (fun p => (p.1, Member.func p.2.f))) true = .ok w') :
    DagInvS D (done ++ [d]) w' := by
  have hfl := forget_length done
  -- the decorators of the body's functions
  obtain ⟨fr01, sn01, hown⟩ := declareAllS_spec d.members w w1 hnd (fun p hp => inv.ckNone _ (hfresh p hp)) hdecl
  have hS : ∀ f, f ∈ d.members.map (·.2.f) → f ∉ (allLevelsS done).map (·.f) := by
    intro f hf
    obtain ⟨p, hp, rfl⟩ := List.mem_map.mp hf
    exact hfresh p hp
  have cinv1 : DClassInv w1 (forget done) := inv.cls.of_classes fr01.classes
  have ck1 : DCkInvS D w w1 done := inv.ck.frame fr01 sn01 hS
  -- the class statement
  obtain ⟨w2, mro, hpass, hmro, hw'⟩ := defineClass_noinv _ _ _ _ _ (fun b dd => cinv1.lookupInv_none b dd) h
  obtain ⟨fr12, sn12, hnew⟩ := nsPass_dagS D w done d.bases inv.cls d.members _ w2 fr01.classes ck1 hown hnd hfresh
    hctor hpass
  have cinv2 : DClassInv w2 (forget done) := inv.cls.of_classes (fr12.classes.trans fr01.classes)
  have ck2 : DCkInvS D w w2 done := ck1.frame fr12 sn12 hS
  have hb' : ∀ b ∈ d.toDef.bases, 1 ≤ b ∧ b ≤ (forget done).length := by rw [hfl]; exact hb
  have hmro' : ∀ x ∈ mro, x ≤ done.length + 1 := by
    have := cinv2.mro_le d.bases hb' mro (by rw [hfl]; exact hmro)
    rw [hfl] at this
    exact this
  have okc : DClsOk (newC (done.length + 1) d.bases (d.members.map (fun p => (p.1, Member.func p.2.f))) mro)
      (forget done).length d.toDef := by
    rw [hfl]
    exact ⟨rfl, (toDef_ns d).symm, rfl, hmro', fun dd => by cases dd <;> rfl⟩
  have cinv3 := cinv2.snoc d.toDef _ (by rw [hfl]; rfl) okc hb' (by rw [toDef_keys]; exact hkeys)
  rw [← forget_snoc] at cinv3
  rw [cinv3.lookupInv_none] at hw'
  simp only [Option.isSome_none, Bool.false_eq_true, if_false] at hw'
  subst hw'
  -- old classes are read as before
  have hag : ∀ i, i ≤ done.length →
      (withCls w2 (newC (done.length + 1) d.bases (d.members.map (fun p => (p.1, Member.func p.2.f))) mro)).cls? i
        = w.cls? i := by
    intro i hi
    rw [withCls_cls?]
    have e : w2.cls? i = w.cls? i := by simp only [World.cls?, fr12.classes.trans fr01.classes]
    have hne : ¬ (done.length + 1 = i) := by omega
    simp only [newC, hne, if_false, e, Option.or_none]
  have hcl := inv.cls.closed
  have hlen : (done ++ [d]).length = done.length + 1 := by simp
  refine ⟨cinv3, ?_, ?_⟩
  · intro f hf
    rw [allLevelsS_snoc, List.map_append, List.mem_append, not_or, List.map_map] at hf
    show w2.checker? f = none
    rw [fr12.checkers f hf.2, fr01.checkers f hf.2]
    exact inv.ckNone f hf.1
  · intro i hi key l hl fuel hfuel
    by_cases hlt : i < done.length
    · have hl' : (key, l) ∈ (done[i]).members := by rw [← getElem_snocS_lt done d i hlt hi]; exact hl
      rw [specPreAt_agree done.length hag hcl D key 0 fuel (i + 1) (Nat.succ_le_of_lt hlt),
        specListAt_agree done.length hag hcl D.ownPosts key 0 fuel (i + 1) (Nat.succ_le_of_lt hlt),
        specListAt_agree done.length hag hcl D.ownSnaps key 0 fuel (i + 1) (Nat.succ_le_of_lt hlt)]
      exact (ck2 i hlt key l hl' fuel hfuel).of_eq rfl rfl rfl
    · have hi' : i = done.length := by omega
      subst hi'
      have hl' : (key, l) ∈ d.members := by rw [← getElem_snocS_last done d hi]; exact hl
      have hown3 : ownMember (withCls w2 (newC (done.length + 1) d.bases
          (d.members.map (fun p => (p.1, Member.func p.2.f))) mro)) (done.length + 1) key =
          some (.func l.f) := by
        have hi2 : done.length < (forget (done ++ [d])).length := by rw [forget_length]; exact hi
        have := cinv3.ownMember_of_mem done.length hi2 key l.toLevel
          (by rw [forget_getElem _ _ hi hi2, getElem_snocS_last done d hi]; exact mem_toDef hl')
        exact this
      obtain ⟨F, rfl⟩ : ∃ F, fuel = F + 1 := ⟨fuel - 1, by omega⟩
      have hc3 : (withCls w2 (newC (done.length + 1) d.bases
          (d.members.map (fun p => (p.1, Member.func p.2.f))) mro)).cls? (done.length + 1) =
          some (newC (done.length + 1) d.bases (d.members.map (fun p => (p.1, Member.func p.2.f))) mro) := by
        rw [withCls_cls?, cinv2.clsNone (done.length + 1) (by rw [hfl]; omega)]
        simp [newC]
      have hble : ∀ b ∈ d.bases, b ≤ done.length := fun b hbm => (hb b hbm).2
      rw [spec_new_pre hag hcl _ hc3 hble key l.toLevel hown3 (hctor _ hl') (hD _ hl').1 F,
        spec_new_list hag hcl _ hc3 hble key l.f hown3 (hctor _ hl') l.posts (hD _ hl').2.1 F,
        spec_new_list hag hcl _ hc3 hble key l.f hown3 (hctor _ hl') l.snaps (hD _ hl').2.2 F]
      exact (hnew (key, l) hl' F (by omega)).of_eq rfl rfl rfl

/-! ### the whole history -/

theorem allLevelsS_append (a b : List ClassDefS) : allLevelsS (a ++ b) = allLevelsS a ++ allLevelsS b := by
  simp [allLevelsS, List.flatMap_append]

theorem allLevelsS_cons (d : ClassDefS) (rest : List ClassDefS) :
    allLevelsS (d :: rest) = d.members.map (·.2) ++ allLevelsS rest := by
  simp [allLevelsS, List.flatMap_cons]

theorem getElem_midS (done : List ClassDefS) (d : ClassDefS) (rest : List ClassDefS)
    (hi : done.length < (done ++ d :: rest).length) : (done ++ d :: rest)[done.length] = d := by
  simp

theorem buildHistS_inv (D : Decls) : ∀ (rest done : List ClassDefS) (w w' : World),
    DagInvS D done w → HistWfS (done ++ rest) →
    (∀ l ∈ allLevelsS (done ++ rest),
      D.ownPre l.f = l.pre ∧ D.ownPosts l.f = l.posts ∧ D.ownSnaps l.f = l.snaps) →
    buildHistS w (done.length + 1) rest = .ok w' → DagInvS D (done ++ rest) w' := by
  intro rest
  induction rest with
  | nil =>
    intro done w w' inv _ _ h
    simp only [buildHistS] at h
    cases h
    rw [List.append_nil]
    exact inv
  | cons d rest ih =>
    intro done w w' inv hwf hD h
    have e : (done ++ [d]) ++ rest = done ++ d :: rest := by simp
    have hi : done.length < (done ++ d :: rest).length := by simp
    obtain ⟨hk, hc, _, hb⟩ := hwf.2 done.length hi
    rw [getElem_midS] at hk hc hb
    have hnd := hwf.1
    rw [allLevelsS_append, allLevelsS_cons, List.map_append, List.map_append, List.nodup_append] at hnd
    obtain ⟨_, hnd2, hdisj⟩ := hnd
    rw [List.nodup_append] at hnd2
    rw [List.map_map] at hnd2
    simp only [buildHistS] at h
    split at h
    · cases h
    · next w0 h0 =>
      split at h
      · cases h
      · next w1 h1 =>
        have hfresh : ∀ p ∈ d.members, p.2.f ∉ (allLevelsS done).map (·.f) := by
          intro p hp hmem
          refine hdisj _ hmem p.2.f ?_ rfl
          exact List.mem_append_left _ (List.mem_map.mpr ⟨p.2, List.mem_map.mpr ⟨p, hp, rfl⟩, rfl⟩)
        have hD1 : ∀ p ∈ d.members,
            D.ownPre p.2.f = p.2.pre ∧ D.ownPosts p.2.f = p.2.posts ∧ D.ownSnaps p.2.f = p.2.snaps := by
          intro p hp
          apply hD
          rw [allLevelsS_append, allLevelsS_cons]
          exact List.mem_append_right _ (List.mem_append_left _ (List.mem_map.mpr ⟨p, hp, rfl⟩))
        have inv1 := dag_stepS D done d w w0 w1 inv hfresh hnd2.1 hk hc hb hD1 h0 h1
        have hlen : (done ++ [d]).length = done.length + 1 := by simp
        have := ih (done ++ [d]) w1 w' inv1 (e ▸ hwf) (e ▸ hD) (by rw [hlen]; exact h)
        rw [e] at this
        exact this

theorem find_of_nodup_fnS (l : LevelS) : ∀ (ls : List LevelS), (ls.map (·.f)).Nodup → l ∈ ls →
    ls.find? (fun x => x.f == l.f) = some l := by
  intro ls
  induction ls with
  | nil => intro _ h; cases h
  | cons q ls ih =>
    intro hnd hmem
    simp only [List.map_cons, List.nodup_cons] at hnd
    rcases List.mem_cons.mp hmem with rfl | hmem'
    · simp only [List.find?_cons, beq_self_eq_true]
    · have hne : (q.f == l.f) = false := by
        apply beq_eq_false_iff_ne.mpr
        intro e
        exact hnd.1 (e ▸ List.mem_map.mpr ⟨l, hmem', rfl⟩)
      simp only [List.find?_cons, hne]
      exact ih hnd.2 hmem'

theorem declsOfS_own (ds : List ClassDefS) (hnd : ((allLevelsS ds).map (·.f)).Nodup) :
    ∀ l ∈ allLevelsS ds, (declsOfS ds).ownPre l.f = l.pre ∧ (declsOfS ds).ownPosts l.f = l.posts ∧
      (declsOfS ds).ownSnaps l.f = l.snaps := by
  intro l hl
  simp only [declsOfS, find_of_nodup_fnS l (allLevelsS ds) hnd hl, and_self]

/-- the general statement behind `C08_dag_snapshots_inherited` -/
theorem buildHistS_observe (names : List (Nat × String)) (ds : List ClassDefS) (hwf : HistWfS ds) (w : World)
    (h : buildHistS { snapNames := names } 1 ds = .ok w) :
    ∀ i (hi : i < ds.length) (key : String) (l : LevelS), (key, l) ∈ (ds[i]).members →
      FnStS w l.f ((specPreAt w (declsOfS ds) (ds.length + 1) (i + 1) key 0).getD [])
        (specListAt w (declsOfS ds).ownPosts (ds.length + 1) (i + 1) key 0)
        (specListAt w (declsOfS ds).ownSnaps (ds.length + 1) (i + 1) key 0) := by
  have inv := buildHistS_inv (declsOfS ds) ds [] _ w (DagInvS.empty _ names) hwf (declsOfS_own ds hwf.1) h
  intro i hi key l hl
  exact inv.ck i hi key l hl (ds.length + 1) (by omega)

end Icontract.Meta
