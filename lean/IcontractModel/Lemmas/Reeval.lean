/-
  Lemmas for C06 / C07: the re-evaluator `visit` against Python's evaluation `pyEval`.
-/
import IcontractModel.Spec.PyEval
import IcontractModel.Represent
import IcontractModel.Lemmas.ExprWf
namespace Icontract.Ex
set_option linter.unusedSimpArgs false

/-! ### the writer + exception monad -/

theorem VRes.bind_def {α β} (x : VRes α) (f : α → VRes β) : x >>= f = VRes.bind x f := rfl
theorem VRes.pure_def {α} (a : α) : (pure a : VRes α) = VRes.ok a := rfl

@[simp] theorem VRes.pure_log {α} (a : α) : (pure a : VRes α).log = [] := rfl
@[simp] theorem VRes.pure_out {α} (a : α) : (pure a : VRes α).out = .ok a := rfl

theorem VRes.bind_of_ok {α β} {x : VRes α} {a : α} (h : x.out = .ok a) (f : α → VRes β) :
    x >>= f = ⟨x.log ++ (f a).log, (f a).out⟩ := by
  show VRes.bind x f = _
  unfold VRes.bind
  rw [h]

theorem VRes.bind_of_error {α β} {x : VRes α} {e : Exc} (h : x.out = .error e) (f : α → VRes β) :
    x >>= f = ⟨x.log, .error e⟩ := by
  show VRes.bind x f = _
  unfold VRes.bind
  rw [h]

@[simp] theorem VRes.record_bind {β} (i : Nat) (v : Val) (f : Unit → VRes β) :
    VRes.record i v >>= f = ⟨(i, v) :: (f ()).log, (f ()).out⟩ := by
  rw [VRes.bind_of_ok (a := ()) rfl]; rfl

@[simp] theorem VRes.lift_ok_bind {α β} (a : α) (f : α → VRes β) :
    VRes.lift (.ok a) >>= f = f a := by
  rw [VRes.bind_of_ok (a := a) rfl]; simp [VRes.lift]

@[simp] theorem VRes.lift_error_bind {α β} (e : Exc) (f : α → VRes β) :
    (VRes.lift (.error e) : VRes α) >>= f = ⟨[], .error e⟩ := by
  rw [VRes.bind_of_error (e := e) rfl]; rfl

@[simp] theorem VRes.pure_bind {α β} (a : α) (f : α → VRes β) : (pure a : VRes α) >>= f = f a := by
  rw [VRes.bind_of_ok (a := a) rfl]; simp

@[simp] theorem VRes.mk_ok_bind {α β} (l : Log) (a : α) (f : α → VRes β) :
    (⟨l, .ok a⟩ : VRes α) >>= f = ⟨l ++ (f a).log, (f a).out⟩ :=
  VRes.bind_of_ok (x := ⟨l, .ok a⟩) rfl f

/-- all ids logged by `x` are in `S` -/
def LogIn {α} (x : VRes α) (S : List Nat) : Prop := ∀ p ∈ x.log, p.1 ∈ S

theorem LogIn.mono {α} {x : VRes α} {S T : List Nat} (h : LogIn x S) (hst : ∀ i ∈ S, i ∈ T) : LogIn x T :=
  fun p hp => hst _ (h p hp)

theorem LogIn.pure {α} (a : α) (S : List Nat) : LogIn (pure a : VRes α) S := by
  intro p hp; simp at hp

theorem LogIn.err {α} (e : Exc) (S : List Nat) : LogIn (VRes.err e : VRes α) S := by
  intro p hp; simp [VRes.err] at hp

theorem LogIn.lift {α} (x : Except Exc α) (S : List Nat) : LogIn (VRes.lift x) S := by
  intro p hp; simp [VRes.lift] at hp

theorem LogIn.record (i : Nat) (v : Val) {S : List Nat} (h : i ∈ S) : LogIn (VRes.record i v) S := by
  intro p hp
  simp [VRes.record] at hp
  subst hp; exact h

theorem LogIn.bind {α β} {x : VRes α} {f : α → VRes β} {S : List Nat}
    (hx : LogIn x S) (hf : ∀ a, LogIn (f a) S) : LogIn (x >>= f) S := by
  intro p hp
  cases h : x.out with
  | error e => rw [VRes.bind_of_error h] at hp; exact hx p hp
  | ok a =>
    rw [VRes.bind_of_ok h] at hp
    simp only [List.mem_append] at hp
    cases hp with
    | inl h1 => exact hx p h1
    | inr h1 => exact hf a p h1

theorem LogIn.ite {α} {c : Prop} [Decidable c] {x y : VRes α} {S : List Nat}
    (hx : LogIn x S) (hy : LogIn y S) : LogIn (if c then x else y) S := by
  split <;> assumption

/-! ### Except -/

theorem Except.bind_eq_ok_iff {ε α β} {x : Except ε α} {f : α → Except ε β} {b : β} :
    (x >>= f) = .ok b ↔ ∃ a, x = .ok a ∧ f a = .ok b := by
  cases x with
  | error e => simp [bind, Except.bind]
  | ok a => simp [bind, Except.bind]

/-! ### the initial name table -/

theorem lookupT_ofNames (names : List (String × Val)) (n : String) :
    lookupT (Tbl.ofNames names) n = (lookup names n).map some := by
  induction names with
  | nil => simp [Tbl.ofNames, lookupT, lookup]
  | cons p rest ih =>
    obtain ⟨k, v⟩ := p
    simp only [Tbl.ofNames, List.map_cons, lookupT, lookup] at ih ⊢
    split
    · rfl
    · exact ih

theorem hasPlaceholder_ofNames (names : List (String × Val)) : (Tbl.ofNames names).hasPlaceholder = false := by
  simp [Tbl.hasPlaceholder, Tbl.ofNames]

theorem values_ofNames (names : List (String × Val)) : (Tbl.ofNames names).values = names := by
  induction names with
  | nil => rfl
  | cons p rest ih =>
    simp only [Tbl.values, Tbl.ofNames, List.map_cons, List.filterMap_cons, Option.map_some] at ih ⊢
    rw [ih]

/-! ### outer and inner ids partition all ids -/

mutual
theorem count_allIds (a : Nat) : ∀ e : Expr, (allIds e).count a = (outerIds e).count a + (innerIds e).count a
  | .const i _ => by simp [allIds, outerIds, innerIds]
  | .name i _ => by simp [allIds, outerIds, innerIds]
  | .attr i e _ => by
      have := count_allIds a e
      simp only [allIds, outerIds, innerIds, List.count_cons, List.count_append]; omega
  | .subscr i e ix => by
      have := count_allIds a e; have := count_allIds a ix
      simp only [allIds, outerIds, innerIds, List.count_cons, List.count_append]; omega
  | .call i f args => by
      have := count_allIds a f; have := count_allIdsList a args
      simp only [allIds, outerIds, innerIds, List.count_cons, List.count_append]; omega
  | .unary i _ e => by
      have := count_allIds a e
      simp only [allIds, outerIds, innerIds, List.count_cons, List.count_append]; omega
  | .bin i _ l r => by
      have := count_allIds a l; have := count_allIds a r
      simp only [allIds, outerIds, innerIds, List.count_cons, List.count_append]; omega
  | .boolop i _ es => by
      have := count_allIdsList a es
      simp only [allIds, outerIds, innerIds, List.count_cons, List.count_append]; omega
  | .compare i left rest => by
      have := count_allIds a left; have := count_allIdsCmp a rest
      simp only [allIds, outerIds, innerIds, List.count_cons, List.count_append]; omega
  | .ifexp i c t e => by
      have := count_allIds a c; have := count_allIds a t; have := count_allIds a e
      simp only [allIds, outerIds, innerIds, List.count_cons, List.count_append]; omega
  | .display i es => by
      have := count_allIdsList a es
      simp only [allIds, outerIds, innerIds, List.count_cons, List.count_append]; omega
  | .comp i _ first inner => by
      have := count_allIds a first
      simp only [allIds, outerIds, innerIds, List.count_cons, List.count_append]; omega
  | .starred i e => by
      have := count_allIds a e
      simp only [allIds, outerIds, innerIds, List.count_cons, List.count_append]; omega
  | .coll i _ es => by
      have := count_allIdsList a es
      simp only [allIds, outerIds, innerIds, List.count_cons, List.count_append]; omega
  | .dict i items => by
      have := count_allIdsItems a items
      simp only [allIds, outerIds, innerIds, List.count_cons, List.count_append]; omega
  | .slice i lo hi step => by
      have := count_allIdsOpt a lo; have := count_allIdsOpt a hi; have := count_allIdsOpt a step
      simp only [allIds, outerIds, innerIds, List.count_cons, List.count_append]; omega
  | .callkw i f args kws => by
      have := count_allIds a f; have := count_allIdsList a args; have := count_allIdsKws a kws
      simp only [allIds, outerIds, innerIds, List.count_cons, List.count_append]; omega
  | .fvalue i e _ spec => by
      have := count_allIds a e; have := count_allIdsOpt a spec
      simp only [allIds, outerIds, innerIds, List.count_cons, List.count_append]; omega
  | .fstring i parts => by
      have := count_allIdsList a parts
      simp only [allIds, outerIds, innerIds, List.count_cons, List.count_append]; omega
theorem count_allIdsList (a : Nat) : ∀ es : List Expr,
    (allIdsList es).count a = (outerIdsList es).count a + (innerIdsList es).count a
  | [] => by simp [allIdsList, outerIdsList, innerIdsList]
  | e :: rest => by
      have := count_allIds a e; have := count_allIdsList a rest
      simp only [allIdsList, outerIdsList, innerIdsList, List.count_append]; omega
theorem count_allIdsCmp (a : Nat) : ∀ es : List (CmpOp × Expr),
    (allIdsCmp es).count a = (outerIdsCmp es).count a + (innerIdsCmp es).count a
  | [] => by simp [allIdsCmp, outerIdsCmp, innerIdsCmp]
  | (_, e) :: rest => by
      have := count_allIds a e; have := count_allIdsCmp a rest
      simp only [allIdsCmp, outerIdsCmp, innerIdsCmp, List.count_append]; omega
theorem count_allIdsItems (a : Nat) : ∀ es : List (Option Expr × Expr),
    (allIdsItems es).count a = (outerIdsItems es).count a + (innerIdsItems es).count a
  | [] => by simp [allIdsItems, outerIdsItems, innerIdsItems]
  | (k, e) :: rest => by
      have := count_allIdsOpt a k; have := count_allIds a e; have := count_allIdsItems a rest
      simp only [allIdsItems, outerIdsItems, innerIdsItems, List.count_append]; omega
theorem count_allIdsKws (a : Nat) : ∀ es : List (Option String × Expr),
    (allIdsKws es).count a = (outerIdsKws es).count a + (innerIdsKws es).count a
  | [] => by simp [allIdsKws, outerIdsKws, innerIdsKws]
  | (_, e) :: rest => by
      have := count_allIds a e; have := count_allIdsKws a rest
      simp only [allIdsKws, outerIdsKws, innerIdsKws, List.count_append]; omega
theorem count_allIdsOpt (a : Nat) : ∀ o : Option Expr,
    (allIdsOpt o).count a = (outerIdsOpt o).count a + (innerIdsOpt o).count a
  | none => by simp [allIdsOpt, outerIdsOpt, innerIdsOpt]
  | some e => by
      have := count_allIds a e
      simp only [allIdsOpt, outerIdsOpt, innerIdsOpt]; omega
end

/-- with distinct node ids, a node outside comprehension scopes is not inside one -/
theorem outer_not_inner {e : Expr} (hid : (allIds e).Nodup) {i : Nat} (ho : i ∈ outerIds e) : i ∉ innerIds e := by
  intro hi
  have h1 := List.nodup_iff_count.mp hid i
  have h2 := count_allIds i e
  have h3 : 0 < (outerIds e).count i := List.count_pos_iff.mpr ho
  have h4 : 0 < (innerIds e).count i := List.count_pos_iff.mpr hi
  omega

end Icontract.Ex
