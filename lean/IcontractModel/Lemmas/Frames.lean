/-
  Lemmas about the frame semantics `runSpec` (Spec/Frames.lean) used by C03(b):
  pushes and pops are balanced, the trace only grows, no invariant of an instance under
  construction is evaluated, and the behaviour of call-free invariants.
-/
import IcontractModel.Spec.Frames
namespace Icontract.Re

theorem framed_stack (k : Key) (ph : Phase) (st : SSt) (f : SSt → SSt × Out)
    (h : ∀ s, (f s).1.stack = s.stack) : (framed k ph st f).1.stack = st.stack := by
  show (f (st.push k ph)).1.stack.drop 1 = st.stack
  rw [h]; rfl

theorem framed_stack_eq {k : Key} {ph : Phase} {st : SSt} {f : SSt → SSt × Out} {st' : SSt} {o : Out}
    (he : framed k ph st f = (st', o))
    (h : ∀ s, (f s).1.stack = s.stack) : st'.stack = st.stack := by
  have := framed_stack k ph st f h
  rw [he] at this; exact this

theorem framed_tr (k : Key) (ph : Phase) (st : SSt) (f : SSt → SSt × Out) :
    (framed k ph st f).1.tr = (f (st.push k ph)).1.tr := rfl

theorem framed_out (k : Key) (ph : Phase) (st : SSt) (f : SSt → SSt × Out) :
    (framed k ph st f).2 = (f (st.push k ph)).2 := rfl

theorem runSpec_stack (p : Program) (fuel st cmd) : (runSpec p fuel st cmd).1.stack = st.stack := by
  fun_induction runSpec p fuel st cmd
  all_goals first | (simp_all [SSt.emit]; done) | skip
  all_goals first | (grind [framed_stack_eq, framed_stack, SSt.emit]) | skip
  rename_i st1 x1 st2 x2 ih3 ih2 ih1
  rw [framed_stack _ _ _ _ ih1, framed_stack_eq x2 ih2, framed_stack_eq x1 ih3]

theorem runSpec_stack_eq {p : Program} {fuel st cmd st' o} (h : runSpec p fuel st cmd = (st', o)) :
    st'.stack = st.stack := by
  have := runSpec_stack p fuel st cmd
  rw [h] at this; exact this

/-! ### no invariant of an instance under construction -/

/-- the instance a command evaluates invariants of, if it is an `.invs` command -/
def cmdInst : Cmd → Option InstId
  | .invs j _ _ => some j
  | _ => none

/-- `s'` has the stack of `s` and extends its trace by events that are not invariants of `i` -/
def Ext (i : InstId) (s s' : SSt) : Prop :=
  s'.stack = s.stack ∧ ∃ t, s'.tr = s.tr ++ t ∧ ∀ k, Ev.inv i k ∉ t

theorem Ext.refl (i : InstId) (s : SSt) : Ext i s s := ⟨rfl, [], by simp, by simp⟩

theorem Ext.trans {i : InstId} {a b c : SSt} (h1 : Ext i a b) (h2 : Ext i b c) : Ext i a c := by
  obtain ⟨hs1, t1, ht1, hn1⟩ := h1
  obtain ⟨hs2, t2, ht2, hn2⟩ := h2
  refine ⟨hs2.trans hs1, t1 ++ t2, by rw [ht2, ht1, List.append_assoc], ?_⟩
  intro k hk
  rcases List.mem_append.1 hk with hk | hk
  · exact hn1 k hk
  · exact hn2 k hk

theorem Ext.emit (i : InstId) (s : SSt) (e : Ev) (he : ∀ k, e ≠ .inv i k) : Ext i s (s.emit e) := by
  refine ⟨rfl, [e], rfl, ?_⟩
  intro k hk
  simp at hk
  exact he k hk.symm

theorem Ext.uc {i : InstId} {s s' : SSt} (h : Ext i s s') :
    s'.underConstruction i = s.underConstruction i := by
  simp [SSt.underConstruction, h.1]

theorem ext_framed {i : InstId} {k : Key} {ph : Phase} {s : SSt} {f : SSt → SSt × Out}
    (h : Ext i (s.push k ph) (f (s.push k ph)).1) : Ext i s (framed k ph s f).1 := by
  obtain ⟨hs, t, ht, hn⟩ := h
  refine ⟨?_, t, ht, hn⟩
  show (f (s.push k ph)).1.stack.drop 1 = s.stack
  rw [hs]; rfl

theorem uc_push (s : SSt) (i : InstId) (k : Key) (ph : Phase) (h : s.underConstruction i = true) :
    (s.push k ph).underConstruction i = true := by
  simp only [SSt.underConstruction, SSt.push, List.any_cons] at *
  simp [h]

theorem uc_emit (s : SSt) (i : InstId) (e : Ev) :
    (s.emit e).underConstruction i = s.underConstruction i := rfl

theorem uc_susp (s : SSt) (i : InstId) (h : s.underConstruction i = true) :
    s.instSuspended i = true := by
  simp only [SSt.underConstruction, SSt.instSuspended, List.any_eq_true] at *
  obtain ⟨fr, hfr, hp⟩ := h
  refine ⟨fr, hfr, ?_⟩
  simp only [Bool.and_eq_true] at hp
  simp [hp.1, hp.2]

theorem ext_framed_run {i : InstId} {k : Key} {ph : Phase} {s : SSt} {f : SSt → SSt × Out}
    (hf : ∀ s, s.underConstruction i = true → Ext i s (f s).1) (hs : s.underConstruction i = true) :
    Ext i s (framed k ph s f).1 :=
  ext_framed (hf _ (uc_push s i k ph hs))

theorem ext_framed_eq {i : InstId} {k : Key} {ph : Phase} {s s' : SSt} {o : Out} {f : SSt → SSt × Out}
    (he : framed k ph s f = (s', o))
    (hf : ∀ s, s.underConstruction i = true → Ext i s (f s).1) (hs : s.underConstruction i = true) :
    Ext i s s' := by
  have := ext_framed_run (k := k) (ph := ph) hf hs
  rw [he] at this; exact this

theorem ext_emit_run {i : InstId} {e : Ev} {g : SSt → SSt} (he : ∀ k, e ≠ .inv i k)
    (ih : ∀ s : SSt, (s.emit e).underConstruction i = true → Ext i (s.emit e) (g (s.emit e))) :
    ∀ s : SSt, s.underConstruction i = true → Ext i s (g (s.emit e)) :=
  fun s hs => (Ext.emit i s e he).trans (ih s hs)

theorem runSpec_ext (p : Program) (i : InstId) (fuel st cmd)
    (h : st.underConstruction i = true) (hcmd : cmdInst cmd ≠ some i) :
    Ext i st (runSpec p fuel st cmd).1 := by
  fun_induction runSpec p fuel st cmd
  all_goals simp only [cmdInst, ne_eq, reduceCtorEq, not_false_eq_true, forall_const, Option.some.injEq] at *
  all_goals first | exact Ext.refl _ _ | skip
  all_goals first | (grind [Ext.refl, Ext.trans, Ext.emit, Ext.uc, ext_framed, uc_push, uc_emit, uc_susp]) | skip
  · -- callFn, all three phases
    rename_i st1 x1 st2 x2 ih3 ih2 ih1
    have ih2' := ext_emit_run (g := fun s => (runSpec p _ s _).1) (by simp) ih2
    have e1 := ext_framed_eq x1 ih3 h
    have e2 := ext_framed_eq x2 ih2' (e1.uc.trans h)
    exact e1.trans (e2.trans (ext_framed_run ih1 (e2.uc.trans (e1.uc.trans h))))
  · -- callFn, body fails
    rename_i st1 x1 _ ih2 ih1
    have ih1' := ext_emit_run (g := fun s => (runSpec p _ s _).1) (by simp) ih1
    have e1 := ext_framed_eq x1 ih2 h
    exact e1.trans (ext_framed_run ih1' (e1.uc.trans h))
  · -- callMethod, guarded from outside: a different instance
    rename_i j m c md _ hg st1 x1 st2 x2 ih2 ih1
    have hne : ¬ j = i := by
      intro e; subst e; simp [uc_susp _ _ h] at hg
    have ih1' := ext_emit_run (g := fun s => (runSpec p _ s _).1) (by simp) ih1
    have ih2' := fun s hs => ih2 s hs hne
    have e1 := ext_framed_eq x1 ih2' h
    have e2 := ext_framed_eq x2 ih1' (e1.uc.trans h)
    exact e1.trans (e2.trans (ext_framed_run ih2' (e2.uc.trans (e1.uc.trans h))))
  · rename_i j m c md _ hg st1 x1 _ ih2 ih1
    have hne : ¬ j = i := by
      intro e; subst e; simp [uc_susp _ _ h] at hg
    have ih1' := ext_emit_run (g := fun s => (runSpec p _ s _).1) (by simp) ih1
    have ih2' := fun s hs => ih2 s hs hne
    have e1 := ext_framed_eq x1 ih2' h
    exact e1.trans (ext_framed_run ih1' (e1.uc.trans h))
  · -- outermost constructor of a different instance
    rename_i j cid c _ hg st1 x1 invs ih2 ih1
    have hne : ¬ j = i := by
      intro e; subst e; simp [uc_susp _ _ h] at hg
    have ih2' := ext_emit_run (g := fun s => (runSpec p _ s _).1) (by simp) ih2
    have ih1' := fun s hs => ih1 s hs hne
    have e1 := ext_framed_eq x1 ih2' h
    exact e1.trans (ext_framed_run ih1' (e1.uc.trans h))

/-! ### invariants that make no calls -/

theorem runSpec_script_plain (p : Program) (n : Nat) (st : SSt) (c : Script) (hc : c.actions = []) :
    runSpec p (n + 2) st (.script c) = (st, .ok) := by
  simp [runSpec, hc]

theorem runSpec_script_plain_lt (p : Program) (n : Nat) (st : SSt) (c : Script)
    (hn : n < 2) : runSpec p n st (.script c) = (st, .timeout) := by
  match n, hn with
  | 0, _ => rfl
  | 1, _ => simp [runSpec]

/-- a successful evaluation of call-free invariants appends exactly their events, in order -/
theorem runSpec_invs_plain_ok (p : Program) (i : InstId) :
    ∀ (cs : List Script) (fuel : Nat) (st : SSt) (k : Nat), (∀ s ∈ cs, s.actions = []) →
      (runSpec p fuel st (.invs i k cs)).2 = .ok →
      (runSpec p fuel st (.invs i k cs)).1.tr = st.tr ++ (List.range' k cs.length).map (Ev.inv i) := by
  intro cs
  induction cs with
  | nil =>
    intro fuel st k _ hok
    cases fuel with
    | zero => simp [runSpec] at hok
    | succ n => simp [runSpec]
  | cons c cs ih =>
    intro fuel st k hpl hok
    have hc : c.actions = [] := hpl c (by simp)
    have hcs : ∀ s ∈ cs, s.actions = [] := fun s hs => hpl s (by simp [hs])
    cases fuel with
    | zero => simp [runSpec] at hok
    | succ n =>
      by_cases hn : n < 2
      · rw [runSpec, runSpec_script_plain_lt p n _ c hn] at hok
        simp at hok
      · obtain ⟨m, rfl⟩ : ∃ m, n = m + 2 := ⟨n - 2, by omega⟩
        rw [runSpec, runSpec_script_plain p m _ c hc] at hok ⊢
        by_cases ht : c.truthy = true
        · simp only [ht, if_true] at hok ⊢
          rw [ih _ _ _ hcs hok]
          simp [SSt.emit, List.range'_succ]
        · simp [ht] at hok

/-- the first falsy call-free invariant raises its violation, given enough fuel -/
theorem runSpec_invs_plain_viol (p : Program) (i : InstId) :
    ∀ (cs : List Script) (k' fuel : Nat) (st : SSt) (j : Nat) (s : Script), (∀ s ∈ cs, s.actions = []) →
      cs[k']? = some s → s.truthy = false →
      (∀ j' s', j' < k' → cs[j']? = some s' → s'.truthy = true) →
      k' + 3 ≤ fuel →
      (runSpec p fuel st (.invs i j cs)).2 = .violInv i (j + k') ∧
      ∃ t, (runSpec p fuel st (.invs i j cs)).1.tr = st.tr ++ t ∧ ∀ e ∈ t, ∃ n, e = Ev.inv i n := by
  intro cs
  induction cs with
  | nil => intro k' fuel st j s _ hk; simp at hk
  | cons c cs ih =>
    intro k' fuel st j s hpl hk hfalse hfirst hfuel
    have hc : c.actions = [] := hpl c (by simp)
    have hcs : ∀ s ∈ cs, s.actions = [] := fun s hs => hpl s (by simp [hs])
    obtain ⟨m, rfl⟩ : ∃ m, fuel = m + 3 := ⟨fuel - 3, by omega⟩
    rw [runSpec, runSpec_script_plain p m _ c hc]
    cases k' with
    | zero =>
      simp at hk
      subst hk
      simp only [hfalse]
      refine ⟨by simp, [Ev.inv i j], rfl, by simp⟩
    | succ k'' =>
      have ht : c.truthy = true := hfirst 0 c (by omega) (by simp)
      simp only [ht, if_true]
      have hk' : cs[k'']? = some s := by simpa using hk
      obtain ⟨h1, t, h2, h3⟩ := ih k'' (m + 2) (st.emit (.inv i j)) (j + 1) s hcs hk' hfalse
        (fun j' s' hj hs' => hfirst (j' + 1) s' (by omega) (by simpa using hs')) (by omega)
      refine ⟨by rw [h1]; congr 1; omega, Ev.inv i j :: t, ?_, ?_⟩
      · rw [h2]; simp [SSt.emit]
      · intro e he
        rcases List.mem_cons.1 he with he | he
        · exact ⟨j, he⟩
        · exact h3 e he

/-- a successful outermost construction: the trace ends with all invariants of the class, in order,
and what precedes them extends the old trace without invariant events of the instance -/
theorem construct_outer_ok (p : Program) (fuel : Nat) (st : SSt) (i : InstId)
    (c : ClsDecl) (hc : p.cls? (p.clsOf i) = some c)
    (hfree : st.instSuspended i = false)
    (hok : (runSpec p fuel st (.act (.construct i))).2 = .ok)
    (hplain : ∀ s ∈ c.invs, s.actions = []) :
    ∃ mid, (runSpec p fuel st (.act (.construct i))).1.tr =
      mid ++ (List.range' 0 c.invs.length).map (Ev.inv i) ∧
      ∃ t, mid = st.tr ++ t ∧ ∀ k, Ev.inv i k ∉ t := by
  match fuel with
  | 0 => simp [runSpec] at hok
  | 1 => simp [runSpec] at hok
  | m + 2 =>
    rw [runSpec, runSpec] at hok ⊢
    simp only [hc, hfree, Bool.false_eq_true, if_false, Option.map_some, Option.getD_some] at hok ⊢
    split at hok
    · rename_i st1 x1
      rw [framed_out] at hok
      rw [framed_tr, runSpec_invs_plain_ok p i _ _ _ _ hplain hok]
      refine ⟨st1.tr, rfl, ?_⟩
      have hext : Ext i (st.push (.inst i) .ctor)
          (runSpec p m ((st.push (.inst i) .ctor).emit (.initBody i (p.clsOf i))) (.script c.init)).1 := by
        refine (Ext.emit i _ _ (by simp)).trans (runSpec_ext p i m _ _ ?_ (by simp [cmdInst]))
        simp [SSt.underConstruction, SSt.push, SSt.emit]
      obtain ⟨_, t, ht, hn⟩ := hext
      refine ⟨t, ?_, hn⟩
      have := congrArg (fun r => r.1.tr) x1
      simp only [framed_tr] at this
      rw [← this, ht]; rfl
    · rename_i hno
      exact (hno _ (Prod.ext rfl hok)).elim

/-- a guarded method call from outside whose `k`-th invariant is the first falsy one -/
theorem callMethod_violation (p : Program) (fuel : Nat) (st : SSt) (i : InstId) (m : MethId)
    (c : ClsDecl) (md : MethDecl) (hc : p.cls? (p.clsOf i) = some c) (hm : c.meths[m]? = some md)
    (hg : md.guarded = true) (hfree : st.instSuspended i = false)
    (k : Nat) (s : Script) (hk : c.invs[k]? = some s) (hfalse : s.truthy = false)
    (hplain : ∀ s ∈ c.invs, s.actions = []) (hfirst : ∀ j s', j < k → c.invs[j]? = some s' → s'.truthy = true)
    (hfuel : c.invs.length + 6 ≤ fuel) :
    (runSpec p fuel st (.act (.callMethod i m))).2 = .violInv i k ∧
    ∃ t, (runSpec p fuel st (.act (.callMethod i m))).1.tr = st.tr ++ t ∧ ∀ e ∈ t, ∃ n, e = Ev.inv i n := by
  obtain ⟨n, rfl⟩ : ∃ n, fuel = n + 1 := ⟨fuel - 1, by omega⟩
  have hklt : k < c.invs.length := (List.getElem?_eq_some_iff.1 hk).1
  obtain ⟨h1, t, h2, h3⟩ := runSpec_invs_plain_viol p i c.invs k n (st.push (.inst i) .invEval) 0 s hplain hk hfalse
    hfirst (by omega)
  have hr : framed (.inst i) .invEval st (fun st => runSpec p n st (.invs i 0 c.invs)) =
      ((runSpec p n (st.push (.inst i) .invEval) (.invs i 0 c.invs)).1.pop, .violInv i k) := by
    simp only [framed]; rw [h1]; simp
  rw [runSpec]
  simp only [hc, hm, Option.bind_some, Option.map_some, hg, hfree, Bool.not_true, Bool.or_false,
    Bool.false_eq_true, if_false]
  rw [hr]
  exact ⟨rfl, t, h2, h3⟩
end Icontract.Re
