/-
  Every line assembled by `collectLines` comes from a recorded value.
-/
import IcontractModel.Represent
namespace Icontract.Ex

/-- every line in `m` is `(text i, x)` for some recorded `(i, x)` -/
def LinesFrom (text : Nat → String) (R : Log) (m : List (String × Val)) : Prop :=
  ∀ k x, (k, x) ∈ m → ∃ i, k = text i ∧ (i, x) ∈ R

theorem recorded_mem {R : Log} {i : Nat} {v : Val} (h : recorded R i = some v) : (i, v) ∈ R := by
  unfold recorded at h
  split at h
  next p hp =>
    have h1 := List.mem_of_find?_eq_some hp
    have h2 := List.find?_some hp
    simp only [beq_iff_eq] at h2
    simp only [Option.some.injEq] at h
    obtain ⟨a, b⟩ := p
    simp only at h h2
    subst h h2
    exact List.mem_reverse.mp h1
  next => cases h

theorem LinesFrom.putLine {text : Nat → String} {R : Log} {m : List (String × Val)} {i : Nat} {v : Val}
    (hm : LinesFrom text R m) (hv : (i, v) ∈ R) : LinesFrom text R (putLine m (text i) v) := by
  intro k x hkx
  unfold Icontract.Ex.putLine at hkx
  split at hkx
  · rw [List.mem_map] at hkx
    obtain ⟨q, hq, he⟩ := hkx
    split at he
    · cases he; exact ⟨i, rfl, hv⟩
    · subst he; exact hm _ _ hq
  · rw [List.mem_append, List.mem_singleton] at hkx
    cases hkx with
    | inl h => exact hm _ _ h
    | inr h => cases h; exact ⟨i, rfl, hv⟩

/-- the conditional `reprs[text] = value` step -/
theorem LinesFrom.step {text : Nat → String} {R : Log} {m : List (String × Val)} (hm : LinesFrom text R m)
    (i : Nat) (c : Val → Bool) :
    LinesFrom text R (match recorded R i with
      | some v => if c v then Icontract.Ex.putLine m (text i) v else m
      | none => m) := by
  cases hr : recorded R i with
  | none => exact hm
  | some v =>
    dsimp only
    split
    · exact hm.putLine (recorded_mem hr)
    · exact hm

theorem LinesFrom.step' {text : Nat → String} {R : Log} {m : List (String × Val)} (hm : LinesFrom text R m)
    (i : Nat) :
    LinesFrom text R (match recorded R i with
      | some v => Icontract.Ex.putLine m (text i) v
      | none => m) := by
  cases hr : recorded R i with
  | none => exact hm
  | some v => exact hm.putLine (recorded_mem hr)

mutual
theorem collectLines_from (text : Nat → String) (isL : String → Bool) (R : Log) :
    ∀ (e : Expr) (m : List (String × Val)), LinesFrom text R m → LinesFrom text R (collectLines text isL R m e)
  | .const _ _, m, hm => by simpa only [collectLines] using hm
  | .name i n, m, hm => by
      simp only [collectLines]
      exact hm.step i (fun v => isL n && representable v)
  | .attr i e _, m, hm => by
      simp only [collectLines]
      exact collectLines_from text isL R e _ (hm.step i representable)
  | .subscr i e ix, m, hm => by
      simp only [collectLines]
      exact collectLines_from text isL R ix _ (collectLines_from text isL R e _ (hm.step' i))
  | .call i f args, m, hm => by
      simp only [collectLines]
      exact collectLinesList_from text isL R args _ (collectLines_from text isL R f _ (hm.step' i))
  | .unary _ _ e, m, hm => by
      simp only [collectLines]
      exact collectLines_from text isL R e _ hm
  | .bin _ _ l r, m, hm => by
      simp only [collectLines]
      exact collectLines_from text isL R r _ (collectLines_from text isL R l _ hm)
  | .boolop _ _ es, m, hm => by
      simp only [collectLines]
      exact collectLinesList_from text isL R es _ hm
  | .compare _ left rest, m, hm => by
      simp only [collectLines]
      exact collectLinesCmp_from text isL R rest _ (collectLines_from text isL R left _ hm)
  | .ifexp _ c t e, m, hm => by
      simp only [collectLines]
      exact collectLines_from text isL R e _ (collectLines_from text isL R t _ (collectLines_from text isL R c _ hm))
  | .display _ es, m, hm => by
      simp only [collectLines]
      exact collectLinesList_from text isL R es _ hm
  | .comp i _ inner, m, hm => by
      simp only [collectLines]
      exact collectLinesList_from text isL R inner _ (hm.step' i)
theorem collectLinesList_from (text : Nat → String) (isL : String → Bool) (R : Log) :
    ∀ (es : List Expr) (m : List (String × Val)), LinesFrom text R m →
      LinesFrom text R (collectLinesList text isL R m es)
  | [], m, hm => by simpa only [collectLinesList] using hm
  | e :: rest, m, hm => by
      simp only [collectLinesList]
      exact collectLinesList_from text isL R rest _ (collectLines_from text isL R e _ hm)
theorem collectLinesCmp_from (text : Nat → String) (isL : String → Bool) (R : Log) :
    ∀ (es : List (CmpOp × Expr)) (m : List (String × Val)), LinesFrom text R m →
      LinesFrom text R (collectLinesCmp text isL R m es)
  | [], m, hm => by simpa only [collectLinesCmp] using hm
  | (_, e) :: rest, m, hm => by
      simp only [collectLinesCmp]
      exact collectLinesCmp_from text isL R rest _ (collectLines_from text isL R e _ hm)
end

end Icontract.Ex
