/-
  Every line assembled by `collectLines` comes from a recorded value.
-/
import IcontractModel.Represent
namespace Icontract.Ex

/-- every line in `m` is `(text i, x)` for some recorded `(i, x)` -/
def LinesFrom (text : Nat → String) (R : Log) (m : List (String × Val)) : Prop :=
  ∀ k x, (k, x) ∈ m → ∃ i, k = text i ∧ (i, x) ∈ R

theorem recorded_mem {R : Log} {i : Nat} {v : Val} (h : recorded R i = some v) : (i, v) ∈ R := by
  unfold recorded at h
  split at h
  next p hp =>
    have h1 := List.mem_of_find?_eq_some hp
    have h2 := List.find?_some hp
    simp only [beq_iff_eq] at h2
    simp only [Option.some.injEq] at h
    obtain ⟨a, b⟩ := p
    simp only at h h2
    subst h h2
    exact List.mem_reverse.mp h1
  next => cases h

theorem LinesFrom.putLine {text : Nat → String} {R : Log} {m : List (String × Val)} {i : Nat} {v : Val}
    (hm : LinesFrom text R m) (hv : (i, v) ∈ R) : LinesFrom text R (putLine m (text i) v) := by
  intro k x hkx
  unfold Icontract.Ex.putLine at hkx
  split at hkx
  · rw [List.mem_map] at hkx
    obtain ⟨q, hq, he⟩ := hkx
    split at he
    · cases he; exact ⟨i, rfl, hv⟩
    · subst he; exact hm _ _ hq
  · rw [List.mem_append, List.mem_singleton] at hkx
    cases hkx with
    | inl h => exact hm _ _ h
    | inr h => cases h; exact ⟨i, rfl, hv⟩

/-- the conditional `reprs[text] = value` step -/
theorem LinesFrom.step {text : Nat → String} {R : Log} {m : List (String × Val)} (hm : LinesFrom text R m)
    (i : Nat) (c : Val → Bool) :
    LinesFrom text R (match recorded R i with
      | some v => if c v then Icontract.Ex.putLine m (text i) v else m
      | none => m) := by
  cases hr : recorded R i with
  | none => exact hm
  | some v =>
    dsimp only
    split
    · exact hm.putLine (recorded_mem hr)
    · exact hm

theorem LinesFrom.step' {text : Nat → String} {R : Log} {m : List (String × Val)} (hm : LinesFrom text R m)
    (i : Nat) :
    LinesFrom text R (match recorded R i with
      | some v => Icontract.Ex.putLine m (text i) v
      | none => m) := by
  cases hr : recorded R i with
  | none => exact hm
  | some v => exact hm.putLine (recorded_mem hr)

mutual
theorem collectLines_from (text : Nat → String) (isL : String → Bool) (R : Log) :
    ∀ (e : Expr) (m : List (String × Val)), LinesFrom text R m → LinesFrom text R (collectLines text isL R m e)
  | .const _ _, m, hm => by simpa only [collectLines] using hm
  | .name i n, m, hm => by
      simp only [collectLines]
      exact hm.step i (fun v => isL n && representable v)
  | .attr i e _, m, hm => by
      simp only [collectLines]
      exact collectLines_from text isL R e _ (hm.step i representable)
  | .subscr i e ix, m, hm => by
      simp only [collectLines]
      exact collectLines_from text isL R ix _ (collectLines_from text isL R e _ (hm.step' i))
  | .call i f args, m, hm => by
      simp only [collectLines]
      exact collectLinesList_from text isL R args _ (collectLines_from text isL R f _ (hm.step' i))
  | .unary _ _ e, m, hm => by
      simp only [collectLines]
      exact collectLines_from text isL R e _ hm
  | .bin _ _ l r, m, hm => by
      simp only [collectLines]
      exact collectLines_from text isL R r _ (collectLines_from text isL R l _ hm)
  | .boolop _ _ es, m, hm => by
      simp only [collectLines]
      exact collectLinesList_from text isL R es _ hm
  | .compare _ left rest, m, hm => by
      simp only [collectLines]
      exact collectLinesCmp_from text isL R rest _ (collectLines_from text isL R left _ hm)
  | .ifexp _ c t e, m, hm => by
      simp only [collectLines]
      exact collectLines_from text isL R e _ (collectLines_from text isL R t _ (collectLines_from text isL R c _ hm))
  | .display _ es, m, hm => by
      simp only [collectLines]
      exact collectLinesList_from text isL R es _ hm
  | .comp i _ first inner, m, hm => by
      simp only [collectLines]
      exact collectLinesList_from text isL R inner _ (collectLines_from text isL R first _ (hm.step' i))
  | .starred _ e, m, hm => by
      simp only [collectLines]
      exact collectLines_from text isL R e _ hm
  | .coll _ _ es, m, hm => by
      simp only [collectLines]
      exact collectLinesList_from text isL R es _ hm
  | .dict _ items, m, hm => by
      simp only [collectLines]
      exact collectLinesVals_from text isL R items _ (collectLinesKeys_from text isL R items _ hm)
  | .slice _ lo hi step, m, hm => by
      simp only [collectLines]
      exact collectLinesOpt_from text isL R step _ (collectLinesOpt_from text isL R hi _
        (collectLinesOpt_from text isL R lo _ hm))
  | .callkw i f args kws, m, hm => by
      simp only [collectLines]
      exact collectLinesKws_from text isL R kws _ (collectLinesList_from text isL R args _
        (collectLines_from text isL R f _ (hm.step' i)))
  | .fvalue _ e _ spec, m, hm => by
      simp only [collectLines]
      exact collectLinesOpt_from text isL R spec _ (collectLines_from text isL R e _ hm)
  | .fstring i _, m, hm => by
      simp only [collectLines]
      exact hm.step i representable
theorem collectLinesList_from (text : Nat → String) (isL : String → Bool) (R : Log) :
    ∀ (es : List Expr) (m : List (String × Val)), LinesFrom text R m →
      LinesFrom text R (collectLinesList text isL R m es)
  | [], m, hm => by simpa only [collectLinesList] using hm
  | e :: rest, m, hm => by
      simp only [collectLinesList]
      exact collectLinesList_from text isL R rest _ (collectLines_from text isL R e _ hm)
theorem collectLinesCmp_from (text : Nat → String) (isL : String → Bool) (R : Log) :
    ∀ (es : List (CmpOp × Expr)) (m : List (String × Val)), LinesFrom text R m →
      LinesFrom text R (collectLinesCmp text isL R m es)
  | [], m, hm => by simpa only [collectLinesCmp] using hm
  | (_, e) :: rest, m, hm => by
      simp only [collectLinesCmp]
      exact collectLinesCmp_from text isL R rest _ (collectLines_from text isL R e _ hm)
theorem collectLinesKeys_from (text : Nat → String) (isL : String → Bool) (R : Log) :
    ∀ (es : List (Option Expr × Expr)) (m : List (String × Val)), LinesFrom text R m →
      LinesFrom text R (collectLinesKeys text isL R m es)
  | [], m, hm => by simpa only [collectLinesKeys] using hm
  | (none, _) :: rest, m, hm => by
      simp only [collectLinesKeys]
      exact collectLinesKeys_from text isL R rest _ hm
  | (some k, _) :: rest, m, hm => by
      simp only [collectLinesKeys]
      exact collectLinesKeys_from text isL R rest _ (collectLines_from text isL R k _ hm)
theorem collectLinesVals_from (text : Nat → String) (isL : String → Bool) (R : Log) :
    ∀ (es : List (Option Expr × Expr)) (m : List (String × Val)), LinesFrom text R m →
      LinesFrom text R (collectLinesVals text isL R m es)
  | [], m, hm => by simpa only [collectLinesVals] using hm
  | (_, e) :: rest, m, hm => by
      simp only [collectLinesVals]
      exact collectLinesVals_from text isL R rest _ (collectLines_from text isL R e _ hm)
theorem collectLinesKws_from (text : Nat → String) (isL : String → Bool) (R : Log) :
    ∀ (es : List (Option String × Expr)) (m : List (String × Val)), LinesFrom text R m →
      LinesFrom text R (collectLinesKws text isL R m es)
  | [], m, hm => by simpa only [collectLinesKws] using hm
  | (_, e) :: rest, m, hm => by
      simp only [collectLinesKws]
      exact collectLinesKws_from text isL R rest _ (collectLines_from text isL R e _ hm)
theorem collectLinesOpt_from (text : Nat → String) (isL : String → Bool) (R : Log) :
    ∀ (o : Option Expr) (m : List (String × Val)), LinesFrom text R m →
      LinesFrom text R (collectLinesOpt text isL R m o)
  | none, m, hm => by simpa only [collectLinesOpt] using hm
  | some e, m, hm => by
      simp only [collectLinesOpt]
      exact collectLines_from text isL R e _ hm
end

/-- an f-string contributes at most the one line of the whole string -/
theorem collectLines_fstring (text : Nat → String) (isL : String → Bool) (R : Log) (i : Nat) (parts : List Expr)
    (k : String) (x : Val) (h : (k, x) ∈ collectLines text isL R [] (.fstring i parts)) :
    k = text i ∧ recorded R i = some x := by
  simp only [collectLines] at h
  cases hr : recorded R i with
  | none => simp [hr] at h
  | some v =>
    simp only [hr] at h
    split at h
    · simp [putLine] at h
      obtain ⟨rfl, rfl⟩ := h
      exact ⟨rfl, rfl⟩
    · cases h


end Icontract.Ex
