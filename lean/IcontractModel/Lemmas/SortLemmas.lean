/-
  Helper lemmas for C20: `keyLe` is a total preorder, sorting distinct-keyed permutations gives the
  same list, and the `addArguments` fold only appends representable, not-yet-shown pairs.
-/
import IcontractModel.Represent
namespace Icontract.Ex

theorem keyLe_trans (a b c : String × Val) : keyLe a b = true → keyLe b c = true → keyLe a c = true := by
  simp only [keyLe, decide_eq_true_eq]
  exact String.le_trans

theorem keyLe_total (a b : String × Val) : (keyLe a b || keyLe b a) = true := by
  simp only [keyLe, Bool.or_eq_true, decide_eq_true_eq]
  exact String.le_total _ _

theorem pairwise_mergeSort_keyLe (l : List (String × Val)) :
    (l.mergeSort keyLe).Pairwise (fun a b => keyLe a b = true) :=
  List.pairwise_mergeSort keyLe_trans keyLe_total l

theorem eq_of_key_eq_of_nodup : ∀ {l : List (String × Val)}, (l.map (·.1)).Nodup →
    ∀ a b, a ∈ l → b ∈ l → a.1 = b.1 → a = b
  | [], _, _, _, ha, _, _ => by simp at ha
  | x :: l, hd, a, b, ha, hb, hk => by
    simp only [List.map_cons, List.nodup_cons, List.mem_map, not_exists, not_and] at hd
    simp only [List.mem_cons] at ha hb
    rcases ha with rfl | ha <;> rcases hb with rfl | hb
    · rfl
    · exact absurd hk.symm (hd.1 _ hb)
    · exact absurd hk (hd.1 _ ha)
    · exact eq_of_key_eq_of_nodup hd.2 a b ha hb hk

/-- permutations with pairwise distinct keys sort to the same list -/
theorem mergeSort_keyLe_eq_of_perm {l l' : List (String × Val)} (hp : l.Perm l')
    (hd : (l.map (·.1)).Nodup) : l.mergeSort keyLe = l'.mergeSort keyLe := by
  have hperm : (l.mergeSort keyLe).Perm (l'.mergeSort keyLe) :=
    (List.mergeSort_perm l keyLe).trans (hp.trans (List.mergeSort_perm l' keyLe).symm)
  refine List.Perm.eq_of_pairwise (le := fun a b => keyLe a b = true) ?_
    (pairwise_mergeSort_keyLe l) (pairwise_mergeSort_keyLe l') hperm
  intro a b ha hb hab hba
  simp only [keyLe, decide_eq_true_eq] at hab hba
  have ha' : a ∈ l := List.mem_mergeSort.mp ha
  have hb' : b ∈ l := hp.symm.subset (List.mem_mergeSort.mp hb)
  exact eq_of_key_eq_of_nodup hd a b ha' hb' (String.le_antisymm hab hba)

theorem selectKwargs_perm (c : List String) {kw kw' : List (String × Val)} (hp : kw.Perm kw') :
    (selectKwargs c kw).Perm (selectKwargs c kw') := hp.filter _

theorem selectKwargs_keys_nodup (c : List String) {kw : List (String × Val)}
    (hd : (kw.map (·.1)).Nodup) : ((selectKwargs c kw).map (·.1)).Nodup :=
  (List.filter_sublist.map _).nodup hd

/-- the fold step of `addArguments` -/
def addStep (m : List (String × Val)) (p : String × Val) : List (String × Val) :=
  if m.any (fun q => q.1 == p.1) || !representable p.2 then m else m ++ [p]

theorem addArguments_eq (m kw : List (String × Val)) :
    addArguments m kw = (kw.mergeSort keyLe).foldl addStep m := rfl

/-- every pair in the fold result is in the start accumulator, or is a representable pair of the folded
list whose key is not a key of the start accumulator -/
theorem mem_foldl_addStep : ∀ (xs m : List (String × Val)) (p : String × Val),
    p ∈ xs.foldl addStep m →
      p ∈ m ∨ (p ∈ xs ∧ representable p.2 = true ∧ ∀ q ∈ m, q.1 ≠ p.1)
  | [], m, p, h => Or.inl h
  | x :: xs, m, p, h => by
    simp only [List.foldl_cons] at h
    rcases mem_foldl_addStep xs (addStep m x) p h with h1 | ⟨h1, h2, h3⟩
    · unfold addStep at h1
      split at h1
      · exact Or.inl h1
      · rename_i hc
        simp only [Bool.or_eq_true, List.any_eq_true, beq_iff_eq, Bool.not_eq_true',
          not_or, not_exists, not_and, Bool.not_eq_false] at hc
        rcases List.mem_append.mp h1 with h1 | h1
        · exact Or.inl h1
        · have : p = x := by simpa using h1
          subst this
          exact Or.inr ⟨List.mem_cons_self, hc.2, fun q hq => hc.1 q hq⟩
    · refine Or.inr ⟨List.mem_cons_of_mem _ h1, h2, fun q hq => h3 q ?_⟩
      unfold addStep
      split
      · exact hq
      · exact List.mem_append_left _ hq

theorem mem_addArguments {m kw : List (String × Val)} {p : String × Val} (h : p ∈ addArguments m kw) :
    p ∈ m ∨ (p ∈ kw ∧ representable p.2 = true ∧ ∀ q ∈ m, q.1 ≠ p.1) := by
  rw [addArguments_eq] at h
  rcases mem_foldl_addStep _ _ _ h with h | ⟨h1, h2, h3⟩
  · exact Or.inl h
  · exact Or.inr ⟨List.mem_mergeSort.mp h1, h2, h3⟩

/-- the fold only ever appends -/
theorem subset_foldl_addStep : ∀ (xs m : List (String × Val)) (q : String × Val), q ∈ m → q ∈ xs.foldl addStep m
  | [], _, _, h => h
  | x :: xs, m, q, h => by
    simp only [List.foldl_cons]
    apply subset_foldl_addStep xs (addStep m x) q
    unfold addStep
    split
    · exact h
    · exact List.mem_append_left _ h

/-- after the fold, every representable pair of the folded list has its KEY among the result -/
theorem key_in_foldl_addStep : ∀ (xs m : List (String × Val)) (p : String × Val),
    p ∈ xs → representable p.2 = true → ∃ q ∈ xs.foldl addStep m, q.1 = p.1
  | [], _, _, h, _ => nomatch h
  | x :: xs, m, p, h, hr => by
    simp only [List.foldl_cons]
    rcases List.mem_cons.mp h with h | h
    · subst h
      by_cases hc : (m.any (fun q => q.1 == p.1) || !representable p.2) = true
      · simp only [Bool.or_eq_true, List.any_eq_true, beq_iff_eq, Bool.not_eq_true', hr, Bool.true_eq_false, or_false] at hc
        obtain ⟨q, hq, hk⟩ := hc
        refine ⟨q, subset_foldl_addStep xs _ q ?_, hk⟩
        unfold addStep
        split
        · exact hq
        · exact List.mem_append_left _ hq
      · refine ⟨p, subset_foldl_addStep xs _ p ?_, rfl⟩
        unfold addStep
        rw [if_neg hc]
        exact List.mem_append_right _ List.mem_cons_self
    · exact key_in_foldl_addStep xs (addStep m x) p h hr

theorem mem_reprPairs {lines : List (String × Val)} {c : List String} {kw : List (String × Val)}
    {p : String × Val} (h : p ∈ reprPairs lines c kw) :
    p ∈ lines ∨ (p ∈ selectKwargs c kw ∧ representable p.2 = true ∧ ∀ q ∈ lines, q.1 ≠ p.1) :=
  mem_addArguments (List.mem_mergeSort.mp h)

end Icontract.Ex
