/- Invariants of decorator stacks (`IcontractModel/Stack.lean`), by induction on the decorator list
   with the start object generalised. -/
import IcontractModel.Stack
namespace Icontract.Stack

theorem applyAll_nil (o0 : FObj) : applyAll [] o0 = .ok o0 := rfl

theorem applyAll_cons (d : Deco) (ds : List Deco) (o0 : FObj) :
    applyAll (d :: ds) o0 = (match applyDeco o0 d with | .ok o1 => applyAll ds o1 | .error e => .error e) := by
  unfold applyAll
  rw [List.foldlM_cons]
  cases applyDeco o0 d <;> rfl

/-- generic induction principle: a relation between start and end object that is reflexive and
extends along one decorator step on the left holds for `applyAll` -/
theorem applyAll_ok_cons {d : Deco} {ds : List Deco} {o0 o : FObj} (h : applyAll (d :: ds) o0 = .ok o) :
    ∃ o1, applyDeco o0 d = .ok o1 ∧ applyAll ds o1 = .ok o := by
  rw [applyAll_cons] at h
  cases h1 : applyDeco o0 d with
  | error e => rw [h1] at h; cases h
  | ok o1 => rw [h1] at h; exact ⟨o1, rfl, h⟩

theorem hasChecker_iff (o : FObj) : o.hasChecker = true ↔ Layer.checker ∈ o.layers := by
  unfold FObj.hasChecker
  exact List.contains_iff_mem

/-! ### one step -/

theorem applyDeco_layerForeignIds {o o1 : FObj} {d : Deco} (h : applyDeco o d = .ok o1) :
    layerForeignIds o1.layers = foreignIds [d] ++ layerForeignIds o.layers := by
  cases d with
  | foreign g =>
    simp only [applyDeco, Except.ok.injEq] at h
    subst h
    simp [layerForeignIds, foreignIds]
  | require c =>
    simp only [applyDeco] at h
    split at h <;> (simp only [Except.ok.injEq] at h; subst h; simp [layerForeignIds, foreignIds])
  | ensure c =>
    simp only [applyDeco] at h
    split at h <;> (simp only [Except.ok.injEq] at h; subst h; simp [layerForeignIds, foreignIds])
  | snapshot s =>
    simp only [applyDeco] at h
    split at h
    · cases h
    · simp only [Except.ok.injEq] at h; subst h; simp [foreignIds]

theorem applyDeco_pre_posts {o o1 : FObj} {d : Deco} (h : applyDeco o d = .ok o1) :
    o1.pre = o.pre ++ requireIds [d] ∧ o1.posts = o.posts ++ ensureIds [d] := by
  cases d with
  | foreign g =>
    simp only [applyDeco, Except.ok.injEq] at h
    subst h
    simp [requireIds, ensureIds]
  | require c =>
    simp only [applyDeco] at h
    split at h <;> (simp only [Except.ok.injEq] at h; subst h; simp [requireIds, ensureIds])
  | ensure c =>
    simp only [applyDeco] at h
    split at h <;> (simp only [Except.ok.injEq] at h; subst h; simp [requireIds, ensureIds])
  | snapshot s =>
    simp only [applyDeco] at h
    split at h
    · cases h
    · simp only [Except.ok.injEq] at h; subst h; simp [requireIds, ensureIds]

theorem count_checker_of_not_has {o : FObj} (h : ¬ o.hasChecker = true) : o.layers.count .checker = 0 := by
  rw [hasChecker_iff] at h
  exact List.count_eq_zero.mpr h

theorem applyDeco_checker {o o1 : FObj} {d : Deco} (h : applyDeco o d = .ok o1)
    (hc : o.layers.count .checker ≤ 1) :
    o1.layers.count .checker ≤ 1 ∧ (o1.hasChecker = true ↔ o.hasChecker = true ∨ d.isContract = true) := by
  cases d with
  | foreign g =>
    simp only [applyDeco, Except.ok.injEq] at h
    subst h
    simp [hasChecker_iff, Deco.isContract, hc]
  | require c =>
    simp only [applyDeco] at h
    split at h
    next hh =>
      simp only [Except.ok.injEq] at h; subst h
      simp_all [hasChecker_iff, Deco.isContract]
    next hh =>
      simp only [Except.ok.injEq] at h; subst h
      have := count_checker_of_not_has hh
      simp_all [hasChecker_iff, Deco.isContract]
  | ensure c =>
    simp only [applyDeco] at h
    split at h
    next hh =>
      simp only [Except.ok.injEq] at h; subst h
      simp_all [hasChecker_iff, Deco.isContract]
    next hh =>
      simp only [Except.ok.injEq] at h; subst h
      have := count_checker_of_not_has hh
      simp_all [hasChecker_iff, Deco.isContract]
  | snapshot s =>
    simp only [applyDeco] at h
    split at h
    · cases h
    · simp only [Except.ok.injEq] at h; subst h
      simp_all [hasChecker_iff, Deco.isContract]

/-! ### the whole list -/

theorem foreignIds_cons (d : Deco) (ds : List Deco) : foreignIds (d :: ds) = foreignIds [d] ++ foreignIds ds := by
  unfold foreignIds
  rw [← List.filterMap_append]; rfl

theorem requireIds_cons (d : Deco) (ds : List Deco) : requireIds (d :: ds) = requireIds [d] ++ requireIds ds := by
  unfold requireIds
  rw [← List.filterMap_append]; rfl

theorem ensureIds_cons (d : Deco) (ds : List Deco) : ensureIds (d :: ds) = ensureIds [d] ++ ensureIds ds := by
  unfold ensureIds
  rw [← List.filterMap_append]; rfl

theorem foreignIds_single_reverse (d : Deco) : (foreignIds [d]).reverse = foreignIds [d] := by
  cases d <;> rfl

theorem applyAll_layerForeignIds (ds : List Deco) (o0 o : FObj) (h : applyAll ds o0 = .ok o) :
    layerForeignIds o.layers = (foreignIds ds).reverse ++ layerForeignIds o0.layers := by
  induction ds generalizing o0 with
  | nil =>
    rw [applyAll_nil] at h
    cases h
    rfl
  | cons d ds ih =>
    obtain ⟨o1, h1, h2⟩ := applyAll_ok_cons h
    rw [ih o1 h2, applyDeco_layerForeignIds h1, foreignIds_cons d ds, List.reverse_append,
      foreignIds_single_reverse, List.append_assoc]

theorem applyAll_pre_posts (ds : List Deco) (o0 o : FObj) (h : applyAll ds o0 = .ok o) :
    o.pre = o0.pre ++ requireIds ds ∧ o.posts = o0.posts ++ ensureIds ds := by
  induction ds generalizing o0 with
  | nil =>
    rw [applyAll_nil] at h
    cases h
    simp [requireIds, ensureIds]
  | cons d ds ih =>
    obtain ⟨o1, h1, h2⟩ := applyAll_ok_cons h
    obtain ⟨i1, i2⟩ := ih o1 h2
    obtain ⟨s1, s2⟩ := applyDeco_pre_posts h1
    rw [i1, i2, s1, s2, requireIds_cons d ds, ensureIds_cons d ds, List.append_assoc, List.append_assoc]
    exact ⟨rfl, rfl⟩

theorem applyAll_checker (ds : List Deco) (o0 o : FObj) (h : applyAll ds o0 = .ok o)
    (hc : o0.layers.count .checker ≤ 1) :
    o.layers.count .checker ≤ 1 ∧
      (o.hasChecker = true ↔ o0.hasChecker = true ∨ ∃ d ∈ ds, d.isContract = true) := by
  induction ds generalizing o0 with
  | nil =>
    rw [applyAll_nil] at h
    cases h
    simp [hc]
  | cons d ds ih =>
    obtain ⟨o1, h1, h2⟩ := applyAll_ok_cons h
    obtain ⟨s1, s2⟩ := applyDeco_checker h1 hc
    obtain ⟨i1, i2⟩ := ih o1 h2 s1
    refine ⟨i1, ?_⟩
    rw [i2, s2]
    simp only [List.mem_cons, exists_eq_or_imp, or_assoc]

theorem count_checker_eq_one_iff {o : FObj} (hc : o.layers.count .checker ≤ 1) :
    o.layers.count .checker = 1 ↔ o.hasChecker = true := by
  rw [hasChecker_iff, ← List.count_pos_iff]
  omega

/-! ### the call trace -/

theorem foreignRan_mem_callTrace (o : FObj) (g : Nat) (hg : g ∈ layerForeignIds o.layers) :
    CallEv.foreignRan g ∈ callTrace o := by
  unfold layerForeignIds at hg
  rw [List.mem_filterMap] at hg
  obtain ⟨l, hl, hlg⟩ := hg
  unfold callTrace
  rw [List.mem_append]
  left
  rw [List.mem_map]
  refine ⟨l, hl, ?_⟩
  cases l with
  | checker => cases hlg
  | foreign g' => simp only [Option.some.injEq] at hlg; subst hlg; rfl

theorem body_mem_callTrace (o : FObj) : CallEv.body ∈ callTrace o := by
  unfold callTrace
  simp

end Icontract.Stack
