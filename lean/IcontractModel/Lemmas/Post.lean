/-
  Decomposition of the generic wrapper skeleton `checkedG` into its phases
  (preconditions, captures, body + postconditions), and the facts about the
  postcondition phase needed by `Props/C02.lean` and `Props/C08.lean`.
-/
import IcontractModel.Lemmas.Instances
import IcontractModel.Spec.Post
namespace Icontract
open Res

/-! ### phases of the skeleton -/

/-- the keyword arguments in force when the body is called -/
def kwBodyG (ck : Checker) (kw : Kwargs) (old : List (String × Id)) : Kwargs :=
  if !ck.posts.isEmpty && !ck.snaps.isEmpty then kw.set "OLD" (.old old) else kw

/-- the capture phase -/
def capPhaseG (h : Hooks) (ck : Checker) (kw : Kwargs) : Res Kwargs :=
  if !ck.posts.isEmpty && !ck.snaps.isEmpty then do
    let old ← h.capture kw [] ck.snaps
    pure (kw.set "OLD" (.old old))
  else pure kw

/-- body and postconditions -/
def tailG (h : Hooks) (ck : Checker) (call : Call) (kw : Kwargs) : Res Id := do
  let r ← h.body call
  if !ck.posts.isEmpty then do
    let v ← assertPostG (h.evPost (kw.set "result" (.obj r)))
      (fun c => h.mkErr c (kw.set "result" (.obj r))) ck.posts
    raiseIfSome v
    pure r
  else pure r

theorem checkedG_invalid (h : Hooks) (ck : Checker) (call : Call) (e : Raised)
    (hvalid : assertResolvedKwargsValid (!ck.posts.isEmpty) (resolved ck call) = some e) :
    checkedG h ck call = Res.raise e := by
  unfold checkedG
  unfold resolved at hvalid
  simp only [hvalid]

theorem checkedG_phases (h : Hooks) (ck : Checker) (call : Call)
    (hvalid : assertResolvedKwargsValid (!ck.posts.isEmpty) (resolved ck call) = none) :
    checkedG h ck call =
      (assertPreG (h.evPre (resolved ck call)) (fun c => h.mkErr c (resolved ck call)) ck.pre >>= fun v =>
        raiseIfSome v >>= fun _ =>
          capPhaseG h ck (resolved ck call) >>= fun kw => tailG h ck call kw) := by
  unfold checkedG
  unfold resolved at hvalid
  simp only [hvalid]
  rfl

/-! ### the capture phase -/

theorem capPhaseG_trace_of_not (h : Hooks) (ck : Checker) (kw : Kwargs)
    (hc : (!ck.posts.isEmpty && !ck.snaps.isEmpty) = false) : (capPhaseG h ck kw).trace = [] := by
  unfold capPhaseG
  simp only [hc, Bool.false_eq_true, if_false]
  rfl

theorem capPhaseG_trace (h : Hooks) (ck : Checker) (kw : Kwargs) (P : Event → Prop)
    (hP : ∀ e ∈ (h.capture kw [] ck.snaps).trace, P e) :
    ∀ e ∈ (capPhaseG h ck kw).trace, P e := by
  intro e he
  unfold capPhaseG at he
  split at he
  · rw [mem_bind_trace] at he
    rcases he with he | ⟨_, _, he⟩
    · exact hP e he
    · simp at he
  · simp at he

theorem capPhaseG_out_ok (h : Hooks) (ck : Checker) (kw kw' : Kwargs)
    (hk : (capPhaseG h ck kw).out = .ok kw') :
    ∃ old, kw' = kwBodyG ck kw old ∧
      ((!ck.posts.isEmpty && !ck.snaps.isEmpty) = true → (h.capture kw [] ck.snaps).out = .ok old) := by
  unfold capPhaseG at hk
  unfold kwBodyG
  by_cases hc : (!ck.posts.isEmpty && !ck.snaps.isEmpty) = true
  · simp only [hc, if_true] at hk ⊢
    rw [bind_out_ok] at hk
    obtain ⟨old, ho, hk⟩ := hk
    simp only [pure_out, Except.ok.injEq] at hk
    exact ⟨old, hk.symm, fun _ => ho⟩
  · simp only [Bool.not_eq_true] at hc
    simp only [hc, Bool.false_eq_true, if_false] at hk ⊢
    simp only [pure_out, Except.ok.injEq] at hk
    exact ⟨[], hk.symm, fun h' => by cases h'⟩

theorem capPhaseG_out_of (h : Hooks) (ck : Checker) (kw : Kwargs) (old : List (String × Id))
    (hcap : (!ck.posts.isEmpty && !ck.snaps.isEmpty) = true → (h.capture kw [] ck.snaps).out = .ok old) :
    (capPhaseG h ck kw).out = .ok (kwBodyG ck kw old) := by
  unfold capPhaseG kwBodyG
  by_cases hc : (!ck.posts.isEmpty && !ck.snaps.isEmpty) = true
  · simp only [hc, if_true]
    rw [bind_out_of_ok (hcap hc)]
    rfl
  · simp only [Bool.not_eq_true] at hc
    simp only [hc, Bool.false_eq_true, if_false]
    rfl

/-! ### body and postconditions -/

theorem tailG_out_ok_iff (h : Hooks) (ck : Checker) (call : Call) (kw : Kwargs) (v : Id) :
    (tailG h ck call kw).out = .ok v ↔
      (h.body call).out = .ok v ∧
      (ck.posts.isEmpty = false →
        (assertPostG (h.evPost (kw.set "result" (.obj v)))
          (fun c => h.mkErr c (kw.set "result" (.obj v))) ck.posts).out = .ok none) := by
  unfold tailG
  rw [bind_out_ok]
  constructor
  · rintro ⟨r, hr, hk⟩
    by_cases hp : ck.posts.isEmpty = true
    · simp only [hp, Bool.not_true, Bool.false_eq_true, if_false, pure_out, Except.ok.injEq] at hk
      subst hk
      exact ⟨hr, fun h' => by rw [hp] at h'; cases h'⟩
    · simp only [Bool.not_eq_true] at hp
      simp only [hp, Bool.not_false, if_true] at hk
      rw [bind_out_ok] at hk
      obtain ⟨w, hw, hk⟩ := hk
      rw [bind_out_ok] at hk
      obtain ⟨u, hu, hk⟩ := hk
      simp only [pure_out, Except.ok.injEq] at hk
      subst hk
      have hwn : w = none := (raiseIfSome_ok w u).mp hu
      subst hwn
      exact ⟨hr, fun _ => hw⟩
  · rintro ⟨hb, hpost⟩
    refine ⟨v, hb, ?_⟩
    by_cases hp : ck.posts.isEmpty = true
    · simp only [hp, Bool.not_true, Bool.false_eq_true, if_false, pure_out]
    · simp only [Bool.not_eq_true] at hp
      simp only [hp, Bool.not_false, if_true]
      rw [bind_out_of_ok (hpost hp)]
      rfl

theorem tailG_out_violated (h : Hooks) (ck : Checker) (call : Call) (kw : Kwargs) (v : Id) (err : Raised)
    (hb : (h.body call).out = .ok v) (hp : ck.posts.isEmpty = false)
    (hpost : (assertPostG (h.evPost (kw.set "result" (.obj v)))
          (fun c => h.mkErr c (kw.set "result" (.obj v))) ck.posts).out = .ok (some err)) :
    (tailG h ck call kw).out = .error err := by
  unfold tailG
  rw [bind_out_of_ok hb]
  simp only [hp, Bool.not_false, if_true]
  rw [bind_out_of_ok hpost]
  have : (raiseIfSome (some err)).out = .error err := rfl
  rw [bind_out_of_err this]

theorem tailG_body_err (h : Hooks) (ck : Checker) (call : Call) (kw : Kwargs) (e : Raised)
    (hb : (h.body call).out = .error e) :
    (tailG h ck call kw).out = .error e ∧ (tailG h ck call kw).trace = (h.body call).trace := by
  unfold tailG
  exact ⟨bind_out_of_err hb, bind_trace_of_err hb⟩

theorem tailG_trace {h : Hooks} {tPre : Kwargs → Contract → Bool} (ok : HooksOK h tPre)
    (ck : Checker) (call : Call) (kw : Kwargs) :
    ∀ e ∈ (tailG h ck call kw).trace, e.isCapture = false := by
  intro e he
  unfold tailG at he
  rw [mem_bind_trace] at he
  rcases he with he | ⟨r, _, he⟩
  · exact Event.isBody_not_capture (ok.bodyTrace call e he)
  · split at he
    · rw [mem_bind_trace] at he
      rcases he with he | ⟨w, _, he⟩
      · exact Event.isCheck_not_capture
          (assertPostG_trace _ _ (fun e => e.isCheck = true) (ok.postTrace _) (fun c => ok.errTrace c _)
            ck.posts e he)
      · rw [mem_bind_trace] at he
        rcases he with he | ⟨_, _, he⟩
        · rw [raiseIfSome_trace] at he; cases he
        · simp at he
    · simp at he

/-! ### the whole skeleton -/

/-- the call got as far as the body: result and trace are those of the phases -/
theorem checkedG_reaches (h : Hooks) (ck : Checker) (call : Call) (old : List (String × Id))
    (hvalid : assertResolvedKwargsValid (!ck.posts.isEmpty) (resolved ck call) = none)
    (hpre : (assertPreG (h.evPre (resolved ck call)) (fun c => h.mkErr c (resolved ck call)) ck.pre).out
      = .ok none)
    (hcap : (!ck.posts.isEmpty && !ck.snaps.isEmpty) = true →
      (h.capture (resolved ck call) [] ck.snaps).out = .ok old) :
    (checkedG h ck call).out = (tailG h ck call (kwBodyG ck (resolved ck call) old)).out ∧
    (checkedG h ck call).trace =
      (assertPreG (h.evPre (resolved ck call)) (fun c => h.mkErr c (resolved ck call)) ck.pre).trace ++
      (capPhaseG h ck (resolved ck call)).trace ++
      (tailG h ck call (kwBodyG ck (resolved ck call) old)).trace := by
  rw [checkedG_phases h ck call hvalid]
  have hc := capPhaseG_out_of h ck (resolved ck call) old hcap
  have hr : (raiseIfSome none).out = .ok () := rfl
  constructor
  · rw [bind_out_of_ok hpre, bind_out_of_ok hr, bind_out_of_ok hc]
  · rw [bind_trace_of_ok hpre, bind_trace_of_ok hr, bind_trace_of_ok hc, raiseIfSome_trace]
    simp only [List.nil_append, List.append_assoc]

/-- a normal return comes out of the body-and-postconditions phase -/
theorem checkedG_out_ok (h : Hooks) (ck : Checker) (call : Call) (v : Id)
    (hret : (checkedG h ck call).out = .ok v) :
    ∃ old, (tailG h ck call (kwBodyG ck (resolved ck call) old)).out = .ok v := by
  cases hvalid : assertResolvedKwargsValid (!ck.posts.isEmpty) (resolved ck call) with
  | some e => rw [checkedG_invalid h ck call e hvalid] at hret; simp at hret
  | none =>
    rw [checkedG_phases h ck call hvalid] at hret
    rw [bind_out_ok] at hret
    obtain ⟨w, _, hret⟩ := hret
    rw [bind_out_ok] at hret
    obtain ⟨_, _, hret⟩ := hret
    rw [bind_out_ok] at hret
    obtain ⟨kw', hk, hret⟩ := hret
    obtain ⟨old, hkw, _⟩ := capPhaseG_out_ok h ck _ _ hk
    subst hkw
    exact ⟨old, hret⟩

/-- precondition events, then capture events, then no capture any more -/
theorem checkedG_split {h : Hooks} {tPre : Kwargs → Contract → Bool} (ok : HooksOK h tPre)
    (ck : Checker) (call : Call) :
    ∃ tpre tcap trest, (checkedG h ck call).trace = tpre ++ tcap ++ trest ∧
      (∀ e ∈ tpre, e.isCheck = true) ∧ (∀ e ∈ tcap, e.isCapture = true) ∧
      (∀ e ∈ trest, e.isCapture = false) ∧
      ((!ck.posts.isEmpty && !ck.snaps.isEmpty) = false → tcap = []) := by
  have hnil : ∀ (P : Event → Prop), ∀ e ∈ ([] : Trace), P e := fun _ e he => by cases he
  cases hvalid : assertResolvedKwargsValid (!ck.posts.isEmpty) (resolved ck call) with
  | some e =>
    rw [checkedG_invalid h ck call e hvalid]
    exact ⟨[], [], [], rfl, hnil _, hnil _, hnil _, fun _ => rfl⟩
  | none =>
    rw [checkedG_phases h ck call hvalid]
    have hpreT := assertPreG_trace _ _ (fun e => e.isCheck = true) (ok.preTrace (resolved ck call))
      (fun c => ok.errTrace c (resolved ck call)) ck.pre
    have hcapT := capPhaseG_trace h ck (resolved ck call) (fun e => e.isCapture = true)
      (ok.capTrace _ _ _)
    cases hpre : (assertPreG (h.evPre (resolved ck call)) (fun c => h.mkErr c (resolved ck call)) ck.pre).out with
    | error e =>
      rw [bind_trace_of_err hpre]
      exact ⟨_, [], [], by simp, hpreT, hnil _, hnil _, fun _ => rfl⟩
    | ok w =>
      rw [bind_trace_of_ok hpre]
      cases w with
      | some e =>
        have hr : (raiseIfSome (some e)).out = .error e := rfl
        rw [bind_trace_of_err hr, raiseIfSome_trace]
        exact ⟨_, [], [], by simp, hpreT, hnil _, hnil _, fun _ => rfl⟩
      | none =>
        have hr : (raiseIfSome none).out = .ok () := rfl
        rw [bind_trace_of_ok hr, raiseIfSome_trace, List.nil_append]
        cases hc : (capPhaseG h ck (resolved ck call)).out with
        | error e =>
          rw [bind_trace_of_err hc]
          exact ⟨_, _, [], by simp, hpreT, hcapT, hnil _,
            fun hn => capPhaseG_trace_of_not h ck _ hn⟩
        | ok kw' =>
          rw [bind_trace_of_ok hc]
          exact ⟨_, _, _, (List.append_assoc _ _ _).symm, hpreT, hcapT, tailG_trace ok ck call kw',
            fun hn => capPhaseG_trace_of_not h ck _ hn⟩

/-! ### hook facts for the postcondition phase -/

theorem evalPostSync_false_iff (o : Oracle) (kw : Kwargs) (c : Contract) :
    (evalPostSync o kw c).out = .ok false ↔ condTruthy false o kw c = true := by
  unfold evalPostSync condTruthy selectConditionKwargs finalAns
  by_cases hc : c.coroFn = true
  · simp [hc]
  · by_cases hm : (missingNames c.mandatory kw).isEmpty = true
    · simp only [hm, hc, if_true, Bool.not_eq_true] at *
      simp only [pure_bind', Bool.false_eq_true, if_false, emit_bind_out, Bool.true_and]
      cases h : o.cond c.id with
      | raises e => simp [judge, ansTruthy]
      | coro a => simp
      | val v t =>
        cases t with
        | truthy => simp [judge, ansTruthy]
        | falsy => simp [judge, ansTruthy]
        | raises e => by_cases he : e.isException <;> simp [judge, he, ansTruthy]
    · simp [hm, hc]

theorem evalPostSync_true_of_falsy (o : Oracle) (kw : Kwargs) (c : Contract)
    (h : condFalsy false o kw c = true) : (evalPostSync o kw c).out = .ok true := by
  unfold condFalsy finalAns at h
  unfold evalPostSync selectConditionKwargs
  simp only [Bool.and_eq_true] at h
  obtain ⟨hm, ha⟩ := h
  by_cases hc : c.coroFn = true
  · simp [hc] at ha
  · simp only [Bool.not_eq_true] at hc
    simp only [hm, hc, if_true, pure_bind', Bool.false_eq_true, if_false, emit_bind_out] at ha ⊢
    cases h : o.cond c.id with
    | raises e => simp [h, ansFalsy] at ha
    | coro a => simp [h] at ha
    | val v t =>
      cases t with
      | truthy => simp [h, ansFalsy] at ha
      | falsy => simp [judge]
      | raises e => simp [h, ansFalsy] at ha

theorem runBody_ret (o : Oracle) (call : Call) (v : Id) (hb : o.body = .ret v) :
    runBody o call = ⟨[.body call.args call.kwargs], .ok v⟩ := by
  unfold runBody
  rw [emit_bind, hb]
  rfl

theorem runBody_raises (o : Oracle) (call : Call) (e : Exc) (hb : o.body = .raises e) :
    runBody o call = ⟨[.body call.args call.kwargs], .error (.user e)⟩ := by
  unfold runBody
  rw [emit_bind, hb]
  rfl

theorem runBody_out_ok (o : Oracle) (call : Call) (v : Id) (h : (runBody o call).out = .ok v) :
    o.body = .ret v := by
  cases hb : o.body with
  | ret w =>
    rw [runBody_ret o call w hb] at h
    simp only [Except.ok.injEq] at h
    rw [h]
  | raises e =>
    rw [runBody_raises o call e hb] at h
    cases h

theorem runBody_out_ret (o : Oracle) (call : Call) (v : Id) (hb : o.body = .ret v) :
    (runBody o call).out = .ok v := by rw [runBody_ret o call v hb]

theorem syncHooks_pre_none (o : Oracle) (kw : Kwargs) (gs : List (List Contract))
    (h : (assertPreSync o kw gs).out = .ok none) :
    (assertPreG ((syncHooks o).evPre kw) (fun c => (syncHooks o).mkErr c kw) gs).out = .ok none := by
  rw [assertPreSync_eq] at h; exact h

theorem asyncHooks_pre_none (o : Oracle) (kw : Kwargs) (gs : List (List Contract))
    (h : (assertPreAsync o kw gs).out = .ok none) :
    (assertPreG ((asyncHooks o).evPre kw) (fun c => (asyncHooks o).mkErr c kw) gs).out = .ok none := by
  rw [assertPreAsync_eq] at h; exact h

/-! ### C02 for the skeleton -/

section C02
variable (h : Hooks) (ck : Checker) (call : Call) (old : List (String × Id))
variable (hvalid : assertResolvedKwargsValid (!ck.posts.isEmpty) (resolved ck call) = none)
variable (hpre : (assertPreG (h.evPre (resolved ck call)) (fun c => h.mkErr c (resolved ck call)) ck.pre).out
      = .ok none)
variable (hcap : (!ck.posts.isEmpty && !ck.snaps.isEmpty) = true →
      (h.capture (resolved ck call) [] ck.snaps).out = .ok old)
include hvalid hpre hcap

theorem checkedG_body_exception (o : Oracle) (hbody : h.body = runBody o) (e : Exc)
    (hb : o.body = .raises e) :
    (checkedG h ck call).out = .error (.user e) ∧
    (checkedG h ck call).trace.getLast? = some (.body call.args call.kwargs) := by
  obtain ⟨ho, ht⟩ := checkedG_reaches h ck call old hvalid hpre hcap
  have hb' : (h.body call).out = .error (.user e) := by rw [hbody, runBody_raises o call e hb]
  obtain ⟨h1, h2⟩ := tailG_body_err h ck call (kwBodyG ck (resolved ck call) old) _ hb'
  refine ⟨ho.trans h1, ?_⟩
  rw [ht, h2, hbody, runBody_raises o call e hb]
  simp

theorem checkedG_returns (tPost : Kwargs → Contract → Bool)
    (hT : ∀ kw c, (h.evPost kw c).out = .ok false ↔ tPost kw c = true)
    (v : Id) (hb : (h.body call).out = .ok v)
    (hall : ∀ c ∈ ck.posts, tPost ((kwBodyG ck (resolved ck call) old).set "result" (.obj v)) c = true) :
    (checkedG h ck call).out = .ok v := by
  obtain ⟨ho, _⟩ := checkedG_reaches h ck call old hvalid hpre hcap
  rw [ho, tailG_out_ok_iff]
  exact ⟨hb, fun _ => (assertPostG_none_iff _ _ (tPost _) (hT _) ck.posts).mpr hall⟩

theorem checkedG_first_falsy (tPost fPost : Kwargs → Contract → Bool)
    (hT : ∀ kw c, (h.evPost kw c).out = .ok false ↔ tPost kw c = true)
    (hF : ∀ kw c, fPost kw c = true → (h.evPost kw c).out = .ok true)
    (v : Id) (hb : (h.body call).out = .ok v)
    (htot : ∀ c ∈ ck.posts, tPost ((kwBodyG ck (resolved ck call) old).set "result" (.obj v)) c = true ∨
      fPost ((kwBodyG ck (resolved ck call) old).set "result" (.obj v)) c = true)
    (c : Contract)
    (hc : ck.posts.find? (fun c => !tPost ((kwBodyG ck (resolved ck call) old).set "result" (.obj v)) c) = some c)
    (err : Raised)
    (herr : (h.mkErr c ((kwBodyG ck (resolved ck call) old).set "result" (.obj v))).out = .ok err) :
    (checkedG h ck call).out = .error err := by
  obtain ⟨ho, _⟩ := checkedG_reaches h ck call old hvalid hpre hcap
  rw [ho]
  have hne : ck.posts.isEmpty = false := by
    cases hp : ck.posts with
    | nil => rw [hp] at hc; cases hc
    | cons _ _ => rfl
  apply tailG_out_violated h ck call _ v err hb hne
  rw [assertPostG_total _ _ (tPost _) (fPost _) (hT _) (hF _) ck.posts htot, hc]
  simp only
  rw [bind_out_of_ok herr]
  rfl

end C02

theorem checkedG_return_only_if (h : Hooks) (ck : Checker) (call : Call)
    (tPost : Kwargs → Contract → Bool)
    (hT : ∀ kw c, (h.evPost kw c).out = .ok false ↔ tPost kw c = true)
    (v : Id) (hret : (checkedG h ck call).out = .ok v) :
    (h.body call).out = .ok v ∧
    ∃ old, ∀ c ∈ ck.posts, tPost ((kwBodyG ck (resolved ck call) old).set "result" (.obj v)) c = true := by
  obtain ⟨old, ht⟩ := checkedG_out_ok h ck call v hret
  rw [tailG_out_ok_iff] at ht
  refine ⟨ht.1, old, ?_⟩
  cases hp : ck.posts.isEmpty with
  | true =>
    intro c hc
    rw [List.isEmpty_iff.mp hp] at hc
    cases hc
  | false => exact (assertPostG_none_iff _ _ (tPost _) (hT _) ck.posts).mp (ht.2 hp)

/-! ### C08 for the skeleton -/

theorem checkedG_no_capture {h : Hooks} {tPre : Kwargs → Contract → Bool} (ok : HooksOK h tPre)
    (ck : Checker) (call : Call) (hn : ck.posts = [] ∨ ck.snaps = []) :
    ¬ captured (checkedG h ck call).trace := by
  have hc : (!ck.posts.isEmpty && !ck.snaps.isEmpty) = false := by
    rcases hn with hn | hn <;> simp [hn]
  obtain ⟨tpre, tcap, trest, ht, hpre, _, hrest, hnil⟩ := checkedG_split ok ck call
  rw [ht, hnil hc]
  rintro ⟨e, he, hcap⟩
  simp only [List.append_nil, List.mem_append] at he
  rcases he with he | he
  · rw [Event.isCheck_not_capture (hpre e he)] at hcap; cases hcap
  · rw [hrest e he] at hcap; cases hcap

theorem checkedG_between {h : Hooks} {tPre : Kwargs → Contract → Bool} (ok : HooksOK h tPre)
    (ck : Checker) (call : Call) :
    ∃ tpre tcap trest, (checkedG h ck call).trace = tpre ++ tcap ++ trest ∧
      (∀ e ∈ tpre, e.isCheck = true) ∧ (∀ e ∈ tcap, e.isCapture = true) ∧
      (∀ e ∈ trest, e.isCapture = false) ∧
      (∀ e ∈ trest, e.isBody = true → ∀ e' ∈ tpre ++ tcap, e'.isBody = false) := by
  obtain ⟨tpre, tcap, trest, ht, hpre, hcap, hrest, _⟩ := checkedG_split ok ck call
  refine ⟨tpre, tcap, trest, ht, hpre, hcap, hrest, ?_⟩
  intro _ _ _ e' he'
  rcases List.mem_append.mp he' with he' | he'
  · exact Event.isCheck_not_body (hpre e' he')
  · exact Event.isCapture_not_body (hcap e' he')

end Icontract
