/- Evaluation order: which conditions are called, in which order, in which phase (used by C16). -/
import IcontractModel.Lemmas.Instances
import IcontractModel.Spec.Trace
namespace Icontract
open Res List

/-! ### trace projections -/

theorem condsCalled_append (a b : Trace) : condsCalled (a ++ b) = condsCalled a ++ condsCalled b := by
  simp [condsCalled, List.filterMap_append]

theorem condsCalled_nil : condsCalled [] = [] := rfl

/-- ids of the contracts a message was built for, in order -/
def msgsOf (t : Trace) : List CId := t.filterMap Event.msgId

theorem msgsOf_append (a b : Trace) : msgsOf (a ++ b) = msgsOf a ++ msgsOf b := by
  simp [msgsOf, List.filterMap_append]

theorem msgsOf_eq_nil {t : Trace} (h : ∀ e ∈ t, e.msgId = none) : msgsOf t = [] := by
  unfold msgsOf
  exact List.filterMap_eq_nil_iff.mpr h

theorem Event.msgId_of_capture {e : Event} (h : e.isCapture = true) : e.msgId = none := by
  cases e <;> simp_all [Event.isCapture, Event.msgId]

theorem Event.msgId_of_body {e : Event} (h : e.isBody = true) : e.msgId = none := by
  cases e <;> simp_all [Event.isBody, Event.msgId]

/-! ### `Res` helpers -/

theorem Res.bind_pure_trace (x : Res α) (g : α → β) :
    (x >>= fun a => (pure (g a) : Res β)).trace = x.trace := by
  simp only [bind_def, Res.bind]
  cases x.out <;> simp

theorem Res.bind_pure_out_ok (x : Res α) (g : α → β) (a : α) (h : x.out = .ok a) :
    (x >>= fun a => (pure (g a) : Res β)).out = .ok (g a) := by
  rw [bind_out_of_ok h]; rfl

theorem Res.bind_pure_out_err (x : Res α) (g : α → β) (e : Raised) (h : x.out = .error e) :
    (x >>= fun a => (pure (g a) : Res β)).out = .error e := bind_out_of_err h

/-- `let v ← x; raiseIfSome v; pure r` logs exactly what `x` logs -/
theorem raiseTail_trace (x : Res (Option Raised)) (r : β) :
    (x >>= fun v => raiseIfSome v >>= fun _ => (pure r : Res β)).trace = x.trace := by
  cases hx : x.out with
  | error e => exact bind_trace_of_err hx
  | ok v =>
    rw [bind_trace_of_ok hx]
    cases v with
    | none => simp [raiseIfSome]
    | some e =>
      have : raiseIfSome (some e) = (Res.raise e : Res Unit) := rfl
      rw [this, raise_bind]; simp

/-! ### one condition -/

/-- What one evaluation of the condition of `c` logs: either nothing (and then it raised), or the
condition call followed by events that are neither condition calls nor message building. -/
def EvalShape (c : Contract) (r : Res Bool) : Prop :=
  (r.trace = [] ∧ ∃ e, r.out = .error e) ∨
  ∃ sel rest, r.trace = Event.cond c.id sel :: rest ∧ ∀ e ∈ rest, e.condId = none ∧ e.msgId = none

theorem EvalShape.conds {c : Contract} {r : Res Bool} (h : EvalShape c r) :
    condsCalled r.trace = [c.id] ∨ (condsCalled r.trace = [] ∧ ∃ e, r.out = .error e) := by
  rcases h with ⟨ht, he⟩ | ⟨sel, rest, ht, hr⟩
  · right; rw [ht]; exact ⟨rfl, he⟩
  · left
    rw [ht]
    have : condsCalled rest = [] := List.filterMap_eq_nil_iff.mpr (fun e he => (hr e he).1)
    simp only [condsCalled, List.filterMap_cons, Event.condId] at this ⊢
    rw [this]

theorem EvalShape.msgs {c : Contract} {r : Res Bool} (h : EvalShape c r) :
    ∀ e ∈ r.trace, e.msgId = none := by
  rcases h with ⟨ht, _⟩ | ⟨sel, rest, ht, hr⟩
  · rw [ht]; intro e he; cases he
  · rw [ht]
    intro e he
    rcases List.mem_cons.mp he with rfl | he
    · rfl
    · exact (hr e he).2

theorem judge_noCond (c : Contract) (a : Ans) :
    ∀ e ∈ (judge c a).trace, e.condId = none ∧ e.msgId = none := by
  intro ev h
  unfold judge at h
  split at h <;> simp at h
  all_goals (try (subst h; exact ⟨rfl, rfl⟩))
  · rename_i e
    by_cases he : e.isException <;> simp [he] at h <;> subst h <;> exact ⟨rfl, rfl⟩

theorem evalPreSync_shape (o : Oracle) (kw : Kwargs) (c : Contract) :
    EvalShape c (evalPreSync o kw c) := by
  unfold evalPreSync selectConditionKwargs
  by_cases hm : (missingNames c.mandatory kw).isEmpty = true
  · simp only [hm, if_true, pure_bind']
    by_cases hc : c.coroFn = true
    · simp only [hc, if_true]
      left; exact ⟨rfl, _, rfl⟩
    · simp only [hc, Bool.false_eq_true, if_false]
      right
      refine ⟨_, _, emit_bind_trace _ _, ?_⟩
      intro e he
      split at he
      · simp at he
      · exact judge_noCond _ _ e he
  · simp only [hm, Bool.false_eq_true, if_false, raise_bind]
    left; exact ⟨rfl, _, rfl⟩

theorem evalPostSync_shape (o : Oracle) (kw : Kwargs) (c : Contract) :
    EvalShape c (evalPostSync o kw c) := by
  unfold evalPostSync selectConditionKwargs
  by_cases hc : c.coroFn = true
  · simp only [hc, if_true]
    left; exact ⟨rfl, _, rfl⟩
  · simp only [hc, Bool.false_eq_true, if_false]
    by_cases hm : (missingNames c.mandatory kw).isEmpty = true
    · simp only [hm, if_true, pure_bind']
      right
      refine ⟨_, _, emit_bind_trace _ _, ?_⟩
      intro e he
      split at he
      · simp at he
      · exact judge_noCond _ _ e he
    · simp only [hm, Bool.false_eq_true, if_false, raise_bind]
      left; exact ⟨rfl, _, rfl⟩

theorem evalCondAsync_shape (o : Oracle) (kw : Kwargs) (c : Contract) :
    EvalShape c (evalCondAsync o kw c) := by
  unfold evalCondAsync selectConditionKwargs
  by_cases hm : (missingNames c.mandatory kw).isEmpty = true
  · simp only [hm, if_true, pure_bind']
    right
    refine ⟨_, _, emit_bind_trace _ _, ?_⟩
    intro e he
    split at he
    · exact judge_noCond _ _ e he
    · split at he
      · rw [emit_bind_trace] at he
        rcases List.mem_cons.mp he with rfl | he
        · exact ⟨rfl, rfl⟩
        · exact judge_noCond _ _ e he
      · exact judge_noCond _ _ e he
  · simp only [hm, Bool.false_eq_true, if_false, raise_bind]
    left; exact ⟨rfl, _, rfl⟩

/-- building the error logs at most one event: the message or the factory call -/
theorem createViolationError_shape (o : Oracle) (c : Contract) (kw : Kwargs) :
    (createViolationError o c kw).trace = [] ∨ (createViolationError o c kw).trace = [.msg c.id] ∨
    ∃ sel, (createViolationError o c kw).trace = [.errFac c.id sel] := by
  unfold createViolationError
  cases hce : c.err with
  | none =>
    simp only [emit_bind_trace]
    right; left
    cases o.msg c.id with
    | ok => rfl
    | raises e => by_cases he : e.isException = true <;> simp [he]
  | fac args =>
    simp only
    unfold selectErrorKwargs
    by_cases hm : (missingNames args kw).isEmpty = true
    · simp only [hm, if_true, pure_bind', emit_bind_trace]
      right; right
      refine ⟨kw.restrict args, ?_⟩
      cases o.fac c.id <;> rfl
    · simp only [hm, Bool.false_eq_true, if_false, raise_bind]
      left; rfl
  | cls subBase truthy =>
    simp only
    cases subBase with
    | false => left; rfl
    | true =>
      simp only [Bool.not_true, Bool.false_eq_true, if_false, emit_bind_trace]
      right; left
      cases o.msg c.id <;> rfl
  | inst e => left; rfl
  | other => left; rfl

theorem createViolationError_conds (o : Oracle) (c : Contract) (kw : Kwargs) :
    condsCalled (createViolationError o c kw).trace = [] := by
  rcases createViolationError_shape o c kw with h | h | ⟨sel, h⟩ <;> rw [h] <;> rfl

theorem createViolationError_msgs (o : Oracle) (c : Contract) (kw : Kwargs) :
    (msgsOf (createViolationError o c kw).trace).length ≤ 1 := by
  rcases createViolationError_shape o c kw with h | h | ⟨sel, h⟩ <;> rw [h] <;> simp [msgsOf, List.filterMap_cons, Event.msgId]

theorem runBody_length (o : Oracle) (call : Call) : (runBody o call).trace.length ≤ 1 := by
  unfold runBody
  rw [emit_bind_trace]
  cases o.body <;> simp

/-! ### the group loop -/

/-- every evaluation either calls its condition exactly once, or raises before calling it -/
def CallsOnce (ev : Contract → Res Bool) : Prop :=
  ∀ c, condsCalled (ev c).trace = [c.id] ∨ (condsCalled (ev c).trace = [] ∧ ∃ e, (ev c).out = .error e)

theorem callsOnce_of_shape {ev : Contract → Res Bool} (h : ∀ c, EvalShape c (ev c)) : CallsOnce ev :=
  fun c => (h c).conds

theorem checkGroupG_conds_prefix (ev : Contract → Res Bool) (hev : CallsOnce ev) (g : List Contract) :
    condsCalled (checkGroupG ev g).trace <+: g.map (·.id) := by
  induction g with
  | nil => simp [checkGroupG, condsCalled]
  | cons c cs ih =>
    unfold checkGroupG
    rw [List.map_cons]
    cases hout : (ev c).out with
    | error e =>
      rw [bind_trace_of_err hout]
      rcases hev c with h | ⟨h, _⟩ <;> rw [h]
      · exact ⟨cs.map (·.id), rfl⟩
      · exact List.nil_prefix
    | ok b =>
      rw [bind_trace_of_ok hout, condsCalled_append]
      have h1 : condsCalled (ev c).trace = [c.id] := by
        rcases hev c with h | ⟨_, e, he⟩
        · exact h
        · rw [hout] at he; cases he
      rw [h1]
      cases b with
      | true =>
        simp only [if_true, pure_trace, condsCalled_nil, List.append_nil]
        exact ⟨cs.map (·.id), rfl⟩
      | false =>
        simp only [Bool.false_eq_true, if_false, List.singleton_append]
        exact (List.prefix_cons_inj _).mpr ih

theorem assertPreAuxG_conds_sublist (ev : Contract → Res Bool) (hev : CallsOnce ev)
    (groups : List (List Contract)) (last : Option Contract) :
    condsCalled (assertPreAuxG ev last groups).trace <+ groups.flatten.map (·.id) := by
  induction groups generalizing last with
  | nil => simp [assertPreAuxG, condsCalled]
  | cons g gs ih =>
    unfold assertPreAuxG
    rw [List.flatten_cons, List.map_append]
    have hg := (checkGroupG_conds_prefix ev hev g).sublist
    cases hout : (checkGroupG ev g).out with
    | error e =>
      rw [bind_trace_of_err hout]
      exact hg.trans (List.sublist_append_left _ _)
    | ok r =>
      rw [bind_trace_of_ok hout, condsCalled_append]
      cases r with
      | none =>
        simp only [pure_trace, condsCalled_nil, List.append_nil]
        exact hg.trans (List.sublist_append_left _ _)
      | some c =>
        simp only
        exact List.Sublist.append hg (ih (some c))

theorem assertPreG_conds_sublist (ev : Contract → Res Bool) (mk : Contract → Res Raised)
    (hev : CallsOnce ev) (hmk : ∀ c, condsCalled (mk c).trace = [])
    (groups : List (List Contract)) :
    condsCalled (assertPreG ev mk groups).trace <+ groups.flatten.map (·.id) := by
  unfold assertPreG
  have haux := assertPreAuxG_conds_sublist ev hev groups none
  cases hout : (assertPreAuxG ev none groups).out with
  | error e => rw [bind_trace_of_err hout]; exact haux
  | ok v =>
    rw [bind_trace_of_ok hout, condsCalled_append]
    cases v with
    | none => simpa [condsCalled_nil] using haux
    | some c =>
      simp only
      rw [Res.bind_pure_trace, hmk c, List.append_nil]
      exact haux

theorem assertPostG_conds_prefix (ev : Contract → Res Bool) (mk : Contract → Res Raised)
    (hev : CallsOnce ev) (hmk : ∀ c, condsCalled (mk c).trace = []) (cs : List Contract) :
    condsCalled (assertPostG ev mk cs).trace <+: cs.map (·.id) := by
  induction cs with
  | nil => simp [assertPostG, condsCalled]
  | cons c cs ih =>
    unfold assertPostG
    rw [List.map_cons]
    cases hout : (ev c).out with
    | error e =>
      rw [bind_trace_of_err hout]
      rcases hev c with h | ⟨h, _⟩ <;> rw [h]
      · exact ⟨cs.map (·.id), rfl⟩
      · exact List.nil_prefix
    | ok b =>
      rw [bind_trace_of_ok hout, condsCalled_append]
      have h1 : condsCalled (ev c).trace = [c.id] := by
        rcases hev c with h | ⟨_, e, he⟩
        · exact h
        · rw [hout] at he; cases he
      rw [h1]
      cases b with
      | true =>
        simp only [if_true]
        rw [Res.bind_pure_trace, hmk c, List.append_nil]
        exact ⟨cs.map (·.id), rfl⟩
      | false =>
        simp only [Bool.false_eq_true, if_false, List.singleton_append]
        exact (List.prefix_cons_inj _).mpr ih

/-! ### message building -/

theorem assertPreG_msgs (ev : Contract → Res Bool) (mk : Contract → Res Raised)
    (hev : ∀ c, ∀ e ∈ (ev c).trace, e.msgId = none) (hmk : ∀ c, (msgsOf (mk c).trace).length ≤ 1)
    (groups : List (List Contract)) :
    (msgsOf (assertPreG ev mk groups).trace).length ≤ 1 ∧
    ((assertPreG ev mk groups).out = .ok none → msgsOf (assertPreG ev mk groups).trace = []) := by
  have haux : msgsOf (assertPreAuxG ev none groups).trace = [] :=
    msgsOf_eq_nil (assertPreAuxG_trace ev (fun e => e.msgId = none) hev groups none)
  unfold assertPreG
  cases hout : (assertPreAuxG ev none groups).out with
  | error e =>
    rw [bind_trace_of_err hout, haux]
    exact ⟨by simp, fun _ => rfl⟩
  | ok v =>
    rw [bind_trace_of_ok hout, bind_out_of_ok hout, msgsOf_append, haux, List.nil_append]
    cases v with
    | none => exact ⟨by simp [msgsOf], fun _ => rfl⟩
    | some c =>
      simp only
      rw [Res.bind_pure_trace]
      refine ⟨hmk c, ?_⟩
      intro h
      cases hm : (mk c).out with
      | error e => rw [Res.bind_pure_out_err _ _ e hm] at h; cases h
      | ok a => rw [Res.bind_pure_out_ok _ _ a hm] at h; cases h

theorem assertPostG_msgs (ev : Contract → Res Bool) (mk : Contract → Res Raised)
    (hev : ∀ c, ∀ e ∈ (ev c).trace, e.msgId = none) (hmk : ∀ c, (msgsOf (mk c).trace).length ≤ 1)
    (cs : List Contract) :
    (msgsOf (assertPostG ev mk cs).trace).length ≤ 1 := by
  induction cs with
  | nil => simp [assertPostG, msgsOf]
  | cons c cs ih =>
    unfold assertPostG
    have h0 : msgsOf (ev c).trace = [] := msgsOf_eq_nil (hev c)
    cases hout : (ev c).out with
    | error e => rw [bind_trace_of_err hout, h0]; simp
    | ok b =>
      rw [bind_trace_of_ok hout, msgsOf_append, h0, List.nil_append]
      cases b with
      | true => simp only [if_true]; rw [Res.bind_pure_trace]; exact hmk c
      | false => simp only [Bool.false_eq_true, if_false]; exact ih

/-! ### the four phases of the checked path -/

/-- The log of the checked path is `pre ++ capture ++ body ++ post`, where each segment is the log
of the corresponding sub-computation or empty; postconditions are only reached when the
precondition phase produced no error. -/
theorem checkedG_phase_split (h : Hooks) (ck : Checker) (call : Call) :
    ∃ t1 t2 t3 t4, (checkedG h ck call).trace = t1 ++ t2 ++ t3 ++ t4 ∧
      (t1 = [] ∨ t1 = (assertPreG
          (h.evPre (kwargsFromCall ck.paramNames ck.kwdefaults call.args call.kwargs ck.posOnly))
          (fun c => h.mkErr c (kwargsFromCall ck.paramNames ck.kwdefaults call.args call.kwargs ck.posOnly)) ck.pre).trace) ∧
      (t2 = [] ∨ t2 = (h.capture (kwargsFromCall ck.paramNames ck.kwdefaults call.args call.kwargs ck.posOnly) [] ck.snaps).trace) ∧
      (t3 = [] ∨ t3 = (h.body call).trace) ∧
      (t4 = [] ∨
        ((t1 = [] ∨ (assertPreG
          (h.evPre (kwargsFromCall ck.paramNames ck.kwdefaults call.args call.kwargs ck.posOnly))
          (fun c => h.mkErr c (kwargsFromCall ck.paramNames ck.kwdefaults call.args call.kwargs ck.posOnly)) ck.pre).out = .ok none) ∧
         ∃ kw', t4 = (assertPostG (h.evPost kw') (fun c => h.mkErr c kw') ck.posts).trace)) := by
  unfold checkedG
  simp only
  split
  · exact ⟨[], [], [], [], rfl, Or.inl rfl, Or.inl rfl, Or.inl rfl, Or.inl rfl⟩
  · generalize kwargsFromCall ck.paramNames ck.kwdefaults call.args call.kwargs ck.posOnly = kw
    cases hpre : (assertPreG (h.evPre kw) (fun c => h.mkErr c kw) ck.pre).out with
    | error e =>
      rw [bind_trace_of_err hpre]
      exact ⟨_, [], [], [], by simp, Or.inr rfl, Or.inl rfl, Or.inl rfl, Or.inl rfl⟩
    | ok v =>
      rw [bind_trace_of_ok hpre]
      cases v with
      | some e =>
        have : raiseIfSome (some e) = (Res.raise e : Res Unit) := rfl
        rw [this, raise_bind]
        exact ⟨_, [], [], [], by simp, Or.inr rfl, Or.inl rfl, Or.inl rfl, Or.inl rfl⟩
      | none =>
        have : raiseIfSome none = (pure () : Res Unit) := rfl
        rw [this, pure_bind']
        -- the capture phase
        generalize hK : (if (!ck.posts.isEmpty && !ck.snaps.isEmpty) = true then
            (h.capture kw [] ck.snaps >>= fun old => (pure (Kwargs.set kw "OLD" (Val.old old)) : Res Kwargs))
          else (pure kw : Res Kwargs)) = K
        have hKt : K.trace = [] ∨ K.trace = (h.capture kw [] ck.snaps).trace := by
          subst hK
          split
          · right; exact Res.bind_pure_trace _ _
          · left; rfl
        cases hKo : K.out with
        | error e =>
          rw [bind_trace_of_err hKo]
          exact ⟨_, K.trace, [], [], by simp, Or.inr rfl, hKt, Or.inl rfl, Or.inl rfl⟩
        | ok kw2 =>
          rw [bind_trace_of_ok hKo]
          cases hb : (h.body call).out with
          | error e =>
            rw [bind_trace_of_err hb]
            exact ⟨_, K.trace, (h.body call).trace, [], by simp, Or.inr rfl, hKt, Or.inr rfl, Or.inl rfl⟩
          | ok r =>
            rw [bind_trace_of_ok hb]
            by_cases hp : (!ck.posts.isEmpty) = true
            · simp only [hp, if_true]
              rw [raiseTail_trace]
              exact ⟨_, K.trace, (h.body call).trace, _, by simp, Or.inr rfl, hKt, Or.inr rfl,
                Or.inr ⟨Or.inr (by first | rfl | trivial), kw2.set "result" (Val.obj r), rfl⟩⟩
            · simp only [hp, Bool.false_eq_true, if_false]
              exact ⟨_, K.trace, (h.body call).trace, [], by simp, Or.inr rfl, hKt, Or.inr rfl, Or.inl rfl⟩

/-- **phase order** of the generic skeleton -/
theorem checkedG_phase_order {h : Hooks} {tPre : Kwargs → Contract → Bool} (ok : HooksOK h tPre)
    (hpre : ∀ kw, CallsOnce (h.evPre kw)) (hpost : ∀ kw, CallsOnce (h.evPost kw))
    (herr : ∀ c kw, condsCalled (h.mkErr c kw).trace = [])
    (hbody : ∀ call, (h.body call).trace.length ≤ 1)
    (ck : Checker) (call : Call) :
    ∃ t1 t2 t3 t4, (checkedG h ck call).trace = t1 ++ t2 ++ t3 ++ t4 ∧
      (∀ e ∈ t1, e.isCheck = true) ∧ (∀ e ∈ t2, e.isCapture = true) ∧
      (∀ e ∈ t3, e.isBody = true) ∧ t3.length ≤ 1 ∧ (∀ e ∈ t4, e.isCheck = true) ∧
      condsCalled t1 <+ (ck.pre.flatten.map (·.id)) ∧
      condsCalled t4 <+: (ck.posts.map (·.id)) := by
  obtain ⟨t1, t2, t3, t4, ht, h1, h2, h3, h4⟩ := checkedG_phase_split h ck call
  refine ⟨t1, t2, t3, t4, ht, ?_, ?_, ?_, ?_, ?_, ?_, ?_⟩
  · rcases h1 with rfl | rfl
    · intro e he; cases he
    · exact assertPreG_trace _ _ (fun e => e.isCheck = true) (ok.preTrace _) (fun c => ok.errTrace c _) ck.pre
  · rcases h2 with rfl | rfl
    · intro e he; cases he
    · exact ok.capTrace _ _ _
  · rcases h3 with rfl | rfl
    · intro e he; cases he
    · exact ok.bodyTrace _
  · rcases h3 with rfl | rfl
    · simp
    · exact hbody _
  · rcases h4 with rfl | ⟨_, kw', rfl⟩
    · intro e he; cases he
    · exact assertPostG_trace _ _ (fun e => e.isCheck = true) (ok.postTrace _) (fun c => ok.errTrace c _) ck.posts
  · rcases h1 with rfl | rfl
    · exact List.nil_sublist _
    · exact assertPreG_conds_sublist _ _ (hpre _) (fun c => herr c _) ck.pre
  · rcases h4 with rfl | ⟨_, kw', rfl⟩
    · exact List.nil_prefix
    · exact assertPostG_conds_prefix _ _ (hpost _) (fun c => herr c _) ck.posts

/-- **the message is built at most once** on the generic skeleton -/
theorem checkedG_msgs {h : Hooks} {tPre : Kwargs → Contract → Bool} (ok : HooksOK h tPre)
    (hpre : ∀ kw c, ∀ e ∈ (h.evPre kw c).trace, e.msgId = none)
    (hpost : ∀ kw c, ∀ e ∈ (h.evPost kw c).trace, e.msgId = none)
    (herr : ∀ c kw, (msgsOf (h.mkErr c kw).trace).length ≤ 1)
    (ck : Checker) (call : Call) :
    (msgsOf (checkedG h ck call).trace).length ≤ 1 := by
  obtain ⟨t1, t2, t3, t4, ht, h1, h2, h3, h4⟩ := checkedG_phase_split h ck call
  have m2 : msgsOf t2 = [] := by
    rcases h2 with rfl | rfl
    · rfl
    · exact msgsOf_eq_nil (fun e he => Event.msgId_of_capture (ok.capTrace _ _ _ e he))
  have m3 : msgsOf t3 = [] := by
    rcases h3 with rfl | rfl
    · rfl
    · exact msgsOf_eq_nil (fun e he => Event.msgId_of_body (ok.bodyTrace _ e he))
  rw [ht, msgsOf_append, msgsOf_append, msgsOf_append, m2, m3, List.append_nil, List.append_nil]
  have hP := assertPreG_msgs
    (h.evPre (kwargsFromCall ck.paramNames ck.kwdefaults call.args call.kwargs ck.posOnly))
    (fun c => h.mkErr c (kwargsFromCall ck.paramNames ck.kwdefaults call.args call.kwargs ck.posOnly))
    (hpre _) (fun c => herr c _) ck.pre
  rcases h4 with rfl | ⟨h0, kw', rfl⟩
  · rw [show msgsOf [] = [] from rfl, List.append_nil]
    rcases h1 with rfl | rfl
    · simp [msgsOf]
    · exact hP.1
  · have m1 : msgsOf t1 = [] := by
      rcases h1 with rfl | rfl
      · rfl
      · rcases h0 with h0 | h0
        · rw [h0]; rfl
        · exact hP.2 h0
    rw [m1, List.nil_append]
    exact assertPostG_msgs _ _ (hpost _) (fun c => herr c _) ck.posts

/-! ### plain truth values -/

theorem checkGroupG_conds_total (ev : Contract → Res Bool) (truthy falsy : Contract → Bool)
    (hT : ∀ c, (ev c).out = .ok false ↔ truthy c = true)
    (hF : ∀ c, falsy c = true → (ev c).out = .ok true)
    (hev : CallsOnce ev)
    (g : List Contract) (htot : ∀ c ∈ g, truthy c = true ∨ falsy c = true) :
    condsCalled (checkGroupG ev g).trace =
      (g.takeWhile truthy ++ (g.find? (fun c => !truthy c)).toList).map (·.id) := by
  induction g with
  | nil => simp [checkGroupG, condsCalled]
  | cons c cs ih =>
    unfold checkGroupG
    have hcalled : ∀ b, (ev c).out = .ok b → condsCalled (ev c).trace = [c.id] := by
      intro b hb
      rcases hev c with h | ⟨_, e, he⟩
      · exact h
      · rw [hb] at he; cases he
    by_cases ht : truthy c = true
    · have h1 := (hT c).mpr ht
      rw [bind_trace_of_ok h1, condsCalled_append, hcalled _ h1]
      simp only [Bool.false_eq_true, if_false]
      rw [ih (fun x hx => htot x (List.mem_cons_of_mem _ hx))]
      simp [ht]
    · have hf : falsy c = true := by
        rcases htot c List.mem_cons_self with h | h
        · exact absurd h ht
        · exact h
      have h1 := hF c hf
      rw [bind_trace_of_ok h1, condsCalled_append, hcalled _ h1]
      simp only [Bool.not_eq_true] at ht
      simp [ht, condsCalled]

theorem assertPreAuxG_cons (ev : Contract → Res Bool) (last : Option Contract)
    (g : List Contract) (gs : List (List Contract)) :
    assertPreAuxG ev last (g :: gs) =
      (checkGroupG ev g >>= fun r =>
        match r with
        | none => pure none
        | some c => assertPreAuxG ev (some c) gs) := by
  rw [assertPreAuxG]
  rfl

/-- once a group holds, later groups are not tried -/
theorem assertPreAuxG_until_holds (ev : Contract → Res Bool) (truthy falsy : Contract → Bool)
    (hT : ∀ c, (ev c).out = .ok false ↔ truthy c = true)
    (hF : ∀ c, falsy c = true → (ev c).out = .ok true)
    (gs1 gs2 : List (List Contract)) (g : List Contract) (last : Option Contract)
    (htot : ∀ g' ∈ gs1, ∀ c ∈ g', truthy c = true ∨ falsy c = true)
    (hg : ∀ c ∈ g, truthy c = true) :
    (assertPreAuxG ev last (gs1 ++ g :: gs2)).trace = (assertPreAuxG ev last (gs1 ++ [g])).trace ∧
    (assertPreAuxG ev last (gs1 ++ g :: gs2)).out = .ok none := by
  induction gs1 generalizing last with
  | nil =>
    have hgo : (checkGroupG ev g).out = .ok none := (checkGroupG_none_iff ev truthy hT g).mpr hg
    simp only [List.nil_append]
    rw [assertPreAuxG_cons, assertPreAuxG_cons, bind_trace_of_ok hgo, bind_trace_of_ok hgo,
      bind_out_of_ok hgo]
    exact ⟨rfl, rfl⟩
  | cons g' gs1 ih =>
    have hg' := checkGroupG_total ev truthy falsy hT hF g' (htot g' List.mem_cons_self)
    simp only [List.cons_append]
    rw [assertPreAuxG_cons, assertPreAuxG_cons, bind_trace_of_ok hg', bind_trace_of_ok hg',
      bind_out_of_ok hg']
    cases g'.find? (fun c => !truthy c) with
    | none => exact ⟨rfl, rfl⟩
    | some c =>
      simp only
      have := ih (some c) (fun g'' hg'' => htot g'' (List.mem_cons_of_mem _ hg''))
      exact ⟨by rw [this.1], this.2⟩

end Icontract
