/-
  The wrapper's control skeleton, abstracted over how one condition is
  evaluated (`Hooks`).  `checkedSync` and `checkedAsync` are both instances
  (`Lemmas/Instances.lean` proves the two equalities), so every theorem about the
  skeleton is a theorem about both twins.  Nothing here is a property statement;
  those live in `Props/`.
-/
import IcontractModel.Spec.Dnf
import IcontractModel.Lemmas.Res
namespace Icontract
open Res

structure Hooks where
  evPre : Kwargs → Contract → Res Bool
  evPost : Kwargs → Contract → Res Bool
  capture : Kwargs → List (String × Id) → List Snapshot → Res (List (String × Id))
  mkErr : Contract → Kwargs → Res Raised
  body : Call → Res Id

def checkGroupG (ev : Contract → Res Bool) : List Contract → Res (Option Contract)
  | [] => pure none
  | c :: cs => do
      let notCheck ← ev c
      if notCheck then pure (some c)
      else checkGroupG ev cs

def assertPreAuxG (ev : Contract → Res Bool) (last : Option Contract) :
    List (List Contract) → Res (Option Contract)
  | [] => pure last
  | g :: gs => do
      let r ← checkGroupG ev g
      match r with
      | none => pure none
      | some c => assertPreAuxG ev (some c) gs

def assertPreG (ev : Contract → Res Bool) (mk : Contract → Res Raised)
    (groups : List (List Contract)) : Res (Option Raised) := do
  let v ← assertPreAuxG ev none groups
  match v with
  | some c => do
      let e ← mk c
      pure (some e)
  | none => pure none

def assertPostG (ev : Contract → Res Bool) (mk : Contract → Res Raised) :
    List Contract → Res (Option Raised)
  | [] => pure none
  | c :: cs => do
      let notCheck ← ev c
      if notCheck then do
        let e ← mk c
        pure (some e)
      else assertPostG ev mk cs

def checkedG (h : Hooks) (ck : Checker) (call : Call) : Res Id := do
  let kw := kwargsFromCall ck.paramNames ck.kwdefaults call.args call.kwargs ck.posOnly
  match assertResolvedKwargsValid (!ck.posts.isEmpty) kw with
  | some e => Res.raise e
  | none => do
  let v ← assertPreG (h.evPre kw) (fun c => h.mkErr c kw) ck.pre
  raiseIfSome v
  let kw ← (if !ck.posts.isEmpty && !ck.snaps.isEmpty then do
              let old ← h.capture kw [] ck.snaps
              pure (kw.set "OLD" (.old old))
            else pure kw : Res Kwargs)
  let r ← h.body call
  if !ck.posts.isEmpty then do
    let v ← assertPostG (h.evPost (kw.set "result" (.obj r))) (fun c => h.mkErr c (kw.set "result" (.obj r))) ck.posts
    raiseIfSome v
    pure r
  else pure r

/-! ### the group loop -/

section Group
variable (ev : Contract → Res Bool) (truthy : Contract → Bool)
variable (hT : ∀ c, (ev c).out = .ok false ↔ truthy c = true)
include hT

theorem checkGroupG_none_iff (g : List Contract) :
    (checkGroupG ev g).out = .ok none ↔ ∀ c ∈ g, truthy c = true := by
  induction g with
  | nil => simp [checkGroupG]
  | cons c cs ih =>
    unfold checkGroupG
    rw [bind_out_ok]
    constructor
    · rintro ⟨b, hb, h⟩
      cases b with
      | true => simp at h
      | false =>
        simp only [Bool.false_eq_true, if_false] at h
        intro x hx
        rcases List.mem_cons.mp hx with rfl | hx
        · exact (hT _).mp hb
        · exact (ih.mp h) x hx
    · intro h
      refine ⟨false, (hT c).mpr (h c (List.mem_cons_self)), ?_⟩
      simp only [Bool.false_eq_true, if_false]
      exact ih.mpr (fun x hx => h x (List.mem_cons_of_mem _ hx))

omit hT in
theorem checkGroupG_some (g : List Contract) (c : Contract)
    (h : (checkGroupG ev g).out = .ok (some c)) :
    c ∈ g ∧ (ev c).out = .ok true := by
  induction g with
  | nil => simp [checkGroupG] at h
  | cons d ds ih =>
    unfold checkGroupG at h
    rw [bind_out_ok] at h
    obtain ⟨b, hb, h⟩ := h
    cases b with
    | true =>
      simp at h
      subst h
      exact ⟨List.mem_cons_self, hb⟩
    | false =>
      simp only [Bool.false_eq_true, if_false] at h
      obtain ⟨hm, he⟩ := ih h
      exact ⟨List.mem_cons_of_mem _ hm, he⟩

end Group

/-- with plain truth values the group loop returns the first falsy condition -/
theorem checkGroupG_total (ev : Contract → Res Bool) (truthy falsy : Contract → Bool)
    (hT : ∀ c, (ev c).out = .ok false ↔ truthy c = true)
    (hF : ∀ c, falsy c = true → (ev c).out = .ok true)
    (g : List Contract) (htot : ∀ c ∈ g, truthy c = true ∨ falsy c = true) :
    (checkGroupG ev g).out = .ok (g.find? (fun c => !truthy c)) := by
  induction g with
  | nil => simp [checkGroupG]
  | cons c cs ih =>
    unfold checkGroupG
    by_cases ht : truthy c = true
    · have h1 := (hT c).mpr ht
      rw [bind_out_of_ok h1]
      simp only [Bool.false_eq_true, if_false, List.find?, ht, Bool.not_true]
      exact ih (fun x hx => htot x (List.mem_cons_of_mem _ hx))
    · have hf : falsy c = true := by
        rcases htot c List.mem_cons_self with h | h
        · exact absurd h ht
        · exact h
      have h1 := hF c hf
      rw [bind_out_of_ok h1]
      simp only [Bool.not_eq_true] at ht
      simp [List.find?, ht]

theorem checkGroupG_trace (ev : Contract → Res Bool) (P : Event → Prop)
    (hP : ∀ c, ∀ e ∈ (ev c).trace, P e) (g : List Contract) :
    ∀ e ∈ (checkGroupG ev g).trace, P e := by
  induction g with
  | nil => intro e h; simp [checkGroupG] at h
  | cons c cs ih =>
    intro e h
    unfold checkGroupG at h
    rw [mem_bind_trace] at h
    rcases h with h | ⟨b, _, h⟩
    · exact hP c e h
    · cases b with
      | true => simp at h
      | false => simp only [Bool.false_eq_true, if_false] at h; exact ih e h

/-! ### the loop over groups -/

theorem assertPreAuxG_none (ev : Contract → Res Bool) (truthy : Contract → Bool)
    (hT : ∀ c, (ev c).out = .ok false ↔ truthy c = true)
    (groups : List (List Contract)) (last : Option Contract)
    (h : (assertPreAuxG ev last groups).out = .ok none) :
    (groups = [] ∧ last = none) ∨ ∃ g ∈ groups, ∀ c ∈ g, truthy c = true := by
  induction groups generalizing last with
  | nil => left; simp [assertPreAuxG] at h; exact ⟨rfl, h⟩
  | cons g gs ih =>
    right
    unfold assertPreAuxG at h
    rw [bind_out_ok] at h
    obtain ⟨r, hr, h⟩ := h
    cases r with
    | none =>
      exact ⟨g, List.mem_cons_self, (checkGroupG_none_iff ev truthy hT g).mp hr⟩
    | some c =>
      simp only at h
      rcases ih (some c) h with ⟨_, hl⟩ | ⟨g', hg', hall⟩
      · cases hl
      · exact ⟨g', List.mem_cons_of_mem _ hg', hall⟩

/-- if some group holds and the oracle is total, the loop over groups accepts -/
theorem assertPreAuxG_holds (ev : Contract → Res Bool) (truthy falsy : Contract → Bool)
    (hT : ∀ c, (ev c).out = .ok false ↔ truthy c = true)
    (hF : ∀ c, falsy c = true → (ev c).out = .ok true)
    (groups : List (List Contract)) (last : Option Contract)
    (htot : ∀ g ∈ groups, ∀ c ∈ g, truthy c = true ∨ falsy c = true)
    (hex : ∃ g ∈ groups, ∀ c ∈ g, truthy c = true) :
    (assertPreAuxG ev last groups).out = .ok none := by
  induction groups generalizing last with
  | nil => obtain ⟨g, hg, _⟩ := hex; cases hg
  | cons g gs ih =>
    unfold assertPreAuxG
    have hg := checkGroupG_total ev truthy falsy hT hF g (htot g List.mem_cons_self)
    rw [bind_out_of_ok hg]
    cases hf : g.find? (fun c => !truthy c) with
    | none => simp
    | some c =>
      simp only
      apply ih
      · exact fun g' hg' => htot g' (List.mem_cons_of_mem _ hg')
      · obtain ⟨g', hg', hall⟩ := hex
        rcases List.mem_cons.mp hg' with rfl | hg'
        · have := List.find?_some hf
          have hm := List.mem_of_find?_eq_some hf
          simp [hall c hm] at this
        · exact ⟨g', hg', hall⟩

/-- no group holds, total oracle: the violated contract is the first falsy condition of the last group -/
theorem assertPreAuxG_violated (ev : Contract → Res Bool) (truthy falsy : Contract → Bool)
    (hT : ∀ c, (ev c).out = .ok false ↔ truthy c = true)
    (hF : ∀ c, falsy c = true → (ev c).out = .ok true)
    (groups : List (List Contract)) (last : Option Contract)
    (htot : ∀ g ∈ groups, ∀ c ∈ g, truthy c = true ∨ falsy c = true)
    (hno : ∀ g ∈ groups, ¬ ∀ c ∈ g, truthy c = true) :
    (assertPreAuxG ev last groups).out =
      .ok (match groups.getLast? with
           | some g => g.find? (fun c => !truthy c)
           | none => last) := by
  induction groups generalizing last with
  | nil => simp [assertPreAuxG]
  | cons g gs ih =>
    unfold assertPreAuxG
    have hg := checkGroupG_total ev truthy falsy hT hF g (htot g List.mem_cons_self)
    rw [bind_out_of_ok hg]
    cases hf : g.find? (fun c => !truthy c) with
    | none =>
      exfalso
      apply hno g List.mem_cons_self
      intro c hc
      have := List.find?_eq_none.mp hf c hc
      simpa using this
    | some c =>
      simp only
      rw [ih (some c) (fun g' hg' => htot g' (List.mem_cons_of_mem _ hg'))
        (fun g' hg' => hno g' (List.mem_cons_of_mem _ hg'))]
      cases gs with
      | nil => simp [hf]
      | cons g2 gs2 =>
        rw [List.getLast?_cons_cons]
        cases hl : (g2 :: gs2).getLast? with
        | none => simp at hl
        | some x => rfl

theorem assertPreAuxG_trace (ev : Contract → Res Bool) (P : Event → Prop)
    (hP : ∀ c, ∀ e ∈ (ev c).trace, P e) (groups : List (List Contract)) (last : Option Contract) :
    ∀ e ∈ (assertPreAuxG ev last groups).trace, P e := by
  induction groups generalizing last with
  | nil => intro e h; simp [assertPreAuxG] at h
  | cons g gs ih =>
    intro e h
    unfold assertPreAuxG at h
    rw [mem_bind_trace] at h
    rcases h with h | ⟨r, _, h⟩
    · exact checkGroupG_trace ev P hP g e h
    · cases r with
      | none => simp at h
      | some c => exact ih (some c) e h

theorem assertPreG_trace (ev : Contract → Res Bool) (mk : Contract → Res Raised) (P : Event → Prop)
    (hP : ∀ c, ∀ e ∈ (ev c).trace, P e) (hM : ∀ c, ∀ e ∈ (mk c).trace, P e)
    (groups : List (List Contract)) :
    ∀ e ∈ (assertPreG ev mk groups).trace, P e := by
  intro e h
  unfold assertPreG at h
  rw [mem_bind_trace] at h
  rcases h with h | ⟨v, _, h⟩
  · exact assertPreAuxG_trace ev P hP groups none e h
  · cases v with
    | none => simp at h
    | some c =>
      simp only at h
      rw [mem_bind_trace] at h
      rcases h with h | ⟨_, _, h⟩
      · exact hM c e h
      · simp at h

theorem assertPreG_none (ev : Contract → Res Bool) (mk : Contract → Res Raised) (truthy : Contract → Bool)
    (hT : ∀ c, (ev c).out = .ok false ↔ truthy c = true)
    (groups : List (List Contract))
    (h : (assertPreG ev mk groups).out = .ok none) :
    groups = [] ∨ ∃ g ∈ groups, ∀ c ∈ g, truthy c = true := by
  unfold assertPreG at h
  rw [bind_out_ok] at h
  obtain ⟨v, hv, h⟩ := h
  cases v with
  | some c =>
    simp only at h
    rw [bind_out_ok] at h
    obtain ⟨_, _, h⟩ := h
    simp at h
  | none =>
    rcases assertPreAuxG_none ev truthy hT groups none hv with ⟨hg, _⟩ | hex
    · exact Or.inl hg
    · exact Or.inr hex

/-! ### postconditions -/

theorem assertPostG_trace (ev : Contract → Res Bool) (mk : Contract → Res Raised) (P : Event → Prop)
    (hP : ∀ c, ∀ e ∈ (ev c).trace, P e) (hM : ∀ c, ∀ e ∈ (mk c).trace, P e)
    (cs : List Contract) :
    ∀ e ∈ (assertPostG ev mk cs).trace, P e := by
  induction cs with
  | nil => intro e h; simp [assertPostG] at h
  | cons c cs ih =>
    intro e h
    unfold assertPostG at h
    rw [mem_bind_trace] at h
    rcases h with h | ⟨b, _, h⟩
    · exact hP c e h
    · cases b with
      | true =>
        simp only [if_true] at h
        rw [mem_bind_trace] at h
        rcases h with h | ⟨_, _, h⟩
        · exact hM c e h
        · simp at h
      | false => simp only [Bool.false_eq_true, if_false] at h; exact ih e h

theorem assertPostG_none_iff (ev : Contract → Res Bool) (mk : Contract → Res Raised) (truthy : Contract → Bool)
    (hT : ∀ c, (ev c).out = .ok false ↔ truthy c = true) (cs : List Contract) :
    (assertPostG ev mk cs).out = .ok none ↔ ∀ c ∈ cs, truthy c = true := by
  induction cs with
  | nil => simp [assertPostG]
  | cons c cs ih =>
    unfold assertPostG
    rw [bind_out_ok]
    constructor
    · rintro ⟨b, hb, h⟩
      cases b with
      | true =>
        simp only [if_true] at h
        rw [bind_out_ok] at h
        obtain ⟨_, _, h⟩ := h
        simp at h
      | false =>
        simp only [Bool.false_eq_true, if_false] at h
        intro x hx
        rcases List.mem_cons.mp hx with rfl | hx
        · exact (hT _).mp hb
        · exact (ih.mp h) x hx
    · intro h
      refine ⟨false, (hT c).mpr (h c List.mem_cons_self), ?_⟩
      simp only [Bool.false_eq_true, if_false]
      exact ih.mpr (fun x hx => h x (List.mem_cons_of_mem _ hx))

/-- with plain truth values: the result is the error of the first falsy postcondition -/
theorem assertPostG_total (ev : Contract → Res Bool) (mk : Contract → Res Raised)
    (truthy falsy : Contract → Bool)
    (hT : ∀ c, (ev c).out = .ok false ↔ truthy c = true)
    (hF : ∀ c, falsy c = true → (ev c).out = .ok true)
    (cs : List Contract) (htot : ∀ c ∈ cs, truthy c = true ∨ falsy c = true) :
    (assertPostG ev mk cs).out =
      match cs.find? (fun c => !truthy c) with
      | none => .ok none
      | some c => (mk c >>= fun e => (pure (some e) : Res (Option Raised))).out := by
  induction cs with
  | nil => simp [assertPostG]
  | cons c cs ih =>
    unfold assertPostG
    by_cases ht : truthy c = true
    · rw [bind_out_of_ok ((hT c).mpr ht)]
      simp only [Bool.false_eq_true, if_false, List.find?, ht, Bool.not_true]
      exact ih (fun x hx => htot x (List.mem_cons_of_mem _ hx))
    · have hf : falsy c = true := by
        rcases htot c List.mem_cons_self with h | h
        · exact absurd h ht
        · exact h
      rw [bind_out_of_ok (hF c hf)]
      simp only [Bool.not_eq_true] at ht
      simp [List.find?, ht]

end Icontract
