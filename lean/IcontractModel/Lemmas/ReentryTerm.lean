/-
  C10 helper lemmas: termination of function contracts that call contracted functions.
-/
import IcontractModel.Lemmas.ReentryFuel
namespace Icontract.Re

/-- the evaluation finishes within the given recursion depth -/
def NT (p : Program) (n : Nat) (st : St) (cmd : Cmd) : Prop :=
  (run p .repaired n st cmd).2 ≠ .timeout

theorem NT.mono {p : Program} {n m : Nat} {st : St} {cmd : Cmd} (h : NT p n st cmd) (hnm : n ≤ m) :
    NT p m st cmd := by
  unfold NT; rw [run_fuel_mono_le p _ hnm st cmd h]; exact h

theorem andThen_nt {r : St × Out} {k : St → St × Out} (h1 : r.2 ≠ .timeout)
    (h2 : r.2 = .ok → (k r.1).2 ≠ .timeout) : (andThen r k).2 ≠ .timeout := by
  by_cases h : r.2 = .ok
  · rw [andThen_ok k h]; exact h2 h
  · rw [andThen_ne k h]; exact h1

/-- at most `m` of the program's functions are not in progress -/
def Cov (p : Program) (m : Nat) (st : St) : Prop :=
  ∃ A : List FnId, A.length ≤ m ∧
    ∀ f, f < p.fns.length → st.s.contains (.fn f) = true ∨ f ∈ A

theorem Cov.congr {p : Program} {m : Nat} {st st' : St} (h : Cov p m st) (hs : SameMem st'.s st.s) :
    Cov p m st' := by
  obtain ⟨A, hA, hcov⟩ := h
  exact ⟨A, hA, fun f hf => (hcov f hf).imp (fun h => (hs _).trans h) id⟩

theorem Cov.all (p : Program) (st : St) : Cov p p.fns.length st :=
  ⟨List.range p.fns.length, by rw [List.length_range]; exact Nat.le_refl _,
    fun f hf => .inr (List.mem_range.mpr hf)⟩

theorem Cov.add {p : Program} {m : Nat} {st : St} {f : FnId} (h : Cov p (m + 1) st)
    (hf : f < p.fns.length) (hc : st.s.contains (.fn f) = false) : Cov p m (st.add (.fn f)) := by
  obtain ⟨A, hA, hcov⟩ := h
  have hfA : f ∈ A := by
    rcases hcov f hf with h | h
    · rw [hc] at h; cases h
    · exact h
  refine ⟨A.erase f, ?_, ?_⟩
  · rw [List.length_erase_of_mem hfA]; omega
  · intro g hg
    rw [contains_add]
    by_cases hgf : g = f
    · subst hgf; left; simp
    · rcases hcov g hg with h | h
      · left; rw [h, Bool.or_true]
      · right; exact (List.mem_erase_of_ne hgf).mpr h

theorem Cov.zero {p : Program} {st : St} {f : FnId} (h : Cov p 0 st) (hf : f < p.fns.length) :
    st.s.contains (.fn f) = true := by
  obtain ⟨A, hA, hcov⟩ := h
  have : A = [] := List.eq_nil_of_length_eq_zero (Nat.le_zero.mp hA)
  subst this
  rcases hcov f hf with h | h
  · exact h
  · cases h

theorem fn?_lt {p : Program} {f : FnId} {d : FnDecl} (h : p.fn? f = some d) : f < p.fns.length := by
  unfold Program.fn? at h
  exact (List.getElem?_eq_some_iff.mp h).1

theorem fn?_mem {p : Program} {f : FnId} {d : FnDecl} (h : p.fn? f = some d) : d ∈ p.fns :=
  List.mem_of_getElem? h

def condsSize : List Script → Nat
  | [] => 0
  | c :: cs => c.actions.length + 3 + condsSize cs

def progSize (p : Program) : Nat := (p.fns.map (fun d => condsSize d.pre + condsSize d.post)).sum

theorem le_sum_of_mem {l : List Nat} {x : Nat} (h : x ∈ l) : x ≤ l.sum := by
  induction l with
  | nil => cases h
  | cons y l ih =>
    rw [List.sum_cons]
    rcases List.mem_cons.mp h with h | h
    · subst h; omega
    · have := ih h; omega

theorem progSize_le {p : Program} {d : FnDecl} (h : d ∈ p.fns) :
    condsSize d.pre + condsSize d.post ≤ progSize p :=
  le_sum_of_mem (List.mem_map.mpr ⟨d, h, rfl⟩)

section
variable {p : Program} {m B : Nat}
  (H : ∀ st, Cov p m st → ∀ a, NT p B st (.act a))
include H

theorem acts_nt : ∀ (as : List Action) (st : St), Cov p m st →
    NT p (B + as.length + 1) st (.acts as) := by
  intro as
  induction as with
  | nil => intro st _; unfold NT; rw [run_acts_nil]; exact fun e => Out.noConfusion e
  | cons a rest ih =>
    intro st hst
    unfold NT
    rw [show B + (a :: rest).length + 1 = (B + rest.length + 1) + 1 from by simp; omega, run_acts_cons]
    apply andThen_nt
    · exact (H st hst a).mono (by omega)
    · intro _
      exact ih _ (hst.congr (run_sameMem _ _ _ _))

theorem script_nt (c : Script) (st : St) (hst : Cov p m st) :
    NT p (B + c.actions.length + 2) st (.script c) := by
  unfold NT
  rw [run_script]
  exact acts_nt H _ _ hst

theorem pres_nt (f : FnId) : ∀ (cs : List Script) (k : Nat) (st : St), Cov p m st →
    NT p (B + condsSize cs + 1) st (.pres f k cs) := by
  intro cs
  induction cs with
  | nil => intro k st _; unfold NT; rw [run_pres_nil]; exact fun e => Out.noConfusion e
  | cons c cs ih =>
    intro k st hst
    unfold NT
    rw [show B + condsSize (c :: cs) + 1 = (B + c.actions.length + 3 + condsSize cs) + 1 from by
      simp [condsSize]; omega, run_pres_cons]
    apply andThen_nt
    · refine (script_nt H c (st.emit _) hst).mono ?_
      omega
    · intro _
      split
      · show NT p _ _ _
        refine NT.mono (ih _ _ (Cov.congr hst (run_sameMem p _ (st.emit _) _))) ?_
        omega
      · exact fun e => Out.noConfusion e

theorem posts_nt (f : FnId) : ∀ (cs : List Script) (k : Nat) (st : St), Cov p m st →
    NT p (B + condsSize cs + 1) st (.posts f k cs) := by
  intro cs
  induction cs with
  | nil => intro k st _; unfold NT; rw [run_posts_nil]; exact fun e => Out.noConfusion e
  | cons c cs ih =>
    intro k st hst
    unfold NT
    rw [show B + condsSize (c :: cs) + 1 = (B + c.actions.length + 3 + condsSize cs) + 1 from by
      simp [condsSize]; omega, run_posts_cons]
    apply andThen_nt
    · refine (script_nt H c (st.emit _) hst).mono ?_
      omega
    · intro _
      split
      · show NT p _ _ _
        refine NT.mono (ih _ _ (Cov.congr hst (run_sameMem p _ (st.emit _) _))) ?_
        omega
      · exact fun e => Out.noConfusion e

end

theorem meth?_none {p : Program} (hc : p.classes = []) (i m) : p.meth? i m = none := by
  unfold Program.meth? Program.cls?
  rw [hc]; rfl

theorem cls?_none {p : Program} (hc : p.classes = []) (c) : p.cls? c = none := by
  unfold Program.cls?
  rw [hc]; rfl

theorem empty_body_nt {p : Program} {d : FnDecl} (hd : d.body.actions = []) (n : Nat) (st : St) :
    run p .repaired (n + 2) st (.script d.body) = (st, .ok) := by
  rw [run_script, hd, run_acts_nil]

theorem run_callFn_checked_repaired (p : Program) (n : Nat) (st : St) (f d) (h : p.fn? f = some d)
    (hc : st.s.contains (.fn f) = false) :
    run p .repaired (n+1) st (.act (.callFn f)) =
    fin (.fn f) (andThen (run p .repaired n (st.add (.fn f)) (.pres f 0 d.pre)) fun st1 =>
      andThen (run p .repaired n ((st1.discard (.fn f)).emit (.body f)) (.script d.body)) fun st2 =>
        run p .repaired n (st2.add (.fn f)) (.posts f 0 d.post)) :=
  run_callFn_checked p .repaired n st f d h hc

/-- every action that is not a checked function call finishes within depth 3 -/
theorem act_nt {p : Program} (hb : ∀ d ∈ p.fns, d.body.actions = []) (hc : p.classes = [])
    (n : Nat) (st : St)
    (hchk : ∀ f d, p.fn? f = some d → st.s.contains (.fn f) = false → NT p (n + 3) st (.act (.callFn f))) :
    ∀ a, NT p (n + 3) st (.act a) := by
  intro a
  cases a with
  | callFn f =>
    cases h : p.fn? f with
    | none => unfold NT; rw [run_callFn_none _ _ _ _ _ h]; exact fun e => Out.noConfusion e
    | some d =>
      cases hcf : st.s.contains (.fn f) with
      | true =>
        unfold NT
        rw [run_callFn_bare _ _ _ _ _ _ h hcf, empty_body_nt (hb d (fn?_mem h))]
        exact fun e => Out.noConfusion e
      | false => exact hchk f d h hcf
  | callMethod i m =>
    unfold NT; rw [run_callMethod_none _ _ _ _ _ _ (meth?_none hc i m)]; exact fun e => Out.noConfusion e
  | construct i =>
    unfold NT; rw [run_construct, run_superInit_none _ _ _ _ _ _ (cls?_none hc _)]
    exact fun e => Out.noConfusion e
  | superInit i cid =>
    unfold NT; rw [run_superInit_none _ _ _ _ _ _ (cls?_none hc _)]; exact fun e => Out.noConfusion e

theorem terminate_cov {p : Program} (hb : ∀ d ∈ p.fns, d.body.actions = []) (hc : p.classes = []) :
    ∀ m, ∃ B, ∀ st, Cov p m st → ∀ a, NT p B st (.act a) := by
  intro m
  induction m with
  | zero =>
    refine ⟨0 + 3, fun st hst => act_nt hb hc 0 st ?_⟩
    intro f d h hcf
    rw [hst.zero (fn?_lt h)] at hcf; cases hcf
  | succ m ih =>
    obtain ⟨B, H⟩ := ih
    refine ⟨(B + progSize p + 2) + 3, fun st hst => act_nt hb hc _ st ?_⟩
    intro f d h hcf
    have hsz := progSize_le (fn?_mem h)
    have hcov : Cov p m (st.add (.fn f)) := hst.add (fn?_lt h) hcf
    unfold NT
    rw [run_callFn_checked_repaired _ _ _ _ _ h hcf, fin_snd]
    apply andThen_nt
    · refine (pres_nt H f _ _ _ hcov).mono ?_
      omega
    · intro _
      rw [empty_body_nt (hb d (fn?_mem h)), andThen_mk_ok]
      refine (posts_nt H f _ _ _ (hcov.congr ?_)).mono ?_
      case refine_2 => omega
      apply SameMem.add
      exact (SameMem.discard (run_sameMem _ _ _ _) _).trans (discard_add st _ hcf)

theorem function_contracts_terminate (p : Program)
    (hb : ∀ d ∈ p.fns, d.body.actions = []) (hc : p.classes = []) :
    ∃ n, ∀ fuel, n ≤ fuel → ∀ (st : St) (a : Action),
      (run p .repaired fuel st (.act a)).2 ≠ .timeout := by
  obtain ⟨B, H⟩ := terminate_cov hb hc p.fns.length
  exact ⟨B, fun fuel hf st a => (H st (Cov.all p st) a).mono hf⟩

end Icontract.Re
