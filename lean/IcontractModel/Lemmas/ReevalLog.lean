/-
  Every id the re-evaluator logs while visiting `e` is an id of a node of `e` - for arbitrary name
  tables, and also when the visit raises (the log is kept).
-/
import IcontractModel.Lemmas.Reeval
namespace Icontract.Ex

mutual
theorem visit_logIn (ops : Ops) (bi : List (String × Val)) : ∀ (tbl : Tbl) (e : Expr), LogIn (visit ops bi tbl e) (allIds e)
  | tbl, .const i v => by
      simp only [visit, allIds]
      exact LogIn.bind (LogIn.record i v (by simp)) (fun _ => LogIn.pure _ _)
  | tbl, .name i n => by
      simp only [visit, allIds]
      split
      · exact LogIn.bind (LogIn.record i _ (by simp)) (fun _ => LogIn.pure _ _)
      · exact LogIn.pure _ _
      · split
        · exact LogIn.bind (LogIn.record i _ (by simp)) (fun _ => LogIn.pure _ _)
        · exact LogIn.pure _ _
  | tbl, .attr i e a => by
      simp only [visit, allIds]
      refine LogIn.bind ((visit_logIn ops bi tbl e).mono (by simp +contextual)) (fun v? => ?_)
      cases v? with
      | none => exact LogIn.pure _ _
      | some v =>
        exact LogIn.bind (LogIn.lift _ _) (fun r => LogIn.bind (LogIn.record i r (by simp)) (fun _ => LogIn.pure _ _))
  | tbl, .subscr i e ix => by
      simp only [visit, allIds]
      refine LogIn.bind ((visit_logIn ops bi tbl e).mono (by simp +contextual)) (fun v? => ?_)
      refine LogIn.bind ((visit_logIn ops bi tbl ix).mono (by simp +contextual)) (fun k? => ?_)
      split
      · exact LogIn.bind (LogIn.lift _ _) (fun r => LogIn.bind (LogIn.record i r (by simp)) (fun _ => LogIn.pure _ _))
      · exact LogIn.pure _ _
  | tbl, .call i f args => by
      simp only [visit, allIds]
      refine LogIn.bind ((visit_logIn ops bi tbl f).mono (by simp +contextual)) (fun f? => ?_)
      cases f? with
      | none => exact LogIn.pure _ _
      | some fv =>
        refine LogIn.bind ((visitList_logIn ops bi tbl args).mono (by simp +contextual)) (fun avs => ?_)
        split
        · exact LogIn.pure _ _
        · exact LogIn.bind (LogIn.lift _ _) (fun r => LogIn.bind (LogIn.record i r (by simp)) (fun _ => LogIn.pure _ _))
  | tbl, .unary i op e => by
      simp only [visit, allIds]
      refine LogIn.bind ((visit_logIn ops bi tbl e).mono (by simp +contextual)) (fun v? => ?_)
      cases v? with
      | none => exact LogIn.pure _ _
      | some v =>
        exact LogIn.bind (LogIn.lift _ _) (fun r => LogIn.bind (LogIn.record i r (by simp)) (fun _ => LogIn.pure _ _))
  | tbl, .bin i op l r => by
      simp only [visit, allIds]
      refine LogIn.bind ((visit_logIn ops bi tbl l).mono (by simp +contextual)) (fun v? => ?_)
      refine LogIn.bind ((visit_logIn ops bi tbl r).mono (by simp +contextual)) (fun k? => ?_)
      split
      · exact LogIn.bind (LogIn.lift _ _) (fun r => LogIn.bind (LogIn.record i r (by simp)) (fun _ => LogIn.pure _ _))
      · exact LogIn.pure _ _
  | tbl, .boolop i isAnd es => by
      simp only [visit, allIds]
      refine LogIn.bind ((visitBool_logIn ops bi tbl isAnd false none es).mono (by simp +contextual)) (fun r? => ?_)
      cases r? with
      | none => exact LogIn.pure _ _
      | some r => exact LogIn.bind (LogIn.record i r (by simp)) (fun _ => LogIn.pure _ _)
  | tbl, .compare i left rest => by
      simp only [visit, allIds]
      refine LogIn.bind ((visit_logIn ops bi tbl left).mono (by simp +contextual)) (fun l? => ?_)
      refine LogIn.bind ((visitCmp_logIn ops bi tbl _ _ _ rest).mono (by simp +contextual)) (fun r? => ?_)
      cases r? with
      | none => exact LogIn.pure _ _
      | some r => exact LogIn.bind (LogIn.record i r (by simp)) (fun _ => LogIn.pure _ _)
  | tbl, .ifexp i c t e => by
      simp only [visit, allIds]
      refine LogIn.bind ((visit_logIn ops bi tbl c).mono (by simp +contextual)) (fun c? => ?_)
      cases c? with
      | none => exact LogIn.pure _ _
      | some cv =>
        refine LogIn.bind (LogIn.lift _ _) (fun b => ?_)
        refine LogIn.bind (LogIn.ite ((visit_logIn ops bi tbl t).mono (by simp +contextual))
          ((visit_logIn ops bi tbl e).mono (by simp +contextual))) (fun r? => ?_)
        cases r? with
        | none => exact LogIn.pure _ _
        | some r => exact LogIn.bind (LogIn.record i r (by simp)) (fun _ => LogIn.pure _ _)
  | tbl, .display i es => by
      simp only [visit, allIds]
      refine LogIn.bind ((visitList_logIn ops bi tbl es).mono (by simp +contextual)) (fun vs => ?_)
      split
      · exact LogIn.pure _ _
      · exact LogIn.bind (LogIn.record i _ (by simp)) (fun _ => LogIn.pure _ _)
  | tbl, .comp i targets first inner => by
      simp only [visit, allIds]
      have hfirst : LogIn (⟨(visit ops bi tbl first).log, .ok ()⟩ : VRes Unit) (allIds first) :=
        visit_logIn ops bi tbl first
      refine LogIn.bind (hfirst.mono (by simp +contextual)) (fun _ => ?_)
      refine LogIn.bind ((harvest_logIn ops bi (tbl.shadow targets) inner).mono (by simp +contextual)) (fun _ => ?_)
      split
      · exact LogIn.pure _ _
      · exact LogIn.bind (LogIn.lift _ _) (fun r => LogIn.bind (LogIn.record i r (by simp)) (fun _ => LogIn.pure _ _))
  | tbl, .starred i e => by
      simp only [visit, allIds]
      exact LogIn.err _ _
  | tbl, .coll i kind es => by
      simp only [visit, allIds]
      refine LogIn.bind ((visitElts_logIn ops bi tbl es).mono (by simp +contextual)) (fun vs => ?_)
      refine LogIn.bind (LogIn.lift _ _) (fun r => ?_)
      exact LogIn.ite (LogIn.pure _ _) (LogIn.bind (LogIn.record i r (by simp)) (fun _ => LogIn.pure _ _))
  | tbl, .dict i items => by
      simp only [visit, allIds]
      refine LogIn.bind ((visitItems_logIn ops bi tbl _ _ items).mono (by simp +contextual)) (fun x => ?_)
      obtain ⟨d, ph⟩ := x
      exact LogIn.ite (LogIn.pure _ _) (LogIn.bind (LogIn.record i d (by simp)) (fun _ => LogIn.pure _ _))
  | tbl, .slice i lo hi step => by
      simp only [visit, allIds]
      refine LogIn.bind ((visitOpt_logIn ops bi tbl lo).mono (by simp +contextual)) (fun l? => ?_)
      refine LogIn.bind ((visitOpt_logIn ops bi tbl hi).mono (by simp +contextual)) (fun h? => ?_)
      refine LogIn.bind ((visitOpt_logIn ops bi tbl step).mono (by simp +contextual)) (fun s? => ?_)
      split
      · exact LogIn.bind (LogIn.record i _ (by simp)) (fun _ => LogIn.pure _ _)
      · exact LogIn.pure _ _
  | tbl, .callkw i f args kws => by
      simp only [visit, allIds]
      refine LogIn.bind ((visit_logIn ops bi tbl f).mono (by simp +contextual)) (fun f? => ?_)
      cases f? with
      | none => exact LogIn.pure _ _
      | some fv =>
        refine LogIn.bind ((visitArgs_logIn ops bi tbl args).mono (by simp +contextual)) (fun avs? => ?_)
        cases avs? with
        | none => exact LogIn.pure _ _
        | some avs =>
          refine LogIn.bind ((visitKws_logIn ops bi tbl _ kws).mono (by simp +contextual)) (fun kvs => ?_)
          refine LogIn.ite (LogIn.pure _ _) ?_
          exact LogIn.bind (LogIn.lift _ _) (fun r => LogIn.bind (LogIn.record i r (by simp)) (fun _ => LogIn.pure _ _))
  | tbl, .fvalue i e conv none => by
      simp only [visit, allIds]
      refine LogIn.bind (LogIn.pure _ _) (fun sp? => ?_)
      refine LogIn.bind ((visit_logIn ops bi tbl e).mono (by simp +contextual)) (fun v? => ?_)
      split
      · exact LogIn.bind (LogIn.lift _ _) (fun r => LogIn.pure _ _)
      · exact LogIn.pure _ _
  | tbl, .fvalue i e conv (some sp) => by
      simp only [visit, allIds, allIdsOpt]
      refine LogIn.bind ?_ (fun sp? => ?_)
      · exact LogIn.bind ((visit_logIn ops bi tbl sp).mono (by simp +contextual)) (fun _ => LogIn.pure _ _)
      · refine LogIn.bind ((visit_logIn ops bi tbl e).mono (by simp +contextual)) (fun v? => ?_)
        split
        · exact LogIn.bind (LogIn.lift _ _) (fun r => LogIn.pure _ _)
        · exact LogIn.pure _ _
  | tbl, .fstring i parts => by
      simp only [visit, allIds]
      refine LogIn.bind ((visitList_logIn ops bi tbl parts).mono (by simp +contextual)) (fun vs => ?_)
      refine LogIn.ite (LogIn.pure _ _) ?_
      exact LogIn.bind (LogIn.lift _ _) (fun r => LogIn.bind (LogIn.record i r (by simp)) (fun _ => LogIn.pure _ _))
theorem visitElts_logIn (ops : Ops) (bi : List (String × Val)) : ∀ (tbl : Tbl) (es : List Expr),
    LogIn (visitElts ops bi tbl es) (allIdsList es)
  | tbl, [] => by simp only [visitElts]; exact LogIn.pure _ _
  | tbl, e :: rest => by
      have ih := fun {α} (f : List (Option Val) → VRes α) (hf : ∀ vs, LogIn (f vs) (allIds e ++ allIdsList rest)) =>
        LogIn.bind ((visitElts_logIn ops bi tbl rest).mono (T := allIds e ++ allIdsList rest) (by simp +contextual)) hf
      cases e with
      | starred j e' =>
        simp only [visitElts, allIdsList, allIds] at ih ⊢
        refine LogIn.bind ((visit_logIn ops bi tbl e').mono (by simp +contextual)) (fun s? => ?_)
        cases s? with
        | none => exact ih _ (fun vs => LogIn.pure _ _)
        | some s => exact LogIn.bind (LogIn.lift _ _) (fun xs => ih _ (fun vs => LogIn.pure _ _))
      | _ =>
        simp only [visitElts, allIdsList] at ih ⊢
        refine LogIn.bind ((visit_logIn ops bi tbl _).mono (by simp +contextual)) (fun v => ?_)
        exact ih _ (fun vs => LogIn.pure _ _)
theorem visitArgs_logIn (ops : Ops) (bi : List (String × Val)) : ∀ (tbl : Tbl) (es : List Expr),
    LogIn (visitArgs ops bi tbl es) (allIdsList es)
  | tbl, [] => by simp only [visitArgs]; exact LogIn.pure _ _
  | tbl, e :: rest => by
      have ih := fun {α} (f : Option (List (Option Val)) → VRes α) (hf : ∀ vs, LogIn (f vs) (allIds e ++ allIdsList rest)) =>
        LogIn.bind ((visitArgs_logIn ops bi tbl rest).mono (T := allIds e ++ allIdsList rest) (by simp +contextual)) hf
      cases e with
      | starred j e' =>
        simp only [visitArgs, allIdsList, allIds] at ih ⊢
        refine LogIn.bind ((visit_logIn ops bi tbl e').mono (by simp +contextual)) (fun s? => ?_)
        cases s? with
        | none => exact LogIn.pure _ _
        | some s => exact LogIn.bind (LogIn.lift _ _) (fun xs => ih _ (fun vs => LogIn.pure _ _))
      | _ =>
        simp only [visitArgs, allIdsList] at ih ⊢
        refine LogIn.bind ((visit_logIn ops bi tbl _).mono (by simp +contextual)) (fun v => ?_)
        exact ih _ (fun vs => LogIn.pure _ _)
theorem visitKws_logIn (ops : Ops) (bi : List (String × Val)) : ∀ (tbl : Tbl) (acc : List (String × Option Val))
    (kws : List (Option String × Expr)), LogIn (visitKws ops bi tbl acc kws) (allIdsKws kws)
  | tbl, acc, [] => by simp only [visitKws]; exact LogIn.pure _ _
  | tbl, acc, (some k, e) :: rest => by
      simp only [visitKws, allIdsKws]
      refine LogIn.bind ((visit_logIn ops bi tbl e).mono (by simp +contextual)) (fun v => ?_)
      exact (visitKws_logIn ops bi tbl _ rest).mono (by simp +contextual)
  | tbl, acc, (none, e) :: rest => by
      simp only [visitKws, allIdsKws]
      refine LogIn.bind ((visit_logIn ops bi tbl e).mono (by simp +contextual)) (fun u? => ?_)
      cases u? with
      | none => exact LogIn.err _ _
      | some u =>
        exact LogIn.bind (LogIn.lift _ _) (fun kvs => (visitKws_logIn ops bi tbl _ rest).mono (by simp +contextual))
theorem visitItems_logIn (ops : Ops) (bi : List (String × Val)) : ∀ (tbl : Tbl) (d : Val) (ph : Bool)
    (items : List (Option Expr × Expr)), LogIn (visitItems ops bi tbl d ph items) (allIdsItems items)
  | tbl, d, ph, [] => by simp only [visitItems]; exact LogIn.pure _ _
  | tbl, d, ph, (none, e) :: rest => by
      simp only [visitItems, allIdsItems, allIdsOpt]
      refine LogIn.bind ((visit_logIn ops bi tbl e).mono (by simp +contextual)) (fun u? => ?_)
      cases u? with
      | none => exact (visitItems_logIn ops bi tbl _ _ rest).mono (by simp +contextual)
      | some u =>
        exact LogIn.bind (LogIn.lift _ _) (fun d' => (visitItems_logIn ops bi tbl _ _ rest).mono (by simp +contextual))
  | tbl, d, ph, (some k, e) :: rest => by
      simp only [visitItems, allIdsItems, allIdsOpt]
      refine LogIn.bind ((visit_logIn ops bi tbl e).mono (by simp +contextual)) (fun v? => ?_)
      refine LogIn.bind ((visit_logIn ops bi tbl k).mono (by simp +contextual)) (fun k? => ?_)
      split
      · exact LogIn.bind (LogIn.lift _ _) (fun d' => (visitItems_logIn ops bi tbl _ _ rest).mono (by simp +contextual))
      · exact (visitItems_logIn ops bi tbl _ _ rest).mono (by simp +contextual)
theorem visitOpt_logIn (ops : Ops) (bi : List (String × Val)) : ∀ (tbl : Tbl) (o : Option Expr),
    LogIn (visitOpt ops bi tbl o) (allIdsOpt o)
  | tbl, none => by simp only [visitOpt]; exact LogIn.pure _ _
  | tbl, some e => by
      simp only [visitOpt, allIdsOpt]
      exact visit_logIn ops bi tbl e
theorem visitList_logIn (ops : Ops) (bi : List (String × Val)) : ∀ (tbl : Tbl) (es : List Expr),
    LogIn (visitList ops bi tbl es) (allIdsList es)
  | tbl, [] => by simp only [visitList]; exact LogIn.pure _ _
  | tbl, e :: rest => by
      simp only [visitList, allIdsList]
      refine LogIn.bind ((visit_logIn ops bi tbl e).mono (by simp +contextual)) (fun v => ?_)
      exact LogIn.bind ((visitList_logIn ops bi tbl rest).mono (by simp +contextual)) (fun vs => LogIn.pure _ _)
theorem harvest_logIn (ops : Ops) (bi : List (String × Val)) : ∀ (tbl : Tbl) (es : List Expr),
    LogIn (harvest ops bi tbl es) (allIdsList es)
  | tbl, [] => by simp only [harvest]; exact LogIn.pure _ _
  | tbl, e :: rest => by
      simp only [harvest, allIdsList]
      intro p hp
      simp only [List.mem_append] at hp ⊢
      cases hp with
      | inl h => exact Or.inl (visit_logIn ops bi tbl e p h)
      | inr h => exact Or.inr (harvest_logIn ops bi tbl rest p h)
theorem visitBool_logIn (ops : Ops) (bi : List (String × Val)) : ∀ (tbl : Tbl) (isAnd hasPh : Bool) (last : Option Val)
    (es : List Expr), LogIn (visitBool ops bi tbl isAnd hasPh last es) (allIdsList es)
  | tbl, isAnd, hasPh, last, [] => by simp only [visitBool]; exact LogIn.pure _ _
  | tbl, isAnd, hasPh, last, e :: rest => by
      simp only [visitBool, allIdsList]
      refine LogIn.bind ((visit_logIn ops bi tbl e).mono (by simp +contextual)) (fun r? => ?_)
      have ih := fun h l => (visitBool_logIn ops bi tbl isAnd h l rest).mono (T := allIds e ++ allIdsList rest)
        (by simp +contextual)
      cases r? with
      | none => exact ih _ _
      | some v =>
        dsimp only
        refine LogIn.ite (ih _ _) (LogIn.ite (ih _ _) ?_)
        refine LogIn.bind (LogIn.lift _ _) (fun b => LogIn.ite (LogIn.pure _ _) (ih _ _))
theorem visitCmp_logIn (ops : Ops) (bi : List (String × Val)) : ∀ (tbl : Tbl) (hasPh : Bool) (left result : Option Val)
    (es : List (CmpOp × Expr)), LogIn (visitCmp ops bi tbl hasPh left result es) (allIdsCmp es)
  | tbl, hasPh, left, result, [] => by simp only [visitCmp]; exact LogIn.pure _ _
  | tbl, hasPh, left, result, (op, e) :: rest => by
      simp only [visitCmp, allIdsCmp]
      refine LogIn.bind ((visit_logIn ops bi tbl e).mono (by simp +contextual)) (fun c? => ?_)
      have ih := fun h l r => (visitCmp_logIn ops bi tbl h l r rest).mono (T := allIds e ++ allIdsCmp rest)
        (by simp +contextual)
      split
      · refine LogIn.bind (LogIn.lift _ _) (fun r => LogIn.ite (ih _ _ _) ?_)
        exact LogIn.bind (LogIn.lift _ _) (fun b => LogIn.ite (LogIn.pure _ _) (ih _ _ _))
      · exact ih _ _ _
end

end Icontract.Ex
