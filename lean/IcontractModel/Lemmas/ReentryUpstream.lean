/-
  C10 helper lemmas: the pinned upstream discipline recurses without bound on a precondition that
  calls its own function twice.
-/
import IcontractModel.Lemmas.ReentryFuel
namespace Icontract.Re

theorem run_empty_script (p v) (n : Nat) (st : St) :
    run p v n st (.script {}) = (st, .ok) ∨ (run p v n st (.script {})).2 = .timeout := by
  match n with
  | 0 => right; rw [run_zero]
  | 1 => right; rw [run_script, run_zero]
  | n+2 => left; rw [run_script]; exact run_acts_nil _ _ _ _

theorem upstream_diverged_gen (p : Program)
    (hp : p.fn? 0 = some { pre := [{ actions := [.callFn 0, .callFn 0] }], body := {} }) :
    ∀ (fuel : Nat) (st : St), st.s.contains (.fn 0) = false →
      (run p .upstream fuel st (.act (.callFn 0))).2 = .timeout := by
  intro fuel
  induction fuel using Nat.strongRecOn with
  | _ fuel ih =>
    intro st hc
    match fuel with
    | 0 => rw [run_zero]
    | n+1 =>
      rw [run_callFn_checked _ _ _ _ _ _ hp hc, fin_snd]
      apply andThen_snd_timeout
      match n with
      | 0 => rw [run_zero]
      | n+1 =>
        rw [run_pres_cons]
        apply andThen_snd_timeout
        match n with
        | 0 => rw [run_zero]
        | n+1 =>
          rw [run_script]
          match n with
          | 0 => rw [run_zero]
          | n+1 =>
            rw [run_acts_cons]
            have hin : (((st.add (.fn 0)).emit (.cond 0 0)).s.contains (.fn 0)) = true := by
              rw [emit_s, contains_add]; simp
            match n with
            | 0 => apply andThen_snd_timeout; rw [run_zero]
            | n+1 =>
              rw [run_callFn_bare _ _ _ _ _ _ hp hin]
              rcases run_empty_script p .upstream n
                (((st.add (.fn 0)).emit (.cond 0 0)).emit (.body 0)) with h | h
              · show (andThen (_, (run p .upstream n _ (.script {})).2) _).2 = _
                rw [h]
                simp only [Variant.upstream, if_true, andThen_mk_ok]
                rw [run_acts_cons]
                apply andThen_snd_timeout
                apply ih n (by omega)
                rw [contains_discard]; simp
              · apply andThen_snd_timeout
                exact h

end Icontract.Re
