/-
  Lemmas for the class-invariant theorem over arbitrary inheritance graphs (`C04_dag_invariants_are_the_ancestors`,
  `C17_dag_foreign_invariants_never_arrive`): histories built by `buildHistI` (Spec/DagHistoryInv.lean).

  The invariant over the defined prefix (`IInv`) only speaks about what the theorem needs of a class - its id, its MRO
  and its three invariant references - so that `addInvariantChecks` (which re-binds members) is a no-op for it
  (`ClsSame`).  For every defined class: either no class of its MRO has invariant lists and no ancestor declares an
  invariant, or the class owns three cells (shared with no other class) whose contents are, as sets, the declarations
  of the classes of its MRO.
-/
import IcontractModel.Lemmas.DagLemmas
import IcontractModel.Spec.DagHistoryInv
namespace Icontract.Meta

/-! ### the MRO contains the class, its bases and their MROs -/

theorem c3merge_mem_conv : ∀ (fuel : Nat) (seqs : List (List ClsId)) (r : List ClsId),
    c3merge fuel seqs = some r → ∀ s ∈ seqs, ∀ x ∈ s, x ∈ r := by
  intro fuel
  induction fuel with
  | zero => intro seqs r h; simp [c3merge] at h
  | succ fuel ih =>
    intro seqs r h s hs x hx
    have hne : (!s.isEmpty) = true := by
      cases s with
      | nil => cases hx
      | cons _ _ => rfl
    have hsf : s ∈ seqs.filter (fun s => !s.isEmpty) := List.mem_filter.mpr ⟨hs, hne⟩
    simp only [c3merge] at h
    split at h
    · next hemp =>
      rw [List.isEmpty_iff] at hemp
      rw [hemp] at hsf
      cases hsf
    · split at h
      · cases h
      · next y hy =>
        split at h
        · next rest hrest =>
          cases h
          by_cases hxy : x = y
          · rw [hxy]; exact List.mem_cons_self
          · apply List.mem_cons_of_mem
            refine ih _ _ hrest (s.filter (· != y)) (List.mem_map.mpr ⟨s, hsf, rfl⟩) x ?_
            exact List.mem_filter.mpr ⟨hx, by simpa using hxy⟩
        · cases h

theorem computeMro_conv (w : World) (k : ClsId) (bases : List ClsId) (mro : List ClsId)
    (h : computeMro w k bases = some mro) :
    (∃ rest, mro = k :: rest) ∧ (∀ b ∈ bases, b ∈ mro) ∧
    (∀ b ∈ bases, ∀ c, w.cls? b = some c → ∀ x ∈ c.mro, x ∈ mro) := by
  simp only [computeMro] at h
  split at h
  · next rest hrest =>
    cases h
    refine ⟨⟨rest, rfl⟩, fun b hb => ?_, fun b hb c hc x hx => ?_⟩
    · exact List.mem_cons_of_mem _ (c3merge_mem_conv _ _ _ hrest bases
        (List.mem_append_right _ (List.mem_singleton_self _)) b hb)
    · apply List.mem_cons_of_mem
      refine c3merge_mem_conv _ _ _ hrest c.mro (List.mem_append_left _ ?_) x hx
      exact List.mem_map.mpr ⟨b, hb, by simp only [hc]⟩
  · cases h

/-! ### heap: conditional appends to three distinct cells -/

theorem Heap.get_set_self (h : Heap) (r : Nat) (xs : List Nat) (hr : r < h.length) :
    (h.set r xs).get r = xs := by
  simp only [Heap.set, Heap.get, List.getElem?_mapIdx, List.getElem?_eq_getElem hr, Option.map_some, if_true,
    Option.getD_some]

theorem Heap.get_append_self (h : Heap) (r x : Nat) (hr : r < h.length) :
    (h.append r x).get r = h.get r ++ [x] := by
  simp only [Heap.append, Heap.get_set_self _ _ _ hr]

def Heap.cappend (b : Bool) (h : Heap) (r x : Nat) : Heap := if b then h.append r x else h

theorem Heap.length_cappend (b : Bool) (h : Heap) (r x : Nat) : (Heap.cappend b h r x).length = h.length := by
  cases b
  · rfl
  · exact Heap.length_append h r x

theorem Heap.get_cappend_ne (b : Bool) (h : Heap) (r r' x : Nat) (hne : r' ≠ r) :
    (Heap.cappend b h r x).get r' = h.get r' := by
  cases b
  · rfl
  · exact Heap.get_append_ne h r r' x hne

theorem Heap.get_cappend_self (b : Bool) (h : Heap) (r x : Nat) (hr : r < h.length) :
    (Heap.cappend b h r x).get r = h.get r ++ (if b then [x] else []) := by
  cases b
  · simp [Heap.cappend]
  · exact Heap.get_append_self h r x hr

/-- the event an invariant is listed for -/
def CheckOn.applies (on : CheckOn) : InvDunder → Bool
  | .all => true
  | .onCall => on.call
  | .onSetattr => on.setattr

/-- the writes of `invariant.__call__` -/
def Heap.app3 (h : Heap) (r : InvDunder → Ref) (on : CheckOn) (c : Nat) : Heap :=
  Heap.cappend on.setattr (Heap.cappend on.call (h.append (r .all) c) (r .onCall) c) (r .onSetattr) c

theorem Heap.app3_length (h : Heap) (r : InvDunder → Ref) (on : CheckOn) (c : Nat) :
    (h.app3 r on c).length = h.length := by
  simp only [Heap.app3, Heap.length_cappend, Heap.length_append]

theorem Heap.app3_other (h : Heap) (r : InvDunder → Ref) (on : CheckOn) (c : Nat) (r' : Nat)
    (hne : ∀ d, r' ≠ r d) : (h.app3 r on c).get r' = h.get r' := by
  simp only [Heap.app3]
  rw [Heap.get_cappend_ne _ _ _ _ _ (hne _), Heap.get_cappend_ne _ _ _ _ _ (hne _),
    Heap.get_append_ne _ _ _ _ (hne _)]

theorem Heap.app3_self (h : Heap) (r : InvDunder → Ref) (on : CheckOn) (c : Nat)
    (hlt : ∀ d, r d < h.length) (hinj : ∀ d d', r d = r d' → d = d') (d : InvDunder) :
    (h.app3 r on c).get (r d) = h.get (r d) ++ (if on.applies d then [c] else []) := by
  have n1 : r .all ≠ r .onCall := fun e => by cases hinj _ _ e
  have n2 : r .all ≠ r .onSetattr := fun e => by cases hinj _ _ e
  have n3 : r .onCall ≠ r .onSetattr := fun e => by cases hinj _ _ e
  simp only [Heap.app3]
  cases d with
  | all =>
    rw [Heap.get_cappend_ne _ _ _ _ _ n2, Heap.get_cappend_ne _ _ _ _ _ n1,
      Heap.get_append_self _ _ _ (hlt _)]
    rfl
  | onCall =>
    rw [Heap.get_cappend_ne _ _ _ _ _ n3, Heap.get_cappend_self _ _ _ _ (by rw [Heap.length_append]; exact hlt _),
      Heap.get_append_ne _ _ _ _ n1.symm]
    rfl
  | onSetattr =>
    rw [Heap.get_cappend_self _ _ _ _ (by rw [Heap.length_cappend, Heap.length_append]; exact hlt _),
      Heap.get_cappend_ne _ _ _ _ _ n3.symm, Heap.get_append_ne _ _ _ _ n2.symm]
    rfl

/-! ### the class table: `setCls`, and what the theorem reads of a class -/

theorem setCls_cls? (w : World) (c' : Cls) (j : ClsId) :
    (setCls w c').cls? j = (w.cls? j).map (fun x => if x.id == c'.id then c' else x) := by
  simp only [World.cls?, setCls]
  induction w.classes with
  | nil => rfl
  | cons x l ih =>
    simp only [List.map_cons, List.find?_cons]
    by_cases hx : x.id = c'.id
    · have hb : (x.id == c'.id) = true := by simpa using hx
      simp only [hb, if_true]
      by_cases hj : c'.id = j
      · have : (c'.id == j) = true := by simpa using hj
        have h2 : (x.id == j) = true := by simpa using hx.trans hj
        simp only [this, h2, Option.map_some, hb, if_true]
      · have : (c'.id == j) = false := by simpa using hj
        have h2 : (x.id == j) = false := by simpa using (fun e => hj (hx.symm.trans e))
        simp only [this, h2]
        exact ih
    · have hb : (x.id == c'.id) = false := by simpa using hx
      simp only [hb, Bool.false_eq_true, if_false]
      by_cases hj : x.id = j
      · have : (x.id == j) = true := by simpa using hj
        simp only [this, Option.map_some, hb, Bool.false_eq_true, if_false]
      · have : (x.id == j) = false := by simpa using hj
        simp only [this]
        exact ih

/-- `w'` shows the same ids, MROs and invariant references as `w` -/
def ClsSame (w w' : World) : Prop :=
  ∀ j, (w.cls? j = none → w'.cls? j = none) ∧
    ∀ c, w.cls? j = some c → ∃ c', w'.cls? j = some c' ∧ c'.mro = c.mro ∧ ∀ d, c'.invRef d = c.invRef d

theorem ClsSame.of_classes {w w' : World} (h : w'.classes = w.classes) : ClsSame w w' := by
  intro j
  have e : w'.cls? j = w.cls? j := by simp only [World.cls?, h]
  exact ⟨fun hn => by rw [e, hn], fun c hc => ⟨c, by rw [e, hc], rfl, fun _ => rfl⟩⟩

theorem lookupInv_same {w w' : World} (h : ClsSame w w') (k : ClsId) (d : InvDunder) :
    lookupInv w' k d = lookupInv w k d := by
  have hf : ∀ a, (match w'.cls? a with | some ca => ca.invRef d | none => none) =
      (match w.cls? a with | some ca => ca.invRef d | none => none) := by
    intro a
    cases ha : w.cls? a with
    | none => rw [(h a).1 ha]
    | some ca =>
      obtain ⟨ca', hca', _, hr⟩ := (h a).2 ca ha
      rw [hca']
      exact hr d
  unfold lookupInv
  cases hk : w.cls? k with
  | none => rw [(h k).1 hk]
  | some c =>
    obtain ⟨c', hc', hm, _⟩ := (h k).2 c hk
    rw [hc']
    simp only [hm]
    exact congrArg (fun f => c.mro.findSome? f) (funext hf)

theorem addInvariantChecks_eq' (w : World) (k : ClsId) :
    addInvariantChecks w k = w ∨ ∃ c c', w.cls? k = some c ∧ addInvariantChecks w k = setCls w c' ∧
      c'.id = k ∧ c'.mro = c.mro ∧ c'.inv = c.inv ∧ c'.invCall = c.invCall ∧ c'.invSetattr = c.invSetattr := by
  unfold addInvariantChecks
  split
  · exact Or.inl rfl
  · next c hc =>
    right
    refine ⟨c, _, hc, rfl, ?_⟩
    apply foldl_inv (fun c' : Cls => c'.id = k ∧ c'.mro = c.mro ∧ c'.inv = c.inv ∧ c'.invCall = c.invCall ∧
      c'.invSetattr = c.invSetattr)
    · intro b key hb
      simp only []
      repeat' split
      all_goals exact hb
    · exact ⟨cls?_id w k c hc, rfl, rfl, rfl, rfl⟩

theorem addInvariantChecks_same (w : World) (k : ClsId) : ClsSame w (addInvariantChecks w k) := by
  rcases addInvariantChecks_eq' w k with h | ⟨c, c', hc, h, hid, hm, h1, h2, h3⟩ <;> rw [h]
  · exact ClsSame.of_classes rfl
  · intro j
    rw [setCls_cls?]
    refine ⟨fun hn => by rw [hn]; rfl, fun cj hcj => ?_⟩
    rw [hcj, Option.map_some]
    by_cases hj : cj.id = c'.id
    · have hb : (cj.id == c'.id) = true := by simpa using hj
      have : j = k := (cls?_id w j cj hcj).symm.trans (hj.trans hid)
      subst this
      rw [hc] at hcj
      cases hcj
      refine ⟨c', by simp only [hb, if_true], hm, fun d => ?_⟩
      cases d <;> simp only [Cls.invRef, h1, h2, h3]
    · have hb : (cj.id == c'.id) = false := by simpa using hj
      exact ⟨cj, by simp only [hb, Bool.false_eq_true, if_false], rfl, fun _ => rfl⟩

/-! ### `lookupInv` -/

theorem findSome?_congr' {α β : Type} (l : List α) (f g : α → Option β) (h : ∀ a ∈ l, f a = g a) :
    l.findSome? f = l.findSome? g := by
  induction l with
  | nil => rfl
  | cons a l ih =>
    simp only [List.findSome?_cons, h a List.mem_cons_self]
    rw [ih (fun x hx => h x (List.mem_cons_of_mem _ hx))]

theorem lookupInv_agree {w w' : World} (k : ClsId) (d : InvDunder) (hk : w'.cls? k = w.cls? k)
    (hm : ∀ c, w.cls? k = some c → ∀ a ∈ c.mro, w'.cls? a = w.cls? a) :
    lookupInv w' k d = lookupInv w k d := by
  unfold lookupInv
  rw [hk]
  cases hc : w.cls? k with
  | none => rfl
  | some c =>
    simp only []
    apply findSome?_congr'
    intro a ha
    rw [hm c hc a ha]

theorem lookupInv_none_iff {w : World} {k : ClsId} {c : Cls} (hc : w.cls? k = some c) (d : InvDunder) :
    lookupInv w k d = none ↔ ∀ a ∈ c.mro, ∀ ca, w.cls? a = some ca → ca.invRef d = none := by
  unfold lookupInv
  simp only [hc, List.findSome?_eq_none_iff]
  constructor
  · intro h a ha ca hca
    have := h a ha
    rw [hca] at this
    exact this
  · intro h a ha
    cases hca : w.cls? a with
    | none => rfl
    | some ca => exact h a ha ca hca

/-! ### the invariant -/

/-- what each class declares, per event -/
abbrev Decl := Nat → InvDunder → List CId

structure IClsOk (w : World) (decl : Decl) (k : Nat) (c : Cls) : Prop where
  head : ∃ rest, c.mro = k :: rest
  mroBd : ∀ a : Nat, a ∈ c.mro → 1 ≤ a ∧ a ≤ k
  st : ((∀ d, lookupInv w k d = none) ∧ (∀ a ∈ c.mro, ∀ d, decl a d = [])) ∨
       ∃ r : InvDunder → Nat, (∀ d, c.invRef d = some (r d)) ∧ (∀ d, r d < w.heap.length) ∧
         ∀ d x, x ∈ w.heap.get (r d) ↔ ∃ a ∈ c.mro, x ∈ decl a d

structure IInv (w : World) (n : Nat) (decl : Decl) : Prop where
  clsNone : ∀ i, (i = 0 ∨ n < i) → w.cls? i = none
  clsSome : ∀ k, 1 ≤ k → k ≤ n → ∃ c, w.cls? k = some c ∧ IClsOk w decl k c
  sep : ∀ k k' c c' d d' r, w.cls? k = some c → w.cls? k' = some c' → c.invRef d = some r →
    c'.invRef d' = some r → k = k' ∧ d = d'

theorem IClsOk.self_mem {w : World} {decl : Decl} {k : Nat} {c : Cls} (ok : IClsOk w decl k c) : k ∈ c.mro := by
  obtain ⟨rest, h⟩ := ok.head
  rw [h]; exact List.mem_cons_self

theorem IClsOk.head? {w : World} {decl : Decl} {k : Nat} {c : Cls} (ok : IClsOk w decl k c) :
    c.mro.head? = some k := by
  obtain ⟨rest, h⟩ := ok.head
  rw [h]; rfl

theorem IClsOk.ref_none {w : World} {decl : Decl} {k : Nat} {c : Cls} (ok : IClsOk w decl k c)
    (hc : w.cls? k = some c) (d : InvDunder) (h : lookupInv w k d = none) : c.invRef d = none :=
  (lookupInv_none_iff hc d).mp h k ok.self_mem c hc

theorem IClsOk.ref_lt {w : World} {decl : Decl} {k : Nat} {c : Cls} (ok : IClsOk w decl k c)
    (hc : w.cls? k = some c) (d : InvDunder) (r : Nat) (h : c.invRef d = some r) : r < w.heap.length := by
  rcases ok.st with ⟨hn, _⟩ | ⟨rr, h1, h2, _⟩
  · rw [ok.ref_none hc d (hn d)] at h; cases h
  · rw [h1 d] at h
    cases h
    exact h2 d

theorem IInv.cls_cases {w : World} {n : Nat} {decl : Decl} (a : IInv w n decl) (x : Nat) :
    w.cls? x = none ∨ (1 ≤ x ∧ x ≤ n ∧ ∃ c, w.cls? x = some c ∧ IClsOk w decl x c) := by
  by_cases hx : x = 0 ∨ n < x
  · exact Or.inl (a.clsNone x hx)
  · exact Or.inr ⟨by omega, by omega, a.clsSome x (by omega) (by omega)⟩

theorem IInv.ref_lt {w : World} {n : Nat} {decl : Decl} (a : IInv w n decl) (k : Nat) (c : Cls)
    (hc : w.cls? k = some c) (d : InvDunder) (r : Nat) (h : c.invRef d = some r) : r < w.heap.length := by
  rcases a.cls_cases k with hn | ⟨_, _, c', hc', ok⟩
  · rw [hn] at hc; cases hc
  · rw [hc] at hc'
    cases hc'
    exact ok.ref_lt hc d r h

/-- the invariant only reads ids, MROs, invariant references and the cells that existed -/
theorem IInv.same {w w' : World} {n : Nat} {decl : Decl} (a : IInv w n decl) (hs : ClsSame w w')
    (hp : HPres w.heap w'.heap) : IInv w' n decl := by
  have back : ∀ k c', w'.cls? k = some c' → ∃ c, w.cls? k = some c ∧ c'.mro = c.mro ∧
      ∀ d, c'.invRef d = c.invRef d := by
    intro k c' hc'
    cases hc : w.cls? k with
    | none => rw [(hs k).1 hc] at hc'; cases hc'
    | some c =>
      obtain ⟨c'', h1, h2, h3⟩ := (hs k).2 c hc
      rw [h1] at hc'
      cases hc'
      exact ⟨c, rfl, h2, h3⟩
  refine ⟨fun i hi => (hs i).1 (a.clsNone i hi), fun k h1 h2 => ?_, ?_⟩
  · obtain ⟨c, hc, ok⟩ := a.clsSome k h1 h2
    obtain ⟨c', hc', hm, hr⟩ := (hs k).2 c hc
    refine ⟨c', hc', ?_, ?_, ?_⟩
    · rw [hm]; exact ok.head
    · rw [hm]; exact ok.mroBd
    · rw [hm]
      rcases ok.st with ⟨hn, he⟩ | ⟨r, g1, g2, g3⟩
      · exact Or.inl ⟨fun d => by rw [lookupInv_same hs]; exact hn d, he⟩
      · refine Or.inr ⟨r, fun d => by rw [hr d]; exact g1 d, fun d => Nat.lt_of_lt_of_le (g2 d) hp.2, ?_⟩
        intro d x
        rw [hp.1 _ (g2 d)]
        exact g3 d x
  · intro k k' c c' d d' r hc hc' hr hr'
    obtain ⟨c0, g1, _, g3⟩ := back k c hc
    obtain ⟨c0', g1', _, g3'⟩ := back k' c' hc'
    rw [g3 d] at hr
    rw [g3' d'] at hr'
    exact a.sep k k' c0 c0' d d' r g1 g1' hr hr'

theorem IInv.congr {w : World} {n : Nat} {decl decl' : Decl} (a : IInv w n decl)
    (h : ∀ x, 1 ≤ x → x ≤ n → decl' x = decl x) : IInv w n decl' := by
  refine ⟨a.clsNone, fun k h1 h2 => ?_, a.sep⟩
  obtain ⟨c, hc, ok⟩ := a.clsSome k h1 h2
  have e : ∀ x ∈ c.mro, decl' x = decl x := fun x hx =>
    h x (ok.mroBd x hx).1 (Nat.le_trans (ok.mroBd x hx).2 h2)
  refine ⟨c, hc, ok.head, ok.mroBd, ?_⟩
  rcases ok.st with ⟨hn, he⟩ | ⟨r, g1, g2, g3⟩
  · exact Or.inl ⟨hn, fun x hx d => by rw [e x hx]; exact he x hx d⟩
  · refine Or.inr ⟨r, g1, g2, fun d x => ?_⟩
    rw [g3 d x]
    constructor
    · rintro ⟨y, hy, hxy⟩
      exact ⟨y, hy, by rw [e y hy]; exact hxy⟩
    · rintro ⟨y, hy, hxy⟩
      exact ⟨y, hy, by rw [← e y hy]; exact hxy⟩

/-- an earlier class keeps its state when later ids change and cells are only allocated -/
theorem IClsOk.transfer {w w' : World} {decl : Decl} {k : Nat} {c : Cls} (ok : IClsOk w decl k c)
    (hc : w.cls? k = some c) (hag : ∀ a, a ≤ k → w'.cls? a = w.cls? a) (hp : HPres w.heap w'.heap) :
    IClsOk w' decl k c := by
  refine ⟨ok.head, ok.mroBd, ?_⟩
  rcases ok.st with ⟨hn, he⟩ | ⟨r, g1, g2, g3⟩
  · refine Or.inl ⟨fun d => ?_, he⟩
    rw [lookupInv_agree k d (hag k (Nat.le_refl _))]
    · exact hn d
    · intro c0 hc0 a ha
      rw [hc] at hc0
      cases hc0
      exact hag a (ok.mroBd a ha).2
  · refine Or.inr ⟨r, g1, fun d => Nat.lt_of_lt_of_le (g2 d) hp.2, fun d x => ?_⟩
    rw [hp.1 _ (g2 d)]
    exact g3 d x

/-- a new class `n + 1` whose references (if any) are fresh cells -/
theorem IInv.extend {w w3 : World} {n : Nat} {decl : Decl} (inv : IInv w n decl) (cnew : Cls)
    (hold : ∀ j, j ≠ n + 1 → w3.cls? j = w.cls? j) (hnew : w3.cls? (n + 1) = some cnew)
    (hp : HPres w.heap w3.heap) (ok : IClsOk w3 decl (n + 1) cnew)
    (hfresh : ∀ d r, cnew.invRef d = some r → w.heap.length ≤ r)
    (hinj : ∀ d d' r, cnew.invRef d = some r → cnew.invRef d' = some r → d = d') :
    IInv w3 (n + 1) decl := by
  refine ⟨fun i hi => ?_, fun k h1 h2 => ?_, ?_⟩
  · rw [hold i (by omega)]
    exact inv.clsNone i (by omega)
  · by_cases hk : k = n + 1
    · subst hk
      exact ⟨cnew, hnew, ok⟩
    · obtain ⟨c, hc, okc⟩ := inv.clsSome k h1 (by omega)
      refine ⟨c, by rw [hold k hk]; exact hc, okc.transfer hc (fun a ha => hold a (by omega)) hp⟩
  · intro k k' c c' d d' r hc hc' hr hr'
    by_cases hk : k = n + 1 <;> by_cases hk' : k' = n + 1
    · subst hk; subst hk'
      rw [hnew] at hc hc'
      cases hc; cases hc'
      exact ⟨rfl, hinj d d' r hr hr'⟩
    · subst hk
      rw [hnew] at hc
      cases hc
      rw [hold k' hk'] at hc'
      have := inv.ref_lt k' c' hc' d' r hr'
      have := hfresh d r hr
      omega
    · subst hk'
      rw [hnew] at hc'
      cases hc'
      rw [hold k hk] at hc
      have := inv.ref_lt k c hc d r hr
      have := hfresh d' r hr'
      omega
    · rw [hold k hk] at hc
      rw [hold k' hk'] at hc'
      exact inv.sep k k' c c' d d' r hc hc' hr hr'

/-! ### `collapseInv` -/

def mergeFrom (w : World) (d : InvDunder) (acc : List Nat) (bases : List ClsId) : List Nat :=
  bases.foldl (fun acc b => match lookupInv w b d with
    | some r => acc ++ w.heap.get r
    | none => acc) acc

theorem collapseInv_eq (w : World) (bases : List ClsId) (d : InvDunder) :
    collapseInv w bases d =
      if (mergeFrom w d [] bases).isEmpty && !(bases.any (fun b => (lookupInv w b d).isSome)) then (w, none)
      else ({ w with heap := (w.heap.alloc (mergeFrom w d [] bases)).1 }, some w.heap.length) := rfl

theorem merge_mem (w : World) (d : InvDunder) : ∀ (bases : List ClsId) (acc : List Nat) (x : Nat),
    x ∈ mergeFrom w d acc bases ↔
    x ∈ acc ∨ ∃ b ∈ bases, ∃ r, lookupInv w b d = some r ∧ x ∈ w.heap.get r := by
  intro bases
  induction bases with
  | nil => intro acc x; simp [mergeFrom]
  | cons b bs ih =>
    intro acc x
    unfold mergeFrom
    rw [List.foldl_cons]
    have ih' := ih
    unfold mergeFrom at ih'
    rw [ih']
    cases hb : lookupInv w b d with
    | none =>
      simp only []
      constructor
      · rintro (h | ⟨b', hb', r, h1, h2⟩)
        · exact Or.inl h
        · exact Or.inr ⟨b', List.mem_cons_of_mem _ hb', r, h1, h2⟩
      · rintro (h | ⟨b', hb', r, h1, h2⟩)
        · exact Or.inl h
        · rcases List.mem_cons.mp hb' with rfl | hb''
          · rw [hb] at h1; cases h1
          · exact Or.inr ⟨b', hb'', r, h1, h2⟩
    | some r0 =>
      simp only [List.mem_append]
      constructor
      · rintro ((h | h) | ⟨b', hb', r, h1, h2⟩)
        · exact Or.inl h
        · exact Or.inr ⟨b, List.mem_cons_self, r0, hb, h⟩
        · exact Or.inr ⟨b', List.mem_cons_of_mem _ hb', r, h1, h2⟩
      · rintro (h | ⟨b', hb', r, h1, h2⟩)
        · exact Or.inl (Or.inl h)
        · rcases List.mem_cons.mp hb' with rfl | hb''
          · rw [hb] at h1; cases h1
            exact Or.inl (Or.inr h2)
          · exact Or.inr ⟨b', hb'', r, h1, h2⟩

theorem collapseInv_spec (w : World) (bases : List ClsId) (d : InvDunder) :
    (collapseInv w bases d = (w, none) ∧ ∀ b ∈ bases, lookupInv w b d = none) ∨
    (∃ merged, collapseInv w bases d = ({ w with heap := (w.heap.alloc merged).1 }, some w.heap.length) ∧
      ∀ x, x ∈ merged ↔ ∃ b ∈ bases, ∃ r, lookupInv w b d = some r ∧ x ∈ w.heap.get r) := by
  by_cases hall : ∀ b ∈ bases, lookupInv w b d = none
  · left
    refine ⟨?_, hall⟩
    have ha : bases.any (fun b => (lookupInv w b d).isSome) = false := by
      apply List.any_eq_false.mpr
      intro b hb
      simp [hall b hb]
    have hm : mergeFrom w d [] bases = [] := by
      apply List.eq_nil_iff_forall_not_mem.mpr
      intro x hx
      rcases (merge_mem w d bases [] x).mp hx with h | ⟨b, hb, r, h1, _⟩
      · cases h
      · rw [hall b hb] at h1; cases h1
    rw [collapseInv_eq]
    simp only [hm, ha, List.isEmpty_nil, Bool.not_false, Bool.and_self, if_true]
  · right
    have ha : bases.any (fun b => (lookupInv w b d).isSome) = true := by
      apply List.any_eq_true.mpr
      apply Classical.byContradiction
      intro hne
      apply hall
      intro b hb
      cases hl : lookupInv w b d with
      | none => rfl
      | some r => exact absurd ⟨b, hb, by rw [hl]; rfl⟩ hne
    refine ⟨mergeFrom w d [] bases, ?_, fun x => ?_⟩
    · rw [collapseInv_eq]
      simp only [ha, Bool.not_true, Bool.and_false, Bool.false_eq_true, if_false]
    · rw [merge_mem]
      simp

theorem collapseInv_none' (w : World) (bases : List ClsId) (d : InvDunder)
    (hall : ∀ b ∈ bases, lookupInv w b d = none) : collapseInv w bases d = (w, none) := by
  rcases collapseInv_spec w bases d with ⟨h, _⟩ | ⟨m, h, hm⟩
  · exact h
  · have ha : bases.any (fun b => (lookupInv w b d).isSome) = false := by
      apply List.any_eq_false.mpr
      intro b hb
      simp [hall b hb]
    have hm0 : mergeFrom w d [] bases = [] := by
      apply List.eq_nil_iff_forall_not_mem.mpr
      intro x hx
      rcases (merge_mem w d bases [] x).mp hx with h | ⟨b, hb, r, h1, _⟩
      · cases h
      · rw [hall b hb] at h1; cases h1
    rw [collapseInv_eq]
    simp only [hm0, ha, List.isEmpty_nil, Bool.not_false, Bool.and_self, if_true]

theorem collapse_step (w0 w : World) (bases : List ClsId) (d : InvDunder) (hcl : w.classes = w0.classes)
    (hp : HPres w0.heap w.heap)
    (href : ∀ b ∈ bases, ∀ r, lookupInv w0 b d = some r → r < w0.heap.length)
    (hsome : ∃ b ∈ bases, (lookupInv w0 b d).isSome) :
    ∃ merged, collapseInv w bases d = ({ w with heap := (w.heap.alloc merged).1 }, some w.heap.length) ∧
      ∀ x, x ∈ merged ↔ ∃ b ∈ bases, ∃ r, lookupInv w0 b d = some r ∧ x ∈ w0.heap.get r := by
  have hl : ∀ b, lookupInv w b d = lookupInv w0 b d := fun b => lookupInv_same (ClsSame.of_classes hcl) b d
  rcases collapseInv_spec w bases d with ⟨_, hn⟩ | ⟨m, h1, h2⟩
  · obtain ⟨b, hb, hs⟩ := hsome
    rw [← hl, hn b hb] at hs
    cases hs
  · refine ⟨m, h1, fun x => (h2 x).trans ?_⟩
    constructor
    · rintro ⟨b, hb, r, e, hx⟩
      rw [hl] at e
      exact ⟨b, hb, r, e, by rw [← hp.1 r (href b hb r e)]; exact hx⟩
    · rintro ⟨b, hb, r, e, hx⟩
      exact ⟨b, hb, r, by rw [hl]; exact e, by rw [hp.1 r (href b hb r e)]; exact hx⟩

def col1 (w : World) (bases : List ClsId) : World × Option Ref := collapseInv w bases .all
def col2 (w : World) (bases : List ClsId) : World × Option Ref := collapseInv (col1 w bases).1 bases .onCall
def col3 (w : World) (bases : List ClsId) : World × Option Ref := collapseInv (col2 w bases).1 bases .onSetattr

theorem col3_frame (w : World) (bases : List ClsId) : Frame (fun _ => False) w (col3 w bases).1 :=
  ((collapseInv_frame w bases .all).trans (collapseInv_frame _ bases .onCall)).trans
    (collapseInv_frame _ bases .onSetattr)

theorem collapse3_none (w : World) (bases : List ClsId) (hnone : ∀ b ∈ bases, ∀ d, lookupInv w b d = none) :
    col1 w bases = (w, none) ∧ col2 w bases = (w, none) ∧ col3 w bases = (w, none) := by
  have e1 : col1 w bases = (w, none) := collapseInv_none' w bases .all (fun b hb => hnone b hb _)
  have e2 : col2 w bases = (w, none) := by
    unfold col2
    rw [e1]
    exact collapseInv_none' w bases .onCall (fun b hb => hnone b hb _)
  refine ⟨e1, e2, ?_⟩
  unfold col3
  rw [e2]
  exact collapseInv_none' w bases .onSetattr (fun b hb => hnone b hb _)

/-- the cells a class that creates its lists gets -/
def refsAt (L : Nat) : InvDunder → Nat
  | .all => L
  | .onCall => L + 1
  | .onSetattr => L + 2

theorem refsAt_inj (L : Nat) (d d' : InvDunder) (h : refsAt L d = refsAt L d') : d = d' := by
  cases d <;> cases d' <;> simp only [refsAt] at h <;> first | rfl | omega

theorem refsAt_bounds (L : Nat) (d : InvDunder) : L ≤ refsAt L d ∧ refsAt L d < L + 3 := by
  cases d <;> simp only [refsAt] <;> omega

theorem IInv.lookup_lt {w : World} {n : Nat} {decl : Decl} (inv : IInv w n decl) (b : ClsId) (d : InvDunder)
    (r : Nat) (h : lookupInv w b d = some r) : r < w.heap.length := by
  unfold lookupInv at h
  cases hc : w.cls? b with
  | none => simp only [hc] at h; cases h
  | some c =>
    simp only [hc] at h
    obtain ⟨a, ha, hr⟩ := List.exists_of_findSome?_eq_some h
    cases hca : w.cls? a with
    | none => simp only [hca] at hr; cases hr
    | some ca =>
      simp only [hca] at hr
      exact inv.ref_lt a ca hca d r hr

theorem IInv.bases_dichotomy {w : World} {n : Nat} {decl : Decl} (inv : IInv w n decl) (bases : List ClsId)
    (hb : ∀ b ∈ bases, 1 ≤ b ∧ b ≤ n) :
    (∀ b ∈ bases, ∀ d, lookupInv w b d = none) ∨ (∃ b ∈ bases, ∀ d, (lookupInv w b d).isSome = true) := by
  by_cases h : ∀ b ∈ bases, ∀ d, lookupInv w b d = none
  · exact Or.inl h
  · right
    apply Classical.byContradiction
    intro hne
    apply h
    intro b hbm d
    obtain ⟨c, hc, ok⟩ := inv.clsSome b (hb b hbm).1 (hb b hbm).2
    rcases ok.st with ⟨hn, _⟩ | ⟨r, g1, _, _⟩
    · exact hn d
    · exact absurd ⟨b, hbm, fun d' => by rw [lookupInv_own w b c hc ok.head? d' (r d') (g1 d')]; rfl⟩ hne

theorem collapse3_some {w : World} {n : Nat} {decl : Decl} (inv : IInv w n decl) (bases : List ClsId)
    (hsome : ∃ b ∈ bases, ∀ d, (lookupInv w b d).isSome = true) :
    (col1 w bases).2 = some w.heap.length ∧ (col2 w bases).2 = some (w.heap.length + 1) ∧
    (col3 w bases).2 = some (w.heap.length + 2) ∧
    (col3 w bases).1.heap.length = w.heap.length + 3 ∧
    ∀ d x, x ∈ (col3 w bases).1.heap.get (refsAt w.heap.length d) ↔
      ∃ b ∈ bases, ∃ r, lookupInv w b d = some r ∧ x ∈ w.heap.get r := by
  obtain ⟨b0, hb0, hs0⟩ := hsome
  have href : ∀ d, ∀ b ∈ bases, ∀ r, lookupInv w b d = some r → r < w.heap.length :=
    fun d b _ r h => inv.lookup_lt b d r h
  obtain ⟨m1, e1, h1⟩ := collapse_step w w bases .all rfl (HPres.refl _) (href _) ⟨b0, hb0, hs0 _⟩
  have e1' : col1 w bases = ({ w with heap := (w.heap.alloc m1).1 }, some w.heap.length) := e1
  obtain ⟨m2, e2, h2⟩ := collapse_step w { w with heap := (w.heap.alloc m1).1 } bases .onCall rfl
    (HPres.alloc _ _) (href _) ⟨b0, hb0, hs0 _⟩
  have e2' : col2 w bases = ({ w with heap := ((w.heap.alloc m1).1.alloc m2).1 },
      some (w.heap.alloc m1).1.length) := by
    unfold col2
    rw [e1']
    exact e2
  obtain ⟨m3, e3, h3⟩ := collapse_step w { w with heap := ((w.heap.alloc m1).1.alloc m2).1 } bases .onSetattr rfl
    ((HPres.alloc _ _).trans (HPres.alloc _ _)) (href _) ⟨b0, hb0, hs0 _⟩
  have e3' : col3 w bases = ({ w with heap := (((w.heap.alloc m1).1.alloc m2).1.alloc m3).1 },
      some ((w.heap.alloc m1).1.alloc m2).1.length) := by
    unfold col3
    rw [e2']
    exact e3
  have l1 : (w.heap.alloc m1).1.length = w.heap.length + 1 := Heap.length_alloc _ _
  have l2 : ((w.heap.alloc m1).1.alloc m2).1.length = w.heap.length + 2 := by rw [Heap.length_alloc, l1]
  have l3 : (((w.heap.alloc m1).1.alloc m2).1.alloc m3).1.length = w.heap.length + 3 := by
    rw [Heap.length_alloc, l2]
  refine ⟨by rw [e1'], by rw [e2', l1], by rw [e3', l2], by rw [e3']; exact l3, ?_⟩
  intro d x
  rw [e3']
  simp only []
  cases d with
  | all =>
    simp only [refsAt]
    rw [Heap.get_alloc_lt _ _ _ (by rw [l2]; omega), Heap.get_alloc_lt _ _ _ (by rw [l1]; omega),
      Heap.get_alloc_self]
    exact h1 x
  | onCall =>
    simp only [refsAt]
    rw [Heap.get_alloc_lt _ _ _ (by rw [l2]; omega), ← l1, Heap.get_alloc_self]
    exact h2 x
  | onSetattr =>
    simp only [refsAt]
    rw [← l2, Heap.get_alloc_self]
    exact h3 x

/-! ### the class statement -/

def newCI (k : ClsId) (bases : List ClsId) (ns : List (String × Member)) (mro : List ClsId)
    (i1 i2 i3 : Option Ref) : Cls :=
  { id := k, bases := bases, ns := ns, inv := i1, invCall := i2, invSetattr := i3,
    dbc := true, mro := mro, declared := ns.map (·.1) }

theorem defineClass_unfold (w w' : World) (k : ClsId) (bases : List ClsId) (ns : List (String × Member))
    (h : defineClass w k bases ns true = .ok w') :
    ∃ w2 mro,
      ns.foldlM (fun w (p : String × Member) => decorateMember w bases p.1 p.2) (col3 w bases).1 = .ok w2 ∧
      computeMro w2 k bases = some mro ∧
      (w' = withCls w2 (newCI k bases ns mro (col1 w bases).2 (col2 w bases).2 (col3 w bases).2) ∨
       w' = addInvariantChecks
          (withCls w2 (newCI k bases ns mro (col1 w bases).2 (col2 w bases).2 (col3 w bases).2)) k) := by
  unfold defineClass at h
  simp only [Bool.not_true, Bool.false_eq_true, if_false, Bind.bind, Except.bind, if_true] at h
  split at h
  · cases h
  · next w2 h2 =>
    split at h
    · cases h
    · next mro hm =>
      refine ⟨w2, mro, h2, hm, ?_⟩
      have h' := (Except.ok.inj h).symm
      have key : ∀ (c : Prop) [Decidable c] (a b : World), w' = (if c then a else b) → w' = b ∨ w' = a := by
        intro c _ a b h
        split at h
        · exact Or.inr h
        · exact Or.inl h
      exact key _ _ _ h'

theorem IInv.defineClass {w w' : World} {n : Nat} {decl : Decl} (inv : IInv w n decl)
    (bases : List ClsId) (ns : List (String × Member)) (hb : ∀ b ∈ bases, 1 ≤ b ∧ b ≤ n)
    (hd : ∀ d, decl (n + 1) d = [])
    (h : defineClass w (n + 1) bases ns true = .ok w') : IInv w' (n + 1) decl := by
  obtain ⟨w2, mro, hpass, hmro, hw'⟩ := defineClass_unfold w w' (n + 1) bases ns h
  have fr := nsPass_frame bases ns _ _ hpass
  have frc := col3_frame w bases
  suffices hmain : IInv (withCls w2 (newCI (n + 1) bases ns mro (col1 w bases).2 (col2 w bases).2
      (col3 w bases).2)) (n + 1) decl by
    rcases hw' with rfl | rfl
    · exact hmain
    · exact hmain.same (addInvariantChecks_same _ _) (by rw [addInvariantChecks_heap]; exact HPres.refl _)
  have hcls2 : w2.classes = w.classes := fr.classes.trans frc.classes
  have hp2 : HPres w.heap w2.heap := frc.heap.trans fr.heap
  have e2 : ∀ j, w2.cls? j = w.cls? j := fun j => by simp only [World.cls?, hcls2]
  generalize hcn : newCI (n + 1) bases ns mro (col1 w bases).2 (col2 w bases).2 (col3 w bases).2 = cnew
  have hid : cnew.id = n + 1 := by rw [← hcn]; rfl
  have hcm : cnew.mro = mro := by rw [← hcn]; rfl
  have hold : ∀ j : Nat, j ≠ n + 1 → (withCls w2 cnew).cls? j = w.cls? j := by
    intro j hj
    rw [withCls_cls?, e2, hid]
    have : ¬ (n + 1 = j) := fun e => hj e.symm
    simp only [this, if_false, Option.or_none]
  have hnew : (withCls w2 cnew).cls? (n + 1) = some cnew := by
    rw [withCls_cls?, e2, hid, inv.clsNone (n + 1) (Or.inr (Nat.lt_succ_self n))]
    simp
  obtain ⟨⟨rest, hrest⟩, hbm, hbmro⟩ := computeMro_conv w2 (n + 1) bases mro hmro
  have hmem := computeMro_mem w2 (n + 1) bases mro hmro
  have hchar : ∀ a ∈ mro, a = n + 1 ∨ ∃ b ∈ bases, ∃ cb, w.cls? b = some cb ∧ IClsOk w decl b cb ∧ a ∈ cb.mro := by
    intro a ha
    rcases hmem a ha with rfl | hab | ⟨b, hbb, cb, hcb, hacb⟩
    · exact Or.inl rfl
    · obtain ⟨cb, hcb, ok⟩ := inv.clsSome a (hb a hab).1 (hb a hab).2
      exact Or.inr ⟨a, hab, cb, hcb, ok, ok.self_mem⟩
    · rw [e2] at hcb
      obtain ⟨cb', hcb', ok⟩ := inv.clsSome b (hb b hbb).1 (hb b hbb).2
      rw [hcb] at hcb'
      cases hcb'
      exact Or.inr ⟨b, hbb, cb, hcb, ok, hacb⟩
  have hbd : ∀ a ∈ mro, 1 ≤ a ∧ a ≤ n + 1 := by
    intro a ha
    rcases hchar a ha with rfl | ⟨b, hbb, cb, _, ok, hacb⟩
    · exact ⟨Nat.succ_le_succ (Nat.zero_le _), Nat.le_refl _⟩
    · exact ⟨(ok.mroBd a hacb).1, Nat.le_succ_of_le (Nat.le_trans (ok.mroBd a hacb).2 (hb b hbb).2)⟩
  have hsub : ∀ b ∈ bases, ∀ cb, w.cls? b = some cb → ∀ a ∈ cb.mro, a ∈ mro :=
    fun b hbb cb hcb a ha => hbmro b hbb cb (by rw [e2]; exact hcb) a ha
  rcases inv.bases_dichotomy bases hb with hnone | hsome
  · -- no base has lists: the class has none
    obtain ⟨c1, c2, c3⟩ := collapse3_none w bases hnone
    have href : ∀ d, cnew.invRef d = none := by
      intro d
      rw [← hcn]
      cases d <;> simp only [newCI, Cls.invRef, c1, c2, c3]
    refine inv.extend cnew hold hnew hp2 ⟨⟨rest, hcm.trans hrest⟩, by rw [hcm]; exact hbd, Or.inl ⟨?_, ?_⟩⟩ ?_ ?_
    · intro d
      rw [lookupInv_none_iff hnew d, hcm]
      intro a ha ca hca
      rcases hchar a ha with rfl | ⟨b, hbb, cb, hcb, ok, hacb⟩
      · rw [hnew] at hca
        cases hca
        exact href d
      · have hle : a ≤ n := Nat.le_trans (ok.mroBd a hacb).2 (hb b hbb).2
        rw [hold a (Nat.ne_of_lt (Nat.lt_succ_of_le hle))] at hca
        exact (lookupInv_none_iff hcb d).mp (hnone b hbb d) a hacb ca hca
    · rw [hcm]
      intro a ha d
      rcases hchar a ha with rfl | ⟨b, hbb, cb, hcb, ok, hacb⟩
      · exact hd d
      · rcases ok.st with ⟨_, he⟩ | ⟨r, g1, _, _⟩
        · exact he a hacb d
        · have := lookupInv_own w b cb hcb ok.head? d (r d) (g1 d)
          rw [hnone b hbb d] at this
          cases this
    · intro d r hr
      rw [href d] at hr; cases hr
    · intro d d' r hr
      rw [href d] at hr; cases hr
  · -- some base has lists: three fresh cells
    obtain ⟨c1, c2, c3, hlen, hcont⟩ := collapse3_some inv bases hsome
    have href : ∀ d, cnew.invRef d = some (refsAt w.heap.length d) := by
      intro d
      rw [← hcn]
      cases d <;> simp only [newCI, Cls.invRef, c1, c2, c3, refsAt]
    have hlt : ∀ d, refsAt w.heap.length d < (col3 w bases).1.heap.length := by
      intro d
      rw [hlen]
      exact (refsAt_bounds _ d).2
    refine inv.extend cnew hold hnew hp2 ⟨⟨rest, hcm.trans hrest⟩, by rw [hcm]; exact hbd,
      Or.inr ⟨refsAt w.heap.length, href, fun d => Nat.lt_of_lt_of_le (hlt d) fr.heap.2, ?_⟩⟩ ?_ ?_
    · intro d x
      show x ∈ w2.heap.get (refsAt w.heap.length d) ↔ _
      rw [fr.heap.1 _ (hlt d), hcont d x, hcm]
      constructor
      · rintro ⟨b, hbb, r, hl, hx⟩
        obtain ⟨cb, hcb, ok⟩ := inv.clsSome b (hb b hbb).1 (hb b hbb).2
        rcases ok.st with ⟨hn, _⟩ | ⟨rr, g1, _, g3⟩
        · rw [hn d] at hl; cases hl
        · rw [lookupInv_own w b cb hcb ok.head? d (rr d) (g1 d)] at hl
          cases hl
          obtain ⟨a, ha, hxa⟩ := (g3 d x).mp hx
          exact ⟨a, hsub b hbb cb hcb a ha, hxa⟩
      · rintro ⟨a, ha, hxa⟩
        rcases hchar a ha with rfl | ⟨b, hbb, cb, hcb, ok, hacb⟩
        · rw [hd d] at hxa; cases hxa
        · rcases ok.st with ⟨_, he⟩ | ⟨rr, g1, _, g3⟩
          · rw [he a hacb d] at hxa; cases hxa
          · exact ⟨b, hbb, rr d, lookupInv_own w b cb hcb ok.head? d (rr d) (g1 d),
              (g3 d x).mpr ⟨a, hacb, hxa⟩⟩
    · intro d r hr
      rw [href d] at hr
      cases hr
      exact (refsAt_bounds _ d).1
    · intro d d' r hr hr'
      rw [href d] at hr
      rw [href d'] at hr'
      cases hr
      exact refsAt_inj _ d d' (Option.some.inj hr').symm

/-! ### the `invariant` decorator on the newest class -/

theorem mem_cond (l : List Nat) (b : Bool) (c x : Nat) :
    x ∈ l ++ (if b then [c] else []) ↔ x ∈ l ∨ (x = c ∧ b = true) := by
  cases b <;> simp

theorem addInvariant_checkers (w : World) (k : ClsId) (c : CId) (on : CheckOn) :
    (addInvariant w k c on).checkers = w.checkers := by
  cases hc : w.cls? k with
  | none => simp only [addInvariant, hc]
  | some cls =>
    cases hl : lookupInv w k .all with
    | none => simp only [addInvariant, hc, hl, addInvariantChecks_checkers, setCls]
    | some r => simp only [addInvariant, hc, hl, addInvariantChecks_checkers]

def withRefs (cls : Cls) (L : Nat) : Cls :=
  { cls with inv := some L, invCall := some (L + 1), invSetattr := some (L + 2) }

theorem addInvariant_create_spec (w : World) (k : ClsId) (c : CId) (on : CheckOn) (cls : Cls)
    (hc : w.cls? k = some cls) (hnone : lookupInv w k .all = none) :
    ∃ wf, addInvariant w k c on = addInvariantChecks wf k ∧
      wf.classes = (setCls w (withRefs cls w.heap.length)).classes ∧
      wf.heap = Heap.app3 (((w.heap.alloc []).1.alloc []).1.alloc []).1 (refsAt w.heap.length) on c := by
  simp only [addInvariant, hc, hnone, Heap.alloc_snd, Heap.length_alloc]
  exact ⟨_, rfl, rfl, rfl⟩

theorem addInvariant_own_spec (w : World) (k : ClsId) (c : CId) (on : CheckOn) (cls : Cls)
    (hc : w.cls? k = some cls) (r : InvDunder → Nat) (hr : ∀ d, cls.invRef d = some (r d))
    (hmro : cls.mro.head? = some k) :
    ∃ wf, addInvariant w k c on = addInvariantChecks wf k ∧ wf.classes = w.classes ∧
      wf.heap = Heap.app3 w.heap r on c := by
  have l1 := lookupInv_own w k cls hc hmro .all _ (hr _)
  have l2 := lookupInv_own w k cls hc hmro .onCall _ (hr _)
  have l3 := lookupInv_own w k cls hc hmro .onSetattr _ (hr _)
  simp only [addInvariant, hc, l1, l2, l3, Option.getD_some]
  exact ⟨_, rfl, rfl, rfl⟩

/-- the newest class `n` is changed; everything the invariant says about the others is kept -/
theorem IInv.update {w wf : World} {n : Nat} {decl decl' : Decl} (inv : IInv w n decl) (hn : 1 ≤ n)
    (cls' : Cls) (hc' : wf.cls? n = some cls')
    (hold : ∀ j : Nat, j ≠ n → wf.cls? j = w.cls? j)
    (hlen : w.heap.length ≤ wf.heap.length)
    (hkeep : ∀ (j : Nat) cj d (r : Nat), j ≠ n → w.cls? j = some cj → cj.invRef d = some r →
      wf.heap.get r = w.heap.get r)
    (ok : IClsOk wf decl' n cls')
    (hdecl : ∀ a : Nat, 1 ≤ a → a ≠ n → decl' a = decl a)
    (hsep : ∀ (j : Nat) cj d d' (r : Nat), j ≠ n → w.cls? j = some cj → cj.invRef d = some r →
      cls'.invRef d' ≠ some r)
    (hinj : ∀ d d' (r : Nat), cls'.invRef d = some r → cls'.invRef d' = some r → d = d') :
    IInv wf n decl' := by
  refine ⟨fun i hi => ?_, fun k h1 h2 => ?_, ?_⟩
  · rw [hold i (by omega)]
    exact inv.clsNone i hi
  · by_cases hk : k = n
    · subst hk
      exact ⟨cls', hc', ok⟩
    · obtain ⟨c, hc, okc⟩ := inv.clsSome k h1 h2
      have e : ∀ x ∈ c.mro, decl' x = decl x := fun x hx => by
        have := okc.mroBd x hx
        exact hdecl x this.1 (by omega)
      refine ⟨c, by rw [hold k hk]; exact hc, okc.head, okc.mroBd, ?_⟩
      rcases okc.st with ⟨hn0, he⟩ | ⟨r, g1, g2, g3⟩
      · refine Or.inl ⟨fun d => ?_, fun x hx d => by rw [e x hx]; exact he x hx d⟩
        rw [lookupInv_agree k d (hold k hk)]
        · exact hn0 d
        · intro c0 hc0 a ha
          rw [hc] at hc0
          cases hc0
          have := okc.mroBd a ha
          exact hold a (by omega)
      · refine Or.inr ⟨r, g1, fun d => Nat.lt_of_lt_of_le (g2 d) hlen, fun d x => ?_⟩
        rw [hkeep k c d (r d) hk hc (g1 d), g3 d x]
        constructor
        · rintro ⟨y, hy, hxy⟩
          exact ⟨y, hy, by rw [e y hy]; exact hxy⟩
        · rintro ⟨y, hy, hxy⟩
          exact ⟨y, hy, by rw [← e y hy]; exact hxy⟩
  · intro k k' c c' d d' r hc hc1 hr hr'
    by_cases hk : k = n <;> by_cases hk' : k' = n
    · subst hk; subst hk'
      rw [hc'] at hc hc1
      cases hc; cases hc1
      exact ⟨rfl, hinj d d' r hr hr'⟩
    · subst hk
      rw [hc'] at hc
      cases hc
      rw [hold k' hk'] at hc1
      exact absurd hr (hsep k' c' d' d r hk' hc1 hr')
    · subst hk'
      rw [hc'] at hc1
      cases hc1
      rw [hold k hk] at hc
      exact absurd hr' (hsep k c d d' r hk hc hr)
    · rw [hold k hk] at hc
      rw [hold k' hk'] at hc1
      exact inv.sep k k' c c' d d' r hc hc1 hr hr'

theorem IInv.addInv {w : World} {n : Nat} {decl decl' : Decl} (inv : IInv w n decl) (hn : 1 ≤ n)
    (c : CId) (on : CheckOn)
    (hdecl : ∀ a : Nat, 1 ≤ a → a ≠ n → decl' a = decl a)
    (hnew : ∀ d x, x ∈ decl' n d ↔ x ∈ decl n d ∨ (x = c ∧ on.applies d = true)) :
    IInv (addInvariant w n c on) n decl' := by
  obtain ⟨cls, hc, ok⟩ := inv.clsSome n hn (Nat.le_refl _)
  have hmro_iff : ∀ d x, (∃ a ∈ cls.mro, x ∈ decl' a d) ↔
      (∃ a ∈ cls.mro, x ∈ decl a d) ∨ (x = c ∧ on.applies d = true) := by
    intro d x
    constructor
    · rintro ⟨a, ha, hx⟩
      by_cases han : a = n
      · subst han
        rcases (hnew d x).mp hx with h | h
        · exact Or.inl ⟨a, ha, h⟩
        · exact Or.inr h
      · rw [hdecl a (ok.mroBd a ha).1 han] at hx
        exact Or.inl ⟨a, ha, hx⟩
    · rintro (⟨a, ha, hx⟩ | h)
      · by_cases han : a = n
        · subst han
          exact ⟨a, ha, (hnew d x).mpr (Or.inl hx)⟩
        · exact ⟨a, ha, by rw [hdecl a (ok.mroBd a ha).1 han]; exact hx⟩
      · exact ⟨n, ok.self_mem, (hnew d x).mpr (Or.inr h)⟩
  rcases ok.st with ⟨hn0, he⟩ | ⟨r, g1, g2, g3⟩
  · -- the class has no lists yet: three fresh cells
    obtain ⟨wf, e, hcl, hh⟩ := addInvariant_create_spec w n c on cls hc (hn0 .all)
    rw [e]
    refine IInv.same (w := wf) ?_ (addInvariantChecks_same _ _)
      (by rw [addInvariantChecks_heap]; exact HPres.refl _)
    generalize hcls' : withRefs cls w.heap.length = cls' at hcl
    have hid : cls.id = n := cls?_id w n cls hc
    have hid' : cls'.id = n := by rw [← hcls']; exact hid
    have hm' : cls'.mro = cls.mro := by rw [← hcls']; rfl
    have href : ∀ d, cls'.invRef d = some (refsAt w.heap.length d) := by
      intro d
      rw [← hcls']
      cases d <;> rfl
    have ecls : ∀ j, wf.cls? j = (w.cls? j).map (fun x => if x.id == cls'.id then cls' else x) := by
      intro j
      rw [← setCls_cls?]
      simp only [World.cls?, hcl]
    have l3 : ((((w.heap.alloc []).1.alloc []).1.alloc []).1).length = w.heap.length + 3 := by
      simp only [Heap.length_alloc]
    have hlt3 : ∀ d, refsAt w.heap.length d < ((((w.heap.alloc []).1.alloc []).1.alloc []).1).length := by
      intro d
      rw [l3]
      exact (refsAt_bounds _ d).2
    have hget3 : ∀ d, ((((w.heap.alloc []).1.alloc []).1.alloc []).1).get (refsAt w.heap.length d) = [] := by
      intro d
      cases d with
      | all =>
        simp only [refsAt]
        rw [Heap.get_alloc_lt _ _ _ (by simp only [Heap.length_alloc]; omega),
          Heap.get_alloc_lt _ _ _ (by simp only [Heap.length_alloc]; omega), Heap.get_alloc_self]
      | onCall =>
        simp only [refsAt]
        rw [Heap.get_alloc_lt _ _ _ (by simp only [Heap.length_alloc]; omega),
          ← Heap.length_alloc w.heap [], Heap.get_alloc_self]
      | onSetattr =>
        simp only [refsAt]
        have : w.heap.length + 2 = ((w.heap.alloc []).1.alloc []).1.length := by
          simp only [Heap.length_alloc]
        rw [this, Heap.get_alloc_self]
    refine inv.update hn cls' ?_ ?_ ?_ ?_ ⟨?_, ?_, Or.inr ⟨refsAt w.heap.length, href, ?_, ?_⟩⟩ hdecl ?_ ?_
    · rw [ecls, hc, Option.map_some, hid, hid']
      simp
    · intro j hj
      rw [ecls]
      cases hcj : w.cls? j with
      | none => rfl
      | some cj =>
        have : ¬ (cj.id = cls'.id) := by
          rw [cls?_id w j cj hcj, hid']
          exact hj
        simp [this]
    · rw [hh, Heap.app3_length, l3]
      omega
    · intro j cj d r0 hj hcj hr0
      have hlt := inv.ref_lt j cj hcj d r0 hr0
      rw [hh, Heap.app3_other _ _ _ _ _ (fun d' => by have := (refsAt_bounds w.heap.length d').1; omega)]
      rw [Heap.get_alloc_lt _ _ _ (by simp only [Heap.length_alloc]; omega),
        Heap.get_alloc_lt _ _ _ (by simp only [Heap.length_alloc]; omega), Heap.get_alloc_lt _ _ _ hlt]
    · rw [hm']; exact ok.head
    · rw [hm']; exact ok.mroBd
    · intro d
      rw [hh, Heap.app3_length]
      exact hlt3 d
    · intro d x
      rw [hh, Heap.app3_self _ _ _ _ hlt3 (refsAt_inj _) d, hget3 d, mem_cond, hm', hmro_iff d x]
      constructor
      · rintro (h | h)
        · cases h
        · exact Or.inr h
      · rintro (⟨a, ha, hx⟩ | h)
        · rw [he a ha d] at hx; cases hx
        · exact Or.inr h
    · intro j cj d d' r0 hj hcj hr0 hr'
      have hlt := inv.ref_lt j cj hcj d r0 hr0
      rw [href d'] at hr'
      cases hr'
      have := (refsAt_bounds w.heap.length d').1
      omega
    · intro d d' r0 hr hr'
      rw [href d] at hr
      rw [href d'] at hr'
      cases hr
      exact refsAt_inj _ d d' (Option.some.inj hr').symm
  · -- the class owns its lists: append in place
    obtain ⟨wf, e, hcl, hh⟩ := addInvariant_own_spec w n c on cls hc r g1 ok.head?
    rw [e]
    refine IInv.same (w := wf) ?_ (addInvariantChecks_same _ _)
      (by rw [addInvariantChecks_heap]; exact HPres.refl _)
    have ecls : ∀ j, wf.cls? j = w.cls? j := fun j => by simp only [World.cls?, hcl]
    have hinjr : ∀ d d', r d = r d' → d = d' := by
      intro d d' hdd
      exact (inv.sep n n cls cls d d' (r d) hc hc (g1 d) (by rw [g1 d', hdd])).2
    have hne : ∀ (j : Nat) cj d (r0 : Nat), j ≠ n → w.cls? j = some cj → cj.invRef d = some r0 →
        ∀ d', r0 ≠ r d' := by
      intro j cj d r0 hj hcj hr0 d' hE
      exact hj (inv.sep j n cj cls d d' r0 hcj hc hr0 (by rw [g1 d', hE])).1
    refine inv.update hn cls (by rw [ecls]; exact hc) (fun j _ => ecls j) ?_ ?_
      ⟨ok.head, ok.mroBd, Or.inr ⟨r, g1, ?_, ?_⟩⟩ hdecl ?_ ?_
    · rw [hh, Heap.app3_length]
      exact Nat.le_refl _
    · intro j cj d r0 hj hcj hr0
      rw [hh, Heap.app3_other _ _ _ _ _ (hne j cj d r0 hj hcj hr0)]
    · intro d
      rw [hh, Heap.app3_length]
      exact g2 d
    · intro d x
      rw [hh, Heap.app3_self _ _ _ _ g2 hinjr d, mem_cond, g3 d x, hmro_iff d x]
    · intro j cj d d' r0 hj hcj hr0 hr'
      rw [g1 d'] at hr'
      exact hne j cj d r0 hj hcj hr0 d' (Option.some.inj hr').symm
    · intro d d' r0 hr hr'
      rw [g1 d] at hr
      rw [g1 d'] at hr'
      cases hr
      exact hinjr d d' (Option.some.inj hr').symm

/-! ### what a history declares -/

def declOf (ds : List ClassDefI) : Decl := fun a d => ownInvOn ds (a - 1) d

theorem ownInvOn_eq (ds : List ClassDefI) (j : Nat) (d : InvDunder) :
    ownInvOn ds j d = match ds[j]? with
      | none => []
      | some c => (c.invs.filter (fun p => p.2.applies d)).map (·.1) := by
  unfold ownInvOn
  cases ds[j]? with
  | none => rfl
  | some c => cases d <;> rfl

theorem ownInvOn_snoc_ne (done : List ClassDefI) (x : ClassDefI) (j : Nat) (hj : j ≠ done.length)
    (d : InvDunder) : ownInvOn (done ++ [x]) j d = ownInvOn done j d := by
  rw [ownInvOn_eq, ownInvOn_eq]
  by_cases hlt : j < done.length
  · rw [List.getElem?_append_left hlt]
  · have h1 : (done ++ [x])[j]? = none := by
      apply List.getElem?_eq_none
      simp only [List.length_append, List.length_cons, List.length_nil]
      omega
    have h2 : done[j]? = none := List.getElem?_eq_none (by omega)
    rw [h1, h2]

theorem ownInvOn_snoc_last (done : List ClassDefI) (x : ClassDefI) (d : InvDunder) :
    ownInvOn (done ++ [x]) done.length d = (x.invs.filter (fun p => p.2.applies d)).map (·.1) := by
  rw [ownInvOn_eq]
  simp

theorem declOf_snoc_ne (done : List ClassDefI) (x : ClassDefI) (a : Nat) (h1 : 1 ≤ a)
    (h2 : a ≠ done.length + 1) : declOf (done ++ [x]) a = declOf done a := by
  funext d
  exact ownInvOn_snoc_ne done x (a - 1) (by omega) d

theorem declOf_snoc_last (done : List ClassDefI) (x : ClassDefI) (d : InvDunder) :
    declOf (done ++ [x]) (done.length + 1) d = (x.invs.filter (fun p => p.2.applies d)).map (·.1) := by
  unfold declOf
  rw [Nat.add_sub_cancel]
  exact ownInvOn_snoc_last done x d

theorem allLevelsI_snoc (done : List ClassDefI) (d : ClassDefI) :
    allLevelsI (done ++ [d]) = allLevelsI done ++ d.members.map (·.2) := by
  simp [allLevelsI, List.flatMap_append]

theorem allLevelsI_append (a b : List ClassDefI) : allLevelsI (a ++ b) = allLevelsI a ++ allLevelsI b := by
  simp [allLevelsI, List.flatMap_append]

theorem allLevelsI_cons (d : ClassDefI) (rest : List ClassDefI) :
    allLevelsI (d :: rest) = d.members.map (·.2) ++ allLevelsI rest := by
  simp [allLevelsI, List.flatMap_cons]

/-! ### the invariant of a history -/

structure HInv (done : List ClassDefI) (w : World) : Prop where
  inv : IInv w done.length (declOf done)
  ckNone : ∀ f, f ∉ (allLevelsI done).map (·.f) → w.checker? f = none

theorem HInv.empty : HInv [] {} := by
  refine ⟨⟨fun i _ => rfl, fun k h1 h2 => ?_, ?_⟩, fun f _ => rfl⟩
  · simp only [List.length_nil] at h2
    omega
  · intro k k' c c' d d' r hc
    cases hc

theorem addInv_fold (done : List ClassDefI) (b : List ClsId) (m : List (String × ChainLevel)) :
    ∀ (rest pre : List (CId × CheckOn)) (w : World),
    IInv w (done.length + 1) (declOf (done ++ [⟨b, m, pre⟩])) →
    IInv (rest.foldl (fun w p => addInvariant w (done.length + 1) p.1 p.2) w) (done.length + 1)
      (declOf (done ++ [⟨b, m, pre ++ rest⟩])) := by
  intro rest
  induction rest with
  | nil => intro pre w h; simpa using h
  | cons p rest ih =>
    intro pre w h
    rw [List.foldl_cons]
    have e : pre ++ p :: rest = (pre ++ [p]) ++ rest := by simp
    rw [e]
    apply ih
    apply h.addInv (Nat.succ_le_succ (Nat.zero_le _)) p.1 p.2
    · intro a h1 h2
      rw [declOf_snoc_ne done _ a h1 h2, declOf_snoc_ne done _ a h1 h2]
    · intro d x
      rw [declOf_snoc_last, declOf_snoc_last]
      simp only [List.filter_append, List.map_append, List.mem_append]
      cases hp : p.2.applies d <;> simp [hp]

theorem foldl_addInvariant_checkers (k : ClsId) : ∀ (l : List (CId × CheckOn)) (w : World),
    (l.foldl (fun w p => addInvariant w k p.1 p.2) w).checkers = w.checkers := by
  intro l
  induction l with
  | nil => intro w; rfl
  | cons p l ih =>
    intro w
    rw [List.foldl_cons, ih, addInvariant_checkers]

theorem hist_step (done : List ClassDefI) (d : ClassDefI) (w w1 : World) (inv : HInv done w)
    (hfresh : ∀ p ∈ d.members, p.2.f ∉ (allLevelsI done).map (·.f))
    (hnd : (d.members.map (·.2.f)).Nodup)
    (hb : ∀ b ∈ d.bases, 1 ≤ b ∧ b ≤ done.length)
    (h : defineClass (declareAll w d.members) (done.length + 1) d.bases
          (d.members.map (fun p => (p.1, Member.func p.2.f))) true = .ok w1) :
    HInv (done ++ [d]) (d.invs.foldl (fun w p => addInvariant w (done.length + 1) p.1 p.2) w1) := by
  obtain ⟨fr01, _⟩ := declareAll_spec d.members w hnd (fun p hp => inv.ckNone _ (hfresh p hp))
  have inv0 : IInv (declareAll w d.members) done.length (declOf done) :=
    inv.inv.same (ClsSame.of_classes fr01.classes) fr01.heap
  have inv0' : IInv (declareAll w d.members) done.length (declOf (done ++ [⟨d.bases, d.members, []⟩])) :=
    inv0.congr (fun x h1 h2 => declOf_snoc_ne done _ x h1 (by omega))
  have inv1 := inv0'.defineClass d.bases _ hb (fun dd => by rw [declOf_snoc_last]; rfl) h
  have inv2 := addInv_fold done d.bases d.members d.invs [] w1 inv1
  have hlen : (done ++ [d]).length = done.length + 1 := by simp
  refine ⟨?_, ?_⟩
  · rw [hlen]
    simpa using inv2
  · intro f hf
    rw [allLevelsI_snoc, List.map_append, List.mem_append, not_or, List.map_map] at hf
    have hsum := (defineClass_summary _ _ _ _ _ true true h).2.1 f (by
      rintro ⟨p, hp, which, hw⟩
      obtain ⟨q, hq, rfl⟩ := List.mem_map.mp hp
      simp only [memberFnId, Option.some.injEq] at hw
      exact hf.2 (List.mem_map.mpr ⟨q, hq, hw⟩))
    have h0 := fr01.checkers f (fun hm => hf.2 hm)
    simp only [World.checker?, foldl_addInvariant_checkers] at hsum h0 ⊢
    rw [hsum, h0]
    exact inv.ckNone f hf.1

theorem getElem_midI (done : List ClassDefI) (d : ClassDefI) (rest : List ClassDefI)
    (hi : done.length < (done ++ d :: rest).length) : (done ++ d :: rest)[done.length] = d := by
  simp

theorem buildHistI_inv : ∀ (rest done : List ClassDefI) (w w' : World),
    HInv done w → HistWfI (done ++ rest) →
    buildHistI w (done.length + 1) rest = .ok w' → HInv (done ++ rest) w' := by
  intro rest
  induction rest with
  | nil =>
    intro done w w' inv _ h
    simp only [buildHistI] at h
    cases h
    rw [List.append_nil]
    exact inv
  | cons d rest ih =>
    intro done w w' inv hwf h
    have e : (done ++ [d]) ++ rest = done ++ d :: rest := by simp
    have hi : done.length < (done ++ d :: rest).length := by simp
    obtain ⟨_, _, _, hb⟩ := hwf.2.2 done.length hi
    rw [getElem_midI] at hb
    have hnd := hwf.1
    rw [allLevelsI_append, allLevelsI_cons, List.map_append, List.map_append, List.nodup_append] at hnd
    obtain ⟨_, hnd2, hdisj⟩ := hnd
    rw [List.nodup_append] at hnd2
    rw [List.map_map] at hnd2
    simp only [buildHistI] at h
    split at h
    · cases h
    · next w1 h1 =>
      have hfresh : ∀ p ∈ d.members, p.2.f ∉ (allLevelsI done).map (·.f) := by
        intro p hp hmem
        refine hdisj _ hmem p.2.f ?_ rfl
        exact List.mem_append_left _ (List.mem_map.mpr ⟨p.2, List.mem_map.mpr ⟨p, hp, rfl⟩, rfl⟩)
      have inv1 := hist_step done d w w1 inv hfresh hnd2.1 hb h1
      have hlen : (done ++ [d]).length = done.length + 1 := by simp
      have := ih (done ++ [d]) _ w' inv1 (e ▸ hwf) (by rw [hlen]; exact h)
      rw [e] at this
      exact this

/-! ### observation -/

theorem buildHistI_observe (ds : List ClassDefI) (hwf : HistWfI ds) (w : World)
    (h : buildHistI {} 1 ds = .ok w) :
    ∀ i (_ : i < ds.length) (d : InvDunder) (c : CId),
      c ∈ invOf w (i + 1) d ↔ ∃ a ∈ mroOf w (i + 1), c ∈ ownInvOn ds (a - 1) d := by
  have inv : IInv w ds.length (declOf ds) := by
    have := (buildHistI_inv ds [] {} w HInv.empty hwf h).inv
    rw [List.nil_append] at this
    exact this
  intro i hi d c
  obtain ⟨cls, hc, ok⟩ := inv.clsSome (i + 1) (Nat.succ_le_succ (Nat.zero_le _)) (Nat.succ_le_of_lt hi)
  have hm : mroOf w (i + 1) = cls.mro := by simp only [mroOf, hc, Option.map_some, Option.getD_some]
  rw [hm]
  rcases ok.st with ⟨hn, he⟩ | ⟨r, g1, _, g3⟩
  · simp only [invOf, hn d]
    constructor
    · intro hx; cases hx
    · rintro ⟨a, ha, hx⟩
      have := he a ha d
      unfold declOf at this
      rw [this] at hx
      cases hx
  · simp only [invOf, lookupInv_own w (i + 1) cls hc ok.head? d (r d) (g1 d)]
    exact g3 d c

theorem buildHistI_mro_bounds (ds : List ClassDefI) (hwf : HistWfI ds) (w : World)
    (h : buildHistI {} 1 ds = .ok w) (i : Nat) (hi : i < ds.length) :
    ∀ a : Nat, a ∈ mroOf w (i + 1) → 1 ≤ a ∧ a ≤ i + 1 := by
  have inv : IInv w ds.length (declOf ds) := by
    have := (buildHistI_inv ds [] {} w HInv.empty hwf h).inv
    rw [List.nil_append] at this
    exact this
  obtain ⟨cls, hc, ok⟩ := inv.clsSome (i + 1) (Nat.succ_le_succ (Nat.zero_le _)) (Nat.succ_le_of_lt hi)
  have hm : mroOf w (i + 1) = cls.mro := by simp only [mroOf, hc, Option.map_some, Option.getD_some]
  rw [hm]
  exact ok.mroBd

/-! ### invariant ids are used once -/

theorem flatMap_nodup_idx {α β : Type} (f : α → List β) : ∀ (l : List α), (l.flatMap f).Nodup →
    ∀ (i j : Nat) (hi : i < l.length) (hj : j < l.length) (x : β), x ∈ f l[i] → x ∈ f l[j] → i = j := by
  intro l
  induction l with
  | nil => intro _ i j hi; cases hi
  | cons a t ih =>
    intro hnd i j hi hj x hxi hxj
    rw [List.flatMap_cons, List.nodup_append] at hnd
    obtain ⟨_, h2, hdisj⟩ := hnd
    cases i with
    | zero =>
      cases j with
      | zero => rfl
      | succ j =>
        simp only [List.getElem_cons_zero] at hxi
        simp only [List.getElem_cons_succ] at hxj
        exact absurd rfl (hdisj x hxi x (List.mem_flatMap.mpr ⟨_, List.getElem_mem _, hxj⟩))
    | succ i =>
      cases j with
      | zero =>
        simp only [List.getElem_cons_zero] at hxj
        simp only [List.getElem_cons_succ] at hxi
        exact absurd rfl (hdisj x hxj x (List.mem_flatMap.mpr ⟨_, List.getElem_mem _, hxi⟩))
      | succ j =>
        simp only [List.getElem_cons_succ] at hxi hxj
        exact congrArg Nat.succ (ih h2 i j (Nat.lt_of_succ_lt_succ hi) (Nat.lt_of_succ_lt_succ hj) x hxi hxj)

theorem ownInvOn_mem (ds : List ClassDefI) (j : Nat) (d : InvDunder) (c : CId) (h : c ∈ ownInvOn ds j d) :
    ∃ hj : j < ds.length, c ∈ (ds[j]).invs.map (·.1) := by
  rw [ownInvOn_eq] at h
  by_cases hj : j < ds.length
  · refine ⟨hj, ?_⟩
    rw [List.getElem?_eq_getElem hj] at h
    simp only [] at h
    obtain ⟨p, hp, rfl⟩ := List.mem_map.mp h
    exact List.mem_map.mpr ⟨p, (List.mem_filter.mp hp).1, rfl⟩
  · rw [List.getElem?_eq_none (by omega)] at h
    cases h

theorem ownInvOn_idx (ds : List ClassDefI) (hwf : HistWfI ds) (j j' : Nat) (d d' : InvDunder) (c : CId)
    (h : c ∈ ownInvOn ds j d) (h' : c ∈ ownInvOn ds j' d') : j = j' := by
  obtain ⟨hj, hm⟩ := ownInvOn_mem ds j d c h
  obtain ⟨hj', hm'⟩ := ownInvOn_mem ds j' d' c h'
  exact flatMap_nodup_idx (fun x : ClassDefI => x.invs.map (·.1)) ds hwf.2.1 j j' hj hj' c hm hm'

end Icontract.Meta
