/-
  C10 helper lemmas: the set discipline of the repaired wrappers simulates the frame semantics.
-/
import IcontractModel.Lemmas.ReentrySpec
namespace Icontract.Re

/-- the in-progress set and the frame stack describe the same suspensions (the `Sim` of the
property file) -/
def Sim' (s : List Key) (stack : List Frame) : Prop :=
  (∀ f, s.contains (.fn f) = (SSt.fnSuspended ⟨stack, []⟩ f)) ∧
  (∀ i, s.contains (.inst i) = (SSt.instSuspended ⟨stack, []⟩ i))

theorem Sim'.congr {s s' : List Key} {stack : List Frame} (h : Sim' s stack) (hs : SameMem s' s) :
    Sim' s' stack :=
  ⟨fun f => (hs _).trans (h.1 f), fun i => (hs _).trans (h.2 i)⟩

theorem fnSuspended_cons (fr : Frame) (stack : List Frame) (f : FnId) :
    SSt.fnSuspended ⟨fr :: stack, []⟩ f =
      ((fr.key == .fn f && fr.phase == .fnContract) || SSt.fnSuspended ⟨stack, []⟩ f) := rfl

theorem instSuspended_cons (fr : Frame) (stack : List Frame) (i : InstId) :
    SSt.instSuspended ⟨fr :: stack, []⟩ i =
      ((fr.key == .inst i && (fr.phase == .ctor || fr.phase == .method || fr.phase == .invEval))
        || SSt.instSuspended ⟨stack, []⟩ i) := rfl

theorem key_beq_of_ne {k k' : Key} (h : k ≠ k') : (k == k') = false := by simp [h]
theorem key_beq_self (k : Key) : (k == k) = true := by simp

theorem Sim'.fnContract {a : St} {stack : List Frame} (h : Sim' a.s stack) (f : FnId) :
    Sim' (a.add (.fn f)).s (⟨.fn f, .fnContract⟩ :: stack) := by
  constructor
  · intro g
    rw [contains_add, fnSuspended_cons, h.1 g]
    by_cases hg : g = f
    · subst hg; rw [key_beq_self]; rfl
    · rw [key_beq_of_ne (fun e => hg (Key.fn.inj e)), key_beq_of_ne (fun e => hg (Key.fn.inj e).symm)]
      rfl
  · intro i
    rw [contains_add, instSuspended_cons, h.2 i,
      key_beq_of_ne (fun e => Key.noConfusion e), key_beq_of_ne (fun e => Key.noConfusion e)]
    rfl

theorem Sim'.fnBody {s : List Key} {stack : List Frame} (h : Sim' s stack) (f : FnId) :
    Sim' s (⟨.fn f, .fnBody⟩ :: stack) := by
  constructor
  · intro g
    rw [fnSuspended_cons, h.1 g]
    show _ = ((Key.fn f == Key.fn g && false) || _)
    rw [Bool.and_false, Bool.false_or]
  · intro i
    rw [instSuspended_cons, h.2 i, key_beq_of_ne (fun e => Key.noConfusion e)]
    rfl

theorem Sim'.inst {a : St} {stack : List Frame} (h : Sim' a.s stack) (i : InstId) (ph : Phase)
    (hph : (ph == .ctor || ph == .method || ph == .invEval) = true) :
    Sim' (a.add (.inst i)).s (⟨.inst i, ph⟩ :: stack) := by
  constructor
  · intro g
    rw [contains_add, fnSuspended_cons, h.1 g,
      key_beq_of_ne (fun e => Key.noConfusion e), key_beq_of_ne (fun e => Key.noConfusion e)]
    rfl
  · intro j
    rw [contains_add, instSuspended_cons, h.2 j]
    show _ = ((Key.inst i == Key.inst j && (ph == .ctor || ph == .method || ph == .invEval)) || _)
    rw [hph]
    by_cases hg : j = i
    · subst hg; rw [key_beq_self]; rfl
    · rw [key_beq_of_ne (fun e => hg (Key.inst.inj e)), key_beq_of_ne (fun e => hg (Key.inst.inj e).symm)]
      rfl

/-- same outcome and same trace -/
def Obs (r : St × Out) (r' : SSt × Out) : Prop := r.2 = r'.2 ∧ r.1.tr = r'.1.tr

theorem andThen_obs {r : St × Out} {r' : SSt × Out} {k : St → St × Out} {k' : SSt → SSt × Out}
    (Q : St → SSt → Prop) (h : Obs r r') (hq : Q r.1 r'.1)
    (hk : ∀ s s', s.tr = s'.tr → Q s s' → Obs (k s) (k' s')) :
    Obs (andThen r k) (andThen r' k') := by
  by_cases hok : r.2 = .ok
  · have hok' : r'.2 = .ok := h.1 ▸ hok
    rw [andThen_ok k hok, andThen_ok k' hok']
    exact hk _ _ h.2 hq
  · have hok' : r'.2 ≠ .ok := h.1 ▸ hok
    rw [andThen_ne k hok, andThen_ne k' hok']
    exact h

theorem obs_fin {x : Key} {r : St × Out} {r' : SSt × Out} (h : Obs r r') : Obs (fin x r) r' := h

theorem cls_wrapped {p : Program} (hw : p.allCtorsWrapped = true) {cid : ClsId} {c : ClsDecl}
    (h : p.cls? cid = some c) : c.initWrapped = true := by
  unfold Program.allCtorsWrapped at hw
  rw [List.all_eq_true] at hw
  exact hw c (List.mem_of_getElem? h)

theorem run_sim (p : Program) (hw : p.allCtorsWrapped = true) :
    ∀ (n : Nat) (a : St) (b : SSt) (cmd : Cmd), a.tr = b.tr → Sim' a.s b.stack →
      Obs (run p .repaired n a cmd) (runSpec p n b cmd) := by
  intro n
  induction n with
  | zero => intro a b cmd ht _; rw [run_zero, runSpec_zero]; exact ⟨rfl, ht⟩
  | succ n ih =>
    intro a b cmd ht hs
    -- a framed evaluation of the reference semantics against the plain evaluation of the model
    have key : ∀ (a : St) (b : SSt) (cmd : Cmd) (k : Key) (ph : Phase), a.tr = b.tr →
        Sim' a.s (⟨k, ph⟩ :: b.stack) →
        Obs (run p .repaired n a cmd) (framed k ph b (fun st => runSpec p n st cmd)) :=
      fun a b cmd k ph ht hs => ih a (b.push k ph) cmd ht hs
    have keye : ∀ (a : St) (b : SSt) (e : Ev) (cmd : Cmd) (k : Key) (ph : Phase), a.tr = b.tr →
        Sim' a.s (⟨k, ph⟩ :: b.stack) →
        Obs (run p .repaired n (a.emit e) cmd)
          (framed k ph b (fun st => runSpec p n (st.emit e) cmd)) :=
      fun a b e cmd k ph ht hs => ih (a.emit e) ((b.push k ph).emit e) cmd
        (by rw [emit_tr, SSt.emit_tr, SSt.push_tr, ht]) hs
    have hfr : ∀ (k : Key) (ph : Phase) (st0 : SSt) (cmd : Cmd),
        (framed k ph st0 (fun st => runSpec p n st cmd)).1.stack = st0.stack :=
      fun k ph st0 cmd => framed_stack (fun _ => runSpec_stack _ _ _ _)
    have hfre : ∀ (k : Key) (ph : Phase) (st0 : SSt) (e : Ev) (cmd : Cmd),
        (framed k ph st0 (fun st => runSpec p n (st.emit e) cmd)).1.stack = st0.stack :=
      fun k ph st0 e cmd => framed_stack (fun _ => runSpec_stack _ _ _ _)
    have hcond : ∀ (e : Ev) (c : Script) (t : Bool) (cmd' : Cmd) (o : Out),
        Obs (andThen (run p .repaired n (a.emit e) (.script c))
              (fun st' => if t then run p .repaired n st' cmd' else (st', o)))
            (andThen (runSpec p n (b.emit e) (.script c))
              (fun st' => if t then runSpec p n st' cmd' else (st', o))) := by
      intro e c t cmd' o
      apply andThen_obs (fun s s' => SameMem s.s a.s ∧ s'.stack = b.stack)
      · exact ih _ _ _ (by rw [emit_tr, SSt.emit_tr, ht]) hs
      · exact ⟨run_sameMem _ _ _ _, runSpec_stack _ _ _ _⟩
      · intro s s' hst ⟨hm, hk⟩
        cases t with
        | true => exact ih _ _ _ hst (hk ▸ hs.congr hm)
        | false => exact ⟨rfl, hst⟩
    cases cmd with
    | script s => rw [run_script, runSpec_script]; exact ih _ _ _ ht hs
    | acts as =>
      cases as with
      | nil => rw [run_acts_nil, runSpec_acts_nil]; exact ⟨rfl, ht⟩
      | cons act rest =>
        rw [run_acts_cons, runSpec_acts_cons]
        apply andThen_obs (fun s s' => SameMem s.s a.s ∧ s'.stack = b.stack) (ih _ _ _ ht hs)
          ⟨run_sameMem _ _ _ _, runSpec_stack _ _ _ _⟩
        intro s s' hst ⟨hm, hk⟩
        exact ih _ _ _ hst (hk ▸ hs.congr hm)
    | pres f k cs =>
      cases cs with
      | nil => rw [run_pres_nil, runSpec_pres_nil]; exact ⟨rfl, ht⟩
      | cons c cs => rw [run_pres_cons, runSpec_pres_cons]; exact hcond _ _ _ _ _
    | posts f k cs =>
      cases cs with
      | nil => rw [run_posts_nil, runSpec_posts_nil]; exact ⟨rfl, ht⟩
      | cons c cs => rw [run_posts_cons, runSpec_posts_cons]; exact hcond _ _ _ _ _
    | invs f k cs =>
      cases cs with
      | nil => rw [run_invs_nil, runSpec_invs_nil]; exact ⟨rfl, ht⟩
      | cons c cs => rw [run_invs_cons, runSpec_invs_cons]; exact hcond _ _ _ _ _
    | act act =>
      cases act with
      | callFn f =>
        cases h : p.fn? f with
        | none =>
          rw [run_callFn_none _ _ _ _ _ h, runSpec_callFn_none _ _ _ _ h]; exact ⟨rfl, ht⟩
        | some d =>
          have hsf : a.s.contains (.fn f) = b.fnSuspended f := hs.1 f
          cases hc : a.s.contains (.fn f) with
          | true =>
            rw [run_callFn_bare _ _ _ _ _ _ h hc, runSpec_callFn_bare _ _ _ _ _ h (hsf ▸ hc)]
            exact keye _ _ _ _ _ _ ht (hs.fnBody f)
          | false =>
            rw [run_callFn_checked _ _ _ _ _ _ h hc, runSpec_callFn_checked _ _ _ _ _ h (hsf ▸ hc)]
            apply obs_fin
            apply andThen_obs (fun s s' => SameMem s.s (a.add (.fn f)).s ∧ s'.stack = b.stack)
              (key _ _ _ _ _ (by rw [add_tr, ht]) (hs.fnContract f))
              ⟨run_sameMem _ _ _ _, hfr _ _ _ _⟩
            intro s1 s1' ht1 ⟨hm1, hk1⟩
            have hm1' : SameMem (s1.discard (.fn f)).s a.s :=
              (hm1.discard _).trans (discard_add a _ hc)
            apply andThen_obs (fun s s' => SameMem s.s a.s ∧ s'.stack = b.stack)
            · simp only [Variant.repaired, Bool.false_eq_true, if_false]
              exact keye _ _ _ _ _ _ (by rw [discard_tr, ht1]) (hk1 ▸ (hs.congr hm1').fnBody f)
            · simp only [Variant.repaired, Bool.false_eq_true, if_false]
              exact ⟨(run_sameMem _ _ _ _).trans hm1', (hfre _ _ _ _ _).trans hk1⟩
            · intro s2 s2' ht2 ⟨hm2, hk2⟩
              simp only [Variant.repaired, Bool.false_eq_true, if_false]
              exact key _ _ _ _ _ (by rw [add_tr, ht2]) (hk2 ▸ (hs.congr hm2).fnContract f)
      | callMethod i m =>
        rcases p.meth?_cases i m with h | ⟨c, md, h⟩
        · rw [run_callMethod_none _ _ _ _ _ _ h, runSpec_callMethod_none _ _ _ _ _ h]
          exact ⟨rfl, ht⟩
        · have hsi : a.s.contains (.inst i) = b.instSuspended i := hs.2 i
          cases hc : (!md.guarded || a.s.contains (.inst i)) with
          | true =>
            rw [run_callMethod_bare _ _ _ _ _ _ _ _ h hc,
              runSpec_callMethod_bare _ _ _ _ _ _ _ h (hsi ▸ hc)]
            exact ih _ _ _ (by rw [emit_tr, SSt.emit_tr, ht]) hs
          | false =>
            rw [run_callMethod_checked _ _ _ _ _ _ _ _ h hc,
              runSpec_callMethod_checked _ _ _ _ _ _ _ h (hsi ▸ hc)]
            apply obs_fin
            apply andThen_obs (fun s s' => SameMem s.s (a.add (.inst i)).s ∧ s'.stack = b.stack)
              (key _ _ _ _ _ (by rw [add_tr, ht]) (hs.inst i _ rfl))
              ⟨run_sameMem _ _ _ _, hfr _ _ _ _⟩
            intro s1 s1' ht1 ⟨hm1, hk1⟩
            apply andThen_obs (fun s s' => SameMem s.s (a.add (.inst i)).s ∧ s'.stack = b.stack)
              (keye _ _ _ _ _ _ ht1 (hk1 ▸ (hs.inst i _ rfl).congr hm1))
              ⟨(run_sameMem _ _ _ _).trans hm1, (hfre _ _ _ _ _).trans hk1⟩
            intro s2 s2' ht2 ⟨hm2, hk2⟩
            exact key _ _ _ _ _ ht2 (hk2 ▸ (hs.inst i _ rfl).congr hm2)
      | construct i => rw [run_construct, runSpec_construct]; exact ih _ _ _ ht hs
      | superInit i cid =>
        cases h : p.cls? cid with
        | none =>
          rw [run_superInit_none _ _ _ _ _ _ h, runSpec_superInit_none _ _ _ _ _ h]
          exact ⟨rfl, ht⟩
        | some c =>
          have hsi : a.s.contains (.inst i) = b.instSuspended i := hs.2 i
          have hinit := cls_wrapped hw h
          cases hc : a.s.contains (.inst i) with
          | true =>
            have hc' : (!c.initWrapped || (Variant.repaired.ctorTestsMembership &&
                a.s.contains (.inst i))) = true := by rw [hc, hinit]; rfl
            rw [run_superInit_bare _ _ _ _ _ _ _ h hc',
              runSpec_superInit_bare _ _ _ _ _ _ h (hsi ▸ hc)]
            exact ih _ _ _ (by rw [emit_tr, SSt.emit_tr, ht]) hs
          | false =>
            have hc' : (!c.initWrapped || (Variant.repaired.ctorTestsMembership &&
                a.s.contains (.inst i))) = false := by rw [hc, hinit]; rfl
            rw [run_superInit_checked _ _ _ _ _ _ _ h hc',
              runSpec_superInit_checked _ _ _ _ _ _ h (hsi ▸ hc)]
            apply obs_fin
            apply andThen_obs (fun s s' => SameMem s.s (a.add (.inst i)).s ∧ s'.stack = b.stack)
              (keye _ _ _ _ _ _ (by rw [add_tr, ht]) (hs.inst i _ rfl))
              ⟨run_sameMem _ _ _ _, hfre _ _ _ _ _⟩
            intro s1 s1' ht1 ⟨hm1, hk1⟩
            exact key _ _ _ _ _ ht1 (hk1 ▸ (hs.inst i _ rfl).congr hm1)

end Icontract.Re
