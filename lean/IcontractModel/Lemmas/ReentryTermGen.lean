/-
  C10 helper lemmas: termination in general - contracts add no divergence.

  * `Program.rk r a`: the chain "body of `a` calls `b` whose body calls ..." is shorter than `r`
    (a rank that does not mention `run`);
  * `rk_of_nt`: in a program without contracts an action that finishes within depth `k` has rank `k`;
  * `terminate_of_rk`: when every action has rank `n`, every evaluation of the contracted program
    finishes within a depth that depends on the program only (lexicographic induction: number of keys
    of a finite universe not yet in progress, rank);
  * `bare_of_rk`: the converse of `rk_of_nt` for the stripped program.
-/
import IcontractModel.Lemmas.ReentryTerm
import IcontractModel.Spec.Bare
namespace Icontract.Re

/-! ### the key an action may add, the body it runs, the rank -/

/-- the key that the wrapper reached by the action tests / adds -/
def Action.key : Action → Key
  | .callFn f => .fn f
  | .callMethod i _ => .inst i
  | .construct i => .inst i
  | .superInit i _ => .inst i

/-- the actions of the body that an action runs (for a constructor call: the `__init__` it delegates to) -/
def Program.bodyOf (p : Program) : Action → List Action
  | .callFn f => match p.fn? f with
    | none => []
    | some d => d.body.actions
  | .callMethod i m => match p.meth? i m with
    | none => []
    | some x => x.2.body.actions
  | .construct i => [.superInit i (p.clsOf i)]
  | .superInit _ cid => match p.cls? cid with
    | none => []
    | some c => c.init.actions

/-- every chain of bodies calling actions that starts at the action is shorter than `r` -/
def Program.rk (p : Program) : Nat → Action → Prop
  | 0, _ => False
  | r + 1, a => ∀ b ∈ p.bodyOf a, p.rk r b

theorem rk_mono {p : Program} : ∀ {r : Nat} {a : Action}, p.rk r a → p.rk (r + 1) a := by
  intro r
  induction r with
  | zero => intro a h; exact h.elim
  | succ r ih => intro a h b hb; exact ih (h b hb)

theorem rk_mono_le {p : Program} {r r' : Nat} {a : Action} (h : p.rk r a) (hr : r ≤ r') : p.rk r' a := by
  induction hr with
  | refl => exact h
  | step _ ih => exact rk_mono ih

theorem bodyOf_callFn_none {p : Program} {f : FnId} (h : p.fn? f = none) : p.bodyOf (.callFn f) = [] := by
  simp only [Program.bodyOf, h]

theorem bodyOf_callFn {p : Program} {f : FnId} {d : FnDecl} (h : p.fn? f = some d) :
    p.bodyOf (.callFn f) = d.body.actions := by
  simp only [Program.bodyOf, h]

theorem bodyOf_callMethod_none {p : Program} {i m} (h : p.meth? i m = none) :
    p.bodyOf (.callMethod i m) = [] := by
  simp only [Program.bodyOf, h]

theorem bodyOf_callMethod {p : Program} {i m c md} (h : p.meth? i m = some (c, md)) :
    p.bodyOf (.callMethod i m) = md.body.actions := by
  simp only [Program.bodyOf, h]

theorem bodyOf_superInit_none {p : Program} {i cid} (h : p.cls? cid = none) :
    p.bodyOf (.superInit i cid) = [] := by
  simp only [Program.bodyOf, h]

theorem bodyOf_superInit {p : Program} {i cid c} (h : p.cls? cid = some c) :
    p.bodyOf (.superInit i cid) = c.init.actions := by
  simp only [Program.bodyOf, h]

theorem cls?_mem {p : Program} {cid : ClsId} {c : ClsDecl} (h : p.cls? cid = some c) : c ∈ p.classes :=
  List.mem_of_getElem? h

theorem meth?_mem {p : Program} {i m c md} (h : p.meth? i m = some (c, md)) :
    c ∈ p.classes ∧ md ∈ c.meths := by
  unfold Program.meth? at h
  cases hc : p.cls? (p.clsOf i) with
  | none => rw [hc] at h; cases h
  | some c' =>
    rw [hc] at h
    cases hm : c'.meths[m]? with
    | none => simp [hm] at h
    | some md' =>
      simp [hm] at h
      obtain ⟨rfl, rfl⟩ := h
      exact ⟨cls?_mem hc, List.mem_of_getElem? hm⟩

/-! ### the scripts of a program, the keys they can add, their sizes -/

def FnDecl.scripts (d : FnDecl) : List Script := d.pre ++ d.post ++ [d.body]
def ClsDecl.scripts (c : ClsDecl) : List Script := c.invs ++ [c.init] ++ c.meths.map (·.body)
def Program.scripts (p : Program) : List Script :=
  p.fns.flatMap FnDecl.scripts ++ p.classes.flatMap ClsDecl.scripts
/-- the key of every action that occurs in the program -/
def Program.keys (p : Program) : List Key := (p.scripts.flatMap (·.actions)).map Action.key

/-- the universe contains every key that the program's scripts can add -/
def Closed (U : List Key) (p : Program) : Prop := ∀ s ∈ p.scripts, ∀ a ∈ s.actions, a.key ∈ U

theorem closed_keys (p : Program) (k : Key) : Closed (k :: p.keys) p := by
  intro s hs a ha
  exact List.mem_cons_of_mem _ (List.mem_map.mpr ⟨a, List.mem_flatMap.mpr ⟨s, hs, ha⟩, rfl⟩)

theorem mem_scripts_fn {p : Program} {d : FnDecl} (hd : d ∈ p.fns) {s : Script} (hs : s ∈ d.scripts) :
    s ∈ p.scripts :=
  List.mem_append_left _ (List.mem_flatMap.mpr ⟨d, hd, hs⟩)

theorem mem_scripts_cls {p : Program} {c : ClsDecl} (hc : c ∈ p.classes) {s : Script} (hs : s ∈ c.scripts) :
    s ∈ p.scripts :=
  List.mem_append_right _ (List.mem_flatMap.mpr ⟨c, hc, hs⟩)

theorem mem_scripts_pre {p : Program} {d : FnDecl} (hd : d ∈ p.fns) : ∀ s ∈ d.pre, s ∈ p.scripts :=
  fun _ hs => mem_scripts_fn hd (List.mem_append_left _ (List.mem_append_left _ hs))
theorem mem_scripts_post {p : Program} {d : FnDecl} (hd : d ∈ p.fns) : ∀ s ∈ d.post, s ∈ p.scripts :=
  fun _ hs => mem_scripts_fn hd (List.mem_append_left _ (List.mem_append_right _ hs))
theorem mem_scripts_body {p : Program} {d : FnDecl} (hd : d ∈ p.fns) : d.body ∈ p.scripts :=
  mem_scripts_fn hd (List.mem_append_right _ (List.mem_singleton.mpr rfl))
theorem mem_scripts_invs {p : Program} {c : ClsDecl} (hc : c ∈ p.classes) : ∀ s ∈ c.invs, s ∈ p.scripts :=
  fun _ hs => mem_scripts_cls hc (List.mem_append_left _ (List.mem_append_left _ hs))
theorem mem_scripts_init {p : Program} {c : ClsDecl} (hc : c ∈ p.classes) : c.init ∈ p.scripts :=
  mem_scripts_cls hc (List.mem_append_left _ (List.mem_append_right _ (List.mem_singleton.mpr rfl)))
theorem mem_scripts_meth {p : Program} {c : ClsDecl} (hc : c ∈ p.classes) {md : MethDecl} (hm : md ∈ c.meths) :
    md.body ∈ p.scripts :=
  mem_scripts_cls hc (List.mem_append_right _ (List.mem_map.mpr ⟨md, hm, rfl⟩))

def fnSize (d : FnDecl) : Nat := condsSize d.pre + condsSize d.post + d.body.actions.length
def clsSize (c : ClsDecl) : Nat :=
  condsSize c.invs + c.init.actions.length + (c.meths.map (fun md => md.body.actions.length)).sum
def progSizeG (p : Program) : Nat := (p.fns.map fnSize).sum + (p.classes.map clsSize).sum

theorem fnSize_le {p : Program} {d : FnDecl} (h : d ∈ p.fns) :
    condsSize d.pre ≤ progSizeG p ∧ condsSize d.post ≤ progSizeG p ∧ d.body.actions.length ≤ progSizeG p := by
  have h1 : condsSize d.pre + condsSize d.post + d.body.actions.length ≤ (p.fns.map fnSize).sum :=
    le_sum_of_mem (l := p.fns.map fnSize) (List.mem_map.mpr ⟨d, h, rfl⟩)
  unfold progSizeG
  omega

theorem clsSize_le {p : Program} {c : ClsDecl} (h : c ∈ p.classes) :
    condsSize c.invs ≤ progSizeG p ∧ c.init.actions.length ≤ progSizeG p ∧
    ∀ md ∈ c.meths, md.body.actions.length ≤ progSizeG p := by
  have h1 : condsSize c.invs + c.init.actions.length + (c.meths.map (fun md => md.body.actions.length)).sum ≤
      (p.classes.map clsSize).sum :=
    le_sum_of_mem (l := p.classes.map clsSize) (List.mem_map.mpr ⟨c, h, rfl⟩)
  unfold progSizeG
  refine ⟨by omega, by omega, fun md hmd => ?_⟩
  have h2 : md.body.actions.length ≤ (c.meths.map (fun md => md.body.actions.length)).sum :=
    le_sum_of_mem (List.mem_map.mpr ⟨md, hmd, rfl⟩)
  omega

/-! ### at most `m` keys of the universe are not in progress -/

def CovU (U : List Key) (m : Nat) (st : St) : Prop :=
  ∃ A : List Key, A.length ≤ m ∧ ∀ k ∈ U, st.s.contains k = true ∨ k ∈ A

theorem CovU.congr {U : List Key} {m : Nat} {st st' : St} (h : CovU U m st) (hs : SameMem st'.s st.s) :
    CovU U m st' := by
  obtain ⟨A, hA, hcov⟩ := h
  exact ⟨A, hA, fun k hk => (hcov k hk).imp (fun h => (hs _).trans h) id⟩

theorem CovU.mono {U : List Key} {m m' : Nat} {st : St} (h : CovU U m st) (hm : m ≤ m') : CovU U m' st := by
  obtain ⟨A, hA, hcov⟩ := h
  exact ⟨A, Nat.le_trans hA hm, hcov⟩

theorem CovU.all (U : List Key) (st : St) : CovU U U.length st :=
  ⟨U, Nat.le_refl _, fun _ hk => .inr hk⟩

theorem CovU.add {U : List Key} {m : Nat} {st : St} {x : Key} (h : CovU U (m + 1) st)
    (hx : x ∈ U) (hc : st.s.contains x = false) : CovU U m (st.add x) := by
  obtain ⟨A, hA, hcov⟩ := h
  have hxA : x ∈ A := by
    rcases hcov x hx with h | h
    · rw [hc] at h; cases h
    · exact h
  refine ⟨A.erase x, ?_, ?_⟩
  · rw [List.length_erase_of_mem hxA]; omega
  · intro k hk
    rw [contains_add]
    by_cases hkx : k = x
    · subst hkx; left; simp
    · rcases hcov k hk with h | h
      · left; rw [h, Bool.or_true]
      · right; exact (List.mem_erase_of_ne hkx).mpr h

theorem CovU.zero {U : List Key} {st : St} {x : Key} (h : CovU U 0 st) (hx : x ∈ U) :
    st.s.contains x = true := by
  obtain ⟨A, hA, hcov⟩ := h
  have : A = [] := List.eq_nil_of_length_eq_zero (Nat.le_zero.mp hA)
  subst this
  rcases hcov x hx with h | h
  · exact h
  · cases h

/-! ### sequences of actions and of conditions, for a class of states and a class of actions -/

section
variable {p : Program} {B : Nat} {C : St → Prop} {A : Action → Prop}
  (hC : ∀ st st', C st → SameMem st'.s st.s → C st')
  (H : ∀ st, C st → ∀ a, A a → NT p B st (.act a))
include hC H

theorem acts_ntG : ∀ (as : List Action), (∀ a ∈ as, A a) → ∀ (st : St), C st →
    NT p (B + as.length + 1) st (.acts as) := by
  intro as
  induction as with
  | nil => intro _ st _; unfold NT; rw [run_acts_nil]; exact fun e => Out.noConfusion e
  | cons a rest ih =>
    intro hA st hst
    unfold NT
    rw [show B + (a :: rest).length + 1 = (B + rest.length + 1) + 1 from by simp; omega, run_acts_cons]
    apply andThen_nt
    · exact (H st hst a (hA a List.mem_cons_self)).mono (by omega)
    · intro _
      exact ih (fun b hb => hA b (List.mem_cons_of_mem _ hb)) _ (hC _ _ hst (run_sameMem _ _ _ _))

theorem script_ntG (c : Script) (hA : ∀ a ∈ c.actions, A a) (st : St) (hst : C st) :
    NT p (B + c.actions.length + 2) st (.script c) := by
  unfold NT
  rw [run_script]
  exact acts_ntG hC H _ hA _ hst

theorem pres_ntG (f : FnId) : ∀ (cs : List Script), (∀ c ∈ cs, ∀ a ∈ c.actions, A a) →
    ∀ (k : Nat) (st : St), C st → NT p (B + condsSize cs + 1) st (.pres f k cs) := by
  intro cs
  induction cs with
  | nil => intro _ k st _; unfold NT; rw [run_pres_nil]; exact fun e => Out.noConfusion e
  | cons c cs ih =>
    intro hA k st hst
    unfold NT
    rw [show B + condsSize (c :: cs) + 1 = (B + c.actions.length + 3 + condsSize cs) + 1 from by
      simp [condsSize]; omega, run_pres_cons]
    apply andThen_nt
    · refine (script_ntG hC H c (hA c List.mem_cons_self) (st.emit _) (hC _ _ hst (SameMem.refl _))).mono ?_
      omega
    · intro _
      split
      · show NT p _ _ _
        refine NT.mono (ih (fun c' hc' => hA c' (List.mem_cons_of_mem _ hc')) _ _
          (hC _ _ hst (run_sameMem p _ (st.emit _) _))) ?_
        omega
      · exact fun e => Out.noConfusion e

theorem posts_ntG (f : FnId) : ∀ (cs : List Script), (∀ c ∈ cs, ∀ a ∈ c.actions, A a) →
    ∀ (k : Nat) (st : St), C st → NT p (B + condsSize cs + 1) st (.posts f k cs) := by
  intro cs
  induction cs with
  | nil => intro _ k st _; unfold NT; rw [run_posts_nil]; exact fun e => Out.noConfusion e
  | cons c cs ih =>
    intro hA k st hst
    unfold NT
    rw [show B + condsSize (c :: cs) + 1 = (B + c.actions.length + 3 + condsSize cs) + 1 from by
      simp [condsSize]; omega, run_posts_cons]
    apply andThen_nt
    · refine (script_ntG hC H c (hA c List.mem_cons_self) (st.emit _) (hC _ _ hst (SameMem.refl _))).mono ?_
      omega
    · intro _
      split
      · show NT p _ _ _
        refine NT.mono (ih (fun c' hc' => hA c' (List.mem_cons_of_mem _ hc')) _ _
          (hC _ _ hst (run_sameMem p _ (st.emit _) _))) ?_
        omega
      · exact fun e => Out.noConfusion e

theorem invs_ntG (i : InstId) : ∀ (cs : List Script), (∀ c ∈ cs, ∀ a ∈ c.actions, A a) →
    ∀ (k : Nat) (st : St), C st → NT p (B + condsSize cs + 1) st (.invs i k cs) := by
  intro cs
  induction cs with
  | nil => intro _ k st _; unfold NT; rw [run_invs_nil]; exact fun e => Out.noConfusion e
  | cons c cs ih =>
    intro hA k st hst
    unfold NT
    rw [show B + condsSize (c :: cs) + 1 = (B + c.actions.length + 3 + condsSize cs) + 1 from by
      simp [condsSize]; omega, run_invs_cons]
    apply andThen_nt
    · refine (script_ntG hC H c (hA c List.mem_cons_self) (st.emit _) (hC _ _ hst (SameMem.refl _))).mono ?_
      omega
    · intro _
      split
      · show NT p _ _ _
        refine NT.mono (ih (fun c' hc' => hA c' (List.mem_cons_of_mem _ hc')) _ _
          (hC _ _ hst (run_sameMem p _ (st.emit _) _))) ?_
        omega
      · exact fun e => Out.noConfusion e

end

/-! ### one step of the lexicographic induction

`m` keys of the universe may still be added, the action has rank `r + 1`;
`B0` bounds every action once one more key is in progress, `Br` bounds the actions of rank `r`. -/

theorem covU_sameMem {U : List Key} {m : Nat} (st st' : St) (h : CovU U m st) (hs : SameMem st'.s st.s) :
    CovU U m st' := h.congr hs

theorem ok_ne_timeout : Out.ok ≠ Out.timeout := fun e => Out.noConfusion e

section step
variable {p : Program} {m r B0 Br : Nat}
  (H0 : ∀ m', m = m' + 1 → ∀ (U : List Key) (st : St), Closed U p → CovU U m' st →
    ∀ b : Action, b.key ∈ U → NT p B0 st (.act b))
  (HB : ∀ (U : List Key) (st : St), Closed U p → CovU U m st →
    ∀ b : Action, b.key ∈ U → p.rk r b → NT p Br st (.act b))

include HB in
/-- a body: its actions have rank `r`, the set is as it was or larger -/
theorem body_nt {U : List Key} (hU : Closed U p) (s : Script) (hs : s ∈ p.scripts)
    (hr : ∀ b ∈ s.actions, p.rk r b) (hlen : s.actions.length ≤ progSizeG p)
    (st : St) (hst : CovU U m st) :
    NT p (B0 + Br + progSizeG p + 2) st (.script s) := by
  refine (script_ntG (C := CovU U m) (A := fun b => b.key ∈ U ∧ p.rk r b) covU_sameMem
    (fun st h b hb => HB U st hU h b hb.1 hb.2) s (fun b hb => ⟨hU s hs b hb, hr b hb⟩) st hst).mono ?_
  omega

include H0 in
theorem pres_nt0 {U : List Key} (hU : Closed U p) {m' : Nat} (hm : m = m' + 1) (f : FnId)
    (cs : List Script) (hcs : ∀ c ∈ cs, c ∈ p.scripts) (hsz : condsSize cs ≤ progSizeG p)
    (k : Nat) (st : St) (hst : CovU U m' st) :
    NT p (B0 + Br + progSizeG p + 2) st (.pres f k cs) := by
  refine (pres_ntG (C := CovU U m') (A := fun b => b.key ∈ U) covU_sameMem
    (fun st h b hb => H0 m' hm U st hU h b hb) f cs (fun c hc b hb => hU c (hcs c hc) b hb) k st hst).mono ?_
  omega

include H0 in
theorem posts_nt0 {U : List Key} (hU : Closed U p) {m' : Nat} (hm : m = m' + 1) (f : FnId)
    (cs : List Script) (hcs : ∀ c ∈ cs, c ∈ p.scripts) (hsz : condsSize cs ≤ progSizeG p)
    (k : Nat) (st : St) (hst : CovU U m' st) :
    NT p (B0 + Br + progSizeG p + 2) st (.posts f k cs) := by
  refine (posts_ntG (C := CovU U m') (A := fun b => b.key ∈ U) covU_sameMem
    (fun st h b hb => H0 m' hm U st hU h b hb) f cs (fun c hc b hb => hU c (hcs c hc) b hb) k st hst).mono ?_
  omega

include H0 in
theorem invs_nt0 {U : List Key} (hU : Closed U p) {m' : Nat} (hm : m = m' + 1) (i : InstId)
    (cs : List Script) (hcs : ∀ c ∈ cs, c ∈ p.scripts) (hsz : condsSize cs ≤ progSizeG p)
    (k : Nat) (st : St) (hst : CovU U m' st) :
    NT p (B0 + Br + progSizeG p + 2) st (.invs i k cs) := by
  refine (invs_ntG (C := CovU U m') (A := fun b => b.key ∈ U) covU_sameMem
    (fun st h b hb => H0 m' hm U st hU h b hb) i cs (fun c hc b hb => hU c (hcs c hc) b hb) k st hst).mono ?_
  omega

include H0 HB in
theorem step_callFn {U : List Key} (hU : Closed U p) (st : St) (hst : CovU U m st) (f : FnId)
    (hk : Key.fn f ∈ U) (hr : p.rk (r + 1) (.callFn f)) :
    NT p ((B0 + Br + progSizeG p + 2) + 1) st (.act (.callFn f)) := by
  cases h : p.fn? f with
  | none => unfold NT; rw [run_callFn_none _ _ _ _ _ h]; exact ok_ne_timeout
  | some d =>
    have hd := fn?_mem h
    obtain ⟨hsz1, hsz2, hsz3⟩ := fnSize_le hd
    have hbody : ∀ b ∈ d.body.actions, p.rk r b := fun b hb => hr b (by rw [bodyOf_callFn h]; exact hb)
    cases hcf : st.s.contains (.fn f) with
    | true =>
      unfold NT
      rw [run_callFn_bare _ _ _ _ _ _ h hcf]
      exact body_nt HB hU d.body (mem_scripts_body hd) hbody hsz3 _ (hst.congr (SameMem.refl _))
    | false =>
      cases m with
      | zero => rw [hst.zero hk] at hcf; cases hcf
      | succ m' =>
        have hcov : CovU U m' (st.add (.fn f)) := hst.add hk hcf
        unfold NT
        rw [run_callFn_checked_repaired _ _ _ _ _ h hcf, fin_snd]
        apply andThen_nt
        · exact pres_nt0 H0 hU rfl f d.pre (mem_scripts_pre hd) hsz1 _ _ hcov
        · intro _
          have hmem : SameMem (((run p .repaired (B0 + Br + progSizeG p + 2) (st.add (.fn f))
              (.pres f 0 d.pre)).1.discard (.fn f)).emit (.body f)).s st.s :=
            (SameMem.discard (run_sameMem _ _ _ _) _).trans (discard_add st _ hcf)
          apply andThen_nt
          · exact body_nt HB hU d.body (mem_scripts_body hd) hbody hsz3 _ (hst.congr hmem)
          · intro _
            refine posts_nt0 H0 hU rfl f d.post (mem_scripts_post hd) hsz2 _ _ (hcov.congr ?_)
            apply SameMem.add
            exact (run_sameMem _ _ _ _).trans hmem

include H0 HB in
theorem step_callMethod {U : List Key} (hU : Closed U p) (st : St) (hst : CovU U m st) (i : InstId) (mi : MethId)
    (hk : Key.inst i ∈ U) (hr : p.rk (r + 1) (.callMethod i mi)) :
    NT p ((B0 + Br + progSizeG p + 2) + 1) st (.act (.callMethod i mi)) := by
  rcases p.meth?_cases i mi with h | ⟨c, md, h⟩
  · unfold NT; rw [run_callMethod_none _ _ _ _ _ _ h]; exact ok_ne_timeout
  · obtain ⟨hc, hmd⟩ := meth?_mem h
    obtain ⟨hsz1, _, hsz3⟩ := clsSize_le hc
    have hbody : ∀ b ∈ md.body.actions, p.rk r b := fun b hb => hr b (by rw [bodyOf_callMethod h]; exact hb)
    cases hg : (!md.guarded || st.s.contains (.inst i)) with
    | true =>
      unfold NT
      rw [run_callMethod_bare _ _ _ _ _ _ _ _ h hg]
      exact body_nt HB hU md.body (mem_scripts_meth hc hmd) hbody (hsz3 md hmd) _ (hst.congr (SameMem.refl _))
    | false =>
      have hcf : st.s.contains (.inst i) = false := (Bool.or_eq_false_iff.mp hg).2
      cases m with
      | zero => rw [hst.zero hk] at hcf; cases hcf
      | succ m' =>
        have hcov : CovU U m' (st.add (.inst i)) := hst.add hk hcf
        unfold NT
        rw [run_callMethod_checked _ _ _ _ _ _ _ _ h hg, fin_snd]
        apply andThen_nt
        · exact invs_nt0 H0 hU rfl i c.invs (mem_scripts_invs hc) hsz1 _ _ hcov
        · intro _
          have hmem : SameMem ((run p .repaired (B0 + Br + progSizeG p + 2) (st.add (.inst i))
              (.invs i 0 c.invs)).1.emit (.methBody i mi)).s (st.add (.inst i)).s :=
            run_sameMem _ _ _ _
          apply andThen_nt
          · exact body_nt HB hU md.body (mem_scripts_meth hc hmd) hbody (hsz3 md hmd) _
              ((hcov.congr hmem).mono (Nat.le_succ _))
          · intro _
            refine invs_nt0 H0 hU rfl i c.invs (mem_scripts_invs hc) hsz1 _ _ (hcov.congr ?_)
            exact (run_sameMem _ _ _ _).trans hmem

theorem invsOf_cases (p : Program) (i : InstId) :
    ((p.cls? (p.clsOf i)).map (·.invs)).getD [] = [] ∨
    ∃ c ∈ p.classes, ((p.cls? (p.clsOf i)).map (·.invs)).getD [] = c.invs := by
  cases h : p.cls? (p.clsOf i) with
  | none => left; rfl
  | some c => right; exact ⟨c, cls?_mem h, rfl⟩

include H0 HB in
theorem step_superInit {U : List Key} (hU : Closed U p) (st : St) (hst : CovU U m st) (i : InstId) (cid : ClsId)
    (hk : Key.inst i ∈ U) (hr : p.rk (r + 1) (.superInit i cid)) :
    NT p ((B0 + Br + progSizeG p + 2) + 1) st (.act (.superInit i cid)) := by
  cases h : p.cls? cid with
  | none => unfold NT; rw [run_superInit_none _ _ _ _ _ _ h]; exact ok_ne_timeout
  | some c =>
    have hc := cls?_mem h
    obtain ⟨_, hsz2, _⟩ := clsSize_le hc
    have hbody : ∀ b ∈ c.init.actions, p.rk r b := fun b hb => hr b (by rw [bodyOf_superInit h]; exact hb)
    cases hg : (!c.initWrapped || (Variant.repaired.ctorTestsMembership && st.s.contains (.inst i))) with
    | true =>
      unfold NT
      rw [run_superInit_bare _ _ _ _ _ _ _ h hg]
      exact body_nt HB hU c.init (mem_scripts_init hc) hbody hsz2 _ (hst.congr (SameMem.refl _))
    | false =>
      have hcf : st.s.contains (.inst i) = false := by
        have := (Bool.or_eq_false_iff.mp hg).2
        simpa [Variant.repaired] using this
      cases m with
      | zero => rw [hst.zero hk] at hcf; cases hcf
      | succ m' =>
        have hcov : CovU U m' (st.add (.inst i)) := hst.add hk hcf
        unfold NT
        rw [run_superInit_checked _ _ _ _ _ _ _ h hg, fin_snd]
        apply andThen_nt
        · exact body_nt HB hU c.init (mem_scripts_init hc) hbody hsz2 _
            ((hcov.congr (SameMem.refl _)).mono (Nat.le_succ _))
        · intro _
          have hcov' : CovU U m' (run p .repaired (B0 + Br + progSizeG p + 2)
              ((st.add (.inst i)).emit (.initBody i cid)) (.script c.init)).1 :=
            hcov.congr (run_sameMem _ _ _ _)
          rcases invsOf_cases p i with e | ⟨c', hc', e⟩
          · rw [e]
            exact invs_nt0 H0 hU rfl i [] (fun _ h => nomatch h) (Nat.zero_le _) _ _ hcov'
          · rw [e]
            exact invs_nt0 H0 hU rfl i c'.invs (mem_scripts_invs hc') (clsSize_le hc').1 _ _ hcov'

include H0 HB in
theorem step_act {U : List Key} (hU : Closed U p) (st : St) (hst : CovU U m st) (a : Action)
    (hk : a.key ∈ U) (hr : p.rk (r + 1) a) :
    NT p (B0 + Br + progSizeG p + 3) st (.act a) := by
  cases a with
  | callFn f => exact step_callFn H0 HB hU st hst f hk hr
  | callMethod i mi => exact step_callMethod H0 HB hU st hst i mi hk hr
  | construct i =>
    unfold NT
    rw [show B0 + Br + progSizeG p + 3 = (B0 + Br + progSizeG p + 2) + 1 from rfl, run_construct]
    exact (HB U st hU hst (.superInit i (p.clsOf i)) hk (hr _ (List.mem_singleton.mpr rfl))).mono (by omega)
  | superInit i cid => exact step_superInit H0 HB hU st hst i cid hk hr

end step

/-! ### the lexicographic induction -/

theorem core_r {p : Program} {m B0 : Nat}
    (H0 : ∀ m', m = m' + 1 → ∀ (U : List Key) (st : St), Closed U p → CovU U m' st →
      ∀ b : Action, b.key ∈ U → NT p B0 st (.act b)) :
    ∀ r, ∃ Br, ∀ (U : List Key) (st : St), Closed U p → CovU U m st →
      ∀ b : Action, b.key ∈ U → p.rk r b → NT p Br st (.act b) := by
  intro r
  induction r with
  | zero => exact ⟨0, fun _ _ _ _ _ _ hr => hr.elim⟩
  | succ r ih =>
    obtain ⟨Br, HB⟩ := ih
    exact ⟨B0 + Br + progSizeG p + 3, fun U st hU hst a hk hr => step_act H0 HB hU st hst a hk hr⟩

theorem core_m {p : Program} {n : Nat} (hall : ∀ a, p.rk n a) :
    ∀ m, ∃ B, ∀ (U : List Key) (st : St), Closed U p → CovU U m st →
      ∀ a : Action, a.key ∈ U → NT p B st (.act a) := by
  intro m
  induction m with
  | zero =>
    obtain ⟨B, h⟩ := core_r (p := p) (m := 0) (B0 := 0) (fun m' e => by cases e) n
    exact ⟨B, fun U st hU hst a ha => h U st hU hst a ha (hall a)⟩
  | succ m ih =>
    obtain ⟨B0, H0⟩ := ih
    obtain ⟨B, h⟩ := core_r (p := p) (m := m + 1) (B0 := B0)
      (fun m' e => by obtain rfl := Nat.succ.inj e; exact H0) n
    exact ⟨B, fun U st hU hst a ha => h U st hU hst a ha (hall a)⟩

/-- when every chain of bodies calling actions is shorter than `n`, every evaluation of the contracted
program finishes within a recursion depth that depends on the program only -/
theorem terminate_of_rk {p : Program} {n : Nat} (hall : ∀ a, p.rk n a) :
    ∃ N, ∀ fuel, N ≤ fuel → ∀ (st : St) (a : Action), (run p .repaired fuel st (.act a)).2 ≠ .timeout := by
  obtain ⟨B, H⟩ := core_m hall (p.keys.length + 1)
  refine ⟨B, fun fuel hf st a => ?_⟩
  exact (H (a.key :: p.keys) st (closed_keys p _) (CovU.all (a.key :: p.keys) st) a List.mem_cons_self).mono hf

/-! ### programs without contracts: every action returns normally, a finished action has a rank -/

structure NoContracts (q : Program) : Prop where
  fn : ∀ d ∈ q.fns, d.pre = [] ∧ d.post = []
  cls : ∀ c ∈ q.classes, c.invs = []

/-- no conditions are left to evaluate -/
def Cmd.Plain : Cmd → Prop
  | .pres _ _ cs => cs = []
  | .posts _ _ cs => cs = []
  | .invs _ _ cs => cs = []
  | _ => True

/-- finished normally, or out of fuel -/
def OT (r : St × Out) : Prop := r.2 = .ok ∨ r.2 = .timeout

theorem andThen_OT {r : St × Out} {k : St → St × Out} (h1 : OT r) (h2 : ∀ s, OT (k s)) :
    OT (andThen r k) := by
  by_cases h : r.2 = .ok
  · rw [andThen_ok k h]; exact h2 _
  · rw [andThen_ne k h]; exact h1

theorem fin_OT {x : Key} {r : St × Out} (h : OT r) : OT (fin x r) := h

theorem invsOf_nil {q : Program} (hq : NoContracts q) (i : InstId) :
    ((q.cls? (q.clsOf i)).map (·.invs)).getD [] = [] := by
  rcases invsOf_cases q i with e | ⟨c, hc, e⟩
  · exact e
  · rw [e]; exact hq.cls c hc

theorem run_OT {q : Program} (hq : NoContracts q) : ∀ (n : Nat) (st : St) (cmd : Cmd), cmd.Plain →
    OT (run q .repaired n st cmd) := by
  intro n
  induction n with
  | zero => intro st cmd _; rw [run_zero]; exact .inr rfl
  | succ n ih =>
    intro st cmd hp
    cases cmd with
    | script s => rw [run_script]; exact ih _ _ trivial
    | acts as =>
      cases as with
      | nil => rw [run_acts_nil]; exact .inl rfl
      | cons a rest =>
        rw [run_acts_cons]
        exact andThen_OT (ih _ _ trivial) (fun _ => ih _ _ trivial)
    | pres f k cs => have e : cs = [] := hp; subst e; rw [run_pres_nil]; exact .inl rfl
    | posts f k cs => have e : cs = [] := hp; subst e; rw [run_posts_nil]; exact .inl rfl
    | invs f k cs => have e : cs = [] := hp; subst e; rw [run_invs_nil]; exact .inl rfl
    | act a =>
      cases a with
      | callFn f =>
        cases h : q.fn? f with
        | none => rw [run_callFn_none _ _ _ _ _ h]; exact .inl rfl
        | some d =>
          cases hc : st.s.contains (.fn f) with
          | true =>
            rw [run_callFn_bare _ _ _ _ _ _ h hc]
            exact ih _ _ trivial
          | false =>
            obtain ⟨hpre, hpost⟩ := hq.fn d (fn?_mem h)
            rw [run_callFn_checked_repaired _ _ _ _ _ h hc, hpre, hpost]
            apply fin_OT
            refine andThen_OT (ih _ _ (by exact rfl)) ?_
            intro st1
            refine andThen_OT (ih _ _ (by exact trivial)) ?_
            intro st2
            exact ih _ _ rfl
      | callMethod i m =>
        rcases q.meth?_cases i m with h | ⟨c, md, h⟩
        · rw [run_callMethod_none _ _ _ _ _ _ h]; exact .inl rfl
        · cases hc : (!md.guarded || st.s.contains (.inst i)) with
          | true => rw [run_callMethod_bare _ _ _ _ _ _ _ _ h hc]; exact ih _ _ trivial
          | false =>
            rw [run_callMethod_checked _ _ _ _ _ _ _ _ h hc, hq.cls c (meth?_mem h).1]
            apply fin_OT
            refine andThen_OT (ih _ _ (by exact rfl)) ?_
            intro st1
            refine andThen_OT (ih _ _ (by exact trivial)) ?_
            intro st2
            exact ih _ _ rfl
      | construct i => rw [run_construct]; exact ih _ _ trivial
      | superInit i cid =>
        cases h : q.cls? cid with
        | none => rw [run_superInit_none _ _ _ _ _ _ h]; exact .inl rfl
        | some c =>
          cases hc : (!c.initWrapped || (Variant.repaired.ctorTestsMembership && st.s.contains (.inst i))) with
          | true => rw [run_superInit_bare _ _ _ _ _ _ _ h hc]; exact ih _ _ trivial
          | false =>
            rw [run_superInit_checked _ _ _ _ _ _ _ h hc, invsOf_nil hq]
            apply fin_OT
            refine andThen_OT (ih _ _ (by exact trivial)) ?_
            intro st1
            exact ih _ _ rfl

theorem nt_andThen_inv {r : St × Out} {k : St → St × Out} (h : (andThen r k).2 ≠ .timeout) (hr : OT r) :
    r.2 = .ok ∧ (k r.1).2 ≠ .timeout := by
  rcases hr with hr | hr
  · rw [andThen_ok k hr] at h; exact ⟨hr, h⟩
  · exact (h (andThen_snd_timeout k hr)).elim

theorem nt_andThen_fst {r : St × Out} {k : St → St × Out} (h : (andThen r k).2 ≠ .timeout) :
    r.2 ≠ .timeout := fun e => h (andThen_snd_timeout k e)

section
variable {q : Program} (hq : NoContracts q) {k : Nat}
  (IH : ∀ (st : St) (a : Action), NT q k st (.act a) → q.rk k a)
include hq IH

theorem acts_rk : ∀ (as : List Action) (st : St), NT q (k + 1) st (.acts as) → ∀ b ∈ as, q.rk k b := by
  intro as
  induction as with
  | nil => intro _ _ b hb; cases hb
  | cons a rest ih =>
    intro st h b hb
    unfold NT at h
    rw [run_acts_cons] at h
    obtain ⟨h1, h2⟩ := nt_andThen_inv h (run_OT hq _ _ _ trivial)
    rcases List.mem_cons.mp hb with e | hb'
    · subst e
      apply IH st
      unfold NT
      rw [h1]
      exact ok_ne_timeout
    · exact ih _ (NT.mono (n := k) h2 (Nat.le_succ _)) b hb'

theorem script_rk (s : Script) (st : St) (h : NT q k st (.script s)) : ∀ b ∈ s.actions, q.rk k b := by
  have h' : NT q ((k + 1) + 1) st (.script s) := h.mono (by omega)
  unfold NT at h'
  rw [run_script] at h'
  exact acts_rk hq IH _ _ h'

end

/-- in a program without contracts, an action that finishes within depth `k` (from some state) has rank `k` -/
theorem rk_of_nt {q : Program} (hq : NoContracts q) :
    ∀ (k : Nat) (st : St) (a : Action), NT q k st (.act a) → q.rk k a := by
  intro k
  induction k with
  | zero => intro st a h; unfold NT at h; rw [run_zero] at h; exact (h rfl).elim
  | succ k ih =>
    intro st a h
    unfold NT at h
    cases a with
    | callFn f =>
      cases hf : q.fn? f with
      | none => intro b hb; rw [bodyOf_callFn_none hf] at hb; cases hb
      | some d =>
        intro b hb
        rw [bodyOf_callFn hf] at hb
        have hs : ∃ st', NT q k st' (.script d.body) := by
          cases hc : st.s.contains (.fn f) with
          | true =>
            rw [run_callFn_bare _ _ _ _ _ _ hf hc] at h
            exact ⟨_, h⟩
          | false =>
            rw [run_callFn_checked_repaired _ _ _ _ _ hf hc, fin_snd] at h
            obtain ⟨_, h2⟩ := nt_andThen_inv h (run_OT hq _ _ _ (by rw [(hq.fn d (fn?_mem hf)).1]; exact rfl))
            exact ⟨_, nt_andThen_fst h2⟩
        obtain ⟨st', hs⟩ := hs
        exact script_rk hq ih d.body st' hs b hb
    | callMethod i m =>
      rcases q.meth?_cases i m with hm | ⟨c, md, hm⟩
      · intro b hb; rw [bodyOf_callMethod_none hm] at hb; cases hb
      · intro b hb
        rw [bodyOf_callMethod hm] at hb
        have hs : ∃ st', NT q k st' (.script md.body) := by
          cases hc : (!md.guarded || st.s.contains (.inst i)) with
          | true =>
            rw [run_callMethod_bare _ _ _ _ _ _ _ _ hm hc] at h
            exact ⟨_, h⟩
          | false =>
            rw [run_callMethod_checked _ _ _ _ _ _ _ _ hm hc, fin_snd] at h
            obtain ⟨_, h2⟩ := nt_andThen_inv h
              (run_OT hq _ _ _ (by rw [hq.cls c (meth?_mem hm).1]; exact rfl))
            exact ⟨_, nt_andThen_fst h2⟩
        obtain ⟨st', hs⟩ := hs
        exact script_rk hq ih md.body st' hs b hb
    | construct i =>
      rw [run_construct] at h
      intro b hb
      have e : b = .superInit i (q.clsOf i) := List.mem_singleton.mp hb
      subst e
      exact ih st _ h
    | superInit i cid =>
      cases hf : q.cls? cid with
      | none => intro b hb; rw [bodyOf_superInit_none hf] at hb; cases hb
      | some c =>
        intro b hb
        rw [bodyOf_superInit hf] at hb
        have hs : ∃ st', NT q k st' (.script c.init) := by
          cases hc : (!c.initWrapped || (Variant.repaired.ctorTestsMembership && st.s.contains (.inst i))) with
          | true =>
            rw [run_superInit_bare _ _ _ _ _ _ _ hf hc] at h
            exact ⟨_, h⟩
          | false =>
            rw [run_superInit_checked _ _ _ _ _ _ _ hf hc, fin_snd] at h
            exact ⟨_, nt_andThen_fst h⟩
        obtain ⟨st', hs⟩ := hs
        exact script_rk hq ih c.init st' hs b hb

/-! ### the stripped program -/

theorem bare_fn? (p : Program) (f : FnId) :
    p.bare.fn? f = (p.fn? f).map (fun d => { d with pre := [], post := [] }) := by
  unfold Program.fn? Program.bare
  exact List.getElem?_map

theorem bare_clsOf (p : Program) (i : InstId) : p.bare.clsOf i = p.clsOf i := rfl

theorem bare_cls? (p : Program) (c : ClsId) :
    p.bare.cls? c = (p.cls? c).map (fun c => { c with invs := [] }) := by
  unfold Program.cls? Program.bare
  exact List.getElem?_map

theorem bare_noContracts (p : Program) : NoContracts p.bare := by
  constructor
  · intro d hd
    obtain ⟨d0, _, rfl⟩ := List.mem_map.mp hd
    exact ⟨rfl, rfl⟩
  · intro c hc
    obtain ⟨c0, _, rfl⟩ := List.mem_map.mp hc
    rfl

theorem bare_bodyOf (p : Program) (a : Action) : p.bare.bodyOf a = p.bodyOf a := by
  cases a with
  | callFn f =>
    simp only [Program.bodyOf, bare_fn?]
    cases p.fn? f <;> rfl
  | callMethod i m =>
    simp only [Program.bodyOf, Program.meth?, bare_cls?, bare_clsOf]
    cases p.cls? (p.clsOf i) with
    | none => rfl
    | some c =>
      simp only [Option.map_some, Option.bind_some]
      cases c.meths[m]? <;> rfl
  | construct i => rfl
  | superInit i cid =>
    simp only [Program.bodyOf, bare_cls?]
    cases p.cls? cid <;> rfl

theorem bare_rk (p : Program) : ∀ (r : Nat) (a : Action), p.bare.rk r a ↔ p.rk r a := by
  intro r
  induction r with
  | zero => intro a; exact Iff.rfl
  | succ r ih =>
    intro a
    show (∀ b ∈ p.bare.bodyOf a, p.bare.rk r b) ↔ (∀ b ∈ p.bodyOf a, p.rk r b)
    rw [bare_bodyOf]
    exact forall_congr' fun b => imp_congr_right fun _ => ih b

/-- if the stripped program finishes every action within depth `n`, every action has rank `n` -/
theorem rk_of_bare {p : Program} {n : Nat}
    (h : ∀ (st : St) (a : Action), (run p.bare .repaired n st (.act a)).2 ≠ .timeout) :
    ∀ a, p.rk n a :=
  fun a => (bare_rk p n a).mp (rk_of_nt (bare_noContracts p) n default a (h default a))

/-- and conversely: ranks bound the depth of the stripped program -/
theorem bare_of_rk {p : Program} {n : Nat} (h : ∀ a, p.rk n a) :
    ∃ N, ∀ (st : St) (a : Action), (run p.bare .repaired N st (.act a)).2 ≠ .timeout := by
  obtain ⟨N, hN⟩ := terminate_of_rk (p := p.bare) (n := n) (fun a => (bare_rk p n a).mpr (h a))
  exact ⟨N, hN N (Nat.le_refl _)⟩

theorem contracts_add_no_divergence (p : Program)
    (hbare : ∃ n, ∀ (st : St) (a : Action), (run p.bare .repaired n st (.act a)).2 ≠ .timeout) :
    ∃ N, ∀ fuel, N ≤ fuel → ∀ (st : St) (a : Action), (run p .repaired fuel st (.act a)).2 ≠ .timeout := by
  obtain ⟨n, h⟩ := hbare
  exact terminate_of_rk (rk_of_bare h)

/-- bodies that make no calls: every action has rank 2 -/
theorem rk_two_of_no_calls {p : Program}
    (hb : ∀ d ∈ p.fns, d.body.actions = [])
    (hm : ∀ c ∈ p.classes, c.init.actions = [] ∧ ∀ m ∈ c.meths, m.body.actions = []) :
    ∀ a, p.rk 2 a := by
  have hsuper : ∀ i cid, p.rk 1 (.superInit i cid) := by
    intro i cid b hb'
    cases h : p.cls? cid with
    | none => rw [bodyOf_superInit_none h] at hb'; cases hb'
    | some c => rw [bodyOf_superInit h, (hm c (cls?_mem h)).1] at hb'; cases hb'
  intro a
  cases a with
  | callFn f =>
    apply rk_mono
    intro b hb'
    cases h : p.fn? f with
    | none => rw [bodyOf_callFn_none h] at hb'; cases hb'
    | some d => rw [bodyOf_callFn h, hb d (fn?_mem h)] at hb'; cases hb'
  | callMethod i m =>
    apply rk_mono
    intro b hb'
    rcases p.meth?_cases i m with h | ⟨c, md, h⟩
    · rw [bodyOf_callMethod_none h] at hb'; cases hb'
    · rw [bodyOf_callMethod h, (hm c (meth?_mem h).1).2 md (meth?_mem h).2] at hb'; cases hb'
  | construct i =>
    intro b hb'
    have e : b = .superInit i (p.clsOf i) := List.mem_singleton.mp hb'
    subst e
    exact hsuper _ _
  | superInit i cid => exact rk_mono (hsuper i cid)

end Icontract.Re
