/-
  The capture loops (`captureOldSync`, `captureOldAsync`): order, at-most-once,
  the value of `OLD`; `Kwargs.set` / `Kwargs.get?`.  Used by `Props/C08.lean`.
-/
import IcontractModel.Lemmas.Post
import IcontractModel.Spec.Trace
namespace Icontract
open Res List

theorem capturesOf_nil : capturesOf [] = [] := rfl

theorem capturesOf_cons_capture (s : SId) (sel : Kwargs) (t : Trace) :
    capturesOf (Event.capture s sel :: t) = s :: capturesOf t := rfl

theorem capturesOf_cons_await (s : SId) (t : Trace) :
    capturesOf (Event.awaitCapture s :: t) = capturesOf t := rfl

theorem expectedOld_cons_some (isAsync : Bool) (o : Oracle) (s : Snapshot) (ss : List Snapshot) (v : Id)
    (h : captureValue isAsync s (o.capture s.id) = some v) :
    expectedOld isAsync o (s :: ss) = (s.name, v) :: expectedOld isAsync o ss := by
  simp [expectedOld, h]

/-- order, at-most-once and the value of `OLD` for the sync capture loop -/
theorem captureOldSync_spec (o : Oracle) (kw : Kwargs) (acc : List (String × Id)) (ss : List Snapshot) :
    capturesOf (captureOldSync o kw acc ss).trace <+: ss.map (·.id) ∧
    ∀ old, (captureOldSync o kw acc ss).out = .ok old →
      old = acc ++ expectedOld false o ss ∧
      capturesOf (captureOldSync o kw acc ss).trace = ss.map (·.id) := by
  induction ss generalizing acc with
  | nil =>
    refine ⟨List.nil_prefix, ?_⟩
    intro old h
    simp only [captureOldSync, pure_out, Except.ok.injEq] at h
    subst h
    simp [expectedOld, captureOldSync, capturesOf]
  | cons s ss ih =>
    unfold captureOldSync
    by_cases hc : s.coroFn = true
    · simp [hc, capturesOf]
    · simp only [Bool.not_eq_true] at hc
      simp only [hc, Bool.false_eq_true, if_false]
      unfold selectCaptureKwargs
      by_cases hm : (missingNames s.args kw).isEmpty = true
      · simp only [hm, if_true, pure_bind', emit_bind_trace, emit_bind_out, capturesOf_cons_capture,
          List.map_cons]
        cases ha : o.capture s.id with
        | raises e => simp [capturesOf]
        | coro a => simp [capturesOf]
        | val v t =>
          simp only []
          obtain ⟨ih1, ih2⟩ := ih (acc ++ [(s.name, v)])
          refine ⟨(List.prefix_cons_inj _).mpr ih1, ?_⟩
          intro old hold
          obtain ⟨h1, h2⟩ := ih2 old hold
          refine ⟨?_, by rw [h2]⟩
          rw [h1, expectedOld_cons_some false o s ss v (by simp [captureValue, hc, ha])]
          simp
      · simp [hm, capturesOf]

theorem mk_ok_bind {α β : Type} (t : Trace) (a : α) (f : α → Res β) :
    ((⟨t, .ok a⟩ : Res α) >>= f) = ⟨t ++ (f a).trace, (f a).out⟩ := rfl

/-- order, at-most-once and the value of `OLD` for the async capture loop -/
theorem captureOldAsync_spec (o : Oracle) (kw : Kwargs) (acc : List (String × Id)) (ss : List Snapshot) :
    capturesOf (captureOldAsync o kw acc ss).trace <+: ss.map (·.id) ∧
    ∀ old, (captureOldAsync o kw acc ss).out = .ok old →
      old = acc ++ expectedOld true o ss ∧
      capturesOf (captureOldAsync o kw acc ss).trace = ss.map (·.id) := by
  induction ss generalizing acc with
  | nil =>
    refine ⟨List.nil_prefix, ?_⟩
    intro old h
    simp only [captureOldAsync, pure_out, Except.ok.injEq] at h
    subst h
    simp [expectedOld, captureOldAsync, capturesOf]
  | cons s ss ih =>
    -- the step shared by all successful branches
    have step : ∀ (v : Id), captureValue true s (o.capture s.id) = some v →
        (s.id :: capturesOf (captureOldAsync o kw (acc ++ [(s.name, v)]) ss).trace <+: s.id :: ss.map (·.id)) ∧
        ∀ old, (captureOldAsync o kw (acc ++ [(s.name, v)]) ss).out = .ok old →
          old = acc ++ expectedOld true o (s :: ss) ∧
          s.id :: capturesOf (captureOldAsync o kw (acc ++ [(s.name, v)]) ss).trace = s.id :: ss.map (·.id) := by
      intro v hv
      obtain ⟨ih1, ih2⟩ := ih (acc ++ [(s.name, v)])
      refine ⟨(List.prefix_cons_inj _).mpr ih1, ?_⟩
      intro old hold
      obtain ⟨h1, h2⟩ := ih2 old hold
      refine ⟨?_, by rw [h2]⟩
      rw [h1, expectedOld_cons_some true o s ss v hv]
      simp
    unfold captureOldAsync
    unfold selectCaptureKwargs
    by_cases hm : (missingNames s.args kw).isEmpty = true
    · simp only [hm, if_true, pure_bind', emit_bind_trace, emit_bind_out, capturesOf_cons_capture,
        List.map_cons]
      by_cases hc : s.coroFn = true
      · simp only [hc, if_true, pure_bind']
        cases ha : o.capture s.id with
        | raises e => simp [capturesOf]
        | coro a => exact step 0 (by simp [captureValue, hc, ha])
        | val v t => exact step v (by simp [captureValue, hc, ha])
      · simp only [Bool.not_eq_true] at hc
        simp only [hc, Bool.false_eq_true, if_false]
        cases ha : o.capture s.id with
        | raises e => simp [capturesOf]
        | val v t =>
          simp only [pure_bind']
          exact step v (by simp [captureValue, hc, ha])
        | coro a =>
          simp only [emit_bind, pure_trace, pure_out, mk_ok_bind, List.cons_append, List.nil_append,
            capturesOf_cons_await]
          cases a with
          | raises e => simp [capturesOf]
          | val v t => exact step v (by simp [captureValue, hc, ha])
          | coro b => exact step 0 (by simp [captureValue, hc, ha])
    · simp [hm, capturesOf]

/-! ### `Kwargs.set` / `Kwargs.get?` -/

theorem Kwargs.get?_set_self (kw : Kwargs) (n : String) (v : Val) : (Kwargs.set kw n v).get? n = some v := by
  induction kw with
  | nil => simp [Kwargs.set, Kwargs.get?]
  | cons p rest ih =>
    obtain ⟨k, w⟩ := p
    unfold Kwargs.set
    by_cases hk : (k == n) = true
    · simp [hk, Kwargs.get?]
    · simp only [hk, Bool.false_eq_true, if_false, Kwargs.get?]
      exact ih

theorem Kwargs.get?_set_ne (kw : Kwargs) (n m : String) (v : Val) (hne : m ≠ n) :
    (Kwargs.set kw n v).get? m = Kwargs.get? kw m := by
  induction kw with
  | nil =>
    have : (n == m) = false := by simpa using fun h => hne h.symm
    simp [Kwargs.set, Kwargs.get?, this]
  | cons p rest ih =>
    obtain ⟨k, w⟩ := p
    unfold Kwargs.set
    by_cases hk : (k == n) = true
    · have hkn : k = n := by simpa using hk
      have : (k == m) = false := by simpa [hkn] using fun h => hne h.symm
      simp [hk, Kwargs.get?, this]
    · simp only [hk, Bool.false_eq_true, if_false, Kwargs.get?]
      rw [ih]

end Icontract
