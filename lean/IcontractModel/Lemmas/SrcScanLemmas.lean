/-
  Lemmas about the line scans of IcontractModel/SrcScan.lean (`findUp`, `findDownAux`, `findDown`).
-/
import IcontractModel.SrcScan
namespace Icontract.Src

theorem findUp_eq (ks : List LineKind) (s : Nat) (hs : ks[s]? = some .deco) :
    ∀ n, s ≤ n → (∀ i, s < i → i ≤ n → ks[i]? ≠ some .deco) → findUp ks n = some s := by
  intro n
  induction n with
  | zero =>
    intro hle _
    have : s = 0 := by omega
    subst this
    simp only [findUp, hs, if_true]
  | succ n ih =>
    intro hle hno
    by_cases hsn : s = n + 1
    · subst hsn
      simp only [findUp, hs, if_true]
    · have hne : ks[n + 1]? ≠ some .deco := hno (n + 1) (by omega) (Nat.le_refl _)
      simp only [findUp, hne, if_false]
      exact ih (by omega) (fun i h1 h2 => hno i h1 (by omega))

theorem findUp_spec (ks : List LineKind) :
    ∀ n s, findUp ks n = some s →
      s ≤ n ∧ ks[s]? = some .deco ∧ ∀ i, s < i → i ≤ n → ks[i]? ≠ some .deco := by
  intro n
  induction n with
  | zero =>
    intro s h
    simp only [findUp] at h
    split at h
    · next h0 =>
      have : s = 0 := by injection h with h; exact h.symm
      subst this
      exact ⟨Nat.le_refl _, h0, fun i h1 h2 => by omega⟩
    · cases h
  | succ n ih =>
    intro s h
    simp only [findUp] at h
    split at h
    · next h0 =>
      have : s = n + 1 := by injection h with h; exact h.symm
      subst this
      exact ⟨Nat.le_refl _, h0, fun i h1 h2 => by omega⟩
    · next h0 =>
      obtain ⟨h1, h2, h3⟩ := ih s h
      refine ⟨by omega, h2, fun i hi1 hi2 => ?_⟩
      by_cases hi : i = n + 1
      · subst hi; exact h0
      · exact h3 i hi1 (by omega)

theorem findDownAux_spec (l : List LineKind) :
    ∀ i e, findDownAux l i = some e →
      i ≤ e ∧ (l[e - i]? = some .deco ∨ l[e - i]? = some .defcls) ∧
      ∀ j, j < e - i → l[j]? ≠ some .deco ∧ l[j]? ≠ some .defcls := by
  induction l with
  | nil => intro i e h; simp only [findDownAux] at h; cases h
  | cons k rest ih =>
    intro i e h
    simp only [findDownAux] at h
    split at h
    · next hk =>
      have : e = i := by injection h with h; exact h.symm
      subst this
      refine ⟨Nat.le_refl _, ?_, fun j hj => by omega⟩
      rw [Nat.sub_self, List.getElem?_cons_zero]
      cases hk with
      | inl hk => exact Or.inl (by rw [hk])
      | inr hk => exact Or.inr (by rw [hk])
    · next hk =>
      obtain ⟨h1, h2, h3⟩ := ih (i + 1) e h
      have hei : e - i = (e - (i + 1)) + 1 := by omega
      refine ⟨by omega, ?_, ?_⟩
      · rw [hei, List.getElem?_cons_succ]; exact h2
      · intro j hj
        cases j with
        | zero =>
          rw [List.getElem?_cons_zero]
          constructor
          · intro hc; injection hc with hc; exact hk (Or.inl hc)
          · intro hc; injection hc with hc; exact hk (Or.inr hc)
        | succ j =>
          rw [List.getElem?_cons_succ]
          exact h3 j (by omega)

theorem findDownAux_eq (l : List LineKind) :
    ∀ i e, i ≤ e → (l[e - i]? = some .deco ∨ l[e - i]? = some .defcls) →
      (∀ j, j < e - i → l[j]? ≠ some .deco ∧ l[j]? ≠ some .defcls) →
      findDownAux l i = some e := by
  induction l with
  | nil =>
    intro i e _ h _
    simp only [List.getElem?_nil] at h
    cases h with
    | inl h => cases h
    | inr h => cases h
  | cons k rest ih =>
    intro i e hle hend hmid
    simp only [findDownAux]
    by_cases hei : e = i
    · subst hei
      rw [Nat.sub_self, List.getElem?_cons_zero] at hend
      have hk : k = .deco ∨ k = .defcls := by
        cases hend with
        | inl h => injection h with h; exact Or.inl h
        | inr h => injection h with h; exact Or.inr h
      rw [if_pos hk]
    · have hpos : 0 < e - i := by omega
      have h0 := hmid 0 hpos
      rw [List.getElem?_cons_zero] at h0
      have hk : ¬ (k = .deco ∨ k = .defcls) := by
        intro hk
        cases hk with
        | inl hk => exact h0.1 (by rw [hk])
        | inr hk => exact h0.2 (by rw [hk])
      rw [if_neg hk]
      have hsub : e - i = (e - (i + 1)) + 1 := by omega
      apply ih (i + 1) e (by omega)
      · rw [hsub, List.getElem?_cons_succ] at hend; exact hend
      · intro j hj
        have := hmid (j + 1) (by omega)
        rw [List.getElem?_cons_succ] at this
        exact this

theorem findDown_spec (ks : List LineKind) (start e : Nat) (h : findDown ks start = some e) :
    start ≤ e ∧ (ks[e]? = some .deco ∨ ks[e]? = some .defcls) ∧
    ∀ i, start ≤ i → i < e → ks[i]? ≠ some .deco ∧ ks[i]? ≠ some .defcls := by
  obtain ⟨h1, h2, h3⟩ := findDownAux_spec (ks.drop start) start e h
  have hadd : start + (e - start) = e := by omega
  rw [List.getElem?_drop, hadd] at h2
  refine ⟨h1, h2, fun i hi1 hi2 => ?_⟩
  have := h3 (i - start) (by omega)
  rw [List.getElem?_drop] at this
  have hi : start + (i - start) = i := by omega
  rw [hi] at this
  exact this

theorem findDown_eq (ks : List LineKind) (start e : Nat) (hle : start ≤ e)
    (hend : ks[e]? = some .deco ∨ ks[e]? = some .defcls)
    (hmid : ∀ i, start ≤ i → i < e → ks[i]? ≠ some .deco ∧ ks[i]? ≠ some .defcls) :
    findDown ks start = some e := by
  unfold findDown
  apply findDownAux_eq (ks.drop start) start e hle
  · have hadd : start + (e - start) = e := by omega
    rw [List.getElem?_drop, hadd]; exact hend
  · intro j hj
    rw [List.getElem?_drop]
    exact hmid (start + j) (by omega) (by omega)

end Icontract.Src
