/- Theorems about the generic wrapper skeleton `checkedG`. -/
import IcontractModel.Lemmas.Generic
namespace Icontract
open Res

theorem Event.isCheck_not_body {e : Event} (h : e.isCheck = true) : e.isBody = false := by
  cases e <;> simp_all [Event.isCheck, Event.isBody]

theorem Event.isCheck_not_capture {e : Event} (h : e.isCheck = true) : e.isCapture = false := by
  cases e <;> simp_all [Event.isCheck, Event.isCapture]

theorem Event.isCapture_not_body {e : Event} (h : e.isCapture = true) : e.isBody = false := by
  cases e <;> simp_all [Event.isCapture, Event.isBody]

theorem Event.isBody_not_capture {e : Event} (h : e.isBody = true) : e.isCapture = false := by
  cases e <;> simp_all [Event.isCapture, Event.isBody]

/-- What the skeleton needs to know about its hooks. -/
structure HooksOK (h : Hooks) (tPre : Kwargs → Contract → Bool) : Prop where
  preT : ∀ kw c, (h.evPre kw c).out = .ok false ↔ tPre kw c = true
  preTrace : ∀ kw c, ∀ e ∈ (h.evPre kw c).trace, e.isCheck = true
  postTrace : ∀ kw c, ∀ e ∈ (h.evPost kw c).trace, e.isCheck = true
  errTrace : ∀ c kw, ∀ e ∈ (h.mkErr c kw).trace, e.isCheck = true
  capTrace : ∀ kw acc ss, ∀ e ∈ (h.capture kw acc ss).trace, e.isCapture = true
  bodyTrace : ∀ call, ∀ e ∈ (h.body call).trace, e.isBody = true
  bodyNonempty : ∀ call, ∃ e ∈ (h.body call).trace, e.isBody = true

theorem raiseIfSome_trace (v : Option Raised) : (raiseIfSome v).trace = [] := by
  cases v <;> rfl

theorem raiseIfSome_ok (v : Option Raised) (u : Unit) : (raiseIfSome v).out = .ok u ↔ v = none := by
  cases v <;> simp [raiseIfSome]

section
variable {h : Hooks} {tPre : Kwargs → Contract → Bool} (ok : HooksOK h tPre)
include ok

/-- an event that is neither a check event is only reachable after the preconditions passed -/
theorem checkedG_after_pre (ck : Checker) (call : Call) (e : Event)
    (he : e ∈ (checkedG h ck call).trace) (hnc : e.isCheck = false) :
    ck.pre = [] ∨ ∃ g ∈ ck.pre,
      ∀ c ∈ g, tPre (kwargsFromCall ck.paramNames ck.kwdefaults call.args call.kwargs ck.posOnly) c = true := by
  unfold checkedG at he
  simp only at he
  split at he
  · simp at he
  · rw [mem_bind_trace] at he
    rcases he with he | ⟨v, hv, he⟩
    · have := assertPreG_trace _ _ (fun e => e.isCheck = true) (ok.preTrace _) (fun c => ok.errTrace c _) ck.pre e he
      rw [this] at hnc; cases hnc
    · rw [mem_bind_trace] at he
      rcases he with he | ⟨u, hu, _⟩
      · rw [raiseIfSome_trace] at he; cases he
      · have hvn : v = none := (raiseIfSome_ok v u).mp hu
        subst hvn
        exact assertPreG_none _ _ (tPre _) (ok.preT _) ck.pre hv

theorem checkedG_body_dnf (ck : Checker) (call : Call)
    (hb : bodyEntered (checkedG h ck call).trace) :
    ck.pre = [] ∨ ∃ g ∈ ck.pre,
      ∀ c ∈ g, tPre (kwargsFromCall ck.paramNames ck.kwdefaults call.args call.kwargs ck.posOnly) c = true := by
  obtain ⟨e, he, hbe⟩ := hb
  apply checkedG_after_pre ok ck call e he
  cases hc : e.isCheck with
  | false => rfl
  | true => rw [Event.isCheck_not_body hc] at hbe; cases hbe

theorem checkedG_capture_dnf (ck : Checker) (call : Call)
    (hb : captured (checkedG h ck call).trace) :
    ck.pre = [] ∨ ∃ g ∈ ck.pre,
      ∀ c ∈ g, tPre (kwargsFromCall ck.paramNames ck.kwdefaults call.args call.kwargs ck.posOnly) c = true := by
  obtain ⟨e, he, hbe⟩ := hb
  apply checkedG_after_pre ok ck call e he
  cases hc : e.isCheck with
  | false => rfl
  | true => rw [Event.isCheck_not_capture hc] at hbe; cases hbe

end

/-- the precondition phase of the skeleton, total oracle, some group holds: the body is entered
(provided the reserved names are free and the captures succeed) -/
theorem checkedG_enters (h : Hooks) (tPre fPre : Kwargs → Contract → Bool) (ok : HooksOK h tPre)
    (hF : ∀ kw c, fPre kw c = true → (h.evPre kw c).out = .ok true)
    (ck : Checker) (call : Call)
    (hvalid : assertResolvedKwargsValid (!ck.posts.isEmpty)
      (kwargsFromCall ck.paramNames ck.kwdefaults call.args call.kwargs ck.posOnly) = none)
    (htot : ∀ g ∈ ck.pre, ∀ c ∈ g,
      tPre (kwargsFromCall ck.paramNames ck.kwdefaults call.args call.kwargs ck.posOnly) c = true ∨
      fPre (kwargsFromCall ck.paramNames ck.kwdefaults call.args call.kwargs ck.posOnly) c = true)
    (hdnf : ck.pre = [] ∨ ∃ g ∈ ck.pre,
      ∀ c ∈ g, tPre (kwargsFromCall ck.paramNames ck.kwdefaults call.args call.kwargs ck.posOnly) c = true)
    (hcap : ∃ old, (h.capture (kwargsFromCall ck.paramNames ck.kwdefaults call.args call.kwargs ck.posOnly) [] ck.snaps).out = .ok old) :
    bodyEntered (checkedG h ck call).trace := by
  obtain ⟨e, he, hbe⟩ := ok.bodyNonempty call
  refine ⟨e, ?_, hbe⟩
  unfold checkedG
  simp only [hvalid]
  have hpre : (assertPreG (h.evPre (kwargsFromCall ck.paramNames ck.kwdefaults call.args call.kwargs ck.posOnly))
      (fun c => h.mkErr c (kwargsFromCall ck.paramNames ck.kwdefaults call.args call.kwargs ck.posOnly)) ck.pre).out = .ok none := by
    unfold assertPreG
    have haux : (assertPreAuxG (h.evPre (kwargsFromCall ck.paramNames ck.kwdefaults call.args call.kwargs ck.posOnly)) none ck.pre).out = .ok none := by
      rcases hdnf with hnil | hex
      · rw [hnil]; rfl
      · exact assertPreAuxG_holds _ (tPre _) (fPre _) (ok.preT _) (hF _) ck.pre none htot hex
    rw [bind_out_of_ok haux]
    rfl
  rw [mem_bind_trace]; right
  refine ⟨none, hpre, ?_⟩
  rw [mem_bind_trace]; right
  refine ⟨(), rfl, ?_⟩
  obtain ⟨old, hold⟩ := hcap
  by_cases hc : (!ck.posts.isEmpty && !ck.snaps.isEmpty) = true
  · simp only [hc, if_true]
    rw [mem_bind_trace]; right
    refine ⟨_, (bind_out_of_ok hold).trans rfl, ?_⟩
    rw [mem_bind_trace]; left; exact he
  · simp only [hc]
    rw [mem_bind_trace]; right
    refine ⟨_, rfl, ?_⟩
    rw [mem_bind_trace]; left; exact he

/-- total oracle, no group holds: the error of the first falsy condition of the last group is raised,
no body, no capture -/
theorem checkedG_violated (h : Hooks) (tPre fPre : Kwargs → Contract → Bool) (ok : HooksOK h tPre)
    (hF : ∀ kw c, fPre kw c = true → (h.evPre kw c).out = .ok true)
    (ck : Checker) (call : Call)
    (hvalid : assertResolvedKwargsValid (!ck.posts.isEmpty)
      (kwargsFromCall ck.paramNames ck.kwdefaults call.args call.kwargs ck.posOnly) = none)
    (htot : ∀ g ∈ ck.pre, ∀ c ∈ g,
      tPre (kwargsFromCall ck.paramNames ck.kwdefaults call.args call.kwargs ck.posOnly) c = true ∨
      fPre (kwargsFromCall ck.paramNames ck.kwdefaults call.args call.kwargs ck.posOnly) c = true)
    (hno : ∀ g ∈ ck.pre, ¬ ∀ c ∈ g, tPre (kwargsFromCall ck.paramNames ck.kwdefaults call.args call.kwargs ck.posOnly) c = true)
    (gl : List Contract) (hgl : ck.pre.getLast? = some gl)
    (c : Contract) (hc : gl.find? (fun c => !tPre (kwargsFromCall ck.paramNames ck.kwdefaults call.args call.kwargs ck.posOnly) c) = some c)
    (err : Raised) (herr : (h.mkErr c (kwargsFromCall ck.paramNames ck.kwdefaults call.args call.kwargs ck.posOnly)).out = .ok err) :
    (checkedG h ck call).out = .error err := by
  unfold checkedG
  simp only [hvalid]
  have haux := assertPreAuxG_violated _ (tPre _) (fPre _) (ok.preT _) (hF _) ck.pre none htot hno
  rw [hgl] at haux
  simp only [hc] at haux
  have hpre : (assertPreG (h.evPre (kwargsFromCall ck.paramNames ck.kwdefaults call.args call.kwargs ck.posOnly))
      (fun c => h.mkErr c (kwargsFromCall ck.paramNames ck.kwdefaults call.args call.kwargs ck.posOnly)) ck.pre).out = .ok (some err) := by
    unfold assertPreG
    rw [bind_out_of_ok haux]
    simp only
    rw [bind_out_of_ok herr]
    rfl
  rw [bind_out_of_ok hpre]
  have : (raiseIfSome (some err)).out = .error err := rfl
  rw [bind_out_of_err this]

end Icontract
