/-
  Well-formedness of condition expressions as Python's `ast` produces them: a `BoolOp` has at least
  one operand (Python: at least two) and a `Compare` has at least one `(op, comparator)` link.
  Nothing is required of the parts of a comprehension (they are only harvested, best effort).
  Plus: the ids of the nodes outside comprehension scopes (`outerIds`), the complement of `innerIds`.
-/
import IcontractModel.Recompute
namespace Icontract.Ex

mutual
def Expr.wf : Expr → Bool
  | .const _ _ => true
  | .name _ _ => true
  | .attr _ e _ => e.wf
  | .subscr _ e ix => e.wf && ix.wf
  | .call _ f args => f.wf && wfList args
  | .unary _ _ e => e.wf
  | .bin _ _ l r => l.wf && r.wf
  | .boolop _ _ es => !es.isEmpty && wfList es
  | .compare _ left rest => left.wf && (!rest.isEmpty && wfCmp rest)
  | .ifexp _ c t e => c.wf && (t.wf && e.wf)
  | .display _ es => wfList es
  | .comp _ _ first _ => first.wf
  -- second version: a starred expression may only be an element of a display or a positional argument
  | .starred _ _ => false
  | .coll _ _ es => wfElts es
  | .dict _ items => wfItems items
  | .slice _ lo hi step => wfOpt lo && (wfOpt hi && wfOpt step)
  | .callkw _ f args kws => f.wf && (wfElts args && wfKws kws)
  | .fvalue _ e _ spec => e.wf && wfOpt spec
  | .fstring _ parts => wfList parts
def wfList : List Expr → Bool
  | [] => true
  | e :: rest => e.wf && wfList rest
def wfCmp : List (CmpOp × Expr) → Bool
  | [] => true
  | (_, e) :: rest => e.wf && wfCmp rest
def wfElts : List Expr → Bool
  | [] => true
  | .starred _ e :: rest => e.wf && wfElts rest
  | e :: rest => e.wf && wfElts rest
def wfItems : List (Option Expr × Expr) → Bool
  | [] => true
  | (k, e) :: rest => wfOpt k && (e.wf && wfItems rest)
def wfKws : List (Option String × Expr) → Bool
  | [] => true
  | (_, e) :: rest => e.wf && wfKws rest
def wfOpt : Option Expr → Bool
  | none => true
  | some e => e.wf
end

mutual
def outerIds : Expr → List Nat
  | .const i _ => [i]
  | .name i _ => [i]
  | .attr i e _ => i :: outerIds e
  | .subscr i e ix => i :: (outerIds e ++ outerIds ix)
  | .call i f args => i :: (outerIds f ++ outerIdsList args)
  | .unary i _ e => i :: outerIds e
  | .bin i _ l r => i :: (outerIds l ++ outerIds r)
  | .boolop i _ es => i :: outerIdsList es
  | .compare i left rest => i :: (outerIds left ++ outerIdsCmp rest)
  | .ifexp i c t e => i :: (outerIds c ++ outerIds t ++ outerIds e)
  | .display i es => i :: outerIdsList es
  | .comp i _ first _ => i :: outerIds first
  | .starred i e => i :: outerIds e
  | .coll i _ es => i :: outerIdsList es
  | .dict i items => i :: outerIdsItems items
  | .slice i lo hi step => i :: (outerIdsOpt lo ++ outerIdsOpt hi ++ outerIdsOpt step)
  | .callkw i f args kws => i :: (outerIds f ++ outerIdsList args ++ outerIdsKws kws)
  | .fvalue i e _ spec => i :: (outerIds e ++ outerIdsOpt spec)
  | .fstring i parts => i :: outerIdsList parts
def outerIdsList : List Expr → List Nat
  | [] => []
  | e :: rest => outerIds e ++ outerIdsList rest
def outerIdsCmp : List (CmpOp × Expr) → List Nat
  | [] => []
  | (_, e) :: rest => outerIds e ++ outerIdsCmp rest
def outerIdsItems : List (Option Expr × Expr) → List Nat
  | [] => []
  | (k, e) :: rest => outerIdsOpt k ++ outerIds e ++ outerIdsItems rest
def outerIdsKws : List (Option String × Expr) → List Nat
  | [] => []
  | (_, e) :: rest => outerIds e ++ outerIdsKws rest
def outerIdsOpt : Option Expr → List Nat
  | none => []
  | some e => outerIds e
end

mutual
/-- `true` iff the visitor records the nodes of `e` (outside comprehension scopes) in the very order Python evaluates
them: no dictionary item with a key (`k: v` - the visitor visits `v` first) and no formatted value with a format
specification (the visitor visits the specification first).  The parts of a comprehension do not matter. -/
def Expr.orderFaithful : Expr → Bool
  | .const _ _ => true
  | .name _ _ => true
  | .attr _ e _ => e.orderFaithful
  | .subscr _ e ix => e.orderFaithful && ix.orderFaithful
  | .call _ f args => f.orderFaithful && orderFaithfulList args
  | .unary _ _ e => e.orderFaithful
  | .bin _ _ l r => l.orderFaithful && r.orderFaithful
  | .boolop _ _ es => orderFaithfulList es
  | .compare _ left rest => left.orderFaithful && orderFaithfulCmp rest
  | .ifexp _ c t e => c.orderFaithful && (t.orderFaithful && e.orderFaithful)
  | .display _ es => orderFaithfulList es
  | .comp _ _ first _ => first.orderFaithful
  | .starred _ e => e.orderFaithful
  | .coll _ _ es => orderFaithfulList es
  | .dict _ items => orderFaithfulItems items
  | .slice _ lo hi step => orderFaithfulOpt lo && (orderFaithfulOpt hi && orderFaithfulOpt step)
  | .callkw _ f args kws => f.orderFaithful && (orderFaithfulList args && orderFaithfulKws kws)
  | .fvalue _ e _ spec => e.orderFaithful && spec.isNone
  | .fstring _ parts => orderFaithfulList parts
def orderFaithfulList : List Expr → Bool
  | [] => true
  | e :: rest => e.orderFaithful && orderFaithfulList rest
def orderFaithfulCmp : List (CmpOp × Expr) → Bool
  | [] => true
  | (_, e) :: rest => e.orderFaithful && orderFaithfulCmp rest
def orderFaithfulItems : List (Option Expr × Expr) → Bool
  | [] => true
  | (none, e) :: rest => e.orderFaithful && orderFaithfulItems rest
  | (some _, _) :: _ => false
def orderFaithfulKws : List (Option String × Expr) → Bool
  | [] => true
  | (_, e) :: rest => e.orderFaithful && orderFaithfulKws rest
def orderFaithfulOpt : Option Expr → Bool
  | none => true
  | some e => e.orderFaithful
end

end Icontract.Ex
