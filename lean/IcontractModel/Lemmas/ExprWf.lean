/-
  Well-formedness of condition expressions as Python's `ast` produces them: a `BoolOp` has at least
  one operand (Python: at least two) and a `Compare` has at least one `(op, comparator)` link.
  Nothing is required of the parts of a comprehension (they are only harvested, best effort).
  Plus: the ids of the nodes outside comprehension scopes (`outerIds`), the complement of `innerIds`.
-/
import IcontractModel.Recompute
namespace Icontract.Ex

mutual
def Expr.wf : Expr → Bool
  | .const _ _ => true
  | .name _ _ => true
  | .attr _ e _ => e.wf
  | .subscr _ e ix => e.wf && ix.wf
  | .call _ f args => f.wf && wfList args
  | .unary _ _ e => e.wf
  | .bin _ _ l r => l.wf && r.wf
  | .boolop _ _ es => !es.isEmpty && wfList es
  | .compare _ left rest => left.wf && (!rest.isEmpty && wfCmp rest)
  | .ifexp _ c t e => c.wf && (t.wf && e.wf)
  | .display _ es => wfList es
  | .comp _ _ _ => true
def wfList : List Expr → Bool
  | [] => true
  | e :: rest => e.wf && wfList rest
def wfCmp : List (CmpOp × Expr) → Bool
  | [] => true
  | (_, e) :: rest => e.wf && wfCmp rest
end

mutual
def outerIds : Expr → List Nat
  | .const i _ => [i]
  | .name i _ => [i]
  | .attr i e _ => i :: outerIds e
  | .subscr i e ix => i :: (outerIds e ++ outerIds ix)
  | .call i f args => i :: (outerIds f ++ outerIdsList args)
  | .unary i _ e => i :: outerIds e
  | .bin i _ l r => i :: (outerIds l ++ outerIds r)
  | .boolop i _ es => i :: outerIdsList es
  | .compare i left rest => i :: (outerIds left ++ outerIdsCmp rest)
  | .ifexp i c t e => i :: (outerIds c ++ outerIds t ++ outerIds e)
  | .display i es => i :: outerIdsList es
  | .comp i _ _ => [i]
def outerIdsList : List Expr → List Nat
  | [] => []
  | e :: rest => outerIds e ++ outerIdsList rest
def outerIdsCmp : List (CmpOp × Expr) → List Nat
  | [] => []
  | (_, e) :: rest => outerIds e ++ outerIdsCmp rest
end

end Icontract.Ex
