/-
  Helper lemmas for C12 (Conc model): a per-task invariant preserved by every micro-step of every
  task under the `perContext` discipline.
-/
import IcontractModel.Conc
namespace Icontract.Conc

/-! ### `getSet` / `putSet` / `putTask` algebra -/

@[simp] theorem putSet_tasks (w : World) (c : Nat) (s : List Id) : (putSet w c s).tasks = w.tasks := rfl
@[simp] theorem putTask_sets (w : World) (i : Nat) (t : Conc.Task) : (putTask w i t).sets = w.sets := rfl

@[simp] theorem putSet_sets_length (w : World) (c : Nat) (s : List Id) :
    (putSet w c s).sets.length = w.sets.length := by
  simp [putSet]

@[simp] theorem putTask_tasks_length (w : World) (i : Nat) (t : Conc.Task) :
    (putTask w i t).tasks.length = w.tasks.length := by
  simp [putTask]

theorem getSet_putSet_self {w : World} {c : Nat} (s : List Id) (h : c < w.sets.length) :
    getSet (putSet w c s) c = s := by
  simp [getSet, putSet, List.getElem?_mapIdx, List.getElem?_eq_getElem h]

theorem getSet_putSet_ne {w : World} {c c' : Nat} (s : List Id) (h : c' ≠ c) :
    getSet (putSet w c s) c' = getSet w c' := by
  simp [getSet, putSet, List.getElem?_mapIdx, h]

@[simp] theorem getSet_putTask (w : World) (i : Nat) (t : Conc.Task) (c : Nat) :
    getSet (putTask w i t) c = getSet w c := rfl

theorem putSet_getSet (w : World) (c : Nat) : putSet w c (getSet w c) = w := by
  cases w with
  | mk sets tasks =>
    simp only [putSet, getSet, World.mk.injEq, and_true]
    apply List.ext_getElem?
    intro i
    simp only [List.getElem?_mapIdx]
    cases h : sets[i]? with
    | none => rfl
    | some x =>
      by_cases hic : i = c
      · subst hic; simp [h]
      · simp [hic]

theorem putTask_self {w : World} {i : Nat} {t : Conc.Task} (h : w.tasks[i]? = some t) :
    putTask w i t = w := by
  cases w with
  | mk sets tasks =>
    simp only [putTask, World.mk.injEq, true_and]
    apply List.ext_getElem?
    intro j
    simp only [List.getElem?_mapIdx]
    cases hj : tasks[j]? with
    | none => rfl
    | some x =>
      by_cases hji : j = i
      · subst hji; simp at h; simp [h] at hj; simp [hj]
      · simp [hji]

theorem tasks_putTask_self {w : World} {i : Nat} {t0 : Conc.Task} (t : Conc.Task)
    (h : w.tasks[i]? = some t0) : (putTask w i t).tasks[i]? = some t := by
  simp [putTask, List.getElem?_mapIdx, h]

theorem tasks_putTask_ne {w : World} {i j : Nat} (t : Conc.Task) (h : j ≠ i) :
    (putTask w i t).tasks[j]? = w.tasks[j]? := by
  simp [putTask, List.getElem?_mapIdx, h]

/-! ### the micro-step seen from the stepping task -/

/-- what a micro-step does to the stepping task and to the value bound in its own context -/
def localStep (t : Conc.Task) (cur : List Id) : Conc.Task × List Id :=
  match t.pc, t.calls with
  | .idle, [] => (t, cur)
  | .idle, c :: _ =>
    if cur.contains c.f then ({ t with pc := .inBody c.bodyYields false cur }, cur)
    else
      match c.kind with
      | .ctor => ({ t with pc := .inBody c.bodyYields true cur }, addId cur c.f)
      | _ => ({ t with pc := .inCond c.condYields cur }, addId cur c.f)
  | .inCond (n + 1) e, _ => ({ t with pc := .inCond n e }, cur)
  | .inCond 0 e, c :: rest =>
    if c.preTruthy then
      ({ t with pc := .inBody c.bodyYields true e }, match c.kind with | .function => e | _ => cur)
    else ({ t with pc := .idle, calls := rest, verdicts := t.verdicts ++ [.violation] }, e)
  | .inCond 0 _, [] => (t, cur)
  | .inBody (n + 1) ck e, _ => ({ t with pc := .inBody n ck e }, cur)
  | .inBody 0 ck e, c :: rest =>
    if ck then
      ({ t with pc := .inPost c.postYields e }, match c.kind with | .function => addId e c.f | _ => cur)
    else ({ t with pc := .idle, calls := rest, verdicts := t.verdicts ++ [.returned] }, cur)
  | .inBody 0 _ _, [] => (t, cur)
  | .inPost (n + 1) e, _ => ({ t with pc := .inPost n e }, cur)
  | .inPost 0 e, c :: rest =>
    ({ t with pc := .idle, calls := rest,
              verdicts := t.verdicts ++ [if c.postTruthy then .returned else .postViolation] }, e)
  | .inPost 0 _, [] => (t, cur)

theorem microStep_eq_localStep {w : World} {i : Nat} {t : Conc.Task} (h : w.tasks[i]? = some t) :
    microStep .perContext w i =
      putTask (putSet w t.ctx (localStep t (getSet w t.ctx)).2) i (localStep t (getSet w t.ctx)).1 := by
  obtain ⟨ctx, calls, pc, verdicts, program⟩ := t
  have hs := putTask_self h
  cases pc with
  | idle =>
    cases calls with
    | nil => simp [microStep, localStep, h, putSet_getSet, hs]
    | cons c rest =>
      by_cases hc : c.f ∈ getSet w ctx
      · simp [microStep, localStep, h, putSet_getSet, hc]
      · cases hk : c.kind <;> simp [microStep, localStep, h, hc, hk]
  | inCond n e =>
    cases n with
    | zero =>
      cases calls with
      | nil => simp [microStep, localStep, h, putSet_getSet, hs]
      | cons c rest =>
        by_cases hc : c.preTruthy = true
        · cases hk : c.kind <;> simp [microStep, localStep, h, hc, hk, restore, putSet_getSet]
        · simp [microStep, localStep, h, hc, restore]
    | succ n => simp [microStep, localStep, h, putSet_getSet]
  | inBody n ck e =>
    cases n with
    | zero =>
      cases calls with
      | nil => simp [microStep, localStep, h, putSet_getSet, hs]
      | cons c rest =>
        cases ck
        · simp [microStep, localStep, h, putSet_getSet]
        · cases hk : c.kind <;> simp [microStep, localStep, h, hk, mark, putSet_getSet]
    | succ n => simp [microStep, localStep, h, putSet_getSet]
  | inPost n e =>
    cases n with
    | zero =>
      cases calls with
      | nil => simp [microStep, localStep, h, putSet_getSet, hs]
      | cons c rest => simp [microStep, localStep, h, restore]
    | succ n => simp [microStep, localStep, h, putSet_getSet]

theorem localStep_ctx (t : Conc.Task) (cur : List Id) : (localStep t cur).1.ctx = t.ctx := by
  unfold localStep
  split <;> (try split) <;> (try split) <;> rfl

/-! ### the per-task invariant -/

/-- what the program counter says about the value bound in the task's own context; `h` is the task's
"home" value: the value bound whenever it is between two calls -/
def PcOk (h : List Id) (calls : List CallSpec) (cur : List Id) : Pc → Prop
  | .idle => cur = h
  | .inCond _ e => e = h ∧ ∃ c rest, calls = c :: rest ∧ c.kind ≠ .ctor ∧ cur = addId h c.f
  | .inBody _ true e => e = h ∧ ∃ c rest, calls = c :: rest ∧ (c.kind ≠ .ctor → c.preTruthy = true) ∧
      cur = (if c.kind = .function then h else addId h c.f)
  | .inBody _ false _ => False
  | .inPost _ e => e = h ∧ ∃ c rest, calls = c :: rest ∧ (c.kind ≠ .ctor → c.preTruthy = true) ∧
      cur = addId h c.f

/-- `t` is a reachable state of a task whose home value is `h`; `cur` is the value bound in its context now -/
structure TInv (h : List Id) (t : Conc.Task) (cur : List Id) : Prop where
  prog : ∃ done, t.program = done ++ t.calls ∧ t.verdicts = done.map CallSpec.expected
  home : ∀ c ∈ t.calls, h.contains c.f = false
  pc : PcOk h t.calls cur t.pc

theorem expected_violation {c : CallSpec} (hk : c.kind ≠ .ctor) (hp : c.preTruthy = false) :
    c.expected = .violation := by
  cases hk' : c.kind <;> simp_all [CallSpec.expected]

theorem expected_post {c : CallSpec} (hp : c.kind ≠ .ctor → c.preTruthy = true) :
    c.expected = (if c.postTruthy then .returned else .postViolation) := by
  cases hk' : c.kind <;> simp_all [CallSpec.expected]

theorem localStep_inv {h : List Id} {t : Conc.Task} {cur : List Id} (hI : TInv h t cur) :
    TInv h (localStep t cur).1 (localStep t cur).2 := by
  obtain ⟨⟨done, hd, hv⟩, hhome, hpc⟩ := hI
  obtain ⟨ctx, calls, pc, verdicts, program⟩ := t
  simp only at hd hv hpc hhome
  cases pc with
  | idle =>
    simp only [PcOk] at hpc
    subst hpc
    cases calls with
    | nil => exact ⟨⟨done, hd, hv⟩, hhome, by simp [localStep, PcOk]⟩
    | cons c rest =>
      have hc : c.f ∉ cur := by simpa using hhome c (by simp)
      cases hk : c.kind with
      | ctor =>
        refine ⟨⟨done, ?_, ?_⟩, ?_, ?_⟩
        · simpa [localStep, hc, hk] using hd
        · simpa [localStep, hc, hk] using hv
        · simpa [localStep, hc, hk] using hhome
        · simp [localStep, hc, hk, PcOk]
      | function =>
        refine ⟨⟨done, ?_, ?_⟩, ?_, ?_⟩
        · simpa [localStep, hc, hk] using hd
        · simpa [localStep, hc, hk] using hv
        · simpa [localStep, hc, hk] using hhome
        · simp [localStep, hc, hk, PcOk]
      | method =>
        refine ⟨⟨done, ?_, ?_⟩, ?_, ?_⟩
        · simpa [localStep, hc, hk] using hd
        · simpa [localStep, hc, hk] using hv
        · simpa [localStep, hc, hk] using hhome
        · simp [localStep, hc, hk, PcOk]
  | inCond n e =>
    obtain ⟨he, c, rest, hcalls, hk, hcur⟩ := hpc
    subst he hcalls
    cases n with
    | succ n =>
      exact ⟨⟨done, hd, hv⟩, hhome, ⟨rfl, c, rest, rfl, hk, hcur⟩⟩
    | zero =>
      by_cases hp : c.preTruthy = true
      · refine ⟨⟨done, ?_, ?_⟩, ?_, ?_⟩
        · simpa [localStep, hp] using hd
        · simpa [localStep, hp] using hv
        · simpa [localStep, hp] using hhome
        · cases hk' : c.kind <;> simp_all [localStep, PcOk]
      · refine ⟨⟨done ++ [c], ?_, ?_⟩, ?_, ?_⟩
        · simpa [localStep, hp] using hd
        · simp [localStep, hp, hv, expected_violation hk (by simpa using hp)]
        · intro c' hc'
          exact hhome c' (by simp [localStep, hp] at hc'; simp [hc'])
        · simp [localStep, hp, PcOk]
  | inBody n ck e =>
    cases ck with
    | false => exact absurd hpc (by simp [PcOk])
    | true =>
      obtain ⟨he, c, rest, hcalls, hp, hcur⟩ := hpc
      subst he hcalls
      cases n with
      | succ n =>
        exact ⟨⟨done, hd, hv⟩, hhome, ⟨rfl, c, rest, rfl, hp, hcur⟩⟩
      | zero =>
        refine ⟨⟨done, ?_, ?_⟩, ?_, ?_⟩
        · simpa [localStep] using hd
        · simpa [localStep] using hv
        · simpa [localStep] using hhome
        · cases hk' : c.kind <;> simp_all [localStep, PcOk]
  | inPost n e =>
    obtain ⟨he, c, rest, hcalls, hp, hcur⟩ := hpc
    subst he hcalls
    cases n with
    | succ n =>
      exact ⟨⟨done, hd, hv⟩, hhome, ⟨rfl, c, rest, rfl, hp, hcur⟩⟩
    | zero =>
      refine ⟨⟨done ++ [c], ?_, ?_⟩, ?_, ?_⟩
      · simpa [localStep] using hd
      · simp [localStep, hv, expected_post hp]
      · intro c' hc'
        exact hhome c' (by simp [localStep] at hc'; simp [hc'])
      · simp [localStep, PcOk]

/-- what the invariant says about a finished prefix -/
theorem TInv.verdicts_take {h : List Id} {t : Conc.Task} {cur : List Id} (hI : TInv h t cur) :
    t.verdicts = (t.program.take t.verdicts.length).map CallSpec.expected ∧
    t.program = t.program.take t.verdicts.length ++ t.calls := by
  obtain ⟨done, hd, hv⟩ := hI.prog
  have hlen : t.verdicts.length = done.length := by simp [hv]
  have htake : t.program.take t.verdicts.length = done := by
    rw [hlen, hd]; simp
  rw [htake]
  exact ⟨hv, hd⟩

theorem TInv.checked {h : List Id} {t : Conc.Task} {cur : List Id} (hI : TInv h t cur) :
    ∀ n e, t.pc ≠ .inBody n false e := by
  intro n e hpc
  have := hI.pc
  rw [hpc] at this
  exact this

/-! ### the world invariant -/

/-- every task has its own in-range context and satisfies the per-task invariant for some home value
with the property `P` -/
structure Inv (P : List Id → Prop) (w : World) : Prop where
  distinctCtx : ∀ (i j : Nat) (ti tj : Conc.Task), w.tasks[i]? = some ti → w.tasks[j]? = some tj → i ≠ j → ti.ctx ≠ tj.ctx
  ctxInRange : ∀ (i : Nat) (ti : Conc.Task), w.tasks[i]? = some ti → ti.ctx < w.sets.length
  task : ∀ (i : Nat) (t : Conc.Task), w.tasks[i]? = some t → ∃ h, P h ∧ TInv h t (getSet w t.ctx)

theorem Inv.mono {P Q : List Id → Prop} {w : World} (hPQ : ∀ h, P h → Q h) (hI : Inv P w) : Inv Q w :=
  ⟨hI.distinctCtx, hI.ctxInRange, fun i t ht =>
    let ⟨h, hP, hT⟩ := hI.task i t ht
    ⟨h, hPQ h hP, hT⟩⟩

/-- the start conditions (same fields as `WellFormed` in Props/C12) -/
structure Start (w : World) : Prop where
  distinctCtx : ∀ (i j : Nat) (ti tj : Conc.Task), w.tasks[i]? = some ti → w.tasks[j]? = some tj → i ≠ j → ti.ctx ≠ tj.ctx
  ctxInRange : ∀ (i : Nat) (ti : Conc.Task), w.tasks[i]? = some ti → ti.ctx < w.sets.length
  startIdle : ∀ (i : Nat) (ti : Conc.Task), w.tasks[i]? = some ti → ti.pc = .idle ∧ ti.verdicts = [] ∧ ti.program = ti.calls
  notInProgress : ∀ (i : Nat) (ti : Conc.Task), w.tasks[i]? = some ti → ∀ c ∈ ti.calls, (getSet w ti.ctx).contains c.f = false

theorem Inv.init {w : World} (hw : Start w) : Inv (fun _ => True) w := by
  refine ⟨hw.distinctCtx, hw.ctxInRange, ?_⟩
  intro i t ht
  obtain ⟨hpc, hv, hprog⟩ := hw.startIdle i t ht
  refine ⟨getSet w t.ctx, trivial, ⟨[], by simp [hprog], by simp [hv]⟩, hw.notInProgress i t ht, ?_⟩
  rw [hpc]; simp [PcOk]

theorem Inv.microStep {P : List Id → Prop} {w : World} (h : Inv P w) (j : Nat) :
    Inv P (microStep .perContext w j) := by
  cases hj : w.tasks[j]? with
  | none =>
    have : Conc.microStep .perContext w j = w := by simp [Conc.microStep, hj]
    rw [this]; exact h
  | some tj =>
    rw [microStep_eq_localStep hj]
    have hrange : tj.ctx < w.sets.length := h.ctxInRange j tj hj
    -- the tasks of the new world
    have hget : ∀ i t, (putTask (putSet w tj.ctx (localStep tj (getSet w tj.ctx)).2) j
          (localStep tj (getSet w tj.ctx)).1).tasks[i]? = some t →
        (i = j ∧ t = (localStep tj (getSet w tj.ctx)).1) ∨ (i ≠ j ∧ w.tasks[i]? = some t) := by
      intro i t ht
      by_cases hij : i = j
      · subst hij
        rw [tasks_putTask_self (t0 := tj) _ (by simpa using hj)] at ht
        exact Or.inl ⟨rfl, (Option.some.inj ht).symm⟩
      · rw [tasks_putTask_ne _ hij, putSet_tasks] at ht
        exact Or.inr ⟨hij, ht⟩
    have hctx : ∀ (i : Nat) (t : Conc.Task), (putTask (putSet w tj.ctx (localStep tj (getSet w tj.ctx)).2) j
          (localStep tj (getSet w tj.ctx)).1).tasks[i]? = some t →
        ∃ t' : Conc.Task, w.tasks[i]? = some t' ∧ t'.ctx = t.ctx := by
      intro i t ht
      rcases hget i t ht with ⟨hi, ht'⟩ | ⟨_, ht'⟩
      · subst hi ht'
        exact ⟨tj, hj, (localStep_ctx _ _).symm⟩
      · exact ⟨t, ht', rfl⟩
    refine ⟨?_, ?_, ?_⟩
    · intro i k ti tk hi hk hik
      obtain ⟨ti', hi', hci⟩ := hctx i ti hi
      obtain ⟨tk', hk', hck⟩ := hctx k tk hk
      rw [← hci, ← hck]
      exact h.distinctCtx i k ti' tk' hi' hk' hik
    · intro i ti hi
      obtain ⟨ti', hi', hci⟩ := hctx i ti hi
      rw [← hci]
      simpa using h.ctxInRange i ti' hi'
    · intro i t ht
      rcases hget i t ht with ⟨hi, ht'⟩ | ⟨hij, ht'⟩
      · subst hi ht'
        obtain ⟨hh, hP, hT⟩ := h.task i tj hj
        refine ⟨hh, hP, ?_⟩
        rw [localStep_ctx, getSet_putTask, getSet_putSet_self _ hrange]
        exact localStep_inv hT
      · obtain ⟨hh, hP, hT⟩ := h.task i t ht'
        have hne : t.ctx ≠ tj.ctx := h.distinctCtx i j t tj ht' hj hij
        refine ⟨hh, hP, ?_⟩
        rw [getSet_putTask, getSet_putSet_ne _ hne]
        exact hT

theorem Inv.stepFuel {P : List Id → Prop} (fuel : Nat) :
    ∀ {w : World}, Inv P w → ∀ j, Inv P (stepFuel .perContext fuel w j) := by
  induction fuel with
  | zero => intro w h j; simpa [Conc.stepFuel] using h
  | succ n ih =>
    intro w h j
    unfold Conc.stepFuel
    split
    · exact h
    · split
      · exact h
      · simp only
        split
        · exact h.microStep j
        · exact ih (h.microStep j) j

theorem Inv.step {P : List Id → Prop} {w : World} (h : Inv P w) (j : Nat) :
    Inv P (step .perContext w j) := Inv.stepFuel 5 h j

/-! ### creation of tasks -/

/-- the world after a task has been created in a new context whose value is `s` -/
def spawned (w : World) (s : List Id) (calls : List CallSpec) : World :=
  { sets := w.sets ++ [s],
    tasks := w.tasks ++ [{ ctx := w.sets.length, calls := calls, program := calls }] }

theorem spawn_eq_spawned (w : World) (parent : Option Nat) (calls : List CallSpec) :
    ∃ s, spawn .perContext w parent calls = spawned w s calls ∧
      (s = [] ∨ ∃ p tp, parent = some p ∧ w.tasks[p]? = some tp ∧ s = getSet w tp.ctx) := by
  cases parent with
  | none => exact ⟨[], rfl, Or.inl rfl⟩
  | some p =>
    cases hp : w.tasks[p]? with
    | none => exact ⟨[], by simp [spawn, spawned, hp], Or.inl rfl⟩
    | some tp => exact ⟨getSet w tp.ctx, by simp [spawn, spawned, hp], Or.inr ⟨p, tp, rfl, hp, rfl⟩⟩

theorem getSet_spawned_lt {w : World} {s : List Id} {calls : List CallSpec} {c : Nat}
    (hc : c < w.sets.length) : getSet (spawned w s calls) c = getSet w c := by
  simp [getSet, spawned, List.getElem?_append_left hc]

theorem getSet_spawned_new (w : World) (s : List Id) (calls : List CallSpec) :
    getSet (spawned w s calls) w.sets.length = s := by
  simp [getSet, spawned]

theorem tasks_spawned {w : World} {s : List Id} {calls : List CallSpec} {i : Nat} {t : Conc.Task}
    (ht : (spawned w s calls).tasks[i]? = some t) :
    w.tasks[i]? = some t ∨
      (i = w.tasks.length ∧ t = { ctx := w.sets.length, calls := calls, program := calls }) := by
  by_cases hi : i < w.tasks.length
  · left
    simpa [spawned, List.getElem?_append_left hi] using ht
  · right
    have hi' : w.tasks.length ≤ i := Nat.le_of_not_lt hi
    simp only [spawned, List.getElem?_append_right hi'] at ht
    by_cases h0 : i - w.tasks.length = 0
    · rw [h0] at ht
      simp at ht
      exact ⟨by omega, ht.symm⟩
    · obtain ⟨k, hk⟩ := Nat.exists_eq_succ_of_ne_zero h0
      rw [hk] at ht
      simp at ht

theorem Inv.spawned {P : List Id → Prop} {w : World} (h : Inv P w) {s : List Id} {calls : List CallSpec}
    (hP : P s) (hs : ∀ c ∈ calls, s.contains c.f = false) : Inv P (spawned w s calls) := by
  have hold : ∀ i t, w.tasks[i]? = some t → i < w.tasks.length :=
    fun i t ht => (List.getElem?_eq_some_iff.mp ht).1
  refine ⟨?_, ?_, ?_⟩
  · intro i j ti tj hi hj hij
    rcases tasks_spawned hi with hi' | ⟨hi1, hi2⟩ <;> rcases tasks_spawned hj with hj' | ⟨hj1, hj2⟩
    · exact h.distinctCtx i j ti tj hi' hj' hij
    · have := h.ctxInRange i ti hi'
      subst hj2
      exact Nat.ne_of_lt this
    · have := h.ctxInRange j tj hj'
      subst hi2
      exact (Nat.ne_of_lt this).symm
    · exact absurd (hi1.trans hj1.symm) hij
  · intro i ti hi
    rcases tasks_spawned hi with hi' | ⟨_, hi2⟩
    · have := h.ctxInRange i ti hi'
      simp [Conc.spawned]; omega
    · subst hi2
      simp [Conc.spawned]
  · intro i t ht
    rcases tasks_spawned ht with ht' | ⟨_, ht2⟩
    · obtain ⟨hh, hPh, hT⟩ := h.task i t ht'
      refine ⟨hh, hPh, ?_⟩
      rw [getSet_spawned_lt (h.ctxInRange i t ht')]
      exact hT
    · subst ht2
      refine ⟨s, hP, ⟨[], by simp, by simp⟩, hs, ?_⟩
      simp only [getSet_spawned_new]
      simp [PcOk]

/-- one operation of a schedule -/
theorem Inv.applyOp {P : List Id → Prop} {w : World} (h : Inv P w) (hP0 : P []) {op : Op}
    (hsafe : opSafe w op = true)
    (hP : ∀ p calls tp, op = .fork p calls → w.tasks[p]? = some tp → P (getSet w tp.ctx)) :
    Inv P (applyOp .perContext w op) := by
  cases op with
  | run i => exact h.step i
  | thread calls =>
    obtain ⟨s, heq, hs⟩ := spawn_eq_spawned w none calls
    simp only [Conc.applyOp]
    rw [heq]
    rcases hs with hs | ⟨p, tp, hp, _, _⟩
    · subst hs
      exact h.spawned hP0 (by simp)
    · cases hp
  | fork p calls =>
    obtain ⟨s, heq, hs⟩ := spawn_eq_spawned w (some p) calls
    simp only [Conc.applyOp]
    rw [heq]
    rcases hs with hs | ⟨p', tp, hp, htp, hs⟩
    · subst hs
      exact h.spawned hP0 (by simp)
    · cases hp
      subst hs
      refine h.spawned (hP p calls tp rfl htp) ?_
      intro c hc
      simp only [opSafe, htp, List.all_eq_true] at hsafe
      simpa using hsafe c hc

theorem Inv.runOps (ops : List Op) :
    ∀ {w : World}, Inv (fun _ => True) w → safeOps .perContext w ops = true →
      Inv (fun _ => True) (runOps .perContext w ops) := by
  induction ops with
  | nil => intro w h _; simpa [Conc.runOps] using h
  | cons op rest ih =>
    intro w h hs
    simp only [safeOps, Bool.and_eq_true] at hs
    simp only [Conc.runOps, List.foldl_cons]
    exact ih (h.applyOp trivial hs.1 (fun _ _ _ _ _ => trivial)) hs.2

/-- every reachable task state satisfies the per-task invariant -/
theorem reachable_task {w0 : World} (hw : Start w0) (ops : List Op)
    (hs : safeOps .perContext w0 ops = true) (i : Nat) (t : Conc.Task)
    (h : (runOps .perContext w0 ops).tasks[i]? = some t) :
    ∃ hh, TInv hh t (getSet (runOps .perContext w0 ops) t.ctx) := by
  obtain ⟨hh, _, hT⟩ := (Inv.runOps ops (Inv.init hw) hs).task i t h
  exact ⟨hh, hT⟩

/-! ### the start of a process; copies made outside checks -/

theorem start_tasks {ps : List (List CallSpec)} {i : Nat} {t : Conc.Task}
    (h : (World.start ps).tasks[i]? = some t) :
    ∃ p, ps[i]? = some p ∧ t = { ctx := i, calls := p, program := p } := by
  simp only [World.start, List.getElem?_map, List.getElem?_zipIdx] at h
  cases hp : ps[i]? with
  | none => simp [hp] at h
  | some p =>
    simp [hp] at h
    exact ⟨p, rfl, h.symm⟩

theorem start_getSet (ps : List (List CallSpec)) (c : Nat) : getSet (World.start ps) c = [] := by
  simp only [getSet, World.start, List.getElem?_map]
  cases ps[c]? <;> rfl

theorem start_Start (ps : List (List CallSpec)) : Start (World.start ps) := by
  refine ⟨?_, ?_, ?_, ?_⟩
  · intro i j ti tj hi hj hij
    obtain ⟨_, _, rfl⟩ := start_tasks hi
    obtain ⟨_, _, rfl⟩ := start_tasks hj
    exact hij
  · intro i ti hi
    obtain ⟨p, hp, rfl⟩ := start_tasks hi
    have := (List.getElem?_eq_some_iff.mp hp).1
    simpa [World.start] using this
  · intro i ti hi
    obtain ⟨_, _, rfl⟩ := start_tasks hi
    exact ⟨rfl, rfl, rfl⟩
  · intro i ti _ c _
    rw [start_getSet]; rfl

theorem Inv.start (ps : List (List CallSpec)) : Inv (fun h => h = []) (World.start ps) := by
  have hw := start_Start ps
  refine ⟨hw.distinctCtx, hw.ctxInRange, ?_⟩
  intro i t ht
  obtain ⟨hpc, hv, hprog⟩ := hw.startIdle i t ht
  refine ⟨[], rfl, ⟨[], by simp [hprog], by simp [hv]⟩, by simp, ?_⟩
  rw [hpc, start_getSet]; simp [PcOk]

/-- between two calls, or in the body of a function, the value bound is the home value -/
theorem TInv.outside_home {h : List Id} {t : Conc.Task} {cur : List Id} (hI : TInv h t cur)
    (ho : t.pc = .idle ∨ ∃ n e c rest, t.pc = .inBody n true e ∧ t.calls = c :: rest ∧ c.kind = .function) :
    cur = h := by
  have hpc := hI.pc
  rcases ho with ho | ⟨n, e, c, rest, ho, hc, hk⟩
  · rw [ho] at hpc; exact hpc
  · rw [ho] at hpc
    obtain ⟨_, c', rest', hc', _, hcur⟩ := hpc
    rw [hc] at hc'
    obtain ⟨rfl, _⟩ := List.cons.inj hc'
    simpa [hk] using hcur

end Icontract.Conc
