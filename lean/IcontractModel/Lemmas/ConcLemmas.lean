/-
  Helper lemmas for C12 (Conc model): a per-task invariant preserved by every micro-step of every
  task under the `perContext` discipline.
-/
import IcontractModel.Conc
namespace Icontract.Conc

/-! ### `getSet` / `putSet` / `putTask` algebra -/

@[simp] theorem putSet_tasks (w : World) (c : Nat) (s : List Id) : (putSet w c s).tasks = w.tasks := rfl
@[simp] theorem putTask_sets (w : World) (i : Nat) (t : Conc.Task) : (putTask w i t).sets = w.sets := rfl

@[simp] theorem putSet_sets_length (w : World) (c : Nat) (s : List Id) :
    (putSet w c s).sets.length = w.sets.length := by
  simp [putSet]

@[simp] theorem putTask_tasks_length (w : World) (i : Nat) (t : Conc.Task) :
    (putTask w i t).tasks.length = w.tasks.length := by
  simp [putTask]

theorem getSet_putSet_self {w : World} {c : Nat} (s : List Id) (h : c < w.sets.length) :
    getSet (putSet w c s) c = s := by
  simp [getSet, putSet, List.getElem?_mapIdx, List.getElem?_eq_getElem h]

theorem getSet_putSet_ne {w : World} {c c' : Nat} (s : List Id) (h : c' ≠ c) :
    getSet (putSet w c s) c' = getSet w c' := by
  simp [getSet, putSet, List.getElem?_mapIdx, h]

@[simp] theorem getSet_putTask (w : World) (i : Nat) (t : Conc.Task) (c : Nat) :
    getSet (putTask w i t) c = getSet w c := rfl

theorem putSet_getSet (w : World) (c : Nat) : putSet w c (getSet w c) = w := by
  cases w with
  | mk sets tasks =>
    simp only [putSet, getSet, World.mk.injEq, and_true]
    apply List.ext_getElem?
    intro i
    simp only [List.getElem?_mapIdx]
    cases h : sets[i]? with
    | none => rfl
    | some x =>
      by_cases hic : i = c
      · subst hic; simp [h]
      · simp [hic]

theorem putTask_self {w : World} {i : Nat} {t : Conc.Task} (h : w.tasks[i]? = some t) :
    putTask w i t = w := by
  cases w with
  | mk sets tasks =>
    simp only [putTask, World.mk.injEq, true_and]
    apply List.ext_getElem?
    intro j
    simp only [List.getElem?_mapIdx]
    cases hj : tasks[j]? with
    | none => rfl
    | some x =>
      by_cases hji : j = i
      · subst hji; simp at h; simp [h] at hj; simp [hj]
      · simp [hji]

theorem tasks_putTask_self {w : World} {i : Nat} {t0 : Conc.Task} (t : Conc.Task)
    (h : w.tasks[i]? = some t0) : (putTask w i t).tasks[i]? = some t := by
  simp [putTask, List.getElem?_mapIdx, h]

theorem tasks_putTask_ne {w : World} {i j : Nat} (t : Conc.Task) (h : j ≠ i) :
    (putTask w i t).tasks[j]? = w.tasks[j]? := by
  simp [putTask, List.getElem?_mapIdx, h]

/-! ### the micro-step seen from the stepping task -/

/-- what a micro-step does to the stepping task and to the value bound in its own context -/
def localStep (t : Conc.Task) (cur : List Id) : Conc.Task × List Id :=
  match t.pc, t.calls with
  | .idle, [] => (t, cur)
  | .idle, c :: _ =>
    if cur.contains c.f then ({ t with pc := .inBody c.bodyYields false cur }, cur)
    else ({ t with pc := .inCond c.condYields cur }, addId cur c.f)
  | .inCond (n + 1) e, _ => ({ t with pc := .inCond n e }, cur)
  | .inCond 0 e, c :: rest =>
    if c.preTruthy then ({ t with pc := .inBody c.bodyYields true e }, e)
    else ({ t with pc := .idle, calls := rest, verdicts := t.verdicts ++ [.violation] }, e)
  | .inCond 0 _, [] => (t, cur)
  | .inBody (n + 1) ck e, _ => ({ t with pc := .inBody n ck e }, cur)
  | .inBody 0 ck e, _ :: rest =>
    ({ t with pc := .idle, calls := rest, verdicts := t.verdicts ++ [.returned] }, if ck then e else cur)
  | .inBody 0 _ _, [] => (t, cur)

theorem microStep_eq_localStep {w : World} {i : Nat} {t : Conc.Task} (h : w.tasks[i]? = some t) :
    microStep .perContext w i =
      putTask (putSet w t.ctx (localStep t (getSet w t.ctx)).2) i (localStep t (getSet w t.ctx)).1 := by
  obtain ⟨ctx, calls, pc, verdicts⟩ := t
  have hs := putTask_self h
  cases pc with
  | idle =>
    cases calls with
    | nil => simp [microStep, localStep, h, putSet_getSet, hs]
    | cons c rest =>
      by_cases hc : c.f ∈ getSet w ctx
      · simp [microStep, localStep, h, putSet_getSet, hc]
      · simp [microStep, localStep, h, hc]
  | inCond n e =>
    cases n with
    | zero =>
      cases calls with
      | nil => simp [microStep, localStep, h, putSet_getSet, hs]
      | cons c rest =>
        by_cases hc : c.preTruthy = true
        · simp [microStep, localStep, h, hc]
        · simp [microStep, localStep, h, hc]
    | succ n => simp [microStep, localStep, h, putSet_getSet]
  | inBody n ck e =>
    cases n with
    | zero =>
      cases calls with
      | nil => simp [microStep, localStep, h, putSet_getSet, hs]
      | cons c rest =>
        cases ck <;> simp [microStep, localStep, h, putSet_getSet]
    | succ n => simp [microStep, localStep, h, putSet_getSet]

/-! ### the per-task invariant -/

/-- what the program counter says about the value bound in the task's own context -/
def PcOk (e0 : List Id) (calls : List CallSpec) (cur : List Id) : Pc → Prop
  | .idle => cur = e0
  | .inCond _ e => e = e0 ∧ ∃ c rest, calls = c :: rest ∧ cur = addId e0 c.f
  | .inBody _ true e => e = e0 ∧ cur = e0 ∧ ∃ c rest, calls = c :: rest ∧ c.preTruthy = true
  | .inBody _ false _ => False

/-- `t` is a reachable state of the task that started as `t0` with `e0` bound in its context;
`cur` is the value bound there now -/
structure TInv (e0 : List Id) (t0 t : Conc.Task) (cur : List Id) : Prop where
  ctx : t.ctx = t0.ctx
  prog : ∃ done, t0.calls = done ++ t.calls ∧ t.verdicts = done.map CallSpec.expected
  pc : PcOk e0 t.calls cur t.pc

theorem localStep_ctx (t : Conc.Task) (cur : List Id) : (localStep t cur).1.ctx = t.ctx := by
  unfold localStep
  split <;> (try split) <;> rfl

theorem localStep_inv {e0 : List Id} {t0 t : Conc.Task} {cur : List Id}
    (hnp : ∀ c ∈ t0.calls, e0.contains c.f = false) (h : TInv e0 t0 t cur) :
    TInv e0 t0 (localStep t cur).1 (localStep t cur).2 := by
  obtain ⟨hctx, ⟨done, hd, hv⟩, hpc⟩ := h
  obtain ⟨ctx, calls, pc, verdicts⟩ := t
  simp only at hctx hd hv hpc
  cases pc with
  | idle =>
    simp only [PcOk] at hpc
    subst hpc
    cases calls with
    | nil => exact ⟨hctx, ⟨done, hd, hv⟩, by simp [localStep, PcOk]⟩
    | cons c rest =>
      have hc : c.f ∉ cur := by simpa using hnp c (by simp [hd])
      refine ⟨by simp [localStep, hc, hctx], ⟨done, ?_, ?_⟩, ?_⟩
      · simpa [localStep, hc] using hd
      · simpa [localStep, hc] using hv
      · simp [localStep, hc, PcOk]
  | inCond n e =>
    obtain ⟨he, c, rest, hcalls, hcur⟩ := hpc
    subst he hcalls
    cases n with
    | succ n =>
      exact ⟨hctx, ⟨done, hd, hv⟩, ⟨rfl, c, rest, rfl, hcur⟩⟩
    | zero =>
      by_cases hp : c.preTruthy = true
      · refine ⟨by simp [localStep, hp, hctx], ⟨done, ?_, ?_⟩, ?_⟩
        · simpa [localStep, hp] using hd
        · simpa [localStep, hp] using hv
        · simp [localStep, hp, PcOk]
      · refine ⟨by simp [localStep, hp, hctx], ⟨done ++ [c], ?_, ?_⟩, ?_⟩
        · simpa [localStep, hp] using hd
        · simp [localStep, hp, hv, CallSpec.expected]
        · simp [localStep, hp, PcOk]
  | inBody n ck e =>
    cases ck with
    | false => exact absurd hpc (by simp [PcOk])
    | true =>
      obtain ⟨he, hcur, c, rest, hcalls, hp⟩ := hpc
      subst he hcalls hcur
      cases n with
      | succ n =>
        exact ⟨hctx, ⟨done, hd, hv⟩, ⟨rfl, rfl, c, rest, rfl, hp⟩⟩
      | zero =>
        refine ⟨by simp [localStep, hctx], ⟨done ++ [c], ?_, ?_⟩, ?_⟩
        · simpa [localStep] using hd
        · simp [localStep, hv, CallSpec.expected, hp]
        · simp [localStep, PcOk]

/-! ### the world invariant -/

/-- `w` is reachable from the well-formed start `w0` -/
structure Inv (w0 w : World) : Prop where
  setsLen : w.sets.length = w0.sets.length
  tasksLen : w.tasks.length = w0.tasks.length
  task : ∀ (i : Nat) (t0 t : Conc.Task), w0.tasks[i]? = some t0 → w.tasks[i]? = some t →
    TInv (getSet w0 t0.ctx) t0 t (getSet w t.ctx)

/-- the start conditions (same fields as `WellFormed` in Props/C12) -/
structure Start (w : World) : Prop where
  distinctCtx : ∀ (i j : Nat) (ti tj : Conc.Task), w.tasks[i]? = some ti → w.tasks[j]? = some tj → i ≠ j → ti.ctx ≠ tj.ctx
  ctxInRange : ∀ (i : Nat) (ti : Conc.Task), w.tasks[i]? = some ti → ti.ctx < w.sets.length
  startIdle : ∀ (i : Nat) (ti : Conc.Task), w.tasks[i]? = some ti → ti.pc = .idle ∧ ti.verdicts = []
  notInProgress : ∀ (i : Nat) (ti : Conc.Task), w.tasks[i]? = some ti → ∀ c ∈ ti.calls, (getSet w ti.ctx).contains c.f = false

theorem Inv.init {w0 : World} (hw : Start w0) : Inv w0 w0 := by
  refine ⟨rfl, rfl, ?_⟩
  intro i t0 t h0 ht
  have : t0 = t := by rw [h0] at ht; exact Option.some.inj ht
  subst this
  obtain ⟨hpc, hv⟩ := hw.startIdle i t0 h0
  refine ⟨rfl, ⟨[], by simp, by simp [hv]⟩, ?_⟩
  rw [hpc]; simp [PcOk]

theorem Inv.microStep {w0 w : World} (hw : Start w0) (h : Inv w0 w) (j : Nat) :
    Inv w0 (microStep .perContext w j) := by
  cases hj : w.tasks[j]? with
  | none =>
    have : Conc.microStep .perContext w j = w := by simp [Conc.microStep, hj]
    rw [this]; exact h
  | some tj =>
    rw [microStep_eq_localStep hj]
    have hjlt : j < w0.tasks.length := by
      rw [← h.tasksLen]
      exact (List.getElem?_eq_some_iff.mp hj).1
    have h0j : w0.tasks[j]? = some w0.tasks[j] := List.getElem?_eq_getElem hjlt
    have hTj := h.task j _ tj h0j hj
    have hrange : tj.ctx < w.sets.length := by
      rw [hTj.ctx, h.setsLen]; exact hw.ctxInRange j _ h0j
    refine ⟨by simp [h.setsLen], by simp [h.tasksLen], ?_⟩
    intro i t0 t h0 ht
    by_cases hij : i = j
    · subst hij
      have h0eq : w0.tasks[i] = t0 := by rw [h0j] at h0; exact Option.some.inj h0
      subst h0eq
      rw [tasks_putTask_self (t0 := tj) _ (by simpa using hj)] at ht
      have hteq := Option.some.inj ht
      subst hteq
      have hcur : getSet (putTask (putSet w tj.ctx (localStep tj (getSet w tj.ctx)).2) i
            (localStep tj (getSet w tj.ctx)).1) (localStep tj (getSet w tj.ctx)).1.ctx
          = (localStep tj (getSet w tj.ctx)).2 := by
        rw [localStep_ctx, getSet_putTask, getSet_putSet_self _ hrange]
      rw [hcur]
      exact localStep_inv (hw.notInProgress i _ h0j) hTj
    · rw [tasks_putTask_ne _ hij, putSet_tasks] at ht
      have hTi := h.task i t0 t h0 ht
      have hne : t.ctx ≠ tj.ctx := by
        rw [hTi.ctx, hTj.ctx]
        exact hw.distinctCtx i j _ _ h0 h0j hij
      rw [getSet_putTask, getSet_putSet_ne _ hne]
      exact hTi

theorem Inv.stepFuel {w0 : World} (hw : Start w0) (fuel : Nat) :
    ∀ {w : World}, Inv w0 w → ∀ j, Inv w0 (stepFuel .perContext fuel w j) := by
  induction fuel with
  | zero => intro w h j; simpa [Conc.stepFuel] using h
  | succ n ih =>
    intro w h j
    unfold Conc.stepFuel
    split
    · exact h
    · split
      · exact h
      · simp only
        split
        · exact h.microStep hw j
        · exact ih (h.microStep hw j) j

theorem Inv.step {w0 w : World} (hw : Start w0) (h : Inv w0 w) (j : Nat) :
    Inv w0 (step .perContext w j) := Inv.stepFuel hw 4 h j

theorem Inv.runSchedule {w0 : World} (hw : Start w0) (sched : List Nat) :
    ∀ {w : World}, Inv w0 w → Inv w0 (runSchedule .perContext w sched) := by
  induction sched with
  | nil => intro w h; simpa [Conc.runSchedule] using h
  | cons j js ih =>
    intro w h
    simp only [Conc.runSchedule, List.foldl_cons]
    exact ih (h.step hw j)

/-- every reachable task state satisfies the per-task invariant -/
theorem reachable_task {w0 : World} (hw : Start w0) (sched : List Nat) (i : Nat) (t0 t : Conc.Task)
    (h0 : w0.tasks[i]? = some t0) (h : (runSchedule .perContext w0 sched).tasks[i]? = some t) :
    TInv (getSet w0 t0.ctx) t0 t (getSet (runSchedule .perContext w0 sched) t.ctx) :=
  (Inv.runSchedule hw sched (Inv.init hw)).task i t0 t h0 h

/-- the slot `i` exists in every reachable world iff it exists at the start -/
theorem reachable_task_orig {w0 : World} (hw : Start w0) (sched : List Nat) (i : Nat) (t : Conc.Task)
    (h : (runSchedule .perContext w0 sched).tasks[i]? = some t) : ∃ t0, w0.tasks[i]? = some t0 := by
  have hlen := (Inv.runSchedule hw sched (Inv.init hw)).tasksLen
  have : i < w0.tasks.length := by
    rw [← hlen]; exact (List.getElem?_eq_some_iff.mp h).1
  exact ⟨_, List.getElem?_eq_getElem this⟩

end Icontract.Conc
