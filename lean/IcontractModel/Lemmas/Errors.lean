/- Which exceptions the evaluation sites can raise (used by C11 "no lost error"). -/
import IcontractModel.Lemmas.Instances
namespace Icontract
open Res

theorem judge_error (c : Contract) (a : Ans) (r : Raised) (h : (judge c a).out = .error r) :
    (∃ e, a = .raises e ∧ r = .user e) ∨
    (∃ v e, a = .val v (.raises e) ∧
      ((e.isException = true ∧ r = .valueErr (.negateFailed c.id) (some e)) ∨ (e.isException = false ∧ r = .user e))) := by
  cases a with
  | raises e => left; simp [judge] at h; exact ⟨e, rfl, h.symm⟩
  | coro a => simp [judge] at h
  | val v t =>
    cases t with
    | truthy => simp [judge] at h
    | falsy => simp [judge] at h
    | raises e =>
      right
      refine ⟨v, e, rfl, ?_⟩
      by_cases he : e.isException = true
      · left; simp [judge, he] at h; exact ⟨he, h.symm⟩
      · right; simp [judge, he] at h; exact ⟨by simpa using he, h.symm⟩

theorem evalPreSync_error (o : Oracle) (kw : Kwargs) (c : Contract) (r : Raised)
    (h : (evalPreSync o kw c).out = .error r) :
    (∃ ns, r = .typeErr (.missingCondArgs c.id ns)) ∨
    (∃ k, r = .valueErr k none) ∨
    (∃ e, o.cond c.id = .raises e ∧ r = .user e) ∨
    (∃ v e, o.cond c.id = .val v (.raises e) ∧
      ((e.isException = true ∧ r = .valueErr (.negateFailed c.id) (some e)) ∨ (e.isException = false ∧ r = .user e))) := by
  unfold evalPreSync selectConditionKwargs at h
  by_cases hm : (missingNames c.mandatory kw).isEmpty = true
  · simp only [hm, if_true, pure_bind'] at h
    by_cases hc : c.coroFn = true
    · simp only [hc, if_true, raise_out] at h
      right; left; exact ⟨_, (Except.error.inj h).symm⟩
    · simp only [hc, Bool.false_eq_true, if_false, emit_bind_out] at h
      cases ho : o.cond c.id with
      | coro a =>
        simp only [ho, raise_out] at h
        right; left; exact ⟨_, (Except.error.inj h).symm⟩
      | raises e =>
        simp only [ho] at h
        right; right
        rcases judge_error _ _ _ h with h | h
        · left; exact h
        · right; exact h
      | val v t =>
        simp only [ho] at h
        right; right
        rcases judge_error _ _ _ h with h | h
        · left; exact h
        · right; exact h
  · simp only [hm, Bool.false_eq_true, if_false, raise_bind, raise_out] at h
    left; exact ⟨_, (Except.error.inj h).symm⟩

theorem evalCondAsync_error (o : Oracle) (kw : Kwargs) (c : Contract) (r : Raised)
    (h : (evalCondAsync o kw c).out = .error r) :
    (∃ ns, r = .typeErr (.missingCondArgs c.id ns)) ∨
    (∃ e, (o.cond c.id = .raises e ∨ o.cond c.id = .coro (.raises e)) ∧ r = .user e) ∨
    (∃ v e, (o.cond c.id = .val v (.raises e) ∨ o.cond c.id = .coro (.val v (.raises e))) ∧
      ((e.isException = true ∧ r = .valueErr (.negateFailed c.id) (some e)) ∨ (e.isException = false ∧ r = .user e))) := by
  unfold evalCondAsync selectConditionKwargs at h
  by_cases hm : (missingNames c.mandatory kw).isEmpty = true
  · simp only [hm, if_true, pure_bind', emit_bind_out] at h
    right
    by_cases hc : c.coroFn = true
    · simp only [hc, if_true] at h
      rcases judge_error _ _ _ h with ⟨e, ha, hr⟩ | ⟨v, e, ha, hr⟩
      · left; exact ⟨e, Or.inl ha, hr⟩
      · right; exact ⟨v, e, Or.inl ha, hr⟩
    · simp only [hc, Bool.false_eq_true, if_false] at h
      cases ho : o.cond c.id with
      | coro a =>
        simp only [ho, emit_bind_out] at h
        rcases judge_error _ _ _ h with ⟨e, ha, hr⟩ | ⟨v, e, ha, hr⟩
        · left; exact ⟨e, Or.inr (by rw [ha]), hr⟩
        · right; exact ⟨v, e, Or.inr (by rw [ha]), hr⟩
      | raises e =>
        simp only [ho] at h
        rcases judge_error _ _ _ h with ⟨e, ha, hr⟩ | ⟨v, e, ha, hr⟩
        · left; exact ⟨e, Or.inl ha, hr⟩
        · right; exact ⟨v, e, Or.inl ha, hr⟩
      | val v t =>
        simp only [ho] at h
        rcases judge_error _ _ _ h with ⟨e, ha, hr⟩ | ⟨v, e, ha, hr⟩
        · left; exact ⟨e, Or.inl ha, hr⟩
        · right; exact ⟨v, e, Or.inl ha, hr⟩
  · simp only [hm, Bool.false_eq_true, if_false, raise_bind, raise_out] at h
    left; exact ⟨_, (Except.error.inj h).symm⟩

theorem createViolationError_error (o : Oracle) (c : Contract) (kw : Kwargs) (r : Raised)
    (h : (createViolationError o c kw).out = .error r) :
    (∃ k, r = .typeErr k) ∨ r = .notImplemented c.id ∨
    (∃ e, o.fac c.id = .raises e ∧ r = .user e) ∨
    (∃ e, o.msg c.id = .raises e ∧ (r = .user e ∨ (e.isException = true ∧ r = .runtimeErr c.id e))) := by
  unfold createViolationError at h
  cases hce : c.err with
  | none =>
    simp only [hce, emit_bind_out] at h
    cases hmsg : o.msg c.id with
    | ok => simp [hmsg] at h
    | raises e =>
      simp only [hmsg] at h
      right; right; right
      refine ⟨e, rfl, ?_⟩
      by_cases he : e.isException = true
      · simp only [he, if_true, raise_out] at h
        right; exact ⟨he, (Except.error.inj h).symm⟩
      · simp only [he, Bool.false_eq_true, if_false, raise_out] at h
        left; exact (Except.error.inj h).symm
  | fac args =>
    simp only [hce] at h
    unfold selectErrorKwargs at h
    by_cases hm : (missingNames args kw).isEmpty = true
    · simp only [hm, if_true, pure_bind', emit_bind_out] at h
      cases hf : o.fac c.id with
      | exc e => simp [hf] at h
      | nonExc =>
        simp only [hf, raise_out] at h
        left; exact ⟨_, (Except.error.inj h).symm⟩
      | raises e =>
        simp only [hf, raise_out] at h
        right; right; left; exact ⟨e, rfl, (Except.error.inj h).symm⟩
    · simp only [hm, Bool.false_eq_true, if_false, raise_bind, raise_out] at h
      left; exact ⟨_, (Except.error.inj h).symm⟩
  | cls subBase truthy =>
    simp only [hce] at h
    cases subBase with
    | false =>
      simp only [Bool.not_false, if_true, raise_out] at h
      left; exact ⟨_, (Except.error.inj h).symm⟩
    | true =>
      simp only [Bool.not_true, Bool.false_eq_true, if_false, emit_bind_out] at h
      cases hmsg : o.msg c.id with
      | ok => simp [hmsg] at h
      | raises e =>
        simp only [hmsg, raise_out] at h
        right; right; right
        exact ⟨e, rfl, Or.inl (Except.error.inj h).symm⟩
  | inst e => simp [hce] at h
  | other =>
    simp only [hce, raise_out] at h
    right; left; exact (Except.error.inj h).symm

theorem captureOldSync_error (o : Oracle) (kw : Kwargs) (acc : List (String × Id)) (ss : List Snapshot) (r : Raised)
    (h : (captureOldSync o kw acc ss).out = .error r) :
    (∃ k, r = .typeErr k) ∨ (∃ k, r = .valueErr k none) ∨ (∃ s ∈ ss, ∃ e, o.capture s.id = .raises e ∧ r = .user e) := by
  induction ss generalizing acc with
  | nil => simp [captureOldSync] at h
  | cons s ss ih =>
    unfold captureOldSync selectCaptureKwargs at h
    by_cases hc : s.coroFn = true
    · simp only [hc, if_true, raise_out] at h
      right; left; exact ⟨_, (Except.error.inj h).symm⟩
    · simp only [hc, Bool.false_eq_true, if_false] at h
      by_cases hm : (missingNames s.args kw).isEmpty = true
      · simp only [hm, if_true, pure_bind', emit_bind_out] at h
        cases ho : o.capture s.id with
        | raises e =>
          simp only [ho, raise_out] at h
          right; right
          exact ⟨s, List.mem_cons_self, e, ho, (Except.error.inj h).symm⟩
        | coro a =>
          simp only [ho, raise_out] at h
          right; left; exact ⟨_, (Except.error.inj h).symm⟩
        | val v t =>
          simp only [ho] at h
          rcases ih _ h with h | h | ⟨s', hs', e, he, hr⟩
          · left; exact h
          · right; left; exact h
          · right; right; exact ⟨s', List.mem_cons_of_mem _ hs', e, he, hr⟩
      · simp only [hm, Bool.false_eq_true, if_false, raise_bind, raise_out] at h
        left; exact ⟨_, (Except.error.inj h).symm⟩

end Icontract
