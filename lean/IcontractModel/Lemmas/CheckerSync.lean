/- Helper lemmas about the sync wrapper model. -/
import IcontractModel.Spec.Dnf
import IcontractModel.Lemmas.Res
namespace Icontract
open Res

theorem judge_checkOnly (c : Contract) (a : Ans) : ∀ ev ∈ (judge c a).trace, ev.isCheck = true := by
  intro ev h
  unfold judge at h
  split at h <;> simp [Event.isCheck] at h ⊢
  all_goals (try (subst h; rfl))
  · rename_i e
    by_cases he : e.isException <;> simp [he] at h <;> subst h <;> rfl

theorem selectConditionKwargs_trace (c : Contract) (kw : Kwargs) :
    (selectConditionKwargs c kw).trace = [] := by
  unfold selectConditionKwargs; simp only []; split <;> rfl

theorem evalPreSync_checkOnly (o : Oracle) (kw : Kwargs) (c : Contract) :
    ∀ ev ∈ (evalPreSync o kw c).trace, ev.isCheck = true := by
  intro ev h
  unfold evalPreSync at h
  rw [mem_bind_trace] at h
  rcases h with h | ⟨sel, _, h⟩
  · rw [selectConditionKwargs_trace] at h; cases h
  · split at h
    · simp at h
    · rw [mem_bind_trace] at h
      rcases h with h | ⟨_, _, h⟩
      · simp at h; subst h; rfl
      · split at h
        · simp at h
        · exact judge_checkOnly _ _ _ h

theorem evalPreSync_false_iff (o : Oracle) (kw : Kwargs) (c : Contract) :
    (evalPreSync o kw c).out = .ok false ↔ condTruthy false o kw c = true := by
  unfold evalPreSync condTruthy selectConditionKwargs finalAns
  by_cases hm : (missingNames c.mandatory kw).isEmpty = true
  · by_cases hc : c.coroFn = true
    · simp [hm, hc]
    · simp only [hm, hc, if_true, Bool.not_eq_true] at *
      simp only [pure_bind', Bool.false_eq_true, if_false, emit_bind_out, Bool.true_and]
      cases h : o.cond c.id with
      | raises e => simp [judge, ansTruthy]
      | coro a => simp
      | val v t =>
        cases t with
        | truthy => simp [judge, ansTruthy]
        | falsy => simp [judge, ansTruthy]
        | raises e => by_cases he : e.isException <;> simp [judge, he, ansTruthy]
  · simp [hm]

theorem evalPreSync_true_of_falsy (o : Oracle) (kw : Kwargs) (c : Contract)
    (h : condFalsy false o kw c = true) : (evalPreSync o kw c).out = .ok true := by
  unfold condFalsy finalAns at h
  unfold evalPreSync selectConditionKwargs
  simp only [Bool.and_eq_true] at h
  obtain ⟨hm, ha⟩ := h
  by_cases hc : c.coroFn = true
  · simp [hc] at ha
  · simp only [Bool.not_eq_true] at hc
    simp only [hm, hc, if_true, pure_bind', Bool.false_eq_true, if_false, emit_bind_out] at ha ⊢
    cases h : o.cond c.id with
    | raises e => simp [h, ansFalsy] at ha
    | coro a => simp [h] at ha
    | val v t =>
      cases t with
      | truthy => simp [h, ansFalsy] at ha
      | falsy => simp [judge]
      | raises e => simp [h, ansFalsy] at ha

end Icontract
