/-
  Name resolution: the visitor's table built from the look-ups (arguments, closure, globals).
-/
import IcontractModel.Recompute
import IcontractModel.Spec.PyEval
namespace Icontract.Ex

theorem lookupT_append (t u : Tbl) (n : String) :
    lookupT (t ++ u) n = match lookupT t n with | some r => some r | none => lookupT u n := by
  induction t with
  | nil => simp [lookupT]
  | cons p t ih =>
    obtain ⟨k, v⟩ := p
    simp only [List.cons_append, lookupT]
    split
    · rfl
    · exact ih

theorem lookupT_insertIfAbsent (t : Tbl) (k : String) (v : Val) (n : String) :
    lookupT (t.insertIfAbsent k v) n =
      match lookupT t n with | some r => some r | none => if k == n then some (some v) else none := by
  unfold Tbl.insertIfAbsent
  split
  · rename_i h
    cases hn : lookupT t n with
    | some r => rfl
    | none =>
      simp only
      split
      · rename_i hk
        have : k = n := by simpa using hk
        subst this
        rw [hn] at h
        simp at h
      · rfl
  · rw [lookupT_append]
    cases hn : lookupT t n with
    | some r => rfl
    | none => simp [lookupT]

theorem lookupT_addLookup (l : List (String × Val)) (t : Tbl) (n : String) :
    lookupT (t.addLookup l) n =
      match lookupT t n with | some r => some r | none => (lookup l n).map some := by
  induction l generalizing t with
  | nil => simp [Tbl.addLookup, lookup]; cases lookupT t n <;> rfl
  | cons p l ih =>
    obtain ⟨k, v⟩ := p
    have : t.addLookup ((k, v) :: l) = (t.insertIfAbsent k v).addLookup l := rfl
    rw [this, ih, lookupT_insertIfAbsent]
    cases hn : lookupT t n with
    | some r => rfl
    | none =>
      simp only [lookup]
      by_cases hk : (k == n) = true
      · simp [hk]
      · simp [hk]

/-- the table built from the look-ups gives every name the value of the FIRST look-up that has it
(arguments shadow closure variables, which shadow globals) -/
theorem lookupT_ofLookups_aux (ls : List (List (String × Val))) (t : Tbl) (n : String) :
    lookupT (ls.foldl Tbl.addLookup t) n =
      match lookupT t n with | some r => some r | none => (ls.findSome? (fun l => lookup l n)).map some := by
  induction ls generalizing t with
  | nil => simp; cases lookupT t n <;> rfl
  | cons l ls ih =>
    simp only [List.foldl_cons, List.findSome?_cons]
    rw [ih, lookupT_addLookup]
    cases hn : lookupT t n with
    | some r => rfl
    | none =>
      cases hl : lookup l n with
      | some v => rfl
      | none => rfl

theorem lookup_append (a b : List (String × Val)) (n : String) :
    lookup (a ++ b) n = match lookup a n with | some v => some v | none => lookup b n := by
  induction a with
  | nil => simp [lookup]
  | cons p a ih =>
    obtain ⟨k, v⟩ := p
    simp only [List.cons_append, lookup]
    split
    · rfl
    · exact ih

theorem lookup_pyScope (ls : List (List (String × Val))) (n : String) :
    lookup (pyScope ls) n = ls.findSome? (fun l => lookup l n) := by
  induction ls with
  | nil => simp [pyScope, lookup]
  | cons l ls ih =>
    simp only [pyScope, List.flatten_cons, List.findSome?_cons] at *
    rw [lookup_append, ih]
    cases lookup l n <;> rfl

/-! ### tables in which every name is bound to a real value -/

def Tbl.AllSome (t : Tbl) : Prop := ∀ p ∈ t, p.2.isSome = true

theorem Tbl.AllSome.insertIfAbsent {t : Tbl} (h : t.AllSome) (k : String) (v : Val) : (t.insertIfAbsent k v).AllSome := by
  unfold Tbl.insertIfAbsent
  split
  · exact h
  · intro p hp
    rcases List.mem_append.mp hp with hp | hp
    · exact h p hp
    · have : p = (k, some v) := by simpa using hp
      subst this; rfl

theorem Tbl.AllSome.addLookup {t : Tbl} (h : t.AllSome) (l : List (String × Val)) : (t.addLookup l).AllSome := by
  induction l generalizing t with
  | nil => exact h
  | cons p l ih =>
    have : t.addLookup (p :: l) = (t.insertIfAbsent p.1 p.2).addLookup l := rfl
    rw [this]
    exact ih (h.insertIfAbsent p.1 p.2)

theorem Tbl.AllSome.foldl {t : Tbl} (h : t.AllSome) (ls : List (List (String × Val))) : (ls.foldl Tbl.addLookup t).AllSome := by
  induction ls generalizing t with
  | nil => exact h
  | cons l ls ih => exact ih (h.addLookup l)

/-- the table built from look-ups binds every name to a real value -/
theorem ofLookups_allSome (ls : List (List (String × Val))) : (Tbl.ofLookups ls).AllSome :=
  Tbl.AllSome.foldl (t := []) (fun _ hp => by simp at hp) ls

/-- such a table IS the table of its own (name, value) pairs -/
theorem ofNames_values {t : Tbl} (h : t.AllSome) : Tbl.ofNames t.values = t := by
  induction t with
  | nil => rfl
  | cons p t ih =>
    obtain ⟨k, v⟩ := p
    have hv := h (k, v) List.mem_cons_self
    cases v with
    | none => simp at hv
    | some x =>
      have ht : Tbl.AllSome t := fun q hq => h q (List.mem_cons_of_mem _ hq)
      have := ih ht
      simp only [Tbl.values, Tbl.ofNames, List.filterMap_cons, Option.map_some, List.map_cons] at this ⊢
      rw [this]

theorem lookup_values {t : Tbl} (h : t.AllSome) (n : String) : (lookup t.values n).map some = lookupT t n := by
  induction t with
  | nil => rfl
  | cons p t ih =>
    obtain ⟨k, v⟩ := p
    have hv := h (k, v) List.mem_cons_self
    cases v with
    | none => simp at hv
    | some x =>
      have ht : Tbl.AllSome t := fun q hq => h q (List.mem_cons_of_mem _ hq)
      simp only [Tbl.values, List.filterMap_cons, Option.map_some, lookup, lookupT]
      split
      · rfl
      · exact ih ht

end Icontract.Ex
