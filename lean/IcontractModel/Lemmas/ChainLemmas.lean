/-
  Lemmas for the C04 chain theorem: single-inheritance chains of any depth built by
  `buildChain` (Spec/ChainHistory.lean) over the heap model of the metaclass (Meta.lean).
-/
import IcontractModel.Lemmas.MetaFrame
import IcontractModel.Spec.ChainHistory
namespace Icontract.Meta

/-! ### the MRO of a chain: `[n, n-1, ..., 1]` -/

def desc : Nat → List Nat
  | 0 => []
  | n + 1 => (n + 1) :: desc n

theorem mem_desc {n x : Nat} : x ∈ desc n ↔ 1 ≤ x ∧ x ≤ n := by
  induction n with
  | zero => simp only [desc, List.not_mem_nil, false_iff]; omega
  | succ n ih => simp only [desc, List.mem_cons, ih]; omega

theorem desc_length (n : Nat) : (desc n).length = n := by
  induction n with
  | zero => rfl
  | succ n ih => simp only [desc, List.length_cons, ih]

theorem desc_filter (m : Nat) : (desc (m + 1)).filter (· != m + 1) = desc m := by
  have h : (desc m).filter (· != m + 1) = desc m := by
    apply List.filter_eq_self.mpr
    intro a ha
    have := (mem_desc.mp ha).2
    simp only [bne_iff_ne, ne_eq]
    omega
  simp only [desc, List.filter_cons, bne_self_eq_false, Bool.false_eq_true, if_false, h]

theorem desc_contains (m : Nat) : (desc m).contains (m + 1) = false := by
  simp only [List.contains_eq_mem, decide_eq_false_iff_not, mem_desc]
  omega

theorem pickHead_desc (m : Nat) : pickHead [desc (m + 1)] [desc (m + 1)] = some (m + 1) := by
  simp only [desc, pickHead, inTail, List.any_cons, List.drop_one, List.tail_cons, desc_contains,
    List.any_nil, Bool.or_false, Bool.false_eq_true, if_false]

/-- merging one descending sequence (possibly among empty ones) gives it back -/
theorem c3merge_desc (m : Nat) : ∀ (fuel : Nat) (seqs : List (List ClsId)), m < fuel →
    seqs.filter (fun s => !s.isEmpty) = (if m = 0 then [] else [desc m]) →
    c3merge fuel seqs = some (desc m) := by
  induction m with
  | zero =>
    intro fuel seqs hf hs
    cases fuel with
    | zero => omega
    | succ fuel =>
      simp only [if_true] at hs
      simp only [c3merge, hs, List.isEmpty_nil, if_true, desc]
  | succ m ih =>
    intro fuel seqs hf hs
    cases fuel with
    | zero => omega
    | succ fuel =>
      have hne : (m + 1 = 0) = False := by simp
      simp only [hne, if_false] at hs
      have hrec : c3merge fuel [desc m] = some (desc m) := by
        apply ih fuel [desc m] (by omega)
        cases m with
        | zero => simp [desc]
        | succ m => simp [desc]
      simp only [c3merge, hs, List.isEmpty_cons, Bool.false_eq_true, if_false, pickHead_desc,
        List.map_cons, List.map_nil, desc_filter, hrec]
      rfl

theorem computeMro_nil (w : World) (k : ClsId) : computeMro w k [] = some [k] := by
  simp [computeMro, c3merge]

theorem c3merge_chain (m fuel : Nat) (h : m < fuel) :
    c3merge (fuel + 1) [desc (m + 1), [m + 1]] = some (desc (m + 1)) := by
  have hp : pickHead [desc (m + 1), [m + 1]] [desc (m + 1), [m + 1]] = some (m + 1) := by
    simp only [desc, pickHead, inTail, List.any_cons, List.drop_one, List.tail_cons, desc_contains,
      List.any_nil, Bool.or_false, Bool.false_eq_true, if_false, List.contains_nil]
  have hfl : List.filter (fun s : List ClsId => !s.isEmpty) [desc (m + 1), [m + 1]]
      = [desc (m + 1), [m + 1]] := by simp [desc]
  have h3 : c3merge fuel [desc m, []] = some (desc m) := by
    apply c3merge_desc m _ _ h
    cases m with
    | zero => simp [desc]
    | succ m => simp [desc]
  have h4 : List.filter (fun x => x != m + 1) [m + 1] = [] := by simp
  rw [c3merge]
  simp only [hfl, List.isEmpty_cons, Bool.false_eq_true, if_false, hp, List.map_cons, List.map_nil,
    desc_filter, h4, h3]
  rfl

theorem computeMro_chain (w : World) (m : Nat) (c : Cls) (hc : w.cls? (m + 1) = some c)
    (hm : c.mro = desc (m + 1)) : computeMro w (m + 2) [m + 1] = some (desc (m + 2)) := by
  simp only [computeMro, List.map_cons, List.map_nil, hc, hm, desc_length, List.sum_cons, List.sum_nil,
    List.length_cons, List.length_nil, List.cons_append, List.nil_append, Nat.add_zero, Nat.zero_add]
  rw [c3merge_chain m _ (by omega)]
  rfl

/-! ### `declareFn` on a fresh function, explicitly -/

theorem Heap.set_eq (h : Heap) (r : Nat) (xs : List Nat) : Heap.set h r xs = List.set h r xs := by
  apply List.ext_getElem?
  intro i
  simp only [Heap.set, List.getElem?_mapIdx, List.getElem?_set]
  by_cases hi : r = i
  · subst hi
    cases hh : h[r]? with
    | none =>
      have := List.getElem?_eq_none_iff.mp hh
      simp [Nat.not_lt.mpr this]
    | some v =>
      have := (List.getElem?_eq_some_iff.mp hh).1
      simp [this]
  · have hi' : ¬ i = r := fun e => hi e.symm
    cases hh : h[i]? <;> simp [hi, hi']

theorem Heap.get_app (h : Heap) (l : List (List Nat)) (i : Nat) :
    Heap.get (h ++ l) (h.length + i) = (l[i]?).getD [] := by
  simp [Heap.get, List.getElem?_append_right]

theorem Heap.get_app_lt (h : Heap) (l : List (List Nat)) (r : Nat) (hr : r < h.length) :
    Heap.get (h ++ l) r = Heap.get h r := by
  simp [Heap.get, List.getElem?_append_left hr]

theorem Heap.append_app (h : Heap) (l : List (List Nat)) (i x : Nat) :
    Heap.append (h ++ l) (h.length + i) x = h ++ l.set i ((l[i]?).getD [] ++ [x]) := by
  rw [Heap.append, Heap.set_eq, Heap.get_app, List.set_append_right _ _ (by omega)]
  simp

/-- the world after the decorators of a fresh function `f` have run: four new cells
(outer precondition list, snapshots, postconditions, the one group) -/
def declW (w : World) (f : FnId) (pre posts : List Nat) : World :=
  { w with heap := w.heap ++ [[w.heap.length + 3], [], posts, pre],
           checkers := w.checkers ++ [(f, { pre := w.heap.length, snaps := w.heap.length + 1,
                                            posts := w.heap.length + 2 })] }

theorem declW_checker (w : World) (f : FnId) (pre posts : List Nat) (h : w.checker? f = none) :
    (declW w f pre posts).checker? f =
      some { pre := w.heap.length, snaps := w.heap.length + 1, posts := w.heap.length + 2 } := by
  have h' : w.checkers.find? (·.1 == f) = none := by simpa [World.checker?] using h
  simp only [World.checker?, declW]
  rw [find_append_self _ _ _ h']; rfl

theorem declW_checker_ne (w : World) (f f' : FnId) (pre posts : List Nat) (h : f' ≠ f) :
    (declW w f pre posts).checker? f' = w.checker? f' := by
  simp only [World.checker?, declW]
  rw [find_append_ne _ _ _ _ h]

theorem addPre_first (w : World) (f : FnId) (c : CId) (h : w.checker? f = none) :
    addPre w f c = declW w f [c] [] := by
  have hget : (((w.heap.alloc []).1.alloc []).1.alloc []).1.get w.heap.length = [] := by
    rw [Heap.get_alloc_lt, Heap.get_alloc_lt, Heap.get_alloc_self] <;>
      simp only [Heap.length_alloc] <;> omega
  simp only [addPre, ensureChecker_none _ _ h, freshChecker, hget]
  simp only [Heap.alloc, List.append_assoc, List.cons_append, List.nil_append, declW]
  have := Heap.append_app w.heap [[], [], [], [c]] 0 (w.heap.length + 1 + 1 + 1)
  simp only [Nat.add_zero] at this
  simp only [List.length_append, List.length_cons, List.length_nil, Nat.zero_add, this]
  simp

theorem addPre_next (w : World) (f : FnId) (pre posts : List Nat) (c : CId) (h : w.checker? f = none) :
    addPre (declW w f pre posts) f c = declW w f (pre ++ [c]) posts := by
  have hck := declW_checker w f pre posts h
  have hget : (declW w f pre posts).heap.get w.heap.length = [w.heap.length + 3] := by
    have := Heap.get_app w.heap [[w.heap.length + 3], [], posts, pre] 0
    simpa [declW] using this
  simp only [addPre, ensureChecker_some _ _ _ hck, hget]
  have := Heap.append_app w.heap [[w.heap.length + 3], [], posts, pre] 3 c
  simp only [declW, this]
  simp

theorem addPost_next (w : World) (f : FnId) (pre posts : List Nat) (c : CId) (h : w.checker? f = none) :
    addPost (declW w f pre posts) f c = declW w f pre (posts ++ [c]) := by
  have hck := declW_checker w f pre posts h
  simp only [addPost, ensureChecker_some _ _ _ hck]
  have := Heap.append_app w.heap [[w.heap.length + 3], [], posts, pre] 2 c
  simp only [declW, this]
  simp

theorem foldl_addPre (w : World) (f : FnId) (h : w.checker? f = none) (cs : List CId) :
    ∀ pre posts, cs.foldl (fun w c => addPre w f c) (declW w f pre posts) = declW w f (pre ++ cs) posts := by
  induction cs with
  | nil => intro pre posts; simp
  | cons c cs ih =>
    intro pre posts
    rw [List.foldl_cons, addPre_next _ _ _ _ _ h, ih]
    simp

theorem foldl_addPost (w : World) (f : FnId) (h : w.checker? f = none) (cs : List CId) :
    ∀ pre posts, cs.foldl (fun w c => addPost w f c) (declW w f pre posts) = declW w f pre (posts ++ cs) := by
  induction cs with
  | nil => intro pre posts; simp
  | cons c cs ih =>
    intro pre posts
    rw [List.foldl_cons, addPost_next _ _ _ _ _ h, ih]
    simp

theorem declareFn_fresh (w : World) (l : ChainLevel) (h : w.checker? l.f = none) (hpre : l.pre ≠ []) :
    declareFn w l = declW w l.f l.pre l.posts := by
  cases hp : l.pre with
  | nil => exact absurd hp hpre
  | cons c cs =>
    simp only [declareFn, hp, List.foldl_cons]
    rw [addPre_first _ _ _ h, foldl_addPre _ _ h, foldl_addPost _ _ h]
    simp

/-! ### the invariant of a chain world -/

structure ClsOk (key : String) (c : Cls) (i : Nat) (f : FnId) : Prop where
  mro : c.mro = desc (i + 1)
  ns : c.ns = [(key, .func f)]
  inv : ∀ d, c.invRef d = none

/-- the class table after the levels `done`: classes `1 .. done.length`, nothing else -/
structure ClassInv (key : String) (w : World) (done : List ChainLevel) : Prop where
  clsNone : ∀ i, (i = 0 ∨ done.length < i) → w.cls? i = none
  clsSome : ∀ i (hi : i < done.length), ∃ c, w.cls? (i + 1) = some c ∧ ClsOk key c i (done[i]).f

/-- what the checker of a level's function shows, given the levels it accumulates -/
structure CkOk (h : Heap) (ck : CheckerObj) (lv : List ChainLevel) : Prop where
  preLt : ck.pre < h.length
  snapsLt : ck.snaps < h.length
  postsLt : ck.posts < h.length
  groupsLt : ∀ g ∈ h.get ck.pre, g < h.length
  pre : (h.get ck.pre).map h.get = lv.map (·.pre)
  snaps : h.get ck.snaps = []
  posts : h.get ck.posts = lv.flatMap (·.posts)

def CkInv (w : World) (done : List ChainLevel) : Prop :=
  ∀ i (hi : i < done.length), ∃ ck, w.checker? (done[i]).f = some ck ∧ CkOk w.heap ck (upTo done i)

structure ChainInv (key : String) (w : World) (done : List ChainLevel) : Prop where
  cls : ClassInv key w done
  ckNone : ∀ f, f ∉ done.map (·.f) → w.checker? f = none
  ck : CkInv w done

theorem CkOk.mono {h h' : Heap} {ck : CheckerObj} {lv : List ChainLevel} (a : CkOk h ck lv) (p : HPres h h') :
    CkOk h' ck lv := by
  have hpre : h'.get ck.pre = h.get ck.pre := p.1 _ a.preLt
  refine ⟨Nat.lt_of_lt_of_le a.preLt p.2, Nat.lt_of_lt_of_le a.snapsLt p.2, Nat.lt_of_lt_of_le a.postsLt p.2,
    ?_, ?_, ?_, ?_⟩
  · intro g hg
    rw [hpre] at hg
    exact Nat.lt_of_lt_of_le (a.groupsLt g hg) p.2
  · rw [hpre, ← a.pre]
    exact List.map_congr_left (fun g hg => p.1 g (a.groupsLt g hg))
  · rw [p.1 _ a.snapsLt]; exact a.snaps
  · rw [p.1 _ a.postsLt]; exact a.posts

theorem ChainInv.empty (key : String) : ChainInv key {} [] := by
  refine ⟨⟨fun i _ => rfl, fun i hi => ?_⟩, fun f _ => rfl, fun i hi => ?_⟩
  · exact absurd hi (Nat.not_lt_zero _)
  · exact absurd hi (Nat.not_lt_zero _)

/-! ### no invariants anywhere in a chain world -/

theorem ClassInv.cls_cases {key : String} {w : World} {done : List ChainLevel}
    (a : ClassInv key w done) (x : Nat) :
    w.cls? x = none ∨ ∃ cx, w.cls? x = some cx ∧ ∀ d, cx.invRef d = none := by
  by_cases hx : x = 0 ∨ done.length < x
  · exact Or.inl (a.clsNone x hx)
  · obtain ⟨cx, hcx, ok⟩ := a.clsSome (x - 1) (by omega)
    have : x - 1 + 1 = x := by omega
    rw [this] at hcx
    exact Or.inr ⟨cx, hcx, ok.inv⟩

theorem ClassInv.lookupInv_none {key : String} {w : World} {done : List ChainLevel}
    (a : ClassInv key w done) (k : ClsId) (d : InvDunder) : lookupInv w k d = none := by
  unfold lookupInv
  split
  · rfl
  · next c hc =>
    apply List.findSome?_eq_none_iff.mpr
    intro x _
    rcases a.cls_cases x with h | ⟨cx, h, hd⟩ <;> rw [h]
    exact hd d

theorem foldl_const {α β : Type} (f : β → α → β) (h : ∀ acc a, f acc a = acc) (l : List α) (acc : β) :
    l.foldl f acc = acc := by
  induction l with
  | nil => rfl
  | cons a l ih => rw [List.foldl_cons, h, ih]

theorem collapseInv_none (w : World) (bases : List ClsId) (d : InvDunder)
    (h : ∀ b, lookupInv w b d = none) : collapseInv w bases d = (w, none) := by
  have ha : bases.any (fun b => (lookupInv w b d).isSome) = false := by
    apply List.any_eq_false.mpr
    intro b _
    simp [h b]
  unfold collapseInv
  rw [foldl_const _ (fun acc b => by simp only [h b])]
  simp only [ha, List.isEmpty_nil, Bool.not_false, Bool.and_self, if_true]

/-! ### what the single base contributes -/

def baseOf : Nat → Option ClsId
  | 0 => none
  | n + 1 => some (n + 1)

theorem upTo_last (done : List ChainLevel) (m : Nat) (h : done.length = m + 1) : upTo done m = done := by
  unfold upTo
  rw [← h, List.take_length]

theorem ClassInv.member_eq {key : String} {w : World} {done : List ChainLevel}
    (a : ClassInv key w done) (i : Nat) (hi : i < done.length) :
    lookupMember w (i + 1) key = some (.func (done[i]).f) := by
  obtain ⟨c, hc, ok⟩ := a.clsSome i hi
  simp only [lookupMember, hc, ok.mro, desc, List.findSome?_cons, ok.ns, List.find?_cons, beq_self_eq_true,
    Option.map_some]

theorem collectBases_chain {key : String} {w : World} {done : List ChainLevel}
    (a : ClassInv key w done) (b : CkInv w done) :
    ∃ hv bPre bPosts, collectBases w (baseOf done.length).toList key = (hv, bPre, [], bPosts) ∧
      (bPre = [] → hv = false) ∧ (∀ g ∈ bPre, g < w.heap.length) ∧
      bPre.map w.heap.get = done.map (·.pre) ∧ bPosts = done.flatMap (·.posts) := by
  cases hd : done.length with
  | zero =>
    have : done = [] := List.eq_nil_of_length_eq_zero hd
    subst this
    exact ⟨false, [], [], rfl, fun _ => rfl, fun g hg => (by cases hg), rfl, rfl⟩
  | succ m =>
    have hm : m < done.length := by omega
    obtain ⟨ck, hck, ok⟩ := b m hm
    have hlm := a.member_eq m hm
    rw [upTo_last done m hd] at ok
    have hne : (w.heap.get ck.pre).isEmpty = false := by
      cases hg : w.heap.get ck.pre with
      | nil =>
        have hp := ok.pre
        rw [hg] at hp
        cases done with
        | nil => cases hd
        | cons x xs => cases hp
      | cons _ _ => rfl
    refine ⟨true, w.heap.get ck.pre, w.heap.get ck.posts, ?_, ?_, ok.groupsLt, ok.pre, ok.posts⟩
    · simp only [baseOf, Option.toList, collectBases, List.foldl_cons, List.foldl_nil, hlm, Member.asFunc,
        Option.bind, hck, BaseAcc.add, BaseAcc.result, hne, ok.snaps, Bool.or_false, Bool.false_eq_true,
        if_false, List.nil_append]
    · intro h
      rw [h] at hne
      cases hne

/-! ### the namespace pass succeeds and installs `base ++ own` -/

theorem decorateOne_ok (w : World) (key : String) (f : FnId) (hv : Bool) (bPre bPosts : List Nat)
    (hw : bPre = [] → hv = false) (hne : ownPre w f ≠ []) (hs : ownSnaps w f = []) :
    decorateOne w key f true (hv, bPre, [], bPosts) =
      .ok (installed (copyCells w bPre).1 f ((copyCells w bPre).2 ++ ownPre w f) []
            (bPosts ++ ownPosts w f)) := by
  cases hck : w.checker? f with
  | none => simp only [ownPre, hck] at hne; exact absurd rfl hne
  | some ck =>
    simp only [ownPre, ownSnaps, ownPosts, hck] at hne hs ⊢
    have hne' : (w.heap.get ck.pre).isEmpty = false := by
      cases hg : w.heap.get ck.pre with
      | nil => exact absurd hg hne
      | cons _ _ => rfl
    have hweak : (bPre.isEmpty && hv && !(w.heap.get ck.pre).isEmpty) = false := by
      cases bPre with
      | nil => simp [hw rfl]
      | cons _ _ => simp
    have hemp : (((copyCells w bPre).2 ++ w.heap.get ck.pre).isEmpty &&
        (bPosts ++ w.heap.get ck.posts).isEmpty) = false := by
      simp [List.isEmpty_iff, hne]
    simp only [decorateOne, hck, hs, Bool.not_true, Bool.false_eq_true, if_false, hweak, List.append_nil,
      firstDuplicate, firstDuplicate.go, hemp, installed, Heap.alloc_snd, Heap.length_alloc]

/-! ### the class statement of one chain level -/

def newCls (key : String) (k : ClsId) (bases : List ClsId) (f : FnId) (mro : List ClsId) : Cls :=
  { id := k, bases := bases, ns := [(key, .func f)], inv := none, invCall := none, invSetattr := none,
    dbc := true, mro := mro, declared := [key] }

def withCls (w : World) (c : Cls) : World :=
  { w with classes := w.classes ++ [c], hookCalls := w.hookCalls ++ [c.id] }

/-- a function that no base has as its member `key` gets the contracts of all the bases: nothing is filtered out -/
theorem basesFor_eq_self (w : World) (bases : List ClsId) (key : String) (f : FnId)
    (h : ∀ b ∈ bases, (lookupMember w b key).bind Member.asFunc ≠ some f) : basesFor w bases key f = bases := by
  unfold basesFor
  apply List.filter_eq_self.mpr
  intro b hb
  simpa using h b hb

theorem defineClass_chain (w w2 : World) (k : ClsId) (bases : List ClsId) (key : String) (f : FnId)
    (mro : List ClsId) (hkey : key ≠ "__init__" ∧ key ≠ "__new__")
    (hinv : ∀ b d, lookupInv w b d = none)
    (hbf : basesFor w bases key f = bases)
    (hdec : decorateOne w key f true (collectBases w bases key) = .ok w2)
    (hmro : computeMro w2 k bases = some mro)
    (hno : lookupInv (withCls w2 (newCls key k bases f mro)) k .all = none) :
    defineClass w k bases [(key, .func f)] true = .ok (withCls w2 (newCls key k bases f mro)) := by
  have hk : (key != "__init__" && key != "__new__") = true := by
    simp [hkey.1, hkey.2]
  have hno' := hno
  simp only [withCls, newCls] at hno'
  unfold defineClass
  simp only [Bool.not_true, Bool.false_eq_true, if_false, collapseInv_none _ _ _ (fun b => hinv b _),
    List.foldlM_cons, List.foldlM_nil, decorateMember, hk, hbf, hdec, bind, Except.bind, pure, Except.pure, hmro,
    if_true, List.map_cons, List.map_nil, hno', Option.isSome_none, withCls, newCls]

/-! ### cells of `declW` and of `installed` -/

theorem declW_length (w : World) (f : FnId) (pre posts : List Nat) :
    (declW w f pre posts).heap.length = w.heap.length + 4 := by
  simp [declW]

theorem declW_get (w : World) (f : FnId) (pre posts : List Nat) :
    (declW w f pre posts).heap.get w.heap.length = [w.heap.length + 3] ∧
    (declW w f pre posts).heap.get (w.heap.length + 1) = [] ∧
    (declW w f pre posts).heap.get (w.heap.length + 2) = posts ∧
    (declW w f pre posts).heap.get (w.heap.length + 3) = pre := by
  have h0 := Heap.get_app w.heap [[w.heap.length + 3], [], posts, pre] 0
  have h1 := Heap.get_app w.heap [[w.heap.length + 3], [], posts, pre] 1
  have h2 := Heap.get_app w.heap [[w.heap.length + 3], [], posts, pre] 2
  have h3 := Heap.get_app w.heap [[w.heap.length + 3], [], posts, pre] 3
  refine ⟨?_, ?_, ?_, ?_⟩
  · simpa [declW] using h0
  · simpa [declW] using h1
  · simpa [declW] using h2
  · simpa [declW] using h3

theorem declW_hpres (w : World) (f : FnId) (pre posts : List Nat) :
    HPres w.heap (declW w f pre posts).heap :=
  ⟨fun r hr => Heap.get_app_lt _ _ r hr, by rw [declW_length]; omega⟩

theorem installed_length (w : World) (f : FnId) (pre snaps posts : List Nat) :
    (installed w f pre snaps posts).heap.length = (ensureChecker w f).1.heap.length + 3 := by
  simp only [installed, Heap.length_alloc]

/-! ### the class table grows by one chain class -/

theorem ClassInv.of_classes {key : String} {w w' : World} {done : List ChainLevel}
    (a : ClassInv key w done) (h : w'.classes = w.classes) : ClassInv key w' done := by
  have e : ∀ i, w'.cls? i = w.cls? i := fun i => by simp only [World.cls?, h]
  exact ⟨fun i hi => by rw [e]; exact a.clsNone i hi, fun i hi => by rw [e]; exact a.clsSome i hi⟩

theorem withCls_cls? (w : World) (c : Cls) (i : Nat) :
    (withCls w c).cls? i = (w.cls? i).or (if c.id = i then some c else none) := by
  simp only [World.cls?, withCls, List.find?_append, List.find?_cons, List.find?_nil]
  by_cases h : c.id = i
  · have hb : (c.id == i) = true := by simpa using h
    simp only [hb, if_pos h]
  · have hb : (c.id == i) = false := by simpa using h
    simp only [hb, h, if_false]

theorem ClassInv.snoc {key : String} {w : World} {done : List ChainLevel}
    (a : ClassInv key w done) (bases : List ClsId) (l : ChainLevel) :
    ClassInv key (withCls w (newCls key (done.length + 1) bases l.f (desc (done.length + 1)))) (done ++ [l]) := by
  constructor
  · intro i hi
    rw [withCls_cls?]
    simp only [List.length_append, List.length_cons, List.length_nil] at hi
    rw [a.clsNone i (by omega)]
    have : ¬ (done.length + 1 = i) := by omega
    simp [newCls, this]
  · intro i hi
    rw [withCls_cls?]
    simp only [List.length_append, List.length_cons, List.length_nil] at hi
    by_cases hlt : i < done.length
    · obtain ⟨c, hc, ok⟩ := a.clsSome i hlt
      refine ⟨c, by rw [hc]; rfl, ?_⟩
      rw [List.getElem_append_left hlt]
      exact ok
    · have hi' : i = done.length := by omega
      subst hi'
      rw [a.clsNone (done.length + 1) (by omega)]
      refine ⟨newCls key (done.length + 1) bases l.f (desc (done.length + 1)), by simp [newCls], ?_⟩
      have : (done ++ [l])[done.length] = l := by simp
      rw [this]
      exact ⟨rfl, rfl, fun d => by cases d <;> rfl⟩

theorem ClassInv.computeMro_eq {key : String} {w : World} {done : List ChainLevel}
    (a : ClassInv key w done) :
    computeMro w (done.length + 1) (baseOf done.length).toList = some (desc (done.length + 1)) := by
  cases hd : done.length with
  | zero => exact computeMro_nil w 1
  | succ m =>
    obtain ⟨c, hc, ok⟩ := a.clsSome m (by omega)
    exact computeMro_chain w m c hc ok.mro

/-! ### one level of the chain preserves the invariant -/

theorem upTo_append_lt (done : List ChainLevel) (l : ChainLevel) (i : Nat) (hi : i < done.length) :
    upTo (done ++ [l]) i = upTo done i := by
  unfold upTo
  exact List.take_append_of_le_length (by omega)

theorem upTo_append_last (done : List ChainLevel) (l : ChainLevel) :
    upTo (done ++ [l]) done.length = done ++ [l] := by
  unfold upTo
  have : done.length + 1 = (done ++ [l]).length := by simp
  rw [this, List.take_length]

theorem chain_step (key : String) (hkey : key ≠ "__init__" ∧ key ≠ "__new__") (w : World)
    (done : List ChainLevel) (l : ChainLevel) (inv : ChainInv key w done)
    (hfresh : l.f ∉ done.map (·.f)) (hpre : l.pre ≠ []) :
    ∃ w', defineClass (declareFn w l) (done.length + 1) (baseOf done.length).toList [(key, .func l.f)] true
        = .ok w' ∧ ChainInv key w' (done ++ [l]) := by
  have hnone := inv.ckNone l.f hfresh
  rw [declareFn_fresh w l hnone hpre]
  have hne : ∀ i (hi : i < done.length), (done[i]).f ≠ l.f := by
    intro i hi e
    exact hfresh (e ▸ List.mem_map.mpr ⟨done[i], List.getElem_mem hi, rfl⟩)
  -- the world after the function's own decorators
  have hcls1 : ClassInv key (declW w l.f l.pre l.posts) done := inv.cls.of_classes rfl
  have hp1 := declW_hpres w l.f l.pre l.posts
  have hck1 : CkInv (declW w l.f l.pre l.posts) done := by
    intro i hi
    obtain ⟨ck, hck, ok⟩ := inv.ck i hi
    exact ⟨ck, by rw [declW_checker_ne _ _ _ _ _ (hne i hi)]; exact hck, ok.mono hp1⟩
  obtain ⟨hv, bPre, bPosts, hcb, hw, hglt, hmap, hposts⟩ := collectBases_chain hcls1 hck1
  rw [declW_length] at hglt
  have hck := declW_checker w l.f l.pre l.posts hnone
  obtain ⟨g0, g1, g2, g3⟩ := declW_get w l.f l.pre l.posts
  have hlen1 := declW_length w l.f l.pre l.posts
  have oPre : ownPre (declW w l.f l.pre l.posts) l.f = [w.heap.length + 3] := by
    simp only [ownPre, hck, g0]
  have oSnaps : ownSnaps (declW w l.f l.pre l.posts) l.f = [] := by
    simp only [ownSnaps, hck, g1]
  have oPosts : ownPosts (declW w l.f l.pre l.posts) l.f = l.posts := by
    simp only [ownPosts, hck, g2]
  have hdec := decorateOne_ok (declW w l.f l.pre l.posts) key l.f hv bPre bPosts hw
    (by rw [oPre]; exact List.cons_ne_nil _ _) oSnaps
  rw [oPre, oPosts, ← hcb] at hdec
  -- the world after the namespace pass: the base groups are copied, then three fresh lists
  have hp01 := copyCells_hpres (declW w l.f l.pre l.posts) bPre
  have hcp := copyCells_snd_mem (declW w l.f l.pre l.posts) bPre
  have hcont := copyCells_contents (declW w l.f l.pre l.posts) bPre (by rw [hlen1]; exact hglt)
  have hck1' : (copyCells (declW w l.f l.pre l.posts) bPre).1.checker? l.f = some _ :=
    (copyCells_checker? _ _ _).trans hck
  have hens := ensureChecker_some _ _ _ hck1'
  have fr01 := (copyCells_frame (declW w l.f l.pre l.posts) bPre).mono (T := (· = l.f))
    (fun _ hf => hf.elim)
  have fr12 := installed_frame (copyCells (declW w l.f l.pre l.posts) bPre).1 l.f
    ((copyCells (declW w l.f l.pre l.posts) bPre).2 ++ [w.heap.length + 3]) [] (bPosts ++ l.posts)
  have hck2 := installed_checker (copyCells (declW w l.f l.pre l.posts) bPre).1 l.f
    ((copyCells (declW w l.f l.pre l.posts) bPre).2 ++ [w.heap.length + 3]) [] (bPosts ++ l.posts)
  have hheap2 := installed_heap (copyCells (declW w l.f l.pre l.posts) bPre).1 l.f
    ((copyCells (declW w l.f l.pre l.posts) bPre).2 ++ [w.heap.length + 3]) [] (bPosts ++ l.posts)
  have hlen2 := installed_length (copyCells (declW w l.f l.pre l.posts) bPre).1 l.f
    ((copyCells (declW w l.f l.pre l.posts) bPre).2 ++ [w.heap.length + 3]) [] (bPosts ++ l.posts)
  rw [hens] at hck2 hheap2 hlen2
  simp only [] at hck2 hheap2 hlen2
  generalize installed (copyCells (declW w l.f l.pre l.posts) bPre).1 l.f
    ((copyCells (declW w l.f l.pre l.posts) bPre).2 ++ [w.heap.length + 3]) []
    (bPosts ++ l.posts) = w2 at hdec fr12 hck2 hheap2 hlen2
  generalize hw1 : (copyCells (declW w l.f l.pre l.posts) bPre).1 = w1 at *
  generalize hcps : (copyCells (declW w l.f l.pre l.posts) bPre).2 = cp at *
  have fr2 := fr01.trans fr12
  have hN1 : w.heap.length + 4 ≤ w1.heap.length := by rw [← hlen1]; exact hp01.2
  obtain ⟨i0, i1, i2⟩ := hheap2
  have hcls2 : ClassInv key w2 done := hcls1.of_classes fr2.classes
  have hmro := hcls2.computeMro_eq
  have hcls3 := hcls2.snoc (baseOf done.length).toList l
  have hbf : basesFor (declW w l.f l.pre l.posts) (baseOf done.length).toList key l.f =
      (baseOf done.length).toList := by
    apply basesFor_eq_self
    intro b hb
    cases hd : done.length with
    | zero => rw [hd] at hb; cases hb
    | succ m =>
      rw [hd] at hb
      simp only [baseOf, Option.toList, List.mem_singleton] at hb
      subst hb
      have hm : m < done.length := by omega
      rw [hcls1.member_eq m hm]
      intro e
      exact hne m hm (Option.some.inj e)
  have hdef := defineClass_chain (declW w l.f l.pre l.posts) w2 (done.length + 1) (baseOf done.length).toList
    key l.f (desc (done.length + 1)) hkey (fun b d => hcls1.lookupInv_none b d) hbf hdec hmro
    (hcls3.lookupInv_none _ _)
  refine ⟨_, hdef, hcls3, ?_, ?_⟩
  · intro f hf
    have hf1 : f ≠ l.f := fun e => hf (by simp [e])
    have hf2 : f ∉ done.map (·.f) := fun e => hf (by
      simp only [List.map_append, List.mem_append]; exact Or.inl e)
    show w2.checker? f = none
    rw [fr2.checkers f hf1, declW_checker_ne _ _ _ _ _ hf1]
    exact inv.ckNone f hf2
  · intro i hi
    simp only [List.length_append, List.length_cons, List.length_nil] at hi
    by_cases hlt : i < done.length
    · obtain ⟨ck, hck', ok⟩ := hck1 i hlt
      refine ⟨ck, ?_, ?_⟩
      · show w2.checker? _ = some ck
        rw [List.getElem_append_left hlt, fr2.checkers _ (hne i hlt)]
        exact hck'
      · rw [upTo_append_lt done l i hlt]
        exact ok.mono fr2.heap
    · have hi' : i = done.length := by omega
      subst hi'
      have hl : (done ++ [l])[done.length] = l := by simp
      refine ⟨{ pre := w1.heap.length, snaps := w1.heap.length + 1, posts := w1.heap.length + 2 },
        ?_, ?_⟩
      · show w2.checker? _ = some _
        rw [hl]; exact hck2
      · rw [upTo_append_last]
        show CkOk w2.heap _ _
        have hg3 : w2.heap.get (w.heap.length + 3) = l.pre := by
          rw [fr2.heap.1 _ (by omega)]; exact g3
        have b0 : w1.heap.length < w2.heap.length := by omega
        have b1 : w1.heap.length + 1 < w2.heap.length := by omega
        have b2 : w1.heap.length + 2 < w2.heap.length := by omega
        refine ⟨b0, b1, b2, ?_, ?_, i1, ?_⟩
        · intro g hg
          simp only [i0, List.mem_append, List.mem_singleton] at hg
          rcases hg with hg | hg
          · have := (hcp g hg).2; omega
          · omega
        · simp only [i0, List.map_append, List.map_cons, List.map_nil, hg3]
          congr 1
          rw [← hmap, ← hcont]
          exact List.map_congr_left (fun g hg => fr12.heap.1 g (hcp g hg).2)
        · simp only [i2, hposts, List.flatMap_append, List.flatMap_cons, List.flatMap_nil, List.append_nil]

/-- the generalised chain theorem: from any chain world, the remaining levels are accepted and the
invariant holds at the end -/
theorem buildChain_inv (key : String) (hkey : key ≠ "__init__" ∧ key ≠ "__new__") (ls : List ChainLevel) :
    ∀ (done : List ChainLevel) (w : World), ChainInv key w done →
      ((done ++ ls).map (·.f)).Nodup → (∀ l ∈ ls, l.pre ≠ []) →
      ∃ w', buildChain key w (baseOf done.length) (done.length + 1) ls = .ok w' ∧
        ChainInv key w' (done ++ ls) := by
  induction ls with
  | nil =>
    intro done w inv _ _
    exact ⟨w, rfl, by rw [List.append_nil]; exact inv⟩
  | cons l rest ih =>
    intro done w inv hnd hpre
    have hfresh : l.f ∉ done.map (·.f) := by
      intro hmem
      rw [List.map_append, List.nodup_append] at hnd
      exact hnd.2.2 _ hmem _ (by simp) rfl
    obtain ⟨w1, hdef, inv1⟩ := chain_step key hkey w done l inv hfresh (hpre l List.mem_cons_self)
    have hnd' : (((done ++ [l]) ++ rest).map (·.f)).Nodup := by
      rw [List.append_assoc]; exact hnd
    obtain ⟨w', hb, inv'⟩ := ih (done ++ [l]) w1 inv1 hnd' (fun x hx => hpre x (List.mem_cons_of_mem _ hx))
    refine ⟨w', ?_, by rw [List.append_assoc] at inv'; exact inv'⟩
    rw [buildChain, hdef]
    have hlen : (done ++ [l]).length = done.length + 1 := by simp
    rw [hlen] at hb
    exact hb

theorem ChainInv.observe {key : String} {w : World} {ls : List ChainLevel} (inv : ChainInv key w ls)
    (i : Nat) (hi : i < ls.length) :
    preOf w (ls[i]).f = (upTo ls i).map (·.pre) ∧ postsOf w (ls[i]).f = (upTo ls i).flatMap (·.posts) := by
  obtain ⟨ck, hck, ok⟩ := inv.ck i hi
  simp only [preOf, postsOf, hck]
  exact ⟨ok.pre, ok.posts⟩

end Icontract.Meta
