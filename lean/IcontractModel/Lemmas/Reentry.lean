/-
  Helper lemmas for C10: one-step equations of `Re.run` / `Re.runSpec` in a sequential
  (`andThen`) form, and the elementary facts about the in-progress set.
-/
import IcontractModel.Spec.Frames
namespace Icontract.Re

/-- sequencing: continue with `k` when the first evaluation finished normally -/
def andThen {σ : Type} (r : σ × Out) (k : σ → σ × Out) : σ × Out :=
  match r with
  | (st', .ok) => k st'
  | r => r

/-- `finally: discard` -/
def fin (k : Key) (r : St × Out) : St × Out := (r.1.discard k, r.2)

@[simp] theorem andThen_mk_ok {σ} (s : σ) (k : σ → σ × Out) : andThen (s, .ok) k = k s := rfl

theorem andThen_of_not_ok {σ} (r : σ × Out) (k : σ → σ × Out) (h : ∀ s, r = (s, .ok) → False) :
    andThen r k = r := by
  rcases r with ⟨s, o⟩
  cases o <;> first | rfl | exact (h s rfl).elim

theorem andThen_ok {σ} {r : σ × Out} (k : σ → σ × Out) (h : r.2 = .ok) : andThen r k = k r.1 := by
  rcases r with ⟨s, o⟩
  cases h
  rfl

theorem andThen_ne {σ} {r : σ × Out} (k : σ → σ × Out) (h : r.2 ≠ .ok) : andThen r k = r := by
  apply andThen_of_not_ok
  intro s hs
  subst hs
  exact h rfl

@[simp] theorem fin_snd (k : Key) (r : St × Out) : (fin k r).2 = r.2 := rfl
@[simp] theorem fin_fst_tr (k : Key) (r : St × Out) : (fin k r).1.tr = r.1.tr := rfl
@[simp] theorem fin_fst_s (k : Key) (r : St × Out) : (fin k r).1.s = (r.1.discard k).s := rfl

def Program.meth? (p : Program) (i : InstId) (m : MethId) : Option (ClsDecl × MethDecl) :=
  (p.cls? (p.clsOf i)).bind (fun c => c.meths[m]?.map (fun md => (c, md)))

/-! ### one-step equations of `run` -/
section run
variable (p : Program) (v : Variant) (n : Nat) (st : St)

theorem run_zero (cmd : Cmd) : run p v 0 st cmd = (st, .timeout) := by
  simp only [run]

theorem run_script (s : Script) : run p v (n+1) st (.script s) = run p v n st (.acts s.actions) := by
  simp only [run]

theorem run_acts_nil : run p v (n+1) st (.acts []) = (st, .ok) := by
  simp only [run]

theorem run_acts_cons (a : Action) (rest : List Action) : run p v (n+1) st (.acts (a :: rest)) =
    andThen (run p v n st (.act a)) (fun st' => run p v n st' (.acts rest)) := by
  simp only [run]
  split
  next h => rw [h, andThen_mk_ok]
  next h => rw [andThen_of_not_ok _ _ h]

theorem run_pres_nil (f k) : run p v (n+1) st (.pres f k []) = (st, .ok) := by
  simp only [run]

theorem run_pres_cons (f k c cs) : run p v (n+1) st (.pres f k (c :: cs)) =
    andThen (run p v n (st.emit (.cond f k)) (.script c))
      (fun st' => if c.truthy then run p v n st' (.pres f (k + 1) cs) else (st', .violPre f k)) := by
  simp only [run]
  split
  next h => rw [h, andThen_mk_ok]
  next h => rw [andThen_of_not_ok _ _ h]

theorem run_posts_nil (f k) : run p v (n+1) st (.posts f k []) = (st, .ok) := by
  simp only [run]

theorem run_posts_cons (f k c cs) : run p v (n+1) st (.posts f k (c :: cs)) =
    andThen (run p v n (st.emit (.post f k)) (.script c))
      (fun st' => if c.truthy then run p v n st' (.posts f (k + 1) cs) else (st', .violPost f k)) := by
  simp only [run]
  split
  next h => rw [h, andThen_mk_ok]
  next h => rw [andThen_of_not_ok _ _ h]

theorem run_invs_nil (i k) : run p v (n+1) st (.invs i k []) = (st, .ok) := by
  simp only [run]

theorem run_invs_cons (i k c cs) : run p v (n+1) st (.invs i k (c :: cs)) =
    andThen (run p v n (st.emit (.inv i k)) (.script c))
      (fun st' => if c.truthy then run p v n st' (.invs i (k + 1) cs) else (st', .violInv i k)) := by
  simp only [run]
  split
  next h => rw [h, andThen_mk_ok]
  next h => rw [andThen_of_not_ok _ _ h]

theorem run_callFn_none (f) (h : p.fn? f = none) :
    run p v (n+1) st (.act (.callFn f)) = (st, .ok) := by
  simp only [run, h]

theorem run_callFn_bare (f d) (h : p.fn? f = some d) (hc : st.s.contains (.fn f) = true) :
    run p v (n+1) st (.act (.callFn f)) =
      (if v.shortcutDiscards then (run p v n (st.emit (.body f)) (.script d.body)).1.discard (.fn f)
        else (run p v n (st.emit (.body f)) (.script d.body)).1,
       (run p v n (st.emit (.body f)) (.script d.body)).2) := by
  simp only [run, h, hc, if_true]

theorem run_callFn_checked (f d) (h : p.fn? f = some d) (hc : st.s.contains (.fn f) = false) :
    run p v (n+1) st (.act (.callFn f)) =
    fin (.fn f) (andThen (run p v n (st.add (.fn f)) (.pres f 0 d.pre)) fun st1 =>
      andThen (run p v n ((if v.idDuringBody then st1 else st1.discard (.fn f)).emit (.body f))
          (.script d.body)) fun st2 =>
        run p v n (if v.idDuringBody then st2 else st2.add (.fn f)) (.posts f 0 d.post)) := by
  simp only [run, h, hc, Bool.false_eq_true, if_false]
  split
  next h1 =>
    rw [h1, andThen_mk_ok]
    split
    next h2 => rw [h2, andThen_mk_ok]; rfl
    next h2 => rw [andThen_of_not_ok _ _ h2]; rfl
  next h1 => rw [andThen_of_not_ok _ _ h1]; rfl

theorem run_callMethod_none (i m) (h : p.meth? i m = none) :
    run p v (n+1) st (.act (.callMethod i m)) = (st, .ok) := by
  unfold Program.meth? at h
  simp only [run, h]

theorem run_callMethod_bare (i m c md) (h : p.meth? i m = some (c, md))
    (hc : (!md.guarded || st.s.contains (.inst i)) = true) :
    run p v (n+1) st (.act (.callMethod i m)) =
      run p v n (st.emit (.methBody i m)) (.script md.body) := by
  unfold Program.meth? at h
  simp only [run, h, hc, if_true]

theorem run_callMethod_checked (i m c md) (h : p.meth? i m = some (c, md))
    (hc : (!md.guarded || st.s.contains (.inst i)) = false) :
    run p v (n+1) st (.act (.callMethod i m)) =
    fin (.inst i) (andThen (run p v n (st.add (.inst i)) (.invs i 0 c.invs)) fun st1 =>
      andThen (run p v n (st1.emit (.methBody i m)) (.script md.body)) fun st2 =>
        run p v n st2 (.invs i 0 c.invs)) := by
  unfold Program.meth? at h
  simp only [run, h, hc, Bool.false_eq_true, if_false]
  split
  next h1 =>
    rw [h1, andThen_mk_ok]
    split
    next h2 => rw [h2, andThen_mk_ok]; rfl
    next h2 => rw [andThen_of_not_ok _ _ h2]; rfl
  next h1 => rw [andThen_of_not_ok _ _ h1]; rfl

theorem run_construct (i) :
    run p v (n+1) st (.act (.construct i)) = run p v n st (.act (.superInit i (p.clsOf i))) := by
  simp only [run]

theorem run_superInit_none (i cid) (h : p.cls? cid = none) :
    run p v (n+1) st (.act (.superInit i cid)) = (st, .ok) := by
  simp only [run, h]

theorem run_superInit_bare (i cid c) (h : p.cls? cid = some c)
    (hc : (!c.initWrapped || (v.ctorTestsMembership && st.s.contains (.inst i))) = true) :
    run p v (n+1) st (.act (.superInit i cid)) =
      run p v n (st.emit (.initBody i cid)) (.script c.init) := by
  simp only [run, h, hc, if_true]

theorem run_superInit_checked (i cid c) (h : p.cls? cid = some c)
    (hc : (!c.initWrapped || (v.ctorTestsMembership && st.s.contains (.inst i))) = false) :
    run p v (n+1) st (.act (.superInit i cid)) =
    fin (.inst i) (andThen (run p v n ((st.add (.inst i)).emit (.initBody i cid)) (.script c.init))
      fun st1 => run p v n st1 (.invs i 0 (((p.cls? (p.clsOf i)).map (·.invs)).getD []))) := by
  simp only [run, h, hc, Bool.false_eq_true, if_false]
  split
  next h1 => rw [h1, andThen_mk_ok]; rfl
  next h1 => rw [andThen_of_not_ok _ _ h1]; rfl

end run

/-! ### one-step equations of `runSpec` -/
section runSpec
variable (p : Program) (n : Nat) (st : SSt)

theorem runSpec_zero (cmd : Cmd) : runSpec p 0 st cmd = (st, .timeout) := by
  simp only [runSpec]

theorem runSpec_script (s : Script) :
    runSpec p (n+1) st (.script s) = runSpec p n st (.acts s.actions) := by
  simp only [runSpec]

theorem runSpec_acts_nil : runSpec p (n+1) st (.acts []) = (st, .ok) := by
  simp only [runSpec]

theorem runSpec_acts_cons (a : Action) (rest : List Action) :
    runSpec p (n+1) st (.acts (a :: rest)) =
    andThen (runSpec p n st (.act a)) (fun st' => runSpec p n st' (.acts rest)) := by
  simp only [runSpec]
  split
  next h => rw [h, andThen_mk_ok]
  next h => rw [andThen_of_not_ok _ _ h]

theorem runSpec_pres_nil (f k) : runSpec p (n+1) st (.pres f k []) = (st, .ok) := by
  simp only [runSpec]

theorem runSpec_pres_cons (f k c cs) : runSpec p (n+1) st (.pres f k (c :: cs)) =
    andThen (runSpec p n (st.emit (.cond f k)) (.script c))
      (fun st' => if c.truthy then runSpec p n st' (.pres f (k + 1) cs) else (st', .violPre f k)) := by
  simp only [runSpec]
  split
  next h => rw [h, andThen_mk_ok]
  next h => rw [andThen_of_not_ok _ _ h]

theorem runSpec_posts_nil (f k) : runSpec p (n+1) st (.posts f k []) = (st, .ok) := by
  simp only [runSpec]

theorem runSpec_posts_cons (f k c cs) : runSpec p (n+1) st (.posts f k (c :: cs)) =
    andThen (runSpec p n (st.emit (.post f k)) (.script c))
      (fun st' => if c.truthy then runSpec p n st' (.posts f (k + 1) cs) else (st', .violPost f k)) := by
  simp only [runSpec]
  split
  next h => rw [h, andThen_mk_ok]
  next h => rw [andThen_of_not_ok _ _ h]

theorem runSpec_invs_nil (i k) : runSpec p (n+1) st (.invs i k []) = (st, .ok) := by
  simp only [runSpec]

theorem runSpec_invs_cons (i k c cs) : runSpec p (n+1) st (.invs i k (c :: cs)) =
    andThen (runSpec p n (st.emit (.inv i k)) (.script c))
      (fun st' => if c.truthy then runSpec p n st' (.invs i (k + 1) cs) else (st', .violInv i k)) := by
  simp only [runSpec]
  split
  next h => rw [h, andThen_mk_ok]
  next h => rw [andThen_of_not_ok _ _ h]

theorem runSpec_callFn_none (f) (h : p.fn? f = none) :
    runSpec p (n+1) st (.act (.callFn f)) = (st, .ok) := by
  simp only [runSpec, h]

theorem runSpec_callFn_bare (f d) (h : p.fn? f = some d) (hc : st.fnSuspended f = true) :
    runSpec p (n+1) st (.act (.callFn f)) =
      framed (.fn f) .fnBody st (fun st => runSpec p n (st.emit (.body f)) (.script d.body)) := by
  simp only [runSpec, h, hc, if_true]

theorem runSpec_callFn_checked (f d) (h : p.fn? f = some d) (hc : st.fnSuspended f = false) :
    runSpec p (n+1) st (.act (.callFn f)) =
    andThen (framed (.fn f) .fnContract st (fun st => runSpec p n st (.pres f 0 d.pre))) fun st1 =>
      andThen (framed (.fn f) .fnBody st1
          (fun st => runSpec p n (st.emit (.body f)) (.script d.body))) fun st2 =>
        framed (.fn f) .fnContract st2 (fun st => runSpec p n st (.posts f 0 d.post)) := by
  simp only [runSpec, h, hc, Bool.false_eq_true, if_false]
  split
  next h1 =>
    rw [h1, andThen_mk_ok]
    split
    next h2 => rw [h2, andThen_mk_ok]
    next h2 => rw [andThen_of_not_ok _ _ h2]
  next h1 => rw [andThen_of_not_ok _ _ h1]

theorem runSpec_callMethod_none (i m) (h : p.meth? i m = none) :
    runSpec p (n+1) st (.act (.callMethod i m)) = (st, .ok) := by
  unfold Program.meth? at h
  simp only [runSpec, h]

theorem runSpec_callMethod_bare (i m c md) (h : p.meth? i m = some (c, md))
    (hc : (!md.guarded || st.instSuspended i) = true) :
    runSpec p (n+1) st (.act (.callMethod i m)) =
      runSpec p n (st.emit (.methBody i m)) (.script md.body) := by
  unfold Program.meth? at h
  simp only [runSpec, h, hc, if_true]

theorem runSpec_callMethod_checked (i m c md) (h : p.meth? i m = some (c, md))
    (hc : (!md.guarded || st.instSuspended i) = false) :
    runSpec p (n+1) st (.act (.callMethod i m)) =
    andThen (framed (.inst i) .invEval st (fun st => runSpec p n st (.invs i 0 c.invs))) fun st1 =>
      andThen (framed (.inst i) .method st1
          (fun st => runSpec p n (st.emit (.methBody i m)) (.script md.body))) fun st2 =>
        framed (.inst i) .invEval st2 (fun st => runSpec p n st (.invs i 0 c.invs)) := by
  unfold Program.meth? at h
  simp only [runSpec, h, hc, Bool.false_eq_true, if_false]
  split
  next h1 =>
    rw [h1, andThen_mk_ok]
    split
    next h2 => rw [h2, andThen_mk_ok]
    next h2 => rw [andThen_of_not_ok _ _ h2]
  next h1 => rw [andThen_of_not_ok _ _ h1]

theorem runSpec_construct (i) :
    runSpec p (n+1) st (.act (.construct i)) = runSpec p n st (.act (.superInit i (p.clsOf i))) := by
  simp only [runSpec]

theorem runSpec_superInit_none (i cid) (h : p.cls? cid = none) :
    runSpec p (n+1) st (.act (.superInit i cid)) = (st, .ok) := by
  simp only [runSpec, h]

theorem runSpec_superInit_bare (i cid c) (h : p.cls? cid = some c)
    (hc : st.instSuspended i = true) :
    runSpec p (n+1) st (.act (.superInit i cid)) =
      runSpec p n (st.emit (.initBody i cid)) (.script c.init) := by
  simp only [runSpec, h, hc, if_true]

theorem runSpec_superInit_checked (i cid c) (h : p.cls? cid = some c)
    (hc : st.instSuspended i = false) :
    runSpec p (n+1) st (.act (.superInit i cid)) =
    andThen (framed (.inst i) .ctor st
        (fun st => runSpec p n (st.emit (.initBody i cid)) (.script c.init))) fun st1 =>
      framed (.inst i) .invEval st1
        (fun st => runSpec p n st (.invs i 0 (((p.cls? (p.clsOf i)).map (·.invs)).getD []))) := by
  simp only [runSpec, h, hc, Bool.false_eq_true, if_false]
  split
  next h1 => rw [h1, andThen_mk_ok]
  next h1 => rw [andThen_of_not_ok _ _ h1]

end runSpec

end Icontract.Re
