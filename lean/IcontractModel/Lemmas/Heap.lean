/-
  Elementary facts about the heap of mutable lists of `Meta.lean`:
  `alloc` extends, `set`/`append` write one cell, lengths only grow.
-/
import IcontractModel.Meta
namespace Icontract.Meta

theorem Heap.alloc_snd (h : Heap) (xs : List Nat) : (h.alloc xs).2 = h.length := rfl

theorem Heap.length_alloc (h : Heap) (xs : List Nat) : (h.alloc xs).1.length = h.length + 1 := by
  simp [Heap.alloc]

theorem Heap.get_alloc_lt (h : Heap) (xs : List Nat) (r : Nat) (hr : r < h.length) :
    (h.alloc xs).1.get r = h.get r := by
  simp [Heap.alloc, Heap.get, List.getElem?_append_left hr]

theorem Heap.get_alloc_self (h : Heap) (xs : List Nat) : (h.alloc xs).1.get h.length = xs := by
  simp [Heap.alloc, Heap.get]

theorem Heap.length_set (h : Heap) (r : Nat) (xs : List Nat) : (h.set r xs).length = h.length := by
  simp [Heap.set]

theorem Heap.get_set_ne (h : Heap) (r r' : Nat) (xs : List Nat) (hne : r' ≠ r) :
    (h.set r xs).get r' = h.get r' := by
  simp only [Heap.set, Heap.get, List.getElem?_mapIdx]
  cases h[r']? <;> simp [hne]

theorem Heap.length_append (h : Heap) (r : Nat) (x : Nat) : (h.append r x).length = h.length := by
  simp [Heap.append, Heap.length_set]

theorem Heap.get_append_ne (h : Heap) (r r' : Nat) (x : Nat) (hne : r' ≠ r) :
    (h.append r x).get r' = h.get r' := by
  simp [Heap.append, Heap.get_set_ne _ _ _ _ hne]

/-- cells below the old length are unchanged, and the heap did not shrink -/
def HPres (h h' : Heap) : Prop :=
  (∀ r < h.length, h'.get r = h.get r) ∧ h.length ≤ h'.length

theorem HPres.refl (h : Heap) : HPres h h := ⟨fun _ _ => rfl, Nat.le_refl _⟩

theorem HPres.trans {h1 h2 h3 : Heap} (a : HPres h1 h2) (b : HPres h2 h3) : HPres h1 h3 :=
  ⟨fun r hr => by rw [b.1 r (Nat.lt_of_lt_of_le hr a.2), a.1 r hr], Nat.le_trans a.2 b.2⟩

theorem HPres.alloc (h : Heap) (xs : List Nat) : HPres h (h.alloc xs).1 :=
  ⟨fun r hr => Heap.get_alloc_lt h xs r hr, by rw [Heap.length_alloc]; exact Nat.le_succ _⟩

theorem HPres.append_ge (h : Heap) (r : Nat) (x : Nat) (n : Nat) (hn : n ≤ r) (hl : n ≤ h.length) :
    (∀ r' < n, (h.append r x).get r' = h.get r') ∧ n ≤ (h.append r x).length :=
  ⟨fun r' hr' => Heap.get_append_ne h r r' x (Nat.ne_of_lt (Nat.lt_of_lt_of_le hr' hn)), by rw [Heap.length_append]; exact hl⟩

end Icontract.Meta
