/- Under "the call reaches the body" the body event (with exactly the arguments of the call) is in
   the trace of the generic wrapper skeleton. -/
import IcontractModel.Lemmas.Post
namespace Icontract
open Res

theorem checkedG_reaches_body_mem (h : Hooks) (ck : Checker) (call : Call) (old : List (String × Id))
    (hvalid : assertResolvedKwargsValid (!ck.posts.isEmpty) (resolved ck call) = none)
    (hpre : (assertPreG (h.evPre (resolved ck call)) (fun c => h.mkErr c (resolved ck call)) ck.pre).out
      = .ok none)
    (hcap : (!ck.posts.isEmpty && !ck.snaps.isEmpty) = true →
      (h.capture (resolved ck call) [] ck.snaps).out = .ok old)
    (e : Event) (he : e ∈ (h.body call).trace) : e ∈ (checkedG h ck call).trace := by
  obtain ⟨_, ht⟩ := checkedG_reaches h ck call old hvalid hpre hcap
  rw [ht, List.mem_append]
  right
  unfold tailG
  rw [mem_bind_trace]
  exact Or.inl he

theorem runBody_body_mem (o : Oracle) (call : Call) :
    Event.body call.args call.kwargs ∈ (runBody o call).trace := by
  cases hb : o.body with
  | ret v => rw [runBody_ret o call v hb]; exact List.mem_singleton.mpr rfl
  | raises e => rw [runBody_raises o call e hb]; exact List.mem_singleton.mpr rfl

end Icontract
