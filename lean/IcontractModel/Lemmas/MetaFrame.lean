/-
  Frame lemmas for the metaclass model (`Meta.lean`): which heap cells, checker bindings,
  classes and hook calls each operation can change.
-/
import IcontractModel.Lemmas.Heap
namespace Icontract.Meta

/-! ### association-list lookups -/

theorem find_append_self (l : List (FnId × CheckerObj)) (f : FnId) (ck : CheckerObj)
    (h : l.find? (·.1 == f) = none) : (l ++ [(f, ck)]).find? (·.1 == f) = some (f, ck) := by
  simp [List.find?_append, h]

theorem find_append_ne (l : List (FnId × CheckerObj)) (f f' : FnId) (ck : CheckerObj)
    (h : f' ≠ f) : (l ++ [(f, ck)]).find? (·.1 == f') = l.find? (·.1 == f') := by
  have : (f == f') = false := by simpa using fun e => h e.symm
  simp [List.find?_append, this]

theorem find_rebind_self (l : List (FnId × CheckerObj)) (f : FnId) (new : CheckerObj) :
    ((l.map (fun p => if p.1 == f then (f, new) else p)).find? (·.1 == f)).map (·.2)
      = (l.find? (·.1 == f)).map (fun _ => new) := by
  induction l with
  | nil => rfl
  | cons a l ih =>
    by_cases ha : a.1 = f
    · simp [ha]
    · have : (a.1 == f) = false := by simpa using ha
      simp only [List.map_cons, this, Bool.false_eq_true, if_false, List.find?_cons]
      exact ih

theorem find_rebind_ne (l : List (FnId × CheckerObj)) (f f' : FnId) (new : CheckerObj) (h : f' ≠ f) :
    (l.map (fun p => if p.1 == f then (f, new) else p)).find? (·.1 == f')
      = l.find? (·.1 == f') := by
  induction l with
  | nil => rfl
  | cons a l ih =>
    by_cases ha : a.1 = f
    · have h1 : (f == f') = false := by simpa using fun e => h e.symm
      have h2 : (a.1 == f') = false := by rw [ha]; exact h1
      simp only [List.map_cons, List.find?_cons, ha, beq_self_eq_true, if_true, h1]
      exact ih
    · have : (a.1 == f) = false := by simpa using ha
      simp only [List.map_cons, this, Bool.false_eq_true, if_false, List.find?_cons]
      rw [ih]

/-! ### frames -/

/-- `w'` arises from `w` by allocating cells and re-binding checkers of functions in `S` only -/
structure Frame (S : FnId → Prop) (w w' : World) : Prop where
  heap : HPres w.heap w'.heap
  classes : w'.classes = w.classes
  hooks : w'.hookCalls = w.hookCalls
  checkers : ∀ f, ¬ S f → w'.checker? f = w.checker? f

theorem Frame.refl (S : FnId → Prop) (w : World) : Frame S w w :=
  ⟨HPres.refl _, rfl, rfl, fun _ _ => rfl⟩

theorem Frame.trans {S : FnId → Prop} {w1 w2 w3 : World} (a : Frame S w1 w2) (b : Frame S w2 w3) :
    Frame S w1 w3 :=
  ⟨a.heap.trans b.heap, b.classes.trans a.classes, b.hooks.trans a.hooks,
   fun f hf => (b.checkers f hf).trans (a.checkers f hf)⟩

theorem Frame.mono {S T : FnId → Prop} {w w' : World} (a : Frame S w w') (h : ∀ f, S f → T f) :
    Frame T w w' :=
  ⟨a.heap, a.classes, a.hooks, fun f hf => a.checkers f (fun hs => hf (h f hs))⟩

/-! ### `ensureChecker` -/

theorem ensureChecker_some (w : World) (f : FnId) (ck : CheckerObj) (h : w.checker? f = some ck) :
    ensureChecker w f = (w, ck) := by
  simp [ensureChecker, h]

/-- the world after `decorate_with_checker` on a function without a checker -/
def freshChecker (w : World) (f : FnId) : World × CheckerObj :=
  ({ w with heap := (((w.heap.alloc []).1.alloc []).1.alloc []).1,
            checkers := w.checkers ++ [(f, { pre := w.heap.length, snaps := w.heap.length + 1,
                                             posts := w.heap.length + 2 })] },
   { pre := w.heap.length, snaps := w.heap.length + 1, posts := w.heap.length + 2 })

theorem ensureChecker_none (w : World) (f : FnId) (h : w.checker? f = none) :
    ensureChecker w f = freshChecker w f := by
  simp [ensureChecker, h, freshChecker, Heap.alloc]


theorem freshChecker_frame (w : World) (f : FnId) : Frame (· = f) w (freshChecker w f).1 := by
  refine ⟨?_, rfl, rfl, ?_⟩
  · exact ((HPres.alloc _ _).trans (HPres.alloc _ _)).trans (HPres.alloc _ _)
  · intro f' hf'
    simp only [World.checker?, freshChecker]
    rw [find_append_ne _ _ _ _ hf']

theorem ensureChecker_frame (w : World) (f : FnId) : Frame (· = f) w (ensureChecker w f).1 := by
  cases h : w.checker? f with
  | some ck => rw [ensureChecker_some _ _ _ h]; exact Frame.refl _ _
  | none => rw [ensureChecker_none _ _ h]; exact freshChecker_frame w f

theorem ensureChecker_checker (w : World) (f : FnId) :
    (ensureChecker w f).1.checker? f = some (ensureChecker w f).2 := by
  cases h : w.checker? f with
  | some ck => rw [ensureChecker_some _ _ _ h]; exact h
  | none =>
    rw [ensureChecker_none _ _ h]
    have h' : w.checkers.find? (·.1 == f) = none := by
      simpa [World.checker?] using h
    simp only [World.checker?, freshChecker]
    rw [find_append_self _ _ _ h']; rfl

/-! ### `decorateOne` -/

def ownPre (w : World) (f : FnId) : List Nat :=
  match w.checker? f with | some ck => w.heap.get ck.pre | none => []
def ownSnaps (w : World) (f : FnId) : List Nat :=
  match w.checker? f with | some ck => w.heap.get ck.snaps | none => []
def ownPosts (w : World) (f : FnId) : List Nat :=
  match w.checker? f with | some ck => w.heap.get ck.posts | none => []

/-- the world after the collapsed lists have been installed on `f`'s checker -/
def installed (w : World) (f : FnId) (pre snaps posts : List Nat) : World :=
  let w1 := (ensureChecker w f).1
  { w1 with
    heap := (((w1.heap.alloc pre).1.alloc snaps).1.alloc posts).1,
    checkers := w1.checkers.map (fun p => if p.1 == f then
      (f, { pre := w1.heap.length, snaps := w1.heap.length + 1, posts := w1.heap.length + 2 }) else p) }

/-! ### `copyCells`: fresh cells with the contents of the given ones -/

theorem copyCells_nil (w : World) : copyCells w [] = (w, []) := rfl

theorem copyCells_cons (w : World) (r : Ref) (rest : List Ref) :
    copyCells w (r :: rest) =
      ((copyCells { w with heap := (w.heap.alloc (w.heap.get r)).1 } rest).1,
       w.heap.length :: (copyCells { w with heap := (w.heap.alloc (w.heap.get r)).1 } rest).2) := rfl

/-- everything but the heap is untouched -/
theorem copyCells_fields (w : World) (rs : List Ref) :
    (copyCells w rs).1.checkers = w.checkers ∧ (copyCells w rs).1.classes = w.classes ∧
    (copyCells w rs).1.snapNames = w.snapNames ∧ (copyCells w rs).1.hookCalls = w.hookCalls ∧
    (copyCells w rs).1.invCheckOn = w.invCheckOn := by
  induction rs generalizing w with
  | nil => exact ⟨rfl, rfl, rfl, rfl, rfl⟩
  | cons r rest ih => rw [copyCells_cons]; exact ih _

theorem copyCells_checker? (w : World) (rs : List Ref) (f : FnId) :
    (copyCells w rs).1.checker? f = w.checker? f := by
  simp only [World.checker?, (copyCells_fields w rs).1]

theorem copyCells_length (w : World) (rs : List Ref) :
    (copyCells w rs).1.heap.length = w.heap.length + rs.length := by
  induction rs generalizing w with
  | nil => rfl
  | cons r rest ih =>
    rw [copyCells_cons]
    simp only [ih, Heap.length_alloc, List.length_cons]
    omega

theorem copyCells_hpres (w : World) (rs : List Ref) : HPres w.heap (copyCells w rs).1.heap := by
  induction rs generalizing w with
  | nil => exact HPres.refl _
  | cons r rest ih =>
    rw [copyCells_cons]
    exact (HPres.alloc w.heap (w.heap.get r)).trans
      (ih { w with heap := (w.heap.alloc (w.heap.get r)).1 })

/-- the copies are the consecutive new indices -/
theorem copyCells_snd (w : World) (rs : List Ref) :
    (copyCells w rs).2 = List.range' w.heap.length rs.length := by
  induction rs generalizing w with
  | nil => rfl
  | cons r rest ih =>
    rw [copyCells_cons]
    simp only [ih, Heap.length_alloc, List.length_cons, List.range'_succ]

theorem copyCells_snd_length (w : World) (rs : List Ref) : (copyCells w rs).2.length = rs.length := by
  rw [copyCells_snd, List.length_range']

theorem copyCells_snd_mem (w : World) (rs : List Ref) (r : Nat) (h : r ∈ (copyCells w rs).2) :
    w.heap.length ≤ r ∧ r < (copyCells w rs).1.heap.length := by
  rw [copyCells_snd, List.mem_range'_1] at h
  rw [copyCells_length]
  exact h

/-- the copies hold what the originals held (for references into the heap) -/
theorem copyCells_contents (w : World) (rs : List Ref) (h : ∀ r ∈ rs, r < w.heap.length) :
    (copyCells w rs).2.map (copyCells w rs).1.heap.get = rs.map w.heap.get := by
  induction rs generalizing w with
  | nil => rfl
  | cons r rest ih =>
    rw [copyCells_cons]
    simp only [List.map_cons]
    have hp := copyCells_hpres { w with heap := (w.heap.alloc (w.heap.get r)).1 } rest
    have hlt : w.heap.length < (w.heap.alloc (w.heap.get r)).1.length := by
      rw [Heap.length_alloc]; exact Nat.lt_succ_self _
    congr 1
    · rw [hp.1 _ hlt]
      exact Heap.get_alloc_self _ _
    · rw [ih _ (fun x hx => Nat.lt_trans (h x (List.mem_cons_of_mem _ hx)) hlt)]
      exact List.map_congr_left (fun x hx =>
        Heap.get_alloc_lt _ _ _ (h x (List.mem_cons_of_mem _ hx)))

theorem copyCells_frame (w : World) (rs : List Ref) : Frame (fun _ => False) w (copyCells w rs).1 :=
  ⟨copyCells_hpres w rs, (copyCells_fields w rs).2.1, (copyCells_fields w rs).2.2.2.1,
   fun f _ => copyCells_checker? w rs f⟩

theorem decorateOne_cases (w w' : World) (key : String) (f : FnId) (inh hv : Bool)
    (bPre bSnaps bPosts : List Nat)
    (h : decorateOne w key f inh (hv, bPre, bSnaps, bPosts) = .ok w') :
    (w' = w ∧ (inh = false ∨
        ((bPre ++ ownPre w f).isEmpty = true ∧ (bPosts ++ ownPosts w f).isEmpty = true))) ∨
    w' = installed (copyCells w bPre).1 f ((copyCells w bPre).2 ++ ownPre w f) (bSnaps ++ ownSnaps w f)
          (bPosts ++ ownPosts w f) := by
  unfold decorateOne at h
  cases hck : w.checker? f <;> simp only [hck, ownPre, ownSnaps, ownPosts] at h ⊢ <;>
  · split at h
    · next hi =>
      left
      exact ⟨(Except.ok.inj h).symm, Or.inl (by simpa using hi)⟩
    · split at h
      · cases h
      · split at h
        · cases h
        · split at h
          · next he =>
            left
            have hb : bPre = [] := by
              have h1 : (copyCells w bPre).2 = [] := by
                simp only [Bool.and_eq_true, List.isEmpty_iff, List.append_eq_nil_iff] at he
                exact he.1.1
              have h2 := copyCells_snd_length w bPre
              rw [h1] at h2
              exact List.eq_nil_of_length_eq_zero h2.symm
            subst hb
            refine ⟨(Except.ok.inj h).symm, Or.inr ?_⟩
            simpa [copyCells_nil] using he
          · right
            rw [← Except.ok.inj h]
            simp only [installed, Heap.alloc_snd, Heap.length_alloc]

theorem installed_frame (w : World) (f : FnId) (pre snaps posts : List Nat) :
    Frame (· = f) w (installed w f pre snaps posts) := by
  refine (ensureChecker_frame w f).trans ⟨?_, rfl, rfl, ?_⟩
  · exact ((HPres.alloc _ _).trans (HPres.alloc _ _)).trans (HPres.alloc _ _)
  · intro f' hf'
    simp only [World.checker?, installed]
    rw [find_rebind_ne _ _ _ _ hf']

theorem installed_checker (w : World) (f : FnId) (pre snaps posts : List Nat) :
    (installed w f pre snaps posts).checker? f =
      some { pre := (ensureChecker w f).1.heap.length, snaps := (ensureChecker w f).1.heap.length + 1,
             posts := (ensureChecker w f).1.heap.length + 2 } := by
  have h := ensureChecker_checker w f
  simp only [World.checker?] at h
  simp only [World.checker?, installed]
  rw [find_rebind_self]
  cases hh : List.find? (fun x => x.1 == f) (ensureChecker w f).1.checkers with
  | none => rw [hh] at h; cases h
  | some x => rfl

theorem installed_heap (w : World) (f : FnId) (pre snaps posts : List Nat) :
    (installed w f pre snaps posts).heap.get (ensureChecker w f).1.heap.length = pre ∧
    (installed w f pre snaps posts).heap.get ((ensureChecker w f).1.heap.length + 1) = snaps ∧
    (installed w f pre snaps posts).heap.get ((ensureChecker w f).1.heap.length + 2) = posts := by
  simp only [installed]
  generalize (ensureChecker w f).1.heap = h
  refine ⟨?_, ?_, ?_⟩
  · rw [Heap.get_alloc_lt, Heap.get_alloc_lt, Heap.get_alloc_self] <;>
      simp only [Heap.length_alloc] <;> omega
  · rw [Heap.get_alloc_lt, ← Heap.length_alloc h pre, Heap.get_alloc_self]
    simp only [Heap.length_alloc]; omega
  · have : h.length + 2 = ((h.alloc pre).1.alloc snaps).1.length := by
      simp only [Heap.length_alloc]
    rw [this, Heap.get_alloc_self]

theorem decorateOne_frame (w w' : World) (key : String) (f : FnId) (inh : Bool)
    (base : Bool × List Nat × List Nat × List Nat)
    (h : decorateOne w key f inh base = .ok w') : Frame (· = f) w w' := by
  obtain ⟨hv, bPre, bSnaps, bPosts⟩ := base
  rcases decorateOne_cases w w' key f inh hv bPre bSnaps bPosts h with ⟨rfl, _⟩ | rfl
  · exact Frame.refl _ _
  · exact ((copyCells_frame w bPre).mono (fun _ hf => hf.elim)).trans (installed_frame _ _ _ _ _)

/-! ### `decorateMember` and the namespace pass -/

/-- `f` is the function object behind some accessor of `m` -/
def Member.mentions (m : Member) (f : FnId) : Prop := ∃ which, memberFnId m which = some f

theorem optDecorate_frame (w w' : World) (key : String) (o : Option FnId)
    (base : FnId → Bool × List Nat × List Nat × List Nat)
    (h : (match o with | some f => decorateOne w key f true (base f) | none => .ok w) = .ok w') :
    Frame (fun f => o = some f) w w' := by
  cases o with
  | none => cases h; exact Frame.refl _ _
  | some f => exact (decorateOne_frame w w' key f _ _ h).mono (fun g hg => by rw [hg])

theorem decorateMember_frame (w w' : World) (bases : List ClsId) (key : String) (m : Member)
    (h : decorateMember w bases key m = .ok w') : Frame m.mentions w w' := by
  cases m with
  | func f =>
    simp only [decorateMember] at h
    exact (decorateOne_frame w w' key f _ _ h).mono (fun g hg => ⟨0, by simp [memberFnId, hg]⟩)
  | static f =>
    simp only [decorateMember] at h
    exact (decorateOne_frame w w' key f _ _ h).mono (fun g hg => ⟨0, by simp [memberFnId, hg]⟩)
  | classm f =>
    simp only [decorateMember] at h
    exact (decorateOne_frame w w' key f _ _ h).mono (fun g hg => ⟨0, by simp [memberFnId, hg]⟩)
  | other => cases h; exact Frame.refl _ _
  | prop g s d =>
    simp only [decorateMember, Bind.bind, Except.bind] at h
    split at h
    · cases h
    · next w1 h1 =>
      split at h
      · cases h
      · next w2 h2 =>
        have f1 := (optDecorate_frame _ _ _ g (fun f => collectBasesProp _ bases key 0 f) h1).mono
          (T := (Member.prop g s d).mentions) (fun f hf => ⟨0, by simp [memberFnId, hf]⟩)
        have f2 := (optDecorate_frame _ _ _ s (fun f => collectBasesProp _ bases key 1 f) h2).mono
          (T := (Member.prop g s d).mentions) (fun f hf => ⟨1, by simp [memberFnId, hf]⟩)
        have f3 := (optDecorate_frame _ _ _ d (fun f => collectBasesProp _ bases key 2 f) h).mono
          (T := (Member.prop g s d).mentions) (fun f hf => ⟨2, by simp [memberFnId, hf]⟩)
        exact (f1.trans f2).trans f3

/-- dropping the checkers of functions that had none before keeps a frame a frame -/
theorem Frame.dropNew {S : FnId → Prop} {w w' : World} (h : Frame S w w') :
    Frame S w { w' with checkers := w'.checkers.filter (fun p => (w.checker? p.1).isSome) } := by
  refine ⟨h.heap, h.classes, h.hooks, ?_⟩
  intro f hf
  have hk := h.checkers f hf
  show (List.find? (fun x => x.1 == f) (w'.checkers.filter (fun p => (w.checker? p.1).isSome))).map (·.2) = w.checker? f
  rw [List.find?_filter]
  cases hw : w.checker? f with
  | none =>
    have : List.find? (fun a => decide ((w.checker? a.1).isSome = true ∧ (a.1 == f) = true)) w'.checkers = none := by
      apply List.find?_eq_none.mpr
      intro a _ hcon
      simp only [decide_eq_true_eq, beq_iff_eq] at hcon
      rw [hcon.2, hw] at hcon
      simp at hcon
    rw [this]; rfl
  | some ck =>
    have hfun : (fun a : FnId × CheckerObj => decide ((w.checker? a.1).isSome = true ∧ (a.1 == f) = true)) = (fun a => a.1 == f) := by
      funext a
      by_cases ha : a.1 = f
      · simp [ha, hw]
      · simp [ha]
    rw [hfun]
    have : w'.checker? f = some ck := by rw [hk, hw]
    exact this

/-- **What a rejected class statement leaves behind stays inside its own namespace**: no class, no hook registration and
no checker of a function that is not a member of the refused class changes -/
theorem defineClassResidue_frame (bases : List ClsId) (ns : List (String × Member)) (w : World) :
    Frame (fun f => ∃ p ∈ ns, p.2.mentions f) w (defineClassResidue w bases ns) := by
  induction ns generalizing w with
  | nil => exact Frame.refl _ _
  | cons p ns ih =>
    obtain ⟨key, m⟩ := p
    unfold defineClassResidue
    cases hd : decorateMember w bases key m with
    | error e => exact Frame.refl _ _
    | ok w' =>
      have f1 := ((decorateMember_frame _ _ _ _ _ hd).dropNew).mono
        (T := fun f => ∃ q ∈ (key, m) :: ns, q.2.mentions f) (fun f hf => ⟨(key, m), List.mem_cons_self, hf⟩)
      have f2 := (ih { w' with checkers := w'.checkers.filter (fun p => (w.checker? p.1).isSome) }).mono
        (T := fun f => ∃ q ∈ (key, m) :: ns, q.2.mentions f)
        (fun f ⟨q, hq, hm⟩ => ⟨q, List.mem_cons_of_mem _ hq, hm⟩)
      exact f1.trans f2

theorem nsPass_frame (bases : List ClsId) (ns : List (String × Member)) (w w' : World)
    (h : ns.foldlM (fun w (p : String × Member) => decorateMember w bases p.1 p.2) w = .ok w') :
    Frame (fun f => ∃ p ∈ ns, p.2.mentions f) w w' := by
  induction ns generalizing w with
  | nil =>
    simp only [List.foldlM_nil, pure, Except.pure] at h
    cases h; exact Frame.refl _ _
  | cons p ns ih =>
    simp only [List.foldlM_cons, Bind.bind, Except.bind] at h
    split at h
    · cases h
    · next w1 h1 =>
      have f1 := (decorateMember_frame _ _ _ _ _ h1).mono
        (T := fun f => ∃ q ∈ p :: ns, q.2.mentions f) (fun f hf => ⟨p, List.mem_cons_self, hf⟩)
      have f2 := (ih w1 h).mono
        (T := fun f => ∃ q ∈ p :: ns, q.2.mentions f)
        (fun f ⟨q, hq, hf⟩ => ⟨q, List.mem_cons_of_mem _ hq, hf⟩)
      exact f1.trans f2

/-! ### `collapseInv` -/

theorem collapseInv_frame (w : World) (bases : List ClsId) (d : InvDunder) :
    Frame (fun _ => False) w (collapseInv w bases d).1 := by
  unfold collapseInv
  simp only []
  split
  · exact Frame.refl _ _
  · exact ⟨HPres.alloc _ _, rfl, rfl, fun _ _ => rfl⟩

/-! ### `setCls` and `addInvariantChecks` -/

theorem foldl_inv {α β : Type} (P : β → Prop) (f : β → α → β) (hf : ∀ b a, P b → P (f b a))
    (l : List α) (b : β) (hb : P b) : P (l.foldl f b) := by
  induction l generalizing b with
  | nil => exact hb
  | cons a l ih => exact ih _ (hf b a hb)

theorem cls?_id (w : World) (k : ClsId) (c : Cls) (h : w.cls? k = some c) : c.id = k := by
  have := List.find?_some h
  simpa using this

theorem mem_setCls (w : World) (c' : Cls) (c : Cls) (hc : c ∈ w.classes) (hne : c.id ≠ c'.id) :
    c ∈ (setCls w c').classes := by
  simp only [setCls, List.mem_map]
  refine ⟨c, hc, ?_⟩
  have : (c.id == c'.id) = false := by simpa using hne
  simp [this]

theorem addInvariantChecks_eq (w : World) (k : ClsId) :
    addInvariantChecks w k = w ∨ ∃ c', c'.id = k ∧ addInvariantChecks w k = setCls w c' := by
  unfold addInvariantChecks
  split
  · exact Or.inl rfl
  · next c hc =>
    right
    refine ⟨_, ?_, rfl⟩
    apply foldl_inv (fun c : Cls => c.id = k)
    · intro b key hb
      simp only []
      repeat' split
      all_goals first | exact hb | simp only [hb]
    · exact cls?_id w k c hc

theorem addInvariantChecks_heap (w : World) (k : ClsId) : (addInvariantChecks w k).heap = w.heap := by
  rcases addInvariantChecks_eq w k with h | ⟨c', _, h⟩ <;> rw [h]; rfl

theorem addInvariantChecks_checkers (w : World) (k : ClsId) :
    (addInvariantChecks w k).checkers = w.checkers := by
  rcases addInvariantChecks_eq w k with h | ⟨c', _, h⟩ <;> rw [h]; rfl

theorem addInvariantChecks_hookCalls (w : World) (k : ClsId) :
    (addInvariantChecks w k).hookCalls = w.hookCalls := by
  rcases addInvariantChecks_eq w k with h | ⟨c', _, h⟩ <;> rw [h]; rfl

theorem addInvariantChecks_keeps (w : World) (k : ClsId) (c : Cls) (hc : c ∈ w.classes)
    (hne : c.id ≠ k) : c ∈ (addInvariantChecks w k).classes := by
  rcases addInvariantChecks_eq w k with h | ⟨c', hid, h⟩ <;> rw [h]
  · exact hc
  · exact mem_setCls w c' c hc (by rw [hid]; exact hne)

/-! ### `defineClass` -/

theorem defineClass_plain (w w' : World) (k : ClsId) (bases : List ClsId) (ns : List (String × Member))
    (hook : Bool) (h : defineClass w k bases ns false hook = .ok w') :
    ∃ cnew : Cls, cnew.id = k ∧ w' = { w with classes := w.classes ++ [cnew] } := by
  unfold defineClass at h
  simp only [Bool.not_false, if_true] at h
  split at h
  · cases h
  · exact ⟨_, rfl, (Except.ok.inj h).symm⟩

theorem defineClass_dbc (w w' : World) (k : ClsId) (bases : List ClsId) (ns : List (String × Member))
    (hook : Bool) (h : defineClass w k bases ns true hook = .ok w') :
    ∃ (w2 : World) (cnew : Cls), Frame (fun f => ∃ p ∈ ns, p.2.mentions f) w w2 ∧ cnew.id = k ∧
      (w' = { w2 with classes := w2.classes ++ [cnew], hookCalls := if hook then w2.hookCalls ++ [k] else w2.hookCalls } ∨
       w' = addInvariantChecks { w2 with classes := w2.classes ++ [cnew], hookCalls := if hook then w2.hookCalls ++ [k] else w2.hookCalls } k) := by
  unfold defineClass at h
  simp only [Bool.not_true, Bool.false_eq_true, if_false, Bind.bind, Except.bind] at h
  split at h
  · cases h
  · next w2 h2 =>
    have fr := nsPass_frame bases ns _ _ h2
    have c1 := collapseInv_frame w bases .all
    have c2 := collapseInv_frame (collapseInv w bases .all).1 bases .onCall
    have c3 := collapseInv_frame (collapseInv (collapseInv w bases .all).1 bases .onCall).1 bases .onSetattr
    have fr' := ((c1.trans c2).trans c3).mono (T := fun f => ∃ p ∈ ns, p.2.mentions f) (fun _ hf => hf.elim)
    split at h
    · cases h
    · next mro hm =>
      refine ⟨w2, { id := k, bases := bases, ns := ns, inv := (collapseInv w bases .all).2,
                    invCall := (collapseInv (collapseInv w bases .all).1 bases .onCall).2,
                    invSetattr := (collapseInv (collapseInv (collapseInv w bases .all).1 bases .onCall).1
                                    bases .onSetattr).2,
                    dbc := true, mro := mro, declared := ns.map (·.1) }, fr'.trans fr, rfl, ?_⟩
      have h' := (Except.ok.inj h).symm
      have key : ∀ (c : Prop) [Decidable c] (a b : World), w' = (if c then a else b) → w' = b ∨ w' = a := by
        intro c _ a b h
        split at h
        · exact Or.inr h
        · exact Or.inl h
      exact key _ _ _ h'

/-- what a class statement can change -/
theorem defineClass_summary (w w' : World) (k : ClsId) (bases : List ClsId) (ns : List (String × Member))
    (dbc hook : Bool) (h : defineClass w k bases ns dbc hook = .ok w') :
    HPres w.heap w'.heap ∧
    (∀ f, ¬ (∃ p ∈ ns, p.2.mentions f) → w'.checker? f = w.checker? f) ∧
    (w.cls? k = none → ∀ c ∈ w.classes, c ∈ w'.classes) := by
  cases dbc with
  | false =>
    obtain ⟨cnew, _, rfl⟩ := defineClass_plain w w' k bases ns hook h
    exact ⟨HPres.refl _, fun _ _ => rfl, fun _ c hc => List.mem_append_left _ hc⟩
  | true =>
    obtain ⟨w2, cnew, fr, hid, rfl | rfl⟩ := defineClass_dbc w w' k bases ns hook h
    · refine ⟨fr.heap, fr.checkers, fun _ c hc => ?_⟩
      exact List.mem_append_left _ (fr.classes ▸ hc)
    · refine ⟨?_, ?_, fun hk c hc => ?_⟩
      · rw [addInvariantChecks_heap]; exact fr.heap
      · intro f hf
        simp only [World.checker?, addInvariantChecks_checkers]
        exact fr.checkers f hf
      · apply addInvariantChecks_keeps
        · exact List.mem_append_left _ (fr.classes ▸ hc)
        · have := List.find?_eq_none.mp hk c hc
          simpa using this

/-- `hookCalls` after a class statement -/
theorem defineClass_hookCalls (w w' : World) (k : ClsId) (bases : List ClsId) (ns : List (String × Member))
    (dbc hook : Bool) (h : defineClass w k bases ns dbc hook = .ok w') :
    w'.hookCalls = if dbc && hook then w.hookCalls ++ [k] else w.hookCalls := by
  cases dbc with
  | false =>
    obtain ⟨cnew, _, rfl⟩ := defineClass_plain w w' k bases ns hook h
    rfl
  | true =>
    obtain ⟨w2, cnew, fr, hid, rfl | rfl⟩ := defineClass_dbc w w' k bases ns hook h
    · simp only [fr.hooks, Bool.true_and]
    · rw [addInvariantChecks_hookCalls]
      simp only [fr.hooks, Bool.true_and]

/-! ### function decorators and the `invariant` decorator -/

theorem HPres.append_of {h0 h : Heap} (a : HPres h0 h) (r x : Nat) (hr : h0.length ≤ r) :
    HPres h0 (h.append r x) :=
  ⟨fun r' hr' => by
      rw [Heap.get_append_ne h r r' x (Nat.ne_of_lt (Nat.lt_of_lt_of_le hr' hr))]; exact a.1 r' hr',
   by rw [Heap.length_append]; exact a.2⟩

theorem addPre_fresh (w : World) (f : FnId) (c : CId) (h : w.checker? f = none) :
    HPres w.heap (addPre w f c).heap := by
  have hget : (((w.heap.alloc []).1.alloc []).1.alloc []).1.get w.heap.length = [] := by
    rw [Heap.get_alloc_lt, Heap.get_alloc_lt, Heap.get_alloc_self] <;>
      simp only [Heap.length_alloc] <;> omega
  simp only [addPre, ensureChecker_none _ _ h, freshChecker, hget]
  exact ((((HPres.alloc _ _).trans (HPres.alloc _ _)).trans (HPres.alloc _ _)).trans
    (HPres.alloc _ _)).append_of _ _ (Nat.le_refl _)

theorem addPost_fresh (w : World) (f : FnId) (c : CId) (h : w.checker? f = none) :
    HPres w.heap (addPost w f c).heap := by
  simp only [addPost, ensureChecker_none _ _ h, freshChecker]
  exact (((HPres.alloc _ _).trans (HPres.alloc _ _)).trans (HPres.alloc _ _)).append_of _ _
    (Nat.le_add_right _ _)

theorem lookupInv_own (w : World) (k : ClsId) (cls : Cls) (hc : w.cls? k = some cls)
    (hmro : cls.mro.head? = some k) (d : InvDunder) (r : Ref) (hr : cls.invRef d = some r) :
    lookupInv w k d = some r := by
  cases hm : cls.mro with
  | nil => rw [hm] at hmro; cases hmro
  | cons a tl =>
    rw [hm] at hmro
    simp only [List.head?_cons, Option.some.injEq] at hmro
    subst hmro
    simp only [lookupInv, hc, hm, List.findSome?_cons, hr]

theorem addInvariant_own (w : World) (k : ClsId) (c : CId) (on : CheckOn)
    (cls : Cls) (hc : w.cls? k = some cls) (r1 r2 r3 : Ref)
    (h1 : cls.inv = some r1) (h2 : cls.invCall = some r2) (h3 : cls.invSetattr = some r3)
    (hmro : cls.mro.head? = some k) :
    (addInvariant w k c on).heap =
      (if on.setattr then Heap.append (if on.call then (w.heap.append r1 c).append r2 c else w.heap.append r1 c) r3 c
       else (if on.call then (w.heap.append r1 c).append r2 c else w.heap.append r1 c)) := by
  have l1 := lookupInv_own w k cls hc hmro .all r1 h1
  have l2 := lookupInv_own w k cls hc hmro .onCall r2 h2
  have l3 := lookupInv_own w k cls hc hmro .onSetattr r3 h3
  simp only [addInvariant, hc, l1, l2, l3, addInvariantChecks_heap, Option.getD_some]

theorem addInvariant_first (w : World) (k : ClsId) (c : CId) (on : CheckOn)
    (cls : Cls) (hc : w.cls? k = some cls) (hnone : lookupInv w k .all = none) :
    HPres w.heap (addInvariant w k c on).heap := by
  simp only [addInvariant, hc, hnone, addInvariantChecks_heap, setCls, Heap.alloc_snd]
  have base : HPres w.heap (((w.heap.alloc []).1.alloc []).1.alloc []).1 :=
    ((HPres.alloc _ _).trans (HPres.alloc _ _)).trans (HPres.alloc _ _)
  have b1 := base.append_of w.heap.length c (Nat.le_refl _)
  have l1 : w.heap.length ≤ (w.heap.alloc []).1.length := (HPres.alloc _ _).2
  have l2 : w.heap.length ≤ ((w.heap.alloc []).1.alloc []).1.length :=
    ((HPres.alloc _ _).trans (HPres.alloc _ _)).2
  cases on.setattr <;> cases on.call <;>
    simp only [Bool.false_eq_true, if_true, if_false]
  · exact b1
  · exact b1.append_of _ _ l1
  · exact b1.append_of _ _ l2
  · exact (b1.append_of _ _ l1).append_of _ _ l2

end Icontract.Meta
