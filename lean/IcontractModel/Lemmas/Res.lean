/- Inversion lemmas for the `Res` monad. -/
import IcontractModel.Basic
namespace Icontract
namespace Res

theorem bind_out_ok {x : Res α} {f : α → Res β} {b : β} :
    (x >>= f).out = .ok b ↔ ∃ a, x.out = .ok a ∧ (f a).out = .ok b := by
  simp only [bind_def, Res.bind]
  cases h : x.out with
  | error e => simp
  | ok a => simp

theorem bind_out_error {x : Res α} {f : α → Res β} {e : Raised} :
    (x >>= f).out = .error e ↔ x.out = .error e ∨ ∃ a, x.out = .ok a ∧ (f a).out = .error e := by
  simp only [bind_def, Res.bind]
  cases h : x.out with
  | error e' => simp
  | ok a => simp

theorem mem_bind_trace {x : Res α} {f : α → Res β} {ev : Event} :
    ev ∈ (x >>= f).trace ↔ ev ∈ x.trace ∨ ∃ a, x.out = .ok a ∧ ev ∈ (f a).trace := by
  simp only [bind_def, Res.bind]
  cases h : x.out with
  | error e => simp
  | ok a => simp

theorem bind_trace_of_ok {x : Res α} {f : α → Res β} {a : α} (h : x.out = .ok a) :
    (x >>= f).trace = x.trace ++ (f a).trace := (bind_ok h).1

theorem bind_out_of_ok {x : Res α} {f : α → Res β} {a : α} (h : x.out = .ok a) :
    (x >>= f).out = (f a).out := (bind_ok h).2

theorem bind_trace_of_err {x : Res α} {f : α → Res β} {e : Raised} (h : x.out = .error e) :
    (x >>= f).trace = x.trace := (bind_err h).1

theorem bind_out_of_err {x : Res α} {f : α → Res β} {e : Raised} (h : x.out = .error e) :
    (x >>= f).out = .error e := (bind_err h).2

@[simp] theorem pure_bind' (a : α) (f : α → Res β) : (Pure.pure a >>= f) = f a := by
  simp [bind_def, Res.bind, Pure.pure, Res.ret]

@[simp] theorem raise_bind (e : Raised) (f : α → Res β) : (Res.raise e >>= f) = Res.raise e := by
  simp [bind_def, Res.bind, Res.raise]

theorem emit_bind (ev : Event) (f : Unit → Res β) :
    (Res.emit ev >>= f) = ⟨ev :: (f ()).trace, (f ()).out⟩ := by
  simp [bind_def, Res.bind, Res.emit]

@[simp] theorem emit_bind_trace (ev : Event) (f : Unit → Res β) :
    (Res.emit ev >>= f).trace = ev :: (f ()).trace := by rw [emit_bind]

@[simp] theorem emit_bind_out (ev : Event) (f : Unit → Res β) :
    (Res.emit ev >>= f).out = (f ()).out := by rw [emit_bind]

end Res
end Icontract
