/-
  Lemmas for the general C04 theorem: class histories of arbitrary shape (multiple inheritance, diamonds,
  gaps) built by `buildHist` (Spec/DagHistory.lean) over the heap model of the metaclass (Meta.lean), against
  the declarative reference semantics `specPreAt` / `specListAt` (Spec/Override.lean).
-/
import IcontractModel.Lemmas.ChainLemmas
import IcontractModel.Spec.Override
import IcontractModel.Spec.DagHistory
namespace Icontract.Meta

/-! ### list helpers -/

theorem find?_congr' {α : Type} (l : List α) (p q : α → Bool) (h : ∀ a ∈ l, p a = q a) :
    l.find? p = l.find? q := by
  induction l with
  | nil => rfl
  | cons a l ih =>
    simp only [List.find?_cons, h a List.mem_cons_self]
    rw [ih (fun x hx => h x (List.mem_cons_of_mem _ hx))]

theorem filterMap_congr' {α β : Type} (l : List α) (f g : α → Option β) (h : ∀ a ∈ l, f a = g a) :
    l.filterMap f = l.filterMap g := by
  induction l with
  | nil => rfl
  | cons a l ih =>
    simp only [List.filterMap_cons, h a List.mem_cons_self]
    rw [ih (fun x hx => h x (List.mem_cons_of_mem _ hx))]

theorem findSome?_eq_find?_bind {α β : Type} (l : List α) (f : α → Option β) :
    l.findSome? f = (l.find? (fun a => (f a).isSome)).bind f := by
  induction l with
  | nil => rfl
  | cons a l ih =>
    simp only [List.findSome?_cons, List.find?_cons]
    cases h : f a with
    | none => simp only [Option.isSome_none]; exact ih
    | some b => simp only [Option.isSome_some, Option.bind_some, h]

theorem filterMap_id_flatten {α : Type} (l : List (Option (List α))) :
    (l.filterMap id).flatten = (l.map (fun o => o.getD [])).flatten := by
  induction l with
  | nil => rfl
  | cons a l ih =>
    cases a with
    | none => simp only [List.filterMap_cons, id, List.map_cons, Option.getD_none, List.flatten_cons,
        List.nil_append]; exact ih
    | some x => simp only [List.filterMap_cons, id, List.map_cons, Option.getD_some, List.flatten_cons, ih]

theorem eq_of_nodup_map {α β : Type} (f : α → β) : ∀ (l : List α), (l.map f).Nodup →
    ∀ a b, a ∈ l → b ∈ l → f a = f b → a = b := by
  intro l
  induction l with
  | nil => intro _ a b ha; cases ha
  | cons x l ih =>
    intro hnd a b ha hb hab
    simp only [List.map_cons, List.nodup_cons, List.mem_map, not_exists, not_and] at hnd
    rcases List.mem_cons.mp ha with rfl | ha' <;> rcases List.mem_cons.mp hb with rfl | hb'
    · rfl
    · exact absurd hab.symm (hnd.1 b hb')
    · exact absurd hab (hnd.1 a ha')
    · exact ih hnd.2 a b ha' hb' hab

/-! ### the MRO only mentions the class, its bases and what their MROs mention -/

theorem pickHead_mem (all : List (List ClsId)) : ∀ (seqs : List (List ClsId)) (x : ClsId),
    pickHead seqs all = some x → ∃ s ∈ seqs, x ∈ s := by
  intro seqs
  induction seqs with
  | nil => intro x h; simp [pickHead] at h
  | cons s rest ih =>
    intro x h
    cases s with
    | nil =>
      simp only [pickHead] at h
      obtain ⟨s', hs', hx⟩ := ih x h
      exact ⟨s', List.mem_cons_of_mem _ hs', hx⟩
    | cons y ys =>
      simp only [pickHead] at h
      split at h
      · obtain ⟨s', hs', hx⟩ := ih x h
        exact ⟨s', List.mem_cons_of_mem _ hs', hx⟩
      · cases h
        exact ⟨_, List.mem_cons_self, List.mem_cons_self⟩

theorem c3merge_mem : ∀ (fuel : Nat) (seqs : List (List ClsId)) (r : List ClsId),
    c3merge fuel seqs = some r → ∀ x ∈ r, ∃ s ∈ seqs, x ∈ s := by
  intro fuel
  induction fuel with
  | zero => intro seqs r h; simp [c3merge] at h
  | succ fuel ih =>
    intro seqs r h x hx
    simp only [c3merge] at h
    split at h
    · cases h; cases hx
    · split at h
      · cases h
      · next y hy =>
        split at h
        · next rest hrest =>
          cases h
          rcases List.mem_cons.mp hx with rfl | hx'
          · obtain ⟨s, hs, hxs⟩ := pickHead_mem _ _ _ hy
            exact ⟨s, (List.mem_filter.mp hs).1, hxs⟩
          · obtain ⟨s, hs, hxs⟩ := ih _ _ hrest x hx'
            obtain ⟨s0, hs0, rfl⟩ := List.mem_map.mp hs
            exact ⟨s0, (List.mem_filter.mp hs0).1, (List.mem_filter.mp hxs).1⟩
        · cases h

theorem computeMro_mem (w : World) (k : ClsId) (bases : List ClsId) (mro : List ClsId)
    (h : computeMro w k bases = some mro) :
    ∀ x ∈ mro, x = k ∨ x ∈ bases ∨ ∃ b ∈ bases, ∃ c, w.cls? b = some c ∧ x ∈ c.mro := by
  intro x hx
  simp only [computeMro] at h
  split at h
  · next rest hrest =>
    cases h
    rcases List.mem_cons.mp hx with rfl | hx'
    · exact Or.inl rfl
    · obtain ⟨s, hs, hxs⟩ := c3merge_mem _ _ _ hrest x hx'
      rcases List.mem_append.mp hs with hs | hs
      · obtain ⟨b, hb, rfl⟩ := List.mem_map.mp hs
        cases hc : w.cls? b with
        | none =>
          simp only [hc, List.mem_singleton] at hxs
          exact Or.inr (Or.inl (hxs ▸ hb))
        | some c =>
          simp only [hc] at hxs
          exact Or.inr (Or.inr ⟨b, hb, c, hc, hxs⟩)
      · simp only [List.mem_singleton] at hs
        exact Or.inr (Or.inl (hs ▸ hxs))
  · cases h

/-! ### the reference semantics, one level unfolded -/

/-- the class that provides `key` to base `b`, when what it provides is a function -/
def parentOf (w : World) (key : String) (which : Nat) (b : ClsId) : Option ClsId :=
  match provider w b key with
  | some p => if ((ownMember w p key).bind (fun m => memberFn m which)).isSome then some p else none
  | none => none

def parentsOf (w : World) (bases : List ClsId) (key : String) (which : Nat) : List ClsId :=
  bases.filterMap (parentOf w key which)

/-- how the effective preconditions of the providers combine with the own group -/
def preStep (own : List Nat) (ps : List PreSpec) : PreSpec :=
  if ps.isEmpty then (if own.isEmpty then none else some (if own.isEmpty then [] else [own]))
  else if ps.any (·.isNone) then none
  else some ((ps.filterMap id).flatten ++ (if own.isEmpty then [] else [own]))

def basesOf (w : World) (k : ClsId) : List ClsId := ((w.cls? k).map (·.bases)).getD []

theorem specPreAt_succ (w : World) (d : Decls) (fuel : Nat) (k : ClsId) (key : String) (which : Nat) :
    specPreAt w d (fuel + 1) k key which =
      match (ownMember w k key).bind (fun m => memberFn m which) with
      | none => none
      | some f =>
        if key == "__init__" || key == "__new__" then
          (if (d.ownPre f).isEmpty then none else some (if (d.ownPre f).isEmpty then [] else [d.ownPre f]))
        else preStep (d.ownPre f)
          ((parentsOf w (basesOf w k) key which).map (fun p => specPreAt w d fuel p key which)) := by
  rw [specPreAt]
  cases (ownMember w k key).bind (fun m => memberFn m which) with
  | none => rfl
  | some f =>
    simp only [preStep, List.isEmpty_map]
    rfl

theorem specListAt_succ (w : World) (own : FnId → List Nat) (fuel : Nat) (k : ClsId) (key : String)
    (which : Nat) :
    specListAt w own (fuel + 1) k key which =
      match (ownMember w k key).bind (fun m => memberFn m which) with
      | none => []
      | some f =>
        if key == "__init__" || key == "__new__" then own f
        else ((parentsOf w (basesOf w k) key which).map (fun p => specListAt w own fuel p key which)).flatten
          ++ own f := by
  rw [specListAt]
  rfl

/-- an effective precondition is never an empty disjunction -/
theorem preStep_ne_some_nil (own : List Nat) (ps : List PreSpec) (h : ∀ p ∈ ps, p ≠ some []) :
    preStep own ps ≠ some [] := by
  unfold preStep
  cases ps with
  | nil =>
    cases own with
    | nil => simp
    | cons a l => simp
  | cons p ps =>
    simp only [List.isEmpty_cons, Bool.false_eq_true, if_false]
    split
    · simp
    · next hany =>
      cases p with
      | none => simp at hany
      | some x =>
        cases x with
        | nil => exact absurd rfl (h _ List.mem_cons_self)
        | cons a l => simp

theorem specPreAt_ne_some_nil (w : World) (d : Decls) (key : String) (which : Nat) :
    ∀ (fuel : Nat) (k : ClsId), specPreAt w d fuel k key which ≠ some [] := by
  intro fuel
  induction fuel with
  | zero => intro k; simp [specPreAt]
  | succ fuel ih =>
    intro k
    rw [specPreAt_succ]
    split
    · simp
    · next f _ =>
      split
      · cases d.ownPre f <;> simp
      · apply preStep_ne_some_nil
        intro p hp
        obtain ⟨q, _, rfl⟩ := List.mem_map.mp hp
        exact ih q

/-! ### the reference semantics of a class only looks at the class and its ancestors -/

/-- bases have smaller ids, MROs mention ids up to the class's own -/
def ClsClosed (w : World) : Prop :=
  ∀ k c, w.cls? k = some c → (∀ b ∈ c.bases, b < k) ∧ (∀ a ∈ c.mro, a ≤ k)

theorem ownMember_agree {w w' : World} {k : ClsId} (h : w'.cls? k = w.cls? k) (key : String) :
    ownMember w' k key = ownMember w k key := by
  simp only [ownMember, h]

theorem provider_mem {w : World} {b p : ClsId} {key : String} (h : provider w b key = some p) :
    ∃ c, w.cls? b = some c ∧ p ∈ c.mro ∧ (ownMember w p key).isSome = true := by
  unfold provider at h
  cases hc : w.cls? b with
  | none => simp [hc] at h
  | some c =>
    simp only [hc, Option.bind_some] at h
    exact ⟨c, rfl, List.mem_of_find?_eq_some h, List.find?_some (p := fun a => (ownMember w a key).isSome) h⟩

theorem provider_le {w : World} (hcl : ClsClosed w) {b p : ClsId} {key : String}
    (h : provider w b key = some p) : p ≤ b := by
  obtain ⟨c, hc, hp, _⟩ := provider_mem h
  exact (hcl b c hc).2 p hp

theorem provider_agree {w w' : World} (n : Nat) (hag : ∀ i, i ≤ n → w'.cls? i = w.cls? i)
    (hcl : ClsClosed w) (b : ClsId) (hb : b ≤ n) (key : String) :
    provider w' b key = provider w b key := by
  simp only [provider, hag b hb]
  cases hc : w.cls? b with
  | none => rfl
  | some c =>
    simp only [Option.bind_some]
    apply find?_congr'
    intro a ha
    rw [ownMember_agree (hag a (Nat.le_trans ((hcl b c hc).2 a ha) hb))]

theorem parentOf_agree {w w' : World} (n : Nat) (hag : ∀ i, i ≤ n → w'.cls? i = w.cls? i)
    (hcl : ClsClosed w) (b : ClsId) (hb : b ≤ n) (key : String) (which : Nat) :
    parentOf w' key which b = parentOf w key which b := by
  simp only [parentOf, provider_agree n hag hcl b hb]
  cases hp : provider w b key with
  | none => rfl
  | some p =>
    simp only []
    rw [ownMember_agree (hag p (Nat.le_trans (provider_le hcl hp) hb))]

theorem parentOf_le {w : World} (hcl : ClsClosed w) {b p : ClsId} {key : String} {which : Nat}
    (h : parentOf w key which b = some p) : p ≤ b := by
  unfold parentOf at h
  cases hp : provider w b key with
  | none => simp [hp] at h
  | some q =>
    simp only [hp] at h
    split at h
    · cases h; exact provider_le hcl hp
    · cases h

theorem basesOf_lt {w : World} (hcl : ClsClosed w) (k : ClsId) : ∀ b ∈ basesOf w k, b < k := by
  intro b hb
  unfold basesOf at hb
  cases hc : w.cls? k with
  | none => simp [hc] at hb
  | some c =>
    simp only [hc, Option.map_some, Option.getD_some] at hb
    exact (hcl k c hc).1 b hb

theorem parentsOf_lt {w : World} (hcl : ClsClosed w) (k : ClsId) (key : String) (which : Nat) :
    ∀ p ∈ parentsOf w (basesOf w k) key which, p < k := by
  intro p hp
  obtain ⟨b, hb, hpb⟩ := List.mem_filterMap.mp hp
  exact Nat.lt_of_le_of_lt (parentOf_le hcl hpb) (basesOf_lt hcl k b hb)

theorem parentsOf_agree {w w' : World} (n : Nat) (hag : ∀ i, i ≤ n → w'.cls? i = w.cls? i)
    (hcl : ClsClosed w) (k : ClsId) (hk : k ≤ n) (key : String) (which : Nat) :
    parentsOf w' (basesOf w' k) key which = parentsOf w (basesOf w k) key which := by
  have hb : basesOf w' k = basesOf w k := by simp only [basesOf, hag k hk]
  rw [hb]
  apply filterMap_congr'
  intro b hb'
  exact parentOf_agree n hag hcl b (Nat.le_trans (Nat.le_of_lt (basesOf_lt hcl k b hb')) hk) key which

theorem specPreAt_agree {w w' : World} (n : Nat) (hag : ∀ i, i ≤ n → w'.cls? i = w.cls? i)
    (hcl : ClsClosed w) (d : Decls) (key : String) (which : Nat) :
    ∀ (fuel : Nat) (k : ClsId), k ≤ n → specPreAt w' d fuel k key which = specPreAt w d fuel k key which := by
  intro fuel
  induction fuel with
  | zero => intro k _; simp [specPreAt]
  | succ fuel ih =>
    intro k hk
    rw [specPreAt_succ, specPreAt_succ, ownMember_agree (hag k hk), parentsOf_agree n hag hcl k hk]
    have : (parentsOf w (basesOf w k) key which).map (fun p => specPreAt w' d fuel p key which) =
        (parentsOf w (basesOf w k) key which).map (fun p => specPreAt w d fuel p key which) :=
      List.map_congr_left (fun p hp =>
        ih p (Nat.le_trans (Nat.le_of_lt (parentsOf_lt hcl k key which p hp)) hk))
    rw [this]

theorem specListAt_agree {w w' : World} (n : Nat) (hag : ∀ i, i ≤ n → w'.cls? i = w.cls? i)
    (hcl : ClsClosed w) (own : FnId → List Nat) (key : String) (which : Nat) :
    ∀ (fuel : Nat) (k : ClsId), k ≤ n →
      specListAt w' own fuel k key which = specListAt w own fuel k key which := by
  intro fuel
  induction fuel with
  | zero => intro k _; simp [specListAt]
  | succ fuel ih =>
    intro k hk
    rw [specListAt_succ, specListAt_succ, ownMember_agree (hag k hk), parentsOf_agree n hag hcl k hk]
    have : (parentsOf w (basesOf w k) key which).map (fun p => specListAt w' own fuel p key which) =
        (parentsOf w (basesOf w k) key which).map (fun p => specListAt w own fuel p key which) :=
      List.map_congr_left (fun p hp =>
        ih p (Nat.le_trans (Nat.le_of_lt (parentsOf_lt hcl k key which p hp)) hk))
    rw [this]

/-! ### what a function's checker shows, and frames -/

/-- the references held by `f`'s checker (if any) point into the heap -/
def CkWf (w : World) (f : FnId) : Prop :=
  ∀ ck, w.checker? f = some ck → LT.lt (α := Nat) ck.pre w.heap.length ∧
    LT.lt (α := Nat) ck.snaps w.heap.length ∧ LT.lt (α := Nat) ck.posts w.heap.length ∧
    ∀ g ∈ w.heap.get ck.pre, g < w.heap.length

structure FnSt (w : World) (f : FnId) (pre : List (List Nat)) (posts : List Nat) : Prop where
  wf : CkWf w f
  pre : preOf w f = pre
  posts : postsOf w f = posts
  snaps : snapsOf w f = []

theorem FnSt.frame {S : FnId → Prop} {w w' : World} {f : FnId} {pre : List (List Nat)} {posts : List Nat}
    (a : FnSt w f pre posts) (fr : Frame S w w') (hf : ¬ S f) : FnSt w' f pre posts := by
  have hc := fr.checkers f hf
  cases hck : w.checker? f with
  | none =>
    rw [hck] at hc
    refine ⟨(fun ck h => by rw [hc] at h; cases h), ?_, ?_, ?_⟩
    · rw [← a.pre]; simp only [preOf, hc, hck]
    · rw [← a.posts]; simp only [postsOf, hc, hck]
    · simp only [snapsOf, hc]
  | some ck =>
    rw [hck] at hc
    obtain ⟨h1, h2, h3, h4⟩ := a.wf ck hck
    have hpre : w'.heap.get ck.pre = w.heap.get ck.pre := fr.heap.1 _ h1
    refine ⟨fun ck' h => ?_, ?_, ?_, ?_⟩
    · rw [hc] at h
      cases h
      refine ⟨Nat.lt_of_lt_of_le h1 fr.heap.2, Nat.lt_of_lt_of_le h2 fr.heap.2,
        Nat.lt_of_lt_of_le h3 fr.heap.2, fun g hg => ?_⟩
      rw [hpre] at hg
      exact Nat.lt_of_lt_of_le (h4 g hg) fr.heap.2
    · rw [← a.pre]
      simp only [preOf, hc, hck, hpre]
      exact List.map_congr_left (fun g hg => fr.heap.1 g (h4 g hg))
    · rw [← a.posts]
      simp only [postsOf, hc, hck, fr.heap.1 _ h3]
    · have := a.snaps
      simp only [snapsOf, hck] at this
      simp only [snapsOf, hc, fr.heap.1 _ h2, this]

/-! ### the decorators of a fresh function, whatever contracts it has -/

/-- the world after `@ensure`s only on a fresh function `f`: three new cells -/
def declP (w : World) (f : FnId) (posts : List Nat) : World :=
  { w with heap := w.heap ++ [[], [], posts],
           checkers := w.checkers ++ [(f, { pre := w.heap.length, snaps := w.heap.length + 1,
                                            posts := w.heap.length + 2 })] }

theorem declP_checker (w : World) (f : FnId) (posts : List Nat) (h : w.checker? f = none) :
    (declP w f posts).checker? f =
      some { pre := w.heap.length, snaps := w.heap.length + 1, posts := w.heap.length + 2 } := by
  have h' : w.checkers.find? (·.1 == f) = none := by simpa [World.checker?] using h
  simp only [World.checker?, declP]
  rw [find_append_self _ _ _ h']; rfl

theorem declP_checker_ne (w : World) (f f' : FnId) (posts : List Nat) (h : f' ≠ f) :
    (declP w f posts).checker? f' = w.checker? f' := by
  simp only [World.checker?, declP]
  rw [find_append_ne _ _ _ _ h]

theorem addPost_first (w : World) (f : FnId) (c : CId) (h : w.checker? f = none) :
    addPost w f c = declP w f [c] := by
  simp only [addPost, ensureChecker_none _ _ h, freshChecker]
  simp only [Heap.alloc, List.append_assoc, List.cons_append, List.nil_append, declP]
  have := Heap.append_app w.heap [[], [], []] 2 c
  simp only [this]
  simp

theorem addPost_nextP (w : World) (f : FnId) (posts : List Nat) (c : CId) (h : w.checker? f = none) :
    addPost (declP w f posts) f c = declP w f (posts ++ [c]) := by
  have hck := declP_checker w f posts h
  simp only [addPost, ensureChecker_some _ _ _ hck]
  have := Heap.append_app w.heap [[], [], posts] 2 c
  simp only [declP, this]
  simp

theorem foldl_addPostP (w : World) (f : FnId) (h : w.checker? f = none) (cs : List CId) :
    ∀ posts, cs.foldl (fun w c => addPost w f c) (declP w f posts) = declP w f (posts ++ cs) := by
  induction cs with
  | nil => intro posts; simp
  | cons c cs ih =>
    intro posts
    rw [List.foldl_cons, addPost_nextP _ _ _ _ h, ih]
    simp

theorem declP_get (w : World) (f : FnId) (posts : List Nat) :
    (declP w f posts).heap.get w.heap.length = [] ∧
    (declP w f posts).heap.get (w.heap.length + 1) = [] ∧
    (declP w f posts).heap.get (w.heap.length + 2) = posts := by
  have h0 := Heap.get_app w.heap [[], [], posts] 0
  have h1 := Heap.get_app w.heap [[], [], posts] 1
  have h2 := Heap.get_app w.heap [[], [], posts] 2
  refine ⟨?_, ?_, ?_⟩
  · simpa [declP] using h0
  · simpa [declP] using h1
  · simpa [declP] using h2

/-- the groups a function's own `@require`s form: one group, or none at all -/
def ownGroups (pre : List Nat) : List (List Nat) := if pre.isEmpty then [] else [pre]

theorem declareFn_spec (w : World) (l : ChainLevel) (h : w.checker? l.f = none) :
    Frame (· = l.f) w (declareFn w l) ∧ FnSt (declareFn w l) l.f (ownGroups l.pre) l.posts := by
  cases hp : l.pre with
  | cons c cs =>
    have hne : l.pre ≠ [] := by rw [hp]; exact List.cons_ne_nil _ _
    rw [declareFn_fresh w l h hne, ← hp]
    have hck := declW_checker w l.f l.pre l.posts h
    obtain ⟨g0, g1, g2, g3⟩ := declW_get w l.f l.pre l.posts
    have hlen := declW_length w l.f l.pre l.posts
    refine ⟨⟨declW_hpres _ _ _ _, rfl, rfl, fun f' hf' => declW_checker_ne _ _ _ _ _ hf'⟩, ?_, ?_, ?_, ?_⟩
    · intro ck hck'
      rw [hck] at hck'
      cases hck'
      simp only [g0, hlen, List.mem_singleton]
      refine ⟨?_, ?_, ?_, fun g hg => ?_⟩ <;> omega
    · simp only [preOf, hck, g0, List.map_cons, List.map_nil, g3, ownGroups]
      cases hq : l.pre with
      | nil => exact absurd hq hne
      | cons _ _ => rfl
    · simp only [postsOf, hck, g2]
    · simp only [snapsOf, hck, g1]
  | nil =>
    cases hq : l.posts with
    | nil =>
      have : declareFn w l = w := by simp only [declareFn, hp, hq, List.foldl_nil]
      rw [this]
      refine ⟨Frame.refl _ _, (fun ck hck => by rw [h] at hck; cases hck), ?_, ?_, ?_⟩
      · simp only [preOf, h, ownGroups, List.isEmpty_nil, if_true]
      · simp only [postsOf, h]
      · simp only [snapsOf, h]
    | cons c cs =>
      have : declareFn w l = declP w l.f l.posts := by
        simp only [declareFn, hp, hq, List.foldl_nil, List.foldl_cons]
        rw [addPost_first _ _ _ h, foldl_addPostP _ _ h]
        simp
      rw [this, ← hq]
      have hck := declP_checker w l.f l.posts h
      obtain ⟨g0, g1, g2⟩ := declP_get w l.f l.posts
      have hlen : (declP w l.f l.posts).heap.length = w.heap.length + 3 := by simp [declP]
      have hpres : HPres w.heap (declP w l.f l.posts).heap :=
        ⟨fun r hr => Heap.get_app_lt _ _ r hr, by rw [hlen]; omega⟩
      refine ⟨⟨hpres, rfl, rfl, fun f' hf' => declP_checker_ne _ _ _ _ hf'⟩, ?_, ?_, ?_, ?_⟩
      · intro ck hck'
        rw [hck] at hck'
        cases hck'
        simp only [g0, hlen, List.not_mem_nil]
        refine ⟨?_, ?_, ?_, fun g hg => hg.elim⟩ <;> omega
      · simp only [preOf, hck, g0, List.map_nil, ownGroups, List.isEmpty_nil, if_true]
      · simp only [postsOf, hck, g2]
      · simp only [snapsOf, hck, g1]

/-! ### one member of the namespace pass -/

theorem preOf_eq (w : World) (f : FnId) : preOf w f = (ownPre w f).map w.heap.get := by
  unfold preOf ownPre
  cases w.checker? f <;> rfl

theorem postsOf_eq (w : World) (f : FnId) : postsOf w f = ownPosts w f := rfl

theorem snapsOf_eq (w : World) (f : FnId) : snapsOf w f = ownSnaps w f := rfl

theorem CkWf.ownPre_lt {w : World} {f : FnId} (h : CkWf w f) : ∀ g ∈ ownPre w f, g < w.heap.length := by
  intro g hg
  unfold ownPre at hg
  cases hck : w.checker? f with
  | none => simp [hck] at hg
  | some ck =>
    simp only [hck] at hg
    exact (h ck hck).2.2.2 g hg

theorem decorateOne_not_weaken (w w' : World) (key : String) (f : FnId) (hv : Bool)
    (bPre bSnaps bPosts : List Nat)
    (h : decorateOne w key f true (hv, bPre, bSnaps, bPosts) = .ok w') :
    ¬ (bPre = [] ∧ hv = true ∧ ownPre w f ≠ []) := by
  rintro ⟨rfl, rfl, h3⟩
  unfold decorateOne at h
  cases hck : w.checker? f with
  | none => simp only [ownPre, hck] at h3; exact h3 rfl
  | some ck =>
    simp only [ownPre, hck] at h3
    have : (w.heap.get ck.pre).isEmpty = false := by
      cases hg : w.heap.get ck.pre with
      | nil => exact absurd hg h3
      | cons _ _ => rfl
    simp [hck, this] at h

theorem decorateOne_result (w w' : World) (key : String) (f : FnId) (hv : Bool) (bPre bPosts : List Nat)
    (h : decorateOne w key f true (hv, bPre, [], bPosts) = .ok w')
    (hb : ∀ g ∈ bPre, g < w.heap.length) (hwf : CkWf w f) :
    CkWf w' f ∧ preOf w' f = bPre.map w.heap.get ++ preOf w f ∧ postsOf w' f = bPosts ++ postsOf w f ∧
      snapsOf w' f = snapsOf w f := by
  rcases decorateOne_cases w w' key f true hv bPre [] bPosts h with ⟨rfl, h | ⟨h1, h2⟩⟩ | rfl
  · cases h
  · simp only [List.isEmpty_iff, List.append_eq_nil_iff] at h1 h2
    refine ⟨hwf, ?_, ?_, rfl⟩
    · rw [preOf_eq, h1.1, h1.2]; rfl
    · rw [postsOf_eq, h2.1, h2.2]; rfl
  · simp only [List.nil_append]
    have hck := installed_checker (copyCells w bPre).1 f ((copyCells w bPre).2 ++ ownPre w f)
      (ownSnaps w f) (bPosts ++ ownPosts w f)
    have hh := installed_heap (copyCells w bPre).1 f ((copyCells w bPre).2 ++ ownPre w f)
      (ownSnaps w f) (bPosts ++ ownPosts w f)
    have fr12 := installed_frame (copyCells w bPre).1 f ((copyCells w bPre).2 ++ ownPre w f)
      (ownSnaps w f) (bPosts ++ ownPosts w f)
    have hlen := installed_length (copyCells w bPre).1 f ((copyCells w bPre).2 ++ ownPre w f)
      (ownSnaps w f) (bPosts ++ ownPosts w f)
    have hp01 := copyCells_hpres w bPre
    have hL : (copyCells w bPre).1.heap.length ≤ (ensureChecker (copyCells w bPre).1 f).1.heap.length :=
      (ensureChecker_frame (copyCells w bPre).1 f).heap.2
    have hown := hwf.ownPre_lt
    have hpre : preOf (installed (copyCells w bPre).1 f ((copyCells w bPre).2 ++ ownPre w f)
        (ownSnaps w f) (bPosts ++ ownPosts w f)) f = bPre.map w.heap.get ++ preOf w f := by
      simp only [preOf, hck, hh.1, List.map_append]
      congr 1
      · rw [← copyCells_contents w bPre hb]
        exact List.map_congr_left (fun g hg => fr12.heap.1 g (copyCells_snd_mem w bPre g hg).2)
      · rw [← preOf, preOf_eq]
        exact List.map_congr_left (fun g hg => (hp01.trans fr12.heap).1 g (hown g hg))
    refine ⟨?_, hpre, ?_, ?_⟩
    · intro ck hck'
      rw [hck] at hck'
      cases hck'
      dsimp only
      rw [hlen]
      refine ⟨by omega, by omega, by omega, ?_⟩
      intro g hg
      rw [hh.1] at hg
      rcases List.mem_append.mp hg with hg | hg
      · have := (copyCells_snd_mem w bPre g hg).2
        omega
      · have := hown g hg
        have := hp01.2
        omega
    · simp only [postsOf, hck, hh.2.2]; rfl
    · simp only [snapsOf, hck, hh.2.1]; rfl

/-! ### what the direct bases contribute -/

theorem BaseAcc.add_checker (w : World) (acc : BaseAcc) (g : FnId) :
    acc.add w (w.checker? g) =
      { haveFunc := true, acceptAll := acc.acceptAll || (ownPre w g).isEmpty, pre := acc.pre ++ ownPre w g,
        snaps := acc.snaps ++ ownSnaps w g, posts := acc.posts ++ ownPosts w g } := by
  unfold BaseAcc.add ownPre ownSnaps ownPosts
  cases w.checker? g with
  | none => simp
  | some ck => rfl

theorem ownPre_isEmpty_iff {w : World} {g : FnId} {s : PreSpec} (hpre : preOf w g = s.getD [])
    (hs : s ≠ some []) : (ownPre w g).isEmpty = s.isNone := by
  rw [preOf_eq] at hpre
  cases s with
  | none =>
    simp only [Option.getD_none, List.map_eq_nil_iff] at hpre
    simp [hpre]
  | some x =>
    cases x with
    | nil => exact absurd rfl hs
    | cons a l =>
      simp only [Option.getD_some] at hpre
      cases ho : ownPre w g with
      | nil => rw [ho] at hpre; cases hpre
      | cons _ _ => rfl

/-- the collected lists, base by base: `par b` is the class that provides the member to base `b`, whose function
shows `sp p` / `sl p` -/
theorem collect_fold (w : World) (key : String) (sp : ClsId → PreSpec) (sl : ClsId → List Nat)
    (par : ClsId → Option ClsId) : ∀ (bases : List ClsId) (acc : BaseAcc),
    (∀ b ∈ bases, (par b = none ∧ lookupMember w b key = none) ∨
      ∃ p g, par b = some p ∧ lookupMember w b key = some (.func g) ∧
        FnSt w g ((sp p).getD []) (sl p) ∧ sp p ≠ some []) →
    ∃ X, (∀ r ∈ X, r < w.heap.length) ∧
      X.map w.heap.get = ((bases.filterMap par).map (fun p => (sp p).getD [])).flatten ∧
      bases.foldl (fun (acc : BaseAcc) b =>
        match lookupMember w b key with
        | none => acc
        | some m => acc.add w (m.asFunc.bind w.checker?)) acc =
      { haveFunc := acc.haveFunc || !(bases.filterMap par).isEmpty,
        acceptAll := acc.acceptAll || ((bases.filterMap par).map sp).any (·.isNone),
        pre := acc.pre ++ X, snaps := acc.snaps,
        posts := acc.posts ++ ((bases.filterMap par).map sl).flatten } := by
  intro bases
  induction bases with
  | nil =>
    intro acc _
    refine ⟨[], (fun r hr => by cases hr), rfl, ?_⟩
    cases acc
    simp
  | cons b bs ih =>
    intro acc H
    rcases H b List.mem_cons_self with ⟨hpar, hlm⟩ | ⟨p, g, hpar, hlm, st, hne⟩
    · obtain ⟨X, hX, hmap, hfold⟩ := ih acc (fun b' hb' => H b' (List.mem_cons_of_mem _ hb'))
      refine ⟨X, hX, ?_, ?_⟩
      · simp only [List.filterMap_cons, hpar]; exact hmap
      · simp only [List.foldl_cons, hlm, List.filterMap_cons, hpar]; exact hfold
    · obtain ⟨X, hX, hmap, hfold⟩ := ih (acc.add w (w.checker? g))
        (fun b' hb' => H b' (List.mem_cons_of_mem _ hb'))
      have hemp := ownPre_isEmpty_iff st.pre hne
      have hsn : ownSnaps w g = [] := st.snaps
      have hpo : ownPosts w g = sl p := st.posts
      refine ⟨ownPre w g ++ X, ?_, ?_, ?_⟩
      · intro r hr
        rcases List.mem_append.mp hr with hr | hr
        · exact st.wf.ownPre_lt r hr
        · exact hX r hr
      · simp only [List.filterMap_cons, hpar, List.map_cons, List.flatten_cons, List.map_append, hmap]
        rw [← preOf_eq, st.pre]
      · have hb : (Member.func g).asFunc.bind w.checker? = w.checker? g := rfl
        simp only [List.foldl_cons, hlm, hb, List.filterMap_cons, hpar]
        rw [hfold, BaseAcc.add_checker, hemp, hsn, hpo]
        simp only [List.map_cons, List.any_cons, List.flatten_cons, List.isEmpty_cons, Bool.not_false,
          Bool.or_true, Bool.true_or, List.append_assoc, List.append_nil, Bool.or_assoc]

theorem collect_result (w : World) (key : String) (sp : ClsId → PreSpec) (sl : ClsId → List Nat)
    (par : ClsId → Option ClsId) (bases : List ClsId)
    (H : ∀ b ∈ bases, (par b = none ∧ lookupMember w b key = none) ∨
      ∃ p g, par b = some p ∧ lookupMember w b key = some (.func g) ∧
        FnSt w g ((sp p).getD []) (sl p) ∧ sp p ≠ some []) :
    ∃ bPre, collectBases w bases key =
        (!(bases.filterMap par).isEmpty, bPre, [], ((bases.filterMap par).map sl).flatten) ∧
      (∀ r ∈ bPre, r < w.heap.length) ∧
      (if ((bases.filterMap par).map sp).any (·.isNone) then bPre = []
       else bPre.map w.heap.get = (((bases.filterMap par).map sp).filterMap id).flatten) := by
  obtain ⟨X, hX, hmap, hfold⟩ := collect_fold w key sp sl par bases {} H
  have h2 : collectBases w bases key = BaseAcc.result _ := congrArg BaseAcc.result hfold
  rw [h2]
  simp only [BaseAcc.result, Bool.false_or, List.nil_append]
  by_cases hany : ((bases.filterMap par).map sp).any (·.isNone) = true
  · refine ⟨[], ?_, (fun r hr => by cases hr), ?_⟩
    · simp only [hany, if_true]
    · simp only [hany, if_true]
  · refine ⟨X, ?_, hX, ?_⟩
    · simp only [hany, Bool.false_eq_true, if_false]
    · simp only [hany, Bool.false_eq_true, if_false]
      rw [hmap, filterMap_id_flatten, List.map_map]
      rfl

theorem preStep_model (pre : List Nat) (ps : List PreSpec) (G : List (List Nat))
    (hG : if ps.any (·.isNone) then (ownGroups pre = [] ∧ G = []) else G = (ps.filterMap id).flatten) :
    G ++ ownGroups pre = (preStep pre ps).getD [] := by
  unfold preStep
  cases ps with
  | nil =>
    simp only [List.any_nil, Bool.false_eq_true, if_false, List.filterMap_nil, List.flatten_nil] at hG
    subst hG
    simp only [List.isEmpty_nil, if_true, List.nil_append, ownGroups]
    cases pre <;> rfl
  | cons p ps =>
    simp only [List.isEmpty_cons, Bool.false_eq_true, if_false]
    split
    · next hany =>
      rw [if_pos hany] at hG
      rw [hG.1, hG.2]; rfl
    · next hany =>
      rw [if_neg hany] at hG
      rw [hG]; rfl

/-- one member of the class body: the function ends up showing the combination of what the providers of the
direct bases show with its own contracts -/
theorem member_step (w w' : World) (key : String) (f : FnId) (pre posts : List Nat)
    (sp : ClsId → PreSpec) (sl : ClsId → List Nat) (par : ClsId → Option ClsId) (bases : List ClsId)
    (H : ∀ b ∈ bases, (par b = none ∧ lookupMember w b key = none) ∨
      ∃ p g, par b = some p ∧ lookupMember w b key = some (.func g) ∧
        FnSt w g ((sp p).getD []) (sl p) ∧ sp p ≠ some [])
    (own : FnSt w f (ownGroups pre) posts)
    (hdec : decorateOne w key f true (collectBases w bases key) = .ok w') :
    FnSt w' f ((preStep pre ((bases.filterMap par).map sp)).getD [])
      (((bases.filterMap par).map sl).flatten ++ posts) := by
  obtain ⟨bPre, hcb, hlt, hpre⟩ := collect_result w key sp sl par bases H
  rw [hcb] at hdec
  obtain ⟨hwf, hp, hq, hs⟩ := decorateOne_result w w' key f _ bPre _ hdec hlt own.wf
  have hnw := decorateOne_not_weaken w w' key f _ bPre _ _ hdec
  refine ⟨hwf, ?_, ?_, ?_⟩
  · rw [hp, own.pre]
    apply preStep_model
    split
    · next hany =>
      rw [if_pos hany] at hpre
      refine ⟨?_, by rw [hpre]; rfl⟩
      have hne : (bases.filterMap par).isEmpty = false := by
        cases hb : bases.filterMap par with
        | nil => rw [hb] at hany; simp at hany
        | cons _ _ => rfl
      have hown : ownPre w f = [] := by
        cases ho : ownPre w f with
        | nil => rfl
        | cons a l =>
          exact absurd ⟨hpre, by rw [hne]; rfl, by rw [ho]; exact List.cons_ne_nil _ _⟩ hnw
      have := own.pre
      rw [preOf_eq, hown] at this
      exact this.symm
    · next hany =>
      rw [if_neg hany] at hpre
      exact hpre
  · rw [hq, own.posts]
  · rw [hs, own.snaps]

/-! ### the class table of a history -/

structure DClsOk (c : Cls) (i : Nat) (d : ClassDef) : Prop where
  bases : c.bases = d.bases
  ns : c.ns = d.members.map (fun p => (p.1, Member.func p.2.f))
  declared : c.declared = c.ns.map (·.1)
  mro : ∀ a ∈ c.mro, a ≤ i + 1
  inv : ∀ dd, c.invRef dd = none

/-- the class table after the definitions `done`: classes `1 .. done.length`, nothing else -/
structure DClassInv (w : World) (done : List ClassDef) : Prop where
  clsNone : ∀ i, (i = 0 ∨ done.length < i) → w.cls? i = none
  clsSome : ∀ i (hi : i < done.length), ∃ c, w.cls? (i + 1) = some c ∧ DClsOk c i (done[i])
  basesLe : ∀ i (hi : i < done.length), ∀ b ∈ (done[i]).bases, 1 ≤ b ∧ b ≤ i
  keys : ∀ i (hi : i < done.length), ((done[i]).members.map (·.1)).Nodup

theorem DClassInv.cls_cases {w : World} {done : List ClassDef} (a : DClassInv w done) (x : Nat) :
    w.cls? x = none ∨ ∃ i, ∃ hi : i < done.length, x = i + 1 ∧ ∃ c, w.cls? x = some c ∧ DClsOk c i (done[i]) := by
  by_cases hx : x = 0 ∨ done.length < x
  · exact Or.inl (a.clsNone x hx)
  · have hi : x - 1 < done.length := by omega
    obtain ⟨c, hc, ok⟩ := a.clsSome (x - 1) hi
    have e : x - 1 + 1 = x := by omega
    rw [e] at hc
    exact Or.inr ⟨x - 1, hi, e.symm, c, hc, ok⟩

theorem DClassInv.lookupInv_none {w : World} {done : List ClassDef} (a : DClassInv w done) (k : ClsId)
    (d : InvDunder) : lookupInv w k d = none := by
  unfold lookupInv
  split
  · rfl
  · apply List.findSome?_eq_none_iff.mpr
    intro x _
    rcases a.cls_cases x with h | ⟨i, hi, _, cx, h, ok⟩ <;> rw [h]
    exact ok.inv d

theorem DClassInv.closed {w : World} {done : List ClassDef} (a : DClassInv w done) : ClsClosed w := by
  intro k c hc
  rcases a.cls_cases k with h | ⟨i, hi, rfl, cx, h, ok⟩
  · rw [h] at hc; cases hc
  · rw [h] at hc
    cases hc
    refine ⟨fun b hb => ?_, ok.mro⟩
    rw [ok.bases] at hb
    exact Nat.lt_succ_of_le (a.basesLe i hi b hb).2

theorem DClassInv.of_classes {w w' : World} {done : List ClassDef} (a : DClassInv w done)
    (h : w'.classes = w.classes) : DClassInv w' done := by
  have e : ∀ i, w'.cls? i = w.cls? i := fun i => by simp only [World.cls?, h]
  exact ⟨fun i hi => by rw [e]; exact a.clsNone i hi, fun i hi => by rw [e]; exact a.clsSome i hi,
    a.basesLe, a.keys⟩

/-! ### members of the classes of a history -/

theorem find_key_of_nodup {β : Type} (key : String) (v : β) : ∀ (ns : List (String × β)),
    (ns.map (·.1)).Nodup → (key, v) ∈ ns → ns.find? (·.1 == key) = some (key, v) := by
  intro ns
  induction ns with
  | nil => intro _ h; cases h
  | cons q ns ih =>
    intro hnd hmem
    simp only [List.map_cons, List.nodup_cons] at hnd
    rcases List.mem_cons.mp hmem with rfl | hmem'
    · simp only [List.find?_cons, beq_self_eq_true]
    · have hne : (q.1 == key) = false := by
        apply beq_eq_false_iff_ne.mpr
        intro e
        exact hnd.1 (e ▸ List.mem_map.mpr ⟨(key, v), hmem', rfl⟩)
      simp only [List.find?_cons, hne]
      exact ih hnd.2 hmem'

theorem ownMember_eq {w : World} {k : ClsId} {c : Cls} (hc : w.cls? k = some c)
    (hd : c.declared = c.ns.map (·.1)) (key : String) :
    ownMember w k key = (c.ns.find? (·.1 == key)).map (·.2) := by
  simp only [ownMember, hc, Option.bind_some]
  split
  · rfl
  · next hcont =>
    cases hf : c.ns.find? (·.1 == key) with
    | none => rfl
    | some q =>
      exfalso
      apply hcont
      rw [hd]
      have h1 := List.find?_some hf
      have h2 := List.mem_of_find?_eq_some hf
      simp only [beq_iff_eq] at h1
      simp only [List.contains_iff_mem]
      exact List.mem_map.mpr ⟨q, h2, h1⟩

theorem DClassInv.ownMember_of_mem {w : World} {done : List ClassDef} (a : DClassInv w done)
    (i : Nat) (hi : i < done.length) (key : String) (l : ChainLevel) (hm : (key, l) ∈ (done[i]).members) :
    ownMember w (i + 1) key = some (.func l.f) := by
  obtain ⟨c, hc, ok⟩ := a.clsSome i hi
  rw [ownMember_eq hc ok.declared]
  have hnd : (c.ns.map (·.1)).Nodup := by
    rw [ok.ns, List.map_map]
    exact a.keys i hi
  have hmem : (key, Member.func l.f) ∈ c.ns := by
    rw [ok.ns]
    exact List.mem_map.mpr ⟨(key, l), hm, rfl⟩
  rw [find_key_of_nodup key (Member.func l.f) c.ns hnd hmem]
  rfl

theorem DClassInv.mem_of_ownMember {w : World} {done : List ClassDef} (a : DClassInv w done)
    (p : ClsId) (key : String) (m : Member) (h : ownMember w p key = some m) :
    ∃ i, ∃ hi : i < done.length, p = i + 1 ∧ ∃ l, (key, l) ∈ (done[i]).members ∧ m = .func l.f := by
  rcases a.cls_cases p with hn | ⟨i, hi, rfl, c, hc, ok⟩
  · simp [ownMember, hn] at h
  · refine ⟨i, hi, rfl, ?_⟩
    rw [ownMember_eq hc ok.declared] at h
    cases hf : c.ns.find? (·.1 == key) with
    | none => rw [hf] at h; cases h
    | some q =>
      rw [hf] at h
      simp only [Option.map_some, Option.some.injEq] at h
      have h1 := List.find?_some hf
      have h2 := List.mem_of_find?_eq_some hf
      simp only [beq_iff_eq] at h1
      rw [ok.ns] at h2
      obtain ⟨pl, hpl, rfl⟩ := List.mem_map.mp h2
      simp only at h1 h
      exact ⟨pl.2, by rw [← h1]; exact hpl, h.symm⟩

theorem DClassInv.lookupMember_eq {w : World} {done : List ClassDef} (a : DClassInv w done)
    (b : ClsId) (key : String) :
    lookupMember w b key = (provider w b key).bind (fun p => ownMember w p key) := by
  have hf : (fun x => match w.cls? x with
      | some ca => (ca.ns.find? (·.1 == key)).map (·.2)
      | none => none) = fun x => ownMember w x key := by
    funext x
    rcases a.cls_cases x with hn | ⟨i, hi, _, c, hc, ok⟩
    · simp [ownMember, hn]
    · rw [ownMember_eq hc ok.declared, hc]
  unfold lookupMember provider
  cases w.cls? b with
  | none => rfl
  | some c =>
    simp only [Option.bind_some]
    rw [← findSome?_eq_find?_bind]
    exact congrArg (fun f => c.mro.findSome? f) hf

/-- what a base contributes, in terms of the history -/
theorem DClassInv.base_facts {w : World} {done : List ClassDef} (a : DClassInv w done) (b : ClsId)
    (key : String) :
    (parentOf w key 0 b = none ∧ lookupMember w b key = none) ∨
    ∃ p g, parentOf w key 0 b = some p ∧ lookupMember w b key = some (.func g) ∧
      ∃ i, ∃ hi : i < done.length, p = i + 1 ∧ ∃ l, (key, l) ∈ (done[i]).members ∧ l.f = g := by
  rw [a.lookupMember_eq]
  unfold parentOf
  cases hp : provider w b key with
  | none => exact Or.inl ⟨rfl, rfl⟩
  | some p =>
    obtain ⟨c, _, _, hsome⟩ := provider_mem hp
    cases hm : ownMember w p key with
    | none => rw [hm] at hsome; cases hsome
    | some m =>
      obtain ⟨i, hi, rfl, l, hl, rfl⟩ := a.mem_of_ownMember p key m hm
      right
      refine ⟨i + 1, l.f, ?_, ?_, i, hi, rfl, l, hl, rfl⟩
      · simp only [hm, Option.bind_some, memberFn, Option.isSome_some, if_true]
      · simp only [Option.bind_some, hm]

/-! ### the functions of the classes defined so far show the reference semantics -/

/-- `ws` is the world whose class table the reference semantics reads, `w` the world that is observed -/
def DCkInv (D : Decls) (ws w : World) (done : List ClassDef) : Prop :=
  ∀ i (hi : i < done.length) (key : String) (l : ChainLevel), (key, l) ∈ (done[i]).members →
    ∀ fuel, i + 1 ≤ fuel →
      FnSt w l.f ((specPreAt ws D fuel (i + 1) key 0).getD []) (specListAt ws D.ownPosts fuel (i + 1) key 0)

theorem mem_allLevels {done : List ClassDef} {i : Nat} (hi : i < done.length) {key : String} {l : ChainLevel}
    (h : (key, l) ∈ (done[i]).members) : l.f ∈ (allLevels done).map (·.f) := by
  apply List.mem_map.mpr
  refine ⟨l, ?_, rfl⟩
  unfold allLevels
  exact List.mem_flatMap.mpr ⟨done[i], List.getElem_mem hi, List.mem_map.mpr ⟨(key, l), h, rfl⟩⟩

theorem DCkInv.frame {D : Decls} {ws w w' : World} {done : List ClassDef} {S : FnId → Prop}
    (a : DCkInv D ws w done) (fr : Frame S w w') (hS : ∀ f, S f → f ∉ (allLevels done).map (·.f)) :
    DCkInv D ws w' done := by
  intro i hi key l hl fuel hfuel
  exact (a i hi key l hl fuel hfuel).frame fr (fun hs => hS _ hs (mem_allLevels hi hl))

theorem parentOf_classes {w w' : World} (h : w'.classes = w.classes) (key : String) (which : Nat) :
    parentOf w' key which = parentOf w key which := by
  funext b
  have e : ∀ i, w'.cls? i = w.cls? i := fun i => by simp only [World.cls?, h]
  have ho : ∀ a, ownMember w' a key = ownMember w a key := fun a => ownMember_agree (e a) key
  simp only [parentOf, provider, e, ho]

theorem lookupMember_classes {w w' : World} (h : w'.classes = w.classes) (b : ClsId) (key : String) :
    lookupMember w' b key = lookupMember w b key := by
  simp only [lookupMember, World.cls?, h]

/-- the hypotheses of `member_step`, from the invariants -/
theorem bases_hyp {D : Decls} {ws w : World} {done : List ClassDef} (cinv : DClassInv ws done)
    (hcls : w.classes = ws.classes) (ck : DCkInv D ws w done) (key : String) (F : Nat)
    (hF : done.length ≤ F) (b : ClsId) :
    (parentOf ws key 0 b = none ∧ lookupMember w b key = none) ∨
    ∃ p g, parentOf ws key 0 b = some p ∧ lookupMember w b key = some (.func g) ∧
      FnSt w g ((specPreAt ws D F p key 0).getD []) (specListAt ws D.ownPosts F p key 0) ∧
      specPreAt ws D F p key 0 ≠ some [] := by
  rw [lookupMember_classes hcls]
  rcases cinv.base_facts b key with h | ⟨p, g, h1, h2, i, hi, rfl, l, hl, rfl⟩
  · exact Or.inl h
  · exact Or.inr ⟨i + 1, l.f, h1, h2, ck i hi key l hl F (by omega), specPreAt_ne_some_nil ws D key 0 F (i + 1)⟩

/-- every class of a history binds fresh functions: no base has a function that the history has not declared yet as
its member, so nothing is filtered out of the bases -/
theorem DClassInv.basesFor_eq {ws w : World} {done : List ClassDef} (cinv : DClassInv ws done)
    (hcls : w.classes = ws.classes) (bases : List ClsId) (key : String) (f : FnId)
    (hf : f ∉ (allLevels done).map (·.f)) : basesFor w bases key f = bases := by
  apply basesFor_eq_self
  intro b _
  rw [lookupMember_classes hcls]
  rcases cinv.base_facts b key with ⟨_, h⟩ | ⟨p, g, _, h2, i, hi, _, l, hl, rfl⟩
  · rw [h]; exact fun e => by cases e
  · rw [h2]
    intro e
    exact hf ((Option.some.inj e) ▸ mem_allLevels hi hl)

/-- what the function bound to `key` shows after the class body with bases `bases` has been collapsed -/
def newPre (D : Decls) (ws : World) (bases : List ClsId) (F : Nat) (p : String × ChainLevel) : List (List Nat) :=
  (preStep p.2.pre ((bases.filterMap (parentOf ws p.1 0)).map (fun q => specPreAt ws D F q p.1 0))).getD []

def newPosts (D : Decls) (ws : World) (bases : List ClsId) (F : Nat) (p : String × ChainLevel) : List Nat :=
  ((bases.filterMap (parentOf ws p.1 0)).map (fun q => specListAt ws D.ownPosts F q p.1 0)).flatten ++ p.2.posts

theorem nsPass_dag (D : Decls) (ws : World) (done : List ClassDef) (bases : List ClsId)
    (cinv : DClassInv ws done) : ∀ (ms : List (String × ChainLevel)) (w w' : World),
    w.classes = ws.classes → DCkInv D ws w done →
    (∀ p ∈ ms, FnSt w p.2.f (ownGroups p.2.pre) p.2.posts) →
    (ms.map (·.2.f)).Nodup →
    (∀ p ∈ ms, p.2.f ∉ (allLevels done).map (·.f)) →
    (∀ p ∈ ms, p.1 ≠ "__init__" ∧ p.1 ≠ "__new__") →
    (ms.map (fun p => (p.1, Member.func p.2.f))).foldlM
      (fun w (q : String × Member) => decorateMember w bases q.1 q.2) w = .ok w' →
    Frame (fun f => f ∈ ms.map (·.2.f)) w w' ∧
    ∀ p ∈ ms, ∀ F, done.length ≤ F → FnSt w' p.2.f (newPre D ws bases F p) (newPosts D ws bases F p) := by
  intro ms
  induction ms with
  | nil =>
    intro w w' _ _ _ _ _ _ h
    simp only [List.map_nil, List.foldlM_nil, pure, Except.pure] at h
    cases h
    exact ⟨Frame.refl _ _, fun p hp => by cases hp⟩
  | cons p ms ih =>
    intro w w' hcls ck hown hnd hfresh hctor h
    simp only [List.map_cons, List.foldlM_cons, Bind.bind, Except.bind] at h
    split at h
    · cases h
    · next w1 h1 =>
      have hk : (p.1 != "__init__" && p.1 != "__new__") = true := by
        simp [(hctor p List.mem_cons_self).1, (hctor p List.mem_cons_self).2]
      have hpf : p.2.f ∉ (allLevels done).map (·.f) := hfresh p List.mem_cons_self
      simp only [decorateMember, hk, cinv.basesFor_eq hcls bases p.1 p.2.f hpf] at h1
      simp only [List.map_cons, List.nodup_cons] at hnd
      have fr1 := decorateOne_frame _ _ _ _ _ _ h1
      have ck1 : DCkInv D ws w1 done := ck.frame fr1 (fun f hf => hf ▸ hpf)
      have hown1 : ∀ q ∈ ms, FnSt w1 q.2.f (ownGroups q.2.pre) q.2.posts := by
        intro q hq
        refine (hown q (List.mem_cons_of_mem _ hq)).frame fr1 (fun e => hnd.1 ?_)
        rw [← e]
        exact List.mem_map.mpr ⟨q, hq, rfl⟩
      obtain ⟨fr2, hrest⟩ := ih w1 w' (fr1.classes.trans hcls) ck1 hown1 hnd.2
        (fun q hq => hfresh q (List.mem_cons_of_mem _ hq)) (fun q hq => hctor q (List.mem_cons_of_mem _ hq)) h
      refine ⟨?_, ?_⟩
      · exact (fr1.mono (fun f hf => by rw [hf]; exact List.mem_cons_self)).trans
          (fr2.mono (fun f hf => List.mem_cons_of_mem _ hf))
      · intro q hq F hF
        rcases List.mem_cons.mp hq with rfl | hq'
        · have hstep := member_step w w1 q.1 q.2.f q.2.pre q.2.posts
            (fun x => specPreAt ws D F x q.1 0) (fun x => specListAt ws D.ownPosts F x q.1 0)
            (parentOf ws q.1 0) bases (fun b _ => bases_hyp cinv hcls ck q.1 F hF b)
            (hown q List.mem_cons_self) h1
          exact hstep.frame fr2 hnd.1
        · exact hrest q hq' F hF

/-! ### the decorators of all functions of a class body -/

theorem declareAll_cons (w : World) (p : String × ChainLevel) (ms : List (String × ChainLevel)) :
    declareAll w (p :: ms) = declareAll (declareFn w p.2) ms := rfl

theorem declareAll_spec : ∀ (ms : List (String × ChainLevel)) (w : World),
    (ms.map (·.2.f)).Nodup → (∀ p ∈ ms, w.checker? p.2.f = none) →
    Frame (fun f => f ∈ ms.map (·.2.f)) w (declareAll w ms) ∧
    ∀ p ∈ ms, FnSt (declareAll w ms) p.2.f (ownGroups p.2.pre) p.2.posts := by
  intro ms
  induction ms with
  | nil => intro w _ _; exact ⟨Frame.refl _ _, fun p hp => by cases hp⟩
  | cons p ms ih =>
    intro w hnd hnone
    simp only [List.map_cons, List.nodup_cons] at hnd
    obtain ⟨fr1, st1⟩ := declareFn_spec w p.2 (hnone p List.mem_cons_self)
    have hnone1 : ∀ q ∈ ms, (declareFn w p.2).checker? q.2.f = none := by
      intro q hq
      rw [fr1.checkers q.2.f (fun e => hnd.1 (by rw [← e]; exact List.mem_map.mpr ⟨q, hq, rfl⟩))]
      exact hnone q (List.mem_cons_of_mem _ hq)
    obtain ⟨fr2, st2⟩ := ih (declareFn w p.2) hnd.2 hnone1
    rw [declareAll_cons]
    refine ⟨?_, ?_⟩
    · exact (fr1.mono (fun f hf => by rw [hf]; exact List.mem_cons_self)).trans
        (fr2.mono (fun f hf => List.mem_cons_of_mem _ hf))
    · intro q hq
      rcases List.mem_cons.mp hq with rfl | hq'
      · exact st1.frame fr2 hnd.1
      · exact st2 q hq'

/-! ### the class statement when there are no invariants anywhere -/

def newC (k : ClsId) (bases : List ClsId) (ns : List (String × Member)) (mro : List ClsId) : Cls :=
  { id := k, bases := bases, ns := ns, inv := none, invCall := none, invSetattr := none,
    dbc := true, mro := mro, declared := ns.map (·.1) }

theorem defineClass_noinv (w w' : World) (k : ClsId) (bases : List ClsId) (ns : List (String × Member))
    (hinv : ∀ b d, lookupInv w b d = none) (h : defineClass w k bases ns true = .ok w') :
    ∃ w2 mro, ns.foldlM (fun w (p : String × Member) => decorateMember w bases p.1 p.2) w = .ok w2 ∧
      computeMro w2 k bases = some mro ∧
      w' = (if (lookupInv (withCls w2 (newC k bases ns mro)) k .all).isSome
            then addInvariantChecks (withCls w2 (newC k bases ns mro)) k
            else withCls w2 (newC k bases ns mro)) := by
  unfold defineClass at h
  simp only [Bool.not_true, Bool.false_eq_true, if_false, collapseInv_none _ _ _ (fun b => hinv b _),
    Bind.bind, Except.bind, if_true] at h
  split at h
  · cases h
  · next w2 h2 =>
    split at h
    · cases h
    · next mro hm =>
      exact ⟨w2, mro, h2, hm, (Except.ok.inj h).symm⟩

/-! ### the class table grows by one class -/

theorem getElem_snoc_lt (done : List ClassDef) (d : ClassDef) (i : Nat) (hi : i < done.length)
    (hi' : i < (done ++ [d]).length) : (done ++ [d])[i] = done[i] :=
  List.getElem_append_left hi

theorem getElem_snoc_last (done : List ClassDef) (d : ClassDef) (hi' : done.length < (done ++ [d]).length) :
    (done ++ [d])[done.length] = d := by
  simp

theorem DClassInv.snoc {w : World} {done : List ClassDef} (a : DClassInv w done) (d : ClassDef) (c : Cls)
    (hid : c.id = done.length + 1) (ok : DClsOk c done.length d)
    (hb : ∀ b ∈ d.bases, 1 ≤ b ∧ b ≤ done.length) (hkeys : (d.members.map (·.1)).Nodup) :
    DClassInv (withCls w c) (done ++ [d]) := by
  have hlen : (done ++ [d]).length = done.length + 1 := by simp
  refine ⟨?_, ?_, ?_, ?_⟩
  · intro i hi
    rw [hlen] at hi
    rw [withCls_cls?, a.clsNone i (by omega)]
    have : ¬ (c.id = i) := fun e => by
      have e' : done.length + 1 = i := hid.symm.trans e
      omega
    simp [this]
  · intro i hi
    rw [withCls_cls?]
    by_cases hlt : i < done.length
    · obtain ⟨c0, hc0, ok0⟩ := a.clsSome i hlt
      refine ⟨c0, by rw [hc0]; rfl, ?_⟩
      rw [getElem_snoc_lt done d i hlt hi]
      exact ok0
    · have hi' : i = done.length := by omega
      subst hi'
      rw [a.clsNone (done.length + 1) (by omega)]
      refine ⟨c, by simp [hid], ?_⟩
      rw [getElem_snoc_last]
      exact ok
  · intro i hi
    by_cases hlt : i < done.length
    · rw [getElem_snoc_lt done d i hlt hi]
      exact a.basesLe i hlt
    · have hi' : i = done.length := by omega
      subst hi'
      rw [getElem_snoc_last]
      exact hb
  · intro i hi
    by_cases hlt : i < done.length
    · rw [getElem_snoc_lt done d i hlt hi]
      exact a.keys i hlt
    · have hi' : i = done.length := by omega
      subst hi'
      rw [getElem_snoc_last]
      exact hkeys

theorem DClassInv.mro_le {w : World} {done : List ClassDef} (a : DClassInv w done) (bases : List ClsId)
    (hb : ∀ b ∈ bases, 1 ≤ b ∧ b ≤ done.length) (mro : List ClsId)
    (h : computeMro w (done.length + 1) bases = some mro) : ∀ x ∈ mro, x ≤ done.length + 1 := by
  intro x hx
  rcases computeMro_mem w _ bases mro h x hx with rfl | hxb | ⟨b, hbm, c, hc, hxc⟩
  · exact Nat.le_refl _
  · exact Nat.le_succ_of_le (hb x hxb).2
  · exact Nat.le_succ_of_le (Nat.le_trans ((a.closed b c hc).2 x hxc) (hb b hbm).2)

/-! ### the reference semantics of the new class, in terms of the old world -/

theorem parents_new {w w3 : World} {n : Nat} (hag : ∀ i, i ≤ n → w3.cls? i = w.cls? i) (hcl : ClsClosed w)
    (c : Cls) (hc : w3.cls? (n + 1) = some c) (hb : ∀ b ∈ c.bases, b ≤ n) (key : String) :
    parentsOf w3 (basesOf w3 (n + 1)) key 0 = c.bases.filterMap (parentOf w key 0) := by
  have : basesOf w3 (n + 1) = c.bases := by simp only [basesOf, hc, Option.map_some, Option.getD_some]
  rw [this]
  exact filterMap_congr' _ _ _ (fun b hbm => parentOf_agree n hag hcl b (hb b hbm) key 0)

theorem parents_new_le {w : World} {n : Nat} (hcl : ClsClosed w) (bases : List ClsId)
    (hb : ∀ b ∈ bases, b ≤ n) (key : String) : ∀ q ∈ bases.filterMap (parentOf w key 0), q ≤ n := by
  intro q hq
  obtain ⟨b, hbm, hqb⟩ := List.mem_filterMap.mp hq
  exact Nat.le_trans (parentOf_le hcl hqb) (hb b hbm)

theorem spec_new_pre {D : Decls} {w w3 : World} {n : Nat} (hag : ∀ i, i ≤ n → w3.cls? i = w.cls? i)
    (hcl : ClsClosed w) (c : Cls) (hc : w3.cls? (n + 1) = some c) (hb : ∀ b ∈ c.bases, b ≤ n)
    (key : String) (l : ChainLevel) (hown : ownMember w3 (n + 1) key = some (.func l.f))
    (hctor : key ≠ "__init__" ∧ key ≠ "__new__") (hpre : D.ownPre l.f = l.pre) (F : Nat) :
    specPreAt w3 D (F + 1) (n + 1) key 0 =
      preStep l.pre ((c.bases.filterMap (parentOf w key 0)).map (fun q => specPreAt w D F q key 0)) := by
  have hk : (key == "__init__" || key == "__new__") = false := by simp [hctor.1, hctor.2]
  have hm : (ownMember w3 (n + 1) key).bind (fun m => memberFn m 0) = some l.f := by rw [hown]; rfl
  rw [specPreAt_succ, parents_new hag hcl c hc hb key]
  simp only [hm, hk, Bool.false_eq_true, if_false, hpre]
  congr 1
  exact List.map_congr_left (fun q hq =>
    specPreAt_agree n hag hcl D key 0 F q (parents_new_le hcl c.bases hb key q hq))

theorem spec_new_posts {D : Decls} {w w3 : World} {n : Nat} (hag : ∀ i, i ≤ n → w3.cls? i = w.cls? i)
    (hcl : ClsClosed w) (c : Cls) (hc : w3.cls? (n + 1) = some c) (hb : ∀ b ∈ c.bases, b ≤ n)
    (key : String) (l : ChainLevel) (hown : ownMember w3 (n + 1) key = some (.func l.f))
    (hctor : key ≠ "__init__" ∧ key ≠ "__new__") (hposts : D.ownPosts l.f = l.posts) (F : Nat) :
    specListAt w3 D.ownPosts (F + 1) (n + 1) key 0 =
      ((c.bases.filterMap (parentOf w key 0)).map (fun q => specListAt w D.ownPosts F q key 0)).flatten
        ++ l.posts := by
  have hk : (key == "__init__" || key == "__new__") = false := by simp [hctor.1, hctor.2]
  have hm : (ownMember w3 (n + 1) key).bind (fun m => memberFn m 0) = some l.f := by rw [hown]; rfl
  rw [specListAt_succ, parents_new hag hcl c hc hb key]
  simp only [hm, hk, Bool.false_eq_true, if_false, hposts]
  congr 2
  exact List.map_congr_left (fun q hq =>
    specListAt_agree n hag hcl D.ownPosts key 0 F q (parents_new_le hcl c.bases hb key q hq))

/-! ### the invariant of a history, and one class statement -/

structure DagInv (D : Decls) (done : List ClassDef) (w : World) : Prop where
  cls : DClassInv w done
  ckNone : ∀ f, f ∉ (allLevels done).map (·.f) → w.checker? f = none
  ck : DCkInv D w w done

theorem DagInv.empty (D : Decls) : DagInv D [] {} := by
  refine ⟨⟨fun i _ => rfl, fun i hi => ?_, fun i hi => ?_, fun i hi => ?_⟩, fun f _ => rfl, fun i hi => ?_⟩ <;>
    exact absurd hi (Nat.not_lt_zero _)

theorem FnSt.of_eq {w w' : World} {f : FnId} {pre : List (List Nat)} {posts : List Nat}
    (a : FnSt w f pre posts) (hh : w'.heap = w.heap) (hc : w'.checkers = w.checkers) : FnSt w' f pre posts := by
  have e : w'.checker? f = w.checker? f := by simp only [World.checker?, hc]
  refine ⟨?_, ?_, ?_, ?_⟩
  · intro ck hck
    rw [e] at hck
    rw [hh]
    exact a.wf ck hck
  · rw [← a.pre]; simp only [preOf, e, hh]
  · rw [← a.posts]; simp only [postsOf, e, hh]
  · rw [← a.snaps]; simp only [snapsOf, e, hh]

theorem allLevels_snoc (done : List ClassDef) (d : ClassDef) :
    allLevels (done ++ [d]) = allLevels done ++ d.members.map (·.2) := by
  simp [allLevels, List.flatMap_append]

theorem dag_step (D : Decls) (done : List ClassDef) (d : ClassDef) (w w' : World)
    (inv : DagInv D done w)
    (hfresh : ∀ p ∈ d.members, p.2.f ∉ (allLevels done).map (·.f))
    (hnd : (d.members.map (·.2.f)).Nodup)
    (hkeys : (d.members.map (·.1)).Nodup)
    (hctor : ∀ p ∈ d.members, p.1 ≠ "__init__" ∧ p.1 ≠ "__new__")
    (hb : ∀ b ∈ d.bases, 1 ≤ b ∧ b ≤ done.length)
    (hD : ∀ p ∈ d.members, D.ownPre p.2.f = p.2.pre ∧ D.ownPosts p.2.f = p.2.posts)
    (h : defineClass (declareAll w d.members) (done.length + 1) d.bases
          (d.members.map (fun p => (p.1, Member.func p.2.f))) true = .ok w') :
    DagInv D (done ++ [d]) w' := by
  -- the decorators of the body's functions
  obtain ⟨fr01, hown⟩ := declareAll_spec d.members w hnd (fun p hp => inv.ckNone _ (hfresh p hp))
  have hS : ∀ f, f ∈ d.members.map (·.2.f) → f ∉ (allLevels done).map (·.f) := by
    intro f hf
    obtain ⟨p, hp, rfl⟩ := List.mem_map.mp hf
    exact hfresh p hp
  have cinv1 : DClassInv (declareAll w d.members) done := inv.cls.of_classes fr01.classes
  have ck1 : DCkInv D w (declareAll w d.members) done := inv.ck.frame fr01 hS
  -- the class statement
  obtain ⟨w2, mro, hpass, hmro, hw'⟩ := defineClass_noinv _ _ _ _ _ (fun b dd => cinv1.lookupInv_none b dd) h
  obtain ⟨fr12, hnew⟩ := nsPass_dag D w done d.bases inv.cls d.members _ w2 fr01.classes ck1 hown hnd hfresh
    hctor hpass
  have cinv2 : DClassInv w2 done := inv.cls.of_classes (fr12.classes.trans fr01.classes)
  have ck2 : DCkInv D w w2 done := ck1.frame fr12 hS
  have okc : DClsOk (newC (done.length + 1) d.bases (d.members.map (fun p => (p.1, Member.func p.2.f))) mro)
      done.length d :=
    ⟨rfl, rfl, rfl, cinv2.mro_le d.bases hb mro hmro, fun dd => by cases dd <;> rfl⟩
  have cinv3 := cinv2.snoc d _ rfl okc hb hkeys
  rw [cinv3.lookupInv_none] at hw'
  simp only [Option.isSome_none, Bool.false_eq_true, if_false] at hw'
  subst hw'
  -- old classes are read as before
  have hag : ∀ i, i ≤ done.length →
      (withCls w2 (newC (done.length + 1) d.bases (d.members.map (fun p => (p.1, Member.func p.2.f))) mro)).cls? i
        = w.cls? i := by
    intro i hi
    rw [withCls_cls?]
    have e : w2.cls? i = w.cls? i := by simp only [World.cls?, fr12.classes.trans fr01.classes]
    have hne : ¬ (done.length + 1 = i) := by omega
    simp only [newC, hne, if_false, e, Option.or_none]
  have hcl := inv.cls.closed
  have hlen : (done ++ [d]).length = done.length + 1 := by simp
  refine ⟨cinv3, ?_, ?_⟩
  · intro f hf
    rw [allLevels_snoc, List.map_append, List.mem_append, not_or, List.map_map] at hf
    show w2.checker? f = none
    rw [fr12.checkers f hf.2, fr01.checkers f hf.2]
    exact inv.ckNone f hf.1
  · intro i hi key l hl fuel hfuel
    by_cases hlt : i < done.length
    · have hl' : (key, l) ∈ (done[i]).members := by rw [← getElem_snoc_lt done d i hlt hi]; exact hl
      rw [specPreAt_agree done.length hag hcl D key 0 fuel (i + 1) (Nat.succ_le_of_lt hlt),
        specListAt_agree done.length hag hcl D.ownPosts key 0 fuel (i + 1) (Nat.succ_le_of_lt hlt)]
      exact (ck2 i hlt key l hl' fuel hfuel).of_eq rfl rfl
    · have hi' : i = done.length := by omega
      subst hi'
      have hown3 := cinv3.ownMember_of_mem done.length hi key l hl
      have hl' : (key, l) ∈ d.members := by rw [← getElem_snoc_last done d hi]; exact hl
      obtain ⟨F, rfl⟩ : ∃ F, fuel = F + 1 := ⟨fuel - 1, by omega⟩
      have hc3 : (withCls w2 (newC (done.length + 1) d.bases
          (d.members.map (fun p => (p.1, Member.func p.2.f))) mro)).cls? (done.length + 1) =
          some (newC (done.length + 1) d.bases (d.members.map (fun p => (p.1, Member.func p.2.f))) mro) := by
        rw [withCls_cls?, cinv2.clsNone (done.length + 1) (by omega)]
        simp [newC]
      have hble : ∀ b ∈ d.bases, b ≤ done.length := fun b hbm => (hb b hbm).2
      rw [spec_new_pre hag hcl _ hc3 hble key l hown3 (hctor _ hl') (hD _ hl').1 F,
        spec_new_posts hag hcl _ hc3 hble key l hown3 (hctor _ hl') (hD _ hl').2 F]
      exact (hnew (key, l) hl' F (by omega)).of_eq rfl rfl

/-! ### the whole history -/

theorem allLevels_append (a b : List ClassDef) : allLevels (a ++ b) = allLevels a ++ allLevels b := by
  simp [allLevels, List.flatMap_append]

theorem allLevels_cons (d : ClassDef) (rest : List ClassDef) :
    allLevels (d :: rest) = d.members.map (·.2) ++ allLevels rest := by
  simp [allLevels, List.flatMap_cons]

theorem getElem_mid (done : List ClassDef) (d : ClassDef) (rest : List ClassDef)
    (hi : done.length < (done ++ d :: rest).length) : (done ++ d :: rest)[done.length] = d := by
  simp

theorem buildHist_inv (D : Decls) : ∀ (rest done : List ClassDef) (w w' : World),
    DagInv D done w → HistWf (done ++ rest) →
    (∀ l ∈ allLevels (done ++ rest), D.ownPre l.f = l.pre ∧ D.ownPosts l.f = l.posts) →
    buildHist w (done.length + 1) rest = .ok w' → DagInv D (done ++ rest) w' := by
  intro rest
  induction rest with
  | nil =>
    intro done w w' inv _ _ h
    simp only [buildHist] at h
    cases h
    rw [List.append_nil]
    exact inv
  | cons d rest ih =>
    intro done w w' inv hwf hD h
    have e : (done ++ [d]) ++ rest = done ++ d :: rest := by simp
    have hi : done.length < (done ++ d :: rest).length := by simp
    obtain ⟨hk, hc, _, hb⟩ := hwf.2 done.length hi
    rw [getElem_mid] at hk hc hb
    have hnd := hwf.1
    rw [allLevels_append, allLevels_cons, List.map_append, List.map_append, List.nodup_append] at hnd
    obtain ⟨_, hnd2, hdisj⟩ := hnd
    rw [List.nodup_append] at hnd2
    rw [List.map_map] at hnd2
    simp only [buildHist] at h
    split at h
    · cases h
    · next w1 h1 =>
      have hfresh : ∀ p ∈ d.members, p.2.f ∉ (allLevels done).map (·.f) := by
        intro p hp hmem
        refine hdisj _ hmem p.2.f ?_ rfl
        exact List.mem_append_left _ (List.mem_map.mpr ⟨p.2, List.mem_map.mpr ⟨p, hp, rfl⟩, rfl⟩)
      have hD1 : ∀ p ∈ d.members, D.ownPre p.2.f = p.2.pre ∧ D.ownPosts p.2.f = p.2.posts := by
        intro p hp
        apply hD
        rw [allLevels_append, allLevels_cons]
        exact List.mem_append_right _ (List.mem_append_left _ (List.mem_map.mpr ⟨p, hp, rfl⟩))
      have inv1 := dag_step D done d w w1 inv hfresh hnd2.1 hk hc hb hD1 h1
      have hlen : (done ++ [d]).length = done.length + 1 := by simp
      have := ih (done ++ [d]) w1 w' inv1 (e ▸ hwf) (e ▸ hD) (by rw [hlen]; exact h)
      rw [e] at this
      exact this

theorem find_of_nodup_fn (l : ChainLevel) : ∀ (ls : List ChainLevel), (ls.map (·.f)).Nodup → l ∈ ls →
    ls.find? (fun x => x.f == l.f) = some l := by
  intro ls
  induction ls with
  | nil => intro _ h; cases h
  | cons q ls ih =>
    intro hnd hmem
    simp only [List.map_cons, List.nodup_cons] at hnd
    rcases List.mem_cons.mp hmem with rfl | hmem'
    · simp only [List.find?_cons, beq_self_eq_true]
    · have hne : (q.f == l.f) = false := by
        apply beq_eq_false_iff_ne.mpr
        intro e
        exact hnd.1 (e ▸ List.mem_map.mpr ⟨l, hmem', rfl⟩)
      simp only [List.find?_cons, hne]
      exact ih hnd.2 hmem'

theorem declsOf_own (ds : List ClassDef) (hnd : ((allLevels ds).map (·.f)).Nodup) :
    ∀ l ∈ allLevels ds, (declsOf ds).ownPre l.f = l.pre ∧ (declsOf ds).ownPosts l.f = l.posts := by
  intro l hl
  simp only [declsOf, find_of_nodup_fn l (allLevels ds) hnd hl, and_self]

/-- the general statement behind `C04_dag_effective_contracts` -/
theorem buildHist_observe (ds : List ClassDef) (hwf : HistWf ds) (w : World)
    (h : buildHist {} 1 ds = .ok w) :
    ∀ i (hi : i < ds.length) (key : String) (l : ChainLevel), (key, l) ∈ (ds[i]).members →
      preOf w l.f = ((specPreAt w (declsOf ds) (ds.length + 1) (i + 1) key 0).getD []) ∧
      postsOf w l.f = specListAt w (declsOf ds).ownPosts (ds.length + 1) (i + 1) key 0 := by
  have inv := buildHist_inv (declsOf ds) ds [] {} w (DagInv.empty _) hwf (declsOf_own ds hwf.1) h
  intro i hi key l hl
  have st := inv.ck i hi key l hl (ds.length + 1) (by omega)
  exact ⟨st.pre, st.posts⟩

end Icontract.Meta
