/-
  C10 helper lemmas: the reference semantics restores its frame stack.
-/
import IcontractModel.Lemmas.ReentryMem
namespace Icontract.Re

/-! ### the frame stack is restored by every evaluation of the reference semantics -/

@[simp] theorem SSt.emit_stack (st : SSt) (e : Ev) : (st.emit e).stack = st.stack := rfl
@[simp] theorem SSt.emit_tr (st : SSt) (e : Ev) : (st.emit e).tr = st.tr ++ [e] := rfl
@[simp] theorem SSt.push_stack (st : SSt) (k ph) : (st.push k ph).stack = ⟨k, ph⟩ :: st.stack := rfl
@[simp] theorem SSt.push_tr (st : SSt) (k ph) : (st.push k ph).tr = st.tr := rfl

theorem andThen_stack {r : SSt × Out} {k : SSt → SSt × Out} {b : List Frame}
    (h1 : r.1.stack = b) (h2 : ∀ st', st'.stack = b → (k st').1.stack = b) :
    (andThen r k).1.stack = b := by
  by_cases h : r.2 = .ok
  · rw [andThen_ok k h]; exact h2 _ h1
  · rw [andThen_ne k h]; exact h1

theorem framed_stack {k ph} {st : SSt} {f : SSt → SSt × Out}
    (h : ∀ st', (f st').1.stack = st'.stack) : (framed k ph st f).1.stack = st.stack := by
  show ((f (st.push k ph)).1.stack).drop 1 = st.stack
  rw [h]; rfl

theorem runSpec_stack (p : Program) : ∀ (n : Nat) (st : SSt) (cmd : Cmd),
    (runSpec p n st cmd).1.stack = st.stack := by
  intro n
  induction n with
  | zero => intro st cmd; rw [runSpec_zero]
  | succ n ih =>
    intro st cmd
    have hcond : ∀ (st0 : SSt) (e : Ev) (c : Script) (t : Bool) (K : SSt → SSt × Out) (o : Out),
        (∀ st', (K st').1.stack = st'.stack) →
        (andThen (runSpec p n (st0.emit e) (.script c))
          (fun st' => if t then K st' else (st', o))).1.stack = st0.stack := by
      intro st0 e c t K o hK
      apply andThen_stack
      · exact ih _ _
      · intro st' h'
        split
        · exact (hK st').trans h'
        · exact h'
    have hfr : ∀ (k : Key) (ph : Phase) (st0 : SSt) (cmd : Cmd),
        (framed k ph st0 (fun st => runSpec p n st cmd)).1.stack = st0.stack :=
      fun k ph st0 cmd => framed_stack (fun _ => ih _ _)
    have hfre : ∀ (k : Key) (ph : Phase) (st0 : SSt) (e : Ev) (cmd : Cmd),
        (framed k ph st0 (fun st => runSpec p n (st.emit e) cmd)).1.stack = st0.stack :=
      fun k ph st0 e cmd => framed_stack (fun _ => ih _ _)
    cases cmd with
    | script s => rw [runSpec_script]; exact ih _ _
    | acts as =>
      cases as with
      | nil => rw [runSpec_acts_nil]
      | cons a rest =>
        rw [runSpec_acts_cons]
        exact andThen_stack (ih _ _) (fun st' h' => (ih _ _).trans h')
    | pres f k cs =>
      cases cs with
      | nil => rw [runSpec_pres_nil]
      | cons c cs => rw [runSpec_pres_cons]; exact hcond _ _ _ _ _ _ (fun _ => ih _ _)
    | posts f k cs =>
      cases cs with
      | nil => rw [runSpec_posts_nil]
      | cons c cs => rw [runSpec_posts_cons]; exact hcond _ _ _ _ _ _ (fun _ => ih _ _)
    | invs f k cs =>
      cases cs with
      | nil => rw [runSpec_invs_nil]
      | cons c cs => rw [runSpec_invs_cons]; exact hcond _ _ _ _ _ _ (fun _ => ih _ _)
    | act a =>
      cases a with
      | callFn f =>
        cases h : p.fn? f with
        | none => rw [runSpec_callFn_none _ _ _ _ h]
        | some d =>
          cases hc : st.fnSuspended f with
          | true => rw [runSpec_callFn_bare _ _ _ _ _ h hc]; exact hfre _ _ _ _ _
          | false =>
            rw [runSpec_callFn_checked _ _ _ _ _ h hc]
            apply andThen_stack (hfr _ _ _ _)
            intro st1 h1
            apply andThen_stack ((hfre _ _ _ _ _).trans h1)
            intro st2 h2
            exact (hfr _ _ _ _).trans h2
      | callMethod i m =>
        rcases p.meth?_cases i m with h | ⟨c, md, h⟩
        · rw [runSpec_callMethod_none _ _ _ _ _ h]
        · cases hc : (!md.guarded || st.instSuspended i) with
          | true => rw [runSpec_callMethod_bare _ _ _ _ _ _ _ h hc]; exact ih _ _
          | false =>
            rw [runSpec_callMethod_checked _ _ _ _ _ _ _ h hc]
            apply andThen_stack (hfr _ _ _ _)
            intro st1 h1
            apply andThen_stack ((hfre _ _ _ _ _).trans h1)
            intro st2 h2
            exact (hfr _ _ _ _).trans h2
      | construct i => rw [runSpec_construct]; exact ih _ _
      | superInit i cid =>
        cases h : p.cls? cid with
        | none => rw [runSpec_superInit_none _ _ _ _ _ h]
        | some c =>
          cases hc : st.instSuspended i with
          | true => rw [runSpec_superInit_bare _ _ _ _ _ _ h hc]; exact ih _ _
          | false =>
            rw [runSpec_superInit_checked _ _ _ _ _ _ h hc]
            apply andThen_stack (hfre _ _ _ _ _)
            intro st1 h1
            exact (hfr _ _ _ _).trans h1

end Icontract.Re
