/-
  Helper lemmas for the decision table of C03(a): facts about the literal member names and about
  `unionOn`.
-/
import IcontractModel.Inv
namespace Icontract.Inv
open Icontract.Meta

theorem endsWith_iff (s pat : String) : s.endsWith pat = true ↔ pat.toList <:+ s.toList := by
  rw [← String.endsWith_toSlice, String.Slice.endsWith_string_iff]; simp

theorem dunder_init : isDunderName "__init__" = true := by
  simp [isDunderName, endsWith_iff]; decide
theorem dunder_setattr : isDunderName "__setattr__" = true := by
  simp [isDunderName, endsWith_iff]; decide
theorem dunder_new : isDunderName "__new__" = true := by
  simp [isDunderName, endsWith_iff]; decide
theorem dunder_repr : isDunderName "__repr__" = true := by
  simp [isDunderName, endsWith_iff]; decide
theorem dunder_getattribute : isDunderName "__getattribute__" = true := by
  simp [isDunderName, endsWith_iff]; decide

theorem unionOn_call (invs : List CheckOn) : (unionOn invs).call = invs.any (·.call) := rfl
theorem unionOn_setattr (invs : List CheckOn) : (unionOn invs).setattr = invs.any (·.setattr) := rfl

theorem isEmpty_false_of_any {α} (l : List α) (p : α → Bool) (h : l.any p = true) :
    l.isEmpty = false := by
  cases l with
  | nil => simp at h
  | cons a l => rfl

theorem unionOn_congr (invs invs' : List CheckOn) (h : ∀ c, c ∈ invs ↔ c ∈ invs') :
    unionOn invs = unionOn invs' := by
  have key : ∀ p : CheckOn → Bool, invs.any p = invs'.any p := by
    intro p
    rw [Bool.eq_iff_iff]
    simp only [List.any_eq_true]
    constructor
    · rintro ⟨c, hc, hp⟩; exact ⟨c, (h c).1 hc, hp⟩
    · rintro ⟨c, hc, hp⟩; exact ⟨c, (h c).2 hc, hp⟩
  simp only [unionOn, key]

theorem isEmpty_congr {α} (l l' : List α) (h : ∀ c, c ∈ l ↔ c ∈ l') : l.isEmpty = l'.isEmpty := by
  cases l with
  | nil =>
    cases l' with
    | nil => rfl
    | cons a l' => exact absurd ((h a).2 (by simp)) (by simp)
  | cons a l =>
    cases l' with
    | nil => exact absurd ((h a).1 (by simp)) (by simp)
    | cons b l' => rfl

/-- the exempt names are never candidates -/
theorem wrapCandidate_exempt (last : CheckOn) (name : String) (m : Member)
    (h : name = "__new__" ∨ name = "__repr__" ∨ name = "__getattribute__") :
    wrapCandidate last name m = false := by
  rcases h with h | h | h <;> subst h <;> simp [wrapCandidate]

/-- the decision for a name that is none of the five special names -/
theorem wrapCandidate_generic (last : CheckOn) (name : String) (m : Member)
    (h1 : name ≠ "__new__") (h2 : name ≠ "__repr__") (h3 : name ≠ "__getattribute__")
    (h4 : name ≠ "__init__") (h5 : name ≠ "__setattr__") :
    wrapCandidate last name m =
      (last.call && (!name.startsWith "_" || isDunderName name) &&
        (match m with | .func _ => true | .prop _ _ _ => true | _ => false)) := by
  have e1 : (name == "__new__") = false := by simpa using h1
  have e2 : (name == "__repr__") = false := by simpa using h2
  have e3 : (name == "__getattribute__") = false := by simpa using h3
  have e4 : (name == "__init__") = false := by simpa using h4
  have e5 : (name == "__setattr__") = false := by simpa using h5
  have e5' : (name != "__setattr__") = true := by simp [bne, e5]
  unfold wrapCandidate
  rw [e1, e2, e3, e4, e5, e5']
  cases last.call <;> cases name.startsWith "_" <;> cases isDunderName name <;> cases m <;> rfl

theorem wrapCandidate_init (last : CheckOn) (m : Member) :
    wrapCandidate last "__init__" m = (match m with | .func _ => true | _ => false) := by
  cases m <;> simp [wrapCandidate]

theorem wrapCandidate_setattr (last : CheckOn) (m : Member) :
    wrapCandidate last "__setattr__" m =
      (last.setattr && (match m with | .func _ => true | .prop _ _ _ => true | _ => false)) := by
  have hd := dunder_setattr
  have hs : "__setattr__".startsWith "_" = true := by simp
  unfold wrapCandidate
  rw [hd, hs]
  cases last.setattr <;> cases m <;> simp

/-! ### the decision table (statements of Props/C03.lean, part (a)) -/

theorem call_guard_table (invs : List CheckOn) (name : String) (m : Member)
    (hc : (unionOn invs).call = true) (hn : name ≠ "__init__") (hs : name ≠ "__setattr__") :
    guardOf invs name m = .onCall ↔ mustGuardOnCall name m = true := by
  have hne : invs.isEmpty = false := isEmpty_false_of_any _ _ hc
  have e4 : (name == "__init__") = false := by simpa using hn
  have e5 : (name == "__setattr__") = false := by simpa using hs
  by_cases hx : name = "__new__" ∨ name = "__repr__" ∨ name = "__getattribute__"
  · have h1 := wrapCandidate_exempt (unionOn invs) name m hx
    have h2 : name ∈ exemptNames := by
      rcases hx with h | h | h <;> subst h <;> simp [exemptNames]
    simp [guardOf, hne, h1, mustGuardOnCall, h2]
  · have h1 : name ≠ "__new__" := fun h => hx (Or.inl h)
    have h2 : name ≠ "__repr__" := fun h => hx (Or.inr (Or.inl h))
    have h3 : name ≠ "__getattribute__" := fun h => hx (Or.inr (Or.inr h))
    have hw := wrapCandidate_generic (unionOn invs) name m h1 h2 h3 hn hs
    have hex : exemptNames.contains name = false := by
      simp [exemptNames, h1, h2, h3]
    simp only [guardOf, hne, hw, hc, mustGuardOnCall, isPublicOrDunder, hex, e4, e5, bne]
    cases name.startsWith "_" <;> cases isDunderName name <;> cases m <;> simp

theorem never_guarded (invs : List CheckOn) (name : String) (m : Member)
    (h : (name.startsWith "_" = true ∧ isDunderName name = false) ∨
         (∃ f, m = .static f) ∨ (∃ f, m = .classm f) ∨ m = .other ∨
         name = "__repr__" ∨ name = "__getattribute__" ∨ name = "__new__") :
    guardOf invs name m = .none := by
  suffices hw : wrapCandidate (unionOn invs) name m = false by
    simp [guardOf, hw]
  by_cases hx : name = "__new__" ∨ name = "__repr__" ∨ name = "__getattribute__"
  · exact wrapCandidate_exempt _ name m hx
  have h1 : name ≠ "__new__" := fun h => hx (Or.inl h)
  have h2 : name ≠ "__repr__" := fun h => hx (Or.inr (Or.inl h))
  have h3 : name ≠ "__getattribute__" := fun h => hx (Or.inr (Or.inr h))
  have hm : (name.startsWith "_" = true ∧ isDunderName name = false) ∨
      (match m with | .func _ => false | .prop _ _ _ => false | _ => true) = true := by
    rcases h with h | ⟨f, h⟩ | ⟨f, h⟩ | h | h | h | h
    · exact Or.inl h
    · subst h; exact Or.inr rfl
    · subst h; exact Or.inr rfl
    · subst h; exact Or.inr rfl
    · exact absurd h h2
    · exact absurd h h3
    · exact absurd h h1
  by_cases hi : name = "__init__"
  · subst hi
    rw [wrapCandidate_init]
    rcases hm with ⟨_, hd⟩ | hm
    · rw [dunder_init] at hd; cases hd
    · cases m <;> simp_all
  by_cases hs : name = "__setattr__"
  · subst hs
    rw [wrapCandidate_setattr]
    rcases hm with ⟨_, hd⟩ | hm
    · rw [dunder_setattr] at hd; cases hd
    · cases m <;> simp_all
  rw [wrapCandidate_generic _ name m h1 h2 h3 hi hs]
  rcases hm with ⟨ha, hd⟩ | hm
  · simp [ha, hd]
  · cases m <;> simp_all

theorem setattr_only_if_requested (invs : List CheckOn) (f : FnId) :
    (guardOf invs "__setattr__" (.func f) = .onSetattr ↔ (unionOn invs).setattr = true) ∧
    (assignGuard invs = .onSetattr ↔ (unionOn invs).setattr = true) ∧
    (∀ i ∈ evaluatedOnce invs .onSetattr, ∃ c, invs[i]? = some c ∧ c.setattr = true) := by
  refine ⟨?_, ?_, ?_⟩
  · cases hE : invs.isEmpty
    · simp only [guardOf, hE, wrapCandidate_setattr]
      cases (unionOn invs).setattr <;> simp
    · have : invs = [] := by simpa using hE
      subst this
      simp [guardOf, unionOn]
  · unfold assignGuard
    cases (unionOn invs).setattr <;> simp
  · intro i hi
    simp only [evaluatedOnce, List.mem_filter] at hi
    cases hg : invs[i]? with
    | none => simp [hg] at hi
    | some c => exact ⟨c, rfl, by simpa [hg] using hi.2⟩

theorem guard_independent_of_decorator_order (invs invs' : List CheckOn) (name : String) (m : Member)
    (h : ∀ c, c ∈ invs ↔ c ∈ invs') :
    guardOf invs name m = guardOf invs' name m := by
  simp only [guardOf, unionOn_congr invs invs' h, isEmpty_congr invs invs' h]

theorem selected_invariants (invs : List CheckOn) :
    (∀ i, i ∈ evaluatedOnce invs .onCall ↔ ∃ c, invs[i]? = some c ∧ c.call = true) ∧
    evaluatedOnce invs .ctor = List.range invs.length := by
  refine ⟨?_, rfl⟩
  intro i
  simp only [evaluatedOnce, List.mem_filter, List.mem_range]
  constructor
  · rintro ⟨_, hi⟩
    cases hg : invs[i]? with
    | none => simp [hg] at hi
    | some c => exact ⟨c, rfl, by simpa [hg] using hi⟩
  · rintro ⟨c, hg, hc⟩
    refine ⟨?_, by simp [hg, hc]⟩
    exact (List.getElem?_eq_some_iff.1 hg).1

end Icontract.Inv
