/-
  The re-evaluator computes what Python computes: generalised statement (for a predicate `keep` that
  is true on the ids outside comprehension scopes and false on the ids inside), by mutual structural
  induction following `pyEval` / `visit`.
-/
import IcontractModel.Lemmas.ReevalLog
namespace Icontract.Ex
set_option linter.unusedSimpArgs false
set_option linter.unusedVariables false

theorem any_isNone_map_some (l : List Val) : (l.map some).any Option.isNone = false := by
  induction l with
  | nil => rfl
  | cons a l ih => simp

theorem filterMap_id_map_some (l : List Val) : (l.map some).filterMap id = l := by
  induction l with
  | nil => rfl
  | cons a l ih => simp

theorem harvest_out (ops : Ops) (bi : List (String × Val)) (tbl : Tbl) (es : List Expr) :
    (harvest ops bi tbl es).out = .ok () := by
  cases es <;> simp [harvest]

mutual
theorem visit_py (ops : Ops) (env : Env) (keep : Nat → Bool) : ∀ (e : Expr) (v : Val) (P : Log),
    e.wf = true → (∀ i ∈ outerIds e, keep i = true) → (∀ i ∈ innerIds e, keep i = false) →
    pyEval ops env e = .ok (v, P) →
    (visit ops env.builtins (Tbl.ofNames env.names) e).out = .ok (some v) ∧
    (visit ops env.builtins (Tbl.ofNames env.names) e).log.filter (fun p => keep p.1) = P
  | .const i c, v, P, _, ho, _, h => by
      simp only [pyEval, Except.ok.injEq, Prod.mk.injEq] at h
      obtain ⟨rfl, rfl⟩ := h
      have hk : keep i = true := ho i (by simp [outerIds])
      simp [visit, hk]
  | .name i n, v, P, _, ho, _, h => by
      have hk : keep i = true := ho i (by simp [outerIds])
      simp only [pyEval] at h
      simp only [visit, lookupT_ofNames]
      cases hn : lookup env.names n with
      | some x =>
        simp only [hn, Except.ok.injEq, Prod.mk.injEq] at h
        obtain ⟨rfl, rfl⟩ := h
        simp [hk]
      | none =>
        simp only [hn] at h
        cases hb : lookup env.builtins n with
        | some x =>
          simp only [hb, Except.ok.injEq, Prod.mk.injEq] at h
          obtain ⟨rfl, rfl⟩ := h
          simp [hk]
        | none => simp [hb] at h
  | .attr i e a, v, P, hw, ho, hi, h => by
      simp only [pyEval, Except.bind_eq_ok_iff, pure, Except.pure, Except.ok.injEq, Prod.mk.injEq] at h
      obtain ⟨⟨v1, l1⟩, h1, r, h2, rfl, rfl⟩ := h
      simp only [Expr.wf] at hw
      simp only [outerIds, innerIds, List.forall_mem_cons] at ho hi
      obtain ⟨hk, ho1⟩ := ho
      obtain ⟨ia, ib⟩ := visit_py ops env keep e v1 l1 hw ho1 hi h1
      simp only [visit, VRes.bind_of_ok ia]
      simp [h2, ib, hk, List.filter_append]
  | .subscr i e ix, v, P, hw, ho, hi, h => by
      simp only [pyEval, Except.bind_eq_ok_iff, pure, Except.pure, Except.ok.injEq, Prod.mk.injEq] at h
      obtain ⟨⟨v1, l1⟩, h1, ⟨v2, l2⟩, h2, r, h3, rfl, rfl⟩ := h
      simp only [Expr.wf, Bool.and_eq_true] at hw
      simp only [outerIds, innerIds, List.forall_mem_cons, List.forall_mem_append] at ho hi
      obtain ⟨hk, ho1, ho2⟩ := ho
      obtain ⟨ia, ib⟩ := visit_py ops env keep e v1 l1 hw.1 ho1 hi.1 h1
      obtain ⟨ja, jb⟩ := visit_py ops env keep ix v2 l2 hw.2 ho2 hi.2 h2
      simp only [visit, VRes.bind_of_ok ia, VRes.bind_of_ok ja]
      simp at h3
      simp [h3, ib, jb, hk, List.filter_append]
  | .call i f args, v, P, hw, ho, hi, h => by
      simp only [pyEval, Except.bind_eq_ok_iff, pure, Except.pure, Except.ok.injEq, Prod.mk.injEq] at h
      obtain ⟨⟨v1, l1⟩, h1, ⟨avs, l2⟩, h2, r, h3, rfl, rfl⟩ := h
      simp only [Expr.wf, Bool.and_eq_true] at hw
      simp only [outerIds, innerIds, List.forall_mem_cons, List.forall_mem_append] at ho hi
      obtain ⟨hk, ho1, ho2⟩ := ho
      obtain ⟨ia, ib⟩ := visit_py ops env keep f v1 l1 hw.1 ho1 hi.1 h1
      obtain ⟨ja, jb⟩ := visitList_py ops env keep args avs l2 hw.2 ho2 hi.2 h2
      simp only [visit, VRes.bind_of_ok ia, VRes.bind_of_ok ja]
      simp at h3
      simp [h3, ib, jb, hk, List.filter_append, any_isNone_map_some, filterMap_id_map_some]
  | .unary i op e, v, P, hw, ho, hi, h => by
      simp only [pyEval, Except.bind_eq_ok_iff, pure, Except.pure, Except.ok.injEq, Prod.mk.injEq] at h
      obtain ⟨⟨v1, l1⟩, h1, r, h2, rfl, rfl⟩ := h
      simp only [Expr.wf] at hw
      simp only [outerIds, innerIds, List.forall_mem_cons] at ho hi
      obtain ⟨hk, ho1⟩ := ho
      obtain ⟨ia, ib⟩ := visit_py ops env keep e v1 l1 hw ho1 hi h1
      simp only [visit, VRes.bind_of_ok ia]
      cases op with
      | not =>
        simp only [Except.bind_eq_ok_iff, Except.ok.injEq] at h2
        obtain ⟨b, hb, rfl⟩ := h2
        have hn : (do let b ← ops.truth v1; pure (Val.bool !b) : Except Exc Val) = .ok (Val.bool !b) := by
          rw [hb]; rfl
        simp [hn, ib, hk, List.filter_append]
      | neg => simp at h2; simp [h2, ib, hk, List.filter_append]
      | pos => simp at h2; simp [h2, ib, hk, List.filter_append]
      | inv => simp at h2; simp [h2, ib, hk, List.filter_append]
  | .bin i op l r, v, P, hw, ho, hi, h => by
      simp only [pyEval, Except.bind_eq_ok_iff, pure, Except.pure, Except.ok.injEq, Prod.mk.injEq] at h
      obtain ⟨⟨v1, l1⟩, h1, ⟨v2, l2⟩, h2, x, h3, rfl, rfl⟩ := h
      simp only [Expr.wf, Bool.and_eq_true] at hw
      simp only [outerIds, innerIds, List.forall_mem_cons, List.forall_mem_append] at ho hi
      obtain ⟨hk, ho1, ho2⟩ := ho
      obtain ⟨ia, ib⟩ := visit_py ops env keep l v1 l1 hw.1 ho1 hi.1 h1
      obtain ⟨ja, jb⟩ := visit_py ops env keep r v2 l2 hw.2 ho2 hi.2 h2
      simp only [visit, VRes.bind_of_ok ia, VRes.bind_of_ok ja]
      simp at h3
      simp [h3, ib, jb, hk, List.filter_append]
  | .boolop i isAnd es, v, P, hw, ho, hi, h => by
      simp only [pyEval, Except.bind_eq_ok_iff, pure, Except.pure, Except.ok.injEq, Prod.mk.injEq] at h
      obtain ⟨⟨r, l⟩, h1, rfl, rfl⟩ := h
      simp only [Expr.wf, Bool.and_eq_true, Bool.not_eq_true'] at hw
      simp only [outerIds, innerIds, List.forall_mem_cons] at ho hi
      obtain ⟨hk, ho1⟩ := ho
      obtain ⟨ia, ib⟩ := visitBool_py ops env keep isAnd none es r l hw.1 hw.2 ho1 hi h1
      simp only [visit, VRes.bind_of_ok ia]
      simp [ib, hk, List.filter_append]
  | .compare i left rest, v, P, hw, ho, hi, h => by
      simp only [pyEval, Except.bind_eq_ok_iff, pure, Except.pure, Except.ok.injEq, Prod.mk.injEq] at h
      obtain ⟨⟨lv, l0⟩, h1, ⟨r, l1⟩, h2, rfl, rfl⟩ := h
      simp only [Expr.wf, Bool.and_eq_true, Bool.not_eq_true'] at hw
      simp only [outerIds, innerIds, List.forall_mem_cons, List.forall_mem_append] at ho hi
      obtain ⟨hk, ho1, ho2⟩ := ho
      obtain ⟨ia, ib⟩ := visit_py ops env keep left lv l0 hw.1 ho1 hi.1 h1
      obtain ⟨ja, jb⟩ := visitCmp_py ops env keep lv none rest r l1 hw.2.1 hw.2.2 ho2 hi.2 h2
      simp only [visit, VRes.bind_of_ok ia, Option.isNone_some, VRes.bind_of_ok ja]
      simp [ib, jb, hk, List.filter_append]
  | .ifexp i c t e, v, P, hw, ho, hi, h => by
      simp only [pyEval, Except.bind_eq_ok_iff, pure, Except.pure, Except.ok.injEq, Prod.mk.injEq] at h
      obtain ⟨⟨cv, l0⟩, h1, b, hb, ⟨r, l1⟩, h2, rfl, rfl⟩ := h
      simp only [Expr.wf, Bool.and_eq_true] at hw
      simp only [outerIds, innerIds, List.forall_mem_cons, List.forall_mem_append] at ho hi
      obtain ⟨hk, ⟨ho1, ho2⟩, ho3⟩ := ho
      obtain ⟨⟨hi1, hi2⟩, hi3⟩ := hi
      obtain ⟨ia, ib⟩ := visit_py ops env keep c cv l0 hw.1 ho1 hi1 h1
      simp only [visit, VRes.bind_of_ok ia]
      simp at hb
      cases b with
      | true =>
        simp at h2
        obtain ⟨ja, jb⟩ := visit_py ops env keep t r l1 hw.2.1 ho2 hi2 h2
        simp [hb, VRes.bind_of_ok ja, ib, jb, hk, List.filter_append]
      | false =>
        simp at h2
        obtain ⟨ja, jb⟩ := visit_py ops env keep e r l1 hw.2.2 ho3 hi3 h2
        simp [hb, VRes.bind_of_ok ja, ib, jb, hk, List.filter_append]
  | .display i es, v, P, hw, ho, hi, h => by
      simp only [pyEval, Except.bind_eq_ok_iff, pure, Except.pure, Except.ok.injEq, Prod.mk.injEq] at h
      obtain ⟨⟨vs, l⟩, h1, rfl, rfl⟩ := h
      simp only [Expr.wf] at hw
      simp only [outerIds, innerIds, List.forall_mem_cons] at ho hi
      obtain ⟨hk, ho1⟩ := ho
      obtain ⟨ia, ib⟩ := visitList_py ops env keep es vs l hw ho1 hi h1
      simp only [visit, VRes.bind_of_ok ia]
      simp [ib, hk, List.filter_append, any_isNone_map_some, filterMap_id_map_some]
  | .comp i targets inner, v, P, hw, ho, hi, h => by
      simp only [pyEval, Except.bind_eq_ok_iff, pure, Except.pure, Except.ok.injEq, Prod.mk.injEq] at h
      obtain ⟨r, h1, rfl, rfl⟩ := h
      have hk : keep i = true := ho i (by simp [outerIds])
      simp only [innerIds] at hi
      have hh : (harvest ops env.builtins ((Tbl.ofNames env.names).shadow targets) inner).log.filter
          (fun p => keep p.1) = [] := by
        rw [List.filter_eq_nil_iff]
        intro p hp
        have := hi p.1 (harvest_logIn ops env.builtins _ inner p hp)
        simp [this]
      simp only [visit, VRes.bind_of_ok (harvest_out _ _ _ _)]
      simp [hasPlaceholder_ofNames, values_ofNames, h1, hh, hk, List.filter_append]
theorem visitList_py (ops : Ops) (env : Env) (keep : Nat → Bool) : ∀ (es : List Expr) (vs : List Val) (P : Log),
    wfList es = true → (∀ i ∈ outerIdsList es, keep i = true) → (∀ i ∈ innerIdsList es, keep i = false) →
    pyEvalList ops env es = .ok (vs, P) →
    (visitList ops env.builtins (Tbl.ofNames env.names) es).out = .ok (vs.map some) ∧
    (visitList ops env.builtins (Tbl.ofNames env.names) es).log.filter (fun p => keep p.1) = P
  | [], vs, P, _, _, _, h => by
      simp only [pyEvalList, Except.ok.injEq, Prod.mk.injEq] at h
      obtain ⟨rfl, rfl⟩ := h
      simp [visitList]
  | e :: rest, vs, P, hw, ho, hi, h => by
      simp only [pyEvalList, Except.bind_eq_ok_iff, pure, Except.pure, Except.ok.injEq, Prod.mk.injEq] at h
      obtain ⟨⟨v1, l1⟩, h1, ⟨vs2, l2⟩, h2, rfl, rfl⟩ := h
      simp only [wfList, Bool.and_eq_true] at hw
      simp only [outerIdsList, innerIdsList, List.forall_mem_append] at ho hi
      obtain ⟨ia, ib⟩ := visit_py ops env keep e v1 l1 hw.1 ho.1 hi.1 h1
      obtain ⟨ja, jb⟩ := visitList_py ops env keep rest vs2 l2 hw.2 ho.2 hi.2 h2
      simp only [visitList, VRes.bind_of_ok ia, VRes.bind_of_ok ja]
      simp [ib, jb, List.filter_append]
theorem visitBool_py (ops : Ops) (env : Env) (keep : Nat → Bool) : ∀ (isAnd : Bool) (last : Option Val)
    (es : List Expr) (v : Val) (P : Log),
    es.isEmpty = false → wfList es = true →
    (∀ i ∈ outerIdsList es, keep i = true) → (∀ i ∈ innerIdsList es, keep i = false) →
    pyEvalBool ops env isAnd es = .ok (v, P) →
    (visitBool ops env.builtins (Tbl.ofNames env.names) isAnd false last es).out = .ok (some v) ∧
    (visitBool ops env.builtins (Tbl.ofNames env.names) isAnd false last es).log.filter (fun p => keep p.1) = P
  | isAnd, last, [], v, P, hne, _, _, _, _ => by simp at hne
  | isAnd, last, [e], v, P, _, hw, ho, hi, h => by
      simp only [pyEvalBool] at h
      simp only [wfList, Bool.and_eq_true] at hw
      simp only [outerIdsList, innerIdsList, List.forall_mem_append] at ho hi
      obtain ⟨ia, ib⟩ := visit_py ops env keep e v P hw.1 ho.1 hi.1 h
      simp only [visitBool, VRes.bind_of_ok ia]
      simp [ib, List.filter_append]
  | isAnd, last, e :: e2 :: rest, v, P, _, hw, ho, hi, h => by
      simp only [pyEvalBool, Except.bind_eq_ok_iff, pure, Except.pure] at h
      obtain ⟨⟨v1, l1⟩, h1, b, hb, h⟩ := h
      rw [wfList] at hw; rw [outerIdsList] at ho; rw [innerIdsList] at hi
      simp only [Bool.and_eq_true, List.forall_mem_append] at hw ho hi
      obtain ⟨ia, ib⟩ := visit_py ops env keep e v1 l1 hw.1 ho.1 hi.1 h1
      rw [visitBool]
      simp only [VRes.bind_of_ok ia]
      simp at hb
      by_cases hc : (isAnd && !b || !isAnd && b) = true
      · have hc' := hc
        simp at hc'
        simp only [hc, if_true, Except.ok.injEq, Prod.mk.injEq] at h
        obtain ⟨rfl, rfl⟩ := h
        simp [hb, hc', ib, List.filter_append]
      · have hc' : ¬(isAnd = true ∧ b = false ∨ isAnd = false ∧ b = true) := by
          cases isAnd <;> cases b <;> simp at hc ⊢
        simp only [hc, Bool.false_eq_true, if_false, Except.bind_eq_ok_iff, Except.ok.injEq, Prod.mk.injEq] at h
        obtain ⟨⟨r, l2⟩, h2, rfl, rfl⟩ := h
        obtain ⟨ja, jb⟩ := visitBool_py ops env keep isAnd (some v1) (e2 :: rest) r l2 rfl hw.2 ho.2 hi.2 h2
        simp [hb, hc', ib, ja, jb, List.filter_append]
theorem visitCmp_py (ops : Ops) (env : Env) (keep : Nat → Bool) : ∀ (left : Val) (result : Option Val)
    (es : List (CmpOp × Expr)) (v : Val) (P : Log),
    es.isEmpty = false → wfCmp es = true →
    (∀ i ∈ outerIdsCmp es, keep i = true) → (∀ i ∈ innerIdsCmp es, keep i = false) →
    pyEvalCmp ops env left es = .ok (v, P) →
    (visitCmp ops env.builtins (Tbl.ofNames env.names) false (some left) result es).out = .ok (some v) ∧
    (visitCmp ops env.builtins (Tbl.ofNames env.names) false (some left) result es).log.filter (fun p => keep p.1) = P
  | left, result, [], v, P, hne, _, _, _, _ => by simp at hne
  | left, result, [(op, e)], v, P, _, hw, ho, hi, h => by
      simp only [pyEvalCmp, Except.bind_eq_ok_iff, pure, Except.pure, Except.ok.injEq, Prod.mk.injEq] at h
      obtain ⟨⟨v1, l1⟩, h1, r, hr, rfl, rfl⟩ := h
      simp only [wfCmp, Bool.and_eq_true] at hw
      simp only [outerIdsCmp, innerIdsCmp, List.forall_mem_append] at ho hi
      obtain ⟨ia, ib⟩ := visit_py ops env keep e v1 l1 hw.1 ho.1 hi.1 h1
      simp only [visitCmp, VRes.bind_of_ok ia]
      simp at hr
      simp [hr, ib, List.filter_append]
  | left, result, (op, e) :: (op2, e2) :: rest, v, P, _, hw, ho, hi, h => by
      simp only [pyEvalCmp, Except.bind_eq_ok_iff, pure, Except.pure] at h
      obtain ⟨⟨v1, l1⟩, h1, r, hr, b, hb, h⟩ := h
      rw [wfCmp] at hw; rw [outerIdsCmp] at ho; rw [innerIdsCmp] at hi
      simp only [Bool.and_eq_true, List.forall_mem_append] at hw ho hi
      obtain ⟨ia, ib⟩ := visit_py ops env keep e v1 l1 hw.1 ho.1 hi.1 h1
      rw [visitCmp]
      simp only [VRes.bind_of_ok ia]
      simp at hr hb
      cases b with
      | false =>
        simp only [Bool.not_false, if_true, Except.ok.injEq, Prod.mk.injEq] at h
        obtain ⟨rfl, rfl⟩ := h
        simp [hr, hb, ib, List.filter_append]
      | true =>
        simp only [Bool.not_true, Bool.false_eq_true, if_false, Except.bind_eq_ok_iff, Except.ok.injEq, Prod.mk.injEq] at h
        obtain ⟨⟨r2, l2⟩, h2, rfl, rfl⟩ := h
        obtain ⟨ja, jb⟩ := visitCmp_py ops env keep v1 (some r) ((op2, e2) :: rest) r2 l2 rfl hw.2 ho.2 hi.2 h2
        simp [hr, hb, ib, ja, jb, List.filter_append]
end

end Icontract.Ex
