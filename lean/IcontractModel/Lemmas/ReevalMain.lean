/-
  The re-evaluator computes what Python computes: generalised statement (for a predicate `keep` that
  is true on the ids outside comprehension scopes and false on the ids inside), by mutual structural
  induction following `pyEval` / `visit`.

  Second version: the visitor visits a keyed dictionary item value-first and a formatted value specification-first,
  so its log is in general a PERMUTATION of Python's; it is EQUAL to Python's when the expression is `orderFaithful`.
  Both statements are proved at once: `LogRel strict a b` is `a = b` for `strict = true` and `a.Perm b` otherwise,
  and the theorem assumes `strict = true → e.orderFaithful = true`.
-/
import IcontractModel.Lemmas.ReevalLog
namespace Icontract.Ex
set_option linter.unusedSimpArgs false
set_option linter.unusedVariables false

theorem any_isNone_map_some (l : List Val) : (l.map some).any Option.isNone = false := by
  induction l with
  | nil => rfl
  | cons a l ih => simp

theorem filterMap_id_map_some (l : List Val) : (l.map some).filterMap id = l := by
  induction l with
  | nil => rfl
  | cons a l ih => simp

theorem harvest_out (ops : Ops) (bi : List (String × Val)) (tbl : Tbl) (es : List Expr) :
    (harvest ops bi tbl es).out = .ok () := by
  cases es <;> simp [harvest]

/-! ### the relation between the two logs -/

/-- equality when `strict`, permutation otherwise -/
def LogRel (strict : Bool) (a b : Log) : Prop := if strict = true then a = b else a.Perm b

theorem LogRel.refl (s : Bool) (a : Log) : LogRel s a a := by
  unfold LogRel; split
  · rfl
  · exact List.Perm.refl _

theorem LogRel.append {s : Bool} {a b c d : Log} (h1 : LogRel s a b) (h2 : LogRel s c d) :
    LogRel s (a ++ c) (b ++ d) := by
  unfold LogRel at *
  split
  · next hs => rw [if_pos hs] at h1 h2; rw [h1, h2]
  · next hs => rw [if_neg hs] at h1 h2; exact h1.append h2

theorem LogRel.cons {s : Bool} {a b : Log} (x : Nat × Val) (h : LogRel s a b) : LogRel s (x :: a) (x :: b) :=
  LogRel.append (LogRel.refl s [x]) h

theorem LogRel.perm {s : Bool} {a b : Log} (h : LogRel s a b) : a.Perm b := by
  unfold LogRel at h
  split at h
  · rw [h]
  · exact h

theorem LogRel.eq {a b : Log} (h : LogRel true a b) : a = b := by
  simpa [LogRel] using h

/-- `k: v` - Python: key, value; the visitor: value, key -/
theorem LogRel.swap3 {fk fe fr l1 l2 l3 : Log} (h1 : LogRel false fk l1) (h2 : LogRel false fe l2)
    (h3 : LogRel false fr l3) : LogRel false (fe ++ (fk ++ fr)) (l1 ++ (l2 ++ l3)) := by
  have p1 := h1.perm; have p2 := h2.perm; have p3 := h3.perm
  simp only [LogRel, Bool.false_eq_true, if_false]
  rw [← List.append_assoc, ← List.append_assoc]
  exact (List.perm_append_comm.trans (p1.append p2)).append p3

theorem LogRel.swap2 {fa fb l1 l2 : Log} (h1 : LogRel false fa l1) (h2 : LogRel false fb l2) :
    LogRel false (fb ++ fa) (l1 ++ l2) := by
  have p1 := h1.perm; have p2 := h2.perm
  simp only [LogRel, Bool.false_eq_true, if_false]
  exact List.perm_append_comm.trans (p1.append p2)

/-- closes `LogRel s (a₁ ++ (a₂ ++ ...)) (b₁ ++ (b₂ ++ ...))` from the hypotheses `LogRel s aᵢ bᵢ` -/
macro "logrel" : tactic =>
  `(tactic| repeat' (first | assumption | exact LogRel.refl _ _ | apply LogRel.append | apply LogRel.cons))

/-! ### keywords -/

/-- the visitor's keyword table holding real values only -/
def kwSome (p : String × Val) : String × Option Val := (p.1, some p.2)

theorem any_isNone_map_kwSome (l : List (String × Val)) : (l.map kwSome).any (fun p => p.2.isNone) = false := by
  induction l with
  | nil => rfl
  | cons a l ih => simp only [List.map_cons, List.any_cons, ih, kwSome, Option.isNone_some, Bool.or_false]

theorem filterMap_map_kwSome (l : List (String × Val)) :
    (l.map kwSome).filterMap (fun p => p.2.map (fun v => (p.1, v))) = l := by
  induction l with
  | nil => rfl
  | cons a l ih => simpa [kwSome] using ih

theorem any_key_map_kwSome (l : List (String × Val)) (k : String) :
    (l.map kwSome).any (fun p => p.1 == k) = l.any (fun p => p.1 == k) := by
  induction l with
  | nil => rfl
  | cons a l ih => simp only [List.map_cons, List.any_cons, ih, kwSome]

/-- a keyword that was not there yet is appended -/
theorem kwPut_fresh (acc : List (String × Val)) (k : String) (v : Val) (h : acc.any (fun p => p.1 == k) = false) :
    kwPut (acc.map kwSome) k (some v) = (acc ++ [(k, v)]).map kwSome := by
  unfold kwPut
  rw [any_key_map_kwSome, h]
  simp [kwSome]

/-- `**u` in a call: when Python found no repeated keyword, the visitor's `kwargs[k] = v` loop only appends -/
theorem kwFold_ok (kvs : List (String × Val)) : ∀ (acc acc' : List (String × Val)),
    kvs.foldlM (fun a p => if a.any (fun q => q.1 == p.1) then (.error "TypeError" : Except Exc _) else .ok (a ++ [p])) acc
      = .ok acc' →
    kvs.foldl (fun a p => kwPut a p.1 (some p.2)) (acc.map kwSome) = acc'.map kwSome := by
  induction kvs with
  | nil =>
    intro acc acc' h
    simp only [List.foldlM_nil, pure, Except.pure, Except.ok.injEq] at h
    subst h; rfl
  | cons p rest ih =>
    intro acc acc' h
    simp only [List.foldlM_cons, Except.bind_eq_ok_iff] at h
    obtain ⟨a1, h1, h2⟩ := h
    by_cases hc : acc.any (fun q => q.1 == p.1) = true
    · simp [hc] at h1
    · simp only [hc, Bool.false_eq_true, if_false, Except.ok.injEq] at h1
      subst h1
      simp only [Bool.not_eq_true] at hc
      simp only [List.foldl_cons, kwPut_fresh acc p.1 p.2 hc]
      exact ih _ _ h2

mutual
theorem visit_py (ops : Ops) (env : Env) (keep : Nat → Bool) (strict : Bool) : ∀ (e : Expr) (v : Val) (P : Log),
    e.wf = true → (strict = true → e.orderFaithful = true) →
    (∀ i ∈ outerIds e, keep i = true) → (∀ i ∈ innerIds e, keep i = false) →
    pyEval ops env e = .ok (v, P) →
    (visit ops env.builtins (Tbl.ofNames env.names) e).out = .ok (some v) ∧
    LogRel strict ((visit ops env.builtins (Tbl.ofNames env.names) e).log.filter (fun p => keep p.1)) P
  | .const i c, v, P, _, _, ho, _, h => by
      simp only [pyEval, Except.ok.injEq, Prod.mk.injEq] at h
      obtain ⟨rfl, rfl⟩ := h
      have hk : keep i = true := ho i (by simp [outerIds])
      simp [visit, hk]
      logrel
  | .name i n, v, P, _, _, ho, _, h => by
      have hk : keep i = true := ho i (by simp [outerIds])
      simp only [pyEval] at h
      simp only [visit, lookupT_ofNames]
      cases hn : lookup env.names n with
      | some x =>
        simp only [hn, Except.ok.injEq, Prod.mk.injEq] at h
        obtain ⟨rfl, rfl⟩ := h
        simp [hk]
        logrel
      | none =>
        simp only [hn] at h
        cases hb : lookup env.builtins n with
        | some x =>
          simp only [hb, Except.ok.injEq, Prod.mk.injEq] at h
          obtain ⟨rfl, rfl⟩ := h
          simp [hk]
          logrel
        | none => simp [hb] at h
  | .attr i e a, v, P, hw, hs, ho, hi, h => by
      simp only [pyEval, Except.bind_eq_ok_iff, pure, Except.pure, Except.ok.injEq, Prod.mk.injEq] at h
      obtain ⟨⟨v1, l1⟩, h1, r, h2, rfl, rfl⟩ := h
      simp only [Expr.wf] at hw
      simp only [Expr.orderFaithful] at hs
      simp only [outerIds, innerIds, List.forall_mem_cons] at ho hi
      obtain ⟨hk, ho1⟩ := ho
      obtain ⟨ia, ib⟩ := visit_py ops env keep strict e v1 l1 hw hs ho1 hi h1
      simp only [visit, VRes.bind_of_ok ia]
      simp [h2, hk, List.filter_append]
      logrel
  | .subscr i e ix, v, P, hw, hs, ho, hi, h => by
      simp only [pyEval, Except.bind_eq_ok_iff, pure, Except.pure, Except.ok.injEq, Prod.mk.injEq] at h
      obtain ⟨⟨v1, l1⟩, h1, ⟨v2, l2⟩, h2, r, h3, rfl, rfl⟩ := h
      simp only [Expr.wf, Bool.and_eq_true] at hw
      simp only [Expr.orderFaithful, Bool.and_eq_true] at hs
      simp only [outerIds, innerIds, List.forall_mem_cons, List.forall_mem_append] at ho hi
      obtain ⟨hk, ho1, ho2⟩ := ho
      obtain ⟨ia, ib⟩ := visit_py ops env keep strict e v1 l1 hw.1 (fun h => (hs h).1) ho1 hi.1 h1
      obtain ⟨ja, jb⟩ := visit_py ops env keep strict ix v2 l2 hw.2 (fun h => (hs h).2) ho2 hi.2 h2
      simp only [visit, VRes.bind_of_ok ia, VRes.bind_of_ok ja]
      simp at h3
      simp [h3, hk, List.filter_append]
      logrel
  | .call i f args, v, P, hw, hs, ho, hi, h => by
      simp only [pyEval, Except.bind_eq_ok_iff, pure, Except.pure, Except.ok.injEq, Prod.mk.injEq] at h
      obtain ⟨⟨v1, l1⟩, h1, ⟨avs, l2⟩, h2, r, h3, rfl, rfl⟩ := h
      simp only [Expr.wf, Bool.and_eq_true] at hw
      simp only [Expr.orderFaithful, Bool.and_eq_true] at hs
      simp only [outerIds, innerIds, List.forall_mem_cons, List.forall_mem_append] at ho hi
      obtain ⟨hk, ho1, ho2⟩ := ho
      obtain ⟨ia, ib⟩ := visit_py ops env keep strict f v1 l1 hw.1 (fun h => (hs h).1) ho1 hi.1 h1
      obtain ⟨ja, jb⟩ := visitList_py ops env keep strict args avs l2 hw.2 (fun h => (hs h).2) ho2 hi.2 h2
      simp only [visit, VRes.bind_of_ok ia, VRes.bind_of_ok ja]
      simp at h3
      simp [h3, hk, List.filter_append, any_isNone_map_some, filterMap_id_map_some]
      logrel
  | .unary i op e, v, P, hw, hs, ho, hi, h => by
      simp only [pyEval, Except.bind_eq_ok_iff, pure, Except.pure, Except.ok.injEq, Prod.mk.injEq] at h
      obtain ⟨⟨v1, l1⟩, h1, r, h2, rfl, rfl⟩ := h
      simp only [Expr.wf] at hw
      simp only [Expr.orderFaithful] at hs
      simp only [outerIds, innerIds, List.forall_mem_cons] at ho hi
      obtain ⟨hk, ho1⟩ := ho
      obtain ⟨ia, ib⟩ := visit_py ops env keep strict e v1 l1 hw hs ho1 hi h1
      simp only [visit, VRes.bind_of_ok ia]
      cases op with
      | not =>
        simp only [Except.bind_eq_ok_iff, Except.ok.injEq] at h2
        obtain ⟨b, hb, rfl⟩ := h2
        have hn : (do let b ← ops.truth v1; pure (Val.bool !b) : Except Exc Val) = .ok (Val.bool !b) := by
          rw [hb]; rfl
        simp [hn, hk, List.filter_append]
        logrel
      | neg => simp at h2; simp [h2, hk, List.filter_append]; logrel
      | pos => simp at h2; simp [h2, hk, List.filter_append]; logrel
      | inv => simp at h2; simp [h2, hk, List.filter_append]; logrel
  | .bin i op l r, v, P, hw, hs, ho, hi, h => by
      simp only [pyEval, Except.bind_eq_ok_iff, pure, Except.pure, Except.ok.injEq, Prod.mk.injEq] at h
      obtain ⟨⟨v1, l1⟩, h1, ⟨v2, l2⟩, h2, x, h3, rfl, rfl⟩ := h
      simp only [Expr.wf, Bool.and_eq_true] at hw
      simp only [Expr.orderFaithful, Bool.and_eq_true] at hs
      simp only [outerIds, innerIds, List.forall_mem_cons, List.forall_mem_append] at ho hi
      obtain ⟨hk, ho1, ho2⟩ := ho
      obtain ⟨ia, ib⟩ := visit_py ops env keep strict l v1 l1 hw.1 (fun h => (hs h).1) ho1 hi.1 h1
      obtain ⟨ja, jb⟩ := visit_py ops env keep strict r v2 l2 hw.2 (fun h => (hs h).2) ho2 hi.2 h2
      simp only [visit, VRes.bind_of_ok ia, VRes.bind_of_ok ja]
      simp at h3
      simp [h3, hk, List.filter_append]
      logrel
  | .boolop i isAnd es, v, P, hw, hs, ho, hi, h => by
      simp only [pyEval, Except.bind_eq_ok_iff, pure, Except.pure, Except.ok.injEq, Prod.mk.injEq] at h
      obtain ⟨⟨r, l⟩, h1, rfl, rfl⟩ := h
      simp only [Expr.wf, Bool.and_eq_true, Bool.not_eq_true'] at hw
      simp only [Expr.orderFaithful] at hs
      simp only [outerIds, innerIds, List.forall_mem_cons] at ho hi
      obtain ⟨hk, ho1⟩ := ho
      obtain ⟨ia, ib⟩ := visitBool_py ops env keep strict isAnd none es r l hw.1 hw.2 hs ho1 hi h1
      simp only [visit, VRes.bind_of_ok ia]
      simp [hk, List.filter_append]
      logrel
  | .compare i left rest, v, P, hw, hs, ho, hi, h => by
      simp only [pyEval, Except.bind_eq_ok_iff, pure, Except.pure, Except.ok.injEq, Prod.mk.injEq] at h
      obtain ⟨⟨lv, l0⟩, h1, ⟨r, l1⟩, h2, rfl, rfl⟩ := h
      simp only [Expr.wf, Bool.and_eq_true, Bool.not_eq_true'] at hw
      simp only [Expr.orderFaithful, Bool.and_eq_true] at hs
      simp only [outerIds, innerIds, List.forall_mem_cons, List.forall_mem_append] at ho hi
      obtain ⟨hk, ho1, ho2⟩ := ho
      obtain ⟨ia, ib⟩ := visit_py ops env keep strict left lv l0 hw.1 (fun h => (hs h).1) ho1 hi.1 h1
      obtain ⟨ja, jb⟩ := visitCmp_py ops env keep strict lv none rest r l1 hw.2.1 hw.2.2 (fun h => (hs h).2) ho2 hi.2 h2
      simp only [visit, VRes.bind_of_ok ia, Option.isNone_some, VRes.bind_of_ok ja]
      simp [hk, List.filter_append]
      logrel
  | .ifexp i c t e, v, P, hw, hs, ho, hi, h => by
      simp only [pyEval, Except.bind_eq_ok_iff, pure, Except.pure, Except.ok.injEq, Prod.mk.injEq] at h
      obtain ⟨⟨cv, l0⟩, h1, b, hb, ⟨r, l1⟩, h2, rfl, rfl⟩ := h
      simp only [Expr.wf, Bool.and_eq_true] at hw
      simp only [Expr.orderFaithful, Bool.and_eq_true] at hs
      simp only [outerIds, innerIds, List.forall_mem_cons, List.forall_mem_append] at ho hi
      obtain ⟨hk, ⟨ho1, ho2⟩, ho3⟩ := ho
      obtain ⟨⟨hi1, hi2⟩, hi3⟩ := hi
      obtain ⟨ia, ib⟩ := visit_py ops env keep strict c cv l0 hw.1 (fun h => (hs h).1) ho1 hi1 h1
      simp only [visit, VRes.bind_of_ok ia]
      simp at hb
      cases b with
      | true =>
        simp at h2
        obtain ⟨ja, jb⟩ := visit_py ops env keep strict t r l1 hw.2.1 (fun h => (hs h).2.1) ho2 hi2 h2
        simp [hb, VRes.bind_of_ok ja, hk, List.filter_append]
        logrel
      | false =>
        simp at h2
        obtain ⟨ja, jb⟩ := visit_py ops env keep strict e r l1 hw.2.2 (fun h => (hs h).2.2) ho3 hi3 h2
        simp [hb, VRes.bind_of_ok ja, hk, List.filter_append]
        logrel
  | .display i es, v, P, hw, hs, ho, hi, h => by
      simp only [pyEval, Except.bind_eq_ok_iff, pure, Except.pure, Except.ok.injEq, Prod.mk.injEq] at h
      obtain ⟨⟨vs, l⟩, h1, rfl, rfl⟩ := h
      simp only [Expr.wf] at hw
      simp only [Expr.orderFaithful] at hs
      simp only [outerIds, innerIds, List.forall_mem_cons] at ho hi
      obtain ⟨hk, ho1⟩ := ho
      obtain ⟨ia, ib⟩ := visitList_py ops env keep strict es vs l hw hs ho1 hi h1
      simp only [visit, VRes.bind_of_ok ia]
      simp [hk, List.filter_append, any_isNone_map_some, filterMap_id_map_some]
      logrel
  | .comp i targets first inner, v, P, hw, hs, ho, hi, h => by
      simp only [pyEval, Except.bind_eq_ok_iff, pure, Except.pure, Except.ok.injEq, Prod.mk.injEq] at h
      obtain ⟨⟨v0, l0⟩, h0, r, h1, rfl, rfl⟩ := h
      simp only [Expr.wf] at hw
      simp only [Expr.orderFaithful] at hs
      simp only [outerIds, innerIds, List.forall_mem_cons, List.forall_mem_append] at ho hi
      obtain ⟨hk, ho1⟩ := ho
      obtain ⟨ia, ib⟩ := visit_py ops env keep strict first v0 l0 hw hs ho1 hi.1 h0
      have hh : (harvest ops env.builtins ((Tbl.ofNames env.names).shadow targets) inner).log.filter
          (fun p => keep p.1) = [] := by
        rw [List.filter_eq_nil_iff]
        intro p hp
        have := hi.2 p.1 (harvest_logIn ops env.builtins _ inner p hp)
        simp [this]
      simp only [visit, VRes.mk_ok_bind, VRes.bind_of_ok (harvest_out _ _ _ _)]
      simp [hasPlaceholder_ofNames, values_ofNames, h1, hh, hk, List.filter_append]
      logrel
  -- second version ------------------------------------------------------------------------------------
  | .starred i e, v, P, hw, _, _, _, _ => by simp [Expr.wf] at hw
  | .coll i kind es, v, P, hw, hs, ho, hi, h => by
      simp only [pyEval, Except.bind_eq_ok_iff, pure, Except.pure, Except.ok.injEq, Prod.mk.injEq] at h
      obtain ⟨⟨vs, l⟩, h1, r, h2, rfl, rfl⟩ := h
      simp only [Expr.wf] at hw
      simp only [Expr.orderFaithful] at hs
      simp only [outerIds, innerIds, List.forall_mem_cons] at ho hi
      obtain ⟨hk, ho1⟩ := ho
      obtain ⟨ia, ib⟩ := visitElts_py ops env keep strict es vs l hw hs ho1 hi h1
      simp only [visit, VRes.bind_of_ok ia]
      cases kind with
      | list =>
        simp at h2
        simp [h2, hk, List.filter_append, any_isNone_map_some, filterMap_id_map_some]
        logrel
      | tuple =>
        simp at h2
        simp [h2, hk, List.filter_append, any_isNone_map_some, filterMap_id_map_some]
        logrel
      | set =>
        simp at h2
        simp [h2, hk, List.filter_append, any_isNone_map_some, filterMap_id_map_some]
        logrel
  | .dict i items, v, P, hw, hs, ho, hi, h => by
      simp only [pyEval, Except.bind_eq_ok_iff, pure, Except.pure, Except.ok.injEq, Prod.mk.injEq] at h
      obtain ⟨⟨d, l⟩, h1, rfl, rfl⟩ := h
      simp only [Expr.wf] at hw
      simp only [Expr.orderFaithful] at hs
      simp only [outerIds, innerIds, List.forall_mem_cons] at ho hi
      obtain ⟨hk, ho1⟩ := ho
      obtain ⟨ia, ib⟩ := visitItems_py ops env keep strict items ops.dictEmpty d l hw hs ho1 hi h1
      simp only [visit, VRes.bind_of_ok ia]
      simp [hk, List.filter_append]
      logrel
  | .slice i lo hi' step, v, P, hw, hs, ho, hi, h => by
      simp only [pyEval, Except.bind_eq_ok_iff, pure, Except.pure, Except.ok.injEq, Prod.mk.injEq] at h
      obtain ⟨⟨a, l1⟩, h1, ⟨b, l2⟩, h2, ⟨c, l3⟩, h3, rfl, rfl⟩ := h
      simp only [Expr.wf, Bool.and_eq_true] at hw
      simp only [Expr.orderFaithful, Bool.and_eq_true] at hs
      simp only [outerIds, innerIds, List.forall_mem_cons, List.forall_mem_append] at ho hi
      obtain ⟨hk, ⟨ho1, ho2⟩, ho3⟩ := ho
      obtain ⟨⟨hi1, hi2⟩, hi3⟩ := hi
      obtain ⟨ia, ib⟩ := visitOpt_py ops env keep strict lo a l1 hw.1 (fun h => (hs h).1) ho1 hi1 h1
      obtain ⟨ja, jb⟩ := visitOpt_py ops env keep strict hi' b l2 hw.2.1 (fun h => (hs h).2.1) ho2 hi2 h2
      obtain ⟨ka, kb⟩ := visitOpt_py ops env keep strict step c l3 hw.2.2 (fun h => (hs h).2.2) ho3 hi3 h3
      simp only [visit, VRes.bind_of_ok ia, VRes.bind_of_ok ja, VRes.bind_of_ok ka]
      simp [hk, List.filter_append]
      logrel
  | .callkw i f args kws, v, P, hw, hs, ho, hi, h => by
      simp only [pyEval, Except.bind_eq_ok_iff, pure, Except.pure, Except.ok.injEq, Prod.mk.injEq] at h
      obtain ⟨⟨fv, l0⟩, h1, ⟨avs, l1⟩, h2, ⟨kvs, l2⟩, h3, r, h4, rfl, rfl⟩ := h
      simp only [Expr.wf, Bool.and_eq_true] at hw
      simp only [Expr.orderFaithful, Bool.and_eq_true] at hs
      simp only [outerIds, innerIds, List.forall_mem_cons, List.forall_mem_append] at ho hi
      obtain ⟨hk, ⟨ho1, ho2⟩, ho3⟩ := ho
      obtain ⟨⟨hi1, hi2⟩, hi3⟩ := hi
      obtain ⟨ia, ib⟩ := visit_py ops env keep strict f fv l0 hw.1 (fun h => (hs h).1) ho1 hi1 h1
      obtain ⟨ja, jb⟩ := visitArgs_py ops env keep strict args avs l1 hw.2.1 (fun h => (hs h).2.1) ho2 hi2 h2
      obtain ⟨ka, kb⟩ := visitKws_py ops env keep strict kws [] kvs l2 hw.2.2 (fun h => (hs h).2.2) ho3 hi3 h3
      simp only [List.map_nil] at ka kb
      simp only [visit, VRes.bind_of_ok ia, VRes.bind_of_ok ja, VRes.bind_of_ok ka]
      simp at h4
      simp only [any_isNone_map_some, filterMap_id_map_some, any_isNone_map_kwSome, filterMap_map_kwSome]
      simp [h4, hk, List.filter_append]
      logrel
  | .fvalue i e conv none, v, P, hw, hs, ho, hi, h => by
      simp only [pyEval, Except.bind_eq_ok_iff, pure, Except.pure, Except.ok.injEq, Prod.mk.injEq] at h
      obtain ⟨⟨v1, l1⟩, h1, ⟨sp, l2⟩, h2, r, h3, rfl, rfl⟩ := h
      obtain ⟨rfl, rfl⟩ := h2
      simp only [Expr.wf, wfOpt, Bool.and_true] at hw
      simp only [Expr.orderFaithful, Option.isNone_none, Bool.and_true] at hs
      simp only [outerIds, innerIds, outerIdsOpt, innerIdsOpt, List.append_nil, List.forall_mem_cons] at ho hi
      obtain ⟨ia, ib⟩ := visit_py ops env keep strict e v1 l1 hw hs ho.2 hi h1
      simp only [visit, VRes.bind_of_ok ia]
      simp at h3
      simp [h3]
      logrel
  | .fvalue i e conv (some sp), v, P, hw, hs, ho, hi, h => by
      simp only [pyEval, Except.bind_eq_ok_iff, pure, Except.pure, Except.ok.injEq, Prod.mk.injEq] at h
      obtain ⟨⟨v1, l1⟩, h1, ⟨spv, l2⟩, ⟨⟨v2, l2'⟩, h2, h2'⟩, r, h3, rfl, rfl⟩ := h
      obtain ⟨rfl, rfl⟩ := h2'
      have hst : strict = false := by
        cases strict with
        | false => rfl
        | true => simp [Expr.orderFaithful] at hs
      subst hst
      simp only [Expr.wf, wfOpt, Bool.and_eq_true] at hw
      simp only [outerIds, innerIds, outerIdsOpt, innerIdsOpt, List.forall_mem_cons, List.forall_mem_append] at ho hi
      obtain ⟨ia, ib⟩ := visit_py ops env keep false e v1 l1 hw.1 (fun h => by cases h) ho.2.1 hi.1 h1
      obtain ⟨ja, jb⟩ := visit_py ops env keep false sp v2 l2' hw.2 (fun h => by cases h) ho.2.2 hi.2 h2
      simp only [visit, VRes.bind_of_ok ja, VRes.bind_of_ok ia]
      simp at h3
      simp [h3, VRes.bind_of_ok ja, VRes.bind_of_ok ia, List.filter_append]
      exact LogRel.swap2 ib jb
  | .fstring i parts, v, P, hw, hs, ho, hi, h => by
      simp only [pyEval, Except.bind_eq_ok_iff, pure, Except.pure, Except.ok.injEq, Prod.mk.injEq] at h
      obtain ⟨⟨vs, l⟩, h1, r, h2, rfl, rfl⟩ := h
      simp only [Expr.wf] at hw
      simp only [Expr.orderFaithful] at hs
      simp only [outerIds, innerIds, List.forall_mem_cons] at ho hi
      obtain ⟨hk, ho1⟩ := ho
      obtain ⟨ia, ib⟩ := visitList_py ops env keep strict parts vs l hw hs ho1 hi h1
      simp only [visit, VRes.bind_of_ok ia]
      simp at h2
      simp [h2, hk, List.filter_append, any_isNone_map_some, filterMap_id_map_some]
      logrel
theorem visitElts_py (ops : Ops) (env : Env) (keep : Nat → Bool) (strict : Bool) :
    ∀ (es : List Expr) (vs : List Val) (P : Log),
    wfElts es = true → (strict = true → orderFaithfulList es = true) →
    (∀ i ∈ outerIdsList es, keep i = true) → (∀ i ∈ innerIdsList es, keep i = false) →
    pyEvalElts ops env es = .ok (vs, P) →
    (visitElts ops env.builtins (Tbl.ofNames env.names) es).out = .ok (vs.map some) ∧
    LogRel strict ((visitElts ops env.builtins (Tbl.ofNames env.names) es).log.filter (fun p => keep p.1)) P
  | [], vs, P, _, _, _, _, h => by
      simp only [pyEvalElts, Except.ok.injEq, Prod.mk.injEq] at h
      obtain ⟨rfl, rfl⟩ := h
      simp [visitElts]
      logrel
  | e :: rest, vs, P, hw, hs, ho, hi, h => by
      cases e with
      | starred j e' =>
        simp only [pyEvalElts, Except.bind_eq_ok_iff, pure, Except.pure, Except.ok.injEq, Prod.mk.injEq] at h
        obtain ⟨⟨s, l1⟩, h1, xs, h2, ⟨vs2, l2⟩, h3, rfl, rfl⟩ := h
        simp only [wfElts, Bool.and_eq_true] at hw
        simp only [orderFaithfulList, Expr.orderFaithful, Bool.and_eq_true] at hs
        simp only [outerIdsList, innerIdsList, outerIds, innerIds, List.forall_mem_append, List.forall_mem_cons] at ho hi
        obtain ⟨ia, ib⟩ := visit_py ops env keep strict e' s l1 hw.1 (fun h => (hs h).1) ho.1.2 hi.1 h1
        obtain ⟨ja, jb⟩ := visitElts_py ops env keep strict rest vs2 l2 hw.2 (fun h => (hs h).2) ho.2 hi.2 h3
        simp only [visitElts, VRes.bind_of_ok ia]
        simp at h2
        simp [h2, VRes.bind_of_ok ja, List.filter_append]
        logrel
      | _ =>
        simp only [pyEvalElts, Except.bind_eq_ok_iff, pure, Except.pure, Except.ok.injEq, Prod.mk.injEq] at h
        obtain ⟨⟨v1, l1⟩, h1, ⟨vs2, l2⟩, h2, rfl, rfl⟩ := h
        simp only [wfElts, Bool.and_eq_true] at hw
        simp only [orderFaithfulList, Bool.and_eq_true] at hs
        simp only [outerIdsList, innerIdsList, List.forall_mem_append] at ho hi
        obtain ⟨ia, ib⟩ := visit_py ops env keep strict _ v1 l1 hw.1 (fun h => (hs h).1) ho.1 hi.1 h1
        obtain ⟨ja, jb⟩ := visitElts_py ops env keep strict rest vs2 l2 hw.2 (fun h => (hs h).2) ho.2 hi.2 h2
        simp only [visitElts, VRes.bind_of_ok ia, VRes.bind_of_ok ja]
        simp [List.filter_append]
        logrel
theorem visitArgs_py (ops : Ops) (env : Env) (keep : Nat → Bool) (strict : Bool) :
    ∀ (es : List Expr) (vs : List Val) (P : Log),
    wfElts es = true → (strict = true → orderFaithfulList es = true) →
    (∀ i ∈ outerIdsList es, keep i = true) → (∀ i ∈ innerIdsList es, keep i = false) →
    pyEvalElts ops env es = .ok (vs, P) →
    (visitArgs ops env.builtins (Tbl.ofNames env.names) es).out = .ok (some (vs.map some)) ∧
    LogRel strict ((visitArgs ops env.builtins (Tbl.ofNames env.names) es).log.filter (fun p => keep p.1)) P
  | [], vs, P, _, _, _, _, h => by
      simp only [pyEvalElts, Except.ok.injEq, Prod.mk.injEq] at h
      obtain ⟨rfl, rfl⟩ := h
      simp [visitArgs]
      logrel
  | e :: rest, vs, P, hw, hs, ho, hi, h => by
      cases e with
      | starred j e' =>
        simp only [pyEvalElts, Except.bind_eq_ok_iff, pure, Except.pure, Except.ok.injEq, Prod.mk.injEq] at h
        obtain ⟨⟨s, l1⟩, h1, xs, h2, ⟨vs2, l2⟩, h3, rfl, rfl⟩ := h
        simp only [wfElts, Bool.and_eq_true] at hw
        simp only [orderFaithfulList, Expr.orderFaithful, Bool.and_eq_true] at hs
        simp only [outerIdsList, innerIdsList, outerIds, innerIds, List.forall_mem_append, List.forall_mem_cons] at ho hi
        obtain ⟨ia, ib⟩ := visit_py ops env keep strict e' s l1 hw.1 (fun h => (hs h).1) ho.1.2 hi.1 h1
        obtain ⟨ja, jb⟩ := visitArgs_py ops env keep strict rest vs2 l2 hw.2 (fun h => (hs h).2) ho.2 hi.2 h3
        simp only [visitArgs, VRes.bind_of_ok ia]
        simp at h2
        simp [h2, VRes.bind_of_ok ja, List.filter_append]
        logrel
      | _ =>
        simp only [pyEvalElts, Except.bind_eq_ok_iff, pure, Except.pure, Except.ok.injEq, Prod.mk.injEq] at h
        obtain ⟨⟨v1, l1⟩, h1, ⟨vs2, l2⟩, h2, rfl, rfl⟩ := h
        simp only [wfElts, Bool.and_eq_true] at hw
        simp only [orderFaithfulList, Bool.and_eq_true] at hs
        simp only [outerIdsList, innerIdsList, List.forall_mem_append] at ho hi
        obtain ⟨ia, ib⟩ := visit_py ops env keep strict _ v1 l1 hw.1 (fun h => (hs h).1) ho.1 hi.1 h1
        obtain ⟨ja, jb⟩ := visitArgs_py ops env keep strict rest vs2 l2 hw.2 (fun h => (hs h).2) ho.2 hi.2 h2
        simp only [visitArgs, VRes.bind_of_ok ia, VRes.bind_of_ok ja]
        simp [List.filter_append]
        logrel
theorem visitKws_py (ops : Ops) (env : Env) (keep : Nat → Bool) (strict : Bool) :
    ∀ (kws : List (Option String × Expr)) (acc r : List (String × Val)) (P : Log),
    wfKws kws = true → (strict = true → orderFaithfulKws kws = true) →
    (∀ i ∈ outerIdsKws kws, keep i = true) → (∀ i ∈ innerIdsKws kws, keep i = false) →
    pyEvalKws ops env acc kws = .ok (r, P) →
    (visitKws ops env.builtins (Tbl.ofNames env.names) (acc.map kwSome) kws).out = .ok (r.map kwSome) ∧
    LogRel strict ((visitKws ops env.builtins (Tbl.ofNames env.names) (acc.map kwSome) kws).log.filter
      (fun p => keep p.1)) P
  | [], acc, r, P, _, _, _, _, h => by
      simp only [pyEvalKws, Except.ok.injEq, Prod.mk.injEq] at h
      obtain ⟨rfl, rfl⟩ := h
      simp [visitKws]
      logrel
  | (some k, e) :: rest, acc, r, P, hw, hs, ho, hi, h => by
      simp only [pyEvalKws, Except.bind_eq_ok_iff, pure, Except.pure] at h
      obtain ⟨⟨v1, l1⟩, h1, h⟩ := h
      simp only [wfKws, Bool.and_eq_true] at hw
      simp only [orderFaithfulKws, Bool.and_eq_true] at hs
      simp only [outerIdsKws, innerIdsKws, List.forall_mem_append] at ho hi
      obtain ⟨ia, ib⟩ := visit_py ops env keep strict e v1 l1 hw.1 (fun h => (hs h).1) ho.1 hi.1 h1
      by_cases hc : acc.any (fun p => p.1 == k) = true
      · simp [hc] at h
      · simp only [hc, Bool.false_eq_true, if_false, Except.bind_eq_ok_iff, Except.ok.injEq, Prod.mk.injEq] at h
        obtain ⟨⟨r2, l2⟩, h2, rfl, rfl⟩ := h
        simp only [Bool.not_eq_true] at hc
        obtain ⟨ja, jb⟩ := visitKws_py ops env keep strict rest (acc ++ [(k, v1)]) r2 l2 hw.2 (fun h => (hs h).2)
          ho.2 hi.2 h2
        rw [← kwPut_fresh acc k v1 hc] at ja jb
        simp only [visitKws, VRes.bind_of_ok ia]
        refine ⟨ja, ?_⟩
        simp only [List.filter_append]
        logrel
  | (none, e) :: rest, acc, r, P, hw, hs, ho, hi, h => by
      simp only [pyEvalKws, Except.bind_eq_ok_iff, pure, Except.pure, Except.ok.injEq, Prod.mk.injEq] at h
      obtain ⟨⟨u, l1⟩, h1, kvs, h2, acc', h3, ⟨r2, l2⟩, h4, rfl, rfl⟩ := h
      simp only [wfKws, Bool.and_eq_true] at hw
      simp only [orderFaithfulKws, Bool.and_eq_true] at hs
      simp only [outerIdsKws, innerIdsKws, List.forall_mem_append] at ho hi
      obtain ⟨ia, ib⟩ := visit_py ops env keep strict e u l1 hw.1 (fun h => (hs h).1) ho.1 hi.1 h1
      obtain ⟨ja, jb⟩ := visitKws_py ops env keep strict rest acc' r2 l2 hw.2 (fun h => (hs h).2) ho.2 hi.2 h4
      rw [← kwFold_ok kvs acc acc' h3] at ja jb
      simp only [visitKws, VRes.bind_of_ok ia]
      simp at h2
      simp only [h2, VRes.lift_ok_bind]
      refine ⟨ja, ?_⟩
      simp only [List.filter_append]
      logrel
theorem visitItems_py (ops : Ops) (env : Env) (keep : Nat → Bool) (strict : Bool) :
    ∀ (items : List (Option Expr × Expr)) (d r : Val) (P : Log),
    wfItems items = true → (strict = true → orderFaithfulItems items = true) →
    (∀ i ∈ outerIdsItems items, keep i = true) → (∀ i ∈ innerIdsItems items, keep i = false) →
    pyEvalItems ops env d items = .ok (r, P) →
    (visitItems ops env.builtins (Tbl.ofNames env.names) d false items).out = .ok (r, false) ∧
    LogRel strict ((visitItems ops env.builtins (Tbl.ofNames env.names) d false items).log.filter
      (fun p => keep p.1)) P
  | [], d, r, P, _, _, _, _, h => by
      simp only [pyEvalItems, Except.ok.injEq, Prod.mk.injEq] at h
      obtain ⟨rfl, rfl⟩ := h
      simp [visitItems]
      logrel
  | (none, e) :: rest, d, r, P, hw, hs, ho, hi, h => by
      simp only [pyEvalItems, Except.bind_eq_ok_iff, pure, Except.pure, Except.ok.injEq, Prod.mk.injEq] at h
      obtain ⟨⟨u, l1⟩, h1, d', h2, ⟨r2, l2⟩, h3, rfl, rfl⟩ := h
      simp only [wfItems, wfOpt, Bool.true_and, Bool.and_eq_true] at hw
      simp only [orderFaithfulItems, Bool.and_eq_true] at hs
      simp only [outerIdsItems, innerIdsItems, outerIdsOpt, innerIdsOpt, List.nil_append, List.forall_mem_append] at ho hi
      obtain ⟨ia, ib⟩ := visit_py ops env keep strict e u l1 hw.1 (fun h => (hs h).1) ho.1 hi.1 h1
      obtain ⟨ja, jb⟩ := visitItems_py ops env keep strict rest d' r2 l2 hw.2 (fun h => (hs h).2) ho.2 hi.2 h3
      simp only [visitItems, VRes.bind_of_ok ia]
      simp at h2
      simp only [h2, VRes.lift_ok_bind]
      refine ⟨ja, ?_⟩
      simp only [List.filter_append]
      logrel
  | (some k, e) :: rest, d, r, P, hw, hs, ho, hi, h => by
      simp only [pyEvalItems, Except.bind_eq_ok_iff, pure, Except.pure, Except.ok.injEq, Prod.mk.injEq] at h
      obtain ⟨⟨kv, l1⟩, h1, ⟨vv, l2⟩, h2, d', h3, ⟨r2, l3⟩, h4, rfl, rfl⟩ := h
      have hst : strict = false := by
        cases strict with
        | false => rfl
        | true => simp [orderFaithfulItems] at hs
      subst hst
      simp only [wfItems, wfOpt, Bool.and_eq_true] at hw
      simp only [outerIdsItems, innerIdsItems, outerIdsOpt, innerIdsOpt, List.forall_mem_append] at ho hi
      obtain ⟨ia, ib⟩ := visit_py ops env keep false k kv l1 hw.1 (fun h => by cases h) ho.1.1 hi.1.1 h1
      obtain ⟨ja, jb⟩ := visit_py ops env keep false e vv l2 hw.2.1 (fun h => by cases h) ho.1.2 hi.1.2 h2
      obtain ⟨ka, kb⟩ := visitItems_py ops env keep false rest d' r2 l3 hw.2.2 (fun h => by cases h) ho.2 hi.2 h4
      simp only [visitItems, VRes.bind_of_ok ja, VRes.bind_of_ok ia]
      simp at h3
      simp only [h3, VRes.lift_ok_bind]
      refine ⟨ka, ?_⟩
      simp only [List.filter_append, List.append_assoc]
      exact LogRel.swap3 ib jb kb
theorem visitOpt_py (ops : Ops) (env : Env) (keep : Nat → Bool) (strict : Bool) :
    ∀ (o : Option Expr) (v : Val) (P : Log),
    wfOpt o = true → (strict = true → orderFaithfulOpt o = true) →
    (∀ i ∈ outerIdsOpt o, keep i = true) → (∀ i ∈ innerIdsOpt o, keep i = false) →
    pyEvalOpt ops env o = .ok (v, P) →
    (visitOpt ops env.builtins (Tbl.ofNames env.names) o).out = .ok (some v) ∧
    LogRel strict ((visitOpt ops env.builtins (Tbl.ofNames env.names) o).log.filter (fun p => keep p.1)) P
  | none, v, P, _, _, _, _, h => by
      simp only [pyEvalOpt, Except.ok.injEq, Prod.mk.injEq] at h
      obtain ⟨rfl, rfl⟩ := h
      simp [visitOpt]
      logrel
  | some e, v, P, hw, hs, ho, hi, h => by
      simp only [pyEvalOpt] at h
      simp only [wfOpt] at hw
      simp only [orderFaithfulOpt] at hs
      simp only [outerIdsOpt, innerIdsOpt] at ho hi
      simpa only [visitOpt] using visit_py ops env keep strict e v P hw hs ho hi h
theorem visitList_py (ops : Ops) (env : Env) (keep : Nat → Bool) (strict : Bool) :
    ∀ (es : List Expr) (vs : List Val) (P : Log),
    wfList es = true → (strict = true → orderFaithfulList es = true) →
    (∀ i ∈ outerIdsList es, keep i = true) → (∀ i ∈ innerIdsList es, keep i = false) →
    pyEvalList ops env es = .ok (vs, P) →
    (visitList ops env.builtins (Tbl.ofNames env.names) es).out = .ok (vs.map some) ∧
    LogRel strict ((visitList ops env.builtins (Tbl.ofNames env.names) es).log.filter (fun p => keep p.1)) P
  | [], vs, P, _, _, _, _, h => by
      simp only [pyEvalList, Except.ok.injEq, Prod.mk.injEq] at h
      obtain ⟨rfl, rfl⟩ := h
      simp [visitList]
      logrel
  | e :: rest, vs, P, hw, hs, ho, hi, h => by
      simp only [pyEvalList, Except.bind_eq_ok_iff, pure, Except.pure, Except.ok.injEq, Prod.mk.injEq] at h
      obtain ⟨⟨v1, l1⟩, h1, ⟨vs2, l2⟩, h2, rfl, rfl⟩ := h
      simp only [wfList, Bool.and_eq_true] at hw
      simp only [orderFaithfulList, Bool.and_eq_true] at hs
      simp only [outerIdsList, innerIdsList, List.forall_mem_append] at ho hi
      obtain ⟨ia, ib⟩ := visit_py ops env keep strict e v1 l1 hw.1 (fun h => (hs h).1) ho.1 hi.1 h1
      obtain ⟨ja, jb⟩ := visitList_py ops env keep strict rest vs2 l2 hw.2 (fun h => (hs h).2) ho.2 hi.2 h2
      simp only [visitList, VRes.bind_of_ok ia, VRes.bind_of_ok ja]
      simp [List.filter_append]
      logrel
theorem visitBool_py (ops : Ops) (env : Env) (keep : Nat → Bool) (strict : Bool) : ∀ (isAnd : Bool) (last : Option Val)
    (es : List Expr) (v : Val) (P : Log),
    es.isEmpty = false → wfList es = true → (strict = true → orderFaithfulList es = true) →
    (∀ i ∈ outerIdsList es, keep i = true) → (∀ i ∈ innerIdsList es, keep i = false) →
    pyEvalBool ops env isAnd es = .ok (v, P) →
    (visitBool ops env.builtins (Tbl.ofNames env.names) isAnd false last es).out = .ok (some v) ∧
    LogRel strict ((visitBool ops env.builtins (Tbl.ofNames env.names) isAnd false last es).log.filter
      (fun p => keep p.1)) P
  | isAnd, last, [], v, P, hne, _, _, _, _, _ => by simp at hne
  | isAnd, last, [e], v, P, _, hw, hs, ho, hi, h => by
      simp only [pyEvalBool] at h
      simp only [wfList, Bool.and_eq_true] at hw
      simp only [orderFaithfulList, Bool.and_eq_true] at hs
      simp only [outerIdsList, innerIdsList, List.forall_mem_append] at ho hi
      obtain ⟨ia, ib⟩ := visit_py ops env keep strict e v P hw.1 (fun h => (hs h).1) ho.1 hi.1 h
      simp only [visitBool, VRes.bind_of_ok ia]
      simp [List.filter_append]
      logrel
  | isAnd, last, e :: e2 :: rest, v, P, _, hw, hs, ho, hi, h => by
      simp only [pyEvalBool, Except.bind_eq_ok_iff, pure, Except.pure] at h
      obtain ⟨⟨v1, l1⟩, h1, b, hb, h⟩ := h
      rw [wfList] at hw; rw [outerIdsList] at ho; rw [innerIdsList] at hi; rw [orderFaithfulList] at hs
      simp only [Bool.and_eq_true, List.forall_mem_append] at hw hs ho hi
      obtain ⟨ia, ib⟩ := visit_py ops env keep strict e v1 l1 hw.1 (fun h => (hs h).1) ho.1 hi.1 h1
      rw [visitBool]
      simp only [VRes.bind_of_ok ia]
      simp at hb
      by_cases hc : (isAnd && !b || !isAnd && b) = true
      · have hc' := hc
        simp at hc'
        simp only [hc, if_true, Except.ok.injEq, Prod.mk.injEq] at h
        obtain ⟨rfl, rfl⟩ := h
        simp [hb, hc', List.filter_append]
        logrel
      · have hc' : ¬(isAnd = true ∧ b = false ∨ isAnd = false ∧ b = true) := by
          cases isAnd <;> cases b <;> simp at hc ⊢
        simp only [hc, Bool.false_eq_true, if_false, Except.bind_eq_ok_iff, Except.ok.injEq, Prod.mk.injEq] at h
        obtain ⟨⟨r, l2⟩, h2, rfl, rfl⟩ := h
        obtain ⟨ja, jb⟩ := visitBool_py ops env keep strict isAnd (some v1) (e2 :: rest) r l2 rfl hw.2
          (fun h => (hs h).2) ho.2 hi.2 h2
        simp [hb, hc', ja, List.filter_append]
        logrel
theorem visitCmp_py (ops : Ops) (env : Env) (keep : Nat → Bool) (strict : Bool) : ∀ (left : Val) (result : Option Val)
    (es : List (CmpOp × Expr)) (v : Val) (P : Log),
    es.isEmpty = false → wfCmp es = true → (strict = true → orderFaithfulCmp es = true) →
    (∀ i ∈ outerIdsCmp es, keep i = true) → (∀ i ∈ innerIdsCmp es, keep i = false) →
    pyEvalCmp ops env left es = .ok (v, P) →
    (visitCmp ops env.builtins (Tbl.ofNames env.names) false (some left) result es).out = .ok (some v) ∧
    LogRel strict ((visitCmp ops env.builtins (Tbl.ofNames env.names) false (some left) result es).log.filter
      (fun p => keep p.1)) P
  | left, result, [], v, P, hne, _, _, _, _, _ => by simp at hne
  | left, result, [(op, e)], v, P, _, hw, hs, ho, hi, h => by
      simp only [pyEvalCmp, Except.bind_eq_ok_iff, pure, Except.pure, Except.ok.injEq, Prod.mk.injEq] at h
      obtain ⟨⟨v1, l1⟩, h1, r, hr, rfl, rfl⟩ := h
      simp only [wfCmp, Bool.and_eq_true] at hw
      simp only [orderFaithfulCmp, Bool.and_eq_true] at hs
      simp only [outerIdsCmp, innerIdsCmp, List.forall_mem_append] at ho hi
      obtain ⟨ia, ib⟩ := visit_py ops env keep strict e v1 l1 hw.1 (fun h => (hs h).1) ho.1 hi.1 h1
      simp only [visitCmp, VRes.bind_of_ok ia]
      simp at hr
      simp [hr, List.filter_append]
      logrel
  | left, result, (op, e) :: (op2, e2) :: rest, v, P, _, hw, hs, ho, hi, h => by
      simp only [pyEvalCmp, Except.bind_eq_ok_iff, pure, Except.pure] at h
      obtain ⟨⟨v1, l1⟩, h1, r, hr, b, hb, h⟩ := h
      rw [wfCmp] at hw; rw [outerIdsCmp] at ho; rw [innerIdsCmp] at hi; rw [orderFaithfulCmp] at hs
      simp only [Bool.and_eq_true, List.forall_mem_append] at hw hs ho hi
      obtain ⟨ia, ib⟩ := visit_py ops env keep strict e v1 l1 hw.1 (fun h => (hs h).1) ho.1 hi.1 h1
      rw [visitCmp]
      simp only [VRes.bind_of_ok ia]
      simp at hr hb
      cases b with
      | false =>
        simp only [Bool.not_false, if_true, Except.ok.injEq, Prod.mk.injEq] at h
        obtain ⟨rfl, rfl⟩ := h
        simp [hr, hb, List.filter_append]
        logrel
      | true =>
        simp only [Bool.not_true, Bool.false_eq_true, if_false, Except.bind_eq_ok_iff, Except.ok.injEq, Prod.mk.injEq] at h
        obtain ⟨⟨r2, l2⟩, h2, rfl, rfl⟩ := h
        obtain ⟨ja, jb⟩ := visitCmp_py ops env keep strict v1 (some r) ((op2, e2) :: rest) r2 l2 rfl hw.2
          (fun h => (hs h).2) ho.2 hi.2 h2
        simp [hr, hb, ja, List.filter_append]
        logrel
end

end Icontract.Ex
