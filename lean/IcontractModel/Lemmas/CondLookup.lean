/-
  The look-up of the condition's own variables (`condLookup`): what a name means in it.
-/
import IcontractModel.Lemmas.Lookup
namespace Icontract.Ex

/-- filtering a look-up by a predicate on the NAME: the names which pass keep their value, the others are unbound -/
theorem lookup_filter_key (p : String → Bool) (l : List (String × Val)) (n : String) :
    lookup (l.filter (fun x => p x.1)) n = if p n then lookup l n else none := by
  induction l with
  | nil => simp [lookup]
  | cons x l ih =>
    obtain ⟨k, v⟩ := x
    by_cases hk : (k == n) = true
    · have hkn : k = n := by simpa using hk
      subst hkn
      by_cases hp : p k = true
      · simp [hp, lookup]
      · have hp' : p k = false := by simpa using hp
        rw [List.filter_cons]
        simp only [hp', Bool.false_eq_true, if_false]
        rw [ih]
        simp [hp']
    · by_cases hp : p k = true
      · rw [List.filter_cons]
        simp only [hp, if_true, lookup, hk, if_false, Bool.false_eq_true]
        exact ih
      · have hp' : p k = false := by simpa using hp
        rw [List.filter_cons]
        simp only [hp', Bool.false_eq_true, if_false, lookup, hk]
        exact ih

/-- the defaults of the parameters which `own` does not bind -/
def condDefaults (own : List (String × Val)) (params : List CondParam) : List (String × Val) :=
  params.filterMap (fun q =>
    match q.2 with
    | some d => if (lookup own q.1).isSome then none else some (q.1, d)
    | none => none)

theorem condLookup_eq (params : List CondParam) (kwargs : List (String × Val)) :
    condLookup params kwargs =
      kwargs.filter (fun p => params.any (fun q => q.1 == p.1)) ++
        condDefaults (kwargs.filter (fun p => params.any (fun q => q.1 == p.1))) params := rfl

theorem lookup_condDefaults_none (own : List (String × Val)) (params : List CondParam) (n : String)
    (h : ∀ q ∈ params, q.1 ≠ n) : lookup (condDefaults own params) n = none := by
  induction params with
  | nil => simp [condDefaults, lookup]
  | cons q ps ih =>
    obtain ⟨k, d?⟩ := q
    have hk : k ≠ n := h (k, d?) (List.mem_cons_self)
    have ih' := ih (fun q hq => h q (List.mem_cons_of_mem _ hq))
    unfold condDefaults at ih' ⊢
    rw [List.filterMap_cons]
    cases d? with
    | none => simpa using ih'
    | some d =>
      by_cases ho : (lookup own k).isSome = true
      · simpa [ho] using ih'
      · simp only [ho, Bool.false_eq_true, if_false, lookup]
        have : (k == n) = false := by simpa using hk
        simp only [this, Bool.false_eq_true, if_false]
        exact ih'

theorem find?_none_of_all_ne (params : List CondParam) (n : String) (h : ∀ q ∈ params, q.1 ≠ n) :
    params.find? (fun q => q.1 == n) = none := by
  rw [List.find?_eq_none]
  intro q hq
  simpa using h q hq

theorem lookup_condDefaults (own : List (String × Val)) (params : List CondParam) (n : String)
    (hnodup : (params.map (·.1)).Nodup) :
    lookup (condDefaults own params) n =
      match params.find? (fun q => q.1 == n) with
      | some q => if (lookup own n).isSome then none else q.2
      | none => none := by
  induction params with
  | nil => simp [condDefaults, lookup]
  | cons q ps ih =>
    obtain ⟨k, d?⟩ := q
    rw [List.map_cons, List.nodup_cons] at hnodup
    obtain ⟨hnot, hnd⟩ := hnodup
    by_cases hk : (k == n) = true
    · have hkn : k = n := by simpa using hk
      subst hkn
      have hrest : ∀ q ∈ ps, q.1 ≠ k := by
        intro q hq he
        exact hnot (List.mem_map.mpr ⟨q, hq, he⟩)
      have hnone := lookup_condDefaults_none own ps k hrest
      rw [List.find?_cons]
      simp only [BEq.rfl]
      unfold condDefaults at hnone ⊢
      rw [List.filterMap_cons]
      cases d? with
      | none =>
        simp only
        rw [hnone]
        simp
      | some d =>
        by_cases ho : (lookup own k).isSome = true
        · simp only [ho, if_true]
          exact hnone
        · simp [ho, lookup]
    · have hk' : (k == n) = false := by simpa using hk
      rw [List.find?_cons]
      simp only [hk']
      rw [← ih hnd]
      unfold condDefaults
      rw [List.filterMap_cons]
      cases d? with
      | none => rfl
      | some d =>
        by_cases ho : (lookup own k).isSome = true
        · simp only [ho, if_true]
        · simp only [ho, Bool.false_eq_true, if_false, lookup, hk']

theorem any_eq_false_of_all_ne (params : List CondParam) (n : String) (h : ∀ q ∈ params, q.1 ≠ n) :
    params.any (fun q => q.1 == n) = false := by
  rw [List.any_eq_false]
  intro q hq
  simpa using h q hq

/-- a name which is no parameter of the condition is unbound in the condition's own look-up, whatever the call passes -/
theorem lookup_condLookup_foreign (params : List CondParam) (kwargs : List (String × Val)) (n : String)
    (h : ∀ q ∈ params, q.1 ≠ n) : lookup (condLookup params kwargs) n = none := by
  rw [condLookup_eq, lookup_append, lookup_filter_key (fun k => params.any (fun q => q.1 == k)) kwargs n]
  simp only [any_eq_false_of_all_ne params n h, Bool.false_eq_true, if_false]
  exact lookup_condDefaults_none _ params n h

/-- a parameter of the condition is bound to the argument passed for it, else to its default (if it has one) -/
theorem lookup_condLookup (params : List CondParam) (kwargs : List (String × Val)) (n : String)
    (hnodup : (params.map (·.1)).Nodup) :
    lookup (condLookup params kwargs) n =
      match params.find? (fun q => q.1 == n) with
      | some q => (match lookup kwargs n with | some v => some v | none => q.2)
      | none => none := by
  cases hf : params.find? (fun q => q.1 == n) with
  | none =>
    simp only
    apply lookup_condLookup_foreign
    intro q hq
    have := List.find?_eq_none.mp hf q hq
    simpa using this
  | some q =>
    simp only
    have hany : params.any (fun q => q.1 == n) = true := by
      rw [List.any_eq_true]
      exact ⟨q, List.mem_of_find?_eq_some hf, List.find?_some (p := fun (q : CondParam) => q.1 == n) hf⟩
    have hown := lookup_filter_key (fun k => params.any (fun q => q.1 == k)) kwargs n
    simp only [hany, if_true] at hown
    rw [condLookup_eq, lookup_append, lookup_condDefaults _ params n hnodup, hf, hown]
    cases lookup kwargs n with
    | some v => rfl
    | none => rfl

end Icontract.Ex
