/-
  Machine-checked refutations of the ORIGINAL (unrestricted) statements of C06 / C07: `Expr` admits an
  operand-less `boolop` and a link-less `compare` (never produced by Python's `ast`), which `pyEval`
  evaluates but `visit` treats as PLACEHOLDER.
-/
import IcontractModel.Spec.PyEval
import IcontractModel.Represent
namespace Icontract.Ex.Cex

def ops0 : Ops where
  unary := fun _ v => .ok v
  bin := fun _ a _ => .ok a
  cmp := fun _ _ _ => .ok (.bool true)
  truth := fun v => match v with | .bool b => .ok b | _ => .ok true
  attr := fun _ _ => .error "AttributeError"
  subscr := fun a _ => .ok a
  call := fun f _ => .ok f
  comp := fun _ _ => .ok .none
  -- second version: the simplest sensible semantics of displays, unpacking, keyword calls and formatting
  mkSet := fun xs => .ok (.set xs)
  iter := fun v => match v with
    | .list xs => .ok xs
    | .tuple xs => .ok xs
    | .set xs => .ok xs
    | _ => .error "TypeError"
  dictEmpty := .dict [] []
  dictSet := fun d k v => match d with
    | .dict ks vs => .ok (.dict (ks ++ [k]) (vs ++ [v]))
    | _ => .error "TypeError"
  dictUpdate := fun d u => match d, u with
    | .dict ks vs, .dict ks' vs' => .ok (.dict (ks ++ ks') (vs ++ vs'))
    | _, _ => .error "TypeError"
  kwItems := fun v => match v with
    | .dict ks vs => .ok ((ks.zip vs).filterMap (fun p => match p.1 with | .str s => some (s, p.2) | _ => none))
    | _ => .error "TypeError"
  callkw := fun f _ _ => .ok f
  format := fun v _ _ => .ok (.str (match v with | .str s => s | .int i => toString i | _ => "<value>"))
  join := fun vs => .ok (.str (String.join (vs.map (fun v => match v with | .str s => s | _ => "<value>"))))

def env0 : Env := ⟨[], []⟩

/-- `and()` with no operand -/
def e1 : Expr := .boolop 0 true []
/-- `<and()> and False and 1` -/
def e4 : Expr := .boolop 5 true [.boolop 0 true [], .const 1 (.bool false), .const 2 (.int 1)]
/-- `<and()> and False and (1).a` -/
def e3 : Expr := .boolop 5 true [.boolop 0 true [], .const 1 (.bool false), .attr 3 (.const 2 (.int 1)) "a"]

theorem py_e1 : pyEval ops0 env0 e1 = .ok (.bool true, [(0, .bool true)]) := rfl
theorem visit_e1 : visit ops0 env0.builtins (Tbl.ofNames env0.names) e1 = ⟨[], .ok none⟩ := rfl
theorem py_e4 : pyEval ops0 env0 e4 =
    .ok (.bool false, [(0, .bool true), (1, .bool false), (5, .bool false)]) := rfl
theorem visit_e4 : visit ops0 env0.builtins (Tbl.ofNames env0.names) e4 =
    ⟨[(1, .bool false), (2, .int 1)], .ok none⟩ := rfl
theorem py_e3 : pyEval ops0 env0 e3 =
    .ok (.bool false, [(0, .bool true), (1, .bool false), (5, .bool false)]) := rfl
theorem visit_e3 : visit ops0 env0.builtins (Tbl.ofNames env0.names) e3 =
    ⟨[(1, .bool false), (2, .int 1)], .error "AttributeError"⟩ := rfl

theorem nodup_e1 : (allIds e1).Nodup := by simp [e1, allIds, allIdsList]
theorem nodup_e4 : (allIds e4).Nodup := by simp [e4, allIds, allIdsList]
theorem nodup_e3 : (allIds e3).Nodup := by simp [e3, allIds, allIdsList]

theorem C06_recomputed_values_are_pythons_false :
    ¬ ∀ (ops : Ops) (env : Env) (e : Expr) (v : Val) (P : Log),
      (allIds e).Nodup → pyEval ops env e = .ok (v, P) →
      (visit ops env.builtins (Tbl.ofNames env.names) e).out = .ok (some v) ∧
      (visit ops env.builtins (Tbl.ofNames env.names) e).log.filter (fun p => !(innerIds e).contains p.1) = P := by
  intro H
  have h := (H ops0 env0 e1 _ _ nodup_e1 py_e1).1
  rw [visit_e1] at h
  cases h

/-- the same for the second-version statement (permutation instead of equality) -/
theorem C06_recomputed_values_are_pythons_perm_false :
    ¬ ∀ (ops : Ops) (env : Env) (e : Expr) (v : Val) (P : Log),
      (allIds e).Nodup → pyEval ops env e = .ok (v, P) →
      (visit ops env.builtins (Tbl.ofNames env.names) e).out = .ok (some v) ∧
      ((visit ops env.builtins (Tbl.ofNames env.names) e).log.filter (fun p => !(innerIds e).contains p.1)).Perm P := by
  intro H
  have h := (H ops0 env0 e1 _ _ nodup_e1 py_e1).1
  rw [visit_e1] at h
  cases h

theorem C06_everything_python_evaluated_is_recorded_false :
    ¬ ∀ (ops : Ops) (env : Env) (e : Expr) (v : Val) (P : Log),
      (allIds e).Nodup → pyEval ops env e = .ok (v, P) →
      ∀ p ∈ P, p ∈ (visit ops env.builtins (Tbl.ofNames env.names) e).log := by
  intro H
  have h := H ops0 env0 e1 _ _ nodup_e1 py_e1 (0, .bool true) (by simp)
  rw [visit_e1] at h
  cases h

theorem C07_no_extra_evaluation_false :
    ¬ ∀ (ops : Ops) (env : Env) (e : Expr) (v : Val) (P : Log),
      (allIds e).Nodup → pyEval ops env e = .ok (v, P) →
      ∀ p ∈ (visit ops env.builtins (Tbl.ofNames env.names) e).log,
        (innerIds e).contains p.1 = false → p.1 ∈ P.map (·.1) := by
  intro H
  have h := H ops0 env0 e4 _ _ nodup_e4 py_e4 (2, .int 1) (by rw [visit_e4]; simp) rfl
  simp at h

theorem C06_every_recorded_value_is_pythons_false :
    ¬ ∀ (ops : Ops) (env : Env) (e : Expr) (v : Val) (P : Log),
      (allIds e).Nodup → pyEval ops env e = .ok (v, P) →
      ∀ p ∈ (visit ops env.builtins (Tbl.ofNames env.names) e).log,
        (innerIds e).contains p.1 = false → p ∈ P := by
  intro H
  have h := H ops0 env0 e4 _ _ nodup_e4 py_e4 (2, .int 1) (by rw [visit_e4]; simp) rfl
  simp at h

theorem C07_reevaluation_total_false :
    ¬ ∀ (ops : Ops) (env : Env) (e : Expr) (v : Val) (P : Log),
      (allIds e).Nodup → pyEval ops env e = .ok (v, P) →
      ∃ r, (visit ops env.builtins (Tbl.ofNames env.names) e).out = .ok r := by
  intro H
  obtain ⟨r, h⟩ := H ops0 env0 e3 _ _ nodup_e3 py_e3
  rw [visit_e3] at h
  cases h

end Icontract.Ex.Cex
