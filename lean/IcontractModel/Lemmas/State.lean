/- Lemmas about the in-progress set (`IdSet`) and the outer wrappers `callSync` / `callAsync`. -/
import IcontractModel.Checker
namespace Icontract

theorem IdSet.not_mem_of_contains_false {s : IdSet} {i : Id} (h : s.contains i = false) : i ∉ s := by
  intro hm
  have : s.contains i = true := List.contains_iff_mem.mpr hm
  rw [h] at this
  cases this

/-- adding an id that is not in the set and discarding it again gives the set back -/
theorem IdSet.discard_add {s : IdSet} {i : Id} (h : s.contains i = false) :
    IdSet.discard (IdSet.add s i) i = s := by
  have hm : i ∉ s := IdSet.not_mem_of_contains_false h
  unfold IdSet.add IdSet.discard
  rw [h]
  simp only [Bool.false_eq_true, if_false]
  rw [List.filter_cons]
  have h1 : (i != i) = false := by simp
  rw [h1]
  simp only [Bool.false_eq_true, if_false]
  apply List.filter_eq_self.mpr
  intro a ha
  have : a ≠ i := fun hai => hm (hai ▸ ha)
  simpa using this

theorem callSync_state (ck : Checker) (o : Oracle) (s : IdSet) (call : Call)
    (hs : s.contains ck.fid = false) : (callSync ck o s call).2 = s := by
  unfold callSync
  split
  · rfl
  · rw [hs]
    simp only [Bool.false_eq_true, if_false]
    exact IdSet.discard_add hs

theorem callAsync_state (ck : Checker) (o : Oracle) (s : IdSet) (call : Call)
    (hs : s.contains ck.fid = false) : (callAsync ck o s call).2 = s := by
  unfold callAsync
  split
  · rfl
  · rw [hs]
    simp only [Bool.false_eq_true, if_false]
    exact IdSet.discard_add hs

theorem callSync_result (ck : Checker) (o : Oracle) (s : IdSet) (call : Call)
    (hs : s.contains ck.fid = false) :
    (callSync ck o s call).1 =
      match assertNoInvalidKwargs call.kwargs with
      | some e => Res.raise e
      | none => checkedSync ck o call := by
  unfold callSync
  cases assertNoInvalidKwargs call.kwargs with
  | some e => rfl
  | none => simp only [hs]; rfl

theorem callAsync_result (ck : Checker) (o : Oracle) (s : IdSet) (call : Call)
    (hs : s.contains ck.fid = false) :
    (callAsync ck o s call).1 =
      match assertNoInvalidKwargs call.kwargs with
      | some e => Res.raise e
      | none => checkedAsync ck o call := by
  unfold callAsync
  cases assertNoInvalidKwargs call.kwargs with
  | some e => rfl
  | none => simp only [hs]; rfl

/-- a fold of state-preserving steps preserves the state -/
theorem foldl_state_fixed {α : Type} (f : IdSet → α → IdSet) (s : IdSet) (xs : List α)
    (h : ∀ x ∈ xs, f s x = s) : xs.foldl f s = s := by
  induction xs with
  | nil => rfl
  | cons x xs ih =>
    rw [List.foldl_cons, h x List.mem_cons_self]
    exact ih (fun y hy => h y (List.mem_cons_of_mem _ hy))

end Icontract
