/-
  C10 helper lemmas: the in-progress set up to membership; the repaired discipline restores it.
-/
import IcontractModel.Lemmas.Reentry
namespace Icontract.Re

/-! ### the in-progress set up to membership -/

theorem contains_add (st : St) (k k' : Key) :
    (st.add k).s.contains k' = (k' == k || st.s.contains k') := by
  unfold St.add
  split
  next h =>
    by_cases hk : k' = k
    · subst hk; rw [h, Bool.or_true]
    · have e : (k' == k) = false := by simp [hk]
      rw [e, Bool.false_or]
  next h => exact List.contains_cons

theorem contains_discard (st : St) (k k' : Key) :
    (st.discard k).s.contains k' = (k' != k && st.s.contains k') := by
  unfold St.discard
  rw [Bool.eq_iff_iff]
  simp [List.mem_filter, and_comm]

@[simp] theorem emit_s (st : St) (e : Ev) : (st.emit e).s = st.s := rfl
@[simp] theorem emit_tr (st : St) (e : Ev) : (st.emit e).tr = st.tr ++ [e] := rfl
@[simp] theorem add_tr (st : St) (k : Key) : (st.add k).tr = st.tr := by
  unfold St.add; split <;> rfl
@[simp] theorem discard_tr (st : St) (k : Key) : (st.discard k).tr = st.tr := rfl

def SameMem (a b : List Key) : Prop := ∀ k, a.contains k = b.contains k
def MemEx (x : Key) (a b : List Key) : Prop := ∀ k, k ≠ x → a.contains k = b.contains k

theorem SameMem.refl (a : List Key) : SameMem a a := fun _ => rfl
theorem SameMem.trans {a b c : List Key} (h1 : SameMem a b) (h2 : SameMem b c) : SameMem a c :=
  fun k => (h1 k).trans (h2 k)
theorem SameMem.symm {a b : List Key} (h1 : SameMem a b) : SameMem b a := fun k => (h1 k).symm
theorem SameMem.memEx {a b : List Key} (x : Key) (h : SameMem a b) : MemEx x a b := fun k _ => h k
theorem MemEx.trans {x} {a b c : List Key} (h1 : MemEx x a b) (h2 : MemEx x b c) : MemEx x a c :=
  fun k hk => (h1 k hk).trans (h2 k hk)

theorem memEx_add (st : St) (x : Key) : MemEx x (st.add x).s st.s := by
  intro k hk
  rw [contains_add]; simp [hk]

theorem memEx_discard (st : St) (x : Key) : MemEx x (st.discard x).s st.s := by
  intro k hk
  rw [contains_discard]; simp [hk]

theorem SameMem.add {a b : St} (h : SameMem a.s b.s) (x : Key) : SameMem (a.add x).s (b.add x).s := by
  intro k; rw [contains_add, contains_add, h k]

theorem SameMem.discard {a b : St} (h : SameMem a.s b.s) (x : Key) :
    SameMem (a.discard x).s (b.discard x).s := by
  intro k; rw [contains_discard, contains_discard, h k]

theorem discard_add (st : St) (x : Key) (h : st.s.contains x = false) :
    SameMem ((st.add x).discard x).s st.s := by
  intro k
  rw [contains_discard, contains_add]
  by_cases hk : k = x
  · subst hk; rw [h]; simp
  · have e : (k == x) = false := by simp [hk]
    generalize st.s.contains k = b
    cases b <;> simp [bne, e]

theorem fin_sameMem {x : Key} {r : St × Out} {st : St} (h : MemEx x r.1.s st.s)
    (hc : st.s.contains x = false) : SameMem (fin x r).1.s st.s := by
  intro k
  rw [fin_fst_s, contains_discard]
  by_cases hk : k = x
  · subst hk; rw [hc]; simp
  · have e : (k == x) = false := by simp [hk]
    rw [h k hk]
    generalize st.s.contains k = b
    cases b <;> simp [bne, e]

theorem andThen_sameMem {r : St × Out} {k : St → St × Out} {b : List Key}
    (h1 : SameMem r.1.s b) (h2 : ∀ st', SameMem st'.s b → SameMem (k st').1.s b) :
    SameMem (andThen r k).1.s b := by
  by_cases h : r.2 = .ok
  · rw [andThen_ok k h]; exact h2 _ h1
  · rw [andThen_ne k h]; exact h1

theorem andThen_memEx {x : Key} {r : St × Out} {k : St → St × Out} {b : List Key}
    (h1 : MemEx x r.1.s b) (h2 : ∀ st', MemEx x st'.s b → MemEx x (k st').1.s b) :
    MemEx x (andThen r k).1.s b := by
  by_cases h : r.2 = .ok
  · rw [andThen_ok k h]; exact h2 _ h1
  · rw [andThen_ne k h]; exact h1

theorem Program.meth?_cases (p : Program) (i m) :
    p.meth? i m = none ∨ ∃ c md, p.meth? i m = some (c, md) := by
  cases h : p.meth? i m with
  | none => exact .inl rfl
  | some x => exact .inr ⟨x.1, x.2, rfl⟩

/-- under the repaired discipline every evaluation restores the in-progress set (as a set) -/
theorem run_sameMem (p : Program) : ∀ (n : Nat) (st : St) (cmd : Cmd),
    SameMem (run p .repaired n st cmd).1.s st.s := by
  intro n
  induction n with
  | zero => intro st cmd; rw [run_zero]; exact SameMem.refl _
  | succ n ih =>
    intro st cmd
    have hcond : ∀ (st0 : St) (e : Ev) (c : Script) (t : Bool) (K : St → St × Out) (o : Out),
        (∀ st', SameMem (K st').1.s st'.s) →
        SameMem (andThen (run p .repaired n (st0.emit e) (.script c))
          (fun st' => if t then K st' else (st', o))).1.s st0.s := by
      intro st0 e c t K o hK
      apply andThen_sameMem
      · exact ih _ _
      · intro st' h'
        split
        · exact (hK st').trans h'
        · exact h'
    cases cmd with
    | script s => rw [run_script]; exact ih _ _
    | acts as =>
      cases as with
      | nil => rw [run_acts_nil]; exact SameMem.refl _
      | cons a rest =>
        rw [run_acts_cons]
        exact andThen_sameMem (ih _ _) (fun st' h' => (ih _ _).trans h')
    | pres f k cs =>
      cases cs with
      | nil => rw [run_pres_nil]; exact SameMem.refl _
      | cons c cs => rw [run_pres_cons]; exact hcond _ _ _ _ _ _ (fun _ => ih _ _)
    | posts f k cs =>
      cases cs with
      | nil => rw [run_posts_nil]; exact SameMem.refl _
      | cons c cs => rw [run_posts_cons]; exact hcond _ _ _ _ _ _ (fun _ => ih _ _)
    | invs f k cs =>
      cases cs with
      | nil => rw [run_invs_nil]; exact SameMem.refl _
      | cons c cs => rw [run_invs_cons]; exact hcond _ _ _ _ _ _ (fun _ => ih _ _)
    | act a =>
      cases a with
      | callFn f =>
        cases h : p.fn? f with
        | none => rw [run_callFn_none _ _ _ _ _ h]; exact SameMem.refl _
        | some d =>
          cases hc : st.s.contains (.fn f) with
          | true =>
            rw [run_callFn_bare _ _ _ _ _ _ h hc]
            exact ih _ _
          | false =>
            rw [run_callFn_checked _ _ _ _ _ _ h hc]
            apply fin_sameMem _ hc
            apply andThen_memEx
            · exact ((ih _ _).memEx _).trans (memEx_add _ _)
            · intro st1 h1
              apply andThen_memEx
              · exact ((ih _ _).memEx _).trans ((memEx_discard _ _).trans h1)
              · intro st2 h2
                exact ((ih _ _).memEx _).trans ((memEx_add _ _).trans h2)
      | callMethod i m =>
        rcases p.meth?_cases i m with h | ⟨c, md, h⟩
        · rw [run_callMethod_none _ _ _ _ _ _ h]; exact SameMem.refl _
        · cases hc : (!md.guarded || st.s.contains (.inst i)) with
          | true => rw [run_callMethod_bare _ _ _ _ _ _ _ _ h hc]; exact ih _ _
          | false =>
            rw [run_callMethod_checked _ _ _ _ _ _ _ _ h hc]
            have hc' : st.s.contains (.inst i) = false := (Bool.or_eq_false_iff.mp hc).2
            apply fin_sameMem _ hc'
            apply andThen_memEx
            · exact ((ih _ _).memEx _).trans (memEx_add _ _)
            · intro st1 h1
              apply andThen_memEx
              · exact ((ih _ _).memEx _).trans h1
              · intro st2 h2
                exact ((ih _ _).memEx _).trans h2
      | construct i => rw [run_construct]; exact ih _ _
      | superInit i cid =>
        cases h : p.cls? cid with
        | none => rw [run_superInit_none _ _ _ _ _ _ h]; exact SameMem.refl _
        | some c =>
          cases hc : (!c.initWrapped || (Variant.repaired.ctorTestsMembership && st.s.contains (.inst i))) with
          | true => rw [run_superInit_bare _ _ _ _ _ _ _ h hc]; exact ih _ _
          | false =>
            rw [run_superInit_checked _ _ _ _ _ _ _ h hc]
            have hc' : st.s.contains (.inst i) = false := by
              have := (Bool.or_eq_false_iff.mp hc).2
              simpa [Variant.repaired] using this
            apply fin_sameMem _ hc'
            apply andThen_memEx
            · exact ((ih _ _).memEx _).trans (memEx_add _ _)
            · intro st1 h1
              exact ((ih _ _).memEx _).trans h1

end Icontract.Re
