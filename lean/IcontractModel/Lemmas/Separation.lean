/-
  Separation lemmas for the metaclass model (`Meta.lean`): when no two functions share a list cell
  (`Separated`, `CheckersWf` of Spec/Override.lean), a late in-place decoration is local, and every
  step of a class statement keeps the functions separated.
-/
import IcontractModel.Lemmas.MetaFrame
import IcontractModel.Spec.Override
namespace Icontract.Meta

/-- the two hypotheses that travel together -/
def SepWf (w : World) : Prop := Separated w ∧ CheckersWf w

/-! ### cells of a checker -/

theorem mem_cellsOf_pre (w : World) (ck : CheckerObj) : ck.pre ∈ cellsOf w ck := by
  simp [cellsOf]

theorem mem_cellsOf_snaps (w : World) (ck : CheckerObj) : ck.snaps ∈ cellsOf w ck := by
  simp [cellsOf]

theorem mem_cellsOf_posts (w : World) (ck : CheckerObj) : ck.posts ∈ cellsOf w ck := by
  simp [cellsOf]

theorem mem_cellsOf_group (w : World) (ck : CheckerObj) (r : Ref) (h : r ∈ w.heap.get ck.pre) :
    r ∈ cellsOf w ck := by
  simp [cellsOf, h]

theorem cellsOf_hpres {w w' : World} (ck : CheckerObj) (hh : HPres w.heap w'.heap)
    (hlt : ck.pre < w.heap.length) : cellsOf w' ck = cellsOf w ck := by
  simp only [cellsOf, hh.1 _ hlt]

/-! ### a late decoration is local -/

/-- what introspection shows about `g` depends on `g`'s checker binding and its cells only -/
theorem observe_eq_of_cells (w w' : World) (g : FnId) (hc : w'.checker? g = w.checker? g)
    (hcells : ∀ ck, w.checker? g = some ck → ∀ r ∈ cellsOf w ck, w'.heap.get r = w.heap.get r) :
    preOf w' g = preOf w g ∧ postsOf w' g = postsOf w g ∧ snapsOf w' g = snapsOf w g := by
  cases h : w.checker? g with
  | none => simp only [preOf, postsOf, snapsOf, hc, h, and_self]
  | some ck =>
    have hk := hcells ck h
    simp only [preOf, postsOf, snapsOf, hc, h, hk _ (mem_cellsOf_pre w ck), hk _ (mem_cellsOf_snaps w ck),
      hk _ (mem_cellsOf_posts w ck), and_true]
    exact List.map_congr_left (fun r hr => hk r (mem_cellsOf_group w ck r hr))

theorem addPre_local (w : World) (f g : FnId) (c : CId) (hfg : f ≠ g)
    (hsep : Separated w) (hwf : CheckersWf w) (ckf : CheckerObj) (hf : w.checker? f = some ckf) :
    preOf (addPre w f c) g = preOf w g ∧ postsOf (addPre w f c) g = postsOf w g ∧
      snapsOf (addPre w f c) g = snapsOf w g := by
  simp only [addPre, ensureChecker_some _ _ _ hf]
  split
  · next hnil =>
    apply observe_eq_of_cells
    · rfl
    · intro ckg hg r hr
      have hne : r ≠ ckf.pre := fun e =>
        hsep f g ckf ckg hfg hf hg ckf.pre (mem_cellsOf_pre w ckf) (e ▸ hr)
      have hlt : r < w.heap.length := (hwf.2 g ckg hg).2 r hr
      show ((w.heap.alloc [c]).1.append ckf.pre (w.heap.alloc [c]).2).get r = w.heap.get r
      rw [Heap.get_append_ne _ _ _ _ hne, Heap.get_alloc_lt _ _ _ hlt]
  · next g0 rest hcons =>
    apply observe_eq_of_cells
    · rfl
    · intro ckg hg r hr
      have hmem : g0 ∈ cellsOf w ckf := mem_cellsOf_group w ckf g0 (by rw [hcons]; exact List.mem_cons_self)
      have hne : r ≠ g0 := fun e => hsep f g ckf ckg hfg hf hg g0 hmem (e ▸ hr)
      show (w.heap.append g0 c).get r = w.heap.get r
      rw [Heap.get_append_ne _ _ _ _ hne]

theorem addPost_local (w : World) (f g : FnId) (c : CId) (hfg : f ≠ g)
    (hsep : Separated w) (ckf : CheckerObj) (hf : w.checker? f = some ckf) :
    preOf (addPost w f c) g = preOf w g ∧ postsOf (addPost w f c) g = postsOf w g ∧
      snapsOf (addPost w f c) g = snapsOf w g := by
  simp only [addPost, ensureChecker_some _ _ _ hf]
  apply observe_eq_of_cells
  · rfl
  · intro ckg hg r hr
    have hne : r ≠ ckf.posts := fun e =>
      hsep f g ckf ckg hfg hf hg ckf.posts (mem_cellsOf_posts w ckf) (e ▸ hr)
    show (w.heap.append ckf.posts c).get r = w.heap.get r
    rw [Heap.get_append_ne _ _ _ _ hne]

/-! ### steps that keep the functions separated -/

theorem checker?_none_iff (w : World) (f : FnId) :
    w.checker? f = none ↔ f ∉ w.checkers.map (·.1) := by
  simp only [World.checker?, Option.map_eq_none_iff, List.find?_eq_none, List.mem_map, not_exists, not_and]
  constructor
  · intro h p hp e
    have := h p hp
    simp [e] at this
  · intro h p hp
    have := h p hp
    simpa using this

theorem keys_rebind (l : List (FnId × CheckerObj)) (f : FnId) (new : CheckerObj) :
    (l.map (fun p => if p.1 == f then (f, new) else p)).map (·.1) = l.map (·.1) := by
  rw [List.map_map]
  apply List.map_congr_left
  intro p _
  simp only [Function.comp]
  split
  · next h => simpa using (beq_iff_eq.mp h).symm
  · rfl

/-- only allocations, same checker table -/
theorem SepWf.of_same {w w' : World} (hh : HPres w.heap w'.heap) (hc : w'.checkers = w.checkers)
    (h : SepWf w) : SepWf w' := by
  have hck : ∀ f, w'.checker? f = w.checker? f := fun f => by simp only [World.checker?, hc]
  have hcells : ∀ f ck, w.checker? f = some ck → cellsOf w' ck = cellsOf w ck := fun f ck hf =>
    cellsOf_hpres ck hh ((h.2.2 f ck hf).2 _ (mem_cellsOf_pre w ck))
  refine ⟨?_, ?_, ?_⟩
  · intro f g ckf ckg hfg hf hg r hr
    rw [hck] at hf hg
    rw [hcells f ckf hf] at hr
    rw [hcells g ckg hg]
    exact h.1 f g ckf ckg hfg hf hg r hr
  · rw [hc]; exact h.2.1
  · intro f ck hf
    rw [hck] at hf
    rw [hcells f ck hf]
    exact ⟨(h.2.2 f ck hf).1, fun r hr => Nat.lt_of_lt_of_le ((h.2.2 f ck hf).2 r hr) hh.2⟩

/-- the checker of one function `f` is (re-)bound to cells that nobody else owns -/
theorem SepWf.update {w w' : World} (f : FnId) (new : CheckerObj)
    (hh : HPres w.heap w'.heap)
    (hkeys : (w'.checkers.map (·.1)).Nodup)
    (hf : w'.checker? f = some new)
    (hg : ∀ g, g ≠ f → w'.checker? g = w.checker? g)
    (hnodup : (cellsOf w' new).Nodup)
    (hlt : ∀ r ∈ cellsOf w' new, r < w'.heap.length)
    (hnew : ∀ g ckg, g ≠ f → w.checker? g = some ckg → ∀ r ∈ cellsOf w' new, r ∉ cellsOf w ckg)
    (h : SepWf w) : SepWf w' := by
  have hcells : ∀ g ck, w.checker? g = some ck → cellsOf w' ck = cellsOf w ck := fun g ck hgk =>
    cellsOf_hpres ck hh ((h.2.2 g ck hgk).2 _ (mem_cellsOf_pre w ck))
  refine ⟨?_, hkeys, ?_⟩
  · intro f1 f2 ck1 ck2 hne h1 h2 r hr
    by_cases e1 : f1 = f
    · subst e1
      have hf2 : f2 ≠ f1 := fun e => hne e.symm
      rw [hf] at h1
      cases h1
      rw [hg f2 hf2] at h2
      rw [hcells f2 ck2 h2]
      exact hnew f2 ck2 hf2 h2 r hr
    · rw [hg f1 e1] at h1
      rw [hcells f1 ck1 h1] at hr
      by_cases e2 : f2 = f
      · subst e2
        rw [hf] at h2
        cases h2
        exact fun hr' => hnew f1 ck1 e1 h1 r hr' hr
      · rw [hg f2 e2] at h2
        rw [hcells f2 ck2 h2]
        exact h.1 f1 f2 ck1 ck2 hne h1 h2 r hr
  · intro f1 ck1 h1
    by_cases e1 : f1 = f
    · subst e1
      rw [hf] at h1
      cases h1
      exact ⟨hnodup, hlt⟩
    · rw [hg f1 e1] at h1
      rw [hcells f1 ck1 h1]
      exact ⟨(h.2.2 f1 ck1 h1).1, fun r hr => Nat.lt_of_lt_of_le ((h.2.2 f1 ck1 h1).2 r hr) hh.2⟩

theorem nodup_three_append (n : Nat) (l : List Nat) (hl : l.Nodup) (hlt : ∀ r ∈ l, r < n) :
    ([n, n + 1, n + 2] ++ l).Nodup := by
  have h3 : [n, n + 1, n + 2] = List.range' n 3 := by simp [List.range']
  rw [List.nodup_append]
  refine ⟨by rw [h3]; exact List.nodup_range', hl, ?_⟩
  intro a ha b hb e
  have hb' := hlt b hb
  rw [h3, List.mem_range'_1] at ha
  omega

theorem ne_of_le_of_lt (a b n : Nat) (h1 : n ≤ a) (h2 : b < n) : a ≠ b := by omega

theorem mem_three (r n : Nat) (h : r ∈ [n, n + 1, n + 2]) : n ≤ r ∧ r < n + 3 := by
  simp only [List.mem_cons, List.not_mem_nil, or_false] at h
  omega

theorem not_mem_cells_of_ge {w : World} (h : CheckersWf w) (g : FnId) (ckg : CheckerObj)
    (hg : w.checker? g = some ckg) (r : Nat) (hr : w.heap.length ≤ r) : r ∉ cellsOf w ckg :=
  fun hm => Nat.lt_irrefl _ (Nat.lt_of_lt_of_le ((h.2 g ckg hg).2 r hm) hr)

/-- `decorate_with_checker` on a function without a checker -/
theorem freshChecker_sepWf (w : World) (f : FnId) (hnone : w.checker? f = none) (h : SepWf w) :
    SepWf (freshChecker w f).1 := by
  have hh : HPres w.heap (freshChecker w f).1.heap := (freshChecker_frame w f).heap
  have hlen : (freshChecker w f).1.heap.length = w.heap.length + 3 := by
    simp only [freshChecker, Heap.length_alloc]
  have hget : (freshChecker w f).1.heap.get w.heap.length = [] := by
    simp only [freshChecker]
    rw [Heap.get_alloc_lt, Heap.get_alloc_lt, Heap.get_alloc_self] <;>
      simp only [Heap.length_alloc] <;> omega
  have hcells : cellsOf (freshChecker w f).1
      { pre := w.heap.length, snaps := w.heap.length + 1, posts := w.heap.length + 2 } =
      [w.heap.length, w.heap.length + 1, w.heap.length + 2] ++ [] := by
    simp only [cellsOf, hget]
  have hmem : ∀ r ∈ [w.heap.length, w.heap.length + 1, w.heap.length + 2] ++ ([] : List Nat),
      w.heap.length ≤ r ∧ r < w.heap.length + 3 := by
    intro r hr
    simp only [List.append_nil, List.mem_cons, List.not_mem_nil, or_false] at hr
    omega
  have hfn := (freshChecker_frame w f).checkers
  refine SepWf.update f { pre := w.heap.length, snaps := w.heap.length + 1, posts := w.heap.length + 2 }
    hh ?_ ?_ (fun g hg => hfn g hg) ?_ ?_ ?_ h
  · have : (freshChecker w f).1.checkers.map (·.1) = w.checkers.map (·.1) ++ [f] := by
      simp [freshChecker]
    rw [this, List.nodup_append]
    refine ⟨h.2.1, List.nodup_cons.mpr ⟨List.not_mem_nil, List.nodup_nil⟩, ?_⟩
    intro a ha b hb e
    simp only [List.mem_singleton] at hb
    subst hb
    subst e
    exact (checker?_none_iff w a).mp hnone ha
  · have h' : w.checkers.find? (·.1 == f) = none := by
      simpa [World.checker?] using hnone
    simp only [World.checker?, freshChecker]
    rw [find_append_self _ _ _ h']; rfl
  · rw [hcells]
    exact nodup_three_append _ _ List.nodup_nil (fun r hr => by cases hr)
  · rw [hcells, hlen]
    exact fun r hr => (hmem r hr).2
  · rw [hcells]
    exact fun g ckg _ hgk r hr => not_mem_cells_of_ge h.2 g ckg hgk r (hmem r hr).1

theorem ensureChecker_sepWf (w : World) (f : FnId) (h : SepWf w) : SepWf (ensureChecker w f).1 := by
  cases hc : w.checker? f with
  | some ck => rw [ensureChecker_some _ _ _ hc]; exact h
  | none => rw [ensureChecker_none _ _ hc]; exact freshChecker_sepWf w f hc h

/-! ### `decorateOne` keeps the functions separated -/

theorem decorateOne_sepWf (w w' : World) (key : String) (f : FnId) (inh : Bool)
    (base : Bool × List Nat × List Nat × List Nat)
    (hd : decorateOne w key f inh base = .ok w') (h : SepWf w) : SepWf w' := by
  obtain ⟨hv, bPre, bSnaps, bPosts⟩ := base
  rcases decorateOne_cases w w' key f inh hv bPre bSnaps bPosts hd with ⟨rfl, _⟩ | rfl
  · exact h
  · -- the copies
    have hp01 := copyCells_hpres w bPre
    have hcp := copyCells_snd_mem w bPre
    have hcpnd : (copyCells w bPre).2.Nodup := by rw [copyCells_snd]; exact List.nodup_range'
    have h1 : SepWf (copyCells w bPre).1 := h.of_same hp01 (copyCells_fields w bPre).1
    have hck01 := copyCells_checker? w bPre
    -- `ensureChecker`
    have h1e := ensureChecker_sepWf _ f h1
    have fr1e := ensureChecker_frame (copyCells w bPre).1 f
    have hp0e := hp01.trans fr1e.heap
    -- the function's own groups
    have hown_lt : ∀ r : Nat, r ∈ ownPre w f → r < w.heap.length := by
      intro r hr
      simp only [ownPre] at hr
      split at hr
      · next ck hck => exact (h.2.2 f ck hck).2 r (mem_cellsOf_group w ck r hr)
      · cases hr
    have hown_nd : (ownPre w f).Nodup := by
      simp only [ownPre]
      split
      · next ck hck =>
        have := (h.2.2 f ck hck).1
        simp only [cellsOf] at this
        exact (List.nodup_append.mp this).2.1
      · exact List.nodup_nil
    have hown_sep : ∀ g ckg, g ≠ f → w.checker? g = some ckg → ∀ r ∈ ownPre w f, r ∉ cellsOf w ckg := by
      intro g ckg hg hgk r hr
      simp only [ownPre] at hr
      split at hr
      · next ck hck =>
        exact h.1 f g ck ckg (fun e => hg e.symm) hck hgk r (mem_cellsOf_group w ck r hr)
      · cases hr
    -- the installed lists
    have hck2 := installed_checker (copyCells w bPre).1 f ((copyCells w bPre).2 ++ ownPre w f)
      (bSnaps ++ ownSnaps w f) (bPosts ++ ownPosts w f)
    have hheap2 := (installed_heap (copyCells w bPre).1 f ((copyCells w bPre).2 ++ ownPre w f)
      (bSnaps ++ ownSnaps w f) (bPosts ++ ownPosts w f)).1
    have hlen2 : (installed (copyCells w bPre).1 f ((copyCells w bPre).2 ++ ownPre w f)
        (bSnaps ++ ownSnaps w f) (bPosts ++ ownPosts w f)).heap.length =
        (ensureChecker (copyCells w bPre).1 f).1.heap.length + 3 := by
      simp only [installed, Heap.length_alloc]
    have hpe2 : HPres (ensureChecker (copyCells w bPre).1 f).1.heap
        (installed (copyCells w bPre).1 f ((copyCells w bPre).2 ++ ownPre w f)
          (bSnaps ++ ownSnaps w f) (bPosts ++ ownPosts w f)).heap :=
      ((HPres.alloc _ _).trans (HPres.alloc _ _)).trans (HPres.alloc _ _)
    have hkeys2 : (installed (copyCells w bPre).1 f ((copyCells w bPre).2 ++ ownPre w f)
        (bSnaps ++ ownSnaps w f) (bPosts ++ ownPosts w f)).checkers.map (·.1) =
        (ensureChecker (copyCells w bPre).1 f).1.checkers.map (·.1) := by
      simp only [installed]
      exact keys_rebind _ _ _
    have hother2 : ∀ g, g ≠ f → (installed (copyCells w bPre).1 f ((copyCells w bPre).2 ++ ownPre w f)
        (bSnaps ++ ownSnaps w f) (bPosts ++ ownPosts w f)).checker? g =
        (ensureChecker (copyCells w bPre).1 f).1.checker? g := by
      intro g hg
      simp only [World.checker?, installed]
      rw [find_rebind_ne _ _ _ _ hg]
    have hN0 : w.heap.length ≤ (copyCells w bPre).1.heap.length := hp01.2
    have hN1 : (copyCells w bPre).1.heap.length ≤ (ensureChecker (copyCells w bPre).1 f).1.heap.length :=
      fr1e.heap.2
    generalize (ensureChecker (copyCells w bPre).1 f).1.heap.length = N at *
    generalize installed (copyCells w bPre).1 f ((copyCells w bPre).2 ++ ownPre w f)
        (bSnaps ++ ownSnaps w f) (bPosts ++ ownPosts w f) = w2 at *
    have hcells : cellsOf w2 { pre := N, snaps := N + 1, posts := N + 2 } =
        [N, N + 1, N + 2] ++ ((copyCells w bPre).2 ++ ownPre w f) := by
      simp only [cellsOf, hheap2]
    have hpre_lt : ∀ r : Nat, r ∈ (copyCells w bPre).2 ++ ownPre w f → r < N := by
      intro r hr
      rcases List.mem_append.mp hr with hr | hr
      · have := (hcp r hr).2; omega
      · have := hown_lt r hr; omega
    have hpre_nd : ((copyCells w bPre).2 ++ ownPre w f).Nodup := by
      rw [List.nodup_append]
      refine ⟨hcpnd, hown_nd, ?_⟩
      intro a ha b hb e
      exact ne_of_le_of_lt a b _ (hcp a ha).1 (hown_lt b hb) e
    refine SepWf.update f { pre := N, snaps := N + 1, posts := N + 2 } hpe2 ?_ hck2 hother2 ?_ ?_ ?_ h1e
    · rw [hkeys2]; exact h1e.2.1
    · rw [hcells]; exact nodup_three_append N _ hpre_nd hpre_lt
    · rw [hcells, hlen2]
      intro (r : Nat) hr
      show r < N + 3
      rcases List.mem_append.mp hr with hr | hr
      · have := mem_three r N hr; omega
      · have := hpre_lt r hr; omega
    · intro g ckg hg hgk r hr
      -- `g`'s checker and cells are those of the original world
      rw [fr1e.checkers g hg, hck01] at hgk
      have hceq : cellsOf (ensureChecker (copyCells w bPre).1 f).1 ckg = cellsOf w ckg :=
        cellsOf_hpres ckg hp0e ((h.2.2 g ckg hgk).2 _ (mem_cellsOf_pre w ckg))
      rw [hceq]
      rw [hcells] at hr
      rcases List.mem_append.mp hr with hr | hr
      · have := mem_three r N hr
        exact not_mem_cells_of_ge h.2 g ckg hgk r (by omega)
      · rcases List.mem_append.mp hr with hr | hr
        · exact not_mem_cells_of_ge h.2 g ckg hgk r (hcp r hr).1
        · exact hown_sep g ckg hg hgk r hr

/-! ### the namespace pass and the class statement -/

theorem optDecorate_sepWf (w w' : World) (key : String) (o : Option FnId)
    (base : FnId → Bool × List Nat × List Nat × List Nat)
    (hd : (match o with | some f => decorateOne w key f true (base f) | none => .ok w) = .ok w')
    (h : SepWf w) : SepWf w' := by
  cases o with
  | none => cases hd; exact h
  | some f => exact decorateOne_sepWf w w' key f _ _ hd h

theorem decorateMember_sepWf (w w' : World) (bases : List ClsId) (key : String) (m : Member)
    (hd : decorateMember w bases key m = .ok w') (h : SepWf w) : SepWf w' := by
  cases m with
  | func f => simp only [decorateMember] at hd; exact decorateOne_sepWf w w' key f _ _ hd h
  | static f => simp only [decorateMember] at hd; exact decorateOne_sepWf w w' key f _ _ hd h
  | classm f => simp only [decorateMember] at hd; exact decorateOne_sepWf w w' key f _ _ hd h
  | other => cases hd; exact h
  | prop g s d =>
    simp only [decorateMember, Bind.bind, Except.bind] at hd
    split at hd
    · cases hd
    · next w1 h1 =>
      split at hd
      · cases hd
      · next w2 h2 =>
        exact optDecorate_sepWf _ _ _ d (fun f => collectBasesProp _ bases key 2 f) hd
          (optDecorate_sepWf _ _ _ s (fun f => collectBasesProp _ bases key 1 f) h2
            (optDecorate_sepWf _ _ _ g (fun f => collectBasesProp _ bases key 0 f) h1 h))

theorem nsPass_sepWf (bases : List ClsId) (ns : List (String × Member)) (w w' : World)
    (hd : ns.foldlM (fun w (p : String × Member) => decorateMember w bases p.1 p.2) w = .ok w')
    (h : SepWf w) : SepWf w' := by
  induction ns generalizing w with
  | nil =>
    simp only [List.foldlM_nil, pure, Except.pure] at hd
    cases hd; exact h
  | cons p ns ih =>
    simp only [List.foldlM_cons, Bind.bind, Except.bind] at hd
    split at hd
    · cases hd
    · next w1 h1 => exact ih w1 hd (decorateMember_sepWf _ _ _ _ _ h1 h)

theorem collapseInv_checkers (w : World) (bases : List ClsId) (d : InvDunder) :
    (collapseInv w bases d).1.checkers = w.checkers := by
  unfold collapseInv
  simp only []
  split <;> rfl

theorem defineClass_sepWf (w w' : World) (k : ClsId) (bases : List ClsId) (ns : List (String × Member))
    (dbc hook : Bool) (hd : defineClass w k bases ns dbc hook = .ok w') (h : SepWf w) : SepWf w' := by
  cases dbc with
  | false =>
    obtain ⟨cnew, _, rfl⟩ := defineClass_plain w w' k bases ns hook hd
    exact h.of_same (HPres.refl _) rfl
  | true =>
    unfold defineClass at hd
    simp only [Bool.not_true, Bool.false_eq_true, if_false, Bind.bind, Except.bind] at hd
    split at hd
    · cases hd
    · next w2 h2 =>
      have c1 := collapseInv_frame w bases .all
      have c2 := collapseInv_frame (collapseInv w bases .all).1 bases .onCall
      have c3 := collapseInv_frame (collapseInv (collapseInv w bases .all).1 bases .onCall).1 bases .onSetattr
      have e3 : (collapseInv (collapseInv (collapseInv w bases .all).1 bases .onCall).1 bases
          .onSetattr).1.checkers = w.checkers :=
        ((collapseInv_checkers _ _ _).trans (collapseInv_checkers _ _ _)).trans (collapseInv_checkers _ _ _)
      have h0 : SepWf (collapseInv (collapseInv (collapseInv w bases .all).1 bases .onCall).1 bases
          .onSetattr).1 := h.of_same ((c1.trans c2).trans c3).heap e3
      have hs2 := nsPass_sepWf bases ns _ _ h2 h0
      split at hd
      · cases hd
      · have h' := (Except.ok.inj hd).symm
        subst h'
        have key : ∀ (A : World), A.heap = w2.heap → A.checkers = w2.checkers →
            ∀ (c : Prop) (inst : Decidable c), SepWf (@ite _ c inst (addInvariantChecks A k) A) := by
          intro A hA hC c _
          split
          · exact hs2.of_same (by rw [addInvariantChecks_heap, hA]; exact HPres.refl _)
              (by rw [addInvariantChecks_checkers, hC])
          · exact hs2.of_same (by rw [hA]; exact HPres.refl _) hC
        apply key <;> rfl

end Icontract.Meta
